(* C12, last sentence ("a waiter is never overtaken by a waiter that was strictly less urgent
   during the whole time both were waiting"): the step relations.

   One scheduler action (do_action) is a long sequence of primitive steps.  For a fixed
   PriorityLock [l] we follow, through every primitive, what happens to the waiter queue of
   [l] (the array of entries [qa l s]) and to the states of the futures:

   [pre l s s']  (phase 1: everything up to the point where the running task suspends)
      - no entry of l is added or re-keyed: every entry queued in s' is an entry queued in s
        (Leibniz-equal: same key, same arrival number, same future);
      - futures stay done;
      - THE hand-over clause: if the future of a queued entry eb goes from "not woken" to
        "woken" (holds a result), then eb is strictly (key, arrival)-less than every entry ea
        that is still queued and still pending afterwards.
   [post l m s'] (phase 2: the enqueueing half of acquire(), including propagate_priority's
      re-keying, and the bookkeeping of Task.__step after the coroutine has yielded)
      - no queued future of l becomes woken; queued futures are old ones or fresh ids.
   [pp l t s s'] := exists m, pre l t s m /\ post l m s'.

   Without asynkit.eager() starts every action is a [pp] step: a primitive that enqueues
   (acquire() on a busy lock) returns a suspension, after which the step only stores the
   continuation.

   Since the repair of F16 there is a phase 0: the `finally` of acquire(), which runs first when
   a task suspended in acquire() is resumed, calls owning.propagate_priority when the waiter
   leaves a lock that stays locked by another task, and that RE-KEYS entries - possibly entries
   of l.  [rek l s m0] says what such a step keeps (which futures are queued, their states, the
   owner of l).  Phase 1 therefore also records, for the running task t, [otr]: a wake-up of a
   waiter of l after phase 0 happens only if t owned l when phase 1 began ([o_own]), and t does not
   become the owner of l while l has waiters ([o_gain]).  So "re-keyed, then woken" needs a task
   that owns l and was suspended in acquire(): a waits-for cycle broken by a cancellation. *)
From Coq Require Import QArith Lqa Sorting.Permutation.
From RecordUpdate Require Import RecordUpdate.
From Asynkit Require Import Base.Prelude Queue.PQ Queue.Order Queue.PQProofs Queue.PosPQ Queue.Exec
  Sched.Model Sched.Tables Sched.QFacts Sched.LockInv Sched.Footprint Sched.LockOps
  Sched.InheritEprio Sched.InheritHandover.
Import RecordSetNotations.
Open Scope nat_scope.

Definition qa (l : nat) (s : st) : list (entry Q) := arr (lpq (getl s l)).
Definition fo (e : entry Q) : nat := Z.to_nat (eobj e).
Definition nf (s : st) : nat := length (futs s).

Lemma objs_qa l s : objs s l = map fo (qa l s).
Proof. reflexivity. Qed.

Lemma in_objs_qa l s e : In e (qa l s) -> In (fo e) (objs s l).
Proof. intros H. rewrite objs_qa. now apply in_map. Qed.

Lemma fdone_inrange s f : fdone s f = true -> f < nf s.
Proof.
  intros H. destruct (Nat.lt_ge_cases f (nf s)) as [|Hge]; auto.
  unfold fdone in H. rewrite getf_oob in H by exact Hge. discriminate.
Qed.

Lemma woken_fdone s f : woken s f = true -> fdone s f = true.
Proof. unfold woken, fdone. destruct (fstate_ (getf s f)); auto. Qed.

(* ------------------------------------------------------------ phase 1 *)
Record prc (l : nat) (s s' : st) : Prop := mkPre {
  p_len : nf s <= nf s';
  p_sub : forall e, In e (qa l s') -> In e (qa l s);
  p_done : forall f, fdone s f = true -> fdone s' f = true;
  p_min : forall ea eb, In ea (qa l s') -> In eb (qa l s') ->
          woken s (fo eb) = false -> woken s' (fo eb) = true -> fdone s' (fo ea) = false ->
          entry_lt qltb eb ea = true }.

Lemma prc_refl l s : prc l s s.
Proof. constructor; auto. intros ea eb _ _ A B. congruence. Qed.

Lemma prc_trans l s1 s2 s3 : prc l s1 s2 -> prc l s2 s3 -> prc l s1 s3.
Proof.
  intros A B. constructor.
  - pose proof (p_len _ _ _ A). pose proof (p_len _ _ _ B). lia.
  - intros e H. apply (p_sub _ _ _ A), (p_sub _ _ _ B), H.
  - intros f H. apply (p_done _ _ _ B), (p_done _ _ _ A), H.
  - intros ea eb Ha Hb W1 W3 Da. destruct (woken s2 (fo eb)) eqn:W2.
    + apply (p_min _ _ _ A); auto; try (apply (p_sub _ _ _ B); assumption).
      destruct (fdone s2 (fo ea)) eqn:D2; auto. apply (p_done _ _ _ B) in D2. congruence.
    + apply (p_min _ _ _ B); auto.
Qed.

(* ownership of l by the running task t during phase 1 *)
Record otr (l t : nat) (s s' : st) : Prop := mkOtr {
  o_own : forall e, In e (qa l s') -> woken s (fo e) = false -> woken s' (fo e) = true ->
          lowner (getl s l) = Some t;
  o_gain : lowner (getl s' l) = Some t -> lowner (getl s l) = Some t \/ qa l s' = [] }.

Definition pre (l t : nat) (s s' : st) : Prop := prc l s s' /\ otr l t s s'.

Lemma pre_refl l t s : pre l t s s.
Proof. split; [apply prc_refl|]. constructor; auto. intros e _ A B. congruence. Qed.

Lemma pre_trans l t s1 s2 s3 : pre l t s1 s2 -> pre l t s2 s3 -> pre l t s1 s3.
Proof.
  intros [A OA] [B OB]. split; [eapply prc_trans; eauto|]. constructor.
  - intros e He W1 W3. destruct (woken s2 (fo e)) eqn:W2.
    + apply (o_own _ _ _ _ OA e); auto. apply (p_sub _ _ _ B), He.
    + pose proof (o_own _ _ _ _ OB e He W2 W3) as H2.
      destruct (o_gain _ _ _ _ OA H2) as [H|H]; auto.
      apply (p_sub _ _ _ B) in He. rewrite H in He. destruct He.
  - intros H3. destruct (o_gain _ _ _ _ OB H3) as [H2|H2]; auto.
    destruct (o_gain _ _ _ _ OA H2) as [H1|H1]; auto. right.
    destruct (qa l s3) as [|e r] eqn:E; auto.
    assert (He : In e (qa l s2)) by (apply (p_sub _ _ _ B); rewrite E; now left).
    rewrite H1 in He. destruct He.
Qed.

Lemma pre_prc l t s s' : pre l t s s' -> prc l s s'.
Proof. now intros [A _]. Qed.

(* ------------------------------------------------------------ phase 0: re-keying only *)
Record rek (l : nat) (s s' : st) : Prop := mkRek {
  r_len : nf s <= nf s';
  r_objs : forall f, In f (objs s' l) -> In f (objs s l);
  r_wok : forall f, In f (objs s' l) -> woken s' f = true -> woken s f = true;
  r_own : lowner (getl s' l) = lowner (getl s l) }.

Lemma rek_refl l s : rek l s s.
Proof. constructor; auto. Qed.

Lemma rek_trans l s1 s2 s3 : rek l s1 s2 -> rek l s2 s3 -> rek l s1 s3.
Proof.
  intros A B. constructor.
  - pose proof (r_len _ _ _ A). pose proof (r_len _ _ _ B). lia.
  - intros f H. apply (r_objs _ _ _ A), (r_objs _ _ _ B), H.
  - intros f H W. apply (r_wok _ _ _ A); [apply (r_objs _ _ _ B), H|]. apply (r_wok _ _ _ B); auto.
  - now rewrite (r_own _ _ _ B), (r_own _ _ _ A).
Qed.

(* what precedes phase 1: either nothing is re-keyed, or only re-keying happens *)
Definition lead (l : nat) (s s' : st) : Prop := prc l s s' \/ rek l s s'.

(* ------------------------------------------------------------ phase 2 *)
Record post (l : nat) (m s' : st) : Prop := mkPost {
  q_len : nf m <= nf s';
  q_objs : forall f, In f (objs s' l) -> In f (objs m l) \/ nf m <= f;
  q_done : forall f, fdone m f = true -> fdone s' f = true;
  q_wok : forall f, f < nf m -> In f (objs s' l) -> woken s' f = true -> woken m f = true }.

Lemma post_refl l s : post l s s.
Proof. constructor; auto. Qed.

Lemma post_trans l s1 s2 s3 : post l s1 s2 -> post l s2 s3 -> post l s1 s3.
Proof.
  intros A B. pose proof (q_len _ _ _ A) as LA. pose proof (q_len _ _ _ B) as LB. constructor.
  - lia.
  - intros f H. destruct (q_objs _ _ _ B f H) as [H2|H2]; [|right; lia].
    apply (q_objs _ _ _ A f H2).
  - intros f H. apply (q_done _ _ _ B), (q_done _ _ _ A), H.
  - intros f Hf H W. destruct (q_objs _ _ _ B f H) as [H2|H2]; [|lia].
    apply (q_wok _ _ _ A f Hf H2). apply (q_wok _ _ _ B f); auto. lia.
Qed.

Definition pp (l t : nat) (s s' : st) : Prop := exists m, pre l t s m /\ post l m s'.
(* steps that belong to both phases, whoever is running *)
Definition both (l : nat) (s s' : st) : Prop := (forall t, pre l t s s') /\ post l s s'.

Lemma pp_pre l t s s' : pre l t s s' -> pp l t s s'.
Proof. intros H. exists s'. split; auto. apply post_refl. Qed.
Lemma pp_post l t s s' : post l s s' -> pp l t s s'.
Proof. intros H. exists s. split; auto. apply pre_refl. Qed.
Lemma pp_both l t s s' : both l s s' -> pp l t s s'.
Proof. intros [H _]. now apply pp_pre. Qed.
Lemma pp_refl l t s : pp l t s s.
Proof. apply pp_pre, pre_refl. Qed.
Lemma pp_pre_l l t s1 s2 s3 : pre l t s1 s2 -> pp l t s2 s3 -> pp l t s1 s3.
Proof. intros A (m & B & C). exists m. split; auto. eapply pre_trans; eauto. Qed.
Lemma pp_post_r l t s1 s2 s3 : pp l t s1 s2 -> post l s2 s3 -> pp l t s1 s3.
Proof. intros (m & B & C) A. exists m. split; auto. eapply post_trans; eauto. Qed.
Lemma both_refl l s : both l s s.
Proof. split; [intros t; apply pre_refl|apply post_refl]. Qed.
Lemma both_trans l s1 s2 s3 : both l s1 s2 -> both l s2 s3 -> both l s1 s3.
Proof. intros [A1 A2] [B1 B2]. split; [intros t; eapply pre_trans|eapply post_trans]; eauto. Qed.
Lemma both_pre l t s s' : both l s s' -> pre l t s s'.
Proof. intros [A _]. apply A. Qed.
Lemma both_prc l s s' : both l s s' -> prc l s s'.
Proof. intros [A _]. apply (A 0). Qed.
Lemma pp_both_r l t s1 s2 s3 : pp l t s1 s2 -> both l s2 s3 -> pp l t s1 s3.
Proof. intros A [_ B]. eapply pp_post_r; eauto. Qed.
Lemma pp_both_l l t s1 s2 s3 : both l s1 s2 -> pp l t s2 s3 -> pp l t s1 s3.
Proof. intros [A _] B. eapply pp_pre_l; eauto. Qed.
Lemma pre_both_r l t s1 s2 s3 : pre l t s1 s2 -> both l s2 s3 -> pre l t s1 s3.
Proof. intros A [B _]. eapply pre_trans; eauto. Qed.

(* ------------------------------------------------------------ steps that leave l's queue and the
   states of the old futures alone *)
Lemma both_fs l s s' :
  lpq (getl s' l) = lpq (getl s l) ->
  (lowner (getl s' l) = lowner (getl s l) \/ qa l s' = []) ->
  nf s <= nf s' ->
  (forall f, f < nf s -> fstate_ (getf s' f) = fstate_ (getf s f)) ->
  (forall f, nf s <= f -> woken s' f = false) ->
  both l s s'.
Proof.
  intros El Eo' Hn Hf Hnew.
  assert (Eq : qa l s' = qa l s) by (unfold qa; now rewrite El).
  assert (Eo : objs s' l = objs s l) by (unfold objs; now rewrite El).
  assert (Hw : forall f, woken s' f = true -> woken s f = true).
  { intros f W. destruct (Nat.lt_ge_cases f (nf s)) as [H|H].
    - unfold woken in *. now rewrite <- Hf.
    - rewrite Hnew in W by exact H. discriminate. }
  assert (Hd : forall f, fdone s f = true -> fdone s' f = true).
  { intros f D. pose proof (fdone_inrange _ _ D) as Hr. unfold fdone in *. now rewrite Hf. }
  split; [intros t; split|]; constructor; auto.
  - intros e. now rewrite Eq.
  - intros ea eb _ _ W0 W1. apply Hw in W1. congruence.
  - intros e _ W0 W1. apply Hw in W1. congruence.
  - intros H. destruct Eo' as [E|E]; [left; now rewrite <- E|now right].
  - intros f. rewrite Eo. auto.
Qed.

(* the same steps leave everything [rek] speaks about alone *)
Lemma rek_fs l s s' :
  lpq (getl s' l) = lpq (getl s l) -> lowner (getl s' l) = lowner (getl s l) ->
  nf s <= nf s' ->
  (forall f, f < nf s -> fstate_ (getf s' f) = fstate_ (getf s f)) ->
  (forall f, nf s <= f -> woken s' f = false) ->
  rek l s s'.
Proof.
  intros El Eo' Hn Hf Hnew.
  assert (Eo : objs s' l = objs s l) by (unfold objs; now rewrite El).
  constructor; auto.
  - intros f. now rewrite Eo.
  - intros f _ W. destruct (Nat.lt_ge_cases f (nf s)) as [H|H].
    + unfold woken in *. now rewrite <- Hf.
    + rewrite Hnew in W by exact H. discriminate.
Qed.

Lemma both_same_g l s s' :
  lpq (getl s' l) = lpq (getl s l) ->
  (lowner (getl s' l) = lowner (getl s l) \/ qa l s' = []) -> futs s' = futs s -> both l s s'.
Proof.
  intros El Eo Ef. apply both_fs; auto.
  - unfold nf. rewrite Ef. lia.
  - intros f _. unfold getf. now rewrite Ef.
  - intros f H. unfold woken. rewrite getf_oob; auto. unfold nf in H. now rewrite Ef.
Qed.

Lemma both_same l s s' :
  lpq (getl s' l) = lpq (getl s l) -> lowner (getl s' l) = lowner (getl s l) ->
  futs s' = futs s -> both l s s'.
Proof. intros El Eo Ef. apply both_same_g; auto. Qed.

Lemma rek_same l s s' :
  lpq (getl s' l) = lpq (getl s l) -> lowner (getl s' l) = lowner (getl s l) ->
  futs s' = futs s -> rek l s s'.
Proof.
  intros El Eo Ef. apply rek_fs; auto.
  - unfold nf. rewrite Ef. lia.
  - intros f _. unfold getf. now rewrite Ef.
  - intros f H. unfold woken. rewrite getf_oob; auto. unfold nf in H. now rewrite Ef.
Qed.

Lemma prc_same l s s' :
  lpq (getl s' l) = lpq (getl s l) -> futs s' = futs s -> prc l s s'.
Proof.
  intros El Ef.
  assert (Eq : qa l s' = qa l s) by (unfold qa; now rewrite El).
  constructor.
  - unfold nf. rewrite Ef. lia.
  - intros e. now rewrite Eq.
  - intros f. unfold fdone, getf. now rewrite Ef.
  - intros ea eb _ _ W0 W1. unfold woken, getf in *. rewrite Ef in W1. congruence.
Qed.

Lemma both_new_future l s o : both l s (fst (new_future s o)).
Proof.
  unfold new_future. cbn [fst]. apply both_fs.
  - reflexivity.
  - now left.
  - unfold nf. cbn. rewrite app_length. lia.
  - intros f H. unfold getf. cbn. now rewrite nth_app_old.
  - intros f H. unfold woken, getf. cbn. destruct (Nat.eq_dec f (nf s)) as [->|Hne].
    + unfold nf. now rewrite nth_app_fresh.
    + rewrite nth_oob; auto. rewrite app_length. simpl. unfold nf in *. lia.
Qed.

Lemma both_setf_flag l s f x : fstate_ x = fstate_ (getf s f) -> both l s (setf s f x).
Proof.
  intros E. apply both_fs.
  - reflexivity.
  - now left.
  - unfold nf, setf. cbn. rewrite set_nth_length. lia.
  - intros g _. rewrite getf_setf.
    destruct (Nat.eqb f g && Nat.ltb f (length (futs s)))%bool eqn:C; auto.
    apply andb_prop in C as [C _]. apply Nat.eqb_eq in C. now subst g.
  - intros g Hg. unfold woken. rewrite getf_setf.
    destruct (Nat.eqb f g && Nat.ltb f (length (futs s)))%bool eqn:C.
    + apply andb_prop in C as [C1 C2]. apply Nat.eqb_eq in C1. apply Nat.ltb_lt in C2.
      subst g. unfold nf in Hg. lia.
    + rewrite getf_oob; auto.
Qed.

(* steps in the footprint class of C13 *)
Lemma both_chg l W s s' :
  chg W s s' -> Inv s -> (forall g, W g -> ~ In g (objs s l)) -> both l s s'.
Proof.
  intros C I HW.
  assert (Eq : qa l s' = qa l s).
  { unfold qa. destruct (c_lock C l) as (_ & _ & -> & _). reflexivity. }
  assert (Eo : objs s' l = objs s l) by (apply (chg_objs l C)).
  assert (Hw : forall f, In f (objs s l) -> woken s' f = true -> woken s f = true).
  { intros f Hin W1. assert (lockfut s f) as Hl by (now exists l).
    destruct (iD0 I _ Hl) as [Hr _]. destruct (c_woken C _ Hr W1) as [|Hx]; auto.
    exfalso. eapply HW; eauto. }
  split; [intros t; split|]; constructor.
  - apply (c_nfuts C).
  - intros e. now rewrite Eq.
  - apply (c_done C).
  - intros ea eb _ Hb W0 W1 _. rewrite Eq in Hb. apply in_objs_qa in Hb.
    rewrite (Hw _ Hb W1) in W0. discriminate.
  - intros e He W0 W1. rewrite Eq in He. apply in_objs_qa in He.
    rewrite (Hw _ He W1) in W0. discriminate.
  - intros H. left. destruct (c_lock C l) as (_ & E & _). now rewrite <- E.
  - apply (c_nfuts C).
  - intros f. rewrite Eo. auto.
  - apply (c_done C).
  - intros f _ Hin W1. rewrite Eo in Hin. auto.
Qed.

Lemma both_benign l s s' : benign s s' -> Inv s -> both l s s'.
Proof.
  intros B I. eapply both_chg; eauto. intros g Hg Hin. apply Hg. now exists l.
Qed.

Lemma rek_benign l s s' : benign s s' -> Inv s -> rek l s s'.
Proof.
  intros C I.
  assert (Eo : objs s' l = objs s l) by (apply (chg_objs l C)).
  constructor.
  - apply (c_nfuts C).
  - intros f. now rewrite Eo.
  - intros f Hin W1. rewrite Eo in Hin. assert (lockfut s f) as Hl by (now exists l).
    destruct (iD0 I _ Hl) as [Hr _]. destruct (c_woken C _ Hr W1) as [Hx|Hx]; [exact Hx|].
    exfalso. apply Hx. exact Hl.
  - destruct (c_lock C l) as (_ & E & _). exact E.
Qed.

(* ------------------------------------------------------------ the queue part of the invariant *)
Definition QD (s : st) : Prop :=
  (forall l, qwf (lpq (getl s l))) /\
  (forall l1 l2 g, In g (objs s l1) -> In g (objs s l2) -> l1 = l2).

Lemma QD_of_Inv s : Inv s -> QD s.
Proof. intros I. split; [apply (iB1 I)|apply (iD1 I)]. Qed.

Lemma QD_same s s' : (forall l, lpq (getl s' l) = lpq (getl s l)) -> QD s -> QD s'.
Proof.
  intros E [A B]. split.
  - intros l. rewrite E. apply A.
  - intros l1 l2 g. unfold objs. rewrite !E. apply B.
Qed.

(* ------------------------------------------------------------ fut_finish / _wake_up_first *)
Lemma ff_state s f x g :
  fstate_ (getf (fst (fut_finish s f x)) g) = fstate_ (getf s g) \/
  (g = f /\ fstate_ (getf (fst (fut_finish s f x)) g) = x).
Proof.
  unfold fut_finish. destruct (fstate_ (getf s f)) eqn:E; cbn [fst]; auto.
  unfold schedule_callbacks.
  match goal with |- context [fold_left ?F ?L ?S] => destruct (fold_soon_proj f L S) as (_ & B & _) end.
  rewrite (getf_congr _ _ g B).
  set (s1 := setf s f (getf s f <| fstate_ := x |>)).
  assert (L1 : length (futs s1) = length (futs s)) by (unfold s1, setf; cbn; apply set_nth_length).
  destruct (Nat.eq_dec f g) as [<-|Hne].
  - destruct (Nat.lt_ge_cases f (length (futs s))) as [Hr|Hr].
    + right. split; auto. rewrite getf_setf_same by (rewrite L1; exact Hr).
      unfold s1. rewrite getf_setf_same by exact Hr. reflexivity.
    + left. rewrite getf_oob by (unfold s1, setf; cbn; rewrite !set_nth_length; exact Hr).
      rewrite getf_oob by exact Hr. reflexivity.
  - left. rewrite getf_setf_other by exact Hne. unfold s1. now rewrite getf_setf_other by exact Hne.
Qed.

Lemma ff_len s f x : nf (fst (fut_finish s f x)) = nf s.
Proof. apply fut_finish_proj. Qed.

Lemma ff_locks s f x : locks (fst (fut_finish s f x)) = locks s.
Proof. apply fut_finish_proj. Qed.

(* _wake_up_first of lock l0, seen from lock l *)
Lemma prc_wake l s l0 :
  qwf (lpq (getl s l0)) ->
  (l0 <> l -> forall g, In g (objs s l0) -> ~ In g (objs s l)) ->
  prc l s (wake_up_first_p s l0).
Proof.
  intros (Hq & Hnd & _) Hdis.
  destruct (wake_cases s l0 Hq) as [E|(head & rest & Ea & Hnw & Ep & Ew & Hmin)].
  { rewrite E. apply prc_refl. }
  set (h := Z.to_nat (eobj head)) in *.
  assert (Hst : forall g, fstate_ (getf (wake_up_first_p s l0) g) = fstate_ (getf s g) \/
                          (g = h /\ fstate_ (getf (wake_up_first_p s l0) g) = FResult 1)).
  { intros g. rewrite Ew. apply ff_state. }
  assert (Eq : qa l (wake_up_first_p s l0) = qa l s).
  { unfold qa, getl. now rewrite wake_locks. }
  constructor.
  - rewrite Ew, ff_len. lia.
  - intros e. now rewrite Eq.
  - intros f D. unfold fdone in *. destruct (Hst f) as [E|[_ E]]; rewrite E; auto.
  - intros ea eb Ha Hb W0 W1 Da. rewrite Eq in Ha, Hb.
    destruct (Hst (fo eb)) as [E|[E1 E2]].
    { unfold woken in *. rewrite E in W1. congruence. }
    destruct (Nat.eq_dec l0 l) as [->|Hne].
    + unfold qa in Ha, Hb. rewrite Ea in Ha, Hb.
      unfold pq_objs in Hnd. rewrite Ea in Hnd. simpl in Hnd. inversion Hnd as [|? ? Hni _]; subst.
      assert (eb = head) as ->.
      { destruct Hb as [<-|Hb]; auto. exfalso. apply Hni. fold h. rewrite <- E1.
        apply in_map_iff. exists eb. auto. }
      destruct Ha as [<-|Ha]; [|now apply Hmin].
      exfalso. unfold fdone in Da. unfold fo in Da, E2. rewrite E2 in Da. discriminate.
    + exfalso. apply (Hdis Hne h).
      * unfold objs, pq_objs. rewrite Ea. simpl. now left.
      * rewrite <- E1. now apply in_objs_qa.
Qed.

(* _take_lock *)
Lemma take_lock_same s l0 t s' :
  take_lock s l0 t = inl s' -> futs s' = futs s /\ forall l, lpq (getl s' l) = lpq (getl s l).
Proof.
  unfold take_lock. destruct (lowner (getl s l0)); [discriminate|]. intros H. inversion H; subst s'. clear H.
  set (s1 := setl s l0 (getl s l0 <| lowner := Some t |> <| llocked := true |>)).
  assert (A : futs s1 = futs s /\ forall l, lpq (getl s1 l) = lpq (getl s l)).
  { split; [reflexivity|]. intros l. unfold s1. rewrite getl_setl.
    destruct (Nat.eqb l0 l && _)%bool eqn:C; auto.
    apply andb_prop in C as [C _]. apply Nat.eqb_eq in C. now subst l. }
  destruct (is_prio_task s1 t); exact A.
Qed.

Lemma setl_lpq_other s l0 x l : l0 <> l -> lpq (getl (setl s l0 x) l) = lpq (getl s l).
Proof. intros H. now rewrite getl_setl_other. Qed.

(* propagate_priority does not touch the future table *)
Lemma prop_futs fuel : forall s t, futs (propagate_task fuel s t) = futs s.
Proof.
  induction fuel as [|fuel IH]; intros s t; cbn [propagate_task].
  - destruct (negb (is_prio_task s t)); auto.
    set (s0 := if task_is_runnable s t then task_reschedule s t else s).
    assert (E0 : futs s0 = futs s) by (unfold s0; destruct (task_is_runnable s t); auto).
    clearbody s0. rewrite <- E0. clear E0 s. rename s0 into s.
    destruct (twaiting (gett s t)); auto.
  - destruct (negb (is_prio_task s t)); auto.
    set (s0 := if task_is_runnable s t then task_reschedule s t else s).
    assert (E0 : futs s0 = futs s) by (unfold s0; destruct (task_is_runnable s t); auto).
    clearbody s0. rewrite <- E0. clear E0 s. rename s0 into s.
    destruct (twaiting (gett s t)) as [l|]; auto.
    set (s1 := match lowner (getl s l) with Some o => propagate_task fuel s o | None => s end).
    assert (E1 : futs s1 = futs s) by (unfold s1; destruct (lowner (getl s l)); auto).
    destruct (find _ (lwt (getl s1 l))) as [[f t0]|]; auto.
    destruct (pq_reschedule HQ (lpq (getl s1 l)) _ _) as [[o q']|]; auto.
Qed.

(* which futures are queued after propagate_priority: the same *)
Lemma prop_objs fuel : forall s t, QD s ->
  QD (propagate_task fuel s t) /\
  forall l g, In g (objs (propagate_task fuel s t) l) <-> In g (objs s l).
Proof.
  assert (Triv : forall s s', QD s -> locks s' = locks s ->
            QD s' /\ forall l g, In g (objs s' l) <-> In g (objs s l)).
  { intros s s' Q El.
    assert (E : forall l, getl s' l = getl s l) by (intros; unfold getl; now rewrite El).
    split; [apply (QD_same s s'); auto; intros l; now rewrite E|].
    intros l g. unfold objs. rewrite E. tauto. }
  induction fuel as [|fuel IH]; intros s t Q; cbn [propagate_task].
  - destruct (negb (is_prio_task s t)); [apply Triv; auto|].
    set (s0 := if task_is_runnable s t then task_reschedule s t else s).
    assert (P0 : QD s0 /\ forall l g, In g (objs s0 l) <-> In g (objs s l))
      by (unfold s0; destruct (task_is_runnable s t); apply Triv; auto).
    clearbody s0. destruct P0 as (Q0 & Ho0).
    match goal with |- QD ?R /\ _ => cut (QD R /\ forall l g, In g (objs R l) <-> In g (objs s0 l)) end;
      [intros [A B]; split; [exact A|intros l1 g; rewrite B; apply Ho0]|].
    clear Ho0 Q s. rename s0 into s, Q0 into Q.
    destruct (twaiting (gett s t)); apply Triv; auto.
  - destruct (negb (is_prio_task s t)); [apply Triv; auto|].
    set (s0 := if task_is_runnable s t then task_reschedule s t else s).
    assert (P0 : QD s0 /\ forall l g, In g (objs s0 l) <-> In g (objs s l))
      by (unfold s0; destruct (task_is_runnable s t); apply Triv; auto).
    clearbody s0. destruct P0 as (Q0 & Ho0).
    match goal with |- QD ?R /\ _ => cut (QD R /\ forall l g, In g (objs R l) <-> In g (objs s0 l)) end;
      [intros [A B]; split; [exact A|intros l1 g; rewrite B; apply Ho0]|].
    clear Ho0 Q s. rename s0 into s, Q0 into Q.
    destruct (twaiting (gett s t)) as [l|]; [|apply Triv; auto].
    set (s1 := match lowner (getl s l) with Some o => propagate_task fuel s o | None => s end).
    assert (P1 : QD s1 /\ forall l g, In g (objs s1 l) <-> In g (objs s l)).
    { unfold s1. destruct (lowner (getl s l)); [now apply IH|apply Triv; auto]. }
    destruct P1 as (Q1 & Ho1).
    destruct (find _ (lwt (getl s1 l))) as [[f t0]|]; [|auto].
    destruct (pq_reschedule HQ (lpq (getl s1 l)) _ _) as [[o q']|] eqn:Er; [|auto].
    destruct (pq_resched_objs _ _ _ _ _ (proj1 Q1 l) Er) as [Hq Hp].
    set (s2 := setl s1 l (getl s1 l <| lpq := q' |>)).
    assert (Ho2 : forall l0 g, In g (objs s2 l0) <-> In g (objs s1 l0)).
    { intros l0 g. unfold s2, objs. rewrite getl_setl.
      destruct (Nat.eqb l l0 && _)%bool eqn:C; [|tauto].
      apply andb_prop in C as [C _]. apply Nat.eqb_eq in C. subst l0. cbn. split; intros H.
      - eapply Permutation_in; eauto.
      - eapply Permutation_in; [apply Permutation_sym|]; eauto. }
    split.
    + split.
      * intros l0. unfold s2. rewrite getl_setl. destruct (Nat.eqb l l0 && _)%bool; [exact Hq|apply (proj1 Q1)].
      * intros l1 l2 g H1 H2. apply Ho2 in H1, H2. eapply (proj2 Q1); eauto.
    + intros l0 g. rewrite Ho2. apply Ho1.
Qed.

(* ... nor the owners *)
Lemma prop_owner fuel : forall s t l0,
  lowner (getl (propagate_task fuel s t) l0) = lowner (getl s l0).
Proof.
  induction fuel as [|fuel IH]; intros s t l0; cbn [propagate_task].
  - destruct (negb (is_prio_task s t)); auto.
    set (s0 := if task_is_runnable s t then task_reschedule s t else s).
    assert (E0 : lowner (getl s0 l0) = lowner (getl s l0)) by (unfold s0; destruct (task_is_runnable s t); auto).
    clearbody s0. rewrite <- E0. clear E0 s. rename s0 into s.
    destruct (twaiting (gett s t)); auto.
  - destruct (negb (is_prio_task s t)); auto.
    set (s0 := if task_is_runnable s t then task_reschedule s t else s).
    assert (E0 : lowner (getl s0 l0) = lowner (getl s l0)) by (unfold s0; destruct (task_is_runnable s t); auto).
    clearbody s0. rewrite <- E0. clear E0 s. rename s0 into s.
    destruct (twaiting (gett s t)) as [l|]; auto.
    set (s1 := match lowner (getl s l) with Some o => propagate_task fuel s o | None => s end).
    assert (E1 : lowner (getl s1 l0) = lowner (getl s l0)).
    { unfold s1. destruct (lowner (getl s l)); auto. }
    destruct (find _ (lwt (getl s1 l))) as [[f t0]|]; auto.
    destruct (pq_reschedule HQ (lpq (getl s1 l)) _ _) as [[o q']|]; auto.
    rewrite getl_setl. destruct (Nat.eqb l l0 && _)%bool eqn:C; auto.
    apply andb_prop in C as [C _]. apply Nat.eqb_eq in C. subst l0. cbn. exact E1.
Qed.

(* propagate_priority as a phase-0 step *)
Lemma rek_propagate l s o : QD s -> rek l s (propagate_priority s o).
Proof.
  intros Q. unfold propagate_priority. constructor.
  - unfold nf. rewrite prop_futs. lia.
  - intros f. apply prop_objs. exact Q.
  - intros f _. unfold woken, getf. now rewrite prop_futs.
  - apply prop_owner.
Qed.

Lemma take_lock_owner s l0 t s' :
  take_lock s l0 t = inl s' ->
  lowner (getl s' l0) = Some t \/ lowner (getl s' l0) = None.
Proof.
  unfold take_lock. destruct (lowner (getl s l0)) eqn:Eo; [discriminate|].
  intros H. inversion H; subst s'. clear H.
  set (s1 := setl s l0 (getl s l0 <| lowner := Some t |> <| llocked := true |>)).
  assert (A : lowner (getl s1 l0) = Some t \/ lowner (getl s1 l0) = None).
  { unfold s1. rewrite getl_setl. destruct (Nat.eqb l0 l0 && _)%bool; [left; reflexivity|right; exact Eo]. }
  destruct (is_prio_task s1 t); exact A.
Qed.

(* the part of acquire() after `await fut`: either nothing is re-keyed (the waiter takes the lock,
   or the lock is free and the next waiter is woken), or the waiter leaves a lock that stays
   locked by another task and its owner propagates (re-keys) *)
Lemma acq_finish_lead l s t l0 f had inp :
  QD s -> lead l s (fst (acquire_p_finish s t l0 f had inp)).
Proof.
  intros Q. unfold acquire_p_finish.
  set (p := match inp with
            | RVal _ => match take_lock s l0 t with inl s' => (s', RVal 1) | inr e => (s, RExc e) end
            | RExc e => (s, RExc e) end).
  assert (K0 : (futs (fst p) = futs s /\ forall l, lpq (getl (fst p) l) = lpq (getl s l)) /\
               (fst p = s \/ lowner (getl (fst p) l0) = Some t \/ lowner (getl (fst p) l0) = None)).
  { unfold p. destruct inp; cbn [fst]; auto. destruct (take_lock s l0 t) eqn:E; cbn [fst]; auto.
    split; [eapply take_lock_same; eauto|]. right. eapply take_lock_owner; eauto. }
  destruct p as [s0 r]. cbn [fst] in K0. destruct K0 as [[Ef0 El0] Ho0].
  pose proof (QD_same s s0 El0 Q) as Q0.
  assert (P0 : prc l s s0) by (apply prc_same; auto).
  set (s1 := match pq_remove HQ (lpq (getl s0 l0)) (Z.of_nat f) with
             | Some (_, q') => setl s0 l0 (getl s0 l0 <| lpq := q' |>
                  <| lwt := filter (fun pr => negb (Nat.eqb (fst pr) f)) (lwt (getl s0 l0)) |>)
             | None => s0 end).
  assert (H1 : futs s1 = futs s0 /\ (forall e, In e (qa l s1) -> In e (qa l s0)) /\
               (forall l1, qwf (lpq (getl s1 l1))) /\
               (forall l1 g, In g (objs s1 l1) -> In g (objs s0 l1)) /\
               (forall l1, lowner (getl s1 l1) = lowner (getl s0 l1))).
  { unfold s1. destruct (pq_remove HQ (lpq (getl s0 l0)) (Z.of_nat f)) as [[pr q']|] eqn:Er.
    - destruct (qwf_remove _ _ _ _ (proj1 Q0 l0) Er) as (Hq & Hp & _).
      destruct (pq_remove_perm _ _ _ _ (proj1 (proj1 Q0 l0)) Er) as (_ & e & _ & Hpe).
      split; [reflexivity|]. split; [|split; [|split]].
      + intros x. unfold qa. rewrite getl_setl.
        destruct (Nat.eqb l0 l && _)%bool eqn:C; auto.
        apply andb_prop in C as [C _]. apply Nat.eqb_eq in C. subst l0. cbn. intros Hx.
        eapply Permutation_in; [apply Permutation_sym; exact Hpe|]. now right.
      + intros l1. rewrite getl_setl. destruct (Nat.eqb l0 l1 && _)%bool eqn:C; [|apply (proj1 Q0)].
        exact Hq.
      + intros l1 g. unfold objs. rewrite getl_setl.
        destruct (Nat.eqb l0 l1 && _)%bool eqn:C; auto.
        apply andb_prop in C as [C _]. apply Nat.eqb_eq in C. subst l1. cbn. intros Hx.
        eapply Permutation_in; [apply Permutation_sym; exact Hp|]. now right.
      + intros l1. rewrite getl_setl. destruct (Nat.eqb l0 l1 && _)%bool eqn:C; auto.
        apply andb_prop in C as [C _]. apply Nat.eqb_eq in C. subst l1. reflexivity.
    - split; [reflexivity|]. split; [auto|]. split; [apply (proj1 Q0)|auto]. }
  destruct H1 as (Ef1 & Hs1 & Hq1 & Ho1 & Hw1).
  assert (Q1 : QD s1).
  { split; [exact Hq1|]. intros l1 l2 g A B. apply (proj2 Q0 l1 l2 g); auto. }
  assert (P1 : prc l s0 s1).
  { constructor.
    - unfold nf. rewrite Ef1. lia.
    - exact Hs1.
    - intros g. unfold fdone, getf. now rewrite Ef1.
    - intros ea eb _ _ W0 W1. unfold woken, getf in *. rewrite Ef1 in W1. congruence. }
  assert (R1 : rek l s0 s1).
  { constructor.
    - unfold nf. rewrite Ef1. lia.
    - apply Ho1.
    - intros g _. unfold woken, getf. now rewrite Ef1.
    - apply Hw1. }
  fold s1.
  set (s2 := if llocked (getl s1 l0)
             then match lowner (getl s1 l0) with
                  | Some o => if Nat.eqb o t then s1 else propagate_priority s1 o
                  | None => s1 end
             else wake_up_first_p s1 l0).
  assert (P2 : prc l s1 s2 \/ (s0 = s /\ rek l s1 s2)).
  { unfold s2. destruct (llocked (getl s1 l0)).
    - destruct (lowner (getl s1 l0)) as [o|] eqn:Eo; [|left; apply prc_refl].
      destruct (Nat.eqb o t) eqn:Eot; [left; apply prc_refl|]. right. split.
      + rewrite Hw1 in Eo. destruct Ho0 as [E|[E|E]]; auto; rewrite E in Eo; [|discriminate].
        inversion Eo; subst o. rewrite Nat.eqb_refl in Eot. discriminate.
      + now apply rek_propagate.
    - left. apply prc_wake; auto. intros Hne g A B. apply Hne.
      apply (proj2 Q1 l0 l g); auto. }
  set (s3 := if had then sett s2 t (gett s2 t <| twaiting := None |>) else s2).
  assert (P3 : prc l s2 s3 /\ rek l s2 s3).
  { unfold s3. destruct had; [|split; [apply prc_refl|apply rek_refl]].
    split; [apply prc_same|apply rek_same]; reflexivity. }
  cbn [fst]. destruct P3 as [P3 R3]. destruct P2 as [P2|[E R2]].
  - left. eapply prc_trans; [exact P0|]. eapply prc_trans; [exact P1|].
    eapply prc_trans; [exact P2|exact P3].
  - right. subst s0. eapply rek_trans; [exact R1|]. eapply rek_trans; [exact R2|exact R3].
Qed.

(* release() *)
Lemma pre_release_p l s t l0 : QD s -> pre l t s (fst (release_p s t l0)).
Proof.
  intros Q. unfold release_p.
  destruct (negb (llocked (getl s l0))); [apply pre_refl|].
  destruct (lowner (getl s l0)) as [n|] eqn:Eown; [|apply pre_refl].
  destruct (negb (Nat.eqb n t)) eqn:Ent; [apply pre_refl|]. cbn [fst].
  apply negb_false_iff, Nat.eqb_eq in Ent. subst n.
  set (s1 := setl s l0 (getl s l0 <| lowner := None |>)).
  set (s2 := if is_prio_task s1 t
             then sett s1 t (gett s1 t <| tholding := filter (fun x => negb (Nat.eqb x l0)) (tholding (gett s1 t)) |>)
             else s1).
  set (s3 := setl s2 l0 (getl s2 l0 <| llocked := false |>)).
  assert (E1 : forall l', lpq (getl s1 l') = lpq (getl s l')).
  { intros l'. unfold s1. rewrite getl_setl. destruct (Nat.eqb l0 l' && _)%bool eqn:C; auto.
    apply andb_prop in C as [C _]. apply Nat.eqb_eq in C. now subst l'. }
  assert (E2 : forall l', getl s2 l' = getl s1 l').
  { intros l'. unfold s2. destruct (is_prio_task s1 t); reflexivity. }
  assert (E3 : forall l', lpq (getl s3 l') = lpq (getl s2 l')).
  { intros l'. unfold s3. rewrite getl_setl. destruct (Nat.eqb l0 l' && _)%bool eqn:C; auto.
    apply andb_prop in C as [C _]. apply Nat.eqb_eq in C. now subst l'. }
  assert (E : forall l', lpq (getl s3 l') = lpq (getl s l')).
  { intros l'. now rewrite E3, E2, E1. }
  assert (Ef : futs s3 = futs s).
  { unfold s3, s2. destruct (is_prio_task s1 t); reflexivity. }
  (* owners: l0 loses its owner, the others keep theirs *)
  assert (Eo : forall l', lowner (getl s3 l') = lowner (getl s l') \/
                          (l' = l0 /\ lowner (getl s3 l') = None)).
  { intros l'. destruct (Nat.eq_dec l0 l') as [<-|Hne].
    - unfold s3. rewrite getl_setl. destruct (Nat.eqb l0 l0 && _)%bool.
      + cbn. rewrite E2. unfold s1. rewrite getl_setl.
        destruct (Nat.eqb l0 l0 && _)%bool; [right; split; reflexivity|now left].
      + rewrite E2. unfold s1. rewrite getl_setl.
        destruct (Nat.eqb l0 l0 && _)%bool; [right; split; reflexivity|now left].
    - left. unfold s3. rewrite getl_setl_other by exact Hne. rewrite E2.
      unfold s1. now rewrite getl_setl_other by exact Hne. }
  pose proof (QD_same s s3 E Q) as Q3.
  assert (P03 : prc l s s3) by (apply prc_same; [apply E|exact Ef]).
  assert (Hdis : l0 <> l -> forall g, In g (objs s3 l0) -> ~ In g (objs s3 l)).
  { intros Hne g A B. apply Hne. apply (proj2 Q3 l0 l g); auto. }
  pose proof (prc_wake l s3 l0 (proj1 Q3 l0) Hdis) as P34.
  assert (Ew : forall l', getl (wake_up_first_p s3 l0) l' = getl s3 l').
  { intros l'. unfold getl. now rewrite wake_locks. }
  split; [eapply prc_trans; eauto|]. constructor.
  - (* a waiter of l is woken only if l = l0, which t owned *)
    intros e He W0 W1. destruct (Nat.eq_dec l0 l) as [->|Hne]; [exact Eown|]. exfalso.
    assert (He3 : In e (qa l s3)) by (unfold qa in *; now rewrite Ew in He).
    assert (W3 : woken s3 (fo e) = false).
    { unfold woken, getf in *. now rewrite Ef. }
    (* the woken future is queued on l0 *)
    unfold wake_up_first_p in W1. cbv zeta in W1.
    destruct (arr (lpq (getl s3 l0))) as [|head rest] eqn:Ea; [congruence|].
    destruct (existsb _ (pq_objs (lpq (getl s3 l0)))); [congruence|].
    destruct (fdone s3 (Z.to_nat (eobj head))); [congruence|].
    destruct (ff_state s3 (Z.to_nat (eobj head)) (FResult 1) (fo e)) as [Es|[Es _]].
    + unfold woken in *. rewrite Es in W1. congruence.
    + apply (Hdis Hne (fo e)).
      * rewrite Es. unfold objs, pq_objs. rewrite Ea. simpl. now left.
      * now apply in_objs_qa.
  - intros H. rewrite Ew in H. destruct (Eo l) as [E'|[_ E']]; [left; now rewrite <- E'|].
    rewrite E' in H. discriminate.
Qed.

Definition lres_done (r : lres) : bool := match r with LDone _ => true | LSusp _ _ => false end.

(* the result of a library call / frame: finished => phase 1 only; suspended => phase 1, then phase 2 *)
Definition nov (l t : nat) (s s' : st) (r : lres) : Prop :=
  if lres_done r then pre l t s s' else pp l t s s'.

Lemma nov_pp l t s s' r : nov l t s s' r -> pp l t s s'.
Proof. unfold nov. destruct (lres_done r); auto. apply pp_pre. Qed.
Lemma nov_both l t s s' r : both l s s' -> nov l t s s' r.
Proof. unfold nov. intros [A B]. destruct (lres_done r); auto. now apply pp_pre. Qed.
Lemma nov_pre_l l t s1 s2 s3 r : pre l t s1 s2 -> nov l t s2 s3 r -> nov l t s1 s3 r.
Proof.
  unfold nov. intros A B. destruct (lres_done r); [eapply pre_trans|eapply pp_pre_l]; eauto.
Qed.

(* PriorityLock.acquire up to its `await fut` *)
Lemma nov_acq_p_start l s t l0 :
  QD s -> (forall l1 g, In g (objs s l1) -> g < nf s) ->
  nov l t s (fst (acquire_p_start s t l0)) (snd (acquire_p_start s t l0)).
Proof.
  intros Q Hbd. unfold acquire_p_start.
  destruct (negb (llocked (getl s l0)) && _)%bool eqn:Efree.
  - destruct (take_lock s l0 t) as [s'|e] eqn:E; cbn [fst snd].
    + destruct (take_lock_same s l0 t s' E) as [Ef El]. apply nov_both. apply both_same_g; auto.
      (* the lock is taken only when nobody is queued on it *)
      destruct (Nat.eq_dec l0 l) as [->|Hne].
      * right. unfold qa. rewrite El. apply andb_prop in Efree as [_ Efree].
        destruct (arr (lpq (getl s l))); [reflexivity|discriminate].
      * left. unfold take_lock in E. destruct (lowner (getl s l0)); [discriminate|].
        inversion E; subst s'. clear E.
        set (s1 := setl s l0 (getl s l0 <| lowner := Some t |> <| llocked := true |>)).
        assert (A : lowner (getl s1 l) = lowner (getl s l)) by (unfold s1; now rewrite getl_setl_other).
        destruct (is_prio_task s1 t); exact A.
    + apply nov_both, both_refl.
  - set (f := length (futs s)). set (s1 := fst (new_future s None)).
    change (new_future s None) with (s1, f). cbv beta iota.
    assert (B1 : both l s s1) by apply both_new_future.
    destruct (is_prio_task s t && _)%bool.
    { cbn [fst snd]. now apply nov_both. }
    set (s2 := if is_prio_task s t then sett s1 t (gett s1 t <| twaiting := Some l0 |>) else s1).
    set (p := if is_prio_task s t then effective_priority s t else 0%Q).
    set (s3 := setl s2 l0 (getl s2 l0 <| lpq := pq_add HQ (lpq (getl s2 l0)) p (Z.of_nat f) |>
                                        <| lwt := lwt (getl s2 l0) ++ [(f, t)] |>)).
    set (s4 := match lowner (getl s3 l0) with Some o => propagate_priority s3 o | None => s3 end).
    set (s5 := setf s4 f (getf s4 f <| fblock := true |>)).
    cbn [fst snd]. unfold nov. cbn [lres_done]. apply pp_post.
    assert (E2 : futs s2 = futs s1 /\ forall l', getl s2 l' = getl s1 l').
    { unfold s2. destruct (is_prio_task s t); split; reflexivity. }
    destruct E2 as [Ef2 El2].
    assert (Ef3 : futs s3 = futs s1) by (rewrite <- Ef2; reflexivity).
    assert (Ho3' : forall l1 g, In g (objs s3 l1) -> (l1 = l0 /\ g = f) \/ In g (objs s l1)).
    { intros l1 g. unfold s3, objs. rewrite getl_setl.
      destruct (Nat.eqb l0 l1 && _)%bool eqn:C.
      - apply andb_prop in C as [C _]. apply Nat.eqb_eq in C. subst l1. cbn. intros H.
        apply pq_add_in in H. destruct H; auto. right. now rewrite El2 in H.
      - rewrite El2. auto. }
    assert (Ho3 : forall l1 g, In g (objs s3 l1) -> g = f \/ In g (objs s l1)).
    { intros l1 g H. destruct (Ho3' l1 g H) as [[_ ->]|H']; auto. }
    assert (Q3 : QD s3).
    { assert (Hfresh : forall l1, ~ In f (objs s l1)).
      { intros l1 H. pose proof (Hbd l1 f H). unfold f, nf in *. lia. }
      split.
      - intros l1. unfold s3. rewrite getl_setl.
        destruct (Nat.eqb l0 l1 && _)%bool; [|rewrite El2; apply (proj1 Q)].
        cbn. apply qwf_add; [rewrite El2; apply (proj1 Q)|]. rewrite El2. apply (Hfresh l0).
      - intros l1 l2 g H1 H2.
        destruct (Ho3' l1 g H1) as [[E1 Eg1]|A]; destruct (Ho3' l2 g H2) as [[E2 Eg2]|B].
        + congruence.
        + subst. exfalso. now apply (Hfresh l2).
        + subst. exfalso. now apply (Hfresh l1).
        + apply (proj2 Q l1 l2 g); auto. }
    assert (P4 : futs s4 = futs s3 /\ forall l1 g, In g (objs s4 l1) <-> In g (objs s3 l1)).
    { unfold s4. destruct (lowner (getl s3 l0)).
      - split; [apply prop_futs|apply prop_objs; exact Q3].
      - split; [reflexivity|intros; tauto]. }
    destruct P4 as [Ef4 Ho4].
    assert (Hfs : forall g, g < nf s -> fstate_ (getf s5 g) = fstate_ (getf s g)).
    { intros g Hg. unfold s5. rewrite getf_setf.
      assert (Eg : fstate_ (getf s4 g) = fstate_ (getf s g)).
      { unfold getf. rewrite Ef4, Ef3. unfold s1, new_future. cbn. now rewrite nth_app_old. }
      destruct (Nat.eqb f g && _)%bool eqn:C; auto.
      apply andb_prop in C as [C _]. apply Nat.eqb_eq in C. subst g. exact Eg. }
    assert (Hn5 : nf s5 = S (nf s)).
    { unfold nf, s5, setf. cbn. rewrite set_nth_length, Ef4, Ef3. unfold s1, new_future. cbn.
      rewrite app_length. simpl. lia. }
    constructor.
    + lia.
    + intros g H. change (objs s5 l) with (objs s4 l) in H. apply Ho4 in H.
      destruct (Ho3 l g H) as [->|H']; [right; unfold f, nf; lia|now left].
    + intros g D. pose proof (fdone_inrange _ _ D) as Hr. unfold fdone in *. now rewrite Hfs.
    + intros g Hg _ W. unfold woken in *. now rewrite <- Hfs.
Qed.
