(* C12, last sentence ("a waiter is never overtaken by a waiter that was strictly less urgent
   during the whole time both were waiting"): the step relations.

   One scheduler action (do_action) is a long sequence of primitive steps.  For a fixed
   PriorityLock [l] we follow, through every primitive, what happens to the waiter queue of
   [l] (the array of entries [qa l s]) and to the states of the futures:

   [pre l s s']  (phase 1: everything up to the point where the running task suspends)
      - no entry of l is added or re-keyed: every entry queued in s' is an entry queued in s
        (Leibniz-equal: same key, same arrival number, same future);
      - futures stay done;
      - THE hand-over clause: if the future of a queued entry eb goes from "not woken" to
        "woken" (holds a result), then eb is strictly (key, arrival)-less than every entry ea
        that is still queued and still pending afterwards.
   [post l m s'] (phase 2: the enqueueing half of acquire(), including propagate_priority's
      re-keying, and the bookkeeping of Task.__step after the coroutine has yielded)
      - no queued future of l becomes woken; queued futures are old ones or fresh ids.
   [pp l s s'] := exists m, pre l s m /\ post l m s'.

   Without asynkit.eager() starts every action is a [pp] step: a primitive that enqueues
   (acquire() on a busy lock) returns a suspension, after which the step only stores the
   continuation. *)
From Coq Require Import QArith Lqa Sorting.Permutation.
From RecordUpdate Require Import RecordUpdate.
From Asynkit Require Import Base.Prelude Queue.PQ Queue.Order Queue.PQProofs Queue.PosPQ Queue.Exec
  Sched.Model Sched.Tables Sched.QFacts Sched.LockInv Sched.Footprint Sched.LockOps
  Sched.InheritEprio Sched.InheritHandover.
Import RecordSetNotations.
Open Scope nat_scope.

Definition qa (l : nat) (s : st) : list (entry Q) := arr (lpq (getl s l)).
Definition fo (e : entry Q) : nat := Z.to_nat (eobj e).
Definition nf (s : st) : nat := length (futs s).

Lemma objs_qa l s : objs s l = map fo (qa l s).
Proof. reflexivity. Qed.

Lemma in_objs_qa l s e : In e (qa l s) -> In (fo e) (objs s l).
Proof. intros H. rewrite objs_qa. now apply in_map. Qed.

Lemma fdone_inrange s f : fdone s f = true -> f < nf s.
Proof.
  intros H. destruct (Nat.lt_ge_cases f (nf s)) as [|Hge]; auto.
  unfold fdone in H. rewrite getf_oob in H by exact Hge. discriminate.
Qed.

Lemma woken_fdone s f : woken s f = true -> fdone s f = true.
Proof. unfold woken, fdone. destruct (fstate_ (getf s f)); auto. Qed.

(* ------------------------------------------------------------ phase 1 *)
Record pre (l : nat) (s s' : st) : Prop := mkPre {
  p_len : nf s <= nf s';
  p_sub : forall e, In e (qa l s') -> In e (qa l s);
  p_done : forall f, fdone s f = true -> fdone s' f = true;
  p_min : forall ea eb, In ea (qa l s') -> In eb (qa l s') ->
          woken s (fo eb) = false -> woken s' (fo eb) = true -> fdone s' (fo ea) = false ->
          entry_lt qltb eb ea = true }.

Lemma pre_refl l s : pre l s s.
Proof. constructor; auto. intros ea eb _ _ A B. congruence. Qed.

Lemma pre_trans l s1 s2 s3 : pre l s1 s2 -> pre l s2 s3 -> pre l s1 s3.
Proof.
  intros A B. constructor.
  - pose proof (p_len _ _ _ A). pose proof (p_len _ _ _ B). lia.
  - intros e H. apply (p_sub _ _ _ A), (p_sub _ _ _ B), H.
  - intros f H. apply (p_done _ _ _ B), (p_done _ _ _ A), H.
  - intros ea eb Ha Hb W1 W3 Da. destruct (woken s2 (fo eb)) eqn:W2.
    + apply (p_min _ _ _ A); auto; try (apply (p_sub _ _ _ B); assumption).
      destruct (fdone s2 (fo ea)) eqn:D2; auto. apply (p_done _ _ _ B) in D2. congruence.
    + apply (p_min _ _ _ B); auto.
Qed.

(* ------------------------------------------------------------ phase 2 *)
Record post (l : nat) (m s' : st) : Prop := mkPost {
  q_len : nf m <= nf s';
  q_objs : forall f, In f (objs s' l) -> In f (objs m l) \/ nf m <= f;
  q_done : forall f, fdone m f = true -> fdone s' f = true;
  q_wok : forall f, f < nf m -> In f (objs s' l) -> woken s' f = true -> woken m f = true }.

Lemma post_refl l s : post l s s.
Proof. constructor; auto. Qed.

Lemma post_trans l s1 s2 s3 : post l s1 s2 -> post l s2 s3 -> post l s1 s3.
Proof.
  intros A B. pose proof (q_len _ _ _ A) as LA. pose proof (q_len _ _ _ B) as LB. constructor.
  - lia.
  - intros f H. destruct (q_objs _ _ _ B f H) as [H2|H2]; [|right; lia].
    apply (q_objs _ _ _ A f H2).
  - intros f H. apply (q_done _ _ _ B), (q_done _ _ _ A), H.
  - intros f Hf H W. destruct (q_objs _ _ _ B f H) as [H2|H2]; [|lia].
    apply (q_wok _ _ _ A f Hf H2). apply (q_wok _ _ _ B f); auto. lia.
Qed.

Definition pp (l : nat) (s s' : st) : Prop := exists m, pre l s m /\ post l m s'.
Definition both (l : nat) (s s' : st) : Prop := pre l s s' /\ post l s s'.

Lemma pp_pre l s s' : pre l s s' -> pp l s s'.
Proof. intros H. exists s'. split; auto. apply post_refl. Qed.
Lemma pp_post l s s' : post l s s' -> pp l s s'.
Proof. intros H. exists s. split; auto. apply pre_refl. Qed.
Lemma pp_both l s s' : both l s s' -> pp l s s'.
Proof. intros [H _]. now apply pp_pre. Qed.
Lemma pp_refl l s : pp l s s.
Proof. apply pp_pre, pre_refl. Qed.
Lemma pp_pre_l l s1 s2 s3 : pre l s1 s2 -> pp l s2 s3 -> pp l s1 s3.
Proof. intros A (m & B & C). exists m. split; auto. eapply pre_trans; eauto. Qed.
Lemma pp_post_r l s1 s2 s3 : pp l s1 s2 -> post l s2 s3 -> pp l s1 s3.
Proof. intros (m & B & C) A. exists m. split; auto. eapply post_trans; eauto. Qed.
Lemma both_refl l s : both l s s.
Proof. split; [apply pre_refl|apply post_refl]. Qed.
Lemma both_trans l s1 s2 s3 : both l s1 s2 -> both l s2 s3 -> both l s1 s3.
Proof. intros [A1 A2] [B1 B2]. split; [eapply pre_trans|eapply post_trans]; eauto. Qed.
Lemma pp_both_r l s1 s2 s3 : pp l s1 s2 -> both l s2 s3 -> pp l s1 s3.
Proof. intros A [_ B]. eapply pp_post_r; eauto. Qed.
Lemma pp_both_l l s1 s2 s3 : both l s1 s2 -> pp l s2 s3 -> pp l s1 s3.
Proof. intros [A _] B. eapply pp_pre_l; eauto. Qed.
Lemma pre_both_r l s1 s2 s3 : pre l s1 s2 -> both l s2 s3 -> pre l s1 s3.
Proof. intros A [B _]. eapply pre_trans; eauto. Qed.

(* ------------------------------------------------------------ steps that leave l's queue and the
   states of the old futures alone *)
Lemma both_fs l s s' :
  lpq (getl s' l) = lpq (getl s l) -> nf s <= nf s' ->
  (forall f, f < nf s -> fstate_ (getf s' f) = fstate_ (getf s f)) ->
  (forall f, nf s <= f -> woken s' f = false) ->
  both l s s'.
Proof.
  intros El Hn Hf Hnew.
  assert (Eq : qa l s' = qa l s) by (unfold qa; now rewrite El).
  assert (Eo : objs s' l = objs s l) by (unfold objs; now rewrite El).
  assert (Hw : forall f, woken s' f = true -> woken s f = true).
  { intros f W. destruct (Nat.lt_ge_cases f (nf s)) as [H|H].
    - unfold woken in *. now rewrite <- Hf.
    - rewrite Hnew in W by exact H. discriminate. }
  split; constructor; auto.
  - intros e. now rewrite Eq.
  - intros f D. pose proof (fdone_inrange _ _ D) as Hr. unfold fdone in *. now rewrite Hf.
  - intros ea eb _ _ W0 W1. apply Hw in W1. congruence.
  - intros f. rewrite Eo. auto.
  - intros f D. pose proof (fdone_inrange _ _ D) as Hr. unfold fdone in *. now rewrite Hf.
Qed.

Lemma both_same l s s' :
  lpq (getl s' l) = lpq (getl s l) -> futs s' = futs s -> both l s s'.
Proof.
  intros El Ef. apply both_fs; auto.
  - unfold nf. rewrite Ef. lia.
  - intros f _. unfold getf. now rewrite Ef.
  - intros f H. unfold woken. rewrite getf_oob; auto. unfold nf in H. now rewrite Ef.
Qed.

Lemma both_new_future l s o : both l s (fst (new_future s o)).
Proof.
  unfold new_future. cbn [fst]. apply both_fs.
  - reflexivity.
  - unfold nf. cbn. rewrite app_length. lia.
  - intros f H. unfold getf. cbn. now rewrite nth_app_old.
  - intros f H. unfold woken, getf. cbn. destruct (Nat.eq_dec f (nf s)) as [->|Hne].
    + unfold nf. now rewrite nth_app_fresh.
    + rewrite nth_oob; auto. rewrite app_length. simpl. unfold nf in *. lia.
Qed.

Lemma both_setf_flag l s f x : fstate_ x = fstate_ (getf s f) -> both l s (setf s f x).
Proof.
  intros E. apply both_fs.
  - reflexivity.
  - unfold nf, setf. cbn. rewrite set_nth_length. lia.
  - intros g _. rewrite getf_setf.
    destruct (Nat.eqb f g && Nat.ltb f (length (futs s)))%bool eqn:C; auto.
    apply andb_prop in C as [C _]. apply Nat.eqb_eq in C. now subst g.
  - intros g Hg. unfold woken. rewrite getf_setf.
    destruct (Nat.eqb f g && Nat.ltb f (length (futs s)))%bool eqn:C.
    + apply andb_prop in C as [C1 C2]. apply Nat.eqb_eq in C1. apply Nat.ltb_lt in C2.
      subst g. unfold nf in Hg. lia.
    + rewrite getf_oob; auto.
Qed.

(* steps in the footprint class of C13 *)
Lemma both_chg l W s s' :
  chg W s s' -> Inv s -> (forall g, W g -> ~ In g (objs s l)) -> both l s s'.
Proof.
  intros C I HW.
  assert (Eq : qa l s' = qa l s).
  { unfold qa. destruct (c_lock C l) as (_ & _ & -> & _). reflexivity. }
  assert (Eo : objs s' l = objs s l) by (apply (chg_objs l C)).
  assert (Hw : forall f, In f (objs s l) -> woken s' f = true -> woken s f = true).
  { intros f Hin W1. assert (lockfut s f) as Hl by (now exists l).
    destruct (iD0 I _ Hl) as [Hr _]. destruct (c_woken C _ Hr W1) as [|Hx]; auto.
    exfalso. eapply HW; eauto. }
  split; constructor.
  - apply (c_nfuts C).
  - intros e. now rewrite Eq.
  - apply (c_done C).
  - intros ea eb _ Hb W0 W1 _. rewrite Eq in Hb. apply in_objs_qa in Hb.
    rewrite (Hw _ Hb W1) in W0. discriminate.
  - apply (c_nfuts C).
  - intros f. rewrite Eo. auto.
  - apply (c_done C).
  - intros f _ Hin W1. rewrite Eo in Hin. auto.
Qed.

Lemma both_benign l s s' : benign s s' -> Inv s -> both l s s'.
Proof.
  intros B I. eapply both_chg; eauto. intros g Hg Hin. apply Hg. now exists l.
Qed.

(* ------------------------------------------------------------ the queue part of the invariant *)
Definition QD (s : st) : Prop :=
  (forall l, qwf (lpq (getl s l))) /\
  (forall l1 l2 g, In g (objs s l1) -> In g (objs s l2) -> l1 = l2).

Lemma QD_of_Inv s : Inv s -> QD s.
Proof. intros I. split; [apply (iB1 I)|apply (iD1 I)]. Qed.

Lemma QD_same s s' : (forall l, lpq (getl s' l) = lpq (getl s l)) -> QD s -> QD s'.
Proof.
  intros E [A B]. split.
  - intros l. rewrite E. apply A.
  - intros l1 l2 g. unfold objs. rewrite !E. apply B.
Qed.

(* ------------------------------------------------------------ fut_finish / _wake_up_first *)
Lemma ff_state s f x g :
  fstate_ (getf (fst (fut_finish s f x)) g) = fstate_ (getf s g) \/
  (g = f /\ fstate_ (getf (fst (fut_finish s f x)) g) = x).
Proof.
  unfold fut_finish. destruct (fstate_ (getf s f)) eqn:E; cbn [fst]; auto.
  unfold schedule_callbacks.
  match goal with |- context [fold_left ?F ?L ?S] => destruct (fold_soon_proj f L S) as (_ & B & _) end.
  rewrite (getf_congr _ _ g B).
  set (s1 := setf s f (getf s f <| fstate_ := x |>)).
  assert (L1 : length (futs s1) = length (futs s)) by (unfold s1, setf; cbn; apply set_nth_length).
  destruct (Nat.eq_dec f g) as [<-|Hne].
  - destruct (Nat.lt_ge_cases f (length (futs s))) as [Hr|Hr].
    + right. split; auto. rewrite getf_setf_same by (rewrite L1; exact Hr).
      unfold s1. rewrite getf_setf_same by exact Hr. reflexivity.
    + left. rewrite getf_oob by (unfold s1, setf; cbn; rewrite !set_nth_length; exact Hr).
      rewrite getf_oob by exact Hr. reflexivity.
  - left. rewrite getf_setf_other by exact Hne. unfold s1. now rewrite getf_setf_other by exact Hne.
Qed.

Lemma ff_len s f x : nf (fst (fut_finish s f x)) = nf s.
Proof. apply fut_finish_proj. Qed.

Lemma ff_locks s f x : locks (fst (fut_finish s f x)) = locks s.
Proof. apply fut_finish_proj. Qed.

(* _wake_up_first of lock l0, seen from lock l *)
Lemma pre_wake l s l0 :
  qwf (lpq (getl s l0)) ->
  (l0 <> l -> forall g, In g (objs s l0) -> ~ In g (objs s l)) ->
  pre l s (wake_up_first_p s l0).
Proof.
  intros (Hq & Hnd & _) Hdis.
  destruct (wake_cases s l0 Hq) as [E|(head & rest & Ea & Hnw & Ep & Ew & Hmin)].
  { rewrite E. apply pre_refl. }
  set (h := Z.to_nat (eobj head)) in *.
  assert (Hst : forall g, fstate_ (getf (wake_up_first_p s l0) g) = fstate_ (getf s g) \/
                          (g = h /\ fstate_ (getf (wake_up_first_p s l0) g) = FResult 1)).
  { intros g. rewrite Ew. apply ff_state. }
  assert (Eq : qa l (wake_up_first_p s l0) = qa l s).
  { unfold qa, getl. now rewrite wake_locks. }
  constructor.
  - rewrite Ew, ff_len. lia.
  - intros e. now rewrite Eq.
  - intros f D. unfold fdone in *. destruct (Hst f) as [E|[_ E]]; rewrite E; auto.
  - intros ea eb Ha Hb W0 W1 Da. rewrite Eq in Ha, Hb.
    destruct (Hst (fo eb)) as [E|[E1 E2]].
    { unfold woken in *. rewrite E in W1. congruence. }
    destruct (Nat.eq_dec l0 l) as [->|Hne].
    + unfold qa in Ha, Hb. rewrite Ea in Ha, Hb.
      unfold pq_objs in Hnd. rewrite Ea in Hnd. simpl in Hnd. inversion Hnd as [|? ? Hni _]; subst.
      assert (eb = head) as ->.
      { destruct Hb as [<-|Hb]; auto. exfalso. apply Hni. fold h. rewrite <- E1.
        apply in_map_iff. exists eb. auto. }
      destruct Ha as [<-|Ha]; [|now apply Hmin].
      exfalso. unfold fdone in Da. unfold fo in Da, E2. rewrite E2 in Da. discriminate.
    + exfalso. apply (Hdis Hne h).
      * unfold objs, pq_objs. rewrite Ea. simpl. now left.
      * rewrite <- E1. now apply in_objs_qa.
Qed.

(* _take_lock *)
Lemma take_lock_same s l0 t s' :
  take_lock s l0 t = inl s' -> futs s' = futs s /\ forall l, lpq (getl s' l) = lpq (getl s l).
Proof.
  unfold take_lock. destruct (lowner (getl s l0)); [discriminate|]. intros H. inversion H; subst s'. clear H.
  set (s1 := setl s l0 (getl s l0 <| lowner := Some t |> <| llocked := true |>)).
  assert (A : futs s1 = futs s /\ forall l, lpq (getl s1 l) = lpq (getl s l)).
  { split; [reflexivity|]. intros l. unfold s1. rewrite getl_setl.
    destruct (Nat.eqb l0 l && _)%bool eqn:C; auto.
    apply andb_prop in C as [C _]. apply Nat.eqb_eq in C. now subst l. }
  destruct (is_prio_task s1 t); exact A.
Qed.

Lemma setl_lpq_other s l0 x l : l0 <> l -> lpq (getl (setl s l0 x) l) = lpq (getl s l).
Proof. intros H. now rewrite getl_setl_other. Qed.

(* the part of acquire() after `await fut` *)
Lemma pre_acq_finish l s t l0 f had inp :
  QD s -> pre l s (fst (acquire_p_finish s t l0 f had inp)).
Proof.
  intros Q. unfold acquire_p_finish.
  set (p := match inp with
            | RVal _ => match take_lock s l0 t with inl s' => (s', RVal 1) | inr e => (s, RExc e) end
            | RExc e => (s, RExc e) end).
  assert (K0 : futs (fst p) = futs s /\ forall l, lpq (getl (fst p) l) = lpq (getl s l)).
  { unfold p. destruct inp; cbn [fst]; auto. destruct (take_lock s l0 t) eqn:E; cbn [fst]; auto.
    eapply take_lock_same; eauto. }
  destruct p as [s0 r]. cbn [fst] in K0. destruct K0 as [Ef0 El0].
  pose proof (QD_same s s0 El0 Q) as Q0.
  assert (P0 : pre l s s0) by (apply both_same; auto).
  set (s1 := match pq_remove HQ (lpq (getl s0 l0)) (Z.of_nat f) with
             | Some (_, q') => setl s0 l0 (getl s0 l0 <| lpq := q' |>
                  <| lwt := filter (fun pr => negb (Nat.eqb (fst pr) f)) (lwt (getl s0 l0)) |>)
             | None => s0 end).
  assert (H1 : futs s1 = futs s0 /\ (forall e, In e (qa l s1) -> In e (qa l s0)) /\
               qwf (lpq (getl s1 l0)) /\
               (forall l1 g, In g (objs s1 l1) -> In g (objs s0 l1))).
  { unfold s1. destruct (pq_remove HQ (lpq (getl s0 l0)) (Z.of_nat f)) as [[pr q']|] eqn:Er.
    - destruct (qwf_remove _ _ _ _ (proj1 Q0 l0) Er) as (Hq & Hp & _).
      destruct (pq_remove_perm _ _ _ _ (proj1 (proj1 Q0 l0)) Er) as (_ & e & _ & Hpe).
      split; [reflexivity|]. split; [|split].
      + intros x. unfold qa. rewrite getl_setl.
        destruct (Nat.eqb l0 l && _)%bool eqn:C; auto.
        apply andb_prop in C as [C _]. apply Nat.eqb_eq in C. subst l0. cbn. intros Hx.
        eapply Permutation_in; [apply Permutation_sym; exact Hpe|]. now right.
      + rewrite getl_setl. destruct (Nat.eqb l0 l0 && _)%bool; [exact Hq|apply (proj1 Q0)].
      + intros l1 g. unfold objs. rewrite getl_setl.
        destruct (Nat.eqb l0 l1 && _)%bool eqn:C; auto.
        apply andb_prop in C as [C _]. apply Nat.eqb_eq in C. subst l1. cbn. intros Hx.
        eapply Permutation_in; [apply Permutation_sym; exact Hp|]. now right.
    - split; [reflexivity|]. split; [auto|]. split; [apply (proj1 Q0)|auto]. }
  destruct H1 as (Ef1 & Hs1 & Hq1 & Ho1).
  assert (P1 : pre l s0 s1).
  { constructor.
    - unfold nf. rewrite Ef1. lia.
    - exact Hs1.
    - intros g. unfold fdone, getf. now rewrite Ef1.
    - intros ea eb _ _ W0 W1. unfold woken, getf in *. rewrite Ef1 in W1. congruence. }
  fold s1.
  set (s2 := if llocked (getl s1 l0) then s1 else wake_up_first_p s1 l0).
  assert (P2 : pre l s1 s2).
  { unfold s2. destruct (llocked (getl s1 l0)); [apply pre_refl|].
    apply pre_wake; auto. intros Hne g H1 H2. apply Hne.
    apply (proj2 Q0 l0 l g); auto. }
  assert (P3 : pre l s2 (if had then sett s2 t (gett s2 t <| twaiting := None |>) else s2)).
  { destruct had; [|apply pre_refl]. apply both_same; reflexivity. }
  cbn [fst]. eapply pre_trans; [exact P0|]. eapply pre_trans; [exact P1|].
  eapply pre_trans; [exact P2|exact P3].
Qed.

(* release() *)
Lemma pre_release_p l s t l0 : QD s -> pre l s (fst (release_p s t l0)).
Proof.
  intros Q. unfold release_p.
  destruct (negb (llocked (getl s l0))); [apply pre_refl|].
  destruct (lowner (getl s l0)); [|apply pre_refl].
  destruct (negb (Nat.eqb n t)); [apply pre_refl|]. cbn [fst].
  set (s1 := setl s l0 (getl s l0 <| lowner := None |>)).
  set (s2 := if is_prio_task s1 t
             then sett s1 t (gett s1 t <| tholding := filter (fun x => negb (Nat.eqb x l0)) (tholding (gett s1 t)) |>)
             else s1).
  set (s3 := setl s2 l0 (getl s2 l0 <| llocked := false |>)).
  assert (E1 : forall l', lpq (getl s1 l') = lpq (getl s l')).
  { intros l'. unfold s1. rewrite getl_setl. destruct (Nat.eqb l0 l' && _)%bool eqn:C; auto.
    apply andb_prop in C as [C _]. apply Nat.eqb_eq in C. now subst l'. }
  assert (E2 : forall l', lpq (getl s2 l') = lpq (getl s1 l')).
  { intros l'. unfold s2. destruct (is_prio_task s1 t); reflexivity. }
  assert (E3 : forall l', lpq (getl s3 l') = lpq (getl s2 l')).
  { intros l'. unfold s3. rewrite getl_setl. destruct (Nat.eqb l0 l' && _)%bool eqn:C; auto.
    apply andb_prop in C as [C _]. apply Nat.eqb_eq in C. now subst l'. }
  assert (E : forall l', lpq (getl s3 l') = lpq (getl s l')).
  { intros l'. now rewrite E3, E2, E1. }
  assert (Ef : futs s3 = futs s).
  { unfold s3, s2. destruct (is_prio_task s1 t); reflexivity. }
  pose proof (QD_same s s3 E Q) as Q3.
  eapply pre_trans; [apply both_same; [apply E|exact Ef]|].
  apply pre_wake; [apply (proj1 Q3)|].
  intros Hne g H1 H2. apply Hne. apply (proj2 Q3 l0 l g); auto.
Qed.

(* propagate_priority does not touch the future table *)
Lemma prop_futs fuel : forall s t, futs (propagate_task fuel s t) = futs s.
Proof.
  induction fuel as [|fuel IH]; intros s t; cbn [propagate_task].
  - destruct (negb (is_prio_task s t)); auto. destruct (task_is_runnable s t); auto.
    destruct (twaiting (gett s t)); auto.
  - destruct (negb (is_prio_task s t)); auto. destruct (task_is_runnable s t); auto.
    destruct (twaiting (gett s t)) as [l|]; auto.
    set (s1 := match lowner (getl s l) with Some o => propagate_task fuel s o | None => s end).
    assert (E1 : futs s1 = futs s) by (unfold s1; destruct (lowner (getl s l)); auto).
    destruct (find _ (lwt (getl s1 l))) as [[f t0]|]; auto.
    destruct (pq_reschedule HQ (lpq (getl s1 l)) _ _) as [[o q']|]; auto.
Qed.

(* which futures are queued after propagate_priority: the same *)
Lemma prop_objs fuel : forall s t, QD s ->
  QD (propagate_task fuel s t) /\
  forall l g, In g (objs (propagate_task fuel s t) l) <-> In g (objs s l).
Proof.
  assert (Triv : forall s s', QD s -> locks s' = locks s ->
            QD s' /\ forall l g, In g (objs s' l) <-> In g (objs s l)).
  { intros s s' Q El.
    assert (E : forall l, getl s' l = getl s l) by (intros; unfold getl; now rewrite El).
    split; [apply (QD_same s s'); auto; intros l; now rewrite E|].
    intros l g. unfold objs. rewrite E. tauto. }
  induction fuel as [|fuel IH]; intros s t Q; cbn [propagate_task].
  - destruct (negb (is_prio_task s t)); [apply Triv; auto|].
    destruct (task_is_runnable s t); [apply Triv; auto|].
    destruct (twaiting (gett s t)); apply Triv; auto.
  - destruct (negb (is_prio_task s t)); [apply Triv; auto|].
    destruct (task_is_runnable s t); [apply Triv; auto|].
    destruct (twaiting (gett s t)) as [l|]; [|apply Triv; auto].
    set (s1 := match lowner (getl s l) with Some o => propagate_task fuel s o | None => s end).
    assert (P1 : QD s1 /\ forall l g, In g (objs s1 l) <-> In g (objs s l)).
    { unfold s1. destruct (lowner (getl s l)); [now apply IH|apply Triv; auto]. }
    destruct P1 as (Q1 & Ho1).
    destruct (find _ (lwt (getl s1 l))) as [[f t0]|]; [|auto].
    destruct (pq_reschedule HQ (lpq (getl s1 l)) _ _) as [[o q']|] eqn:Er; [|auto].
    destruct (pq_resched_objs _ _ _ _ _ (proj1 Q1 l) Er) as [Hq Hp].
    set (s2 := setl s1 l (getl s1 l <| lpq := q' |>)).
    assert (Ho2 : forall l0 g, In g (objs s2 l0) <-> In g (objs s1 l0)).
    { intros l0 g. unfold s2, objs. rewrite getl_setl.
      destruct (Nat.eqb l l0 && _)%bool eqn:C; [|tauto].
      apply andb_prop in C as [C _]. apply Nat.eqb_eq in C. subst l0. cbn. split; intros H.
      - eapply Permutation_in; eauto.
      - eapply Permutation_in; [apply Permutation_sym|]; eauto. }
    split.
    + split.
      * intros l0. unfold s2. rewrite getl_setl. destruct (Nat.eqb l l0 && _)%bool; [exact Hq|apply (proj1 Q1)].
      * intros l1 l2 g H1 H2. apply Ho2 in H1, H2. eapply (proj2 Q1); eauto.
    + intros l0 g. rewrite Ho2. apply Ho1.
Qed.

Definition lres_done (r : lres) : bool := match r with LDone _ => true | LSusp _ _ => false end.

(* the result of a library call / frame: finished => phase 1 only; suspended => phase 1, then phase 2 *)
Definition nov (l : nat) (s s' : st) (r : lres) : Prop :=
  if lres_done r then pre l s s' else pp l s s'.

Lemma nov_pp l s s' r : nov l s s' r -> pp l s s'.
Proof. unfold nov. destruct (lres_done r); auto. apply pp_pre. Qed.
Lemma nov_both l s s' r : both l s s' -> nov l s s' r.
Proof. unfold nov. intros [A B]. destruct (lres_done r); auto. now apply pp_pre. Qed.
Lemma nov_pre_l l s1 s2 s3 r : pre l s1 s2 -> nov l s2 s3 r -> nov l s1 s3 r.
Proof.
  unfold nov. intros A B. destruct (lres_done r); [eapply pre_trans|eapply pp_pre_l]; eauto.
Qed.

(* PriorityLock.acquire up to its `await fut` *)
Lemma nov_acq_p_start l s t l0 :
  QD s -> (forall l1 g, In g (objs s l1) -> g < nf s) ->
  nov l s (fst (acquire_p_start s t l0)) (snd (acquire_p_start s t l0)).
Proof.
  intros Q Hbd. unfold acquire_p_start.
  destruct (negb (llocked (getl s l0)) && _)%bool.
  - destruct (take_lock s l0 t) as [s'|e] eqn:E; cbn [fst snd].
    + destruct (take_lock_same s l0 t s' E) as [Ef El]. apply nov_both. apply both_same; auto.
    + apply nov_both, both_refl.
  - set (f := length (futs s)). set (s1 := fst (new_future s None)).
    change (new_future s None) with (s1, f). cbv beta iota.
    assert (B1 : both l s s1) by apply both_new_future.
    destruct (is_prio_task s t && _)%bool.
    { cbn [fst snd]. now apply nov_both. }
    set (s2 := if is_prio_task s t then sett s1 t (gett s1 t <| twaiting := Some l0 |>) else s1).
    set (p := if is_prio_task s t then effective_priority s t else 0%Q).
    set (s3 := setl s2 l0 (getl s2 l0 <| lpq := pq_add HQ (lpq (getl s2 l0)) p (Z.of_nat f) |>
                                        <| lwt := lwt (getl s2 l0) ++ [(f, t)] |>)).
    set (s4 := match lowner (getl s3 l0) with Some o => propagate_priority s3 o | None => s3 end).
    set (s5 := setf s4 f (getf s4 f <| fblock := true |>)).
    cbn [fst snd]. unfold nov. cbn [lres_done]. apply pp_post.
    assert (E2 : futs s2 = futs s1 /\ forall l', getl s2 l' = getl s1 l').
    { unfold s2. destruct (is_prio_task s t); split; reflexivity. }
    destruct E2 as [Ef2 El2].
    assert (Ef3 : futs s3 = futs s1) by (rewrite <- Ef2; reflexivity).
    assert (Ho3' : forall l1 g, In g (objs s3 l1) -> (l1 = l0 /\ g = f) \/ In g (objs s l1)).
    { intros l1 g. unfold s3, objs. rewrite getl_setl.
      destruct (Nat.eqb l0 l1 && _)%bool eqn:C.
      - apply andb_prop in C as [C _]. apply Nat.eqb_eq in C. subst l1. cbn. intros H.
        apply pq_add_in in H. destruct H; auto. right. now rewrite El2 in H.
      - rewrite El2. auto. }
    assert (Ho3 : forall l1 g, In g (objs s3 l1) -> g = f \/ In g (objs s l1)).
    { intros l1 g H. destruct (Ho3' l1 g H) as [[_ ->]|H']; auto. }
    assert (Q3 : QD s3).
    { assert (Hfresh : forall l1, ~ In f (objs s l1)).
      { intros l1 H. pose proof (Hbd l1 f H). unfold f, nf in *. lia. }
      split.
      - intros l1. unfold s3. rewrite getl_setl.
        destruct (Nat.eqb l0 l1 && _)%bool; [|rewrite El2; apply (proj1 Q)].
        cbn. apply qwf_add; [rewrite El2; apply (proj1 Q)|]. rewrite El2. apply (Hfresh l0).
      - intros l1 l2 g H1 H2.
        destruct (Ho3' l1 g H1) as [[E1 Eg1]|A]; destruct (Ho3' l2 g H2) as [[E2 Eg2]|B].
        + congruence.
        + subst. exfalso. now apply (Hfresh l2).
        + subst. exfalso. now apply (Hfresh l1).
        + apply (proj2 Q l1 l2 g); auto. }
    assert (P4 : futs s4 = futs s3 /\ forall l1 g, In g (objs s4 l1) <-> In g (objs s3 l1)).
    { unfold s4. destruct (lowner (getl s3 l0)).
      - split; [apply prop_futs|apply prop_objs; exact Q3].
      - split; [reflexivity|intros; tauto]. }
    destruct P4 as [Ef4 Ho4].
    assert (Hfs : forall g, g < nf s -> fstate_ (getf s5 g) = fstate_ (getf s g)).
    { intros g Hg. unfold s5. rewrite getf_setf.
      assert (Eg : fstate_ (getf s4 g) = fstate_ (getf s g)).
      { unfold getf. rewrite Ef4, Ef3. unfold s1, new_future. cbn. now rewrite nth_app_old. }
      destruct (Nat.eqb f g && _)%bool eqn:C; auto.
      apply andb_prop in C as [C _]. apply Nat.eqb_eq in C. subst g. exact Eg. }
    assert (Hn5 : nf s5 = S (nf s)).
    { unfold nf, s5, setf. cbn. rewrite set_nth_length, Ef4, Ef3. unfold s1, new_future. cbn.
      rewrite app_length. simpl. lia. }
    constructor.
    + lia.
    + intros g H. change (objs s5 l) with (objs s4 l) in H. apply Ho4 in H.
      destruct (Ho3 l g H) as [->|H']; [right; unfold f, nf; lia|now left].
    + intros g D. pose proof (fdone_inrange _ _ D) as Hr. unfold fdone in *. now rewrite Hfs.
    + intros g Hg _ W. unfold woken in *. now rewrite <- Hfs.
Qed.
