(* C09: the invariant Inv09 (PartTables.InvC) is preserved by every operation of
   the scheduler model, for every user program and every action sequence. *)
From Coq Require Import QArith Sorting.Permutation.
From RecordUpdate Require Import RecordUpdate.
From Asynkit Require Import Base.Prelude Queue.ListFacts Queue.PQ Queue.PosPQ Queue.Exec
     Queue.HeapqProofs Sched.Model Sched.PartTables.
Import RecordSetNotations.
Open Scope nat_scope.

(* ------------------------------------------------------------ table access *)
Lemma gett_sett s t x t' :
  gett (sett s t x) t' = if Nat.eqb t' t && Nat.ltb t (length (tasks s)) then x else gett s t'.
Proof. unfold gett, sett. cbn. apply nth_set_nth. Qed.

Lemma getf_setf s f x g :
  getf (setf s f x) g = if Nat.eqb g f && Nat.ltb f (length (futs s)) then x else getf s g.
Proof. unfold getf, setf. cbn. apply nth_set_nth. Qed.

Lemma gett_sett_same s t x : t < length (tasks s) -> gett (sett s t x) t = x.
Proof.
  intros H. rewrite gett_sett, Nat.eqb_refl. destruct (Nat.ltb_spec t (length (tasks s))); auto; lia.
Qed.
Lemma gett_sett_other s t x t' : t' <> t -> gett (sett s t x) t' = gett s t'.
Proof. intros H. rewrite gett_sett. destruct (Nat.eqb_spec t' t); auto; lia. Qed.
Lemma getf_setf_same s f x : f < length (futs s) -> getf (setf s f x) f = x.
Proof.
  intros H. rewrite getf_setf, Nat.eqb_refl. destruct (Nat.ltb_spec f (length (futs s))); auto; lia.
Qed.
Lemma getf_setf_other s f x g : g <> f -> getf (setf s f x) g = getf s g.
Proof. intros H. rewrite getf_setf. destruct (Nat.eqb_spec g f); auto; lia. Qed.

Lemma length_tasks_sett s t x : length (tasks (sett s t x)) = length (tasks s).
Proof. unfold sett; cbn. apply set_nth_length. Qed.
Lemma length_futs_setf s f x : length (futs (setf s f x)) = length (futs s).
Proof. unfold setf; cbn. apply set_nth_length. Qed.

Lemma getf_oob s f : length (futs s) <= f -> getf s f = dfut.
Proof. intros H. unfold getf. apply nth_overflow; auto. Qed.
Lemma gett_oob s t : length (tasks s) <= t -> gett s t = dtask.
Proof. intros H. unfold gett. apply nth_overflow; auto. Qed.
Lemma geth_oob s h : length (handles s) <= h -> geth s h = dh.
Proof. intros H. unfold geth. apply nth_overflow; auto. Qed.

(* -------------------------------------------------- observers and congruence *)
Lemma task_key_eq s s' t h :
  hcb (geth s' h) = hcb (geth s h) -> task_key s' t h = task_key s t h.
Proof. intros E. unfold task_key, task_of_handle. rewrite E. reflexivity. Qed.

Lemma hcnt_perm s s' t :
  Permutation (rq_items (ready s')) (rq_items (ready s)) ->
  (forall h, In h (rq_items (ready s)) -> hcb (geth s' h) = hcb (geth s h)) ->
  hcnt s' t = hcnt s t.
Proof.
  intros P E. unfold hcnt. rewrite (cnt_perm _ _ _ P). apply cnt_ext.
  intros h Hh. apply task_key_eq; auto.
Qed.

Lemma bo_eq s s' t :
  twaiter (gett s' t) = twaiter (gett s t) -> (forall g, fdone s' g = fdone s g) -> bo s' t = bo s t.
Proof. intros E1 E2. unfold bo. rewrite E1. destruct (twaiter (gett s t)); auto. rewrite E2; auto. Qed.

Lemma cls_congr c s s' t :
  hcnt s' t = hcnt s t -> (forall g, fdone s' g = fdone s g) ->
  (forall g, fdone s g = false -> ccnt s' t g = ccnt s t g) ->
  twaiter (gett s' t) = twaiter (gett s t) ->
  cls c s t -> cls c s' t.
Proof.
  intros Eh Ef Ec Ew. unfold cls. destruct (is_cur c t).
  - intros (Q1 & Q2 & Q3). split; [congruence|]. split; [|rewrite (bo_eq s s' t Ew Ef); auto].
    intros g Hg. rewrite Ef in Hg. rewrite Ec; auto.
  - intros (R1 & R2). unfold RB. rewrite (bo_eq s s' t Ew Ef). split; [congruence|].
    intros g Hg. rewrite Ef in Hg. rewrite Ec; auto.
Qed.

Lemma nontask_eq s s' h : handles s' = handles s -> nontask s h -> nontask s' h.
Proof. unfold nontask, task_of_handle, geth. intros ->. auto. Qed.

Lemma tcont_ok_eq s s' k :
  handles s' = handles s -> blocks s' = blocks s -> tcont_ok s k -> tcont_ok s' k.
Proof.
  intros Eh Eb. assert (Hf : forall frs, Forall (frame_ok s) frs -> Forall (frame_ok s') frs).
  { apply Forall_impl. intros [] ; simpl; auto. apply nontask_eq; auto. }
  destruct k; simpl; rewrite ?Eb; auto; intros [? ?]; split; auto.
Qed.

Section WithQueue.
Variable qok : rq -> Prop.
Hypothesis QS : QSpec qok.
Notation WF := (WF qok).
Notation InvC := (InvC qok).

Definition K (c : option nat) (s0 s : st) : Prop := InvC c s /\ ext s0 s.

Lemma K_refl c s : InvC c s -> K c s s.
Proof. intros; split; auto using ext_refl. Qed.

(* the tables that matter are unchanged, or changed only in fields the invariant ignores *)
Lemma WF_obs s s' :
  WF s -> qok (ready s') -> Permutation (rq_items (ready s')) (rq_items (ready s)) ->
  handles s' = handles s -> blocks s' = blocks s -> timers s' = timers s ->
  length (tasks s') = length (tasks s) -> length (futs s) <= length (futs s') ->
  (forall t, t < length (tasks s) -> tfut (gett s' t) = tfut (gett s t)) ->
  (forall t, t < length (tasks s) -> tcont_ok s (tcont_ (gett s' t))) -> WF s'.
Proof.
  intros [W1 W2 W3 W4 W5 W6 W7] Hq Hp Eh Eb Et El Ef Etf Etc. constructor.
  - auto.
  - intros h Hh. rewrite Eh. apply W2. eapply Permutation_in; eauto.
  - unfold geth, task_of_handle, geth. rewrite Eh. apply W3.
  - intros t Ht. rewrite El in Ht. rewrite Etf by auto. specialize (W4 t Ht). lia.
  - unfold getb. rewrite Eb. intros b Hb. eapply nontask_eq; eauto.
  - rewrite Et. intros w h Hh. eapply nontask_eq; eauto.
  - intros t Ht. rewrite El in Ht. eapply tcont_ok_eq; eauto.
Qed.

Lemma InvC_obs c s s' :
  InvC c s -> WF s' -> length (tasks s') = length (tasks s) ->
  (forall t, hcnt s' t = hcnt s t) ->
  (forall g, fdone s' g = fdone s g) ->
  (forall t g, fdone s g = false -> ccnt s' t g = ccnt s t g) ->
  (forall t, t < length (tasks s) ->
             twaiter (gett s' t) = twaiter (gett s t) /\ tfut (gett s' t) = tfut (gett s t)) ->
  InvC c s'.
Proof.
  intros [I1 I2 I3 I4] W El Eh Ef Ec Et. constructor; auto.
  - intros t Ht. rewrite El. auto.
  - intros t Ht Hd. rewrite El in Ht. destruct (Et t Ht) as [Ew Etf].
    apply (@cls_congr c s s'); auto. apply I3; auto. unfold tdone in *. rewrite Etf, Ef in Hd. auto.
  - intros t Ht. rewrite El in Ht. destruct (I4 t Ht) as [H1 H2]. split; [rewrite Eh; auto|].
    intros g Hg. rewrite Ef in Hg. rewrite Ec; auto.
Qed.

Lemma ext_same s0 s s' :
  handles s' = handles s -> length (blocks s') = length (blocks s) ->
  length (tasks s') = length (tasks s) -> current s' = current s -> ext s0 s -> ext s0 s'.
Proof.
  intros Eh Eb Et Ec [A1 A2 A3 A4 A5]. constructor; try congruence; try lia.
  unfold geth. rewrite Eh. auto.
Qed.

Lemma InvC_same c s s' :
  ready s' = ready s -> handles s' = handles s -> futs s' = futs s -> tasks s' = tasks s ->
  blocks s' = blocks s -> timers s' = timers s -> InvC c s -> InvC c s'.
Proof.
  intros Er Eh Ef Et Eb Em I.
  assert (W : WF s').
  { pose proof (i_wf I) as W0. eapply WF_obs; [exact W0|..]; rewrite ?Er, ?Ef, ?Et; auto.
    - apply W0.
    - unfold gett. rewrite Et. auto.
    - unfold gett. rewrite Et. intros. apply W0; auto. }
  eapply InvC_obs; [exact I|exact W|..]; rewrite ?Et; auto.
  + intros t. apply hcnt_perm; rewrite ?Er; auto. unfold geth. rewrite Eh. auto.
  + unfold fdone, getf. rewrite Ef. auto.
  + unfold ccnt, getf. rewrite Ef. auto.
  + unfold gett. rewrite Et. auto.
Qed.

(* a change that touches none of: ready, handles, futs, tasks, blocks, timers, current *)
Lemma K_same c s0 s s' :
  ready s' = ready s -> handles s' = handles s -> futs s' = futs s -> tasks s' = tasks s ->
  blocks s' = blocks s -> timers s' = timers s -> current s' = current s ->
  K c s0 s -> K c s0 s'.
Proof.
  intros Er Eh Ef Et Eb Em Ec [I E]. split.
  - assert (W : WF s').
    { pose proof (i_wf I) as W0. eapply WF_obs; [exact W0|..]; rewrite ?Er, ?Ef, ?Et; auto.
      - apply W0.
      - unfold gett. rewrite Et. auto.
      - unfold gett. rewrite Et. intros. apply W0; auto. }
    eapply InvC_obs; [exact I|exact W|..]; rewrite ?Et; auto.
    + intros t. apply hcnt_perm; rewrite ?Er; auto. unfold geth. rewrite Eh. auto.
    + unfold fdone, getf. rewrite Ef. auto.
    + unfold ccnt, getf. rewrite Ef. auto.
    + unfold gett. rewrite Et. auto.
  - eapply ext_same; [..|exact E]; congruence.
Qed.

Lemma K_setl c s0 s l x : K c s0 s -> K c s0 (setl s l x).
Proof. apply K_same; reflexivity. Qed.
Lemma K_setc c s0 s l x : K c s0 s -> K c s0 (setc s l x).
Proof. apply K_same; reflexivity. Qed.
Lemma K_sete c s0 s l x : K c s0 s -> K c s0 (sete s l x).
Proof. apply K_same; reflexivity. Qed.
Lemma K_addlog c s0 s n : K c s0 s -> K c s0 (addlog s n).
Proof. apply K_same; reflexivity. Qed.
Lemma K_adderr c s0 s e : K c s0 s -> K c s0 (adderr s e).
Proof. apply K_same; reflexivity. Qed.

(* a task entry changes in fields other than tfut / twaiter *)
Lemma K_sett c s0 s t x :
  tfut x = tfut (gett s t) -> twaiter x = twaiter (gett s t) -> tcont_ok s (tcont_ x) ->
  K c s0 s -> K c s0 (sett s t x).
Proof.
  intros Ef Ew Hc [I E]. split.
  - assert (W : WF (sett s t x)).
    { pose proof (i_wf I) as W0. eapply WF_obs; [exact W0|..]; try reflexivity; auto.
      - apply W0.
      - apply length_tasks_sett.
      - intros t' Ht'. rewrite gett_sett. destruct (_ && _) eqn:B; auto.
        apply andb_prop in B. destruct B as [B _]. apply Nat.eqb_eq in B. congruence.
      - intros t' Ht'. rewrite gett_sett. destruct (_ && _) eqn:B; auto. apply W0; auto. }
    eapply InvC_obs; [exact I|exact W|apply length_tasks_sett|reflexivity|reflexivity|reflexivity|].
    intros t' Ht'. rewrite gett_sett. destruct (_ && _) eqn:B; auto.
      apply andb_prop in B. destruct B as [B _]. apply Nat.eqb_eq in B. subst. auto.
  - eapply ext_same; [..|exact E]; try reflexivity. apply length_tasks_sett.
Qed.

(* a future entry changes in fields other than state / callbacks *)
Lemma K_setf c s0 s f x :
  fstate_ x = fstate_ (getf s f) -> fcbs x = fcbs (getf s f) ->
  K c s0 s -> K c s0 (setf s f x).
Proof.
  intros Es Ecb [I E]. split.
  - assert (W : WF (setf s f x)).
    { pose proof (i_wf I) as W0. eapply WF_obs; [exact W0|..]; try reflexivity; auto.
      - apply W0.
      - rewrite length_futs_setf. lia.
      - intros. apply W0; auto. }
    eapply InvC_obs; [exact I|exact W|reflexivity|reflexivity|..]; auto.
    + intros g. unfold fdone. rewrite getf_setf. destruct (_ && _) eqn:B; auto.
      apply andb_prop in B. destruct B as [B _]. apply Nat.eqb_eq in B. subst. rewrite Es. auto.
    + intros t g _. unfold ccnt. rewrite getf_setf. destruct (_ && _) eqn:B; auto.
      apply andb_prop in B. destruct B as [B _]. apply Nat.eqb_eq in B. subst. rewrite Ecb. auto.
  - eapply ext_same; [..|exact E]; reflexivity.
Qed.

(* ------------------------------------------------------------ new_future *)
Lemma getf_new_future s o g :
  let s' := fst (new_future s o) in
  fstate_ (getf s' g) = fstate_ (getf s g) /\ fcbs (getf s' g) = fcbs (getf s g).
Proof.
  unfold new_future, getf; cbn.
  destruct (Nat.lt_ge_cases g (length (futs s))) as [H|H].
  - rewrite app_nth1 by auto. auto.
  - rewrite (nth_overflow (futs s)) by auto. rewrite app_nth2 by auto.
    destruct (g - length (futs s)) as [|[|n]]; simpl; auto.
Qed.

Lemma K_new_future c s0 s o : K c s0 s -> K c s0 (fst (new_future s o)).
Proof.
  intros [I E]. split.
  - assert (W : WF (fst (new_future s o))).
    { pose proof (i_wf I) as W0. eapply WF_obs; [exact W0|..]; try reflexivity; auto.
      - apply W0.
      - unfold new_future; cbn. rewrite app_length. lia.
      - intros. apply W0; auto. }
    eapply InvC_obs; [exact I|exact W|reflexivity|reflexivity|..]; auto.
    + intros g. unfold fdone. destruct (getf_new_future s o g) as [-> _]. auto.
    + intros t g _. unfold ccnt. destruct (getf_new_future s o g) as [_ ->]. auto.
  - eapply ext_same; [..|exact E]; reflexivity.
Qed.

Lemma new_future_pending s o :
  let s' := fst (new_future s o) in
  length (futs s') = S (length (futs s)) /\ fdone s' (length (futs s)) = false /\
  fcbs (getf s' (length (futs s))) = [] /\ fblock (getf s' (length (futs s))) = false.
Proof.
  unfold new_future, fdone, getf; cbn. rewrite app_length, app_nth2, Nat.sub_diag by lia. simpl.
  repeat split; auto. lia.
Qed.

(* ------------------------------------------------------------ call_soon *)
Definition cb_key (t : nat) (c0 : callback) : bool :=
  match task_of_cb c0 with Some t' => Nat.eqb t t' | None => false end.

Lemma geth_app_old s s' l h :
  handles s' = handles s ++ l -> h < length (handles s) -> geth s' h = geth s h.
Proof. intros E H. unfold geth. rewrite E, app_nth1; auto. Qed.

Lemma ext_app_handles s s' l :
  handles s' = handles s ++ l -> length (blocks s') = length (blocks s) ->
  length (tasks s') = length (tasks s) -> current s' = current s -> ext s s'.
Proof.
  intros Eh Eb Et Ec. constructor; try lia; auto.
  - rewrite Eh, app_length. lia.
  - intros h Hh. erewrite geth_app_old; eauto.
Qed.

(* handles appended, not cancelled; everything else but ready/timers equal *)
Lemma WF_grow s s' l :
  WF s -> handles s' = handles s ++ l -> (forall x, In x l -> hcancelled x = false) ->
  qok (ready s') -> (forall h, In h (rq_items (ready s')) -> h < length (handles s')) ->
  (forall w h, In (w, h) (timers s') -> In (w, h) (timers s) \/ nontask s' h) ->
  futs s' = futs s -> tasks s' = tasks s -> blocks s' = blocks s -> current s' = current s ->
  WF s'.
Proof.
  intros W Eh Hl Hq Hr Ht Ef Et Eb Ec.
  assert (E : ext s s') by (eapply ext_app_handles; eauto; congruence).
  constructor; auto.
  - intros h Hc. destruct (Nat.lt_ge_cases h (length (handles s))) as [H|H].
    + unfold task_of_handle. rewrite (geth_app_old s s' l h Eh H) in *. apply (i_canc W); auto.
    + unfold task_of_handle, geth in *. rewrite Eh in *. rewrite app_nth2 in * by auto.
      destruct (nth_in_or_default (h - length (handles s)) l dh) as [Hi|Hd].
      * rewrite (Hl _ Hi) in Hc. discriminate.
      * rewrite Hd. reflexivity.
  - unfold gett. rewrite Et, Ef. apply (i_tfut W).
  - unfold getb. rewrite Eb. intros b Hb. eapply nontask_ext; eauto. apply (i_blk W); auto.
  - intros w h Hh. destruct (Ht w h Hh) as [H|H]; auto.
    eapply nontask_ext; eauto. eapply (i_tim W); eauto.
  - unfold gett. rewrite Et. intros t Hlt. eapply tcont_ok_ext; eauto. apply (i_frm W); auto.
Qed.

Lemma call_soon_eq s c0 : call_soon s c0 = (call_soon_ s c0, length (handles s)).
Proof. reflexivity. Qed.

Lemma call_soon_facts s c0 : WF s ->
  let s' := call_soon_ s c0 in
  WF s' /\ ext s s' /\ handles s' = handles s ++ [mkH c0 false] /\
  (forall t, hcnt s' t = hcnt s t + (if cb_key t c0 then 1 else 0)).
Proof.
  intros W s'.
  assert (Eh : handles s' = handles s ++ [mkH c0 false]) by reflexivity.
  destruct (q_append QS (ready s) (length (handles s))
              (handle_priority (s <| handles := handles s ++ [mkH c0 false] |>) c0) (i_qok W))
    as [Hq Hp].
  assert (Hr : forall h, In h (rq_items (ready s')) -> h < length (handles s')).
  { intros h Hh. rewrite Eh, app_length; simpl.
    eapply Permutation_in in Hh; [|exact Hp]. destruct Hh as [<-|Hh]; [lia|].
    pose proof (i_rwf W _ Hh). lia. }
  split; [|split; [|split]]; auto.
  - eapply WF_grow; eauto; try reflexivity.
    intros x [<-|[]]. reflexivity.
  - eapply ext_app_handles; eauto; reflexivity.
  - intros t. unfold hcnt. change (ready s') with
      (rq_append (ready s) (length (handles s))
         (handle_priority (s <| handles := handles s ++ [mkH c0 false] |>) c0)).
    rewrite (cnt_perm _ _ _ Hp), cnt_cons.
    rewrite (cnt_ext (task_key s' t) (task_key s t)).
    + replace (task_key s' t (length (handles s))) with (cb_key t c0); [lia|].
      unfold task_key, task_of_handle, geth, cb_key. rewrite Eh, app_nth2, Nat.sub_diag by lia.
      reflexivity.
    + intros h Hh. apply task_key_eq. erewrite geth_app_old; eauto. apply (i_rwf W); auto.
Qed.

Lemma K_call_soon_nt c s0 s c0 :
  task_of_cb c0 = None -> K c s0 s -> K c s0 (call_soon_ s c0).
Proof.
  intros Hn [I E]. destruct (call_soon_facts s c0 (i_wf I)) as (W & E' & Eh & Hc). split.
  - eapply InvC_obs; [exact I|exact W|reflexivity|..]; auto.
    intros t. rewrite Hc. unfold cb_key. rewrite Hn. lia.
  - eapply ext_trans; eauto.
Qed.

(* ------------------------------------------------------------ call_at / cancel_handle *)
Lemma timer_lt_asym a b : timer_lt a b = true -> timer_lt b a = false.
Proof.
  unfold timer_lt, qltb. rewrite !negb_true_iff, negb_false_iff.
  intros H. apply Qle_bool_iff. destruct (Qlt_le_dec (fst a) (fst b)) as [L|L].
  - apply Qlt_le_weak; auto.
  - apply Qle_bool_iff in L. congruence.
Qed.
Lemma timer_le_trans a b c :
  timer_lt b a = false -> timer_lt c b = false -> timer_lt c a = false.
Proof.
  unfold timer_lt, qltb. rewrite !negb_false_iff, !Qle_bool_iff. intros; eapply Qle_trans; eauto.
Qed.

Lemma call_at_facts c s0 s w c0 :
  task_of_cb c0 = None -> K c s0 s ->
  let s' := fst (call_at s w c0) in
  K c s0 s' /\ snd (call_at s w c0) = length (handles s) /\ nontask s' (length (handles s)).
Proof.
  intros Hn [I E] s'. pose proof (i_wf I) as W0.
  assert (Eh : handles s' = handles s ++ [mkH c0 false]) by reflexivity.
  assert (Hnt : nontask s' (length (handles s))).
  { split; [rewrite Eh, app_length; simpl; lia|].
    unfold task_of_handle, geth. rewrite Eh, app_nth2, Nat.sub_diag by lia. exact Hn. }
  assert (W : WF s').
  { eapply WF_grow; eauto; try reflexivity.
    - intros x [<-|[]]. reflexivity.
    - apply W0.
    - intros h Hh. rewrite Eh, app_length. apply (i_rwf W0) in Hh. lia.
    - intros w' h' Hh. unfold s', call_at in Hh; cbn in Hh.
      eapply Permutation_in in Hh;
        [|apply (heappush_perm timer_lt tdflt timer_lt_asym timer_le_trans)].
      destruct Hh as [Hh|Hh]; [inversion Hh; subst; auto|auto]. }
  assert (E' : ext s s') by (eapply ext_app_handles; eauto; reflexivity).
  split; [|split; auto]. split; [|eapply ext_trans; eauto].
  eapply InvC_obs; [exact I|exact W|reflexivity|..]; auto.
  intros t. apply hcnt_perm; auto. intros h Hh. erewrite geth_app_old; eauto. apply (i_rwf W0); auto.
Qed.

Lemma K_cancel_handle c s0 s h : nontask s h -> K c s0 s -> K c s0 (cancel_handle s h).
Proof.
  intros [Hl Hn] [I E]. pose proof (i_wf I) as W0. set (s' := cancel_handle s h).
  assert (Ecb : forall h', hcb (geth s' h') = hcb (geth s h')).
  { intros h'. unfold s', cancel_handle, geth; cbn. rewrite nth_set_nth.
    destruct (_ && _) eqn:B; auto. apply andb_prop in B. destruct B as [B _].
    apply Nat.eqb_eq in B. subst. reflexivity. }
  assert (El : length (handles s') = length (handles s)) by (apply set_nth_length).
  assert (Hnt : forall h', nontask s h' -> nontask s' h').
  { intros h' [A B]. split; [lia|]. unfold task_of_handle in *. rewrite Ecb; auto. }
  assert (W : WF s').
  { destruct W0 as [W1 W2 W3 W4 W5 W6 W7]. constructor.
    - exact W1.
    - intros h' Hh. rewrite El. apply W2. exact Hh.
    - intros h' Hc. unfold task_of_handle. rewrite Ecb.
      unfold s', cancel_handle, geth in Hc; cbn in Hc. rewrite nth_set_nth in Hc.
      destruct (_ && _) eqn:B.
      + apply andb_prop in B. destruct B as [B _]. apply Nat.eqb_eq in B. subst. exact Hn.
      + apply W3; auto.
    - exact W4.
    - intros b Hb. apply Hnt. apply W5. exact Hb.
    - intros w h' Hh. apply Hnt. eapply W6. exact Hh.
    - intros t Ht. specialize (W7 t Ht). change (gett s' t) with (gett s t).
      destruct (tcont_ (gett s t)); simpl in *; auto;
        destruct W7 as [F ?]; split; auto;
        (eapply Forall_impl; [|exact F]); intros [] ; simpl; auto. }
  split.
  - eapply InvC_obs; [exact I|exact W|reflexivity|..]; auto.
    intros t. apply hcnt_perm; auto.
  - destruct E as [A1 A2 A3 A4 A5]. constructor; auto; try lia.
    intros h' Hh. rewrite Ecb. auto.
Qed.

(* ------------------------------------------------------------ reordering the ready queue *)
Lemma K_ready_perm c s0 s r :
  qok r -> Permutation (rq_items r) (rq_items (ready s)) ->
  K c s0 s -> K c s0 (s <| ready := r |>).
Proof.
  intros Hq Hp [I E]. pose proof (i_wf I) as W0. split.
  - assert (W : WF (s <| ready := r |>)).
    { eapply WF_obs; [exact W0|..]; try reflexivity; auto. intros; apply W0; auto. }
    eapply InvC_obs; [exact I|exact W|reflexivity|..]; auto.
    intros t. apply hcnt_perm; auto.
  - eapply ext_same; [..|exact E]; reflexivity.
Qed.

(* ------------------------------------------------------------ fut_finish *)
Lemma cb_key_callback t f c : cb_key t (cb_callback f c) = is_wakeup t c.
Proof. destruct c; unfold cb_key, is_wakeup; simpl; auto. apply Nat.eqb_sym. Qed.

Lemma fold_call_soon_facts f cbs : forall u, WF u ->
  let s' := fold_left (fun s c => call_soon_ s (cb_callback f c)) cbs u in
  WF s' /\ ext u s' /\ futs s' = futs u /\ tasks s' = tasks u /\
  (forall t, hcnt s' t = hcnt u t + cnt (is_wakeup t) cbs).
Proof.
  induction cbs as [|c cbs IH]; intros u W; simpl.
  - split; [auto|]. split; [apply ext_refl|]. split; [auto|]. split; [auto|].
    intros t. rewrite cnt_nil. lia.
  - destruct (call_soon_facts u (cb_callback f c) W) as (W1 & E1 & _ & H1).
    destruct (IH _ W1) as (W2 & E2 & F2 & T2 & H2).
    split; [auto|]. split; [eapply ext_trans; eauto|]. split; [rewrite F2; reflexivity|].
    split; [rewrite T2; reflexivity|].
    intros t. rewrite H2, H1, cnt_cons, cb_key_callback. lia.
Qed.

Lemma fut_finish_obs s f x s' ok :
  WF s -> x <> FPending -> fut_finish s f x = (s', ok) ->
  fstate_ (getf s f) = FPending -> f < length (futs s) ->
  WF s' /\ ext s s' /\ tasks s' = tasks s /\
  (forall t, hcnt s' t = hcnt s t + ccnt s t f) /\
  (forall g, fdone s' g = Nat.eqb g f || fdone s g) /\
  (forall t g, g <> f -> ccnt s' t g = ccnt s t g).
Proof.
  intros W Hx E Es Hf. unfold fut_finish in E. rewrite Es in E. inversion E; subst; clear E.
  unfold schedule_callbacks.
  set (s1 := setf s f (getf s f <| fstate_ := x |>)).
  set (s2 := setf s1 f (getf s1 f <| fcbs := [] |>)).
  assert (E1 : getf s1 f = getf s f <| fstate_ := x |>) by (apply getf_setf_same; auto).
  assert (Hf1 : f < length (futs s1)) by (unfold s1; rewrite length_futs_setf; auto).
  assert (Ecb : fcbs (getf s1 f) = fcbs (getf s f)) by (rewrite E1; reflexivity).
  assert (W2 : WF s2).
  { eapply WF_obs; [exact W|..]; try reflexivity; auto.
    - apply W.
    - unfold s2, s1. rewrite !length_futs_setf. lia.
    - intros; apply W; auto. }
  set (cbs := fcbs (getf s1 f)) in *.
  destruct (fold_call_soon_facts f cbs s2 W2) as (W3 & E3 & F3 & T3 & H3).
  split; [exact W3|]. split.
  { eapply ext_trans; [|exact E3]. eapply ext_same; [..|apply ext_refl]; reflexivity. }
  split; [rewrite T3; reflexivity|]. split.
  { intros t. rewrite H3, Ecb. reflexivity. }
  assert (G : forall g, getf (fold_left (fun s c => call_soon_ s (cb_callback f c))
                                        cbs s2) g = getf s2 g).
  { intros g. unfold getf. rewrite F3. reflexivity. }
  split.
  - intros g. unfold fdone. rewrite G. unfold s2. destruct (Nat.eqb_spec g f) as [->|Hn].
    + rewrite getf_setf_same by auto. rewrite E1. cbn. destruct x; auto; congruence.
    + rewrite getf_setf_other by auto. unfold s1. rewrite getf_setf_other by auto. reflexivity.
  - intros t g Hn. unfold ccnt. rewrite G. unfold s2. rewrite getf_setf_other by auto.
    unfold s1. rewrite getf_setf_other by auto. reflexivity.
Qed.

Lemma fdone_pending s f : fdone s f = false <-> fstate_ (getf s f) = FPending.
Proof. unfold fdone. destruct (fstate_ (getf s f)); split; congruence. Qed.

Lemma K_fut_finish c s0 s f x s' ok :
  x <> FPending -> fut_finish s f x = (s', ok) -> K c s0 s -> K c s0 s'.
Proof.
  intros Hx E [I Ex]. destruct (fstate_ (getf s f)) eqn:Es;
    try (unfold fut_finish in E; rewrite Es in E; inversion E; subst; split; auto; fail).
  destruct (Nat.lt_ge_cases f (length (futs s))) as [Hf|Hf].
  2:{ (* out of range: nothing happens *)
    unfold fut_finish in E. rewrite Es in E. inversion E; subst; clear E.
    unfold schedule_callbacks.
    assert (Ef : forall u y, length (futs u) <= f -> futs (setf u f y) = futs u).
    { intros u y Hu. unfold setf; cbn. apply set_nth_oob; auto. }
    set (s1 := setf s f (getf s f <| fstate_ := x |>)).
    assert (Eg : getf s1 f = dfut).
    { unfold s1. apply getf_oob. rewrite length_futs_setf; auto. }
    rewrite Eg. simpl.
    eapply K_same; [..|split; [exact I|exact Ex]]; try reflexivity.
    rewrite Ef; [unfold s1; apply Ef; auto|]. unfold s1. rewrite Ef; auto. }
  destruct (fut_finish_obs s f x s' ok (i_wf I) Hx E Es Hf) as (W & E' & T & Hh & Hd & Hc).
  assert (Pf : fdone s f = false) by (apply fdone_pending; auto).
  assert (Eg : forall t, gett s' t = gett s t) by (intros; unfold gett; rewrite T; auto).
  split; [|eapply ext_trans; eauto].
  constructor; auto.
  - rewrite T. apply I.
  - rewrite T. intros t Ht Hdn. unfold tdone in Hdn. rewrite Eg, Hd in Hdn.
    apply orb_false_elim in Hdn. destruct Hdn as [Hn Hdn]. apply Nat.eqb_neq in Hn.
    pose proof (i_cls I t Ht Hdn) as C. unfold cls in *. destruct (is_cur c t).
    + destruct C as (Q1 & Q2 & Q3). split; [|split].
      * rewrite Hh, Q1, Q2; auto.
      * intros g Hg. rewrite Hd in Hg. apply orb_false_elim in Hg. destruct Hg as [Hg1 Hg2].
        apply Nat.eqb_neq in Hg1. rewrite Hc; auto.
      * unfold bo in *. rewrite Eg. destruct (twaiter (gett s t)) as [f0|]; auto.
        rewrite Hd. destruct (fdone s f0); [rewrite orb_true_r; auto|discriminate].
    + destruct C as (R1 & R2). unfold RB, bo in *. rewrite Eg.
      destruct (twaiter (gett s t)) as [f0|] eqn:Ew.
      * rewrite Hd. destruct (fdone s f0) eqn:Ed0.
        { rewrite orb_true_r. split; [rewrite Hh, R1, R2; auto|].
          intros g Hg. rewrite Hd in Hg. apply orb_false_elim in Hg. destruct Hg as [Hg1 Hg2].
          apply Nat.eqb_neq in Hg1. rewrite Hc; auto. }
        { rewrite orb_false_r. destruct (Nat.eqb_spec f0 f) as [->|Hn0].
          - split; [rewrite Hh, R1, R2, Nat.eqb_refl; auto|].
            intros g Hg. rewrite Hd in Hg. apply orb_false_elim in Hg. destruct Hg as [Hg1 Hg2].
            apply Nat.eqb_neq in Hg1. rewrite Hc, R2; auto.
            destruct (Nat.eqb_spec f g); auto; congruence.
          - split; [rewrite Hh, R1, R2; auto; destruct (Nat.eqb_spec f0 f); auto; congruence|].
            intros g Hg. rewrite Hd in Hg. apply orb_false_elim in Hg. destruct Hg as [Hg1 Hg2].
            apply Nat.eqb_neq in Hg1. rewrite Hc; auto. }
      * split; [rewrite Hh, R1, R2; auto|].
        intros g Hg. rewrite Hd in Hg. apply orb_false_elim in Hg. destruct Hg as [Hg1 Hg2].
        apply Nat.eqb_neq in Hg1. rewrite Hc; auto.
  - rewrite T. intros t Ht. destruct (i_oor I t Ht) as [O1 O2]. split.
    + rewrite Hh, O1, O2; auto.
    + intros g Hg. rewrite Hd in Hg. apply orb_false_elim in Hg. destruct Hg as [Hg1 Hg2].
      apply Nat.eqb_neq in Hg1. rewrite Hc; auto.
Qed.

(* ------------------------------------------------------------ automation *)
Lemma tcont_ok_any c s t : InvC c s -> tcont_ok s (tcont_ (gett s t)).
Proof.
  intros I. destruct (Nat.lt_ge_cases t (length (tasks s))) as [H|H].
  - apply (i_frm (i_wf I)); auto.
  - rewrite gett_oob by auto. exact Logic.I.
Qed.

Lemma K_sett' c s0 s t x :
  tfut x = tfut (gett s t) -> twaiter x = twaiter (gett s t) -> tcont_ x = tcont_ (gett s t) ->
  K c s0 s -> K c s0 (sett s t x).
Proof.
  intros A B C HK. apply K_sett; auto. rewrite C. eapply tcont_ok_any. apply HK.
Qed.

Lemma K_fut_finish_fst c s0 s f x :
  x <> FPending -> K c s0 s -> K c s0 (fst (fut_finish s f x)).
Proof.
  intros Hx HK. destruct (fut_finish s f x) as [s' ok] eqn:E. simpl. eapply K_fut_finish; eauto.
Qed.

End WithQueue.

Ltac case_in E :=
  match type of E with
  | context [match ?x with _ => _ end] =>
      lazymatch type of x with
      | prod _ _ => let a := fresh "s" in let b := fresh "r" in destruct x as [a b] eqn:?
      | _ => destruct x eqn:?
      end
  | context [if ?x then _ else _] => destruct x eqn:?
  end.
Ltac case_goal :=
  match goal with
  | |- context [match ?x with _ => _ end] =>
      lazymatch type of x with
      | prod _ _ => let a := fresh "s" in let b := fresh "r" in destruct x as [a b] eqn:?
      | _ => destruct x eqn:?
      end
  | |- context [if ?x then _ else _] => destruct x eqn:?
  end.

(* one goal-directed step on a goal [K c s0 X] *)
Ltac kprim := fail.
Ltac kstep :=
  first
    [ assumption
    | apply K_setl | apply K_setc | apply K_sete | apply K_addlog | apply K_adderr
    | apply K_new_future
    | apply K_fut_finish_fst; [eassumption|discriminate|]
    | eapply K_fut_finish; [eassumption| |eassumption|]; [discriminate|]
    | apply K_sett'; [reflexivity|reflexivity|reflexivity|]
    | apply K_setf; [reflexivity|reflexivity|]
    | apply K_call_soon_nt; [eassumption|reflexivity|]
    | kprim
    | match goal with
      | |- K _ _ _ (if ?b then _ else _) => destruct b eqn:?
      | |- K _ _ _ (match ?x with _ => _ end) =>
          lazymatch type of x with
          | prod _ _ => let a := fresh "s" in let b := fresh "r" in destruct x as [a b] eqn:?
          | _ => destruct x eqn:?
          end
      end ].
Ltac kgo := repeat kstep.

Section WithQueue2.
Variable qok : rq -> Prop.
Hypothesis QS : QSpec qok.
Notation WF := (WF qok).
Notation InvC := (InvC qok).
Notation K := (K qok).

(* ------------------------------------------------------------ cancellation *)
Lemma K_task_cancel c s0 : forall fuel s t s' ok,
  task_cancel fuel s t = (s', ok) -> K c s0 s -> K c s0 s'.
Proof.
  induction fuel as [|fuel IH]; intros s t s' ok E HK; cbn [task_cancel] in E.
  - repeat case_in E; inversion E; subst; clear E; kgo.
  - repeat case_in E; inversion E; subst; clear E; kgo.
    + eapply IH; eauto.
    + eapply IH; eauto.
Qed.

Lemma K_cancel_task c s0 s t s' ok : cancel_task s t = (s', ok) -> K c s0 s -> K c s0 s'.
Proof. apply K_task_cancel. Qed.

Lemma K_cancel_awaitable c s0 s f s' ok :
  cancel_awaitable s f = (s', ok) -> K c s0 s -> K c s0 s'.
Proof.
  unfold cancel_awaitable. intros E HK. case_in E.
  - eapply K_cancel_task; eauto.
  - eapply K_fut_finish; eauto. discriminate.
Qed.

(* ------------------------------------------------------------ ready-queue moves *)
Lemma K_task_reinsert c s0 s t p s' r :
  task_reinsert s t p = (s', r) -> K c s0 s -> K c s0 s'.
Proof.
  unfold task_reinsert. intros E HK. destruct (rq_find (ready s) (task_key s t) true) as [[h r']|] eqn:F;
    inversion E; subst; clear E; auto.
  destruct (q_find QS _ _ _ _ (i_qok (i_wf (proj1 HK))) F) as (Q1 & _ & P1).
  destruct (q_insert QS r' p h Q1) as (Q2 & P2).
  apply K_ready_perm; auto. eapply perm_trans; [exact P2|]. symmetry. exact P1.
Qed.

Lemma K_call_pos_nt c s0 s p c0 : task_of_cb c0 = None -> K c s0 s -> K c s0 (call_pos s p c0).
Proof.
  intros Hn HK. unfold call_pos. rewrite call_soon_eq.
  pose proof (K_call_soon_nt qok QS c s0 s c0 Hn HK) as HK1.
  destruct (rq_remove (ready (call_soon_ s c0)) (length (handles s))) as [r|] eqn:R; auto.
  destruct (q_remove QS _ _ _ (i_qok (i_wf (proj1 HK1))) R) as (Q1 & P1).
  destruct (q_insert QS r p (length (handles s)) Q1) as (Q2 & P2).
  apply K_ready_perm; auto. eapply perm_trans; [exact P2|]. symmetry. exact P1.
Qed.

Lemma K_task_reschedule c s0 s t : K c s0 s -> K c s0 (task_reschedule s t).
Proof.
  intros HK. unfold task_reschedule.
  destruct (q_resched QS (ready s) (task_key s t) (effective_priority s t)
              (i_qok (i_wf (proj1 HK)))) as (Q1 & P1).
  apply K_ready_perm; auto.
Qed.

Lemma K_propagate_task c s0 : forall fuel s t, K c s0 s -> K c s0 (propagate_task fuel s t).
Proof.
  induction fuel as [|fuel IH]; intros s t HK; cbn [propagate_task].
  - repeat case_goal; auto using K_task_reschedule.
  - destruct (negb (is_prio_task s t)); auto.
    set (s' := if task_is_runnable s t then task_reschedule s t else s).
    assert (HK' : K c s0 s') by (unfold s'; destruct (task_is_runnable s t); auto using K_task_reschedule).
    clearbody s'. clear HK s. rename s' into s, HK' into HK.
    destruct (twaiting (gett s t)) as [l|]; auto.
    assert (HK1 : K c s0 (match lowner (getl s l) with
                          | Some o => propagate_task fuel s o | None => s end)).
    { destruct (lowner (getl s l)); auto. }
    set (s1 := match lowner (getl s l) with Some o => propagate_task fuel s o | None => s end) in *.
    repeat case_goal; auto using K_setl.
Qed.

Lemma K_propagate_priority c s0 s t : K c s0 s -> K c s0 (propagate_priority s t).
Proof. apply K_propagate_task. Qed.

Lemma K_queue_iterated c s0 s : K c s0 s -> K c s0 (queue_iterated s).
Proof.
  intros HK. unfold queue_iterated. destruct (ready s) as [l|p] eqn:R; auto.
  assert (Q : qok (RPos p)) by (rewrite <- R; apply (i_qok (i_wf (proj1 HK)))).
  destruct (q_iter QS p Q) as (Q1 & P1). apply K_ready_perm; auto. rewrite R. exact P1.
Qed.

Lemma K_new_future_eq c s0 s o s' f : new_future s o = (s', f) -> K c s0 s -> K c s0 s'.
Proof. intros E HK. replace s' with (fst (new_future s o)) by (rewrite E; reflexivity). apply K_new_future; auto. Qed.

End WithQueue2.

Ltac kprim ::=
  first
    [ eapply K_new_future_eq; [eassumption|]
    | eapply K_task_cancel; [eassumption|eassumption|]
    | eapply K_cancel_task; [eassumption|eassumption|]
    | eapply K_cancel_awaitable; [eassumption|eassumption|]
    | eapply K_task_reinsert; [eassumption|eassumption|]
    | apply K_call_pos_nt; [eassumption|reflexivity|]
    | apply K_task_reschedule; [eassumption|]
    | apply K_propagate_priority; [eassumption|]
    | apply K_queue_iterated; [eassumption|] ].

Ltac kop E := repeat case_in E; inversion E; subst; clear E; kgo.

Section WithQueue3.
Variable qok : rq -> Prop.
Hypothesis QS : QSpec qok.
Notation WF := (WF qok).
Notation InvC := (InvC qok).
Notation K := (K qok).

(* ------------------------------------------------------------ locks, conditions *)
Lemma K_take_lock c s0 s l t s' : take_lock s l t = inl s' -> K c s0 s -> K c s0 s'.
Proof. unfold take_lock. intros E HK. kop E. Qed.

Lemma K_wake_up_first_p c s0 s l : K c s0 s -> K c s0 (wake_up_first_p s l).
Proof. intros HK. unfold wake_up_first_p. kgo. Qed.

Lemma K_wake_up_first_a c s0 s l : K c s0 s -> K c s0 (wake_up_first_a s l).
Proof. intros HK. unfold wake_up_first_a. kgo. Qed.

Lemma K_fut_result c s0 s f s' r : fut_result s f = (s', r) -> K c s0 s -> K c s0 s'.
Proof. unfold fut_result. intros E HK. kop E. Qed.

Definition lres_ok (s : st) (r : lres) : Prop :=
  match r with LDone _ => True | LSusp _ frs => Forall (frame_ok s) frs end.

Ltac frames_triv := repeat (constructor; try exact Logic.I).

Lemma lres_ok_triv s r :
  (forall y frs, r = LSusp y frs -> Forall (fun fr => forall h, fr <> InSleepTimer h) frs) ->
  lres_ok s r.
Proof.
  destruct r as [|y frs]; simpl; auto. intros H. specialize (H y frs eq_refl).
  eapply Forall_impl; [|exact H]. intros [] Hn; simpl; auto. exfalso. eapply Hn; eauto.
Qed.

Lemma K_await_fut c s0 s f outer s' r :
  await_fut s f outer = (s', r) -> K c s0 s -> K c s0 s'.
Proof.
  unfold await_fut. intros E HK. repeat case_in E; inversion E; subst; clear E; kgo.
  eapply K_fut_result; eauto.
Qed.

Lemma K_acquire_p_start c s0 s t l s' r :
  acquire_p_start s t l = (s', r) -> K c s0 s -> K c s0 s'.
Proof.
  unfold acquire_p_start. intros E HK. repeat case_in E; inversion E; subst; clear E; kgo.
  eapply K_take_lock; eauto.
Qed.

Lemma K_acquire_p_finish c s0 s t l f had inp s' r :
  acquire_p_finish s t l f had inp = (s', r) -> K c s0 s -> K c s0 s'.
Proof.
  unfold acquire_p_finish. intros E HK.
  assert (H1 : forall s1 r1,
     match inp with
     | RVal _ => match take_lock s l t with inl s' => (s', RVal 1) | inr e => (s, RExc e) end
     | RExc e => (s, RExc e) end = (s1, r1) -> K c s0 s1).
  { intros s1 r1 E1. destruct inp; [destruct (take_lock s l t) eqn:T|]; inversion E1; subst; auto.
    eapply K_take_lock; eauto. }
  destruct (match inp with RVal _ => _ | RExc e => _ end) as [s1 r1] eqn:E1.
  specialize (H1 _ _ eq_refl). inversion E; subst; clear E.
  repeat first [kstep | apply K_wake_up_first_p].
Qed.

Lemma K_release_p c s0 s t l s' r : release_p s t l = (s', r) -> K c s0 s -> K c s0 s'.
Proof.
  unfold release_p. intros E HK. repeat case_in E; inversion E; subst; clear E;
    repeat first [kstep | apply K_wake_up_first_p].
Qed.

Lemma K_acquire_a_start c s0 s l s' r : acquire_a_start s l = (s', r) -> K c s0 s -> K c s0 s'.
Proof. unfold acquire_a_start. intros E HK. kop E. Qed.

Lemma K_acquire_a_finish c s0 s l f inp s' r :
  acquire_a_finish s l f inp = (s', r) -> K c s0 s -> K c s0 s'.
Proof.
  unfold acquire_a_finish. intros E HK. repeat case_in E; inversion E; subst; clear E;
    repeat first [kstep | apply K_wake_up_first_a].
Qed.

Lemma K_release_a c s0 s l s' r : release_a s l = (s', r) -> K c s0 s -> K c s0 s'.
Proof.
  unfold release_a. intros E HK. repeat case_in E; inversion E; subst; clear E;
    repeat first [kstep | apply K_wake_up_first_a].
Qed.

Lemma K_acquire_start c s0 s t l s' r : acquire_start s t l = (s', r) -> K c s0 s -> K c s0 s'.
Proof.
  unfold acquire_start. intros E HK. destruct (lkind_ (getl s l)).
  - eapply K_acquire_p_start; eauto.
  - eapply K_acquire_a_start; eauto.
Qed.

Lemma K_release c s0 s t l s' r : release s t l = (s', r) -> K c s0 s -> K c s0 s'.
Proof.
  unfold release. intros E HK. destruct (lkind_ (getl s l)).
  - eapply K_release_p; eauto.
  - eapply K_release_a; eauto.
Qed.

Lemma acquire_start_frames s t l s' r :
  acquire_start s t l = (s', r) ->
  forall y frs, r = LSusp y frs -> Forall (fun fr => forall h, fr <> InSleepTimer h) frs.
Proof.
  unfold acquire_start, acquire_p_start, acquire_a_start. intros E y frs ->.
  repeat case_in E; inversion E; subst; repeat constructor; discriminate.
Qed.

Lemma K_notify_p c s0 s cd n : K c s0 s -> K c s0 (notify_p s cd n).
Proof.
  intros HK. unfold notify_p.
  set (F := fun '(s, taken, cnt) f =>
              if n <=? cnt then (s, taken, cnt)
              else if fdone s f then (s, S taken, cnt)
                   else (fst (fut_finish s f (FResult 1)), S taken, S cnt)).
  assert (H : forall order acc, K c s0 (fst (fst acc)) ->
                                K c s0 (fst (fst (fold_left F order acc)))).
  { induction order as [|f order IH]; intros [[s1 tk] cn] H1; simpl; auto.
    apply IH. simpl in *. destruct (n <=? cn); simpl; auto.
    destruct (fdone s1 f); simpl; auto. kgo. }
  match goal with |- context [fold_left F ?o ?a] =>
    specialize (H o a HK); destruct (fold_left F o a) as [[s1 tk] cn] end.
  simpl in H. kgo.
Qed.

Lemma K_notify_i c s0 s cd n : K c s0 s -> K c s0 (notify_i s cd n).
Proof.
  intros HK. unfold notify_i.
  set (F := fun '(s, cnt) f =>
              if n <=? cnt then (s, cnt)
              else if fdone s f then (s, cnt)
                   else (fst (fut_finish s f (FResult 0)), S cnt)).
  assert (H : forall order acc, K c s0 (fst acc) -> K c s0 (fst (fold_left F order acc))).
  { induction order as [|f order IH]; intros [s1 cn] H1; simpl; auto.
    apply IH. simpl in *. destruct (n <=? cn); simpl; auto.
    destruct (fdone s1 f); simpl; auto. kgo. }
  apply H. exact HK.
Qed.

Lemma K_reacquire c s0 s t cd pc err body s' r :
  reacquire s t cd pc err body = (s', r) -> K c s0 s -> K c s0 s'.
Proof.
  unfold reacquire. intros E HK.
  destruct (acquire_start s t (clock (getc s cd))) as [s1 r1] eqn:A.
  pose proof (K_acquire_start _ _ _ _ _ _ _ A HK).
  repeat case_in E; inversion E; subst; auto.
Qed.

Lemma reacquire_frames s t cd pc err body s' r :
  reacquire s t cd pc err body = (s', r) ->
  forall y frs, r = LSusp y frs -> Forall (fun fr => forall h, fr <> InSleepTimer h) frs.
Proof.
  unfold reacquire. intros E y frs ->.
  destruct (acquire_start s t (clock (getc s cd))) as [s1 r1] eqn:A.
  pose proof (acquire_start_frames _ _ _ _ _ A) as Hf.
  repeat case_in E; inversion E; subst.
  all: apply Forall_app; (split; [eapply Hf; eauto|repeat constructor; discriminate]).
Qed.

Lemma K_cond_p_after c s0 s cd r s' r' :
  cond_p_after s cd r = (s', r') -> K c s0 s -> K c s0 s'.
Proof.
  unfold cond_p_after. intros E HK. destruct r; inversion E; subst; auto. apply K_notify_p; auto.
Qed.

(* ------------------------------------------------------------ one task changes class *)
Lemma InvC_obs_but c c' s s' t :
  InvC c s -> WF s' -> length (tasks s') = length (tasks s) ->
  (forall t', c' = Some t' -> t' < length (tasks s)) ->
  (forall t', t' <> t -> is_cur c' t' = is_cur c t') ->
  (forall t', t' <> t -> hcnt s' t' = hcnt s t') ->
  (forall g, fdone s' g = fdone s g) ->
  (forall t' g, t' <> t -> fdone s g = false -> ccnt s' t' g = ccnt s t' g) ->
  (forall t', t' <> t -> t' < length (tasks s) ->
              twaiter (gett s' t') = twaiter (gett s t') /\ tfut (gett s' t') = tfut (gett s t')) ->
  (t < length (tasks s) -> tdone s' t = false -> cls c' s' t) ->
  (length (tasks s) <= t -> hcnt s' t = 0 /\ forall g, fdone s' g = false -> ccnt s' t g = 0) ->
  InvC c' s'.
Proof.
  intros I W El Hcur Hic Eh Ef Ec Et Ht Ho. constructor; auto.
  - intros t' Hc'. rewrite El. auto.
  - rewrite El. intros t' Ht' Hd. destruct (Nat.eq_dec t' t) as [->|Hn]; auto.
    destruct (Et t' Hn Ht') as [Ew Etf].
    assert (C : cls c s t').
    { apply (i_cls I); auto. unfold tdone in *. rewrite Etf, Ef in Hd. auto. }
    unfold cls in *. rewrite (Hic t' Hn). destruct (is_cur c t').
    + destruct C as (Q1 & Q2 & Q3). split; [rewrite Eh; auto|].
      split; [|rewrite (bo_eq s s' t' Ew Ef); auto].
      intros g Hg. rewrite Ef in Hg. rewrite Ec; auto.
    + destruct C as (R1 & R2). unfold RB. rewrite (bo_eq s s' t' Ew Ef). split; [rewrite Eh; auto|].
      intros g Hg. rewrite Ef in Hg. rewrite Ec; auto.
  - rewrite El. intros t' Ht'. destruct (Nat.eq_dec t' t) as [->|Hn]; auto.
    destruct (i_oor I t' Ht') as [O1 O2]. split; [rewrite Eh; auto|].
    intros g Hg. rewrite Ef in Hg. rewrite Ec; auto.
Qed.

Lemma kpy_in_range s t : tkind_ (gett s t) = KPy -> t < length (tasks s).
Proof.
  intros H. destruct (Nat.lt_ge_cases t (length (tasks s))); auto.
  rewrite gett_oob in H by auto. discriminate.
Qed.

Lemma task_key_true s t h : task_key s t h = true <-> task_of_handle s h = Some t.
Proof.
  unfold task_key. destruct (task_of_handle s h) as [t'|]; split; intros H; try discriminate.
  - apply Nat.eqb_eq in H. congruence.
  - inversion H. apply Nat.eqb_refl.
Qed.

Lemma task_key_other s t t' h : task_key s t h = true -> t' <> t -> task_key s t' h = false.
Proof.
  intros H Hn. apply task_key_true in H. unfold task_key. rewrite H. apply Nat.eqb_neq. auto.
Qed.

(* removing one handle of task t from the ready queue *)
Lemma hcnt_remove s r h t :
  Permutation (rq_items (ready s)) (h :: rq_items r) -> task_key s t h = true ->
  hcnt s t = S (hcnt (s <| ready := r |>) t) /\
  forall t', t' <> t -> hcnt (s <| ready := r |>) t' = hcnt s t'.
Proof.
  intros P Hk. unfold hcnt. split.
  - rewrite (cnt_perm _ _ _ P), cnt_cons, Hk. reflexivity.
  - intros t' Hn. rewrite (cnt_perm (task_key s t') _ _ P), cnt_cons.
    change (task_key (s <| ready := r |>) t') with (task_key s t').
    rewrite (task_key_other s t t' h Hk Hn). reflexivity.
Qed.

Lemma is_wakeup_other t t' x : t' <> t -> is_wakeup t' x = true -> negb (cb_eqb x (CbWakeup t)) = true.
Proof.
  unfold is_wakeup. destruct x; simpl; intros Hn H; auto. apply Nat.eqb_eq in H. subst.
  apply negb_true_iff, Nat.eqb_neq. auto.
Qed.

Lemma remove_cb_obs s f t :
  let s' := remove_done_callback s f (CbWakeup t) in
  (forall g, fstate_ (getf s' g) = fstate_ (getf s g)) /\
  ccnt s' t f = 0 /\
  (forall t' g, (t' <> t \/ g <> f) -> ccnt s' t' g = ccnt s t' g).
Proof.
  unfold remove_done_callback. split; [|split].
  - intros g. rewrite getf_setf. destruct (_ && _) eqn:B; auto.
    apply andb_prop in B. destruct B as [B _]. apply Nat.eqb_eq in B. subst. reflexivity.
  - unfold ccnt. rewrite getf_setf, Nat.eqb_refl. simpl.
    destruct (f <? length (futs s)) eqn:B.
    + cbn. apply (cnt_filter_neg (is_wakeup t)).
    + apply Nat.ltb_ge in B. rewrite getf_oob by auto. reflexivity.
  - intros t' g Hor. unfold ccnt. rewrite getf_setf. destruct (_ && _) eqn:B; auto.
    apply andb_prop in B. destruct B as [B _]. apply Nat.eqb_eq in B. subst g.
    destruct Hor as [Hn|Hn]; [|congruence]. cbn.
    apply cnt_filter_other. intros x. apply is_wakeup_other; auto.
Qed.

(* the common tail of an accepted task_throw / of re-scheduling a detached task:
   clear the waiter and call_soon a step *)
Lemma attach_step c c' s0 s1 t hc :
  InvC c s0 -> WF s1 -> task_of_cb hc = Some t ->
  t < length (tasks s0) -> is_cur c' t = false ->
  (forall t', c' = Some t' -> t' < length (tasks s0)) ->
  (forall t', t' <> t -> is_cur c' t' = is_cur c t') ->
  tasks s1 = tasks s0 ->
  (forall g, fdone s1 g = fdone s0 g) ->
  (forall t' g, t' <> t -> fdone s0 g = false -> ccnt s1 t' g = ccnt s0 t' g) ->
  (forall t', t' <> t -> hcnt s1 t' = hcnt s0 t') ->
  (tdone s0 t = false -> hcnt s1 t = 0 /\ forall g, fdone s1 g = false -> ccnt s1 t g = 0) ->
  forall x, tfut x = tfut (gett s1 t) -> tcont_ok s1 (tcont_ x) ->
            (tdone s0 t = false ->
             match twaiter x with Some f => fdone s1 f = true | None => True end) ->
  InvC c' (call_soon_ (sett s1 t x) hc).
Proof.
  intros I W1 Hhc Ht Hct Hcur Hic Et Ef Ec Eh HC0 x Hx Hk Hw.
  assert (Ht1 : t < length (tasks s1)) by (rewrite Et; auto).
  set (s2 := sett s1 t x).
  assert (W2 : WF s2).
  { eapply WF_obs; [exact W1|..]; try reflexivity; auto.
    - apply W1.
    - apply length_tasks_sett.
    - intros t' Ht'. unfold s2. rewrite gett_sett. destruct (_ && _) eqn:B; auto.
      apply andb_prop in B. destruct B as [B _]. apply Nat.eqb_eq in B. subst. auto.
    - intros t' Ht'. unfold s2. rewrite gett_sett. destruct (_ && _) eqn:B; auto.
      apply W1; auto. }
  destruct (call_soon_facts qok QS s2 hc W2) as (W3 & E3 & Eh3 & Hc3).
  assert (Eg : forall t', gett (call_soon_ s2 hc) t' = gett s2 t') by reflexivity.
  assert (Hkey : forall t', cb_key t' hc = Nat.eqb t' t).
  { intros t'. unfold cb_key. rewrite Hhc. reflexivity. }
  eapply (InvC_obs_but c c' s0 (call_soon_ s2 hc) t I W3).
  - change (length (tasks s2) = length (tasks s0)). unfold s2. rewrite length_tasks_sett, Et. auto.
  - exact Hcur.
  - exact Hic.
  - intros t' Hn. rewrite Hc3, Hkey. destruct (Nat.eqb_spec t' t); [congruence|].
    change (hcnt s2 t') with (hcnt s1 t'). rewrite Eh; auto.
  - intros g. change (fdone (call_soon_ s2 hc) g) with (fdone s1 g). auto.
  - intros t' g Hn Hg. change (ccnt (call_soon_ s2 hc) t' g) with (ccnt s1 t' g). auto.
  - intros t' Hn Ht'. rewrite Eg. unfold s2. rewrite gett_sett_other by auto.
    unfold gett. rewrite Et. auto.
  - intros _ Hd.
    assert (Hd0 : tdone s0 t = false).
    { unfold tdone in *. rewrite Eg in Hd. unfold s2 in Hd. rewrite gett_sett_same in Hd by auto.
      change (fdone s1 (tfut x) = false) in Hd. rewrite Hx, Ef in Hd. unfold gett in Hd.
      rewrite Et in Hd. exact Hd. }
    destruct (HC0 Hd0) as [H0 C0]. specialize (Hw Hd0).
    unfold cls. rewrite Hct. unfold RB.
    assert (Eb : bo (call_soon_ s2 hc) t = None).
    { unfold bo. rewrite Eg. unfold s2. rewrite gett_sett_same by auto.
      destruct (twaiter x) as [f|]; auto.
      change (fdone (call_soon_ (sett s1 t x) hc) f) with (fdone s1 f). rewrite Hw. auto. }
    rewrite Eb. split.
    + rewrite Hc3, Hkey, Nat.eqb_refl. change (hcnt s2 t) with (hcnt s1 t). lia.
    + intros g Hg. change (ccnt (call_soon_ s2 hc) t g) with (ccnt s1 t g). apply C0. exact Hg.
  - intros Hle. lia.
Qed.

Lemma WF_ready_sub s r :
  qok r -> (forall h, In h (rq_items r) -> In h (rq_items (ready s))) -> WF s ->
  WF (s <| ready := r |>).
Proof.
  intros Hq Hs [W1 W2 W3 W4 W5 W6 W7]. constructor; auto.
Qed.

Lemma quiet_not_cur_by_waiter c s t f :
  InvC c s -> t < length (tasks s) -> tdone s t = false -> twaiter (gett s t) = Some f ->
  fdone s f = false -> is_cur c t = false.
Proof.
  intros I Ht Hd Hw Hf. pose proof (i_cls I t Ht Hd) as C. unfold cls in C.
  destruct (is_cur c t); auto. destruct C as (_ & _ & Q). unfold bo in Q. rewrite Hw, Hf in Q.
  discriminate.
Qed.

(* the state transformation of an accepted task_throw, as a relation *)
Definition throw_go (s1 : st) (t : nat) (e : exn) : st :=
  call_soon_ (sett s1 t (gett s1 t <| twaiter := None |>)) (HStep t (Some e)).

Lemma task_throw_cases s t e s' r :
  task_throw s t e = (s', r) ->
  (s' = s /\ exists k, r = RExc (ERuntime k)) \/
  (r = RVal 0 /\ tdone s t = false /\ tkind_ (gett s t) = KPy /\
   ((exists f, twaiter (gett s t) = Some f /\ fdone s f = false /\
               s' = throw_go (remove_done_callback s f (CbWakeup t)) t e) \/
    (exists h r', bo s t = None /\ tmustc (gett s t) = false /\
                  rq_find (ready s) (task_key s t) true = Some (h, r') /\
                  s' = throw_go (s <| ready := r' |>) t e))).
Proof.
  unfold task_throw. intros E.
  destruct (tdone s t) eqn:Hd; [inversion E; left; eauto|].
  destruct (tkind_ (gett s t)) eqn:Hk; [inversion E; left; eauto|].
  destruct (twaiter (gett s t)) as [f|] eqn:Hw.
  - destruct (fdone s f) eqn:Hf; simpl in E.
    + destruct (tmustc (gett s t) || fcancelled s f) eqn:Hm; [inversion E; left; eauto|].
      destruct (rq_find (ready s) (task_key s t) true) as [[h r']|] eqn:F;
        [|inversion E; left; eauto].
      inversion E; subst. right. repeat split; auto. right. exists h, r'.
      apply orb_false_elim in Hm. destruct Hm as [Hm _].
      repeat split; auto. unfold bo. rewrite Hw, Hf. reflexivity.
    + inversion E; subst. right. repeat split; auto. left. exists f. auto.
  - destruct (tmustc (gett s t)) eqn:Hm; [inversion E; left; eauto|].
    destruct (rq_find (ready s) (task_key s t) true) as [[h r']|] eqn:F;
      [|inversion E; left; eauto].
    inversion E; subst. right. repeat split; auto. right. exists h, r'.
    repeat split; auto. unfold bo. rewrite Hw. reflexivity.
Qed.

Lemma ext_throw_go s s1 t e :
  handles s1 = handles s -> length (blocks s1) = length (blocks s) ->
  length (tasks s1) = length (tasks s) -> current s1 = current s ->
  ext s (throw_go s1 t e).
Proof.
  intros Eh Eb Et Ec. eapply ext_app_handles with (l := [mkH (HStep t (Some e)) false]).
  - unfold throw_go. cbn. rewrite Eh. reflexivity.
  - exact Eb.
  - unfold throw_go. change (length (tasks (sett s1 t (gett s1 t <| twaiter := None |>))) = length (tasks s)).
    rewrite length_tasks_sett. exact Et.
  - exact Ec.
Qed.

Lemma throw_blocked_inv c s t e f :
  InvC c s -> tdone s t = false -> tkind_ (gett s t) = KPy ->
  twaiter (gett s t) = Some f -> fdone s f = false ->
  InvC c (throw_go (remove_done_callback s f (CbWakeup t)) t e).
Proof.
  intros I Hd Hk Hw Hf. pose proof (kpy_in_range s t Hk) as Ht.
  pose proof (quiet_not_cur_by_waiter c s t f I Ht Hd Hw Hf) as Hc.
  pose proof (i_cls I t Ht Hd) as C. unfold cls in C. rewrite Hc in C.
  destruct C as (R1 & R2). unfold bo in R1, R2. rewrite Hw, Hf in R1, R2.
  set (s1 := remove_done_callback s f (CbWakeup t)).
  destruct (remove_cb_obs s f t) as (O1 & O2 & O3). fold s1 in O1, O2, O3.
  assert (Efd : forall g, fdone s1 g = fdone s g) by (intros g; unfold fdone; rewrite O1; auto).
  assert (W1 : WF s1).
  { eapply WF_obs; [exact (i_wf I)|..]; try reflexivity; auto.
    - apply (i_wf I).
    - unfold s1, remove_done_callback. rewrite length_futs_setf. lia.
    - intros. apply (i_wf I); auto. }
  assert (A1 : forall t' g, t' <> t -> fdone s g = false -> ccnt s1 t' g = ccnt s t' g).
  { intros t' g Hn Hg. apply O3. auto. }
  assert (A2 : forall g, fdone s1 g = false -> ccnt s1 t g = 0).
  { intros g Hg. rewrite Efd in Hg. destruct (Nat.eq_dec g f) as [->|Hn]; auto.
    rewrite O3 by auto. rewrite R2 by auto. destruct (Nat.eqb_spec f g); auto; congruence. }
  assert (A3 : tcont_ok s1 (tcont_ (gett s t))).
  { apply (tcont_ok_eq s s1); [reflexivity|reflexivity|]. eapply tcont_ok_any; eauto. }
  unfold throw_go. set (x := gett s1 t <| twaiter := None |>).
  assert (A4 : match twaiter x with Some f => fdone s1 f = true | None => True end) by exact Logic.I.
  exact (attach_step c c s s1 t (HStep t (Some e)) I W1 eq_refl Ht Hc (i_cur I)
           (fun _ _ => eq_refl) eq_refl Efd A1 (fun _ _ => eq_refl) (fun _ => conj R1 A2)
           x eq_refl A3 (fun _ => A4)).
Qed.

Lemma throw_runnable_inv c s t e h r' :
  InvC c s -> tdone s t = false -> tkind_ (gett s t) = KPy -> bo s t = None ->
  rq_find (ready s) (task_key s t) true = Some (h, r') ->
  InvC c (throw_go (s <| ready := r' |>) t e).
Proof.
  intros I Hd Hk Hb F. pose proof (kpy_in_range s t Hk) as Ht.
  destruct (q_find QS _ _ _ _ (i_qok (i_wf I)) F) as (Q1 & Kh & P1).
  destruct (hcnt_remove s r' h t P1 Kh) as (H1 & H2).
  set (s1 := s <| ready := r' |>) in *.
  pose proof (i_cls I t Ht Hd) as C. unfold cls in C.
  assert (Hc : is_cur c t = false).
  { destruct (is_cur c t); auto. destruct C as (Q & _). lia. }
  rewrite Hc in C. destruct C as (R1 & R2). rewrite Hb in R1, R2.
  assert (W1 : WF s1).
  { apply WF_ready_sub; auto; [|apply (i_wf I)].
    intros h' Hh'. eapply Permutation_in; [symmetry; exact P1|]. right. auto. }
  assert (A0 : hcnt s1 t = 0) by lia.
  assert (A3 : tcont_ok s1 (tcont_ (gett s t))).
  { apply (tcont_ok_eq s s1); [reflexivity|reflexivity|]. eapply tcont_ok_any; eauto. }
  unfold throw_go. set (x := gett s1 t <| twaiter := None |>).
  assert (A4 : match twaiter x with Some f => fdone s1 f = true | None => True end) by exact Logic.I.
  exact (attach_step c c s s1 t (HStep t (Some e)) I W1 eq_refl Ht Hc (i_cur I)
           (fun _ _ => eq_refl) eq_refl (fun _ => eq_refl) (fun _ _ _ _ => eq_refl) H2
           (fun _ => conj A0 R2) x eq_refl A3 (fun _ => A4)).
Qed.

Lemma K_task_throw c s0 s t e s' r : task_throw s t e = (s', r) -> K c s0 s -> K c s0 s'.
Proof.
  intros E [I Ex]. destruct (task_throw_cases s t e s' r E) as [[-> _]|(_ & Hd & Hk & [H|H])].
  - split; auto.
  - destruct H as (f & Hw & Hf & ->). split.
    + apply throw_blocked_inv; auto.
    + eapply ext_trans; [exact Ex|]. apply ext_throw_go; reflexivity.
  - destruct H as (h & r' & Hb & _ & F & ->). split.
    + eapply throw_runnable_inv; eauto.
    + eapply ext_trans; [exact Ex|]. apply ext_throw_go; reflexivity.
Qed.

Lemma K_trans c s0 s s' : K c s0 s -> K c s s' -> K c s0 s'.
Proof. intros [I E] [I' E']. split; auto. eapply ext_trans; eauto. Qed.

(* ------------------------------------------------------------ timeout blocks *)
Lemma K_setb c s0 s b x : btimer x = btimer (getb s b) -> K c s0 s -> K c s0 (setb s b x).
Proof.
  intros Hx [I E]. pose proof (i_wf I) as W0.
  assert (El : length (blocks (setb s b x)) = length (blocks s)) by apply set_nth_length.
  assert (W : WF (setb s b x)).
  { destruct W0 as [W1 W2 W3 W4 W5 W6 W7]. constructor; auto.
    - intros b' Hb'. rewrite El in Hb'. unfold getb, setb; cbn. rewrite nth_set_nth.
      destruct (_ && _) eqn:B; [|apply W5; auto].
      apply andb_prop in B. destruct B as [B _]. apply Nat.eqb_eq in B. subst. rewrite Hx.
      apply W5; auto.
    - intros t Ht. specialize (W7 t Ht). change (gett (setb s b x) t) with (gett s t).
      destruct (tcont_ (gett s t)); simpl in *; rewrite ?El; auto. }
  split.
  - eapply InvC_obs; [exact I|exact W|reflexivity|..]; auto.
  - destruct E as [A1 A2 A3 A4 A5]. constructor; auto. rewrite El. auto.
Qed.

Lemma K_blocks_app c s0 s x :
  nontask s (btimer x) -> K c s0 s -> K c s0 (s <| blocks := blocks s ++ [x] |>).
Proof.
  intros Hx [I E]. pose proof (i_wf I) as W0. set (s' := s <| blocks := blocks s ++ [x] |>).
  assert (El : length (blocks s') = S (length (blocks s))).
  { unfold s'; cbn. rewrite app_length; simpl; lia. }
  assert (W : WF s').
  { destruct W0 as [W1 W2 W3 W4 W5 W6 W7]. constructor; auto.
    - intros b' Hb'. unfold getb, s'; cbn.
      destruct (Nat.lt_ge_cases b' (length (blocks s))) as [H|H].
      + rewrite app_nth1 by auto. apply W5; auto.
      + rewrite app_nth2 by auto. replace (b' - length (blocks s)) with 0 by lia. exact Hx.
    - intros t Ht. specialize (W7 t Ht). change (gett s' t) with (gett s t).
      destruct (tcont_ (gett s t)); simpl in *; rewrite ?El; auto.
      + eapply coro_ok_mono; eauto.
      + destruct W7; split; auto. eapply kont_ok_mono; eauto.
      + destruct W7; split; auto. eapply kont_ok_mono; eauto. }
  split.
  - eapply InvC_obs; [exact I|exact W|reflexivity|..]; auto.
  - destruct E as [A1 A2 A3 A4 A5]. constructor; auto. rewrite El. lia.
Qed.

(* ------------------------------------------------------------ interrupts *)
Definition nosleep (frs : list frame) : Prop := Forall (fun fr => forall h, fr <> InSleepTimer h) frs.
Lemma nosleep_ok s frs : nosleep frs -> Forall (frame_ok s) frs.
Proof.
  apply Forall_impl. intros [] Hn; simpl; auto. exfalso. eapply Hn; eauto.
Qed.
Lemma nosleep_app a b : nosleep a -> nosleep b -> nosleep (a ++ b).
Proof. intros; apply Forall_app; auto. Qed.

Lemma K_task_interrupt_start c s0 s t e s' r :
  task_interrupt_start s t e = (s', r) -> K c s0 s ->
  K c s0 s' /\ (forall y frs, r = LSusp y frs -> nosleep frs).
Proof.
  unfold task_interrupt_start. intros E HK.
  destruct (task_throw s t e) as [s1 r1] eqn:T.
  pose proof (K_task_throw _ _ _ _ _ _ _ T HK) as HK1.
  destruct r1; [|inversion E; subst; split; [auto|discriminate]].
  destruct (task_reinsert s1 t 0) as [s2 r2] eqn:R.
  pose proof (K_task_reinsert _ QS _ _ _ _ _ _ _ R HK1) as HK2.
  destruct r2; inversion E; subst; split; auto; try discriminate.
  intros y frs Hq. inversion Hq. repeat constructor; discriminate.
Qed.

Lemma K_interruptor c s0 : forall fuel s b i s' r,
  interruptor fuel s b i = (s', r) -> K c s0 s ->
  K c s0 s' /\ (forall y frs, r = LSusp y frs -> nosleep frs).
Proof.
  induction fuel as [|fuel IH]; intros s b i s' r E HK; cbn [interruptor] in E.
  - inversion E; subst. split; auto. discriminate.
  - destruct (3 <=? i); [inversion E; subst; split; [auto|discriminate]|].
    destruct (negb (bactive (getb s b))); [eapply IH; eauto|].
    destruct (task_interrupt_start s (btask (getb s b)) (ETimeoutInt b)) as [s1 r1] eqn:T.
    destruct (K_task_interrupt_start _ _ _ _ _ _ _ T HK) as [HK1 Hf1].
    destruct r1 as [[v|e]|y frs].
    + eapply IH; eauto.
    + destruct e; try (inversion E; subst; split; [auto|discriminate]).
      destruct (i =? 2); inversion E; subst; split; auto; try discriminate.
      intros y frs Hq. inversion Hq. repeat constructor; discriminate.
    + inversion E; subst. split; auto. intros y' frs' Hq. inversion Hq; subst.
      apply nosleep_app; [eapply Hf1; eauto|repeat constructor; discriminate].
Qed.

Lemma interruptor_wrap_eq s r s' r' :
  interruptor_wrap s r = (s', r') ->
  s' = s /\ (forall y frs, r' = LSusp y frs -> r = LSusp y frs).
Proof.
  unfold interruptor_wrap. intros E. repeat case_in E; inversion E; subst; split; auto; discriminate.
Qed.

End WithQueue3.
