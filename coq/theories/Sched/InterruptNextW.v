(* C15 / C16: "task_interrupt runs next" for ready queues in which an insert at position 0 may
   re-order the REST of the queue (the PosPriorityQueue with starvation boosting enabled: every
   insert can run the maintenance pass, which re-keys regular entries).

   [QNextW qok] weakens the first clause of InterruptNext.QNext: after rq_insert_pos r 0 h the
   handle h is the head of the run order and the rest is a PERMUTATION of the old run order (QNext
   asks for the old order itself, which is false for the boosted queue: see
   InterruptNextBoost.QNext_boost_strict_false).  Everything "runs next" needs survives:
   interrupt_nextW is C15_interrupt_next with "rq_items (ready s') = hn :: l, l a permutation of
   rq_items r'" instead of "= hn :: rq_items r'"; fires_and_raises_genW is
   TimeoutCompose.fires_and_raises_gen verbatim. *)
From Coq Require Import QArith Sorting.Permutation.
From RecordUpdate Require Import RecordUpdate.
From Asynkit Require Import Base.Prelude Queue.ListFacts Queue.PQ Queue.PosPQ Queue.Exec
     Sched.Model Sched.PartTables Sched.PartitionProofs Sched.PartitionSteps Sched.PartitionRun
     Sched.ThrowProofs Sched.TimeoutProofs Sched.TimeoutCompose Sched.ErrorsFrame Sched.InterruptNext.
Import RecordSetNotations.
Open Scope nat_scope.

Record QNextW (qok : rq -> Prop) : Prop := {
  qw_insert0 : forall r h, qok r ->
      exists l, rq_items (rq_insert_pos r 0 h) = h :: l /\ Permutation l (rq_items r);
  qw_pop : forall r h l, qok r -> rq_items r = h :: l ->
           exists r', rq_popleft r = Some (h, r') /\ rq_items r' = l /\ qok r';
  qw_behind : forall r h k p, qok r ->
           exists l, rq_items (rq_append (rq_insert_pos r 0 h) k p) = h :: l /\
                     Permutation l (k :: rq_items r)
}.
Arguments qw_insert0 {qok}. Arguments qw_pop {qok}. Arguments qw_behind {qok}.

Lemma QNext_QNextW qok : QNext qok -> QNextW qok.
Proof.
  intros QN. constructor.
  - intros r h Hq. exists (rq_items r). split; [apply (qn_insert0 QN); auto|reflexivity].
  - apply (qn_pop QN).
  - apply (qn_behind QN).
Qed.

Section NextW.
Variable qok : rq -> Prop.
Hypothesis QS : QSpec qok.
Hypothesis QN : QNextW qok.
Notation InvC := (InvC qok).

Theorem interrupt_nextW c s t t' e s' :
  InvC c s -> lib_call t (OTaskInterrupt t' e) s = (s', LSusp YNone [InSleep0]) ->
  let hn := length (handles s) in
  exists s1 v r' r'' l,
    task_throw s t' e = (s1, RVal v) /\
    s' = s1 <| ready := rq_insert_pos r' 0 hn |> /\ qok r' /\
    Permutation (rq_items (ready s1)) (hn :: rq_items r') /\
    InvC c s' /\
    geth s' hn = mkH (HStep t' (Some e)) false /\
    rq_items (ready s') = hn :: l /\ Permutation l (rq_items r') /\
    (forall h, In h l -> task_key s' t' h = false) /\
    rq_popleft (ready s') = Some (hn, r'') /\ rq_items r'' = l /\
    run_one s' = step_task t' (Some e) (s' <| ready := r'' |>) /\
    tdone s' t' = false /\ hcnt s' t' = 1 /\
    (c = Some t -> tdone s' t = false -> hcnt s' t = 0).
Proof.
  intros I L hn. rewrite interrupt_call_eq in L.
  destruct (K_task_interrupt_start qok QS c s s t' e s' _ L (K_refl qok c s I)) as [[I' _] _].
  unfold task_interrupt_start in L.
  destruct (task_throw s t' e) as [s1 r] eqn:E. destruct r as [v|x]; [|discriminate].
  destruct (reinsert_after_throw qok QS c s t' e s1 v I E) as (r' & F & Q1 & P & Z & R). fold hn in F, P, R.
  rewrite R in L. inversion L; subst s'; clear L.
  destruct (throw_unique_handle qok QS c s t' e s1 v I E) as (G & Kn & U). fold hn in G, Kn, U.
  pose proof (throw_effect qok QS c s t' e s1 v I E) as TE. cbv zeta in TE.
  destruct TE as (I1 & _ & Hd & H1 & _).
  destruct (q_insert QS r' 0 hn Q1) as [Q2 _].
  destruct (qw_insert0 QN r' hn Q1) as (l & It & Pl).
  destruct (qw_pop QN _ hn l Q2 It) as (r'' & Pp & It' & Q3).
  assert (Zl : forall h, In h l -> task_key s1 t' h = false).
  { intros h Hh. apply Z. eapply Permutation_in; [exact Pl|exact Hh]. }
  exists s1, v, r', r'', l.
  split; [reflexivity|]. split; [reflexivity|]. split; [exact Q1|]. split; [exact P|]. split; [exact I'|].
  split; [exact G|]. split; [exact It|]. split; [exact Pl|]. split; [exact Zl|]. split; [exact Pp|].
  split; [exact It'|].
  split; [apply (run_one_step _ hn r'' t' e); [exact Pp|exact G]|]. split; [exact Hd|]. split.
  - unfold hcnt. change (ready (s1 <| ready := rq_insert_pos r' 0 hn |>)) with (rq_insert_pos r' 0 hn).
    change (task_key (s1 <| ready := rq_insert_pos r' 0 hn |>) t') with (task_key s1 t').
    rewrite It, cnt_cons.
    rewrite Kn, (cnt_zero _ _ Zl). reflexivity.
  - intros -> Hdt. destruct (InvC_cur_quiet qok t _ I' Hdt) as (Q & _). exact Q.
Qed.

Theorem fires_and_raises_genW c fuel s b i s1 v frs k kx (fr bd : st -> st) :
  InvC c s -> bactive (getb s b) = true -> i < 3 ->
  let t := btask (getb s b) in
  let tok := ETimeoutInt b in
  let hn := length (handles s) in
  task_throw s t tok = (s1, RVal v) ->
  tmustc (gett s t) = false -> tcont_ (gett s t) = TSusp frs k ->
  (forall s0, resume_stack t frs (RExc tok) s0 = (fr s0, LDone (RExc tok))) ->
  (forall s0, exec t (k (RExc tok)) s0 = exec t (Call (OTimeoutExit b (RExc tok)) kx) (bd s0)) ->
  exists sI r'',
    let s3 := sI <| ready := r'' |> in
    let s5 := bd (fr (running_state s3 t)) in
    interruptor (S fuel) s b i = (sI, LSusp YNone [InSleep0; InIntr b i 0]) /\
    InvC c sI /\
    rq_popleft (ready sI) = Some (hn, r'') /\ geth sI hn = mkH (HStep t (Some tok)) false /\
    run_one sI = step_task t (Some tok) s3 /\
    delivered_exn s3 t tok = tok /\
    lib_call t (OTimeoutExit b (RExc tok)) s5 = (exit_state s5 b, LDone (RExc ETimeout)) /\
    bactive (getb (exit_state s5 b) b) = false /\
    run_one sI = (let '(s6, o) := exec t (kx (RExc ETimeout)) (exit_state s5 b) in
                  finish_step t s6 o <| current := None |>).
Proof.
  intros I A Hi t tok hn E Hm Hk HF HB.
  destruct (interrupt_dichotomy qok QS c s 0 t tok I) as [(k0 & E0 & _)|(s1' & sI & _ & L)]; [congruence|].
  destruct (interrupt_nextW c s 0 t tok sI I L)
    as (s1'' & v' & r' & r'' & l & E' & Es & _ & _ & I' & G & _ & _ & _ & Pp & _ & _ & Hd & _).
  fold hn in Es, G, Pp. rewrite E in E'. inversion E'; subst s1'' v'; clear E'.
  destruct (throw_accepted_target s t tok s1 v E) as (_ & _ & _ & Gt).
  assert (Gs : gett sI t = gett s t <| twaiter := None |>).
  { rewrite Es. change (gett (s1 <| ready := rq_insert_pos r' 0 hn |>) t) with (gett s1 t). exact Gt. }
  destruct (token_step_raises_gen sI b t hn r'' frs k kx fr bd) as (P1 & P2 & P3 & P4 & P5); auto.
  - rewrite Gs. exact Hm.
  - rewrite Gs. exact Hk.
  - exists sI, r''. cbv zeta. split.
    { rewrite interruptor_throws_only_if_active by exact Hi. rewrite A. fold t tok.
      rewrite <- (interrupt_call_eq 0 t tok s), L. reflexivity. }
    split; [exact I'|]. split; [exact Pp|]. split; [exact G|].
    repeat (split; [assumption|]). exact P5.
Qed.

(* C15_interrupt_then_yield for QNextW queues: identical statement *)
Theorem interrupt_then_yieldW s t t' e s' k :
  InvC (Some t) s -> tdone s t = false ->
  lib_call t (OTaskInterrupt t' e) s = (s', LSusp YNone [InSleep0]) ->
  exec t (Call (OTaskInterrupt t' e) k) s = (s', OYield YNone [InSleep0] k) /\
  let sf := finish_step t s' (OYield YNone [InSleep0] k) <| current := None |> in
  let hn := length (handles s) in
  t' <> t /\
  exists l r'',
    rq_items (ready sf) = hn :: l /\
    geth sf hn = mkH (HStep t' (Some e)) false /\
    geth sf (S hn) = mkH (HStep t None) false /\
    In (S hn) l /\
    (forall h, In h l -> task_key sf t' h = false) /\
    (forall h, In h l -> task_key sf t h = true -> h = S hn) /\
    tcont_ (gett sf t) = TSusp [InSleep0] k /\
    rq_popleft (ready sf) = Some (hn, r'') /\ rq_items r'' = l /\
    run_one sf = step_task t' (Some e) (sf <| ready := r'' |>).
Proof.
  intros I Hdt L. split; [cbn [exec]; rewrite L; reflexivity|]. intros sf hn.
  destruct (interrupt_nextW (Some t) s t t' e s' I L)
    as (s1 & v & r' & r0 & l0 & E & Es' & Q1 & P & I' & G & It & Pl0 & Z0 & _ & _ & _ & Hd' & H1' & Hq).
  fold hn in Es', P, G, It.
  assert (Z : forall h, In h (rq_items r') -> task_key s' t' h = false).
  { intros h Hh. apply Z0. eapply Permutation_in; [apply Permutation_sym; exact Pl0|exact Hh]. }
  pose proof (throw_effect qok QS (Some t) s t' e s1 v I E) as TE. cbv zeta in TE.
  destruct TE as (I1 & Hnc & _ & _ & _ & _ & Hh & _ & _ & Hfs & _ & _ & Hgo & _).
  assert (Hne : t' <> t).
  { intros ->. simpl in Hnc. rewrite Nat.eqb_refl in Hnc. discriminate. }
  split; [exact Hne|].
  pose proof (i_cur I' t eq_refl) as Ht'.
  assert (Hdt' : tdone s' t = false).
  { rewrite Es'. unfold tdone, fdone in *. change (gett (s1 <| ready := rq_insert_pos r' 0 hn |>) t) with (gett s1 t).
    change (getf (s1 <| ready := rq_insert_pos r' 0 hn |>)) with (getf s1).
    rewrite (Hgo t (not_eq_sym Hne)), Hfs. exact Hdt. }
  pose proof (Hq eq_refl Hdt') as H0.
  assert (Hl : length (handles s') = S hn).
  { rewrite Es'. change (handles (s1 <| ready := rq_insert_pos r' 0 hn |>)) with (handles s1).
    rewrite Hh, app_length. simpl. unfold hn. lia. }
  set (x := gett s' t <| tcont_ := TSusp [InSleep0] k |>).
  assert (Esf : sf = call_soon_ (sett s' t x) (HStep t None) <| current := None |>) by reflexivity.
  assert (Hhs : handles sf = handles s' ++ [mkH (HStep t None) false]) by reflexivity.
  set (pr := handle_priority (sett s' t x <| handles := handles s' ++ [mkH (HStep t None) false] |>) (HStep t None)).
  assert (Er : ready sf = rq_append (rq_insert_pos r' 0 hn) (S hn) pr).
  { assert (Er0 : ready sf = rq_append (ready s') (length (handles s')) pr) by reflexivity.
    rewrite Er0, Hl. f_equal. rewrite Es'. reflexivity. }
  destruct (qw_behind QN r' hn (S hn) pr Q1) as (l & El & Pl). rewrite <- Er in El.
  assert (Qf : qok (ready sf)).
  { rewrite Er. apply (q_append QS). apply (q_insert QS). exact Q1. }
  destruct (qw_pop QN _ hn l Qf El) as (r'' & Pp & It'' & _).
  assert (Gold : forall h, h < length (handles s') -> geth sf h = geth s' h).
  { intros h Hlt. unfold geth. rewrite Hhs, app_nth1; auto. }
  assert (Gn : geth sf hn = mkH (HStep t' (Some e)) false).
  { rewrite Gold by lia. exact G. }
  assert (Gn1 : geth sf (S hn) = mkH (HStep t None) false).
  { unfold geth. rewrite Hhs, <- Hl. apply nth_middle. }
  assert (Hin' : forall h, In h (rq_items r') -> h < length (handles s') /\ In h (rq_items (ready s'))).
  { intros h Hi. assert (Hi' : In h (rq_items (ready s'))).
    { rewrite It. right. eapply Permutation_in; [apply Permutation_sym; exact Pl0|exact Hi]. }
    split; [apply (i_rwf (i_wf I') h Hi')|exact Hi']. }
  exists l, r''. split; [exact El|]. split; [exact Gn|]. split; [exact Gn1|].
  split; [eapply Permutation_in; [symmetry; exact Pl|]; left; reflexivity|].
  split; [|split; [|split; [|split; [exact Pp|split; [exact It''|]]]]].
  - intros h Hi. eapply Permutation_in in Hi; [|exact Pl]. destruct Hi as [<-|Hi].
    + unfold task_key, task_of_handle. rewrite Gn1. simpl. apply Nat.eqb_neq. exact Hne.
    + destruct (Hin' h Hi) as [Hlt _]. unfold task_key, task_of_handle. rewrite (Gold h Hlt).
      apply (Z h Hi).
  - intros h Hi Hk. eapply Permutation_in in Hi; [|exact Pl]. destruct Hi as [<-|Hi]; [reflexivity|].
    exfalso. destruct (Hin' h Hi) as [Hlt Hi'].
    unfold task_key, task_of_handle in Hk. rewrite (Gold h Hlt) in Hk.
    pose proof (cnt_zero_all _ _ H0 h Hi') as Hk'. unfold task_key, task_of_handle in Hk'. congruence.
  - rewrite Esf. change (gett (call_soon_ (sett s' t x) (HStep t None) <| current := None |>) t)
      with (gett (sett s' t x) t). rewrite gett_sett_same by exact Ht'. reflexivity.
  - apply (run_one_step sf hn r'' t' e); [exact Pp|exact Gn].
Qed.

(* the step delivering an accepted interrupt adds no loop error *)
Theorem interrupt_delivery_no_errorW c s t t' e s' :
  InvC c s -> lib_call t (OTaskInterrupt t' e) s = (s', LSusp YNone [InSleep0]) ->
  errors s' = errors s /\ errors (run_one s') = errors s.
Proof.
  intros I L.
  destruct (interrupt_nextW c s t t' e s' I L)
    as (s1 & v & r' & r'' & l & E & Es' & _ & _ & _ & _ & _ & _ & _ & _ & _ & R & Hd & _).
  pose proof (throw_effect qok QS c s t' e s1 v I E) as TE. cbv zeta in TE.
  assert (He : errors s' = errors s).
  { rewrite Es'. change (errors (s1 <| ready := rq_insert_pos r' 0 (length (handles s)) |>)) with (errors s1).
    apply TE. }
  split; [exact He|]. rewrite R, step_task_errors.
  change (tdone (s' <| ready := r'' |>) t') with (tdone s' t'). rewrite Hd. exact He.
Qed.

End NextW.
