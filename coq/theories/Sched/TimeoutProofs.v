(* C16 on the scheduler model: task_timeout(None) is the bare body; the block exit
   deactivates the block, cancels its timer and converts exactly its own token into
   TimeoutError; the interruptor throws a block's token only while the block is active,
   blocks never become active again, hence no interrupt of a block after its exit; an
   active block whose task accepts the throw is interrupted next (list queue). *)
From Coq Require Import QArith.
From RecordUpdate Require Import RecordUpdate.
From Asynkit Require Import Base.Prelude Base.Obs Queue.ListFacts Sched.Model Sched.PartTables
     Sched.PartitionProofs Sched.ThrowProofs Sched.FrameFacts Sched.Corr.
Import RecordSetNotations.
Open Scope nat_scope.

(* ------------------------------------------------------------ C16_none *)
Theorem timeout_none_enter t s : lib_call t (OTimeoutEnter None) s = (s, LDone (RVal (-1))).
Proof. reflexivity. Qed.

(* the denotation of `async with task_timeout(None): body` followed by rest is the body
   followed by rest: no block, no timer, no exit call *)
Theorem timeout_none_denote t body rest env cur k s :
  exec t (denote (STimeout None body rest) env cur k) s =
  exec t (denote body env cur
                 (fun env c0 => match c0 with CNormal => denote rest env cur k | _ => k env c0 end)) s.
Proof. reflexivity. Qed.

(* ------------------------------------------------------------ C16_exit_deactivates / C16_level *)
(* what leaves the block: the block's own token becomes TimeoutError, everything else
   (results, other exceptions, tokens of other - outer - blocks) passes unchanged *)
Definition exit_reply (b : nat) (r : reply) : reply :=
  match r with
  | RExc (ETimeoutInt b') => if Nat.eqb b b' then RExc ETimeout else r
  | _ => r
  end.

Definition exit_state (s : st) (b : nat) : st :=
  cancel_handle (setb s b (mkBlk (btask (getb s b)) false (btimer (getb s b)))) (btimer (getb s b)).

Theorem timeout_exit_eq t b r s :
  lib_call t (OTimeoutExit b r) s = (exit_state s b, LDone (exit_reply b r)).
Proof. reflexivity. Qed.

Theorem exit_reply_level b :
  exit_reply b (RExc (ETimeoutInt b)) = RExc ETimeout /\
  (forall b', b' <> b -> exit_reply b (RExc (ETimeoutInt b')) = RExc (ETimeoutInt b')) /\
  (forall v, exit_reply b (RVal v) = RVal v) /\
  (forall e, (forall b', e <> ETimeoutInt b') -> exit_reply b (RExc e) = RExc e).
Proof.
  unfold exit_reply. split; [rewrite Nat.eqb_refl; reflexivity|]. split; [|split].
  - intros b' N. destruct (Nat.eqb_spec b b'); [congruence|reflexivity].
  - reflexivity.
  - intros e H. destruct e; try reflexivity. exfalso. eapply H. reflexivity.
Qed.

Theorem exit_state_facts s b :
  let s' := exit_state s b in
  let h := btimer (getb s b) in
  (* the block is inactive, keeps its task and timer; other blocks untouched *)
  bactive (getb s' b) = false /\
  btask (getb s' b) = btask (getb s b) /\ btimer (getb s' b) = btimer (getb s b) /\
  (forall b', b' <> b -> getb s' b' = getb s b') /\
  length (blocks s') = length (blocks s) /\
  (* its timer handle is cancelled (same callback); other handles untouched *)
  (h < length (handles s) -> geth s' h = mkH (hcb (geth s h)) true) /\
  (forall h', h' <> h -> geth s' h' = geth s h') /\
  length (handles s') = length (handles s) /\
  (* nothing else changes *)
  ready s' = ready s /\ futs s' = futs s /\ tasks s' = tasks s /\ locks s' = locks s /\
  conds s' = conds s /\ events s' = events s /\ timers s' = timers s /\ now s' = now s /\
  current s' = current s /\ log s' = log s /\ errors s' = errors s.
Proof.
  intros s' h. unfold s', exit_state, cancel_handle, setb, getb, geth. cbn. fold h.
  split.
  { rewrite nth_set_nth, Nat.eqb_refl. cbn [andb].
    destruct (Nat.ltb_spec b (length (blocks s))) as [L|L]; [reflexivity|].
    rewrite nth_overflow by exact L. reflexivity. }
  split.
  { rewrite nth_set_nth, Nat.eqb_refl. cbn [andb]. destruct (Nat.ltb b (length (blocks s))); reflexivity. }
  split.
  { rewrite nth_set_nth, Nat.eqb_refl. cbn [andb]. destruct (Nat.ltb b (length (blocks s))); reflexivity. }
  split; [intros b' N; apply nth_set_nth_other; exact N|].
  split; [apply set_nth_length|].
  split; [intros L; apply nth_set_nth_same; exact L|].
  split; [intros h' N; apply nth_set_nth_other; exact N|].
  split; [apply set_nth_length|]. repeat split; reflexivity.
Qed.

(* ------------------------------------------------------------ C16_no_late_interrupt *)
(* the interruptor of an inactive block runs through its attempts doing nothing at all *)
Theorem interruptor_inactive : forall fuel s b i,
  bactive (getb s b) = false -> interruptor fuel s b i = (s, LDone (RVal 0)).
Proof.
  induction fuel as [|fuel IH]; intros s b i H; cbn [interruptor]; [reflexivity|].
  destruct (Nat.leb 3 i); [reflexivity|]. rewrite H. cbn [negb]. apply IH. exact H.
Qed.

(* ... in each of the places it is entered: the task body, and the resumption after a sleep(0) *)
Theorem interruptor_call_inactive t s b :
  bactive (getb s b) = false -> lib_call t (OInterruptor b) s = (s, LDone (RVal 0)).
Proof. intros H. cbn [lib_call]. rewrite interruptor_inactive by exact H. reflexivity. Qed.

Theorem interruptor_resume_inactive t s b i ph v :
  bactive (getb s b) = false -> frame_resume t (InIntr b i ph) (RVal v) s = (s, LDone (RVal 0)).
Proof. intros H. cbn [frame_resume]. rewrite interruptor_inactive by exact H. reflexivity. Qed.

(* the only throw of a block's token: guarded by is_active *)
Theorem interruptor_throws_only_if_active fuel s b i :
  i < 3 ->
  interruptor (S fuel) s b i =
  if bactive (getb s b)
  then (let '(s1, r) := task_interrupt_start s (btask (getb s b)) (ETimeoutInt b) in
        match r with
        | LSusp y frs => (s1, LSusp y (frs ++ [InIntr b i 0]))
        | LDone (RExc (ERuntime k)) =>
            if Nat.eqb i 2 then (s1, LDone (RExc (ERuntime k)))
            else (s1, LSusp YNone [InSleep0; InIntr b i 1])
        | LDone (RExc e) => (s1, LDone (RExc e))
        | LDone (RVal _) => interruptor fuel s1 b (S i)
        end)
  else (s, LDone (RVal 0)).
Proof.
  intros Hi. cbn [interruptor]. destruct (Nat.leb_spec 3 i); [lia|].
  destruct (bactive (getb s b)) eqn:A; cbn [negb]; [reflexivity|].
  apply interruptor_inactive. exact A.
Qed.

(* blocks never become active again: over every action sequence, every program *)
Theorem inactive_forever s b acts :
  b < length (blocks s) -> bactive (getb s b) = false ->
  bactive (getb (fold_left do_action acts s) b) = false.
Proof.
  intros L H. destruct (grow_actions acts s) as [_ _ [_ M]]. destruct (M b L) as (_ & _ & X). auto.
Qed.

(* likewise inside a step: library calls, frames, user code *)
Theorem inactive_inside_step t c s s' o b :
  exec t c s = (s', o) -> b < length (blocks s) -> bactive (getb s b) = false ->
  bactive (getb s' b) = false.
Proof.
  intros E L H. destruct (G_exec s t c s s' o E (G_refl s)) as [[_ _ [_ M]] _].
  destruct (M b L) as (_ & _ & X). auto.
Qed.

(* no interrupt of b after b exited: whatever happens after the exit, an interruptor of b -
   already spawned or spawned later - changes nothing *)
Theorem no_late_interrupt t b r s acts :
  b < length (blocks s) ->
  let s1 := fst (lib_call t (OTimeoutExit b r) s) in
  let s2 := fold_left do_action acts s1 in
  bactive (getb s2 b) = false /\
  (forall fuel i, interruptor fuel s2 b i = (s2, LDone (RVal 0))) /\
  (forall t', lib_call t' (OInterruptor b) s2 = (s2, LDone (RVal 0))) /\
  (forall t' i ph v, frame_resume t' (InIntr b i ph) (RVal v) s2 = (s2, LDone (RVal 0))).
Proof.
  intros L s1 s2.
  assert (A : bactive (getb s2 b) = false).
  { unfold s2. apply inactive_forever.
    - unfold s1. rewrite timeout_exit_eq. cbn [fst].
      destruct (exit_state_facts s b) as (_ & _ & _ & _ & E & _). rewrite E. exact L.
    - unfold s1. rewrite timeout_exit_eq. cbn [fst]. apply exit_state_facts. }
  split; [exact A|]. split; [|split].
  - intros. apply interruptor_inactive. exact A.
  - intros. apply interruptor_call_inactive. exact A.
  - intros. apply interruptor_resume_inactive. exact A.
Qed.

(* the cancelled timer handle is skipped when it reaches the head of the ready queue *)
Theorem cancelled_handle_skipped s h r :
  rq_popleft (ready s) = Some (h, r) -> hcancelled (geth s h) = true ->
  run_one s = s <| ready := r |>.
Proof.
  intros P C. unfold run_one. rewrite P. change (geth (s <| ready := r |>) h) with (geth s h).
  rewrite C. reflexivity.
Qed.

(* ------------------------------------------------------------ C16_fires (list queue) *)
Lemma find_last_app_last {A} (key : A -> bool) l x :
  key x = true -> find_last key (l ++ [x]) = Some (length l).
Proof.
  intros H. induction l as [|a l IH]; simpl; [rewrite H; reflexivity|]. rewrite IH. reflexivity.
Qed.
Lemma remove_nth_app_last {A} (l : list A) x : remove_nth (l ++ [x]) (length l) = l.
Proof. induction l as [|a l IH]; simpl; auto. rewrite IH. reflexivity. Qed.

(* an accepted throw on the list queue appends the new handle *)
Lemma throw_accepted_list s t e s1 v l :
  ready s = RList l -> task_throw s t e = (s1, RVal v) ->
  exists l', ready s1 = RList (l' ++ [length (handles s)]) /\
             handles s1 = handles s ++ [mkH (HStep t (Some e)) false] /\
             (forall x, In x l' -> In x l).
Proof.
  intros R E.
  destruct (task_throw_cases s t e s1 (RVal v) E) as [[_ (k & Hk)]|(_ & _ & _ & H)]; [discriminate|].
  destruct H as [(f & _ & _ & ->)|(h & r' & _ & _ & F & ->)].
  - exists l. unfold throw_go, call_soon_, call_soon, remove_done_callback, sett, setf. cbn. rewrite R.
    repeat split; auto.
  - rewrite R in F. cbn [rq_find] in F. destruct (find_last _ l) as [i|] eqn:FL; [|discriminate].
    inversion F; subst. exists (remove_nth l i).
    unfold throw_go, call_soon_, call_soon, sett. cbn. repeat split; auto.
    intros x Hx. clear -Hx. revert i Hx. induction l as [|a l IH]; intros [|i] Hx; simpl in *; auto.
    destruct Hx as [->|Hx]; eauto.
Qed.

Theorem interruptor_fires fuel s b i l s1 v :
  ready s = RList l -> bactive (getb s b) = true -> i < 3 ->
  let t := btask (getb s b) in
  let hn := length (handles s) in
  task_throw s t (ETimeoutInt b) = (s1, RVal v) ->
  exists l',
    ready s1 = RList (l' ++ [hn]) /\
    geth s1 hn = mkH (HStep t (Some (ETimeoutInt b))) false /\
    (* the interruptor throws, moves the target's new handle to position 0 and sleeps *)
    interruptor (S fuel) s b i =
      (s1 <| ready := RList (hn :: l') |>, LSusp YNone [InSleep0; InIntr b i 0]) /\
    (* so the next handle run is the target's step with the block's token *)
    run_one (s1 <| ready := RList (hn :: l') |>) =
      step_task t (Some (ETimeoutInt b)) (s1 <| ready := RList l' |>).
Proof.
  intros R A Hi t hn E.
  destruct (throw_accepted_list s t (ETimeoutInt b) s1 v l R E) as (l' & R1 & H1 & _).
  exists l'.
  assert (Gh : geth s1 hn = mkH (HStep t (Some (ETimeoutInt b))) false).
  { unfold geth. rewrite H1. apply nth_middle. }
  assert (Key : task_key s1 t hn = true).
  { unfold task_key, task_of_handle. rewrite Gh. cbn. apply Nat.eqb_refl. }
  assert (TR : task_reinsert s1 t 0 = (s1 <| ready := RList (hn :: l') |>, RVal 0)).
  { unfold task_reinsert. rewrite R1. cbn [rq_find]. rewrite (find_last_app_last _ _ _ Key).
    rewrite nth_middle, remove_nth_app_last. cbn [rq_insert_pos].
    replace (insert_nth l' 0 (length (handles s))) with (length (handles s) :: l') by (destruct l'; reflexivity).
    reflexivity. }
  split; [exact R1|]. split; [exact Gh|]. split.
  - rewrite interruptor_throws_only_if_active by exact Hi. rewrite A.
    unfold task_interrupt_start. fold t. rewrite E, TR. reflexivity.
  - unfold run_one. cbn. change (nth hn (handles s1) dh) with (geth s1 hn). rewrite Gh. reflexivity.
Qed.

(* the typical interruptible target: a Python task blocked on a pending future (a sleep) *)
Theorem throw_accepts_blocked s t e f :
  tdone s t = false -> tkind_ (gett s t) = KPy -> twaiter (gett s t) = Some f -> fdone s f = false ->
  task_throw s t e = (throw_go (remove_done_callback s f (CbWakeup t)) t e, RVal 0).
Proof. intros H1 H2 H3 H4. unfold task_throw. rewrite H1, H2, H3, H4. reflexivity. Qed.

(* ------------------------------------------------------------ examples (vm_compute) *)
Definition run_acts (acts : list saction) : st :=
  fold_left do_action (map act acts) (init_st false 0 [] [] [] 0).
Definition events_of (s : st) : list Z := map snd (log s).

(* nested timeouts, the OUTER one (1 tick) expires while the INNER one (5 ticks) is active around
   sleep(10).  Each level logs the exception that leaves its `async with` (SLogExc: 903 = a
   TimeoutInterrupt token, 904 = TimeoutError), then 1/2/3 would be logged by code after the
   blocks, 4 after the outer handler *)
Definition ex_nested : script :=
  STry (STimeout (Some 1%Q)
          (STry (STimeout (Some 5%Q) (SDo (OSleep 10%Q) SEnd) (SDo (OLog 1) SEnd))
                CBase (SLogExc SReraise) SEnd (SDo (OLog 2) SEnd))
          (SDo (OLog 3) SEnd))
       CBase (SLogExc SEnd) SEnd (SDo (OLog 4) SEnd).
Definition ex_nested_acts : list saction :=
  [XSpawn SPy ex_nested; XBegin; XStep; XAdvance 1%Q; XBegin; XStep; XStep; XStep; XStep; XStep; XStep].

Example ex_nested_outer_expires :
  let s := run_acts ex_nested_acts in
  (* the outer token passes the inner block unchanged; TimeoutError appears at the outer level only *)
  events_of s = [903; 904; 4]%Z /\
  map bactive (blocks s) = [false; false] /\            (* both blocks exited *)
  hcancelled (geth s (btimer (getb s 0))) = true /\ hcancelled (geth s (btimer (getb s 1))) = true /\
  fstate_ (getf s (tfut (gett s 0))) = FResult 0 /\      (* the task ends normally *)
  fstate_ (getf s 1) = FPending /\                        (* the awaited sleep future is not cancelled *)
  rq_items (ready s) = [] /\ errors s = [].
Proof. vm_compute. repeat split; reflexivity. Qed.

(* the hypotheses of interruptor_fires hold just before the interruptor's first step there *)
Example ex_fires_hyps :
  let s := run_acts (firstn 6 ex_nested_acts) in
  ready s = RList [4] /\ bactive (getb s 0) = true /\ btask (getb s 0) = 0 /\
  snd (task_throw s 0 (ETimeoutInt 0)) = RVal 0 /\
  tkind_ (gett s 0) = KPy /\ twaiter (gett s 0) = Some 1 /\ fdone s 1 = false.
Proof. vm_compute. repeat split; reflexivity. Qed.

(* exact tie of two timers: sleep(1) inside task_timeout(1).  The timeout's timer was created
   first, so _run_once runs its trigger first and the interruptor runs before the task resumes:
   the block is still running at its deadline and is interrupted (TimeoutError, 904) *)
Definition ex_tie_running : script :=
  STry (STimeout (Some 1%Q) (SDo (OSleep 1%Q) SEnd) (SDo (OLog 7) SEnd))
       CBase (SLogExc SEnd) SEnd (SDo (OLog 8) SEnd).
Example ex_tie_block_still_running :
  let s := run_acts [XSpawn SPy ex_tie_running; XBegin; XStep; XAdvance 1%Q; XBegin;
                     XStep; XStep; XStep; XStep; XStep; XStep] in
  events_of s = [904; 8]%Z /\ map bactive (blocks s) = [false] /\
  rq_items (ready s) = [] /\ errors s = [].
Proof. vm_compute. repeat split; reflexivity. Qed.

(* the deadline passes just as the task is leaving the block: the trigger has fired and the
   interruptor task exists, but the task (woken by future 0) runs first and exits the block; the
   interruptor then finds the block inactive and does nothing: the block completes normally (7),
   nothing reaches the task afterwards (8, result 0), no loop error *)
Definition ex_tie_leaving : script :=
  STry (STimeout (Some 1%Q) (SDo (OAwaitFut 0) SEnd) (SDo (OLog 7) SEnd))
       CBase (SLogExc SEnd) SEnd (SDo (OLog 8) SEnd).
Definition ex_tie_leaving_acts : list saction :=
  [XDo ONewFut; XSpawn SPy ex_tie_leaving; XBegin; XStep; XAdvance 1%Q; XBegin;
   XDo (OSetResult 0 5); XStep; XStep; XStep; XStep; XStep].
Example ex_tie_block_leaving :
  let s := run_acts ex_tie_leaving_acts in
  events_of s = [7; 8]%Z /\ map bactive (blocks s) = [false] /\
  length (tasks s) = 2 /\                                   (* the interruptor task was spawned *)
  map fstate_ (futs s) = [FResult 5; FResult 0; FResult 0] /\  (* ... and ended quietly *)
  rq_items (ready s) = [] /\ errors s = [] /\
  (* after the task's step (9 actions) the block is inactive while the interruptor is still queued *)
  (let s9 := run_acts (firstn 9 ex_tie_leaving_acts) in
   map bactive (blocks s9) = [false] /\ rq_items (ready s9) = [3] /\
   geth s9 3 = mkH (HStep 1 None) false).
Proof. vm_compute. repeat split; reflexivity. Qed.

(* task_timeout(None) around the same body: no block, no timer *)
Example ex_none :
  let s := run_acts [XSpawn SPy (STimeout None (SDo (OSleep 1%Q) SEnd) (SDo (OLog 7) SEnd)); XBegin; XStep] in
  blocks s = [] /\ length (timers s) = 1 /\ length (handles s) = 2.
Proof. vm_compute. repeat split; reflexivity. Qed.
