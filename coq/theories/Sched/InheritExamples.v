(* C11/C12: a concrete reachable state exercising the theorems, and the refutation of the
   waiter re-key as it was before the fix (F8). *)
From Coq Require Import QArith Lqa Sorting.Permutation.
From RecordUpdate Require Import RecordUpdate.
From Asynkit Require Import Base.Prelude Queue.PQ Queue.Order Queue.PosPQ Queue.PosProofs Queue.Exec
  Sched.Model Sched.Corr Sched.Tables Sched.QFacts Sched.LockInv Sched.LockOps Sched.LockLib
  Sched.LockProofs Sched.LockStatic Sched.LockThms Sched.InheritEprio Sched.InheritHandover
  Sched.InheritKeys Sched.InheritFalls.
Import RecordSetNotations.
Open Scope nat_scope.

(* list loop, two PriorityLocks.  H (task 0, priority 0) holds lock 0 across three
   sleep(0); W1 (task 1, priority 5) takes lock 1 and queues on lock 0 (key 5, arrival 0);
   W2 (task 2, priority 3) queues on lock 0 (key 3, arrival 1); the late X (task 3,
   priority -5) queues on lock 1, held by the queued W1: W1 inherits -5 and its entry in
   lock 0 is re-keyed; H's effective priority becomes -5. *)
Definition iH : script :=
  SDo (OAcquire 0) (SDo OSleep0 (SDo OSleep0 (SDo OSleep0 (SDo (ORelease 0) SEnd)))).
Definition iW1 : script :=
  SDo (OAcquire 1) (SDo (OAcquire 0) (SDo (ORelease 0) (SDo (ORelease 1) SEnd))).
Definition iW2 : script := SDo (OAcquire 0) (SDo (ORelease 0) SEnd).
Definition iX : script := SDo (OAcquire 1) (SDo (ORelease 1) SEnd).

Definition iacts_pre : list action :=
  map act [XSpawn (SPrio 0) iH; XStep; XSpawn (SPrio 5) iW1; XSpawn (SPrio 3) iW2;
           XStep; XStep; XStep; XSpawn (SPrio (-5)) iX; XStep].
Definition iacts_x : list action := map act [XStep].      (* X runs acquire(lock 1) *)
Definition iacts_rel : list action := map act [XStep].    (* H releases lock 0 *)
Definition ist0 : st := init_st false 0 [] [LPrio; LPrio] [] 0.
Definition istPre : st := fold_left do_action iacts_pre ist0.
Definition istA : st := fold_left do_action (iacts_pre ++ iacts_x) ist0.
Definition istR : st := fold_left do_action (iacts_pre ++ iacts_x ++ iacts_rel) ist0.

Example irun_ok : run_ok ist0 (iacts_pre ++ iacts_x ++ iacts_rel).
Proof. vm_compute. repeat split. Qed.

Example reachable_istPre : reachable istPre.
Proof.
  exists false, 0%Q, [], [LPrio; LPrio], [], 0, iacts_pre. split; [|reflexivity].
  apply (run_ok_app ist0 iacts_pre (iacts_x ++ iacts_rel)). apply irun_ok.
Qed.
Example reachable_istA : reachable istA.
Proof.
  exists false, 0%Q, [], [LPrio; LPrio], [], 0, (iacts_pre ++ iacts_x). split; [|reflexivity].
  apply (run_ok_app ist0 (iacts_pre ++ iacts_x) iacts_rel). rewrite <- app_assoc. apply irun_ok.
Qed.
Example reachable_istR : reachable istR.
Proof.
  exists false, 0%Q, [], [LPrio; LPrio], [], 0, (iacts_pre ++ iacts_x ++ iacts_rel).
  split; [|reflexivity]. apply irun_ok.
Qed.

(* ------------------------------------------------------------ the state before the hand-over *)
Lemma gett_istA_oob t : 4 <= t -> gett istA t = dtask.
Proof. intros H. apply gett_oob. vm_compute. lia. Qed.

(* X (3) waits for W1 (1); W1 and W2 (2) wait for H (0) *)
Lemma istA_holding t l : In l (tholding (gett istA t)) -> (t = 0 /\ l = 0) \/ (t = 1 /\ l = 1).
Proof.
  intros H. destruct t as [|[|[|[|t]]]].
  - vm_compute in H. intuition.
  - vm_compute in H. intuition.
  - vm_compute in H. intuition.
  - vm_compute in H. intuition.
  - rewrite gett_oob in H by (vm_compute; lia). destruct H.
Qed.
Lemma istA_waiters0 w : In w (lock_waiter_tasks (getl istA 0)) -> w = 1 \/ w = 2.
Proof. intros H. vm_compute in H. intuition. Qed.
Lemma istA_waiters1 w : In w (lock_waiter_tasks (getl istA 1)) -> w = 3.
Proof. intros H. vm_compute in H. intuition. Qed.
Lemma istA_efuel : efuel istA = 7.
Proof. reflexivity. Qed.

Example istA_ranked : ranked istA.
Proof.
  exists (fun t => match t with 0 => 2 | 1 => 1 | _ => 0 end). split.
  - intros w t (l & Hl & Hw). apply istA_holding in Hl as [[-> ->]|[-> ->]].
    + apply istA_waiters0 in Hw as [->| ->]; lia.
    + apply istA_waiters1 in Hw as ->; lia.
  - intros t. rewrite istA_efuel. destruct t as [|[|t]]; lia.
Qed.

Lemma istA_arr0 : arr (lpq (getl istA 0)) = [mkE (-5)%Q 0 3; mkE 3%Q 1 4].
Proof. vm_compute; reflexivity. Qed.
Lemma istA_arr1 : arr (lpq (getl istA 1)) = [mkE (-5)%Q 0 6].
Proof. vm_compute; reflexivity. Qed.
Lemma istA_lwt0 : lwt (getl istA 0) = [(3, 1); (4, 2)].
Proof. vm_compute; reflexivity. Qed.
Lemma istA_lwt1 : lwt (getl istA 1) = [(6, 3)].
Proof. vm_compute; reflexivity. Qed.
Example x_k1 : keyed istA 1.
Proof.
  intros e He _. rewrite istA_arr1 in He. destruct He as [<-|[]]; vm_compute; reflexivity.
Qed.
Example x_k0 : keyed istA 0.
Proof.
  intros e He _. rewrite istA_arr0 in He. destruct He as [<-|[<-|[]]]; vm_compute; reflexivity.
Qed.
Example x_b3 : blocked_on istA 3 1 6.
Proof.
   unfold blocked_on. split; [vm_compute; reflexivity|]. split; [vm_compute; reflexivity|]. split; [vm_compute; reflexivity|].
   rewrite istA_lwt1. split; [simpl; auto|]. intros f' Hf.
    destruct Hf as [E|[]]; inversion E; reflexivity. 
Qed.
Example x_b1 : blocked_on istA 1 0 3.
Proof.
   unfold blocked_on. split; [vm_compute; reflexivity|]. split; [vm_compute; reflexivity|]. split; [vm_compute; reflexivity|].
   rewrite istA_lwt0. split; [simpl; auto|]. intros f' Hf.
    destruct Hf as [E|[E|[]]]; inversion E; reflexivity. 
Qed.
Example x_r : reaches istA 1 3 1.
Proof. apply (reach_up istA 0 3 1 6 1 1 x_b3); [vm_compute; reflexivity|constructor]. Qed.
Example x_e :   map (fun t => Qred (effective_priority istA t)) [0; 1; 2; 3] = [(-5)%Q; (-5)%Q; 3%Q; (-5)%Q] /\
  map (own istA) [0; 1; 2; 3] = [0%Q; 5%Q; 3%Q; (-5)%Q].
Proof. split; vm_compute; reflexivity. Qed.
Example x_lwt : lwt_ok istA.
Proof.
  intros l. destruct l as [|[|l]].
  - rewrite istA_lwt0. repeat constructor; simpl; intuition discriminate.
  - rewrite istA_lwt1. repeat constructor; simpl; intuition discriminate.
  - rewrite getl_oob by (vm_compute; lia). constructor.
Qed.

Example istA_facts :
  reachable istA /\ ranked istA /\ lwt_ok istA /\
  (* the queue of lock 0: W1's entry carries the inherited key and its arrival number 0 *)
  arr (lpq (getl istA 0)) = [mkE (-5)%Q 0 3; mkE 3%Q 1 4] /\
  lwt (getl istA 0) = [(3, 1); (4, 2)] /\
  PQInv (lpq (getl istA 0)) /\ keyed istA 0 /\ keyed istA 1 /\
  blocked_on istA 1 0 3 /\ blocked_on istA 3 1 6 /\ reaches istA 1 3 1 /\
  (* effective priorities: H and W1 inherit -5 from X *)
  map (fun t => Qred (effective_priority istA t)) [0; 1; 2; 3] = [(-5)%Q; (-5)%Q; 3%Q; (-5)%Q] /\
  map (own istA) [0; 1; 2; 3] = [0%Q; 5%Q; 3%Q; (-5)%Q].
Proof.
  split; [apply reachable_istA|]. split; [apply istA_ranked|]. split; [apply x_lwt|].
  split; [apply istA_arr0|]. split; [apply istA_lwt0|].
  split; [apply (iB1 (reachable_inv _ reachable_istA) 0)|].
  split; [apply x_k0|]. split; [apply x_k1|]. split; [apply x_b1|]. split; [apply x_b3|].
  split; [apply x_r|]. apply x_e.
Qed.

(* ------------------------------------------------------------ the hand-over *)
Definition istA_free : st := pre_wake istA 0 0.

Lemma istA_free_arr0 : arr (lpq (getl istA_free 0)) = [mkE (-5)%Q 0 3; mkE 3%Q 1 4].
Proof. vm_compute; reflexivity. Qed.
Lemma istA_free_lpq : lpq (getl istA_free 0) = lpq (getl istA 0).
Proof. vm_compute; reflexivity. Qed.
Example istA_free_keyed : keyed istA_free 0.
Proof.
  intros e He _. rewrite istA_free_arr0 in He. destruct He as [<-|[<-|[]]]; vm_compute; reflexivity.
Qed.
Example istA_free_pq : PQInv (lpq (getl istA_free 0)).
Proof. rewrite istA_free_lpq. apply (iB1 (reachable_inv _ reachable_istA) 0). Qed.

(* H releases lock 0: the theorem applies (queue invariant, live keys up to date) and the
   lock goes to the inheritor W1 (future 3), not to W2 (future 4) whose own priority 3 is
   more urgent than W1's own 5 *)
Example istA_handover :
  release_p istA 0 0 = (wake_up_first_p istA_free 0, RVal 0) /\
  PQInv (lpq (getl istA_free 0)) /\ keyed istA_free 0 /\
  fstate_ (getf (wake_up_first_p istA_free 0) 3) = FResult 1 /\
  fstate_ (getf (wake_up_first_p istA_free 0) 4) = FPending /\
  (* the same in the run itself, where H's effective priority falls back to its own *)
  map (fun f => fstate_ (getf istR f)) [3; 4] = [FResult 1; FPending] /\
  Qred (effective_priority istR 0) = 0%Q.
Proof.
  split; [apply release_p_wake; vm_compute; reflexivity|].
  split; [apply istA_free_pq|]. split; [apply istA_free_keyed|].
  split; [vm_compute; reflexivity|]. split; [vm_compute; reflexivity|].
  split; vm_compute; reflexivity.
Qed.

(* the conclusion of C12_handover, obtained from the theorem rather than by computation *)
Example istA_handover_by_theorem :
  exists head rest,
    arr (lpq (getl istA_free 0)) = head :: rest /\ 3 = Z.to_nat (eobj head) /\
    (forall e, In e rest -> live istA_free e -> before istA_free 0 head e).
Proof.
  destruct istA_handover as (_ & Hq & Hk & H3 & _).
  destruct (handover_by_eprio istA_free 0 3 Hq Hk) as (head & rest & Ea & Ef & _ & _ & Hb & _).
  { rewrite H3. assert (E : fstate_ (getf istA_free 3) = FPending) by (vm_compute; reflexivity).
    rewrite E. discriminate. }
  exists head, rest. auto.
Qed.

(* ------------------------------------------------------------ before the fix (F8) *)
(* PriorityLock.propagate_priority as it was: the waiter entry is looked up with
   `fut is from_obj`, where from_obj is the task - never true, so reschedule() finds
   nothing and no key changes *)
Fixpoint propagate_task_old (fuel : nat) (s : st) (t : nat) : st :=
  if negb (is_prio_task s t) then s else
  if task_is_runnable s t then task_reschedule s t
  else match twaiting (gett s t), fuel with
       | Some l, S fuel =>
           let lk := getl s l in
           let s := match lowner lk with
                    | Some o => propagate_task_old fuel s o
                    | None => s end in
           let p := effective_priority s t in
           let lk := getl s l in
           match pq_reschedule HQ (lpq lk) (fun _ => false) p with
           | Some (_, q') => setl s l (lk <| lpq := q' |>)
           | None => s
           end
       | _, _ => s
       end.

Definition acquire_p_start_old (s : st) (t l : nat) : st * lres :=
  let lk := getl s l in
  if negb (llocked lk) && match arr (lpq lk) with [] => true | _ => false end then
    match take_lock s l t with
    | inl s' => (s', LDone (RVal 1))
    | inr e => (s, LDone (RExc e))
    end
  else
    let had := is_prio_task s t in
    let p := if had then effective_priority s t else 0%Q in
    let '(s, f) := new_future s None in
    if had && match twaiting (gett s t) with Some _ => true | None => false end
    then (s, LDone (RExc EAssertion))
    else
      let s := if had then sett s t (gett s t <| twaiting := Some l |>) else s in
      let lk := getl s l in
      let s := setl s l (lk <| lpq := pq_add HQ (lpq lk) p (Z.of_nat f) |>
                            <| lwt := lwt lk ++ [(f, t)] |>) in
      let s := match lowner (getl s l) with
               | Some o => propagate_task_old (efuel s) s o
               | None => s end in
      (setf s f (getf s f <| fblock := true |>), LSusp (YFut f) [InFut f; InAcquireP l f had]).

(* X's acquire(lock 1) in istPre, with the old and with the repaired re-key *)
Definition istOld : st := fst (acquire_p_start_old istPre 3 1).
Definition istNew : st := fst (acquire_p_start istPre 3 1).

Lemma istOld_arr0 : arr (lpq (getl istOld 0)) = [mkE 3%Q 1 4; mkE 5%Q 0 3].
Proof. vm_compute; reflexivity. Qed.

Theorem rekey_refuted_before_fix :
  reachable istPre /\
  (* old code: W1 (future 3) inherits -5 but its entry keeps the stale key 5 ... *)
  arr (lpq (getl istOld 0)) = [mkE 3%Q 1 4; mkE 5%Q 0 3] /\
  map (fun t => Qred (effective_priority istOld t)) [1; 2] = [(-5)%Q; 3%Q] /\
  ~ keyed istOld 0 /\
  (* ... and release() hands the lock to W2 (future 4), overtaking the more urgent W1 *)
  map (fun f => fstate_ (getf (fst (release_p istOld 0 0)) f)) [3; 4] = [FPending; FResult 1] /\
  (* repaired code: the entry is re-keyed (same arrival number) and W1 gets the lock *)
  arr (lpq (getl istNew 0)) = [mkE (-5)%Q 0 3; mkE 3%Q 1 4] /\
  map (fun f => fstate_ (getf (fst (release_p istNew 0 0)) f)) [3; 4] = [FResult 1; FPending].
Proof.
  split; [apply reachable_istPre|]. split; [apply istOld_arr0|]. split; [vm_compute; reflexivity|].
  split.
  { intros K. specialize (K (mkE 5%Q 0 3)).
    assert (E : (5 == wprio istOld (entry_task (getl istOld 0) (mkE 5%Q 0 3)))%Q).
    { apply K; [rewrite istOld_arr0; simpl; auto|vm_compute; reflexivity]. }
    assert (E2 : (wprio istOld (entry_task (getl istOld 0) (mkE 5%Q 0 3)) == -5)%Q)
      by (vm_compute; reflexivity).
    lra. }
  split; [vm_compute; reflexivity|]. split; vm_compute; reflexivity.
Qed.
