(* C10 whole-run simulation, part 3: frames, user code (exec, every coro tree), task steps,
   run_one, timers and environment actions. *)
From Coq Require Import QArith Lqa.
From RecordUpdate Require Import RecordUpdate.
From Asynkit Require Import Base.Prelude Queue.PQ Queue.PosPQ Queue.Exec Sched.Model
     Sched.PartTables Sched.PartitionProofs Sched.PrioLoopProofs Sched.PrioBoostFifo
     Sched.EqualRunBase Sched.EqualRunOps.
Import RecordSetNotations.
Open Scope nat_scope.

(* ------------------------------------------------------------ the monitor, continued *)
Definition prio_ok (how : spawn_kind) : bool :=
  match how with SPrio p => Qeq_bool p 0 | _ => true end.

Fixpoint mon_exec (t : nat) (c : coro) (s : st) {struct c} : bool :=
  match c with
  | Ret _ | Raise _ => true
  | Call op k =>
      mon_lib t op s &&
      (let '(s', r) := lib_call t op s in
       match r with LDone rep => mon_exec t (k rep) s' | LSusp _ _ => true end)
  | Spawn SEager child k =>
      mon_exec t child s &&
      (let '(s, o) := exec t child s in
       match o with
       | ODone r =>
           let '(s, f) := new_future s None in
           let s := fst (fut_finish s f (match r with RVal v => FResult v | RExc e => FExc e end)) in
           mon_exec t (k (RVal (Z.of_nat f))) s
       | OYield y frs kc =>
           let s := match y with
                    | YFut f => setf s f (getf s f <| fblock := false |>)
                    | YNone => s end in
           let tn := length (tasks s) in
           let '(s, f) := new_future s (Some tn) in
           let s := s <| tasks := tasks s ++ [mkTask KC None f (TEager y frs kc) None false [] None] |> in
           let s := call_soon_ s (HStep tn None) in
           mon_exec t (k (RVal (Z.of_nat f))) s
       end)
  | Spawn how child k =>
      prio_ok how &&
      (let '(s, t') := spawn_task s how child in
       match how with
       | SDescend =>
           mon_lib t (OTaskSwitch t' (Some 1)) s &&
           (let '(s, r) := lib_call t (OTaskSwitch t' (Some 1)) s in
            match r with
            | LDone (RExc e) => mon_exec t (k (RExc e)) s
            | LDone (RVal _) => mon_exec t (k (RVal (Z.of_nat t'))) s
            | LSusp y frs => true
            end)
       | SStart => true
       | _ => mon_exec t (k (RVal (Z.of_nat t'))) s
       end)
  end.

Definition mon_resume (t : nat) (frs : list frame) (k : reply -> coro) (inp : reply) (s : st) : bool :=
  mon_stack t frs inp s &&
  (let '(s, r) := resume_stack t frs inp s in
   match r with LDone rep => mon_exec t (k rep) s | LSusp _ _ => true end).

Definition mon_step (t : nat) (exc : option exn) (s : st) : bool :=
  if tdone s t then true else
  let tk := gett s t in
  let exc := if tmustc tk
             then match exc with
                  | Some e => if is_cancel e then Some e else Some ECancelled
                  | None => Some ECancelled end
             else exc in
  let cont := tcont_ tk in
  let s := sett s t (tk <| tmustc := false |> <| twaiter := None |> <| tcont_ := TRun |>) in
  let s := s <| current := Some t |> in
  let inp := match exc with None => RVal 0 | Some e => RExc e end in
  match cont with
  | TNew c => match exc with Some _ => true | None => mon_exec t c s end
  | TSusp frs k => mon_resume t frs k inp s
  | TEager y frs k => match exc with None => true | Some _ => mon_resume t frs k inp s end
  | TRun | TFin => true
  end.

Definition mon_wakeup (t f : nat) (s : st) : bool :=
  match fstate_ (getf s f) with
  | FResult _ => mon_step t None s
  | FExc e => mon_step t (Some e) s
  | FCancelled => let '(s', r) := fut_result s f in
                  mon_step t (match r with RExc e => Some e | RVal _ => None end) s'
  | FPending => mon_step t (Some EInvalidState) s
  end.

Definition mon_cb (c : callback) (s : st) : bool :=
  match c with
  | HStep t e => mon_step t e s
  | HWakeup t f => mon_wakeup t f s
  | HReinsert t _ => uq s t
  | _ => true
  end.

Definition mon_run_one (s : st) : bool :=
  match rq_popleft (ready s) with
  | None => true
  | Some (h, r) =>
      let s := s <| ready := r |> in
      let hd := geth s h in
      if hcancelled hd then true else mon_cb (hcb hd) s
  end.

Definition mon_action (s : st) (a : action) : bool :=
  match a with
  | AStep => mon_run_one s
  | ASpawn how _ => prio_ok how
  | ADo op => mon_lib 0 op s
  | _ => true
  end.

Fixpoint mon_run (s : st) (acts : list action) : bool :=
  match acts with
  | [] => true
  | a :: rest => mon_action s a && mon_run (do_action s a) rest
  end.

(* ------------------------------------------------------------ frames *)
Lemma sim_frame_resume t fr inp s rp : mon_frame t fr inp s = true -> Rel s rp ->
  exists rp', frame_resume t fr inp (wr s rp) =
              (wr (fst (frame_resume t fr inp s)) rp', snd (frame_resume t fr inp s)) /\
              Rel (fst (frame_resume t fr inp s)) rp'.
Proof.
  intros H R. destruct (frame_resume t fr inp s) as [s' x] eqn:E. cbn [fst snd].
  destruct fr; cbn [frame_resume mon_frame] in *; try (sgoP E; fail).
  unfold interruptor_wrap in *. destruct inp; sgoP E.
Qed.

Lemma sim_resume_stack t : forall frs inp s rp, mon_stack t frs inp s = true -> Rel s rp ->
  exists rp', resume_stack t frs inp (wr s rp) =
              (wr (fst (resume_stack t frs inp s)) rp', snd (resume_stack t frs inp s)) /\
              Rel (fst (resume_stack t frs inp s)) rp'.
Proof.
  induction frs as [|fr rest IH]; intros inp s rp H R; cbn [resume_stack mon_stack] in *.
  - cbn [fst snd]. sfin.
  - apply andb_prop in H. destruct H as [H1 H2].
    destruct (sim_frame_resume t fr inp s rp H1 R) as (rp1 & E1 & R1). rewrite E1. clear E1.
    destruct (frame_resume t fr inp s) as [s1 r1]. cbn [fst snd] in *.
    destruct r1 as [rep|y frs']; [apply IH; auto|]. cbn [fst snd]. sfin.
Qed.

(* ------------------------------------------------------------ spawning *)
Ltac rel ::=
  repeat first
    [ eassumption
    | match goal with
      | F : RisoB 0 ?rp1 ?rl1 |- Rel (_ <| ready := ?rl1 |>) ?rp1 => eapply Rel_ready; [|exact F]
      end
    | apply Rel_setf | apply Rel_setl | apply Rel_setc | apply Rel_sete | apply Rel_setb
    | apply Rel_addlog | apply Rel_adderr | apply Rel_cancel_handle
    | apply Rel_set_handles | apply Rel_set_futs | apply Rel_set_blocks | apply Rel_set_timers
    | apply Rel_set_now | apply Rel_set_current
    | apply Rel_sett; [reflexivity|]
    | apply Rel_tasks_app; [first [exact Logic.I | assumption]|] ].

Lemma sim_new_task kind p c : okopt p -> SimP (fun s => new_task s kind p c).
Proof.
  intros Hp. apply SimP_intro. intros s rp s' x E R. unfold new_task in *.
  change (okopt (tprio (mkTask kind p (length (futs s)) (TNew c) None false [] None))) in Hp.
  sgoP E.
Qed.

Lemma sim_spawn_task how c : prio_ok how = true -> SimP (fun s => spawn_task s how c).
Proof.
  intros H. unfold spawn_task. destruct how; try (apply sim_new_task; exact Logic.I).
  apply sim_new_task. simpl in *. apply Qeq_bool_iff. exact H.
Qed.

(* ------------------------------------------------------------ user code *)
Definition SimExec (t : nat) (c : coro) : Prop :=
  forall s rp, mon_exec t c s = true -> Rel s rp ->
    exists rp', exec t c (wr s rp) = (wr (fst (exec t c s)) rp', snd (exec t c s)) /\
                Rel (fst (exec t c s)) rp'.

(* close a goal whose two sides end in the same recursive call *)
Ltac sexec IH H :=
  match goal with
  | R : Rel ?S ?rp |- context [exec ?t ?c (wr ?S ?rp)] =>
      let rp' := fresh "rp" in let E' := fresh "E" in let R' := fresh "R" in
      destruct (IH _ S rp H R) as (rp' & E' & R'); rewrite E'; exists rp'; split; [reflexivity|exact R']
  end.

Ltac sfind7 :=
  first [ sfind6
        | match goal with
          | H : mon_lib ?t ?op ?S = true |- context [lib_call ?t ?op (wr ?S ?rp)] =>
              sapply (sim_lib_call t op S rp H)
          | H : prio_ok ?how = true |- context [spawn_task (wr ?S ?rp) ?how ?c] =>
              sapply (sim_spawn_task how c H S rp)
          end ].
Ltac sfind ::= sfind7.

Lemma sim_exec t : forall c, SimExec t c.
Proof.
  induction c as [v|e|op k IH|how child IHc k IHk]; intros s rp H R.
  - cbn [exec fst snd]. sfin.
  - cbn [exec fst snd]. sfin.
  - cbn [exec mon_exec] in *. apply andb_prop in H. destruct H as [H1 H2].
    destruct (sim_lib_call t op s rp H1 R) as (rp1 & E1 & R1). rewrite E1. clear E1.
    destruct (lib_call t op s) as [s1 r1]. cbn [fst snd] in *.
    destruct r1 as [rep|y frs]; [apply IH; auto|]. cbn [fst snd]. sfin.
  - destruct how; cbn [exec mon_exec] in *; apply andb_prop in H; destruct H as [H1 H2].
    + (* SPlain *)
      snorm; repeat (sfind; snorm). sexec IHk H2.
    + snorm; repeat (sfind; snorm). sexec IHk H2.
    + snorm; repeat (sfind; snorm). sexec IHk H2.
    + (* SDescend *)
      snorm; repeat (sfind; snorm). apply andb_prop in H2. destruct H2 as [H2 H3].
      repeat (sfind; snorm).
      match goal with |- context [match ?x with LDone _ => _ | LSusp _ _ => _ end] =>
        destruct x as [[v|e]|y frs] end.
      * sexec IHk H3.
      * sexec IHk H3.
      * sfin.
    + (* SStart *) snorm; repeat (sfind; snorm). sfin.
    + (* SEager *)
      destruct (IHc s rp H1 R) as (rp1 & E1 & R1). rewrite E1. clear E1.
      destruct (exec t child s) as [s1 o1]. cbn [fst snd] in *.
      destruct o1 as [r|y frs kc].
      * sprep H2. snorm; repeat (sfind; snorm). sexec IHk H2.
      * sprep H2. destruct y as [|f]; snorm; repeat (sfind; snorm).
        -- sexec IHk H2.
        -- sexec IHk H2.
Qed.

(* ------------------------------------------------------------ Task.__step *)
Lemma sim_finish_step t o : SimS (fun s => finish_step t s o).
Proof.
  intros s rp R. remember (finish_step t s o) as s' eqn:E. unfold finish_step in *.
  destruct o as [[v|e]|[|f] frs k]; sgoS E.
Qed.

Lemma sim_resume t frs k inp s rp : mon_resume t frs k inp s = true -> Rel s rp ->
  exists rp',
    (let '(s1, r) := resume_stack t frs inp (wr s rp) in
     match r with
     | LDone rep => exec t (k rep) s1
     | LSusp y frs' => (s1, OYield y frs' k)
     end) =
    (wr (fst (let '(s1, r) := resume_stack t frs inp s in
              match r with
              | LDone rep => exec t (k rep) s1
              | LSusp y frs' => (s1, OYield y frs' k)
              end)) rp',
     snd (let '(s1, r) := resume_stack t frs inp s in
          match r with
          | LDone rep => exec t (k rep) s1
          | LSusp y frs' => (s1, OYield y frs' k)
          end)) /\
    Rel (fst (let '(s1, r) := resume_stack t frs inp s in
              match r with
              | LDone rep => exec t (k rep) s1
              | LSusp y frs' => (s1, OYield y frs' k)
              end)) rp'.
Proof.
  intros H R. unfold mon_resume in H. apply andb_prop in H. destruct H as [H1 H2].
  destruct (sim_resume_stack t frs inp s rp H1 R) as (rp1 & E1 & R1). rewrite E1. clear E1.
  destruct (resume_stack t frs inp s) as [s1 r1]. cbn [fst snd] in *.
  destruct r1 as [rep|y frs']; [|cbn [fst snd]; sfin].
  exact (sim_exec t (k rep) s1 rp1 H2 R1).
Qed.

Lemma sim_step_task t exc s rp : mon_step t exc s = true -> Rel s rp ->
  exists rp', step_task t exc (wr s rp) = wr (step_task t exc s) rp' /\ Rel (step_task t exc s) rp'.
Proof.
  intros H R. unfold step_task, mon_step in *. snorm1.
  destruct (tdone s t); [sfin|].
  cbv zeta in H.
  set (exc' := if tmustc (gett s t)
               then match exc with
                    | Some e => if is_cancel e then Some e else Some ECancelled
                    | None => Some ECancelled end
               else exc) in *.
  set (s0 := sett s t (gett s t <| tmustc := false |> <| twaiter := None |> <| tcont_ := TRun |>)
               <| current := Some t |>) in *.
  assert (R0 : Rel s0 rp) by (subst s0; rel).
  clearbody s0 exc'.
  assert (Hm : exists rp1 s1 o,
     (match tcont_ (gett s t) with
      | TNew c => match exc' with
                  | Some e => (wr s0 rp, ODone (RExc e))
                  | None => exec t c (wr s0 rp) end
      | TSusp frs k =>
          let '(s1, r) := resume_stack t frs (match exc' with None => RVal 0 | Some e => RExc e end) (wr s0 rp) in
          match r with
          | LDone rep => exec t (k rep) s1
          | LSusp y frs' => (s1, OYield y frs' k)
          end
      | TEager y frs k =>
          match exc' with
          | None =>
              (match y with
               | YFut f => setf (wr s0 rp) f (getf s0 f <| fblock := true |>)
               | YNone => wr s0 rp end, OYield y frs k)
          | Some _ =>
              let '(s1, r) := resume_stack t frs (match exc' with None => RVal 0 | Some e => RExc e end) (wr s0 rp) in
              match r with
              | LDone rep => exec t (k rep) s1
              | LSusp y' frs' => (s1, OYield y' frs' k)
              end
          end
      | TRun | TFin => (wr s0 rp, ODone (RExc EInvalidState))
      end) = (wr s1 rp1, o) /\
     (match tcont_ (gett s t) with
      | TNew c => match exc' with
                  | Some e => (s0, ODone (RExc e))
                  | None => exec t c s0 end
      | TSusp frs k =>
          let '(s1, r) := resume_stack t frs (match exc' with None => RVal 0 | Some e => RExc e end) s0 in
          match r with
          | LDone rep => exec t (k rep) s1
          | LSusp y frs' => (s1, OYield y frs' k)
          end
      | TEager y frs k =>
          match exc' with
          | None =>
              (match y with
               | YFut f => setf s0 f (getf s0 f <| fblock := true |>)
               | YNone => s0 end, OYield y frs k)
          | Some _ =>
              let '(s1, r) := resume_stack t frs (match exc' with None => RVal 0 | Some e => RExc e end) s0 in
              match r with
              | LDone rep => exec t (k rep) s1
              | LSusp y' frs' => (s1, OYield y' frs' k)
              end
          end
      | TRun | TFin => (s0, ODone (RExc EInvalidState))
      end) = (s1, o) /\ Rel s1 rp1).
  { destruct (tcont_ (gett s t)) as [c|frs k|y frs k| |].
    - destruct exc' as [e|].
      + exists rp, s0, (ODone (RExc e)). auto.
      + destruct (sim_exec t c s0 rp H R0) as (rp1 & E1 & R1).
        exists rp1, (fst (exec t c s0)), (snd (exec t c s0)). rewrite E1. split; auto.
        split; auto. destruct (exec t c s0); reflexivity.
    - destruct (sim_resume t frs k _ s0 rp H R0) as (rp1 & E1 & R1).
      eexists rp1, _, _. split; [exact E1|]. split; [|exact R1].
      match goal with |- ?a = _ => destruct a; reflexivity end.
    - destruct exc' as [e|].
      + destruct (sim_resume t frs k _ s0 rp H R0) as (rp1 & E1 & R1).
        eexists rp1, _, _. split; [exact E1|]. split; [|exact R1].
        match goal with |- ?a = _ => destruct a; reflexivity end.
      + destruct y as [|f].
        * exists rp, s0, (OYield YNone frs k). auto.
        * exists rp, (setf s0 f (getf s0 f <| fblock := true |>)), (OYield (YFut f) frs k).
          split; [reflexivity|]. split; [reflexivity|]. rel.
    - exists rp, s0, (ODone (RExc EInvalidState)). auto.
    - exists rp, s0, (ODone (RExc EInvalidState)). auto. }
  destruct Hm as (rp1 & s1 & o & Ep & El & R1). clear H.
  rewrite Ep, El. cbv beta iota.
  destruct (sim_finish_step t o s1 rp1 R1) as (rp2 & E2 & R2). cbv beta in E2. rewrite E2.
  snorm1. sfin.
Qed.

Lemma sim_wakeup t f s rp : mon_wakeup t f s = true -> Rel s rp ->
  exists rp', wakeup t f (wr s rp) = wr (wakeup t f s) rp' /\ Rel (wakeup t f s) rp'.
Proof.
  intros H R. unfold wakeup, mon_wakeup in *. snorm1. sprep H.
  destruct (fstate_ (getf s f)); try (apply sim_step_task; auto; fail).
  destruct (fcexc (getf s f)); snorm1; apply sim_step_task; auto; rel.
Qed.

(* ------------------------------------------------------------ run_one *)
Lemma sim_run_callback c s rp : mon_cb c s = true -> Rel s rp ->
  exists rp', run_callback c (wr s rp) = wr (run_callback c s) rp' /\ Rel (run_callback c s) rp'.
Proof.
  intros H R. destruct c; cbn [run_callback mon_cb] in *.
  - apply sim_step_task; auto.
  - apply sim_wakeup; auto.
  - destruct (sim_task_reinsert t p s rp H R) as (rp1 & E1 & R1). rewrite E1. clear E1.
    destruct (task_reinsert s t p) as [s1 r1]. cbn [fst snd] in *.
    destruct r1; snorm1; sfin.
  - snorm1. sfin.
  - destruct (sim_fut_finish f (FResult v) s rp R) as (rp1 & E1 & R1). cbv beta in E1.
    rewrite E1. cbn [fst]. sfin.
  - destruct (sim_new_task KC None (interruptor_body b) Logic.I s rp R) as (rp1 & E1 & R1).
    cbv beta in E1. rewrite E1. cbn [fst]. sfin.
  - snorm1. apply sim_queue_iterated. rel.
  - destruct (sim_cancel_task t s rp R) as (rp1 & E1 & R1). cbv beta in E1.
    rewrite E1. cbn [fst]. sfin.
Qed.

Lemma sim_run_one s rp : mon_run_one s = true -> Rel s rp ->
  exists rp', run_one (wr s rp) = wr (run_one s) rp' /\ Rel (run_one s) rp'.
Proof.
  intros H R. unfold run_one, mon_run_one in *. snorm1.
  pose proof (isoB_popleft 0 rp (ready s) (proj1 R)) as Hi.
  destruct (rq_popleft rp) as [[h rp1]|]; destruct (rq_popleft (ready s)) as [[h' rl1]|];
    try contradiction; [|sfin].
  destruct Hi as [<- F]. cbv zeta in H. sready. snorm1.
  assert (R1 : Rel (s <| ready := rl1 |>) rp1) by rel.
  change (geth (s <| ready := rl1 |>) h) with (geth s h) in *.
  destruct (hcancelled (geth s h)); [sfin|].
  apply sim_run_callback; auto.
Qed.

(* ------------------------------------------------------------ timers *)
Lemma sim_drop_cancelled fuel : forall s rp,
  drop_cancelled fuel (wr s rp) = wr (drop_cancelled fuel s) rp.
Proof.
  induction fuel as [|fuel IH]; intros s rp; cbn [drop_cancelled]; [reflexivity|].
  snorm1. destruct (timers s) as [|[w h] tm]; [reflexivity|].
  destruct (hcancelled (geth s h)); [|reflexivity].
  destruct (HeapqModel.heappop timer_lt tdflt ((w, h) :: tm)) as [[x tm']|]; [|reflexivity].
  snorm1. apply IH.
Qed.

Lemma Rel_drop_cancelled fuel : forall s rp, Rel s rp -> Rel (drop_cancelled fuel s) rp.
Proof.
  induction fuel as [|fuel IH]; intros s rp R; cbn [drop_cancelled]; auto.
  destruct (timers s) as [|[w h] tm]; auto.
  destruct (hcancelled (geth s h)); auto.
  destruct (HeapqModel.heappop timer_lt tdflt ((w, h) :: tm)) as [[x tm']|]; auto.
  all: try (apply IH; rel).
Qed.

Lemma sim_move_due fuel : SimS (move_due fuel).
Proof.
  induction fuel as [|fuel IH]; intros s rp R; cbn [move_due]; [sfin|].
  snorm1. destruct (timers s) as [|[w h0] tm]; [sfin|].
  destruct (Qle_bool w (now s)); [|sfin].
  destruct (HeapqModel.heappop timer_lt tdflt ((w, h0) :: tm)) as [[[w' h] tm']|]; [|sfin].
  snorm1.
  set (s1 := s <| timers := tm' |>).
  assert (R1 : Rel s1 rp) by (subst s1; rel).
  assert (Epr : handle_priority s1 (hcb (geth s1 h)) == 0) by (apply equal_prio_keys; apply R1).
  pose proof (isoB_append 0 rp (ready s1) h _ (proj1 R1) Epr) as A'.
  change (wr s1 rp <| ready := rq_append rp h (handle_priority s1 (hcb (geth s1 h))) |>)
    with (wr (s1 <| ready := rq_append (ready s1) h (handle_priority s1 (hcb (geth s1 h))) |>)
             (rq_append rp h (handle_priority s1 (hcb (geth s1 h))))).
  apply IH. eapply Rel_ready; [exact R1|exact A'].
Qed.

Lemma sim_begin_iteration : SimS begin_iteration.
Proof.
  intros s rp R. unfold begin_iteration. snorm1. rewrite sim_drop_cancelled.
  apply sim_move_due. apply Rel_drop_cancelled; auto.
Qed.

(* ------------------------------------------------------------ environment actions *)
Lemma sim_do_action a s rp : mon_action s a = true -> Rel s rp ->
  exists rp', do_action (wr s rp) a = wr (do_action s a) rp' /\ Rel (do_action s a) rp'.
Proof.
  intros H R. destruct a; cbn [do_action mon_action] in *.
  - apply sim_run_one; auto.
  - apply sim_begin_iteration; auto.
  - snorm1. sfin.
  - destruct (sim_spawn_task how c H s rp R) as (rp1 & E1 & R1). cbv beta in E1.
    rewrite E1. cbn [fst]. sfin.
  - destruct (sim_lib_call 0 op s rp H R) as (rp1 & E1 & R1). rewrite E1. cbn [fst]. sfin.
Qed.

Lemma sim_run : forall acts s rp, mon_run s acts = true -> Rel s rp ->
  exists rp', fold_left do_action acts (wr s rp) = wr (fold_left do_action acts s) rp' /\
              Rel (fold_left do_action acts s) rp'.
Proof.
  induction acts as [|a acts IH]; intros s rp H R; cbn [fold_left mon_run] in *.
  - sfin.
  - apply andb_prop in H. destruct H as [H1 H2].
    destruct (sim_do_action a s rp H1 R) as (rp1 & E1 & R1). rewrite E1. apply IH; auto.
Qed.

Lemma init_wr factor draws lks cds nev :
  init_st true factor draws lks cds nev =
  wr (init_st false factor draws lks cds nev) (RPos (pos_empty factor draws)).
Proof. reflexivity. Qed.

Lemma Rel_init factor draws lks cds nev :
  Rel (init_st false factor draws lks cds nev) (RPos (pos_empty factor draws)).
Proof.
  split; [apply isoB_empty|]. intros t. unfold gett. simpl. destruct t; exact Logic.I.
Qed.
