(* The states of Sched/InheritStale.v (finding F16: the pre-fix refutation starts from istX,
   the repaired run reaches istLeft) lie inside the domain of the W5 theorems except for the
   restriction "the queued tasks hold no PriorityLock": the run contains no eager start and
   satisfies [run_ne]. *)
From Coq Require Import QArith Lqa Sorting.Permutation.
From RecordUpdate Require Import RecordUpdate.
From Asynkit Require Import Base.Prelude Queue.PQ Queue.Order Queue.PosPQ Queue.Exec
  Sched.Model Sched.Corr Sched.Tables Sched.QFacts Sched.LockInv Sched.LockOps Sched.LockLib
  Sched.LockProofs Sched.LockStatic Sched.LockThms Sched.InheritEprio Sched.InheritHandover
  Sched.InheritKeys Sched.InheritFalls Sched.InheritStale Sched.WaitInv Sched.WaitLib Sched.WaitProofs
  Sched.WaitThms.
Import RecordSetNotations.
Open Scope nat_scope.

Example stale_run_ne : run_ne st0 (map act (sacts_inh ++ sacts_cancel)).
Proof. vm_compute. repeat split; intros; discriminate. Qed.
Example left_run_ne : run_ne st0 (map act (sacts_inh ++ sacts_cancel ++ sacts_fin)).
Proof. vm_compute. repeat split; intros; discriminate. Qed.

Example reachable_ne_istX : reachable_ne istX.
Proof.
  exists false, 0%Q, [], [LPrio; LPrio], [], 0, (map act (sacts_inh ++ sacts_cancel)).
  split; [|split; [apply stale_run_ne|reflexivity]].
  apply (run_ok_app st0 _ (map act (sacts_fin ++ sacts_rel))). rewrite <- map_app, <- !app_assoc.
  apply stale_run_ok.
Qed.
Example reachable_ne_istLeft : reachable_ne istLeft.
Proof.
  exists false, 0%Q, [], [LPrio; LPrio], [], 0, (map act (sacts_inh ++ sacts_cancel ++ sacts_fin)).
  split; [|split; [apply left_run_ne|reflexivity]].
  apply (run_ok_app st0 _ (map act sacts_rel)). rewrite <- map_app, <- !app_assoc. apply stale_run_ok.
Qed.

(* W1 (task 1), queued on lock 0, holds lock 1: the states are outside the restriction *)
Example istX_not_flat : In (3, 1) (lwt (getl istX 0)) /\ tholding (gett istX 1) = [1].
Proof. split; vm_compute; auto. Qed.
Example istLeft_not_flat : In (3, 1) (lwt (getl istLeft 0)) /\ tholding (gett istLeft 1) = [1].
Proof. split; vm_compute; auto. Qed.

(* ------------------------------------------------------------ non-vacuity of the W5 theorems *)
(* stA of Sched/LockThms.v: H (task 0, priority 0) owns lock 0; W1 (task 1, priority 5,
   future 3) and W2 (task 2, priority 7, future 4) are queued and hold nothing *)
Example stA_run_ne : run_ne LockThms.st0 LockThms.acts_a.
Proof. vm_compute. repeat split; intros; discriminate. Qed.

Example reachable_ne_stA : reachable_ne LockThms.stA.
Proof.
  exists false, 0%Q, [], [LPrio], [], 0, LockThms.acts_a.
  split; [|split; [apply stA_run_ne|reflexivity]].
  apply (run_ok_app LockThms.st0 LockThms.acts_a (LockThms.acts_b ++ LockThms.acts_c)). apply run_ok_example.
Qed.

Lemma stA_lwt : lwt (getl LockThms.stA 0) = [(3, 1); (4, 2)].
Proof. vm_compute; reflexivity. Qed.
Lemma stA_hold : tholding (gett LockThms.stA 1) = [] /\ tholding (gett LockThms.stA 2) = [].
Proof. split; vm_compute; reflexivity. Qed.

Example stA_flat : forall g w, In (g, w) (lwt (getl LockThms.stA 0)) -> tholding (gett LockThms.stA w) = [].
Proof.
  intros g w H. rewrite stA_lwt in H. destruct stA_hold as [H1 H2].
  destruct H as [E|[E|[]]]; inversion E; subst; assumption.
Qed.

Example stA_keyed : keyed LockThms.stA 0.
Proof. apply WaitThms.reach_ne_keyed_flat; [apply reachable_ne_stA|apply stA_flat]. Qed.

(* H's release() resolves future 3: by the theorem W1 is the (effective priority, arrival)-least
   live waiter *)
Example stA_release_changes :
  fstate_ (getf (fst (release_p LockThms.stA 0 0)) 3) <> fstate_ (getf LockThms.stA 3).
Proof.
  assert (E1 : fstate_ (getf (fst (release_p LockThms.stA 0 0)) 3) = FResult 1) by (vm_compute; reflexivity).
  assert (E2 : fstate_ (getf LockThms.stA 3) = FPending) by (vm_compute; reflexivity).
  rewrite E1, E2. discriminate.
Qed.

Example stA_handover :
  exists head rest,
    arr (lpq (getl LockThms.stA 0)) = head :: rest /\ 3 = Z.to_nat (eobj head) /\
    fstate_ (getf LockThms.stA 3) = FPending /\
    fstate_ (getf (fst (release_p LockThms.stA 0 0)) 3) = FResult 1 /\
    (forall e, In e rest -> live LockThms.stA e -> before LockThms.stA 0 head e) /\
    (forall g, In g (pq_objs (lpq (getl LockThms.stA 0))) -> woken LockThms.stA g = false).
Proof.
  apply (WaitThms.release_handover_reach LockThms.stA 0 0 3 reachable_ne_stA).
  - vm_compute; reflexivity.
  - vm_compute; reflexivity.
  - apply stA_flat.
  - apply stA_release_changes.
Qed.
