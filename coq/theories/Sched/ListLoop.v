(* C08, loop level: a ready queue of abstract handles (ids in creation order)
   under asynkit's scheduling operations, generic in the queue implementation.

   Anchors:
     scheduling.py:30-43    sleep_insert / _sleep_insert
     scheduling.py:46-55    task_reinsert / _task_reinsert
     scheduling.py:58-76    task_switch
     scheduling.py:110-133  create_task_descend / create_task_start
     loop/extensions.py     call_pos, ready_len, ready_find, ready_remove, ready_insert
     loop/default.py, loop/eventloop.py   queue primitives of the stock / SchedulingMixin loops
     experimental/priority.py:644-706     PrioritySchedulingMixin (queue = PosPriorityQueue)
   asyncio itself is modelled as far as these operations see it: a Task whose
   coroutine yields bare (sleep(0)) gets a new handle appended by call_soon; a
   Task waiting for an Event is woken by a handle appended when the Event is set;
   BaseEventLoop runs handles from the left.

   No proofs in this file. *)
From Coq Require Import QArith.
From Asynkit Require Import Base.Prelude Base.Obs Queue.Deque Queue.PQ Queue.PosPQ Queue.Exec.
Open Scope Z_scope.

(* ------------------------------------------------------------------------ *)
(* The queue interface (AbstractSchedulingLoop + what BaseEventLoop uses)     *)
Record qimpl (Q : Type) := mkQI {
  qi_empty : Q;
  qi_append : Q -> Z -> Q;                              (* loop._ready.append / queue_insert *)
  qi_popleft : Q -> option (Z * Q);                     (* loop._ready.popleft *)
  qi_find : Q -> (Z -> bool) -> bool -> option Z * Q;   (* queue_find(key, remove) *)
  qi_remove : Q -> Z -> bool * Q;                       (* queue_remove; false = ValueError *)
  qi_insert_pos : Q -> nat -> Z -> Q;                   (* queue_insert_pos *)
  qi_call_pos : Q -> nat -> Z -> Q;                     (* call_pos, given the new handle's id *)
  qi_items : Q -> list Z * Q;                           (* queue_items (may reorganise) *)
  qi_order : Q -> list Z;                               (* the order handles would run in *)
  qi_len : Q -> Z;
  qi_internal : Q -> obs }.                             (* extra internal state, for the correspondence *)
Arguments mkQI {Q}. Arguments qi_empty {Q}. Arguments qi_append {Q}. Arguments qi_popleft {Q}.
Arguments qi_find {Q}. Arguments qi_remove {Q}. Arguments qi_insert_pos {Q}. Arguments qi_call_pos {Q}.
Arguments qi_items {Q}. Arguments qi_order {Q}. Arguments qi_len {Q}. Arguments qi_internal {Q}.

(* instance 1: the deque of the stock loop and of SchedulingMixin loops
   (loop/default.py and loop/eventloop.py share queue_find/queue_remove/call_pos) *)
Definition out_val {A R} (dflt : R) (o : outcome A R) : R :=
  match o with Ok r _ => r | Raise _ _ => dflt end.
Definition out_deque {A R} (o : outcome A R) : list A :=
  match o with Ok _ d => d | Raise _ d => d end.
Definition out_ok {A R} (o : outcome A R) : bool :=
  match o with Ok _ _ => true | Raise _ _ => false end.

Definition ListQ : qimpl (list Z) := {|
  qi_empty := [];
  qi_append := fun q h => append q h;
  qi_popleft := fun q => popleft q;
  qi_find := fun q key rm => let o := queue_find Z.eqb q key rm in (out_val None o, out_deque o);
  qi_remove := fun q h => let o := queue_remove Z.eqb q h in (out_ok o, out_deque o);
  qi_insert_pos := fun q p h => dinsert q (Z.of_nat p) h;
  qi_call_pos := fun q p h => out_deque (call_pos Z.eqb q (Z.of_nat p) h);
  qi_items := fun q => (q, q);
  qi_order := fun q => q;
  qi_len := fun q => Z.of_nat (length q);
  qi_internal := fun _ => OL [] |}.

(* instance 2: PosPriorityQueue as driven by PrioritySchedulingMixin; every
   handle has priority 0 (plain asyncio.Task / callbacks), boost factor 0 *)
Definition oq (x : Q) : obs := let y := Qred x in OL [OI (Qnum y); OI (Zpos (Qden y))].
Definition opv (e : entry pv) : obs :=
  let p := epri e in
  OL [OI (pclass p); oq (base p); oq (boost p); OI (ins_at p); OI (eseq e); OI (eobj e)].
(* last_maintenance is left out: it only drives priority boosting (C19), a no-op here *)
Definition opos (s : pos) : obs :=
  OL [OI (n_ins s); OI (n_rem s); OI (seqn (pq_ s)); olist opv (arr (pq_ s))].

Definition PosQ : qimpl pos := {|
  qi_empty := pos_empty 0 [];
  qi_append := fun s h => pos_append_pri HPV s h 0;
  qi_popleft := fun s => pos_popleft HPV s;
  qi_find := fun s key rm =>
     match pos_find HPV s key rm with None => (None, s) | Some (h, s') => (Some h, s') end;
  qi_remove := fun s h => match pos_remove HPV s h with None => (false, s) | Some s' => (true, s') end;
  qi_insert_pos := fun s p h => pos_insert HPV s p h;
  (* PrioritySchedulingMixin.call_pos: call_soon; queue_remove(handle); queue_insert_pos *)
  qi_call_pos := fun s p h =>
     let s1 := pos_append_pri HPV s h 0 in
     match pos_remove HPV s1 h with
     | None => s1                                   (* ValueError: cannot happen *)
     | Some s2 => pos_insert HPV s2 p h
     end;
  qi_items := fun s => pos_iter HPV s;
  qi_order := fun s => fst (pos_iter HPV s);
  qi_len := fun s => plen s;
  qi_internal := fun s => opos s |}.

(* ------------------------------------------------------------------------ *)
(* Programs                                                                   *)
Inductive hkind :=
| HStep (t : nat)                 (* Task.__step *)
| HWakeup (t : nat)               (* Task.__wakeup(fut) *)
| HCb (n : Z)                     (* a logging callback *)
| HReins (t : nat) (p : nat).     (* task_reinsert(t, p) as a callback *)

Inductive op :=
| OSleep                                   (* await asyncio.sleep(0) *)
| OSleepInsert (p : nat)                   (* await sleep_insert(p) *)
| OSwitch (t : nat) (ip : option nat)      (* await task_switch(tasks[t], insert_pos=ip) *)
| OReinsert (t : nat) (p : nat)            (* task_reinsert(tasks[t], p) *)
| OCallPos (p : nat) (n : Z)               (* call_pos(p, log, n) *)
| OCallSoon (n : Z)                        (* loop.call_soon(log, n) *)
| OCallPosReins (p : nat) (t : nat) (q : nat)  (* call_pos(p, task_reinsert, tasks[t], q) *)
| OCreate (s : nat)                        (* asyncio.create_task(script s) *)
| ODescend (s : nat)                       (* await create_task_descend(script s) *)
| OStart (s : nat)                         (* await create_task_start(script s) *)
| OFind (t : nat) (rm : bool)              (* ready_find(tasks[t], remove=rm) *)
| ORemove (t : nat)                        (* h = ready_find(tasks[t]); ready_remove(h) *)
| ORemoveHeld                              (* ready_remove(<handle held outside the queue>) *)
| OInsert                                  (* ready_insert(<held handle>) *)
| OWait (e : nat)                          (* await events[e].wait() *)
| OSet (e : nat)                           (* events[e].set() *)
| OItems.                                  (* list(get_ready_queue()) *)

Record task := mkT { tscript : list op; tdone : bool }.

Section Loop.
Context {Q : Type} (I : qimpl Q).

Record st := mkSt {
  rq : Q;
  hs : list hkind;                 (* handle table: id = index, creation order *)
  ts : list task;                  (* task table: creation order *)
  evs : list (bool * list nat);    (* events: set?, waiting tasks in arrival order *)
  held : option Z;                 (* a handle taken out of the queue by ready_find/remove *)
  slog : list obs;                 (* log of the current step, newest first *)
  errs : Z;                        (* exceptions that reached the loop's exception handler *)
  prog : list (list op) }.         (* the script table *)

Definition set_rq (s : st) (q : Q) : st :=
  mkSt q (hs s) (ts s) (evs s) (held s) (slog s) (errs s) (prog s).
Definition set_held (s : st) (h : option Z) : st :=
  mkSt (rq s) (hs s) (ts s) (evs s) h (slog s) (errs s) (prog s).
Definition set_ts (s : st) (l : list task) : st :=
  mkSt (rq s) (hs s) l (evs s) (held s) (slog s) (errs s) (prog s).
Definition set_evs (s : st) (l : list (bool * list nat)) : st :=
  mkSt (rq s) (hs s) (ts s) l (held s) (slog s) (errs s) (prog s).
Definition logz (s : st) (l : list Z) : st :=
  mkSt (rq s) (hs s) (ts s) (evs s) (held s) (OL (map OI l) :: slog s) (errs s) (prog s).
Definition logo (s : st) (o : obs) : st :=
  mkSt (rq s) (hs s) (ts s) (evs s) (held s) (o :: slog s) (errs s) (prog s).
Definition add_err (s : st) : st :=
  mkSt (rq s) (hs s) (ts s) (evs s) (held s) (slog s) (errs s + 1) (prog s).

Definition zn (n : nat) : Z := Z.of_nat n.
Definition zopt (o : option nat) : Z := match o with None => -1 | Some p => zn p end.
Definition zoptz (o : option Z) : Z := match o with None => -1 | Some h => h end.

(* a new Handle: the next id *)
Definition new_handle (s : st) (k : hkind) : st * Z :=
  (mkSt (rq s) (hs s ++ [k]) (ts s) (evs s) (held s) (slog s) (errs s) (prog s),
   zn (length (hs s))).

(* loop.call_soon(cb): new handle, appended *)
Definition call_soon (s : st) (k : hkind) : st * Z :=
  let '(s, h) := new_handle s k in (set_rq s (qi_append I (rq s) h), h).

(* call_pos(p, cb) *)
Definition call_pos_ (s : st) (p : nat) (k : hkind) : st * Z :=
  let '(s, h) := new_handle s k in (set_rq s (qi_call_pos I (rq s) p h), h).

(* task_from_handle: step and wakeup callbacks are bound to their Task *)
Definition task_of (hs : list hkind) (h : Z) : option nat :=
  if h <? 0 then None else
  match nth_error hs (Z.to_nat h) with
  | Some (HStep t) | Some (HWakeup t) => Some t
  | _ => None
  end.
Definition task_key (s : st) (t : nat) : Z -> bool :=
  fun h => match task_of (hs s) h with Some t' => Nat.eqb t' t | None => false end.

(* _task_reinsert(loop, task, pos); false = ValueError("Task is not scheduled") *)
Definition task_reinsert (s : st) (t : nat) (p : nat) : st * bool :=
  let '(r, q1) := qi_find I (rq s) (task_key s t) true in
  match r with
  | None => (set_rq s q1, false)
  | Some h => (set_rq s (qi_insert_pos I q1 p h), true)
  end.

Definition set_task (s : st) (t : nat) (k : list op) (d : bool) : st :=
  set_ts s (set_nth (ts s) t (mkT k d)).

(* the coroutine suspends with a bare yield: Task.__step does call_soon(__step) *)
Definition yield_ (s : st) (me : nat) (k : list op) : st :=
  set_task (fst (call_soon s (HStep me))) me k false.

(* _sleep_insert(loop, pos): call_pos(0, task_reinsert, me, pos); await sleep(0) *)
Definition sleep_insert_ (s : st) (me : nat) (p : nat) (k : list op) : st :=
  yield_ (fst (call_pos_ s 0 (HReins me p))) me k.

(* asyncio.create_task(script i): new Task, its first step is call_soon'ed *)
Definition spawn (s : st) (i : nat) : st * nat :=
  let t := length (ts s) in
  let s := set_ts s (ts s ++ [mkT (nth i (prog s) []) false]) in
  (fst (call_soon s (HStep t)), t).

(* Event.set(): every waiter's future is completed in order; each schedules
   its Task's __wakeup with call_soon *)
Definition wake_all (s : st) (ws : list nat) : st :=
  fold_left (fun s w => fst (call_soon s (HWakeup w))) ws s.

(* run the coroutine of task [me] from its current point until it suspends or ends *)
Fixpoint exec_ops (me : nat) (ops : list op) (s : st) {struct ops} : st :=
  match ops with
  | [] => set_task (logz s [99; zn me]) me [] true
  | o :: k =>
      let bad s := exec_ops me k (logz s [97; zn me]) in        (* reference to nothing: skipped *)
      let verr s := exec_ops me k (logz s [98; zn me]) in       (* ValueError caught by the script *)
      let res s v := exec_ops me k (logz s [90; v]) in
      match o with
      | OSleep => yield_ (logz s [1; zn me]) me k
      | OSleepInsert p => sleep_insert_ (logz s [2; zn me; zn p]) me p k
      | OSwitch t ip =>
          let s := logz s [3; zn me; zn t; zopt ip] in
          if Nat.ltb t (length (ts s)) then
            let '(s, ok) := task_reinsert s t 0 in
            if ok then
              match ip with
              | None => yield_ s me k
              | Some p => sleep_insert_ s me p k
              end
            else verr s
          else bad s
      | OReinsert t p =>
          let s := logz s [4; zn me; zn t; zn p] in
          if Nat.ltb t (length (ts s)) then
            let '(s, ok) := task_reinsert s t p in
            if ok then res s 0 else verr s
          else bad s
      | OCallPos p n =>
          let '(s, h) := call_pos_ (logz s [5; zn me; zn p; n]) p (HCb n) in res s h
      | OCallSoon n =>
          let '(s, h) := call_soon (logz s [6; zn me; n]) (HCb n) in res s h
      | OCallPosReins p t q =>
          let s := logz s [7; zn me; zn p; zn t; zn q] in
          if Nat.ltb t (length (ts s)) then
            let '(s, h) := call_pos_ s p (HReins t q) in res s h
          else bad s
      | OCreate i =>
          let s := logz s [8; zn me; zn i] in
          if Nat.ltb i (length (prog s)) then
            let '(s, t) := spawn s i in res s (zn t)
          else bad s
      | ODescend i =>
          let s := logz s [9; zn me; zn i] in
          if Nat.ltb i (length (prog s)) then
            let '(s, t) := spawn s i in                       (* create_task(coro) *)
            let '(s, ok) := task_reinsert s t 0 in            (* task_switch(task, insert_pos=1) *)
            if ok then sleep_insert_ s me 1 k else verr s
          else bad s
      | OStart i =>
          let s := logz s [10; zn me; zn i] in
          if Nat.ltb i (length (prog s)) then
            let '(s, _) := spawn s i in yield_ s me k
          else bad s
      | OFind t rm =>
          let s := logz s [11; zn me; zn t; if rm then 1 else 0] in
          if Nat.ltb t (length (ts s)) then
            let '(r, q1) := qi_find I (rq s) (task_key s t) rm in
            let s := set_rq s q1 in
            let s := match r with Some h => if rm then set_held s (Some h) else s | None => s end in
            res s (zoptz r)
          else bad s
      | ORemove t =>
          let s := logz s [12; zn me; zn t] in
          if Nat.ltb t (length (ts s)) then
            let '(r, q1) := qi_find I (rq s) (task_key s t) false in
            let s := set_rq s q1 in
            match r with
            | None => res s (-1)
            | Some h =>
                let '(ok, q2) := qi_remove I (rq s) h in
                let s := set_rq s q2 in
                if ok then res (set_held s (Some h)) h else verr s
            end
          else bad s
      | ORemoveHeld =>
          let s := logz s [13; zn me] in
          match held s with
          | None => res s (-1)
          | Some h =>
              let '(ok, q2) := qi_remove I (rq s) h in
              let s := set_rq s q2 in
              if ok then res s h else verr s
          end
      | OInsert =>
          let s := logz s [14; zn me] in
          match held s with
          | None => res s (-1)
          | Some h => res (set_held (set_rq s (qi_append I (rq s) h)) None) h
          end
      | OWait e =>
          let s := logz s [15; zn me; zn e] in
          match nth_error (evs s) e with
          | None => bad s
          | Some (true, _) => exec_ops me k s                 (* already set: no suspension *)
          | Some (false, ws) =>
              set_task (set_evs s (set_nth (evs s) e (false, ws ++ [me]))) me k false
          end
      | OSet e =>
          let s := logz s [16; zn me; zn e] in
          match nth_error (evs s) e with
          | None => bad s
          | Some (true, _) => exec_ops me k s
          | Some (false, ws) =>
              exec_ops me k (wake_all (set_evs s (set_nth (evs s) e (true, []))) ws)
          end
      | OItems =>
          let '(l, q1) := qi_items I (rq s) in
          exec_ops me k (logo (set_rq (logz s [17; zn me]) q1) (OL [OI 91; olist OI l]))
      end
  end.

(* Task.__step / __wakeup *)
Definition run_task (s : st) (t : nat) : st :=
  match nth_error (ts s) t with
  | Some (mkT ops false) => exec_ops t ops s
  | _ => s
  end.

Definition run_handle (s : st) (h : Z) : st :=
  if h <? 0 then s else
  match nth_error (hs s) (Z.to_nat h) with
  | Some (HStep t) | Some (HWakeup t) => run_task s t
  | Some (HCb n) => logz s [100; n]
  | Some (HReins t p) =>
      let '(s, ok) := task_reinsert s t p in
      if ok then s else add_err s         (* ValueError ends in the loop's exception handler *)
  | None => s
  end.

(* one iteration of the loop's inner `for`: popleft a handle and run it *)
Definition run_one (s : st) : option (Z * st) :=
  match qi_popleft I (rq s) with
  | None => None
  | Some (h, q') =>
      let s := mkSt q' (hs s) (ts s) (evs s) (held s) [] (errs s) (prog s) in
      Some (h, run_handle s h)
  end.

Definition init (scripts : list (list op)) (nev : nat) (mains : list nat) : st :=
  fold_left (fun s i => fst (spawn s i)) mains
            (mkSt (qi_empty I) [] [] (repeat (false, []) nev) None [] 0 scripts).

(* ---- observation after every handle ---- *)
Definition ohandle (s : st) (h : Z) : obs :=
  OL [OI h; OI (match task_of (hs s) h with Some t => zn t | None => -1 end)].

Definition observe (s : st) (h : Z) : obs :=
  OL [OI h;
      OL (rev (slog s));
      OI (qi_len I (rq s));
      OL (map (ohandle s) (qi_order I (rq s)));
      OI (errs s);
      OL (map (fun t => ob (tdone t)) (ts s));
      OI (zoptz (held s));
      qi_internal I (rq s)].

Fixpoint run_steps (fuel : nat) (s : st) : list obs :=
  match fuel with
  | O => []
  | S f => match run_one s with
           | None => []
           | Some (h, s') => observe s' h :: run_steps f s'
           end
  end.

Definition run_prog (scripts : list (list op)) (nev : nat) (mains : list nat) (fuel : nat) : obs :=
  let s := init scripts nev mains in
  OL (observe s (-1) :: run_steps fuel s).

End Loop.
