(* C08_posq_iso (PARTIAL): with all priorities equal, the PosPriorityQueue model
   (PosQ) and the list queue (ListQ) produce the same results and the same run
   order under the same operations.  The general statement is [posq_iso_statement];
   what is proved here is its bounded-exhaustive instance (every operation
   sequence of length <= 4 over the alphabet below, evaluated in the kernel),
   plus a longer mixed instance.  The loop-level correspondence (stream `loop`)
   additionally compares PosQ with the real PrioritySelectorEventLoop and the
   independent list oracle on every generated program. *)
From Coq Require Import QArith.
From Asynkit Require Import Base.Prelude Base.Obs Sched.ListLoop.
Open Scope Z_scope.

Inductive qop :=
| QAppend (h : Z)                 (* call_soon / ready_insert *)
| QPop                            (* the loop runs the head *)
| QFind (h : Z) (rm : bool)       (* queue_find(lambda x: x is h, remove=rm) *)
| QRemove (h : Z)                 (* queue_remove *)
| QInsertPos (p : nat) (h : Z)    (* queue_insert_pos *)
| QCallPos (p : nat) (h : Z)      (* call_pos *)
| QItems.                         (* queue_items (sorts the heap array in place) *)

Definition qstep {Q} (I : qimpl Q) (q : Q) (o : qop) : obs * Q :=
  match o with
  | QAppend h => (OL [], qi_append I q h)
  | QPop => match qi_popleft I q with
            | None => (OL [OI (-1)], q)
            | Some (h, q') => (OL [OI h], q')
            end
  | QFind h rm => let '(r, q') := qi_find I q (Z.eqb h) rm in (oopt OI r, q')
  | QRemove h => let '(ok, q') := qi_remove I q h in (ob ok, q')
  | QInsertPos p h => (OL [], qi_insert_pos I q p h)
  | QCallPos p h => (OL [], qi_call_pos I q p h)
  | QItems => let '(l, q') := qi_items I q in (olist OI l, q')
  end.

(* result, length and run order after every operation *)
Fixpoint qrun {Q} (I : qimpl Q) (q : Q) (ops : list qop) : list obs :=
  match ops with
  | [] => []
  | o :: t => let '(r, q') := qstep I q o in
              OL [r; OI (qi_len I q'); olist OI (qi_order I q')] :: qrun I q' t
  end.

Definition same_run (ops : list qop) : bool :=
  obs_eqb (OL (qrun PosQ (qi_empty PosQ) ops)) (OL (qrun ListQ (qi_empty ListQ) ops)).

(* handles entering the queue are new objects, an entry is re-inserted only after
   it has been taken out: no handle is in the queue twice *)
Fixpoint wf_from (live : list Z) (ops : list qop) : Prop :=
  match ops with
  | [] => True
  | QAppend h :: t | QInsertPos _ h :: t | QCallPos _ h :: t => ~ In h live /\ wf_from (h :: live) t
  | _ :: t => wf_from live t        (* removals only shrink the live set: over-approximated *)
  end.

Definition posq_iso_statement : Prop :=
  forall ops, wf_from [] ops -> same_run ops = true.

(* ---- bounded-exhaustive instance ---- *)
Definition alphabet (fresh : Z) : list qop :=
  [QAppend fresh; QPop; QItems;
   QFind 0 true; QFind 1 true; QFind 1 false; QFind 2 true;
   QRemove 0; QRemove 1; QRemove 2;
   QInsertPos 0 fresh; QInsertPos 1 fresh; QInsertPos 2 fresh; QInsertPos 3 fresh;
   QCallPos 0 fresh; QCallPos 1 fresh; QCallPos 2 fresh].

Fixpoint all_seqs (depth : nat) (fresh : Z) : list (list qop) :=
  match depth with
  | O => [[]]
  | S d => [] :: flat_map (fun o => map (cons o) (all_seqs d (fresh + 1))) (alphabet fresh)
  end.

Theorem posq_iso_bounded : forallb same_run (all_seqs 4 0) = true.
Proof. vm_compute. reflexivity. Qed.

Example posq_iso_long :
  same_run [QAppend 0; QAppend 1; QAppend 2; QCallPos 1 3; QInsertPos 0 4; QAppend 5; QPop;
            QFind 2 true; QInsertPos 2 2; QCallPos 9 6; QItems; QRemove 5; QAppend 5; QPop; QPop;
            QCallPos 0 7; QCallPos 0 8; QCallPos 1 9; QPop; QPop; QPop; QPop; QPop; QPop; QPop;
            QAppend 10; QInsertPos 1 11; QPop; QPop; QPop] = true.
Proof. vm_compute. reflexivity. Qed.

Example all_seqs_size : Z.of_nat (length (all_seqs 4 0)) = 88741.
Proof. vm_compute. reflexivity. Qed.
