(* C16, composition: the interruptor fires, the next handle run is the target's step, the
   token is delivered at the target's suspension point, an un-caught token reaches the exit
   of its block, which converts it to TimeoutError and deactivates the block - all within
   that one handle run (list ready queue).  Nested blocks: an outer token passes the inner
   exit unchanged and the inner block is deactivated on the way out. *)
From Coq Require Import QArith.
From RecordUpdate Require Import RecordUpdate.
From Asynkit Require Import Base.Prelude Base.Obs Queue.ListFacts Sched.Model Sched.PartTables
     Sched.PartitionProofs Sched.ThrowProofs Sched.FrameFacts Sched.Corr Sched.TimeoutProofs.
Import RecordSetNotations.
Open Scope nat_scope.

(* ------------------------------------------------------------ the block's continuation *)
(* the continuation denote gives to the body of `async with task_timeout(d)` for block b:
   call __aexit__ with how the body ended, then go on with what leaves the block *)
Definition texit_k (c0 : compl) (rest : script) (cur : option exn)
           (k : list nat -> compl -> coro) (env : list nat) : reply -> coro :=
  fun r' => match r' with
            | RExc e => k env (CExc e)
            | RVal _ => match c0 with CNormal => denote rest env cur k | _ => k env c0 end
            end.
Definition texit (b : nat) (rest : script) (cur : option exn)
           (k : list nat -> compl -> coro) : list nat -> compl -> coro :=
  fun env c0 =>
    Call (OTimeoutExit b (match c0 with CExc e => RExc e | _ => RVal 0 end)) (texit_k c0 rest cur k env).

Definition enter_state (s : st) (t : nat) (d : Q) : st :=
  let '(s', h) := call_at s (Qplus (now s) d) (HTrigger (length (blocks s))) in
  s' <| blocks := blocks s' ++ [mkBlk t true h] |>.

(* entering a block with a deadline: a new active block b = length (blocks s) for task t, its
   timer; the body runs with [texit b] as continuation *)
Theorem denote_timeout_some t d body rest env cur k s :
  exec t (denote (STimeout (Some d) body rest) env cur k) s =
  exec t (denote body env cur (texit (length (blocks s)) rest cur k)) (enter_state s t d).
Proof.
  cbn [denote exec lib_call]. unfold enter_state.
  destruct (call_at s (Qplus (now s) d) (HTrigger (length (blocks s)))) as [s' h].
  assert (E : (Z.of_nat (length (blocks s)) <? 0)%Z = false) by (apply Z.ltb_ge; lia).
  rewrite E, Nat2Z.id. reflexivity.
Qed.

Theorem enter_state_block s t d :
  let b := length (blocks s) in
  let s' := enter_state s t d in
  bactive (getb s' b) = true /\ btask (getb s' b) = t /\ length (blocks s') = S b.
Proof.
  intros b s'. unfold s', enter_state, call_at, getb. cbn. fold b.
  rewrite app_nth2, Nat.sub_diag, app_length by lia. cbn. repeat split; lia.
Qed.

(* the level, at the level of the running code: the block's own token leaves it as TimeoutError *)
Theorem texit_own t b rest cur k env s :
  exec t (texit b rest cur k env (CExc (ETimeoutInt b))) s =
  exec t (k env (CExc ETimeout)) (exit_state s b).
Proof. unfold texit. cbn [exec lib_call]. rewrite Nat.eqb_refl. reflexivity. Qed.

(* another block's token passes unchanged *)
Theorem texit_other t b b' rest cur k env s :
  b' <> b ->
  exec t (texit b rest cur k env (CExc (ETimeoutInt b'))) s =
  exec t (k env (CExc (ETimeoutInt b'))) (exit_state s b).
Proof.
  intros N. unfold texit. cbn [exec lib_call].
  destruct (Nat.eqb_spec b b') as [->|_]; [congruence|]. reflexivity.
Qed.

(* every exception that is not a token passes unchanged; normal completion continues after the block *)
Theorem texit_exc t b e rest cur k env s :
  (forall b', e <> ETimeoutInt b') ->
  exec t (texit b rest cur k env (CExc e)) s = exec t (k env (CExc e)) (exit_state s b).
Proof.
  intros N. unfold texit. cbn [exec lib_call]. destruct e; try reflexivity. exfalso. eapply N. reflexivity.
Qed.
Theorem texit_normal t b rest cur k env s :
  exec t (texit b rest cur k env CNormal) s = exec t (denote rest env cur k) (exit_state s b).
Proof. reflexivity. Qed.

(* nested: the OUTER block's token raised inside the INNER block: the inner exit lets it through
   unchanged and deactivates the inner block, the outer exit turns it into TimeoutError; both
   blocks are inactive afterwards *)
Theorem texit_nested_outer_token t bi bo resti resto cur k env s :
  bi <> bo ->
  let s' := exit_state (exit_state s bi) bo in
  exec t (texit bi resti cur (texit bo resto cur k) env (CExc (ETimeoutInt bo))) s =
  exec t (k env (CExc ETimeout)) s' /\
  bactive (getb s' bi) = false /\ bactive (getb s' bo) = false /\
  bactive (getb (exit_state s bi) bi) = false /\
  getb (exit_state s bi) bo = getb s bo.
Proof.
  intros N s'. split; [|split; [|split; [|split]]].
  - rewrite texit_other by auto. apply texit_own.
  - unfold s'. destruct (exit_state_facts (exit_state s bi) bo) as (_ & _ & _ & O & _).
    rewrite O by exact N. apply exit_state_facts.
  - apply exit_state_facts.
  - apply exit_state_facts.
  - destruct (exit_state_facts s bi) as (_ & _ & _ & O & _). apply O. auto.
Qed.

(* ... and the INNER block's own token: TimeoutError appears at the inner level, and is an
   ordinary exception for the outer block, which stays... exited too if nothing catches it *)
Theorem texit_nested_inner_token t bi bo resti resto cur k env s :
  let s' := exit_state (exit_state s bi) bo in
  exec t (texit bi resti cur (texit bo resto cur k) env (CExc (ETimeoutInt bi))) s =
  exec t (k env (CExc ETimeout)) s'.
Proof.
  intros s'. rewrite texit_own. apply texit_exc. discriminate.
Qed.

(* the continuation of a plain awaited call `SDo op rest` hands an exception straight to the
   enclosing continuation *)
Definition sdo_k (rest : script) (env : list nat) (cur : option exn)
           (k : list nat -> compl -> coro) : reply -> coro :=
  fun r => match r with RVal _ => denote rest env cur k | RExc e => k env (CExc e) end.
Lemma denote_sdo op rest env cur k : denote (SDo op rest) env cur k = Call (resolve env op) (sdo_k rest env cur k).
Proof. reflexivity. Qed.
Lemma sdo_k_exc rest env cur k e : sdo_k rest env cur k (RExc e) = k env (CExc e).
Proof. reflexivity. Qed.

(* the frames of asyncio.sleep(d) let an exception through (the finally clause cancels the timer) *)
Lemma sleep_frames_propagate t f h e s0 :
  resume_stack t [InFut f; InSleepTimer h] (RExc e) s0 = (cancel_handle s0 h, LDone (RExc e)).
Proof. reflexivity. Qed.
Lemma fut_frame_propagates t f e s0 : resume_stack t [InFut f] (RExc e) s0 = (s0, LDone (RExc e)).
Proof. reflexivity. Qed.
Lemma sleep0_frame_propagates t e s0 : resume_stack t [InSleep0] (RExc e) s0 = (s0, LDone (RExc e)).
Proof. reflexivity. Qed.

(* ------------------------------------------------------------ what an accepted throw keeps of the target *)
Lemma throw_accepted_target s t e s1 v :
  task_throw s t e = (s1, RVal v) ->
  t < length (tasks s) /\ tdone s t = false /\ tdone s1 t = false /\
  gett s1 t = gett s t <| twaiter := None |>.
Proof.
  intros E.
  destruct (task_throw_cases s t e s1 (RVal v) E) as [[_ (k & Hk)]|(_ & Hd & Hk & H)]; [discriminate|].
  pose proof (kpy_in_range s t Hk) as Ht.
  assert (X : exists s0, s1 = throw_go s0 t e /\ tasks s0 = tasks s /\
                         forall g, fstate_ (getf s0 g) = fstate_ (getf s g)).
  { destruct H as [(f & _ & _ & ->)|(h & r' & _ & _ & _ & ->)].
    - eexists. split; [reflexivity|]. split; [reflexivity|]. apply remove_cb_obs.
    - eexists. split; [reflexivity|]. split; [reflexivity|]. reflexivity. }
  destruct X as (s0 & -> & Et & Ef).
  assert (G : gett (throw_go s0 t e) t = gett s t <| twaiter := None |>).
  { change (gett (throw_go s0 t e) t) with (gett (sett s0 t (gett s0 t <| twaiter := None |>)) t).
    rewrite gett_sett_same by (rewrite Et; exact Ht). unfold gett. rewrite Et. reflexivity. }
  split; [exact Ht|]. split; [exact Hd|]. split; [|exact G].
  unfold tdone. rewrite G.
  change (fdone (throw_go s0 t e) (tfut (gett s t)) = false).
  unfold fdone. change (getf (throw_go s0 t e)) with (getf s0).
  rewrite Ef. exact Hd.
Qed.

(* ------------------------------------------------------------ the target's step with the token *)
(* s2: any state whose next handle is the target's step carrying the token of its block b; the
   task has no cancel() pending, its library frames let the exception through (e.g. it is inside
   sleep(): sleep_frames_propagate) and the block's body does not catch it: it reaches the block's
   exit call (for a plain await inside the block: sdo_k_exc; through inner blocks:
   texit_other).  Then that single handle run resumes the task with the token at its suspension
   point, the exit turns it into TimeoutError and deactivates the block, and the code after the
   block (kx) goes on with TimeoutError *)
Theorem token_step_raises s2 b t hn rest frs k kx (fr bd : st -> st) :
  let tok := ETimeoutInt b in
  ready s2 = RList (hn :: rest) -> geth s2 hn = mkH (HStep t (Some tok)) false ->
  tdone s2 t = false -> tmustc (gett s2 t) = false -> tcont_ (gett s2 t) = TSusp frs k ->
  (forall s0, resume_stack t frs (RExc tok) s0 = (fr s0, LDone (RExc tok))) ->
  (forall s0, exec t (k (RExc tok)) s0 = exec t (Call (OTimeoutExit b (RExc tok)) kx) (bd s0)) ->
  let s3 := s2 <| ready := RList rest |> in
  let s5 := bd (fr (running_state s3 t)) in
  run_one s2 = step_task t (Some tok) s3 /\
  delivered_exn s3 t tok = tok /\
  lib_call t (OTimeoutExit b (RExc tok)) s5 = (exit_state s5 b, LDone (RExc ETimeout)) /\
  bactive (getb (exit_state s5 b) b) = false /\
  run_one s2 = (let '(s6, o) := exec t (kx (RExc ETimeout)) (exit_state s5 b) in
                finish_step t s6 o <| current := None |>).
Proof.
  intros tok R G Hd Hm Hk HF HB s3 s5.
  assert (R1 : run_one s2 = step_task t (Some tok) s3).
  { apply (run_one_step s2 hn (RList rest) t tok); [rewrite R; reflexivity|exact G]. }
  assert (D : delivered_exn s3 t tok = tok).
  { unfold delivered_exn. change (gett s3 t) with (gett s2 t). rewrite Hm. reflexivity. }
  assert (LX : lib_call t (OTimeoutExit b (RExc tok)) s5 = (exit_state s5 b, LDone (RExc ETimeout))).
  { rewrite timeout_exit_eq. unfold tok. rewrite (proj1 (exit_reply_level b)). reflexivity. }
  split; [exact R1|]. split; [exact D|]. split; [exact LX|]. split; [apply exit_state_facts|].
  rewrite R1. rewrite (step_throw_susp s3 t tok frs k Hd Hk), D, HF, HB.
  cbn [exec]. fold s5. rewrite LX. reflexivity.
Qed.

(* C16_fires_and_raises: from the interruptor's attempt *)
Theorem fires_and_raises fuel s b i l s1 v frs k kx (fr bd : st -> st) :
  ready s = RList l -> bactive (getb s b) = true -> i < 3 ->
  let t := btask (getb s b) in
  let tok := ETimeoutInt b in
  let hn := length (handles s) in
  task_throw s t tok = (s1, RVal v) ->
  tmustc (gett s t) = false -> tcont_ (gett s t) = TSusp frs k ->
  (forall s0, resume_stack t frs (RExc tok) s0 = (fr s0, LDone (RExc tok))) ->
  (forall s0, exec t (k (RExc tok)) s0 = exec t (Call (OTimeoutExit b (RExc tok)) kx) (bd s0)) ->
  exists l',
    let sI := s1 <| ready := RList (hn :: l') |> in
    let s3 := s1 <| ready := RList l' |> in
    let s5 := bd (fr (running_state s3 t)) in
    (* (i) the interruptor has thrown and sleeps; the next handle run is the target's step *)
    interruptor (S fuel) s b i = (sI, LSusp YNone [InSleep0; InIntr b i 0]) /\
    run_one sI = step_task t (Some tok) s3 /\
    (* (ii) the target is resumed with the token itself at its suspension point (frames: fr),
       the body hands it to the exit call of b (bd) *)
    delivered_exn s3 t tok = tok /\
    (* (iii) the exit of b raises TimeoutError and deactivates b *)
    lib_call t (OTimeoutExit b (RExc tok)) s5 = (exit_state s5 b, LDone (RExc ETimeout)) /\
    bactive (getb (exit_state s5 b) b) = false /\
    (* all of it inside that one handle run: no other task ran in between *)
    run_one sI = (let '(s6, o) := exec t (kx (RExc ETimeout)) (exit_state s5 b) in
                  finish_step t s6 o <| current := None |>).
Proof.
  intros R A Hi t tok hn E Hm Hk HF HB.
  destruct (interruptor_fires fuel s b i l s1 v R A Hi E) as (l' & R1 & G & FI & _).
  fold t tok hn in R1, G, FI.
  destruct (throw_accepted_target s t tok s1 v E) as (Ht & _ & Hd1 & Gt).
  set (sI := s1 <| ready := RList (hn :: l') |>).
  destruct (token_step_raises sI b t hn l' frs k kx fr bd) as (P1 & P2 & P3 & P4 & P5); auto.
  - change (gett sI t) with (gett s1 t). rewrite Gt. exact Hm.
  - change (gett sI t) with (gett s1 t). rewrite Gt. exact Hk.
  - exists l'. cbv zeta. repeat (split; [assumption|]). exact P5.
Qed.

(* the interruptor task's own step ends by re-scheduling it BEHIND the target's handle: Task.__step
   of the interruptor (ti) appends HStep ti None; the head of the queue, the target's entry and the
   block table are untouched, so token_step_raises applies to the state the loop sees next *)
Theorem interruptor_yield_keeps_head sI ti t hn l' frsI kI :
  ready sI = RList (hn :: l') -> hn < length (handles sI) -> ti <> t ->
  let sF := finish_step ti sI (OYield YNone frsI kI) <| current := None |> in
  ready sF = RList (hn :: l' ++ [length (handles sI)]) /\ geth sF hn = geth sI hn /\
  geth sF (length (handles sI)) = mkH (HStep ti None) false /\
  gett sF t = gett sI t /\ tdone sF t = tdone sI t /\ blocks sF = blocks sI /\ futs sF = futs sI.
Proof.
  intros R Hl N sF.
  set (x := gett sI ti <| tcont_ := TSusp frsI kI |>).
  assert (Esf : sF = call_soon_ (sett sI ti x) (HStep ti None) <| current := None |>) by reflexivity.
  assert (Er : ready sF = rq_append (ready sI) (length (handles sI))
                 (handle_priority (sett sI ti x <| handles := handles sI ++ [mkH (HStep ti None) false] |>)
                                  (HStep ti None))) by reflexivity.
  assert (Eh : handles sF = handles sI ++ [mkH (HStep ti None) false]) by reflexivity.
  assert (Gt : gett sF t = gett sI t).
  { change (gett sF t) with (gett (sett sI ti x) t). apply gett_sett_other. auto. }
  split; [rewrite Er, R; reflexivity|]. split.
  { unfold geth. rewrite Eh, app_nth1 by exact Hl. reflexivity. }
  split; [unfold geth; rewrite Eh; apply nth_middle|].
  split; [exact Gt|]. split; [|split; reflexivity].
  unfold tdone. rewrite Gt. reflexivity.
Qed.

(* the concrete shape: the task sleeps directly inside `async with task_timeout(d)` (block b):
   continuation sdo_k ... (texit b ...), frames of asyncio.sleep.  TimeoutError is what the code
   after the block (k0) sees, in the next handle run, with block b inactive and the sleep's timer
   cancelled *)
Theorem fires_and_raises_sleep fuel s b i l s1 v f h rest' rest env cur k0 :
  ready s = RList l -> bactive (getb s b) = true -> i < 3 ->
  let t := btask (getb s b) in
  let tok := ETimeoutInt b in
  let hn := length (handles s) in
  task_throw s t tok = (s1, RVal v) -> tmustc (gett s t) = false ->
  tcont_ (gett s t) = TSusp [InFut f; InSleepTimer h] (sdo_k rest' env cur (texit b rest cur k0)) ->
  exists l',
    let sI := s1 <| ready := RList (hn :: l') |> in
    let s3 := s1 <| ready := RList l' |> in
    let s5 := exit_state (cancel_handle (running_state s3 t) h) b in
    interruptor (S fuel) s b i = (sI, LSusp YNone [InSleep0; InIntr b i 0]) /\
    bactive (getb s5 b) = false /\
    run_one sI = (let '(s6, o) := exec t (k0 env (CExc ETimeout)) s5 in
                  finish_step t s6 o <| current := None |>).
Proof.
  intros R A Hi t tok hn E Hm Hk.
  destruct (fires_and_raises fuel s b i l s1 v _ _
              (texit_k (CExc tok) rest cur k0 env) (fun s0 => cancel_handle s0 h) (fun s0 => s0)
              R A Hi E Hm Hk)
    as (l' & P1 & _ & _ & _ & P5 & P6).
  - intros s0. apply sleep_frames_propagate.
  - intros s0. reflexivity.
  - exists l'. cbv zeta in *. split; [exact P1|]. split; [exact P5|]. exact P6.
Qed.


(* ------------------------------------------------------------ try/except continuations *)
Definition stry_after (fin rest : script) (cur : option exn) (k : list nat -> compl -> coro)
  : list nat -> compl -> coro :=
  fun env c0 =>
    denote fin env cur
           (fun env cf => match cf with
                          | CNormal => match c0 with CNormal => denote rest env cur k | _ => k env c0 end
                          | _ => k env cf
                          end).
Definition stry_k (c : catch) (handler fin rest : script) (cur : option exn)
           (k : list nat -> compl -> coro) : list nat -> compl -> coro :=
  fun env c0 =>
    match c0 with
    | CExc e => if catches c e then denote handler env (Some e) (stry_after fin rest cur k)
                else stry_after fin rest cur k env c0
    | _ => stry_after fin rest cur k env c0
    end.
Lemma denote_stry body c handler fin rest env cur k :
  denote (STry body c handler fin rest) env cur k = denote body env cur (stry_k c handler fin rest cur k).
Proof. reflexivity. Qed.
Definition k_final : list nat -> compl -> coro :=
  fun _ c => match c with CNormal => Ret 0 | CRet v => Ret v | CExc e => Raise e end.

(* a handler that logs and re-raises (`except BaseException: log; raise`, empty finally) hands the
   exception on to the enclosing continuation *)
Lemma stry_log_reraise t rest cur k env e s :
  exec t (stry_k CBase (SLogExc SReraise) SEnd rest cur k env (CExc e)) s =
  exec t (k env (CExc e)) (addlog s (exn_code (Some e))).
Proof. reflexivity. Qed.

(* ------------------------------------------------------------ non-vacuity and a whole run *)
(* the nested example of TimeoutProofs (task_timeout(1) around task_timeout(5) around sleep(10),
   each level logging what leaves its block) just when the interruptor (task 1) of the OUTER
   block 0 takes its first step: ex_sr is the state inside that step *)
Definition ex_s6 : st := run_acts (firstn 6 ex_nested_acts).
Definition ex_sr : st := running_state (ex_s6 <| ready := RList [] |>) 1.

(* the continuation of task 0, asleep in sleep(10) inside the inner block 1 inside the outer block 0 *)
Definition ex_kafter : list nat -> compl -> coro :=
  stry_k CBase (SLogExc SEnd) SEnd (SDo (OLog 4) SEnd) None k_final.
Definition ex_kout : list nat -> compl -> coro := texit 0 (SDo (OLog 3) SEnd) None ex_kafter.
Definition ex_k : reply -> coro :=
  sdo_k SEnd [] None
    (texit 1 (SDo (OLog 1) SEnd) None
       (stry_k CBase (SLogExc SReraise) SEnd (SDo (OLog 2) SEnd) None ex_kout)).
Definition ex_kx : reply -> coro :=
  texit_k (CExc (ETimeoutInt 0)) (SDo (OLog 3) SEnd) None ex_kafter [].

(* the hypotheses of fires_and_raises hold there: block 0 active, its task 0 a Python task asleep
   in sleep(10) (frames InFut 1, InSleepTimer 3) inside the INNER block 1; the token of block 0
   passes the inner exit (block 1 deactivated), is logged (903) by the inner handler, which
   re-raises it, and reaches the exit call of block 0 *)
Example fires_and_raises_hyps :
  ready ex_sr = RList [] /\ bactive (getb ex_sr 0) = true /\ btask (getb ex_sr 0) = 0 /\
  snd (task_throw ex_sr 0 (ETimeoutInt 0)) = RVal 0 /\ tmustc (gett ex_sr 0) = false /\
  tcont_ (gett ex_sr 0) = TSusp [InFut 1; InSleepTimer 3] ex_k /\
  (forall s0, resume_stack 0 [InFut 1; InSleepTimer 3] (RExc (ETimeoutInt 0)) s0 =
              (cancel_handle s0 3, LDone (RExc (ETimeoutInt 0)))) /\
  (forall s0, exec 0 (ex_k (RExc (ETimeoutInt 0))) s0 =
              exec 0 (Call (OTimeoutExit 0 (RExc (ETimeoutInt 0))) ex_kx) (addlog (exit_state s0 1) 903)).
Proof.
  split; [vm_compute; reflexivity|]. split; [vm_compute; reflexivity|]. split; [vm_compute; reflexivity|].
  split; [vm_compute; reflexivity|]. split; [vm_compute; reflexivity|].
  split; [reflexivity|]. split; [intros; reflexivity|].
  intros s0. unfold ex_k. rewrite sdo_k_exc, texit_other by discriminate. rewrite stry_log_reraise.
  reflexivity.
Qed.

(* hence its conclusion: the interruptor's attempt throws and sleeps, the next handle run is task 0's
   step, which leaves block 0 with TimeoutError (block 0 and block 1 inactive), all in one run_one *)
Example fires_and_raises_ex :
  exists s1 l',
    let sI := s1 <| ready := RList (5 :: l') |> in
    let s3 := s1 <| ready := RList l' |> in
    let s5 := addlog (exit_state (cancel_handle (running_state s3 0) 3) 1) 903 in
    task_throw ex_sr 0 (ETimeoutInt 0) = (s1, RVal 0) /\
    interruptor 4 ex_sr 0 0 = (sI, LSusp YNone [InSleep0; InIntr 0 0 0]) /\
    bactive (getb (exit_state s5 0) 0) = false /\ bactive (getb (exit_state s5 0) 1) = false /\
    run_one sI = (let '(s6, o) := exec 0 (ex_kx (RExc ETimeout)) (exit_state s5 0) in
                  finish_step 0 s6 o <| current := None |>).
Proof.
  destruct fires_and_raises_hyps as (H1 & H2 & H3 & H4 & H5 & H6 & H7 & H8).
  destruct (task_throw ex_sr 0 (ETimeoutInt 0)) as [s1 r] eqn:E. simpl in H4. subst r.
  exists s1.
  assert (Hl : length (handles ex_sr) = 5) by (vm_compute; reflexivity).
  pose proof (fires_and_raises 3 ex_sr 0 0 [] s1 0 [InFut 1; InSleepTimer 3] ex_k ex_kx
                (fun s0 => cancel_handle s0 3) (fun s0 => addlog (exit_state s0 1) 903)
                H1 H2 ltac:(lia)) as F.
  rewrite H3, Hl in F. cbv zeta in F.
  destruct (F E H5 H6 H7 H8) as (l' & F1 & _ & _ & _ & F5 & F6).
  exists l'. cbv zeta. split; [reflexivity|]. split; [exact F1|]. split; [exact F5|]. split; [|exact F6].
  destruct (exit_state_facts (addlog (exit_state (cancel_handle (running_state (s1 <| ready := RList l' |>) 0) 3) 1) 903) 0)
    as (_ & _ & _ & O & _). rewrite O by discriminate.
  change (bactive (getb (exit_state (cancel_handle (running_state (s1 <| ready := RList l' |>) 0) 3) 1) 1) = false).
  apply exit_state_facts.
Qed.

(* C16_example_whole_run: the complete run of that program, action by action (virtual clock):
   spawn; begin; step (enter both blocks, sleep); clock +1; begin (the outer timer is due);
   step (trigger: spawns the interruptor); step (interruptor: throw + switch, asleep);
   step (task 0: token delivered, 903 at the inner level, TimeoutError 904 at the outer level, 4);
   step (interruptor resumes: block inactive, ends) *)
Example whole_run :
  let st_after n := run_acts (firstn n ex_nested_acts) in
  (* after the task's first step: both blocks active, task 0 asleep, nothing ready *)
  (rq_items (ready (st_after 3)) = [] /\ map bactive (blocks (st_after 3)) = [true; true] /\
   twaiter (gett (st_after 3) 0) = Some 1) /\
  (* the outer deadline passes: the trigger handle becomes ready, then spawns the interruptor *)
  (rq_items (ready (st_after 5)) = [1] /\ hcb (geth (st_after 5) 1) = HTrigger 0) /\
  (rq_items (ready (st_after 6)) = [4] /\ hcb (geth (st_after 6) 4) = HStep 1 None) /\
  (* the interruptor's step: the target's new handle (5) first, the interruptor's own (6) behind;
     the sleep future is still pending and has lost the task's wake-up callback *)
  (rq_items (ready (st_after 7)) = [5; 6] /\
   geth (st_after 7) 5 = mkH (HStep 0 (Some (ETimeoutInt 0))) false /\
   geth (st_after 7) 6 = mkH (HStep 1 None) false /\
   events_of (st_after 7) = [] /\ map bactive (blocks (st_after 7)) = [true; true] /\
   fstate_ (getf (st_after 7) 1) = FPending /\ fcbs (getf (st_after 7) 1) = []) /\
  (* the very next handle: the token passes the inner level (903), TimeoutError at the outer (904),
     the code after the blocks runs (4), task 0 finishes with result 0; both blocks inactive,
     all three timers cancelled *)
  (events_of (st_after 8) = [903; 904; 4]%Z /\ map bactive (blocks (st_after 8)) = [false; false] /\
   fstate_ (getf (st_after 8) (tfut (gett (st_after 8) 0))) = FResult 0 /\
   map (fun h => hcancelled (geth (st_after 8) h)) [1; 2; 3] = [true; true; true] /\
   rq_items (ready (st_after 8)) = [6]) /\
  (* the interruptor resumes, finds the block inactive and ends; no loop error, the sleep future
     was never cancelled *)
  (rq_items (ready (st_after 9)) = [] /\ events_of (st_after 9) = [903; 904; 4]%Z /\
   map fstate_ (futs (st_after 9)) = [FResult 0; FPending; FResult 0] /\
   errors (st_after 9) = []) /\
  (* the state of step 7 is exactly the sI of fires_and_raises_ex plus the interruptor's own handle *)
  st_after 8 = run_one (st_after 7).
Proof. vm_compute. repeat split; reflexivity. Qed.

(* ------------------------------------------------------------ any ready queue with QSpec + QNext *)
(* the same composition for every ready queue in which "position 0" is the head of the run order
   (Sched/InterruptNext.v: QNext; the list queue and the PosPriorityQueue with boosting off),
   under the partition invariant *)
From Coq Require Import Sorting.Permutation.
From Asynkit Require Import Sched.PartitionSteps Sched.PartitionRun Sched.InterruptNext.

Theorem token_step_raises_gen s2 b t hn r frs k kx (fr bd : st -> st) :
  let tok := ETimeoutInt b in
  rq_popleft (ready s2) = Some (hn, r) -> geth s2 hn = mkH (HStep t (Some tok)) false ->
  tdone s2 t = false -> tmustc (gett s2 t) = false -> tcont_ (gett s2 t) = TSusp frs k ->
  (forall s0, resume_stack t frs (RExc tok) s0 = (fr s0, LDone (RExc tok))) ->
  (forall s0, exec t (k (RExc tok)) s0 = exec t (Call (OTimeoutExit b (RExc tok)) kx) (bd s0)) ->
  let s3 := s2 <| ready := r |> in
  let s5 := bd (fr (running_state s3 t)) in
  run_one s2 = step_task t (Some tok) s3 /\
  delivered_exn s3 t tok = tok /\
  lib_call t (OTimeoutExit b (RExc tok)) s5 = (exit_state s5 b, LDone (RExc ETimeout)) /\
  bactive (getb (exit_state s5 b) b) = false /\
  run_one s2 = (let '(s6, o) := exec t (kx (RExc ETimeout)) (exit_state s5 b) in
                finish_step t s6 o <| current := None |>).
Proof.
  intros tok R G Hd Hm Hk HF HB s3 s5.
  assert (R1 : run_one s2 = step_task t (Some tok) s3) by (apply (run_one_step s2 hn r t tok R G)).
  assert (D : delivered_exn s3 t tok = tok).
  { unfold delivered_exn. change (gett s3 t) with (gett s2 t). rewrite Hm. reflexivity. }
  assert (LX : lib_call t (OTimeoutExit b (RExc tok)) s5 = (exit_state s5 b, LDone (RExc ETimeout))).
  { rewrite timeout_exit_eq. unfold tok. rewrite (proj1 (exit_reply_level b)). reflexivity. }
  split; [exact R1|]. split; [exact D|]. split; [exact LX|]. split; [apply exit_state_facts|].
  rewrite R1. rewrite (step_throw_susp s3 t tok frs k Hd Hk), D, HF, HB.
  cbn [exec]. fold s5. rewrite LX. reflexivity.
Qed.

Theorem fires_and_raises_gen qok (QS : QSpec qok) (QN : QNext qok) c fuel s b i s1 v frs k kx
        (fr bd : st -> st) :
  InvC qok c s -> bactive (getb s b) = true -> i < 3 ->
  let t := btask (getb s b) in
  let tok := ETimeoutInt b in
  let hn := length (handles s) in
  task_throw s t tok = (s1, RVal v) ->
  tmustc (gett s t) = false -> tcont_ (gett s t) = TSusp frs k ->
  (forall s0, resume_stack t frs (RExc tok) s0 = (fr s0, LDone (RExc tok))) ->
  (forall s0, exec t (k (RExc tok)) s0 = exec t (Call (OTimeoutExit b (RExc tok)) kx) (bd s0)) ->
  exists sI r'',
    let s3 := sI <| ready := r'' |> in
    let s5 := bd (fr (running_state s3 t)) in
    interruptor (S fuel) s b i = (sI, LSusp YNone [InSleep0; InIntr b i 0]) /\
    InvC qok c sI /\
    rq_popleft (ready sI) = Some (hn, r'') /\ geth sI hn = mkH (HStep t (Some tok)) false /\
    run_one sI = step_task t (Some tok) s3 /\
    delivered_exn s3 t tok = tok /\
    lib_call t (OTimeoutExit b (RExc tok)) s5 = (exit_state s5 b, LDone (RExc ETimeout)) /\
    bactive (getb (exit_state s5 b) b) = false /\
    run_one sI = (let '(s6, o) := exec t (kx (RExc ETimeout)) (exit_state s5 b) in
                  finish_step t s6 o <| current := None |>).
Proof.
  intros I A Hi t tok hn E Hm Hk HF HB.
  destruct (interrupt_dichotomy qok QS c s 0 t tok I) as [(k0 & E0 & _)|(s1' & sI & _ & L)]; [congruence|].
  destruct (interrupt_next qok QS QN c s 0 t tok sI I L)
    as (s1'' & v' & r' & r'' & E' & Es & _ & _ & I' & G & _ & _ & Pp & _ & _ & Hd & _).
  fold hn in Es, G, Pp. rewrite E in E'. inversion E'; subst s1'' v'; clear E'.
  destruct (throw_accepted_target s t tok s1 v E) as (_ & _ & _ & Gt).
  assert (Gs : gett sI t = gett s t <| twaiter := None |>).
  { rewrite Es. change (gett (s1 <| ready := rq_insert_pos r' 0 hn |>) t) with (gett s1 t). exact Gt. }
  destruct (token_step_raises_gen sI b t hn r'' frs k kx fr bd) as (P1 & P2 & P3 & P4 & P5); auto.
  - rewrite Gs. exact Hm.
  - rewrite Gs. exact Hk.
  - exists sI, r''. cbv zeta. split.
    { rewrite interruptor_throws_only_if_active by exact Hi. rewrite A. fold t tok.
      rewrite <- (interrupt_call_eq 0 t tok s), L. reflexivity. }
    split; [exact I'|]. split; [exact Pp|]. split; [exact G|].
    repeat (split; [assumption|]). exact P5.
Qed.
