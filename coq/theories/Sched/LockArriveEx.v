(* C13, fifth round: the hypotheses of LockArrive.served_equal_derived are satisfiable - the run
   f_s of Sched/LockRoundsEx.v (H + W1, W2, W3 of equal priority 5, W2 cancelled while queued). *)
From Coq Require Import QArith.
From Asynkit Require Import Base.Prelude Queue.PQ Sched.Model Sched.LockInv Sched.LockLive Sched.LockProgress
  Sched.NoOvertakeThms Sched.LockRounds Sched.LockFifo Sched.LockRoundsEx.
From Asynkit Require Sched.LockArrive.
Open Scope nat_scope.

Lemma f_AI : LockArrive.AI 0 f_s.
Proof. apply LockArrive.AIb_ok. vm_compute. reflexivity. Qed.

Example f_served_equal_derived :
  exists n t, n < bound 1 2 2 /\ (forall j, j <= n -> In 6 (objs (steps j f_s) 0)) /\
              turn (steps n f_s) 0 6 t.
Proof.
  exact (LockArrive.served_equal_derived 1 2 0 6 2 f_s f_reach f_kind f_in f_quiet f_rbound f_rel f_nocb f_AI
           (fun k Hk => proj1 (f_fifo k Hk))
           (fun k Hk => proj1 (proj2 (proj2 (f_fifo k (Nat.lt_le_incl _ _ Hk))))) f_r).
Qed.

(* the derived facts on that run: arrival numbers in creation order in all 12 states *)
Example f_arrival_ids : forall k, k <= 11 -> arrival_ids (steps k f_s) 0.
Proof. exact (LockArrive.arrival_ids_run 0 11 f_s f_reach f_quiet f_AI). Qed.
