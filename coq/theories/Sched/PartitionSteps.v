(* C09: Inv09 is preserved by library calls, frame resumption, user code (exec),
   task steps, run_one and every environment action. *)
From Coq Require Import QArith Sorting.Permutation.
From RecordUpdate Require Import RecordUpdate.
From Asynkit Require Import Base.Prelude Queue.ListFacts Queue.PQ Queue.PosPQ Queue.Exec
     Queue.HeapqProofs Sched.Model Sched.PartTables Sched.PartitionProofs.
Import RecordSetNotations.
Open Scope nat_scope.

Ltac keq L := first [eapply L; [eassumption|eassumption|] | eapply L; [eassumption|]].
Ltac kap L := first [apply L; [eassumption|] | apply L].
Ltac kprim ::=
  first
    [ keq K_new_future_eq | keq K_task_cancel | keq K_cancel_task | keq K_cancel_awaitable
    | keq K_task_reinsert
    | apply K_call_pos_nt; [eassumption|reflexivity|]
    | kap K_task_reschedule | kap K_propagate_priority | kap K_queue_iterated
    | keq K_release | keq K_acquire_start | keq K_take_lock | keq K_cond_p_after
    | kap K_notify_p | kap K_notify_i
    | keq K_task_throw | keq K_fut_result | keq K_await_fut | keq K_reacquire
    | keq K_acquire_p_finish | keq K_acquire_a_finish ].

Ltac ksplit E := repeat case_in E; inversion E; subst; clear E.
Ltac kfin :=
  split; [kgo | first [exact Logic.I | apply nosleep_ok; repeat constructor; discriminate]].

Section Steps.
Variable qok : rq -> Prop.
Hypothesis QS : QSpec qok.
Notation WF := (WF qok).
Notation InvC := (InvC qok).
Notation K := (K qok).

Lemma K_event_set_fold c s0 : forall ws s,
  K c s0 s ->
  K c s0 (fold_left (fun s f => if fdone s f then s else fst (fut_finish s f (FResult 1))) ws s).
Proof.
  induction ws as [|f ws IH]; intros s HK; simpl; auto. apply IH. kgo.
Qed.

Lemma nontask_same s s' h : handles s' = handles s -> nontask s h -> nontask s' h.
Proof. apply nontask_eq. Qed.

Lemma lib_call_K c t op s s' r :
  lib_call t op s = (s', r) -> op_ok (length (blocks s)) op -> InvC c s ->
  K c s s' /\ lres_ok s' r.
Proof.
  intros E Hop I. pose proof (K_refl qok c s I) as HK.
  destruct op; cbn [lib_call] in E.
  - (* OLog *) ksplit E; kfin.
  - (* OSleep0 *) ksplit E; kfin.
  - (* OSleep *)
    destruct (new_future s None) as [s1 f] eqn:N.
    pose proof (K_new_future_eq qok c s s None s1 f N HK) as HK1.
    destruct (call_at s1 (now s1 + d)%Q (HSetResult f 0)) as [s2 h] eqn:A.
    destruct (call_at_facts qok c s s1 (now s1 + d)%Q (HSetResult f 0) eq_refl HK1)
      as (HK2 & Eh & Hnt).
    rewrite A in HK2, Eh, Hnt. simpl in HK2, Eh, Hnt. inversion E; subst; clear E.
    split; [kgo|]. simpl. constructor; [exact Logic.I|]. constructor; [|constructor].
    simpl. eapply nontask_same; [|exact Hnt]. reflexivity.
  - (* ONewFut *) ksplit E; kfin.
  - (* OAwaitFut *)
    split; [eapply K_await_fut; eauto|].
    unfold await_fut in E. ksplit E; first [exact Logic.I | apply nosleep_ok; repeat constructor; discriminate].
  - (* OAwaitTask *)
    split; [eapply K_await_fut; eauto|].
    unfold await_fut in E. ksplit E; first [exact Logic.I | apply nosleep_ok; repeat constructor; discriminate].
  - ksplit E; kfin.
  - ksplit E; kfin.
  - ksplit E; kfin.
  - (* OCancel *) ksplit E; kfin.
  - (* OEventWait *) ksplit E; kfin.
  - (* OEventSet *) ksplit E; split; try exact Logic.I; auto. apply K_event_set_fold. kgo.
  - ksplit E; kfin.
  - (* OAcquire *)
    split; [eapply K_acquire_start; eauto|]. apply lres_ok_triv. intros y frs ->.
    eapply acquire_start_frames; eauto.
  - (* ORelease *) ksplit E; kfin.
  - (* OCondWait *) ksplit E; kfin.
  - (* OCondNotify *) ksplit E; kfin.
  - ksplit E; kfin.
  - (* OSleepInsert *) ksplit E; kfin.
  - (* OTaskSwitch *) ksplit E; kfin.
  - ksplit E; kfin.
  - ksplit E; kfin.
  - ksplit E; kfin.
  - (* OTaskThrow *) ksplit E; kfin.
  - (* OTaskInterrupt *)
    destruct (K_task_interrupt_start qok QS _ _ _ _ _ _ _ E HK) as [HK1 Hf]. split; auto.
    apply lres_ok_triv. intros y frs ->. eapply Hf; eauto.
  - (* OTimeoutEnter *)
    destruct d as [d|]; [|ksplit E; kfin].
    destruct (call_at s (now s + d)%Q (HTrigger (length (blocks s)))) as [s1 h] eqn:A.
    destruct (call_at_facts qok c s s (now s + d)%Q (HTrigger (length (blocks s))) eq_refl HK)
      as (HK2 & Eh & Hnt).
    rewrite A in HK2, Eh, Hnt. simpl in HK2, Eh, Hnt. inversion E; subst; clear E.
    split; [|exact Logic.I]. apply K_blocks_app; auto.
  - (* OTimeoutExit *)
    simpl in Hop. inversion E; subst; clear E. split; [|exact Logic.I].
    apply K_cancel_handle.
    + eapply nontask_same; [|apply (i_blk (i_wf I)); exact Hop]. reflexivity.
    + apply K_setb; auto.
  - (* OInterruptor *)
    destruct (interruptor 4 s b 0) as [s1 r1] eqn:N.
    destruct (K_interruptor qok QS c s 4 s b 0 s1 r1 N HK) as [HK1 Hf].
    destruct (interruptor_wrap_eq _ _ _ _ E) as [-> Hr]. split; auto.
    apply lres_ok_triv. intros y frs Hq. eapply Hf. eapply Hr. eauto.
  - ksplit E; kfin.
  - ksplit E; kfin.
  - ksplit E; kfin.
  - ksplit E; kfin.
  - ksplit E; kfin.
  - ksplit E; kfin.
Qed.

Lemma lib_call_kont n t op k s s' r :
  coro_ok n (Call op k) -> n <= length (blocks s) -> lib_call t op s = (s', r) ->
  length (blocks s) <= length (blocks s') ->
  match r with
  | LDone rep => coro_ok (length (blocks s')) (k rep)
  | LSusp _ _ => kont_ok (length (blocks s')) k
  end.
Proof.
  intros [Hop Hk] Hn E Hle.
  assert (G : (forall m rep, n <= m -> coro_ok m (k rep)) ->
              match r with
              | LDone rep => coro_ok (length (blocks s')) (k rep)
              | LSusp _ _ => kont_ok (length (blocks s')) k end).
  { intros H. destruct r; [apply H; lia|]. intros m rep Hm. apply H. lia. }
  destruct op; try (apply G; exact Hk).
  destruct d as [d|]; [|apply G; exact Hk].
  cbn [lib_call] in E.
  destruct (call_at s (now s + d)%Q (HTrigger (length (blocks s)))) as [s1 h] eqn:A.
  inversion E; subst; clear E. cbn.
  assert (Eb : blocks s1 = blocks s) by (unfold call_at in A; inversion A; reflexivity).
  rewrite Eb, app_length. simpl. replace (length (blocks s) + 1) with (S (length (blocks s))) by lia.
  apply Hk. exact Hn.
Qed.

Lemma frame_resume_K c t fr inp s s' r :
  frame_resume t fr inp s = (s', r) -> frame_ok s fr -> InvC c s ->
  K c s s' /\ (forall y frs, r = LSusp y frs -> nosleep frs).
Proof.
  intros E Hfr I. pose proof (K_refl qok c s I) as HK.
  destruct fr; cbn [frame_resume] in E.
  - ksplit E; (split; [kgo|discriminate]).
  - ksplit E; (split; [kgo|discriminate]).
  - inversion E; subst. split; [|discriminate]. apply K_cancel_handle; auto.
  - ksplit E; (split; [kgo|discriminate]).
  - ksplit E; (split; [kgo|discriminate]).
  - ksplit E; (split; [kgo|discriminate]).
  - (* InCondWaitP *)
    set (s1 := match pq_remove HQ (cpq (getc s c0)) (Z.of_nat f) with
               | Some (_, q') => setc s c0 (getc s c0 <| cpq := q' |>) | None => s end) in *.
    assert (HK1 : K c s s1) by (unfold s1; kgo).
    destruct (reacquire s1 t c0 true None _) as [s2 r2] eqn:R.
    pose proof (K_reacquire qok QS _ _ _ _ _ _ _ _ _ _ R HK1) as HK2.
    pose proof (reacquire_frames _ _ _ _ _ _ _ _ R) as Hf.
    destruct r2 as [rep|y frs].
    + destruct (cond_p_after s2 c0 rep) as [s3 r3] eqn:C. inversion E; subst.
      split; [eapply K_cond_p_after; eauto|discriminate].
    + inversion E; subst. split; auto.
  - (* InReleasedP *)
    destruct inp as [v|e].
    + destruct (cond_p_after s c0 _) as [s3 r3] eqn:C. inversion E; subst.
      split; [eapply K_cond_p_after; eauto|discriminate].
    + destruct (is_cancel e).
      * destruct (reacquire s t c0 true (Some e) body) as [s2 r2] eqn:R.
        pose proof (K_reacquire qok QS _ _ _ _ _ _ _ _ _ _ R HK) as HK2.
        pose proof (reacquire_frames _ _ _ _ _ _ _ _ R) as Hf.
        destruct r2 as [rep|y frs].
        { destruct (cond_p_after s2 c0 rep) as [s3 r3] eqn:C. inversion E; subst.
          split; [eapply K_cond_p_after; eauto|discriminate]. }
        { inversion E; subst. split; auto. }
      * destruct (cond_p_after s c0 (RExc e)) as [s3 r3] eqn:C. inversion E; subst.
        split; [eapply K_cond_p_after; eauto|discriminate].
  - (* InCondWaitI *)
    split; [eapply K_reacquire; [exact QS|exact E|]; kgo|]. eapply reacquire_frames; eauto.
  - (* InReacquireI *)
    destruct inp as [v|e]; [inversion E; subst; split; [auto|discriminate]|].
    destruct (is_cancel e); [|inversion E; subst; split; [auto|discriminate]].
    split; [eapply K_reacquire; eauto|]. eapply reacquire_frames; eauto.
  - (* InIntr *)
    destruct inp as [v|e].
    + destruct (interruptor 4 s b (S i)) as [s1 r1] eqn:N.
      destruct (K_interruptor qok QS c s 4 s b (S i) s1 r1 N HK) as [HK1 Hf].
      destruct (interruptor_wrap_eq _ _ _ _ E) as [-> Hr]. split; auto.
      intros y frs Hq. eapply Hf. eapply Hr. eauto.
    + destruct (_ && _).
      * destruct (interruptor_wrap_eq _ _ _ _ E) as [-> Hr]. split; auto.
        intros y frs Hq. specialize (Hr _ _ Hq). inversion Hr. repeat constructor; discriminate.
      * destruct (interruptor_wrap_eq _ _ _ _ E) as [-> Hr]. split; auto.
        intros y frs Hq. specialize (Hr _ _ Hq). discriminate.
Qed.

Lemma resume_stack_K c t : forall frs inp s s' r,
  resume_stack t frs inp s = (s', r) -> Forall (frame_ok s) frs -> InvC c s ->
  K c s s' /\ lres_ok s' r.
Proof.
  induction frs as [|fr rest IH]; intros inp s s' r E Hf I; cbn [resume_stack] in E.
  - inversion E; subst. split; [apply K_refl; auto|exact Logic.I].
  - inversion Hf as [|? ? Hfr Hrest]; subst.
    destruct (frame_resume t fr inp s) as [s1 r1] eqn:F.
    destruct (frame_resume_K c t fr inp s s1 r1 F Hfr I) as [HK1 Hn1].
    destruct r1 as [rep|y frs'].
    + destruct (IH rep s1 s' r E) as [HK2 Hl2].
      * eapply frames_ok_ext; [apply HK1|exact Hrest].
      * apply HK1.
      * split; auto. eapply K_trans; eauto.
    + inversion E; subst. split; auto. simpl. apply Forall_app. split.
      * apply nosleep_ok. eapply Hn1; eauto.
      * eapply frames_ok_ext; [apply HK1|exact Hrest].
Qed.

(* ------------------------------------------------------------ creating a task *)
Definition add_task (s : st) (kind : tkind) (p : option Q) (k0 : tcont) : st :=
  let t := length (tasks s) in
  let s1 := fst (new_future s (Some t)) in
  call_soon_ (s1 <| tasks := tasks s1 ++ [mkTask kind p (length (futs s)) k0 None false [] None] |>)
             (HStep t None).

Lemma new_task_add s kind p c0 : new_task s kind p c0 = (add_task s kind p (TNew c0), length (tasks s)).
Proof. reflexivity. Qed.

Lemma add_task_K c s kind p k0 :
  InvC c s -> tcont_ok s k0 -> K c s (add_task s kind p k0).
Proof.
  intros I Hk. set (tn := length (tasks s)). set (f := length (futs s)).
  pose proof (K_new_future qok c s s (Some tn) (K_refl qok c s I)) as [I1 E1].
  set (s1 := fst (new_future s (Some tn))) in *.
  destruct (new_future_pending s (Some tn)) as (Lf & Pf & Cf & _). fold s1 in Lf, Pf, Cf. fold f in Lf, Pf, Cf.
  set (tk := mkTask kind p f k0 None false [] None).
  set (s2 := s1 <| tasks := tasks s1 ++ [tk] |>).
  assert (Et1 : tasks s1 = tasks s) by reflexivity.
  assert (G2 : forall t', t' < tn -> gett s2 t' = gett s t').
  { intros t' Ht'. unfold gett, s2; cbn. rewrite app_nth1 by auto. reflexivity. }
  assert (G2n : gett s2 tn = tk).
  { unfold gett, s2; cbn. rewrite app_nth2 by (unfold tn; lia). unfold tn. rewrite Nat.sub_diag. reflexivity. }
  assert (L2 : length (tasks s2) = S tn).
  { unfold s2; cbn. rewrite app_length; simpl. unfold tn. lia. }
  assert (W2 : WF s2).
  { destruct (i_wf I1) as [W1 W2 W3 W4 W5 W6 W7].
    constructor; [exact W1|exact W2|exact W3| |exact W5|exact W6|].
    - intros t' Ht'. rewrite L2 in Ht'. change (futs s2) with (futs s1). rewrite Lf.
      destruct (Nat.eq_dec t' tn) as [->|Hn].
      + rewrite G2n. simpl. unfold f. lia.
      + rewrite G2 by lia. pose proof (i_tfut (i_wf I) t' ltac:(fold tn; lia)). fold f. lia.
    - intros t' Ht'. rewrite L2 in Ht'. destruct (Nat.eq_dec t' tn) as [->|Hn].
      + rewrite G2n. simpl. eapply tcont_ok_eq; [| |exact Hk]; reflexivity.
      + rewrite G2 by lia. eapply tcont_ok_eq; [| |apply (i_frm (i_wf I)); fold tn; lia]; reflexivity. }
  destruct (call_soon_facts qok QS s2 (HStep tn None) W2) as (W3 & E3 & Eh3 & Hc3).
  set (s3 := call_soon_ s2 (HStep tn None)) in *.
  assert (Hk3 : forall t', cb_key t' (HStep tn None) = Nat.eqb t' tn) by reflexivity.
  assert (Fd : forall g, fdone s3 g = fdone s g).
  { intros g. change (fdone s3 g) with (fdone s1 g). unfold fdone, s1.
    destruct (getf_new_future s (Some tn) g) as [-> _]. reflexivity. }
  assert (Cc : forall t' g, ccnt s3 t' g = ccnt s t' g).
  { intros t' g. change (ccnt s3 t' g) with (ccnt s1 t' g). unfold ccnt, s1.
    destruct (getf_new_future s (Some tn) g) as [_ ->]. reflexivity. }
  assert (Hh : forall t', hcnt s3 t' = hcnt s t' + (if Nat.eqb t' tn then 1 else 0)).
  { intros t'. rewrite Hc3, Hk3. reflexivity. }
  destruct (i_oor I tn (Nat.le_refl _)) as [On1 On2].
  change (K c s s3). split.
  - constructor; auto.
    + intros t' Hc. change (length (tasks s3)) with (length (tasks s2)). rewrite L2.
      pose proof (i_cur I t' Hc). fold tn in H. lia.
    + change (length (tasks s3)) with (length (tasks s2)). rewrite L2. intros t' Ht' Hd.
      destruct (Nat.eq_dec t' tn) as [->|Hn].
      * unfold cls. assert (Hc : is_cur c tn = false).
        { destruct c as [c'|]; simpl; auto. apply Nat.eqb_neq. pose proof (i_cur I c' eq_refl).
          fold tn in H. lia. }
        rewrite Hc. unfold RB, bo. change (gett s3 tn) with (gett s2 tn). rewrite G2n. simpl.
        split; [rewrite Hh, On1, Nat.eqb_refl; reflexivity|].
        intros g Hg. rewrite Cc. apply On2. rewrite <- Fd. exact Hg.
      * assert (Ht0 : t' < tn) by lia.
        assert (Eg : gett s3 t' = gett s t') by (change (gett s3 t') with (gett s2 t'); auto).
        apply (cls_congr c s s3 t').
        { rewrite Hh. destruct (Nat.eqb_spec t' tn); [congruence|lia]. }
        { exact Fd. } { intros; apply Cc. } { rewrite Eg; reflexivity. }
        apply (i_cls I); auto. unfold tdone in *. rewrite Eg, Fd in Hd. exact Hd.
    + change (length (tasks s3)) with (length (tasks s2)). rewrite L2. intros t' Ht'.
      destruct (i_oor I t' ltac:(fold tn; lia)) as [O1 O2]. split.
      * rewrite Hh, O1. destruct (Nat.eqb_spec t' tn); [lia|reflexivity].
      * intros g Hg. rewrite Cc. apply O2. rewrite <- Fd. exact Hg.
  - constructor.
    + change (handles s3) with (handles s ++ [mkH (HStep tn None) false]). rewrite app_length. lia.
    + intros h Hh'. unfold geth. change (handles s3) with (handles s ++ [mkH (HStep tn None) false]).
      rewrite app_nth1 by auto. reflexivity.
    + apply Nat.le_refl.
    + change (length (tasks s3)) with (length (tasks s2)). rewrite L2. fold tn. lia.
    + reflexivity.
Qed.

(* ------------------------------------------------------------ user code *)
Definition outcome_ok (s : st) (o : outcome) : Prop :=
  match o with
  | ODone _ => True
  | OYield _ frs k => Forall (frame_ok s) frs /\ kont_ok (length (blocks s)) k
  end.

Lemma kont_wrap n (k : reply -> coro) t' :
  kont_ok n k ->
  kont_ok n (fun r => match r with RVal _ => k (RVal (Z.of_nat t')) | RExc e => k (RExc e) end).
Proof. intros H m rep Hm. destruct rep; apply H; auto. Qed.

Lemma spawn_task_K c s how c0 s' t' :
  spawn_task s how c0 = (s', t') -> InvC c s -> coro_ok (length (blocks s)) c0 -> K c s s'.
Proof.
  intros E I Hc. unfold spawn_task in E.
  destruct how; rewrite new_task_add in E; inversion E; subst; apply add_task_K; auto.
Qed.

Lemma exec_K c t : forall c0 s s' o,
  exec t c0 s = (s', o) -> coro_ok (length (blocks s)) c0 -> InvC c s ->
  K c s s' /\ outcome_ok s' o.
Proof.
  induction c0 as [v|e|op k IH|how child IHc k IHk]; intros s s' o E Hok I.
  - inversion E; subst. split; [apply K_refl; auto|exact Logic.I].
  - inversion E; subst. split; [apply K_refl; auto|exact Logic.I].
  - cbn [exec] in E. destruct (lib_call t op s) as [s1 r] eqn:L.
    destruct (lib_call_K c t op s s1 r L (proj1 Hok) I) as [HK1 Hl1].
    pose proof (lib_call_kont _ t op k s s1 r Hok (Nat.le_refl _) L (e_blen (proj2 HK1))) as Hk1.
    destruct r as [rep|y frs].
    + destruct (IH rep s1 s' o E Hk1 (proj1 HK1)) as [HK2 Ho]. split; auto. eapply K_trans; eauto.
    + inversion E; subst. split; auto. split; auto.
  - destruct Hok as [Hchild Hk].
    assert (Hk' : forall s2, K c s s2 -> kont_ok (length (blocks s2)) k).
    { intros s2 H2. intros m rep Hm. apply Hk. pose proof (e_blen (proj2 H2)). lia. }
    destruct how.
    1,2,3: (cbn [exec] in E; destruct (spawn_task s _ child) as [s1 t'] eqn:S;
            pose proof (spawn_task_K c s _ child s1 t' S I Hchild) as HK1;
            destruct (IHk (RVal (Z.of_nat t')) s1 s' o E) as [HK2 Ho];
            [apply (Hk' s1 HK1); lia|apply HK1|split; auto; eapply K_trans; eauto]).
    + (* SDescend *)
      cbn [exec] in E. destruct (spawn_task s SDescend child) as [s1 t'] eqn:S.
      pose proof (spawn_task_K c s _ child s1 t' S I Hchild) as HK1.
      destruct (lib_call t (OTaskSwitch t' (Some 1)) s1) as [s2 r] eqn:L.
      destruct (lib_call_K c t _ s1 s2 r L Logic.I (proj1 HK1)) as [HK2 Hl2].
      pose proof (K_trans qok c s s1 s2 HK1 HK2) as HK12.
      destruct r as [[v|e]|y frs].
      * destruct (IHk (RVal (Z.of_nat t')) s2 s' o E) as [HK3 Ho];
          [apply (Hk' s2 HK12); lia|apply HK2|split; auto; eapply K_trans; eauto].
      * destruct (IHk (RExc e) s2 s' o E) as [HK3 Ho];
          [apply (Hk' s2 HK12); lia|apply HK2|split; auto; eapply K_trans; eauto].
      * inversion E; subst. split; auto. split; auto. apply kont_wrap. apply Hk'; auto.
    + (* SStart *)
      cbn [exec] in E. destruct (spawn_task s SStart child) as [s1 t'] eqn:S.
      pose proof (spawn_task_K c s _ child s1 t' S I Hchild) as HK1.
      inversion E; subst. split; auto. split; [repeat constructor|].
      apply kont_wrap. apply Hk'; auto.
    + (* SEager *)
      cbn [exec] in E. destruct (exec t child s) as [s1 o1] eqn:X.
      destruct (IHc s s1 o1 X Hchild I) as [HK1 Ho1].
      destruct o1 as [r|y frs kc].
      * destruct (new_future s1 None) as [s2 f] eqn:N.
        assert (HK2 : K c s (fst (fut_finish s2 f match r with RVal v => FResult v | RExc e => FExc e end))).
        { apply K_fut_finish_fst; [exact QS|destruct r; discriminate|].
          eapply K_new_future_eq; eauto. }
        destruct (IHk (RVal (Z.of_nat f)) _ s' o E) as [HK3 Ho];
          [apply (Hk' _ HK2); lia|apply HK2|split; auto; eapply K_trans; eauto].
      * set (s2 := match y with YFut f => setf s1 f (getf s1 f <| fblock := false |>) | YNone => s1 end) in *.
        assert (HK2 : K c s s2) by (unfold s2; kgo).
        destruct Ho1 as [Hf1 Hkc].
        assert (Hk0 : tcont_ok s2 (TEager y frs kc)).
        { simpl. split.
          - eapply frames_ok_ext; [|exact Hf1]. unfold s2. destruct y; [apply ext_refl|].
            eapply ext_same; [..|apply ext_refl]; reflexivity.
          - replace (length (blocks s2)) with (length (blocks s1)); auto.
            unfold s2; destruct y; reflexivity. }
        pose proof (add_task_K c s2 KC None (TEager y frs kc) (proj1 HK2) Hk0) as HK3.
        pose proof (K_trans qok c s s2 _ HK2 HK3) as HK23.
        change (exec t (k (RVal (Z.of_nat (length (futs s2))))) (add_task s2 KC None (TEager y frs kc))
                = (s', o)) in E.
        destruct (IHk _ _ s' o E) as [HK4 Ho];
          [apply (Hk' _ HK23); lia|apply HK3|split; auto; eapply K_trans; eauto].
Qed.

(* ------------------------------------------------------------ the end of a step *)
Lemma fold_call_soon_tables f cbs : forall u,
  let s' := fold_left (fun s c => call_soon_ s (cb_callback f c)) cbs u in
  tasks s' = tasks u /\ futs s' = futs u.
Proof. induction cbs as [|x cbs IH]; intros u; simpl; auto. destruct (IH (call_soon_ u (cb_callback f x))); auto. Qed.

Lemma fut_finish_tasks s f x : tasks (fst (fut_finish s f x)) = tasks s.
Proof.
  unfold fut_finish. destruct (fstate_ (getf s f)); auto. simpl. unfold schedule_callbacks.
  match goal with |- tasks (fold_left ?F ?l ?u) = _ => destruct (fold_call_soon_tables f l u) as [-> _] end.
  reflexivity.
Qed.

Lemma fut_finish_fdone s f x : f < length (futs s) -> x <> FPending -> fdone (fst (fut_finish s f x)) f = true.
Proof.
  intros Hf Hx. unfold fut_finish. destruct (fstate_ (getf s f)) eqn:Es;
    try (simpl; unfold fdone; rewrite Es; reflexivity).
  simpl. unfold schedule_callbacks.
  set (s1 := setf s f (getf s f <| fstate_ := x |>)).
  set (u := setf s1 f (getf s1 f <| fcbs := [] |>)).
  set (cbs := fcbs (getf s1 f)).
  assert (H : fdone (fold_left (fun s c => call_soon_ s (cb_callback f c)) cbs u) f = fdone u f).
  { unfold fdone, getf. destruct (fold_call_soon_tables f cbs u) as [_ ->]. reflexivity. }
  rewrite H. unfold fdone, u. rewrite getf_setf_same by (unfold s1; rewrite length_futs_setf; auto).
  change (fstate_ (getf s1 f <| fcbs := [] |>)) with (fstate_ (getf s1 f)).
  unfold s1. rewrite getf_setf_same by auto.
  change (fstate_ (getf s f <| fstate_ := x |>)) with x. destruct x; auto; congruence.
Qed.

Lemma is_cur_some_other t t' : t' <> t -> is_cur (Some t) t' = false.
Proof. intros H. simpl. apply Nat.eqb_neq. auto. Qed.

Lemma InvC_uncur t s : InvC (Some t) s -> (tdone s t = false -> RB s t) -> InvC None s.
Proof.
  intros I H. pose proof (i_cur I t eq_refl) as Ht.
  eapply (InvC_obs_but qok (Some t) None s s t I (i_wf I)); auto.
  - discriminate.
  - intros t' Hn. rewrite is_cur_some_other; auto.
  - intros; lia.
Qed.

Lemma InvC_cur_quiet t s :
  InvC (Some t) s -> tdone s t = false -> quiet s t.
Proof.
  intros I Hd. pose proof (i_cls I t (i_cur I t eq_refl) Hd) as C. unfold cls in C. simpl in C.
  rewrite Nat.eqb_refl in C. exact C.
Qed.

(* the task's step ends by re-scheduling the task itself *)
Lemma finish_resched t s frs k hc :
  InvC (Some t) s -> task_of_cb hc = Some t -> Forall (frame_ok s) frs -> kont_ok (length (blocks s)) k ->
  InvC None (call_soon_ (sett s t (gett s t <| tcont_ := TSusp frs k |>)) hc).
Proof.
  intros I Hhc Hf Hk. pose proof (i_cur I t eq_refl) as Ht.
  set (x := gett s t <| tcont_ := TSusp frs k |>).
  apply (attach_step qok QS (Some t) None s s t hc I (i_wf I) Hhc Ht eq_refl); auto.
  - discriminate.
  - intros t' Hn. rewrite is_cur_some_other; auto.
  - intros Hd. destruct (InvC_cur_quiet t s I Hd) as (Q1 & Q2 & Q3). auto.
  - split; auto.
  - intros Hd. destruct (InvC_cur_quiet t s I Hd) as (Q1 & Q2 & Q3). unfold bo in Q3.
    change (twaiter x) with (twaiter (gett s t)). destruct (twaiter (gett s t)); auto.
    destruct (fdone s n); auto; discriminate.
Qed.

Lemma tail_cancel t s f :
  InvC None s ->
  InvC None (if tmustc (gett s t)
             then let '(s', ok) := cancel_awaitable s f in
                  if ok then sett s' t (gett s' t <| tmustc := false |>) else s'
             else s).
Proof.
  intros I. pose proof (K_refl qok None s I) as HK. destruct (tmustc (gett s t)); auto.
  destruct (cancel_awaitable s f) as [s' ok] eqn:C.
  pose proof (K_cancel_awaitable qok QS _ _ _ _ _ _ C HK) as HK1. destruct ok; [|apply HK1].
  assert (HK2 : K None s (sett s' t (gett s' t <| tmustc := false |>))) by kgo. apply HK2.
Qed.

Lemma finish_step_inv t s o :
  InvC (Some t) s -> outcome_ok s o -> InvC None (finish_step t s o).
Proof.
  intros I Ho. pose proof (i_cur I t eq_refl) as Ht. pose proof (K_refl qok (Some t) s I) as HK.
  pose proof (i_tfut (i_wf I) t Ht) as Htf.
  assert (Done : forall sA x, K (Some t) s sA -> tfut (gett sA t) = tfut (gett s t) ->
                              length (futs s) <= length (futs sA) -> x <> FPending ->
                              InvC None (fst (fut_finish sA (tfut (gett s t)) x))).
  { intros sA x HKA Etf Hl Hx.
    pose proof (K_fut_finish_fst qok QS _ _ sA (tfut (gett s t)) x Hx HKA) as [IF _].
    apply (InvC_uncur t); auto. intros Hd. exfalso.
    unfold tdone, gett in Hd. rewrite fut_finish_tasks in Hd. fold (gett sA t) in Hd.
    rewrite Etf, fut_finish_fdone in Hd; auto; try discriminate. lia. }
  unfold finish_step. destruct o as [[v|e]|[|f] frs k].
  - (* return *)
    destruct (tmustc (gett s t)).
    + apply Done; try discriminate.
      * kgo. apply K_sett; auto; exact Logic.I.
      * rewrite gett_sett_same by (rewrite length_tasks_sett; auto).
        change (tfut (gett (sett s t (gett s t <| tcont_ := TFin |>)) t) = tfut (gett s t)).
        rewrite gett_sett_same by auto. reflexivity.
      * reflexivity.
    + apply Done; try discriminate.
      * apply K_sett; auto; exact Logic.I.
      * rewrite gett_sett_same by auto. reflexivity.
      * reflexivity.
  - (* raise *)
    destruct (is_cancel e).
    + apply Done; try discriminate.
      * kgo. apply K_sett; auto; exact Logic.I.
      * change (tfut (gett (sett s t (gett s t <| tcont_ := TFin |>)) t) = tfut (gett s t)).
        rewrite gett_sett_same by auto. reflexivity.
      * rewrite length_futs_setf. reflexivity.
    + apply Done; try discriminate.
      * apply K_sett; auto; exact Logic.I.
      * rewrite gett_sett_same by auto. reflexivity.
      * reflexivity.
  - (* bare yield *) destruct Ho. apply finish_resched; auto.
  - (* yielded a future *)
    destruct Ho as [Hf Hk].
    set (s1 := sett s t (gett s t <| tcont_ := TSusp frs k |>)).
    destruct (fblock (getf s1 f)) eqn:Fb; [|apply finish_resched; auto].
    destruct (f =? tfut (gett s t)); [apply finish_resched; auto|].
    assert (HK1 : K (Some t) s s1) by (unfold s1; apply K_sett; auto; split; auto).
    assert (Hfr : f < length (futs s)).
    { destruct (Nat.lt_ge_cases f (length (futs s))); auto.
      change (fblock (getf s f) = true) in Fb. rewrite getf_oob in Fb by auto. discriminate. }
    set (s2 := setf s1 f (getf s1 f <| fblock := false |>)).
    assert (HK2 : K (Some t) s s2) by (unfold s2; kgo).
    destruct HK2 as [I2 _].
    assert (Ht2 : t < length (tasks s2)) by (unfold s2, s1; change (t < length (tasks (sett s t (gett s t <| tcont_ := TSusp frs k |>)))); rewrite length_tasks_sett; auto).
    assert (Q2 : tdone s2 t = false -> quiet s2 t) by (apply InvC_cur_quiet; auto).
    apply tail_cancel.
    unfold add_done_callback. destruct (fdone s2 f) eqn:Fd.
    + (* already done: a wakeup handle *)
      destruct (call_soon_facts qok QS s2 (HWakeup t f) (i_wf I2)) as (W3 & E3 & Eh3 & Hc3).
      set (s3 := call_soon_ s2 (HWakeup t f)) in *.
      set (s4 := sett s3 t (gett s3 t <| twaiter := Some f |>)).
      assert (W4 : WF s4).
      { eapply WF_obs; [exact W3|..]; try reflexivity; auto.
        - apply W3.
        - apply length_tasks_sett.
        - intros t' Ht'. unfold s4. rewrite gett_sett. destruct (_ && _) eqn:B; auto.
          apply andb_prop in B. destruct B as [B _]. apply Nat.eqb_eq in B. subst. reflexivity.
        - intros t' Ht'. unfold s4. rewrite gett_sett. destruct (_ && _) eqn:B; [|apply W3; auto].
          apply andb_prop in B. destruct B as [B _]. apply Nat.eqb_eq in B. subst.
          apply (i_frm W3); auto. }
      apply (InvC_obs_but qok (Some t) None s2 s4 t I2 W4).
      * unfold s4. rewrite length_tasks_sett. reflexivity.
      * discriminate.
      * intros t' Hn. rewrite is_cur_some_other; auto.
      * intros t' Hn. change (hcnt s4 t') with (hcnt s3 t'). rewrite Hc3. unfold cb_key. simpl.
        destruct (Nat.eqb_spec t' t); [congruence|lia].
      * reflexivity.
      * reflexivity.
      * intros t' Hn Ht'. unfold s4. rewrite gett_sett_other by auto. split; reflexivity.
      * intros _ Hd.
        assert (Hd2 : tdone s2 t = false).
        { unfold tdone in *. unfold s4 in Hd. rewrite gett_sett_same in Hd by exact Ht2. exact Hd. }
        destruct (Q2 Hd2) as (A1 & A2 & A3). change (RB s4 t).
        assert (Eb : bo s4 t = None).
        { unfold bo. unfold s4 at 1. rewrite gett_sett_same by exact Ht2.
          change (twaiter (gett s3 t <| twaiter := Some f |>)) with (Some f). cbv beta iota.
          change (fdone s4 f) with (fdone s2 f). rewrite Fd. reflexivity. }
        unfold RB. rewrite Eb. split.
        { change (hcnt s4 t) with (hcnt s3 t). rewrite Hc3, A1. unfold cb_key. simpl.
          rewrite Nat.eqb_refl. reflexivity. }
        { intros g Hg. apply (A2 g Hg). }
      * intros Hle. lia.
    + (* pending: register the wakeup callback *)
      assert (Hf2 : f < length (futs s2)).
      { unfold s2. rewrite length_futs_setf. unfold s1. exact Hfr. }
      set (s3 := setf s2 f (getf s2 f <| fcbs := fcbs (getf s2 f) ++ [CbWakeup t] |>)).
      set (s4 := sett s3 t (gett s3 t <| twaiter := Some f |>)).
      assert (Fs : forall g, fdone s4 g = fdone s2 g).
      { intros g. change (fdone s4 g) with (fdone s3 g). unfold fdone, s3. rewrite getf_setf.
        destruct (_ && _) eqn:B; auto. apply andb_prop in B. destruct B as [B _].
        apply Nat.eqb_eq in B. subst. reflexivity. }
      assert (Cs : forall t' g, ccnt s4 t' g = ccnt s2 t' g +
                                 (if Nat.eqb g f && Nat.eqb t' t then 1 else 0)).
      { intros t' g. change (ccnt s4 t' g) with (ccnt s3 t' g). unfold ccnt, s3.
        destruct (Nat.eq_dec g f) as [->|Hn].
        - rewrite getf_setf_same by exact Hf2.
          change (fcbs (getf s2 f <| fcbs := fcbs (getf s2 f) ++ [CbWakeup t] |>))
            with (fcbs (getf s2 f) ++ [CbWakeup t]).
          rewrite cnt_app, cnt_cons, cnt_nil, Nat.eqb_refl.
          unfold is_wakeup at 2. cbn [cb_eqb andb]. rewrite (Nat.eqb_sym t t'). lia.
        - rewrite getf_setf_other by auto. destruct (Nat.eqb_spec g f); [congruence|].
          cbn [andb]. lia. }
      assert (W4 : WF s4).
      { eapply WF_obs; [exact (i_wf I2)|..]; try reflexivity; auto.
        - apply (i_wf I2).
        - unfold s4. rewrite length_tasks_sett. reflexivity.
        - unfold s4, s3. change (length (futs s2) <= length (futs (setf s2 f (getf s2 f <| fcbs := fcbs (getf s2 f) ++ [CbWakeup t] |>)))).
          rewrite length_futs_setf. lia.
        - intros t' Ht'. unfold s4. rewrite gett_sett. destruct (_ && _) eqn:B; auto.
          apply andb_prop in B. destruct B as [B _]. apply Nat.eqb_eq in B. subst. reflexivity.
        - intros t' Ht'. unfold s4. rewrite gett_sett. destruct (_ && _) eqn:B;
            [|apply (i_frm (i_wf I2)); auto].
          apply andb_prop in B. destruct B as [B _]. apply Nat.eqb_eq in B. subst.
          apply (i_frm (i_wf I2)); auto. }
      apply (InvC_obs_but qok (Some t) None s2 s4 t I2 W4).
      * unfold s4. rewrite length_tasks_sett. reflexivity.
      * discriminate.
      * intros t' Hn. rewrite is_cur_some_other; auto.
      * reflexivity.
      * exact Fs.
      * intros t' g Hn Hg. rewrite Cs. destruct (Nat.eqb_spec t' t); [congruence|].
        rewrite andb_false_r. lia.
      * intros t' Hn Ht'. unfold s4. rewrite gett_sett_other by auto. split; reflexivity.
      * intros _ Hd.
        assert (Ht3 : t < length (tasks s3)) by exact Ht2.
        assert (Hd2 : tdone s2 t = false).
        { unfold tdone in *. unfold s4 in Hd. rewrite gett_sett_same in Hd by exact Ht3.
          rewrite <- Fs. exact Hd. }
        destruct (Q2 Hd2) as (A1 & A2 & A3). change (RB s4 t).
        assert (Eb : bo s4 t = Some f).
        { unfold bo. unfold s4 at 1. rewrite gett_sett_same by exact Ht3.
          change (twaiter (gett s3 t <| twaiter := Some f |>)) with (Some f). cbv beta iota.
          rewrite Fs, Fd. reflexivity. }
        unfold RB. rewrite Eb. split; [exact A1|].
        intros g Hg. rewrite Fs in Hg. rewrite Cs, (A2 g Hg), Nat.eqb_refl, andb_true_r.
        rewrite (Nat.eqb_sym f g). destruct (g =? f); reflexivity.
      * intros Hle. lia.
Qed.

End Steps.
