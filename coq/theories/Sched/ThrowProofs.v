(* C15 at the level of task_throw: refusals are no-ops, an accepted throw makes the
   target runnable with exactly one handle HStep t (Some e) and touches nothing else,
   the exception is what the target's continuation is resumed with, and the future it
   waited on can never resume it again. *)
From Coq Require Import QArith Sorting.Permutation.
From RecordUpdate Require Import RecordUpdate.
From Asynkit Require Import Base.Prelude Queue.ListFacts Queue.PQ Queue.PosPQ Queue.Exec
     Sched.Model Sched.PartTables Sched.PartitionProofs Sched.PartitionSteps Sched.PartitionRun.
Import RecordSetNotations.
Open Scope nat_scope.

(* ------------------------------------------------------------ refusals *)
Lemma throw_refused_unchanged s t e s' x : task_throw s t e = (s', RExc x) -> s' = s.
Proof.
  intros E. destruct (task_throw_cases s t e s' (RExc x) E) as [[-> _]|(H & _)]; auto. discriminate.
Qed.

Lemma throw_refuse_done s t e : tdone s t = true -> task_throw s t e = (s, RExc (ERuntime rt_task_done)).
Proof. intros H. unfold task_throw. rewrite H. reflexivity. Qed.

Lemma throw_refuse_ctask s t e :
  tdone s t = false -> tkind_ (gett s t) = KC -> task_throw s t e = (s, RExc (ERuntime rt_ctask)).
Proof. intros H1 H2. unfold task_throw. rewrite H1, H2. reflexivity. Qed.

Lemma throw_refuse_cancelling s t e :
  tdone s t = false -> tkind_ (gett s t) = KPy -> bo s t = None ->
  (tmustc (gett s t) = true \/
   exists f, twaiter (gett s t) = Some f /\ fcancelled s f = true) ->
  task_throw s t e = (s, RExc (ERuntime rt_task_cancelled)).
Proof.
  intros H1 H2 Hb Hc. unfold task_throw, bo in *. rewrite H1, H2.
  destruct (twaiter (gett s t)) as [f|].
  - destruct (fdone s f); [|discriminate]. simpl.
    destruct Hc as [->|(f' & Ef & Hc)]; [reflexivity|]. inversion Ef; subst. rewrite Hc, orb_true_r. reflexivity.
  - destruct Hc as [->|(f' & Ef & _)]; [reflexivity|discriminate].
Qed.

Lemma throw_refuse_self s t e :
  tdone s t = false -> tkind_ (gett s t) = KPy -> bo s t = None -> tmustc (gett s t) = false ->
  (forall f, twaiter (gett s t) = Some f -> fcancelled s f = false) ->
  rq_find (ready s) (task_key s t) true = None ->
  task_throw s t e = (s, RExc (ERuntime rt_self)).
Proof.
  intros H1 H2 Hb Hm Hc Hf. unfold task_throw, bo in *. rewrite H1, H2.
  destruct (twaiter (gett s t)) as [f|].
  - destruct (fdone s f); [|discriminate]. simpl. rewrite Hm, (Hc f eq_refl), Hf. reflexivity.
  - rewrite Hm, Hf. reflexivity.
Qed.

(* ------------------------------------------------------------ what an accepted throw changes *)
Definition strip_wakeup (t : nat) (x : fut) : fut :=
  x <| fcbs := filter (fun c => negb (cb_eqb c (CbWakeup t))) (fcbs x) |>.

Section Throw.
Variable qok : rq -> Prop.
Hypothesis QS : QSpec qok.
Notation InvC := (InvC qok).

(* the running task itself is refused (it has no handle in the ready queue) *)
Lemma throw_current_refused s t e :
  InvC (Some t) s -> exists k, task_throw s t e = (s, RExc (ERuntime k)).
Proof.
  intros I. destruct (task_throw s t e) as [s' r] eqn:E.
  destruct (task_throw_cases s t e s' r E) as [[-> (k & ->)]|(_ & Hd & Hk & H)]; [eauto|].
  exfalso. destruct (InvC_cur_quiet qok t s I Hd) as (Q1 & Q2 & Q3).
  destruct H as [(f & Hw & Hf & _)|(h & r' & _ & _ & F & _)].
  - unfold bo in Q3. rewrite Hw, Hf in Q3. discriminate.
  - destruct (q_find QS _ _ _ _ (i_qok (i_wf I)) F) as (_ & Kh & P).
    destruct (hcnt_remove s r' h t P Kh). lia.
Qed.

Theorem throw_effect c s t e s' v :
  InvC c s -> task_throw s t e = (s', RVal v) ->
  let hn := length (handles s) in
  (* Inv09 again; t is runnable with exactly one handle, which is the new step(exc=e) *)
  InvC c s' /\ is_cur c t = false /\ tdone s' t = false /\
  hcnt s' t = 1 /\ bo s' t = None /\ twaiter (gett s' t) = None /\
  handles s' = handles s ++ [mkH (HStep t (Some e)) false] /\ In hn (rq_items (ready s')) /\
  (* the awaited future keeps its state and its other callbacks; other futures untouched *)
  (forall g, getf s' g = getf s g \/ (bo s t = Some g /\ getf s' g = strip_wakeup t (getf s g))) /\
  (forall g, fstate_ (getf s' g) = fstate_ (getf s g)) /\
  (forall t' g, t' <> t -> ccnt s' t' g = ccnt s t' g) /\
  (forall g, fdone s' g = false -> ccnt s' t g = 0) /\
  (* other tasks and every other table untouched *)
  (forall t', t' <> t -> gett s' t' = gett s t') /\
  gett s' t = gett s t <| twaiter := None |> /\
  (forall t', t' <> t -> hcnt s' t' = hcnt s t') /\
  locks s' = locks s /\ conds s' = conds s /\ events s' = events s /\ blocks s' = blocks s /\
  timers s' = timers s /\ now s' = now s /\ current s' = current s /\ log s' = log s /\
  errors s' = errors s.
Proof.
  intros I E hn.
  destruct (task_throw_cases s t e s' (RVal v) E) as [[_ (k & Hk)]|(_ & Hd & Hk & H)]; [discriminate|].
  pose proof (kpy_in_range s t Hk) as Ht.
  assert (H' : (exists f, twaiter (gett s t) = Some f /\ fdone s f = false /\
                          s' = throw_go (remove_done_callback s f (CbWakeup t)) t e) \/
               (exists h r', bo s t = None /\ tmustc (gett s t) = false /\
                             rq_find (ready s) (task_key s t) true = Some (h, r') /\
                             s' = throw_go (s <| ready := r' |>) t e)) by exact H.
  clear H. rename H' into H.
  assert (I' : InvC c s').
  { destruct (K_task_throw qok QS c s s t e s' (RVal v) E (K_refl qok c s I)); auto. }
  assert (Hnc : is_cur c t = false).
  { destruct (is_cur c t) eqn:Hc; auto. exfalso. destruct c as [c0|]; [|discriminate].
    simpl in Hc. apply Nat.eqb_eq in Hc. subst c0.
    destruct (throw_current_refused s t e I) as (k & Ek). congruence. }
  assert (Hin : forall s1, ready (throw_go s1 t e) =
                           rq_append (ready s1) (length (handles s1))
                             (handle_priority (sett s1 t (gett s1 t <| twaiter := None |>)
                                                 <| handles := handles s1 ++ [mkH (HStep t (Some e)) false] |>)
                                              (HStep t (Some e)))) by reflexivity.
  assert (Hgt : forall s1, tasks s1 = tasks s ->
                  (forall t', t' <> t -> gett (throw_go s1 t e) t' = gett s t') /\
                  gett (throw_go s1 t e) t = gett s t <| twaiter := None |>).
  { intros s1 Et. split.
    - intros t' Hn. change (gett (throw_go s1 t e) t') with (gett (sett s1 t (gett s1 t <| twaiter := None |>)) t').
      rewrite gett_sett_other by auto. unfold gett. rewrite Et. reflexivity.
    - change (gett (throw_go s1 t e) t) with (gett (sett s1 t (gett s1 t <| twaiter := None |>)) t).
      rewrite gett_sett_same by (rewrite Et; auto). unfold gett. rewrite Et. reflexivity. }
  assert (Hd' : tdone s' t = false).
  { destruct H as [(f & _ & _ & Es')|(h & r' & _ & _ & _ & Es')]; match type of Es' with _ = throw_go ?X _ _ => set (s1 := X) in * end; subst s'.
    - destruct (Hgt s1 eq_refl) as [_ G]. unfold tdone. rewrite G.
      change (fdone (remove_done_callback s f (CbWakeup t)) (tfut (gett s t)) = false).
      unfold fdone. destruct (remove_cb_obs s f t) as (O1 & _). rewrite O1. exact Hd.
    - destruct (Hgt s1 eq_refl) as [_ G]. unfold tdone. rewrite G. exact Hd. }
  assert (Ht' : t < length (tasks s')).
  { destruct H as [(f & _ & _ & Es')|(h & r' & _ & _ & _ & Es')]; match type of Es' with _ = throw_go ?X _ _ => set (s1 := X) in * end; subst s';
      change (t < length (tasks (sett s1 t (gett s1 t <| twaiter := None |>))));
      rewrite length_tasks_sett; exact Ht. }
  pose proof (i_cls I' t Ht' Hd') as C.
  unfold cls in C. rewrite Hnc in C. destruct C as [R1 R2].
  assert (Hw' : twaiter (gett s' t) = None).
  { destruct H as [(f & _ & _ & Es')|(h & r' & _ & _ & _ & Es')]; match type of Es' with _ = throw_go ?X _ _ => set (s1 := X) in * end; subst s';
      destruct (Hgt s1 eq_refl) as [_ ->]; reflexivity. }
  assert (Hb' : bo s' t = None) by (unfold bo; rewrite Hw'; reflexivity).
  rewrite Hb' in R1, R2.
  split; [exact I'|]. split; [exact Hnc|]. split; [exact Hd'|]. split; [exact R1|].
  split; [exact Hb'|]. split; [exact Hw'|].
  destruct H as [(f & Hw & Hf & Es')|(h & r' & Hb & Hm & F & Es')]; match type of Es' with _ = throw_go ?X _ _ => set (s1 := X) in * end; subst s'.
  - (* blocked on f *)
    destruct (remove_cb_obs s f t) as (O1 & O2 & O3). fold s1 in O1, O2, O3.
    destruct (Hgt s1 eq_refl) as [G1 G2].
    split; [reflexivity|]. split.
    { rewrite Hin. destruct (q_append QS (ready s1) (length (handles s1))
        (handle_priority (sett s1 t (gett s1 t <| twaiter := None |>)
                            <| handles := handles s1 ++ [mkH (HStep t (Some e)) false] |>)
                         (HStep t (Some e))) (i_qok (i_wf I))) as [_ P].
      eapply Permutation_in; [symmetry; exact P|]. left. reflexivity. }
    split.
    { intros g. change (getf (throw_go s1 t e) g) with (getf s1 g). unfold s1, remove_done_callback.
      rewrite getf_setf. destruct (_ && _) eqn:B; auto.
      apply andb_prop in B. destruct B as [B _]. apply Nat.eqb_eq in B. subst g.
      right. split; [|reflexivity]. unfold bo. rewrite Hw, Hf. reflexivity. }
    split; [exact O1|]. split; [intros t' g Hn; apply O3; auto|]. split; [exact R2|].
    split; [exact G1|]. split; [exact G2|].
    split; [|repeat split; reflexivity].
    intros t' Hn.
    pose proof (i_wf I) as W0.
    assert (W1 : WF qok (sett s1 t (gett s1 t <| twaiter := None |>))).
    { eapply WF_obs; [exact W0|..]; try reflexivity; auto.
      - apply W0.
      - rewrite length_tasks_sett. reflexivity.
      - unfold s1, remove_done_callback.
        change (length (futs s) <= length (futs (setf s f (strip_wakeup t (getf s f))))).
        rewrite length_futs_setf. lia.
      - intros t'' Ht''. rewrite gett_sett. destruct (_ && _) eqn:B; auto.
        apply andb_prop in B. destruct B as [B _]. apply Nat.eqb_eq in B. subst. reflexivity.
      - intros t'' Ht''. rewrite gett_sett. destruct (_ && _) eqn:B; [|apply W0; auto].
        apply andb_prop in B. destruct B as [B _]. apply Nat.eqb_eq in B. subst. apply W0; auto. }
    destruct (call_soon_facts qok QS _ (HStep t (Some e)) W1) as (_ & _ & _ & Hc).
    unfold throw_go. rewrite Hc. unfold cb_key. simpl. destruct (Nat.eqb_spec t' t); [congruence|].
    rewrite Nat.add_0_r. reflexivity.
  - (* runnable: the old handle is removed from the ready queue *)
    destruct (Hgt s1 eq_refl) as [G1 G2].
    destruct (q_find QS _ _ _ _ (i_qok (i_wf I)) F) as (Q1 & Kh & P1).
    destruct (hcnt_remove s r' h t P1 Kh) as (H1 & H2). fold s1 in H1, H2.
    split; [reflexivity|]. split.
    { rewrite Hin. destruct (q_append QS (ready s1) (length (handles s1))
        (handle_priority (sett s1 t (gett s1 t <| twaiter := None |>)
                            <| handles := handles s1 ++ [mkH (HStep t (Some e)) false] |>)
                         (HStep t (Some e))) Q1) as [_ P].
      eapply Permutation_in; [symmetry; exact P|]. left. reflexivity. }
    split; [intros g; left; reflexivity|]. split; [reflexivity|]. split; [reflexivity|].
    split; [exact R2|]. split; [exact G1|]. split; [exact G2|].
    split; [|repeat split; reflexivity].
    intros t' Hn.
    assert (W1s : WF qok s1).
    { apply WF_ready_sub; auto; [|apply (i_wf I)].
      intros h' Hh'. eapply Permutation_in; [symmetry; exact P1|]. right. auto. }
    assert (W1 : WF qok (sett s1 t (gett s1 t <| twaiter := None |>))).
    { eapply WF_obs; [exact W1s|..]; try reflexivity; auto.
      - rewrite length_tasks_sett. reflexivity.
      - intros t'' Ht''. rewrite gett_sett. destruct (_ && _) eqn:B; auto.
        apply andb_prop in B. destruct B as [B _]. apply Nat.eqb_eq in B. subst. reflexivity.
      - intros t'' Ht''. rewrite gett_sett. destruct (_ && _) eqn:B; [|apply W1s; auto].
        apply andb_prop in B. destruct B as [B _]. apply Nat.eqb_eq in B. subst. apply W1s; auto. }
    destruct (call_soon_facts qok QS _ (HStep t (Some e)) W1) as (_ & _ & _ & Hc).
    unfold throw_go. rewrite Hc. unfold cb_key. simpl. destruct (Nat.eqb_spec t' t); [congruence|].
    rewrite Nat.add_0_r. apply H2. exact Hn.
Qed.

(* the old future can no longer resume t: completing any pending future creates no
   handle for t *)
Theorem no_second_resume c s t g x s' ok :
  InvC c s -> is_cur c t = false -> t < length (tasks s) -> tdone s t = false -> bo s t = None ->
  x <> FPending -> fut_finish s g x = (s', ok) ->
  hcnt s' t = hcnt s t.
Proof.
  intros I Hc Ht Hd Hb Hx E. pose proof (i_cls I t Ht Hd) as C. unfold cls in C. rewrite Hc in C.
  destruct C as [_ R2]. rewrite Hb in R2.
  destruct (fstate_ (getf s g)) eqn:Es;
    try (unfold fut_finish in E; rewrite Es in E; inversion E; subst; reflexivity).
  destruct (Nat.lt_ge_cases g (length (futs s))) as [Hg|Hg].
  - destruct (fut_finish_obs qok QS s g x s' ok (i_wf I) Hx E Es Hg) as (_ & _ & _ & Hh & _).
    rewrite Hh, R2; [lia|]. apply fdone_pending. exact Es.
  - unfold fut_finish in E. rewrite Es in E. inversion E; subst. unfold schedule_callbacks.
    rewrite getf_oob by (rewrite length_futs_setf; auto). simpl. reflexivity.
Qed.

End Throw.

(* ------------------------------------------------------------ delivery *)
(* the exception Task.__step passes to the coroutine *)
Definition delivered_exn (s : st) (t : nat) (e : exn) : exn :=
  if tmustc (gett s t) then (if is_cancel e then e else ECancelled) else e.

Definition running_state (s : st) (t : nat) : st :=
  sett s t (gett s t <| tmustc := false |> <| twaiter := None |> <| tcont_ := TRun |>)
    <| current := Some t |>.

(* run_one on a live handle HStep t (Some e) at the head *)
Lemma run_one_step s h r t e :
  rq_popleft (ready s) = Some (h, r) -> geth s h = mkH (HStep t (Some e)) false ->
  run_one s = step_task t (Some e) (s <| ready := r |>).
Proof.
  intros P G. unfold run_one. rewrite P. change (geth (s <| ready := r |>) h) with (geth s h).
  rewrite G. reflexivity.
Qed.

(* the suspended continuation is resumed with RExc (delivered_exn ...) *)
Theorem step_throw_susp s t e frs k :
  tdone s t = false -> tcont_ (gett s t) = TSusp frs k ->
  step_task t (Some e) s =
  (let '(s1, r) := resume_stack t frs (RExc (delivered_exn s t e)) (running_state s t) in
   let '(s2, o) := match r with
                   | LDone rep => exec t (k rep) s1
                   | LSusp y frs' => (s1, OYield y frs' k)
                   end in
   finish_step t s2 o <| current := None |>).
Proof.
  intros Hd Hk. unfold step_task, delivered_exn, running_state. rewrite Hd, Hk.
  destruct (tmustc (gett s t)); [destruct (is_cancel e)|]; cbv beta iota;
    destruct (resume_stack t frs _ _) as [s1 r1]; destruct r1; reflexivity.
Qed.

(* a task that has not started yet never runs its body: the exception ends it *)
Theorem step_throw_new s t e c0 :
  tdone s t = false -> tcont_ (gett s t) = TNew c0 ->
  step_task t (Some e) s =
  finish_step t (running_state s t) (ODone (RExc (delivered_exn s t e))) <| current := None |>.
Proof.
  intros Hd Hk. unfold step_task, delivered_exn, running_state. rewrite Hd, Hk.
  destruct (tmustc (gett s t)); [destruct (is_cancel e)|]; reflexivity.
Qed.
