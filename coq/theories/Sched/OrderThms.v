(* C11 on the property's own domain (locks acquired in a fixed order): every state reached by a
   run satisfying [run_ok], [run_ne] and [run_ord] has an acyclic wait-for graph ([ranked]), so
   the C11 theorems hold there without the hypothesis [ranked]. *)
From Coq Require Import QArith Lqa Sorting.Permutation.
From RecordUpdate Require Import RecordUpdate.
From Asynkit Require Import Base.Prelude Queue.PQ Queue.Order Queue.PosPQ Queue.Exec
  Sched.Model Sched.Corr Sched.Tables Sched.QFacts Sched.LockInv Sched.Footprint Sched.LockOps Sched.LockLib
  Sched.LockProofs Sched.LockThms Sched.InheritEprio Sched.InheritHandover Sched.InheritKeys
  Sched.InheritThms Sched.WaitInv Sched.WaitOps Sched.WaitProofs Sched.WaitThms.
From Asynkit Require Import Sched.OrderInv Sched.OrderPass.
Import RecordSetNotations.
Open Scope nat_scope.

(* ------------------------------------------------------------ the invariant along runs *)
Lemma ordf_init p fa dr lks cds nev : ordf (init_st p fa dr lks cds nev).
Proof. intros u l' f had l Hin. rewrite tframes_oob in Hin by (cbn; lia). destruct Hin. Qed.

Theorem run_ordf acts : forall s,
  Inv s -> ordf s -> run_ok s acts -> run_ne s acts -> run_ord s acts ->
  ordf (fold_left do_action acts s).
Proof.
  induction acts as [|a acts IH]; intros s I O Hok Hne Ho; simpl; [auto|].
  destruct Hok as [Ha Hr]. destruct Hne as [Hna Hnr]. destruct Ho as [Hoa Hor]. apply IH; auto.
  - apply (ext_inv _ _ (do_action_ext s a I Ha)).
  - now apply do_action_ordf.
Qed.

(* reachable by a run on which locks are acquired in increasing order (and without eager
   starts) *)
Definition reachable_ord (s : st) : Prop :=
  exists p fa dr lks cds nev acts,
    run_ok (init_st p fa dr lks cds nev) acts /\ run_ne (init_st p fa dr lks cds nev) acts /\
    run_ord (init_st p fa dr lks cds nev) acts /\
    s = fold_left do_action acts (init_st p fa dr lks cds nev).

Lemma reachable_ord_ne s : reachable_ord s -> reachable_ne s.
Proof.
  intros (p & fa & dr & lks & cds & nev & acts & H1 & H2 & _ & E). exists p, fa, dr, lks, cds, nev, acts. auto.
Qed.
Lemma reachable_ord_reachable s : reachable_ord s -> reachable s.
Proof. intros H. apply reachable_ne_reachable. now apply reachable_ord_ne. Qed.

Theorem reachable_ord_ordf s : reachable_ord s -> ordf s.
Proof.
  intros (p & fa & dr & lks & cds & nev & acts & Hok & Hne & Ho & ->).
  apply run_ordf; auto; [apply Inv_init|apply ordf_init].
Qed.

(* ------------------------------------------------------------ rows, frames, held locks *)
(* a queued waiter has a row *)
Lemma waiter_has_row ne X R s l w :
  WIx ne X R s -> In w (lock_waiter_tasks (getl s l)) -> exists f, In (f, w) (rows s l).
Proof.
  intros W Hw. rewrite lock_waiter_tasks_eq in Hw. apply in_map_iff in Hw as (e & <- & He).
  exists (Z.to_nat (eobj e)). apply (rtask_row _ _ _ _ _ _ W He).
Qed.

(* without eager starts the task of a row is itself suspended in acquire() of that lock *)
Lemma row_own_frame s l f u :
  WInv true s -> In (f, u) (rows s l) -> exists had, In (InAcquireP l f had) (tframes s u).
Proof.
  intros W Hin. destruct (w_row W l f u Hin) as (t & had & Hh). pose proof Hh as Hh'.
  apply hasfr_nil in Hh. destruct (w_frame W t l f had Hh') as (u' & Hu' & _ & _ & Hne).
  specialize (Hne eq_refl). subst u'.
  pose proof (rows_unique _ _ _ _ (w_nodup W l) Hin Hu') as E. subst t. eauto.
Qed.

(* the fixed order, in terms of the tables: a task queued on l' holds only smaller locks *)
Theorem queued_holds_below s l' f u l :
  WInv true s -> ordf s -> In (f, u) (rows s l') -> In l (tholding (gett s u)) -> l < l'.
Proof.
  intros W O Hin Hl. destruct (row_own_frame s l' f u W Hin) as (had & Hfr). eapply O; eauto.
Qed.

(* a PriorityTask holder of l that is itself queued waits for a lock of LARGER index *)
Theorem holder_waits_larger s l o l0 f :
  Inv s -> WInv true s -> ordf s ->
  lowner (getl s l) = Some o -> is_prio_task s o = true -> In (f, o) (rows s l0) -> l < l0.
Proof.
  intros I W O Ho Hp Hin. eapply queued_holds_below; eauto. now apply (iA3 I).
Qed.

(* ------------------------------------------------------------ the graph is acyclic *)
Definition lrank (s : st) (u : nat) : nat :=
  if is_prio_task s u
  then match twaiting (gett s u) with
       | Some l => Nat.min (S l) (S (length (locks s)))
       | None => S (length (locks s)) end
  else 0.

Lemma lrank_dec s : Inv s -> WInv true s -> ordf s ->
  forall w t, waits_on s w t -> lrank s w < lrank s t.
Proof.
  intros I W O w t (l & Hl & Hw).
  destruct (waiter_has_row _ _ _ _ _ _ W Hw) as (f & Hrow).
  pose proof (rows_inrange _ _ _ _ Hrow) as Hlr.
  assert (Hpt : is_prio_task s t = true).
  { destruct (is_prio_task s t) eqn:E; auto. rewrite (iA4 I t E) in Hl. destruct Hl. }
  assert (Hrt : S l < lrank s t).
  { unfold lrank. rewrite Hpt. destruct (twaiting (gett s t)) as [l'|] eqn:Ew; [|lia].
    destruct (w_newait W eq_refl t l' (fun x => x) Hpt Ew) as (f' & Hrow').
    pose proof (rows_inrange _ _ _ _ Hrow') as Hlr'.
    pose proof (queued_holds_below s l' f' t l W O Hrow' Hl). lia. }
  unfold lrank at 1. destruct (is_prio_task s w) eqn:Epw; [|lia].
  destruct (w_wait W l f w Hrow Epw) as [-> _]. lia.
Qed.

Lemma lrank_bound s u : lrank s u <= S (length (locks s)).
Proof. unfold lrank. destruct (is_prio_task s u); [|lia]. destruct (twaiting (gett s u)); lia. Qed.

Theorem ranked_of_ordf s : Inv s -> WInv true s -> ordf s -> ranked s.
Proof.
  intros I W O. exists (lrank s). split; [now apply lrank_dec|].
  intros t. pose proof (lrank_bound s t). unfold efuel. lia.
Qed.

Theorem ranked_reachable s : reachable_ord s -> ranked s.
Proof.
  intros H. apply ranked_of_ordf.
  - apply reachable_inv. now apply reachable_ord_reachable.
  - apply reachable_ne_WInv. now apply reachable_ord_ne.
  - now apply reachable_ord_ordf.
Qed.

(* ------------------------------------------------------------ C11 without [ranked] *)
Theorem closed_form_reach_ord s t :
  reachable_ord s ->
  (effective_priority s t <= own s t)%Q /\
  (forall w, waits_tr s w t -> (effective_priority s t <= own s w)%Q) /\
  (exists u, (u = t \/ waits_tr s u t) /\ effective_priority s t = own s u).
Proof.
  intros H. apply C11_closed_form_reach; [now apply reachable_ord_reachable|now apply ranked_reachable].
Qed.

Theorem holder_reach_ord s l w h :
  reachable_ord s -> In w (lock_waiter_tasks (getl s l)) -> lowner (getl s l) = Some h ->
  is_prio_task s h = true ->
  (effective_priority s h <= effective_priority s w)%Q /\
  (forall x, waits_tr s h x -> (effective_priority s x <= effective_priority s w)%Q).
Proof.
  intros H. apply C11_holder_reach; [now apply reachable_ord_reachable|now apply ranked_reachable].
Qed.

Theorem fixpoint_reach_ord s t :
  reachable_ord s -> min_of (effective_priority s t) (own s t :: map (wprio s) (waiters_of s t)).
Proof. intros H. apply C11_fixpoint_thm. now apply ranked_reachable. Qed.

(* the recursion budget of effective_priority() suffices: any larger budget gives the same
   value, and already |locks| + 1 levels do *)
Theorem fuel_reach_ord s fuel t :
  reachable_ord s -> S (length (locks s)) <= fuel -> eprio fuel s t = effective_priority s t.
Proof.
  intros H Hf.
  pose proof (reachable_inv s (reachable_ord_reachable s H)) as I.
  pose proof (reachable_ne_WInv s (reachable_ord_ne s H)) as W.
  pose proof (reachable_ord_ordf s H) as O.
  pose proof (lrank_dec s I W O) as R. pose proof (lrank_bound s) as B.
  unfold effective_priority. apply (eprio_fuel_indep s (lrank s) R).
  - specialize (B t). lia.
  - specialize (B t). unfold efuel. lia.
Qed.
