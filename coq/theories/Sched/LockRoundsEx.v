(* C13, fourth round: computed instances of Sched/LockRounds.v (list loop, one PriorityLock).
   (a) [f_*]: holder H and three contenders W1, W2, W3 of EQUAL priority; W2 is cancelled while
       queued (before the quiet run).  served_rounds instantiated with m = 2 (two entries ahead,
       no gains), K = 1, M = 2: W3's turn comes within bound 1 2 2 = 11 steps (actually at 4).
   (b) [g_*]: starvation by a stream: W (priority 10) waits, a generator task keeps spawning
       urgent contenders (priority 0) that arrive while the lock is held.  Every hypothesis of
       served_rounds holds with m = 0 except the gain budget (4 gains), and W is still queued and
       pending after bound 8 3 0 = 14 steps (until step 27): the qualification "unless overtaken"
       is necessary.  With m = 4 the theorem applies (bound 58 >= 27). *)
From Coq Require Import QArith.
From RecordUpdate Require Import RecordUpdate.
From Asynkit Require Import Base.Prelude Queue.PQ Sched.Model Sched.Corr Sched.LockInv Sched.LockOps
  Sched.LockProofs Sched.LockLive Sched.LockProgress.
From Asynkit Require Sched.PartTables Sched.PartitionRun.
From Asynkit Require Import Sched.LockRounds Sched.LockFifo.
Open Scope nat_scope.

Ltac cok2 := cbn; repeat (first [exact I | split
  | (let m := fresh "m" in let r := fresh "r" in let H := fresh "H" in intros m r H; destruct r; cbn)]).

(* ---------------------------------------------------------------- (a) equal priorities, one cancelled in the middle *)
Definition fH : script := SDo (OAcquire 0) (SDo OSleep0 (SDo OSleep0 (SDo (ORelease 0) SEnd))).
Definition fW : script := SDo (OAcquire 0) (SDo OSleep0 (SDo (ORelease 0) SEnd)).
Definition f_pre : list action :=
  map act [XSpawn (SPrio 5) fH; XStep; XSpawn (SPrio 5) fW; XSpawn (SPrio 5) fW; XSpawn (SPrio 5) fW;
           XStep; XStep; XStep; XStep; XDo (OCancel 2)].
Definition f_s : st := fold_left do_action f_pre (init_st false 0 [] [LPrio] [] 0).

Lemma coro_ok_fH n : PartTables.coro_ok n (denote_task fH).
Proof. cok2. Qed.
Lemma coro_ok_fW n : PartTables.coro_ok n (denote_task fW).
Proof. cok2. Qed.

Lemma f_reach : R f_s.
Proof.
  apply R_reach.
  - vm_compute. repeat split.
  - apply actions_ok_static. unfold f_pre. cbn [map act].
    repeat (constructor; [first [exact I|apply coro_ok_fH|apply coro_ok_fW]|]). constructor.
Qed.

Lemma f_quiet : quiet 11 f_s.
Proof. quiet_tac. Qed.
Lemma f_rbound : rbound 2 11 f_s.
Proof. apply rboundb_ok. vm_compute. reflexivity. Qed.
Lemma f_rel : releases_within 1 0 11 f_s.
Proof. apply relb_ok. vm_compute. reflexivity. Qed.
Lemma f_nocb : nocb 0 6 11 f_s.
Proof. apply nocbb_ok. vm_compute. reflexivity. Qed.
Lemma f_meas : nblk f_s 0 6 + gains 0 6 11 f_s <= 2.
Proof. vm_compute. lia. Qed.
Lemma f_kind : lkind_ (getl f_s 0) = LPrio.
Proof. vm_compute. reflexivity. Qed.
Lemma f_in : In 6 (objs f_s 0).
Proof. vm_compute. auto. Qed.

Lemma f_fifo : fifo_run 0 11 f_s.
Proof. apply fifob_ok. vm_compute. reflexivity. Qed.
Lemma f_r : nblk f_s 0 6 <= 2.
Proof. vm_compute. lia. Qed.

(* Sched/LockFifo.served_equal: equal stored keys, arrival numbers in creation order, the holder
   not waiting for another lock - no gain budget needed *)
Example f_served_equal :
  exists n t, n < bound 1 2 2 /\ (forall j, j <= n -> In 6 (objs (steps j f_s) 0)) /\
              turn (steps n f_s) 0 6 t.
Proof. exact (served_equal 1 2 0 6 2 f_s f_reach f_kind f_in f_quiet f_rbound f_rel f_nocb f_fifo f_r). Qed.

Example f_served :
  (* the state: H owns the lock; W1, W2, W3 queued in arrival order with equal keys; W2 cancelled *)
  lowner (getl f_s 0) = Some 0 /\ objs f_s 0 = [4; 5; 6] /\
  map (fun e => (epri e, eseq e)) (arr (lpq (getl f_s 0))) = [(5%Q, 0%Z); (5%Q, 1%Z); (5%Q, 2%Z)] /\
  map (fun f => fstate_ (getf f_s f)) [4; 5; 6] = [FPending; FCancelled; FPending] /\
  blockers f_s 0 6 = [4; 5] /\ gains 0 6 11 f_s = 0 /\
  (* the theorem: W3's turn comes within bound 1 2 2 = 11 steps *)
  (exists n t, n < bound 1 2 2 /\ (forall j, j <= n -> In 6 (objs (steps j f_s) 0)) /\
               turn (steps n f_s) 0 6 t) /\
  (* by computation: the hand-overs go to W1 (task 1), W2 passes (cancelled), then W3 (task 3) *)
  map (fun k => lowner (getl (steps k f_s) 0)) [0; 1; 2; 3; 4; 5; 6] =
    [Some 0; None; None; Some 1; None; Some 3; None] /\
  map (fun k => objs (steps k f_s) 0) [1; 2; 3; 4; 5] = [[4; 5; 6]; [4; 6]; [6]; [6]; []] /\
  map (fun t => fstate_ (getf (steps 7 f_s) (tfut t))) (tasks (steps 7 f_s)) =
    [FResult 0; FResult 0; FCancelled; FResult 0].
Proof.
  split; [vm_compute; reflexivity|]. split; [vm_compute; reflexivity|]. split; [vm_compute; reflexivity|].
  split; [vm_compute; reflexivity|]. split; [vm_compute; reflexivity|]. split; [vm_compute; reflexivity|].
  split; [exact (served_rounds 1 2 0 6 2 f_s f_reach f_kind f_in f_quiet f_rbound f_rel f_nocb f_meas)|].
  split; [vm_compute; reflexivity|]. split; vm_compute; reflexivity.
Qed.

(* ---------------------------------------------------------------- (b) starvation by a stream of more urgent newcomers *)
Definition gH : script :=
  SDo (OAcquire 0) (SDo OSleep0 (SDo OSleep0 (SDo OSleep0 (SDo OSleep0 (SDo OSleep0 (SDo (ORelease 0) SEnd)))))).
Definition gU : script := SDo (OAcquire 0) (SDo OSleep0 (SDo OSleep0 (SDo (ORelease 0) SEnd))).
Definition gW : script := SDo (OAcquire 0) (SDo (ORelease 0) SEnd).
Definition gG : script :=
  SSpawn (SPrio 0) gU (SDo OSleep0 (SDo OSleep0 (SSpawn (SPrio 0) gU (SDo OSleep0 (SDo OSleep0
  (SSpawn (SPrio 0) gU (SDo OSleep0 (SDo OSleep0 (SSpawn (SPrio 0) gU SEnd))))))))).
Definition g_pre : list action :=
  map act [XSpawn (SPrio 0) gH; XStep; XSpawn (SPrio 10) gW; XStep; XStep; XSpawn (SPrio 0) gG].
Definition g_s : st := fold_left do_action g_pre (init_st false 0 [] [LPrio] [] 0).

Lemma coro_ok_gH n : PartTables.coro_ok n (denote_task gH).
Proof. cok2. Qed.
Lemma coro_ok_gW n : PartTables.coro_ok n (denote_task gW).
Proof. cok2. Qed.
Lemma coro_ok_gG n : PartTables.coro_ok n (denote_task gG).
Proof. cok2. Qed.

Lemma g_reach : R g_s.
Proof.
  apply R_reach.
  - vm_compute. repeat split.
  - apply actions_ok_static. unfold g_pre. cbn [map act].
    repeat (constructor; [first [exact I|apply coro_ok_gH|apply coro_ok_gW|apply coro_ok_gG]|]). constructor.
Qed.

Lemma g_quiet : quiet 58 g_s.
Proof. quiet_tac. Qed.
Lemma g_rbound : rbound 3 58 g_s.
Proof. apply rboundb_ok. vm_compute. reflexivity. Qed.
Lemma g_rel : releases_within 8 0 58 g_s.
Proof. apply relb_ok. vm_compute. reflexivity. Qed.
Lemma g_nocb : nocb 0 2 58 g_s.
Proof. apply nocbb_ok. vm_compute. reflexivity. Qed.
Lemma g_meas : nblk g_s 0 2 + gains 0 2 58 g_s <= 4.
Proof. vm_compute. lia. Qed.
Lemma g_kind : lkind_ (getl g_s 0) = LPrio.
Proof. vm_compute. reflexivity. Qed.
Lemma g_in : In 2 (objs g_s 0).
Proof. vm_compute. auto. Qed.

Example g_starved :
  (* the state: H owns the lock, W (priority 10, future 2) is the only waiter: no blocker *)
  lowner (getl g_s 0) = Some 0 /\ objs g_s 0 = [2] /\ nblk g_s 0 2 = 0 /\
  (* all hypotheses of served_rounds for m = 0 hold on the first bound 8 3 0 = 14 steps ... *)
  R g_s /\ quiet (bound 8 3 0) g_s /\ rbound 3 (bound 8 3 0) g_s /\
  releases_within 8 0 (bound 8 3 0) g_s /\ nocb 0 2 (bound 8 3 0) g_s /\
  (* ... except the budget: urgent newcomers (priority 0) arrive while the lock is held *)
  gains 0 2 (bound 8 3 0) g_s = 3 /\ gains 0 2 27 g_s = 4 /\
  (* and W is still queued and pending in every state up to step 26, while the lock is handed to
     the four newcomers (tasks 3, 4, 5, 6) *)
  forallb (fun k => existsb (Nat.eqb 2) (objs (steps k g_s) 0) && negb (fdone (steps k g_s) 2))
          (seq 0 27) = true /\
  map (fun k => lowner (getl (steps k g_s) 0)) [11; 18; 22; 25] = [Some 3; Some 4; Some 5; Some 6] /\
  (* when the stream ends W is served: consistent with the theorem for m = 0 + 4 *)
  (exists n t, n < bound 8 3 4 /\ (forall j, j <= n -> In 2 (objs (steps j g_s) 0)) /\
               turn (steps n g_s) 0 2 t) /\
  objs (steps 27 g_s) 0 = [2] /\ objs (steps 28 g_s) 0 = [].
Proof.
  assert (E : bound 8 3 0 = 14) by reflexivity. assert (L : 14 <= 58) by lia. rewrite E.
  split; [vm_compute; reflexivity|]. split; [vm_compute; reflexivity|]. split; [vm_compute; reflexivity|].
  split; [exact g_reach|]. split; [exact (quiet_le 58 14 g_s L g_quiet)|].
  split; [exact (rbound_le 3 58 14 g_s L g_rbound)|].
  split; [exact (releases_le 8 0 58 14 g_s L g_rel)|]. split; [exact (nocb_le 0 2 58 14 g_s L g_nocb)|].
  split; [vm_compute; reflexivity|]. split; [vm_compute; reflexivity|]. split; [vm_compute; reflexivity|].
  split; [vm_compute; reflexivity|].
  split; [exact (served_rounds 8 3 0 2 4 g_s g_reach g_kind g_in g_quiet g_rbound g_rel g_nocb g_meas)|].
  split; vm_compute; reflexivity.
Qed.
