(* C14, part 3: Condition.notify(n).

   PriorityCondition._notify walks `self._waiters.ordereditems()` - the waiters in
   (priority at wait start, arrival) order = the stable sort [pq_sort] of the heap -
   and sets the result of the first n futures that are not done.  The heap is put
   back with the same content.  asyncio.Condition.notify (InterruptCondition) does
   the same over its deque. *)
From Coq Require Import QArith Sorting.Permutation.
From RecordUpdate Require Import RecordUpdate.
From Asynkit Require Import Base.Prelude Queue.PQ Queue.Order Queue.PQProofs Queue.PosPQ Queue.Exec
  Sched.Model Sched.Tables Sched.QFacts Sched.CondView Sched.CondProofs.
Import RecordSetNotations.
Open Scope nat_scope.

(* the waiters in notification order *)
Definition wait_order (s : st) (c : nat) : list nat := pq_objs (pq_sort HQ (cpq (getc s c))).
(* those not yet notified / cancelled *)
Definition pending_in (s : st) (l : list nat) : list nat := filter (fun f => negb (fdone s f)) l.

Lemma fdone_false_pending s f : fdone s f = false -> fstate_ (getf s f) = FPending.
Proof. unfold fdone. destruct (fstate_ (getf s f)); congruence. Qed.

Lemma fdone_getf s s' f : getf s' f = getf s f -> fdone s' f = fdone s f.
Proof. unfold fdone. now intros ->. Qed.

Lemma in_firstn {A} (x : A) n : forall l, In x (firstn n l) -> In x l.
Proof.
  induction n as [|n IH]; intros [|a l] H; cbn in *; try contradiction. destruct H as [H|H]; [now left|right; now apply IH].
Qed.

(* ------------------------------------------------------------ the loop *)
Lemma nfold_spec n v order : NoDup order -> forall s tk cnt,
  (forall f, In f order -> f < length (futs s)) ->
  let s' := fst (fst (fold_left (nstep n v) order (s, tk, cnt))) in
  let W := firstn (n - cnt) (pending_in s order) in
  (forall f, In f W -> fstate_ (getf s' f) = FResult v) /\
  (forall f, ~ In f W -> getf s' f = getf s f) /\
  length (futs s') = length (futs s).
Proof.
  induction 1 as [|f order Hnin Hnd IH]; intros s tk cnt Hr.
  - cbn. destruct (n - cnt); cbn; intuition.
  - cbn [fold_left nstep]. cbv zeta.
    assert (Hr' : forall g, In g order -> g < length (futs s)) by (intros; apply Hr; now right).
    destruct (Nat.leb n cnt) eqn:En.
    + apply Nat.leb_le in En. replace (n - cnt) with 0 by lia.
      specialize (IH s tk cnt Hr'). cbv zeta in IH. replace (n - cnt) with 0 in IH by lia.
      exact IH.
    + apply Nat.leb_gt in En. unfold pending_in. cbn [filter].
      destruct (fdone s f) eqn:Ed; cbn [negb].
      * apply IH; auto.
      * set (s1 := fst (fut_finish s f (FResult v))).
        assert (Hlen : length (futs s1) = length (futs s)) by apply fut_finish_len.
        assert (Hoth : forall g, g <> f -> getf s1 g = getf s g) by (intros; now apply fut_finish_getf_other).
        assert (Hf : fstate_ (getf s1 f) = FResult v).
        { apply fut_finish_state; [apply Hr; now left|now apply fdone_false_pending]. }
        assert (Hfil : pending_in s1 order = pending_in s order).
        { unfold pending_in. apply filter_ext_in. intros g Hg. f_equal. apply fdone_getf, Hoth.
          intros ->. contradiction. }
        destruct (IH s1 (S tk) (S cnt)) as (I1 & I2 & I3).
        { intros g Hg. rewrite Hlen. auto. }
        rewrite Hfil in I1, I2. fold (pending_in s order).
        replace (n - cnt) with (S (n - S cnt)) by lia. cbn [firstn].
        set (W1 := firstn (n - S cnt) (pending_in s order)) in *.
        assert (HW1 : forall g, In g W1 -> In g order).
        { intros g Hg. unfold W1 in Hg. apply in_firstn in Hg. unfold pending_in in Hg.
          now apply filter_In in Hg as [Hg _]. }
        split; [|split].
        -- intros g [<-|Hg]; [|auto]. rewrite I2; auto.
        -- intros g Hg. assert (g <> f) by (intros ->; apply Hg; now left).
           rewrite I2; auto. intros Hin. apply Hg. now right.
        -- congruence.
Qed.

(* ------------------------------------------------------------ PriorityCondition.notify *)
Lemma wait_order_perm s c : Permutation (wait_order s c) (pq_objs (cpq (getc s c))).
Proof.
  unfold wait_order. rewrite !pq_objs_eq. apply objs_of_perm. cbn. apply (stable_sort_perm HQ).
Qed.

(* the order is by priority, then by arrival number: no later entry is smaller *)
Lemma wait_order_sorted s c : sorted (plt HQ) (arr (pq_sort HQ (cpq (getc s c)))).
Proof. cbn [pq_sort arr]. apply stable_sort_sorted. exact HQ_sw. Qed.

Theorem notify_p_spec s c n :
  qwf (cpq (getc s c)) ->
  (forall f, In f (pq_objs (cpq (getc s c))) -> f < length (futs s)) ->
  let s' := notify_p s c n in
  let W := firstn n (pending_in s (wait_order s c)) in
  (* exactly the first n pending waiters get the result True *)
  (forall f, In f W -> fstate_ (getf s' f) = FResult 1) /\
  (forall f, ~ In f W -> getf s' f = getf s f) /\
  (* the queue keeps its content (and heap shape invariant) *)
  qwf (cpq (getc s' c)) /\
  Permutation (arr (cpq (getc s' c))) (arr (cpq (getc s c))) /\
  pq_sort HQ (cpq (getc s' c)) = pq_sort HQ (cpq (getc s c)) /\
  (forall c', c' <> c -> getc s' c' = getc s c') /\
  locks s' = locks s /\ tasks s' = tasks s /\ length (futs s') = length (futs s).
Proof.
  intros Hq Hr. pose proof Hq as (Hi & Hnd & Hnn).
  cbv zeta. rewrite notify_p_unfold. cbv zeta.
  set (order := map (fun e => Z.to_nat (eobj e)) (arr (pq_sort HQ (cpq (getc s c))))).
  assert (Eo : order = wait_order s c) by reflexivity.
  assert (Hndo : NoDup order).
  { rewrite Eo. eapply Permutation_NoDup; [apply Permutation_sym, wait_order_perm|exact Hnd]. }
  assert (Hro : forall f, In f order -> f < length (futs s)).
  { intros f Hf. apply Hr. rewrite Eo in Hf. eapply Permutation_in; [apply wait_order_perm|exact Hf]. }
  destruct (nfold_spec n 1 order Hndo s 0 0 Hro) as (A & B & C).
  destruct (nfold_tables n 1 order s 0 0) as (TL & TC & TT).
  set (r := fold_left (nstep n 1) order (s, 0, 0)) in *. cbv zeta in A, B, C, TL, TC, TT.
  rewrite Nat.sub_0_r, Eo in A, B.
  set (k := if Nat.leb n 0 then 0 else snd (fst r)).
  destruct (pq_ordered_take HQ (cpq (getc s c)) k) as [ys q'] eqn:Et. cbn [snd].
  destruct (ordered_take_spec HQ HQ_sw HQ_spec _ _ _ _ Hi Et) as (_ & Hi' & Hp & Hsq).
  set (s' := setc (fst (fst r)) c (getc (fst (fst r)) c <| cpq := q' |>)).
  assert (Gf : forall f, getf s' f = getf (fst (fst r)) f) by reflexivity.
  assert (Gc0 : getc (fst (fst r)) c = getc s c) by (unfold getc; now rewrite TC).
  assert (Hq' : qwf q').
  { split; [exact Hi'|]. split.
    - rewrite pq_objs_eq. eapply Permutation_NoDup; [apply Permutation_sym, objs_of_perm, Hp|exact Hnd].
    - eapply Permutation_Forall; [apply Permutation_sym, Hp|exact Hnn]. }
  assert (Gc : cpq (getc s' c) = q' \/ cpq (getc s' c) = cpq (getc s c)).
  { unfold s'. rewrite getc_setc, Nat.eqb_refl. cbn [andb].
    destruct (Nat.ltb c (length (conds (fst (fst r))))); [left; reflexivity|right; now rewrite Gc0]. }
  split; [intros f Hf; rewrite Gf; auto|]. split; [intros f Hf; rewrite Gf; auto|].
  split; [destruct Gc as [->| ->]; auto|].
  split; [destruct Gc as [->| ->]; auto|].
  split; [destruct Gc as [->| ->]; [apply (abs_perm HQ HQ_sw); auto|reflexivity]|].
  split.
  { intros c' Hne. unfold s'. rewrite getc_setc. assert (Hne' : Nat.eqb c c' = false) by (apply Nat.eqb_neq; congruence).
    rewrite Hne'. cbn [andb].
    unfold getc. now rewrite TC. }
  auto.
Qed.

(* notify(1): the (priority, arrival)-first pending waiter gets the result, if there is one *)
Corollary notify_p_one s c :
  qwf (cpq (getc s c)) ->
  (forall f, In f (pq_objs (cpq (getc s c))) -> f < length (futs s)) ->
  match pending_in s (wait_order s c) with
  | f :: _ => fstate_ (getf (notify_p s c 1) f) = FResult 1 /\
              (forall g, g <> f -> getf (notify_p s c 1) g = getf s g)
  | [] => forall g, getf (notify_p s c 1) g = getf s g
  end.
Proof.
  intros Hq Hr. destruct (notify_p_spec s c 1 Hq Hr) as (A & B & _). cbv zeta in A, B.
  destruct (pending_in s (wait_order s c)) as [|f rest]; cbn [firstn] in *.
  - intros g. apply B. intros [].
  - split; [apply A; now left|]. intros g Hg. apply B. intros [H|[]]. congruence.
Qed.

(* ------------------------------------------------------------ asyncio.Condition.notify *)
Definition istep (n : nat) (v : Z) : st * nat -> nat -> st * nat :=
  fun '(s, cnt) f =>
    if Nat.leb n cnt then (s, cnt)
    else if fdone s f then (s, cnt)
    else (fst (fut_finish s f (FResult v)), S cnt).

Lemma ifold_nfold n v order : forall s tk cnt,
  fst (fold_left (istep n v) order (s, cnt)) = fst (fst (fold_left (nstep n v) order (s, tk, cnt))).
Proof.
  induction order as [|f order IH]; intros s tk cnt; [reflexivity|].
  cbn [fold_left istep nstep]. destruct (Nat.leb n cnt); [apply IH|].
  destruct (fdone s f); apply IH.
Qed.

Lemma notify_i_unfold s c n :
  notify_i s c n = fst (fst (fold_left (nstep n 0) (cdq (getc s c)) (s, 0, 0))).
Proof. unfold notify_i. rewrite <- (ifold_nfold n 0 (cdq (getc s c)) s 0 0). reflexivity. Qed.

Theorem notify_i_spec s c n :
  NoDup (cdq (getc s c)) -> (forall f, In f (cdq (getc s c)) -> f < length (futs s)) ->
  let s' := notify_i s c n in
  let W := firstn n (pending_in s (cdq (getc s c))) in
  (forall f, In f W -> fstate_ (getf s' f) = FResult 0) /\
  (forall f, ~ In f W -> getf s' f = getf s f) /\
  conds s' = conds s /\ locks s' = locks s /\ tasks s' = tasks s.
Proof.
  intros Hnd Hr. cbv zeta. rewrite notify_i_unfold.
  destruct (nfold_spec n 0 (cdq (getc s c)) Hnd s 0 0 Hr) as (A & B & _).
  destruct (nfold_tables n 0 (cdq (getc s c)) s 0 0) as (TL & TC & TT).
  cbv zeta in *. rewrite Nat.sub_0_r in A, B. auto.
Qed.

(* ------------------------------------------------------------ leaving `await fut` *)
(* the waiter's own entry is gone from the queue before the rest of wait() runs, the
   other entries stay: the notification passed on by _notify(1) cannot come back *)
Lemma drop_waiter_p_spec s c f :
  qwf (cpq (getc s c)) ->
  let s0 := drop_waiter true s c f in
  qwf (cpq (getc s0 c)) /\
  (forall g, In g (pq_objs (cpq (getc s0 c))) -> In g (pq_objs (cpq (getc s c)))) /\
  (c < length (conds s) -> In f (pq_objs (cpq (getc s c))) -> ~ In f (pq_objs (cpq (getc s0 c)))) /\
  (forall g, g <> f -> In g (pq_objs (cpq (getc s c))) -> In g (pq_objs (cpq (getc s0 c)))).
Proof.
  intros Hq. cbv zeta. unfold drop_waiter.
  destruct (pq_remove HQ (cpq (getc s c)) (Z.of_nat f)) as [[p q']|] eqn:E.
  - destruct (qwf_remove _ _ _ _ Hq E) as (Hq' & Hp & Hn).
    rewrite getc_setc, Nat.eqb_refl. cbn [andb].
    destruct (Nat.ltb c (length (conds s))) eqn:Ec.
    + cbn. split; [exact Hq'|]. split; [|split].
      * intros g Hg. eapply Permutation_in; [apply Permutation_sym, Hp|now right].
      * auto.
      * intros g Hne Hg. eapply Permutation_in in Hg; [|exact Hp]. destruct Hg; congruence.
    + apply Nat.ltb_ge in Ec. split; [exact Hq|]. split; [auto|]. split; [lia|auto].
  - split; [exact Hq|]. split; [auto|]. split; [|auto].
    intros _ Hin. exfalso. pose proof Hq as Hq0. destruct Hq as (Hi & _ & Hnn).
    pose proof (pq_remove_none _ _ (conj Hi (conj (proj1 (proj2 Hq0)) Hnn)) E) as Hnone. apply Hnone. exact Hin.
Qed.
