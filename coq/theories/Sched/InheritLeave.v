(* C12, the leaving case (repair of finding F16): when a waiter leaves a PriorityLock that
   stays locked by another task o, acquire()'s `finally` calls propagate_priority on o, which
   re-keys every blocked task on the holder chain above o (o in the lock it waits for, the
   owner of that lock, ...) to its current effective priority - the analogue of
   InheritKeys.propagate_rekeys_chain (a waiter ARRIVES) for a waiter that LEAVES.  Compared
   with the old text of the `finally` (InheritStale.acquire_p_finish_old) only keys change. *)
From Coq Require Import QArith Lqa Sorting.Permutation.
From RecordUpdate Require Import RecordUpdate.
From Asynkit Require Import Base.Prelude Queue.PQ Queue.Order Queue.PosPQ Queue.PosProofs Queue.Exec
  Sched.Model Sched.Corr Sched.Tables Sched.QFacts Sched.LockInv Sched.CondView
  Sched.LockThms Sched.InheritEprio Sched.InheritHandover Sched.InheritKeys Sched.InheritFalls
  Sched.InheritStale Sched.WaitThms.
Import RecordSetNotations.
Open Scope nat_scope.

(* ------------------------------------------------------------ the removal step *)
Definition notf (f : nat) (pr : nat * nat) : bool := negb (Nat.eqb (fst pr) f).
(* the state after `self._waiters.remove(entry)` *)
Definition leave_st (s : st) (l f : nat) (q' : pq Q) : st :=
  setl s l (getl s l <| lpq := q' |> <| lwt := filter (notf f) (lwt (getl s l)) |>).

Lemma NoDup_map_filter {A B} (g : A -> B) (p : A -> bool) (xs : list A) :
  NoDup (map g xs) -> NoDup (map g (filter p xs)).
Proof.
  induction xs as [|x xs IH]; simpl; intros H; [constructor|].
  apply NoDup_cons_iff in H as [Hn Hd]. destruct (p x); simpl; [|auto].
  constructor; [|auto]. intros Hin. apply Hn. apply in_map_iff in Hin as (y & Ey & Hy).
  apply filter_In in Hy as [Hy _]. apply in_map_iff. eauto.
Qed.

Section Left.
Variables (s : st) (l f : nat) (p : Q) (q' : pq Q).
Hypothesis Hl : l < length (locks s).
Hypothesis W : allwf s.
Hypothesis L : lwt_ok s.
Hypothesis Er : pq_remove HQ (lpq (getl s l)) (Z.of_nat f) = Some (p, q').
Let s1 := leave_st s l f q'.

Lemma left_getl : getl s1 l = getl s l <| lpq := q' |> <| lwt := filter (notf f) (lwt (getl s l)) |>.
Proof. unfold s1, leave_st. now apply getl_setl_same. Qed.
Lemma left_getl_other l0 : l0 <> l -> getl s1 l0 = getl s l0.
Proof. intros H. unfold s1, leave_st. apply getl_setl_other. auto. Qed.

Lemma left_allwf : allwf s1.
Proof.
  intros l0. destruct (Nat.eq_dec l0 l) as [->|Hne].
  - rewrite left_getl. cbn. apply (qwf_remove _ _ _ _ (W l) Er).
  - rewrite left_getl_other by auto. apply W.
Qed.
Lemma left_lwt_ok : lwt_ok s1.
Proof.
  intros l0. destruct (Nat.eq_dec l0 l) as [->|Hne].
  - rewrite left_getl. cbn. apply NoDup_map_filter, L.
  - rewrite left_getl_other by auto. apply L.
Qed.
Lemma left_owner l0 : lowner (getl s1 l0) = lowner (getl s l0).
Proof.
  destruct (Nat.eq_dec l0 l) as [->|Hne]; [now rewrite left_getl|now rewrite left_getl_other].
Qed.
Lemma left_locked l0 : llocked (getl s1 l0) = llocked (getl s l0).
Proof.
  destruct (Nat.eq_dec l0 l) as [->|Hne]; [now rewrite left_getl|now rewrite left_getl_other].
Qed.
Lemma left_efuel : efuel s1 = efuel s.
Proof. unfold efuel, s1, leave_st, setl. cbn. now rewrite set_nth_length. Qed.
Lemma left_not_queued : ~ In f (pq_objs (lpq (getl s1 l))).
Proof. rewrite left_getl. cbn. apply (qwf_remove _ _ _ _ (W l) Er). Qed.

Lemma left_blocked_on u l0 f0 : blocked_on s u l0 f0 -> f0 <> f -> blocked_on s1 u l0 f0.
Proof.
  intros (A & B & C & D & E) Hne. split; [exact A|]. split; [exact B|]. split; [exact C|].
  destruct (Nat.eq_dec l0 l) as [->|Hnl].
  - rewrite left_getl. cbn. split.
    + apply filter_In. split; [exact D|]. unfold notf. simpl. now apply negb_true_iff, Nat.eqb_neq.
    + intros f' Hin. apply filter_In in Hin as [Hin _]. now apply E.
  - rewrite left_getl_other by auto. auto.
Qed.

(* every task recorded for the leaving future is runnable (it is the running caller), so no
   blocked task of a holder chain owns that future *)
Hypothesis Hrun : forall l0 u, In (f, u) (lwt (getl s l0)) -> task_is_runnable s u = true.

Lemma left_reaches n o w : reaches s n o w -> reaches s1 n o w.
Proof.
  intros H. induction H as [u|n u l0 f0 o w B O _ IH]; [constructor|].
  econstructor; [apply left_blocked_on; [exact B|]| |exact IH].
  - intros ->. destruct B as (_ & B & _ & D & _). rewrite (Hrun _ _ D) in B. discriminate.
  - now rewrite left_owner.
Qed.
End Left.

(* ------------------------------------------------------------ _waiting_on.__exit__ *)
Definition unwait (had : bool) (t : nat) (x : st) : st :=
  if had then sett x t (gett x t <| twaiting := None |>) else x.

Lemma unwait_getl had t x l : getl (unwait had t x) l = getl x l.
Proof. unfold unwait. destruct had; reflexivity. Qed.
Lemma unwait_getf had t x g : getf (unwait had t x) g = getf x g.
Proof. unfold unwait. destruct had; reflexivity. Qed.
Lemma unwait_fields had t x u :
  tprio (gett (unwait had t x) u) = tprio (gett x u) /\
  tholding (gett (unwait had t x) u) = tholding (gett x u).
Proof.
  unfold unwait. destruct had; [|auto]. rewrite gett_sett.
  destruct (Nat.eqb t u && Nat.ltb t (length (tasks x)))%bool eqn:E; [|auto].
  apply andb_prop in E as [E _]. apply Nat.eqb_eq in E. subst u. auto.
Qed.
Lemma unwait_efuel had t x : efuel (unwait had t x) = efuel x.
Proof. unfold unwait, efuel. destruct had; [|reflexivity]. unfold sett. cbn. now rewrite set_nth_length. Qed.
Lemma unwait_eprio had t x u : effective_priority (unwait had t x) u = effective_priority x u.
Proof.
  unfold effective_priority. rewrite unwait_efuel. apply eprio_ext.
  - intros t0. apply unwait_fields.
  - intros l. now rewrite unwait_getl.
Qed.
Lemma unwait_wprio had t x u : wprio (unwait had t x) u = wprio x u.
Proof.
  unfold wprio. destruct (unwait_fields had t x u) as [-> _].
  destruct (tprio (gett x u)); [apply unwait_eprio|reflexivity].
Qed.
Lemma unwait_esim had t x y : esim x y -> esim (unwait had t x) (unwait had t y).
Proof.
  intros (A & B & C). split; [|split].
  - intros u. destruct (unwait_fields had t x u) as [-> ->]. destruct (unwait_fields had t y u) as [-> ->].
    apply A.
  - intros l0. rewrite !unwait_getl. apply B.
  - now rewrite !unwait_efuel.
Qed.

(* ------------------------------------------------------------ the shape of the `finally` *)
(* the lock is held by another task: nothing is taken, the entry is removed, and the current
   text differs from the old one by the propagate_priority on the owner *)
Lemma finish_shape s t l f had inp o :
  allwf s -> In f (objs s l) ->
  llocked (getl s l) = true -> lowner (getl s l) = Some o -> o <> t ->
  exists p q',
    pq_remove HQ (lpq (getl s l)) (Z.of_nat f) = Some (p, q') /\
    fst (acquire_p_finish_old s t l f had inp) = unwait had t (leave_st s l f q') /\
    fst (acquire_p_finish s t l f had inp) = unwait had t (propagate_priority (leave_st s l f q') o).
Proof.
  intros W Hf Hlk Ho Hot. pose proof (objs_inrange s l f Hf) as Hl.
  destruct (pq_remove HQ (lpq (getl s l)) (Z.of_nat f)) as [[p q']|] eqn:Er.
  2:{ exfalso. eapply pq_remove_none; eauto. }
  exists p, q'. split; [reflexivity|].
  assert (E0 : match inp with
               | RVal _ => match take_lock s l t with inl s' => (s', RVal 1) | inr e => (s, RExc e) end
               | RExc e => (s, RExc e) end =
               (s, match inp with RVal _ => RExc EAssertion | RExc e => RExc e end)).
  { destruct inp; [|reflexivity]. unfold take_lock. now rewrite Ho. }
  assert (G : getl (leave_st s l f q') l =
              getl s l <| lpq := q' |> <| lwt := filter (notf f) (lwt (getl s l)) |>)
    by (unfold leave_st; now apply getl_setl_same).
  unfold acquire_p_finish, acquire_p_finish_old. rewrite E0. cbv zeta. rewrite Er.
  fold (notf f). fold (leave_st s l f q'). rewrite G. cbn [llocked lowner]. 
  change (llocked (getl s l <| lpq := q' |> <| lwt := filter (notf f) (lwt (getl s l)) |>))
    with (llocked (getl s l)).
  change (lowner (getl s l <| lpq := q' |> <| lwt := filter (notf f) (lwt (getl s l)) |>))
    with (lowner (getl s l)).
  rewrite Hlk, Ho. apply Nat.eqb_neq in Hot. rewrite Hot. cbn [fst]. split; reflexivity.
Qed.

(* ------------------------------------------------------------ the theorem *)
Theorem rekey_on_leave s t l f had inp o :
  Inv s -> lwt_ok s ->
  In f (objs s l) ->
  llocked (getl s l) = true -> lowner (getl s l) = Some o -> o <> t ->
  (forall l0 u, In (f, u) (lwt (getl s l0)) -> task_is_runnable s u = true) ->
  let s' := fst (acquire_p_finish s t l f had inp) in
  let sO := fst (acquire_p_finish_old s t l f had inp) in
  (* the lock stays locked by o; the leaving waiter's entry is gone *)
  (llocked (getl s' l) = true /\ lowner (getl s' l) = Some o /\ ~ In f (objs s' l)) /\
  (* compared with the old text only keys differ *)
  (forall u, (effective_priority s' u == effective_priority sO u)%Q) /\
  (forall l0, lwt (getl s' l0) = lwt (getl sO l0) /\
              Permutation (pq_objs (lpq (getl s' l0))) (pq_objs (lpq (getl sO l0))) /\
              forall e', In e' (arr (lpq (getl s' l0))) ->
                exists e, In e (arr (lpq (getl sO l0))) /\ eseq e' = eseq e /\ eobj e' = eobj e /\
                  ((epri e' == epri e)%Q \/
                   (epri e' == wprio s' (entry_task (getl s' l0) e'))%Q)) /\
  (forall l0, keyed sO l0 -> keyed s' l0) /\
  (* the blocked holder chain above o is keyed by current effective priorities *)
  (forall n w l1 f1, reaches s n o w -> n < efuel s -> blocked_on s w l1 f1 ->
     forall e, In e (arr (lpq (getl s' l1))) -> Z.to_nat (eobj e) = f1 ->
               (epri e == effective_priority s' w)%Q).
Proof.
  intros I L Hf Hlk Ho Hot Hrun s' sO.
  assert (W : allwf s) by (intros l0; apply (iB1 I)).
  pose proof (objs_inrange s l f Hf) as Hl.
  destruct (finish_shape s t l f had inp o W Hf Hlk Ho Hot) as (p & q' & Er & EO & EN).
  unfold s', sO. rewrite EO, EN. clear s' sO EO EN.
  set (s1 := leave_st s l f q'). set (s2 := propagate_priority s1 o).
  pose proof (left_allwf s l f p q' Hl W Er) as W1. fold s1 in W1.
  pose proof (left_lwt_ok s l f q' Hl L) as L1. fold s1 in L1.
  pose proof (rk_propagate_priority s1 o W1 L1) as R. fold s2 in R.
  pose proof (sv_propagate s1 o) as V. fold s2 in V.
  split; [|split; [|split; [|split]]].
  - rewrite !unwait_getl. unfold objs. rewrite unwait_getl.
    rewrite (lview_locked _ _ l (sv_l V)), (lview_owner _ _ l (sv_l V)).
    unfold s1. rewrite left_locked, left_owner by auto. split; [exact Hlk|]. split; [exact Ho|].
    intros Hin. apply (Permutation_in _ (rk_objs _ _ R l)) in Hin.
    revert Hin. apply (left_not_queued s l f p q' Hl W Er).
  - intros u. apply effective_priority_sim, unwait_esim, rk_esim, R.
  - intros l0. rewrite !unwait_getl. split; [apply (rk_lwt _ _ R)|]. split; [apply (rk_objs _ _ R)|].
    intros e' He'. destruct (rk_ent _ _ R l0 e' He') as (e & He & Sq & Ob & Ky).
    exists e. repeat split; auto. destruct Ky as [Ky|Ky]; [now left|right].
    rewrite Ky, unwait_wprio. rewrite (rk_entry_task s1 s2 l0 e e' R Ob). symmetry.
    apply wprio_sim, rk_esim, R.
  - intros l0 K e' He' Le'. rewrite unwait_getl in He'. rewrite unwait_getl, unwait_wprio.
    apply (rk_keyed s1 s2 l0 R).
    + intros e He Le. specialize (K e). rewrite unwait_getl, unwait_wprio in K. apply K; auto.
      unfold live, fdone in *. now rewrite unwait_getf.
    + exact He'.
    + unfold live, fdone in *. now rewrite unwait_getf in Le'.
  - intros n w l1 f1 Hre Hn Hb e He Hfe. rewrite unwait_getl in He. rewrite unwait_eprio.
    assert (Hne : f1 <> f).
    { intros ->. destruct Hb as (_ & B & _ & D & _). rewrite (Hrun _ _ D) in B. discriminate. }
    apply (propagate_rekeys_chain (efuel s1) s1 o n w l1 f1 W1 L1); auto.
    + apply (left_reaches s l f q' Hl Hrun). exact Hre.
    + unfold s1. rewrite left_efuel. exact Hn.
    + apply (left_blocked_on s l f q' Hl); auto.
Qed.


(* ------------------------------------------------------------ non-vacuity *)
(* the hypotheses hold in the reachable state istX of Sched/InheritStale.v (X = task 3 leaves
   lock 1, which stays locked by W1 = task 1; W1 is blocked on lock 0 with future 3), and the
   theorem, not a computation, gives: W1's entry in lock 0 is keyed by W1's effective priority
   after X's `finally` *)
Lemma istX_lwt0 : lwt (getl istX 0) = [(3, 1); (4, 2)].
Proof. vm_compute; reflexivity. Qed.
Lemma istX_lwt1 : lwt (getl istX 1) = [(6, 3)].
Proof. vm_compute; reflexivity. Qed.
Example istX_caller_runs : forall l0 u, In (6, u) (lwt (getl istX l0)) -> task_is_runnable istX u = true.
Proof.
  intros l0 u H. destruct l0 as [|[|l0]].
  - rewrite istX_lwt0 in H. destruct H as [E|[E|[]]]; discriminate.
  - rewrite istX_lwt1 in H. destruct H as [E|[]]. inversion E; subst u. vm_compute; reflexivity.
  - rewrite getl_oob in H by (vm_compute; lia). destruct H.
Qed.
Example istX_b1 : blocked_on istX 1 0 3.
Proof.
  unfold blocked_on. split; [vm_compute; reflexivity|]. split; [vm_compute; reflexivity|].
  split; [vm_compute; reflexivity|]. rewrite istX_lwt0. split; [simpl; auto|].
  intros f' Hf. destruct Hf as [E|[E|[]]]; inversion E; reflexivity.
Qed.
Example istX_rekey_by_theorem :
  forall e, In e (arr (lpq (getl istXnew 0))) -> Z.to_nat (eobj e) = 3 ->
            (epri e == effective_priority istXnew 1)%Q.
Proof.
  assert (Hq : In 6 (objs istX 1)) by (vm_compute; auto).
  assert (Hlk : llocked (getl istX 1) = true) by (vm_compute; reflexivity).
  assert (Ho : lowner (getl istX 1) = Some 1) by (vm_compute; reflexivity).
  assert (Hne : 1 <> 3) by lia.
  assert (Hn : 0 < efuel istX) by (unfold efuel; lia).
  destruct (rekey_on_leave istX 3 1 6 true (RExc ECancelled) 1
              (reachable_inv _ reachable_istX) (reach_lwt_ok _ reachable_istX)
              Hq Hlk Ho Hne istX_caller_runs) as (_ & _ & _ & _ & K).
  unfold istXnew. apply (K 0 1 0 3 (reach_here istX 1) Hn istX_b1).
Qed.

Print Assumptions rekey_on_leave.
Print Assumptions istX_rekey_by_theorem.
