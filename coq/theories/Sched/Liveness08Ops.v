(* C08 liveness: what the positional scheduling OPERATIONS of the library (as library calls of a
   running task, Model.lib_call) do to the position of a queued handle h on the list loop:
   sleep_insert, call_pos, task_reinsert, task_switch (with and without insert_pos), the
   HReinsert callback they schedule, task_throw.  Built from the primitives of Liveness08.v. *)
From Coq Require Import QArith.
From RecordUpdate Require Import RecordUpdate.
From Asynkit Require Import Base.Prelude Sched.Model Sched.QueuePosition Sched.Liveness08.
From Asynkit Require Sched.PartitionProofs.
Import RecordSetNotations.
Open Scope nat_scope.

(* sleep_insert(p): call_pos(0, task_reinsert, me, p) - every queued handle is pushed back by one
   (the re-insertion callback runs next; what it does is reinsert_cb_ahead) *)
Theorem sleep_insert_ahead s q t p h :
  ready s = RList q -> queued s h -> h <> length (handles s) ->
  let s' := fst (lib_call t (OSleepInsert p) s) in
  ready s' = RList (length (handles s) :: q) /\ queued s' h /\ ahead s' h = ahead s h + 1.
Proof.
  intros E Hq Hf s'. destruct (call_pos_ahead s q 0 (HReinsert t p) h E Hq Hf) as (A & B & C).
  subst s'. cbn [lib_call fst]. split; [rewrite A; destruct q; reflexivity|]. split; [exact B|]. rewrite C. reflexivity.
Qed.

(* call_pos(p, f): one entry in front of h exactly when p <= ahead *)
Theorem call_pos_op_ahead s q t p n h :
  ready s = RList q -> queued s h -> h <> length (handles s) ->
  let s' := fst (lib_call t (OCallPos p n) s) in
  queued s' h /\ ahead s' h = ahead s h + (if p <=? ahead s h then 1 else 0).
Proof.
  intros E Hq Hf s'. destruct (call_pos_ahead s q p (HLog n) h E Hq Hf) as (A & B & C).
  subst s'. cbn [lib_call fst]. auto.
Qed.

Lemma task_reinsert_eq s q t p i :
  ready s = RList q -> find_last (task_key s t) q = Some i ->
  task_reinsert s t p = (s <| ready := RList (insert_nth (remove_nth q i) p (nth i q 0)) |>, RVal 0).
Proof. intros E F. unfold task_reinsert. rewrite E. cbn [rq_find]. rewrite F. reflexivity. Qed.

(* task_reinsert(t', p) as a library call *)
Theorem task_reinsert_op_ahead s q t t' p i h :
  ready s = RList q -> find_last (task_key s t') q = Some i -> queued s h ->
  let s' := fst (lib_call t (OTaskReinsert t' p) s) in
  (i <> ahead s h -> nth i q 0 <> h ->
     let a := ahead s h - (if i <? ahead s h then 1 else 0) in
     queued s' h /\ ahead s' h = a + (if p <=? a then 1 else 0)) /\
  (i = ahead s h -> NoDup q -> queued s' h /\ ahead s' h = Nat.min p (length q - 1)).
Proof.
  intros E F Hq s'. destruct (task_reinsert_ahead s q t' p i h E F Hq) as (_ & B & C).
  subst s'. cbn [lib_call]. destruct (task_reinsert s t' p) as [s1 r]. cbn [fst] in *. auto.
Qed.

(* the callback scheduled by sleep_insert / task_switch(insert_pos): task_reinsert of the caller *)
Theorem reinsert_cb_ahead s q t p i h :
  ready s = RList q -> find_last (task_key s t) q = Some i -> queued s h ->
  let s' := run_callback (HReinsert t p) s in
  (i <> ahead s h -> nth i q 0 <> h ->
     let a := ahead s h - (if i <? ahead s h then 1 else 0) in
     queued s' h /\ ahead s' h = a + (if p <=? a then 1 else 0)) /\
  (i = ahead s h -> NoDup q -> queued s' h /\ ahead s' h = Nat.min p (length q - 1)).
Proof.
  intros E F Hq s'. destruct (task_reinsert_ahead s q t p i h E F Hq) as (_ & B & C).
  subst s'. cbn [run_callback]. rewrite (task_reinsert_eq s q t p i E F) in *. cbn [fst] in *. auto.
Qed.

(* task_switch(t', insert_pos): t' goes to the front; with an insert_pos the caller's
   re-insertion callback is put in front of that.  h not targeted: one (or two) entries appear in
   front of it, minus one when t' was already ahead of it.  h = the handle of t': it becomes
   the head (or second, behind the callback). *)
Theorem task_switch_ahead s q t t' p i h :
  ready s = RList q -> find_last (task_key s t') q = Some i -> queued s h ->
  h <> length (handles s) ->
  let s' := fst (lib_call t (OTaskSwitch t' p) s) in
  let k := match p with None => 0 | Some _ => 1 end in
  (i <> ahead s h -> nth i q 0 <> h ->
     queued s' h /\ ahead s' h = ahead s h - (if i <? ahead s h then 1 else 0) + 1 + k) /\
  (i = ahead s h -> NoDup q -> queued s' h /\ ahead s' h = k).
Proof.
  intros E F Hq Hf s' k. destruct (task_reinsert_ahead s q t' 0 i h E F Hq) as (A & B & C).
  pose proof (task_reinsert_eq s q t' 0 i E F) as Eq. rewrite Eq in A, B, C. cbn [fst] in A, B, C.
  subst s'. cbn [lib_call]. rewrite Eq.
  set (s1 := s <| ready := RList (insert_nth (remove_nth q i) 0 (nth i q 0)) |>) in *.
  assert (Hh : handles s1 = handles s) by reflexivity.
  destruct p as [p|]; cbn [fst]; subst k.
  - split.
    + intros Hi Hn. destruct (B Hi Hn) as [B1 B2]. cbv zeta in B2.
      destruct (call_pos_ahead s1 _ 0 (HReinsert t p) h A B1) as (_ & D1 & D2); [now rewrite Hh|].
      split; [exact D1|]. rewrite D2, B2. cbn. lia.
    + intros Hi N. destruct (C Hi N) as [C1 C2].
      destruct (call_pos_ahead s1 _ 0 (HReinsert t p) h A C1) as (_ & D1 & D2); [now rewrite Hh|].
      split; [exact D1|]. rewrite D2, C2. cbn. lia.
  - split.
    + intros Hi Hn. destruct (B Hi Hn) as [B1 B2]. cbv zeta in B2. split; [exact B1|]. rewrite B2. cbn. lia.
    + intros Hi N. destruct (C Hi N) as [C1 C2]. split; [exact C1|]. rewrite C2. cbn. lia.
Qed.

(* task_switch of a task that is not runnable: ValueError, the state is unchanged *)
Theorem task_switch_none s q t t' p :
  ready s = RList q -> find_last (task_key s t') q = None ->
  lib_call t (OTaskSwitch t' p) s = (s, LDone (RExc EValue)).
Proof. intros E F. cbn [lib_call]. rewrite (task_reinsert_none s q t' 0 E F). reflexivity. Qed.

(* task_throw(t, e): refused (state unchanged), or t was blocked (its new step handle is
   appended, nobody moves), or t was runnable: its last queued handle (index i) is REMOVED and a
   new handle appended - h moves forward by one if that handle was ahead of it, and h is gone
   when it is that handle *)
Theorem task_throw_ahead s q t e s' r h :
  ready s = RList q -> queued s h -> task_throw s t e = (s', r) ->
  s' = s \/
  (ready s' = RList (q ++ [length (handles s)]) /\ queued s' h /\ ahead s' h = ahead s h) \/
  (exists i, find_last (task_key s t) q = Some i /\
     ready s' = RList (remove_nth q i ++ [length (handles s)]) /\
     (i <> ahead s h ->
        queued s' h /\ ahead s' h = ahead s h - (if i <? ahead s h then 1 else 0)) /\
     (i = ahead s h -> NoDup q -> h <> length (handles s) -> nth i q 0 = h /\ ~ queued s' h)).
Proof.
  intros E Hq T.
  destruct (PartitionProofs.task_throw_cases s t e s' r T) as [[-> _]|(_ & _ & _ & H)]; [auto|]. right.
  unfold queued, ahead, items in *. rewrite E in *. cbn [rq_items] in *.
  destruct H as [(f & _ & _ & ->)|(h0 & r' & _ & _ & F & ->)].
  - left. unfold PartitionProofs.throw_go, call_soon_, call_soon, remove_done_callback, sett, setf. cbn.
    rewrite E. cbn [rq_append rq_items]. split; [reflexivity|]. split; [apply in_or_app; auto|].
    now apply ahead_app.
  - right. cbn [rq_find] in F. destruct (find_last (task_key s t) q) as [i|] eqn:FL; [|discriminate].
    inversion F; subst. exists i. split; [reflexivity|].
    unfold PartitionProofs.throw_go, call_soon_, call_soon, sett. cbn.
    destruct (find_remove_ahead q _ i h FL Hq) as (_ & R2 & R3). split; [reflexivity|]. split.
    + intros Hi. destruct (R2 Hi) as [A B]. split; [apply in_or_app; auto|]. rewrite ahead_app by auto. exact B.
    + intros Hi N Hf. destruct (R3 Hi N) as [A B]. split; [exact A|]. intros C.
      apply in_app_or in C. destruct C as [C|[C|[]]]; [auto|congruence].
Qed.
