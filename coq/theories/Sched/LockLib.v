(* C13: every library call and every frame resumption of the model preserves the
   PriorityLock invariant. *)
From Coq Require Import QArith Sorting.Permutation.
From RecordUpdate Require Import RecordUpdate.
From Asynkit Require Import Base.Prelude Queue.PQ Queue.Order Queue.PosPQ Queue.Exec Sched.Model
  Sched.Tables Sched.QFacts Sched.LockInv Sched.Footprint Sched.LockOps.
Import RecordSetNotations.
Open Scope nat_scope.

Definition inert (fr : frame) : bool :=
  match fr with InAcquireP _ _ _ | InAcquireA _ _ => false | _ => true end.

Lemma pend_inert s frs : Forall (fun fr => inert fr = true) frs -> pend s frs.
Proof.
  intros H. rewrite Forall_forall in H. apply pend_no_acq.
  - intros fr Hin. specialize (H _ Hin). destruct fr; simpl in *; auto; discriminate.
  - intros l f Hin. specialize (H _ Hin). discriminate.
Qed.

Lemma pend_app s frs rest :
  pend s frs -> no_acq rest ->
  (forall l f, In (InAcquireA l f) rest -> lkind_ (getl s l) = LPlain) -> pend s (frs ++ rest).
Proof.
  intros (Hs & Ha & Hk) Hn Hr. split; [|split].
  - destruct Hs as [Hs|(l & f & had & r0 & -> & Hr0)].
    + left. now apply no_acq_app.
    + right. exists l, f, had, (r0 ++ rest). split; [reflexivity|]. now apply no_acq_app.
  - intros l f had Hin. apply in_app_or in Hin as [Hin|Hin]; [eapply Ha; eauto|].
    exfalso. eapply no_acq_in; eauto.
  - intros l f Hin. apply in_app_or in Hin as [Hin|Hin]; [eapply Hk; eauto|eapply Hr; eauto].
Qed.

Lemma pend_kind s s' frs :
  (forall l, lkind_ (getl s' l) = lkind_ (getl s l)) -> no_acq frs ->
  (forall l f, In (InAcquireA l f) frs -> lkind_ (getl s l) = LPlain) ->
  (forall l f, In (InAcquireA l f) frs -> lkind_ (getl s' l) = LPlain).
Proof. intros K _ H l f Hin. rewrite K. eauto. Qed.

(* ---------------------------------------------------------------- asyncio.Lock *)
Lemma fut_finish_conds s f x :
  conds (fst (fut_finish s f x)) = conds s /\ events (fst (fut_finish s f x)) = events s.
Proof.
  unfold fut_finish. destruct (fstate_ (getf s f)); cbn [fst]; auto.
  unfold schedule_callbacks.
  match goal with |- context [fold_left ?F ?L ?S] =>
    assert (H : forall cbs s1, conds (fold_left F cbs s1) = conds s1 /\ events (fold_left F cbs s1) = events s1)
  end.
  { induction cbs as [|c cbs IH]; intros s1; simpl; auto. destruct (IH (call_soon_ s1 (cb_callback f c))). auto. }
  match goal with |- context [fold_left ?F ?L ?S] => destruct (H L S) as [A B] end.
  rewrite A, B. auto.
Qed.

Lemma benign_wake_a s l : Inv s -> benign s (wake_up_first_a s l).
Proof.
  intros I. unfold wake_up_first_a. destruct (ldq (getl s l)) as [|f r] eqn:E; [apply benign_refl|].
  destruct (fdone s f); [apply benign_refl|]. apply benign_fut_finish; auto. right.
  intros Hl. apply (iD2 I _ Hl). apply (foreign_ldq s l). rewrite E. now left.
Qed.

Lemma benign_acquire_a_start s l :
  Inv s -> lkind_ (getl s l) = LPlain ->
  benign s (fst (acquire_a_start s l)) /\
  (forall y frs, snd (acquire_a_start s l) = LSusp y frs -> pend (fst (acquire_a_start s l)) frs).
Proof.
  intros I Hk. unfold acquire_a_start.
  destruct (negb (llocked (getl s l)) && forallb (fun w => fcancelled s w) (ldq (getl s l)))%bool.
  - cbn [fst snd]. split; [|intros; discriminate].
    apply chg_setl_plain; [reflexivity|reflexivity|reflexivity|right; exact Hk|intros g Hg; now left].
  - set (f := length (futs s)). set (s1 := fst (new_future s None)).
    change (new_future s None) with (s1, f). cbv beta iota.
    assert (B1 : benign s s1) by apply chg_new_future.
    pose proof (Inv_benign s s1 B1 I) as I1.
    set (s2 := setl s1 l (getl s1 l <| ldq := ldq (getl s1 l) ++ [f] |>)).
    assert (B2 : benign s1 s2).
    { apply chg_setl_plain; [reflexivity|reflexivity|reflexivity|left; reflexivity|].
      intros g Hg. cbn in Hg. apply in_app_or in Hg as [Hg|[<-|[]]]; [now left|].
      right. split.
      - unfold s1. rewrite new_future_len. unfold f. lia.
      - intros H. apply (benign_lockfut s s1 f B1) in H. now apply (fresh_not_lockfut s I). }
    set (s3 := setf s2 f (getf s2 f <| fblock := true |>)).
    assert (B3 : benign s2 s3) by (apply chg_setf_flag; reflexivity).
    cbn [fst snd]. split.
    + eapply benign_trans; [exact B1|]. eapply benign_trans; [exact B2|exact B3].
    + intros y frs Hy. inversion Hy; subst y frs. apply pend_no_acq.
      * intros fr [<-|[<-|[]]]; reflexivity.
      * intros l0 f0 [H|[H|[]]]; [discriminate|]. inversion H; subst l0 f0.
        change (getl s3 l) with (getl s2 l).
        rewrite (benign_kind s1 s2 l B2), (benign_kind s s1 l B1). exact Hk.
Qed.

Lemma benign_acquire_a_finish s l f inp :
  Inv s -> lkind_ (getl s l) = LPlain -> benign s (fst (acquire_a_finish s l f inp)).
Proof.
  intros I Hk. unfold acquire_a_finish.
  set (s1 := setl s l (getl s l <| ldq := filter (fun x => negb (Nat.eqb x f)) (ldq (getl s l)) |>)).
  assert (B1 : benign s s1).
  { apply chg_setl_plain; [reflexivity|reflexivity|reflexivity|left; reflexivity|].
    intros g Hg. cbn in Hg. apply filter_In in Hg as [Hg _]. now left. }
  pose proof (Inv_benign s s1 B1 I) as I1.
  destruct inp as [v|e].
  - cbn [fst]. eapply benign_trans; [exact B1|].
    apply chg_setl_plain; [reflexivity|reflexivity|reflexivity| |intros g Hg; now left].
    right. rewrite (benign_kind s s1 l B1). exact Hk.
  - destruct (is_cancel e); [|exact B1]. cbn [fst].
    destruct (llocked (getl s1 l)); [exact B1|]. eapply benign_trans; [exact B1|]. now apply benign_wake_a.
Qed.

Lemma benign_release_a s l :
  Inv s -> lkind_ (getl s l) = LPlain -> benign s (fst (release_a s l)).
Proof.
  intros I Hk. unfold release_a. destruct (llocked (getl s l)); [|apply benign_refl]. cbn [fst].
  set (s1 := setl s l (getl s l <| llocked := false |>)).
  assert (B1 : benign s s1).
  { apply chg_setl_plain; [reflexivity|reflexivity|reflexivity|right; exact Hk|intros g Hg; now left]. }
  eapply benign_trans; [exact B1|]. apply benign_wake_a. eapply Inv_benign; eauto.
Qed.

(* ---------------------------------------------------------------- acquire / release *)
Lemma acquire_start_ext s t l :
  Inv s -> t < length (tasks s) ->
  ext s (fst (acquire_start s t l)) /\
  (forall y frs, snd (acquire_start s t l) = LSusp y frs -> pend (fst (acquire_start s t l)) frs).
Proof.
  intros I Ht. unfold acquire_start. destruct (lkind_ (getl s l)) eqn:Ek.
  - now apply acquire_p_start_ext.
  - destruct (benign_acquire_a_start s l I Ek) as [B P]. split; auto. now apply ext_benign.
Qed.

Lemma release_ext s t l : Inv s -> lstep s (fst (release s t l)) \/ benign s (fst (release s t l)).
Proof.
  intros I. unfold release. destruct (lkind_ (getl s l)) eqn:Ek.
  - left. now apply lstep_release_p.
  - right. now apply benign_release_a.
Qed.

Lemma wake_p_conds s l : conds (wake_up_first_p s l) = conds s.
Proof.
  unfold wake_up_first_p. destruct (arr (lpq (getl s l))); auto.
  match goal with |- context [if ?b then _ else _] => destruct b end; auto.
  match goal with |- context [if ?b then _ else _] => destruct b end; auto.
  apply fut_finish_conds.
Qed.

Lemma release_facts s t l :
  Inv s -> let s' := fst (release s t l) in
  ext s s' /\ length (futs s') = length (futs s) /\ (forall f, lockfut s' f -> lockfut s f) /\
  length (tasks s') = length (tasks s) /\ conds s' = conds s.
Proof.
  intros I s'. unfold s', release. destruct (lkind_ (getl s l)) eqn:Ek.
  - pose proof (lstep_release_p s t l I) as L. split; [apply ext_lstep; [exact L|now apply WF4_release_p]|].
    split; [apply (ls_nfuts L)|]. split; [intros f [l0 H]; exists l0; now apply (ls_objs L)|].
    split; [apply (ls_ntasks L)|].
    unfold release_p. destruct (negb (llocked (getl s l))); auto.
    destruct (lowner (getl s l)); auto. destruct (negb (Nat.eqb n t)); auto. cbn [fst].
    rewrite wake_p_conds. destruct (is_prio_task _ t); reflexivity.
  - pose proof (benign_release_a s l I Ek) as B. split; [now apply ext_benign|].
    assert (P : length (futs (fst (release_a s l))) = length (futs s) /\
                length (tasks (fst (release_a s l))) = length (tasks s) /\
                conds (fst (release_a s l)) = conds s).
    { unfold release_a. destruct (llocked (getl s l)); auto. cbn [fst].
      unfold wake_up_first_a. cbn [getl]. destruct (ldq _); auto. destruct (fdone _ _); auto.
      match goal with |- context [fut_finish ?S ?F ?X] =>
        destruct (fut_finish_proj S F X) as (A & B' & _); destruct (fut_finish_conds S F X) as [C _] end.
      rewrite A, B', C. auto. }
    destruct P as (P1 & P2 & P3). split; auto. split; auto.
    intros f. apply (benign_lockfut s _ f B).
Qed.

(* ---------------------------------------------------------------- events and conditions *)
Lemma benign_event_fold lst : forall s,
  Inv s -> (forall f, In f lst -> ~ lockfut s f) ->
  benign s (fold_left (fun s f => if fdone s f then s else fst (fut_finish s f (FResult 1))) lst s).
Proof.
  induction lst as [|f lst IH]; intros s I H; simpl; [apply benign_refl|].
  assert (B : benign s (if fdone s f then s else fst (fut_finish s f (FResult 1)))).
  { destruct (fdone s f); [apply benign_refl|]. apply benign_fut_finish; auto. right. apply H. now left. }
  eapply benign_trans; [exact B|]. apply IH; [eapply Inv_benign; eauto|].
  intros g Hg Hl. apply (benign_lockfut _ _ g B) in Hl. revert Hl. apply H. now right.
Qed.

Lemma benign_notify_i_fold n lst : forall s cnt,
  Inv s -> (forall f, In f lst -> ~ lockfut s f) ->
  benign s (fst (fold_left (fun '(s, cnt) f =>
                    if Nat.leb n cnt then (s, cnt)
                    else if fdone s f then (s, cnt)
                    else (fst (fut_finish s f (FResult 0)), S cnt)) lst (s, cnt))).
Proof.
  induction lst as [|f lst IH]; intros s cnt I H; simpl; [apply benign_refl|].
  destruct (Nat.leb n cnt); [apply IH; auto; intros g Hg; apply H; now right|].
  destruct (fdone s f); [apply IH; auto; intros g Hg; apply H; now right|].
  assert (B : benign s (fst (fut_finish s f (FResult 0)))).
  { apply benign_fut_finish; auto. right. apply H. now left. }
  eapply benign_trans; [exact B|]. apply IH; [eapply Inv_benign; eauto|].
  intros g Hg Hl. apply (benign_lockfut _ _ g B) in Hl. revert Hl. apply H. now right.
Qed.

Lemma benign_notify_i s c n : Inv s -> benign s (notify_i s c n).
Proof.
  intros I. unfold notify_i. apply benign_notify_i_fold; auto.
  intros f Hf Hl. apply (iD2 I _ Hl). eapply foreign_cdq; eauto.
Qed.

Lemma notify_p_fold n lst : forall s taken cnt,
  Inv s -> (forall f, In f lst -> ~ lockfut s f) ->
  let r := fold_left (fun '(s, taken, cnt) f =>
                 if Nat.leb n cnt then (s, taken, cnt)
                 else if fdone s f then (s, S taken, cnt)
                 else (fst (fut_finish s f (FResult 1)), S taken, S cnt)) lst (s, taken, cnt) in
  benign s (fst (fst r)) /\ conds (fst (fst r)) = conds s.
Proof.
  induction lst as [|f lst IH]; intros s taken cnt I H; simpl; [split; [apply benign_refl|reflexivity]|].
  destruct (Nat.leb n cnt); [apply IH; auto; intros g Hg; apply H; now right|].
  destruct (fdone s f); [apply IH; auto; intros g Hg; apply H; now right|].
  assert (B : benign s (fst (fut_finish s f (FResult 1)))).
  { apply benign_fut_finish; auto. right. apply H. now left. }
  destruct (IH (fst (fut_finish s f (FResult 1))) (S taken) (S cnt)) as [B2 C2].
  - eapply Inv_benign; eauto.
  - intros g Hg Hl. apply (benign_lockfut _ _ g B) in Hl. revert Hl. apply H. now right.
  - split; [eapply benign_trans; eauto|]. simpl in C2. rewrite C2. apply fut_finish_conds.
Qed.

Lemma benign_notify_p s c n : Inv s -> benign s (notify_p s c n).
Proof.
  intros I. unfold notify_p.
  set (order := map (fun e => Z.to_nat (eobj e)) (arr (pq_sort HQ (cpq (getc s c))))).
  assert (Hord : forall f, In f order -> ~ lockfut s f).
  { intros f Hf Hl. apply (iD2 I _ Hl). apply (foreign_cpq s c). unfold order in Hf.
    change (In f (pq_objs (pq_sort HQ (cpq (getc s c))))) in Hf. rewrite pq_objs_eq in *.
    eapply Permutation_in; [apply objs_of_perm, (stable_sort_perm HQ)|]. exact Hf. }
  pose proof (notify_p_fold n order s 0 0 I Hord) as H. cbv zeta in H.
  destruct (fold_left _ order (s, 0, 0)) as [[s1 taken] cnt]. cbn [fst] in H. destruct H as [B1 C1].
  eapply benign_trans; [exact B1|].
  assert (Eg : getc s1 c = getc s c) by (unfold getc; now rewrite C1).
  destruct (pq_take_inv (cpq (getc s c)) (if Nat.leb n 0 then 0 else taken) (iB2 I c)) as [Hi Hp].
  apply chg_setc.
  - intros f Hf. cbn in Hf. left. rewrite Eg. eapply Permutation_in; [exact Hp|exact Hf].
  - intros f Hf. cbn in Hf. now left.
  - intros _. cbn. exact Hi.
Qed.

Lemma benign_cond_p_after s c r : Inv s -> benign s (fst (cond_p_after s c r)).
Proof.
  intros I. unfold cond_p_after. destruct r; [apply benign_refl|]. cbn [fst]. now apply benign_notify_p.
Qed.

Lemma ext_cond_p_after s c r : Inv s -> ext s (fst (cond_p_after s c r)).
Proof. intros I. apply ext_benign; auto. now apply benign_cond_p_after. Qed.

(* the retry loop of _released.__aexit__ / InterruptCondition.wait *)
Lemma reacquire_ext s t c pc err body :
  Inv s -> t < length (tasks s) ->
  ext s (fst (reacquire s t c pc err body)) /\
  (forall y frs, snd (reacquire s t c pc err body) = LSusp y frs ->
                 pend (fst (reacquire s t c pc err body)) frs).
Proof.
  intros I Ht. unfold reacquire.
  destruct (acquire_start_ext s t (clock (getc s c)) I Ht) as [E P].
  destruct (acquire_start s t (clock (getc s c))) as [s1 r]. cbn [fst snd] in *.
  destruct r as [[v|e]|y frs]; cbn [fst snd]; split; auto; try (intros; discriminate).
  intros y0 frs0 H. inversion H; subst y0 frs0. apply pend_app.
  - eapply P; eauto.
  - intros fr [<-|[]]. destruct pc; reflexivity.
  - intros l f [H0|[]]. destruct pc; discriminate.
Qed.

(* ---------------------------------------------------------------- lib_call *)
(* user code may not complete the future of a current PriorityLock waiter (it cannot
   obtain that future in the real system) *)
Definition op_safe (s : st) (op : libop) : Prop :=
  match op with OSetResult f _ | OSetExc f _ => ~ lockfut s f | _ => True end.
Definition needs_task (op : libop) : bool := match op with OAcquire _ => true | _ => false end.

Lemma ext_step_benign s0 s s' : ext s0 s -> benign s s' -> ext s0 s'.
Proof. intros E B. eapply ext_trans; [exact E|]. apply ext_benign; auto. apply E. Qed.

Lemma fin_benign s s' (r : lres) :
  Inv s -> benign s s' -> (forall y frs, r = LSusp y frs -> Forall (fun fr => inert fr = true) frs) ->
  ext s s' /\ (forall y frs, r = LSusp y frs -> pend s' frs).
Proof.
  intros I B H. split; [now apply ext_benign|]. intros y frs Hy. apply pend_inert. eapply H; eauto.
Qed.

Ltac inert_tac :=
  let y := fresh "y" in let frs := fresh "frs" in let Hy := fresh "Hy" in
  intros y frs Hy; try discriminate; inversion Hy; subst; repeat constructor.

Ltac pend_tac :=
  let y := fresh "y" in let frs := fresh "frs" in let Hy := fresh "Hy" in
  intros y frs Hy; try discriminate; inversion Hy; subst; apply pend_inert; repeat constructor.

Lemma interruptor_inert fuel : forall s b i y frs,
  snd (interruptor fuel s b i) = LSusp y frs -> Forall (fun fr => inert fr = true) frs.
Proof.
  induction fuel as [|fuel IH]; intros s b i y frs; cbn [interruptor]; [discriminate|].
  destruct (Nat.leb 3 i); [discriminate|].
  destruct (negb (bactive (getb s b))); [apply IH|].
  unfold task_interrupt_start.
  destruct (task_throw s (btask (getb s b)) (ETimeoutInt b)) as [s1 r]. destruct r as [v|e].
  - destruct (task_reinsert s1 (btask (getb s b)) 0) as [s2 r2]. destruct r2 as [v2|e2]; cbn [snd].
    + intros H. inversion H; subst. repeat constructor.
    + destruct e2; try discriminate. destruct (Nat.eqb i 2); [discriminate|].
      intros H. inversion H; subst. repeat constructor.
  - cbn [snd]. destruct e; try discriminate. destruct (Nat.eqb i 2); [discriminate|].
    intros H. inversion H; subst. repeat constructor.
Qed.

Lemma interruptor_wrap_snd s r y frs :
  snd (interruptor_wrap s r) = LSusp y frs -> r = LSusp y frs.
Proof.
  unfold interruptor_wrap. destruct r as [[v|e]|y0 frs0]; cbn; auto; try discriminate.
  destruct (is_exception e); cbn; discriminate.
Qed.

Lemma task_interrupt_start_inert s t e y frs :
  snd (task_interrupt_start s t e) = LSusp y frs -> Forall (fun fr => inert fr = true) frs.
Proof.
  unfold task_interrupt_start. destruct (task_throw s t e) as [s1 r]. destruct r; [|discriminate].
  destruct (task_reinsert s1 t 0) as [s2 r2]. destruct r2; [|discriminate]. cbn.
  intros H. inversion H; subst. repeat constructor.
Qed.

Theorem lib_call_ext t op s :
  Inv s -> op_safe s op -> (needs_task op = true -> t < length (tasks s)) ->
  ext s (fst (lib_call t op s)) /\
  (forall y frs, snd (lib_call t op s) = LSusp y frs -> pend (fst (lib_call t op s)) frs).
Proof.
  intros I Hs Hn. destruct op; cbn [lib_call].
  - (* OLog *) apply fin_benign; auto; [apply chg_core_eq; reflexivity|inert_tac].
  - (* OSleep0 *) apply fin_benign; auto; [apply benign_refl|inert_tac].
  - (* OSleep *)
    set (f := length (futs s)). set (s1 := fst (new_future s None)).
    change (new_future s None) with (s1, f). cbv beta iota.
    assert (B1 : benign s s1) by apply chg_new_future.
    pose proof (chg_call_at (notlf s1) s1 (Qplus (now s1) d) (HSetResult f 0)) as B2.
    destruct (call_at s1 (Qplus (now s1) d) (HSetResult f 0)) as [s2 h]. cbn [fst snd] in *.
    apply fin_benign; auto; [|inert_tac].
    eapply benign_trans; [exact B1|]. eapply benign_trans; [apply B2|apply chg_setf_flag; reflexivity].
    split; [exact Logic.I|]. intros f0 v0 E. inversion E; subst f0 v0. split.
    + unfold s1. rewrite new_future_len. unfold f. lia.
    + intros H. apply (benign_lockfut s s1 f B1) in H. now apply (fresh_not_lockfut s I).
  - (* ONewFut *) cbn [fst snd]. apply fin_benign; auto; [apply chg_new_future|inert_tac].
  - (* OAwaitFut *)
    pose proof (chg_await_fut (notlf s) s f []) as B. unfold await_fut in *.
    destruct (fdone s f).
    + destruct (fut_result s f) as [s' r]. cbn [fst snd] in *. apply fin_benign; auto. inert_tac.
    + cbn [fst snd] in *. apply fin_benign; auto. inert_tac.
  - (* OAwaitTask *)
    pose proof (chg_await_fut (notlf s) s (tfut (gett s t0)) []) as B. unfold await_fut in *.
    destruct (fdone s (tfut (gett s t0))).
    + destruct (fut_result s _) as [s' r]. cbn [fst snd] in *. apply fin_benign; auto. inert_tac.
    + cbn [fst snd] in *. apply fin_benign; auto. inert_tac.
  - (* OSetResult *)
    pose proof (benign_fut_finish s f (FResult v) I (or_intror Hs)) as B.
    destruct (fut_finish s f (FResult v)) as [s' ok]. cbn [fst snd] in *. apply fin_benign; auto. inert_tac.
  - (* OSetExc *)
    pose proof (benign_fut_finish s f (FExc e) I (or_intror Hs)) as B.
    destruct (fut_finish s f (FExc e)) as [s' ok]. cbn [fst snd] in *. apply fin_benign; auto. inert_tac.
  - (* OFutCancel *)
    pose proof (benign_fut_finish s f FCancelled I (or_introl eq_refl)) as B.
    destruct (fut_finish s f FCancelled) as [s' ok]. cbn [fst snd] in *. apply fin_benign; auto. inert_tac.
  - (* OCancel *)
    pose proof (benign_cancel_task s t0 I) as B.
    destruct (cancel_task s t0) as [s' ok]. cbn [fst snd] in *. apply fin_benign; auto. inert_tac.
  - (* OEventWait *)
    destruct (evalue (gete s e)); [apply fin_benign; auto; [apply benign_refl|inert_tac]|].
    set (f := length (futs s)). set (s1 := fst (new_future s None)).
    change (new_future s None) with (s1, f). cbv beta iota.
    assert (B1 : benign s s1) by apply chg_new_future.
    cbn [fst snd]. apply fin_benign; auto; [|inert_tac].
    eapply benign_trans; [exact B1|]. eapply benign_trans; [|apply chg_setf_flag; reflexivity].
    apply chg_sete. intros g Hg. cbn in Hg. apply in_app_or in Hg as [Hg|[<-|[]]]; [now left|].
    right. split.
    + unfold s1. rewrite new_future_len. unfold f. lia.
    + intros H. apply (benign_lockfut s s1 f B1) in H. now apply (fresh_not_lockfut s I).
  - (* OEventSet *)
    destruct (evalue (gete s e)); [apply fin_benign; auto; [apply benign_refl|inert_tac]|].
    cbn [fst snd]. apply fin_benign; auto; [|inert_tac].
    set (s1 := sete s e (mkEv true (ewaiters (gete s e)))).
    assert (B1 : benign s s1) by (apply chg_sete; intros g Hg; now left).
    eapply benign_trans; [exact B1|]. apply benign_event_fold; [eapply Inv_benign; eauto|].
    intros g Hg Hl. apply (benign_lockfut s s1 g B1) in Hl. apply (iD2 I _ Hl).
    apply (foreign_ev s e). unfold s1 in Hg. rewrite gete_sete, Nat.eqb_refl in Hg. simpl in Hg.
    destruct (Nat.ltb e (length (events s))); exact Hg.
  - (* OEventClear *)
    cbn [fst snd]. apply fin_benign; auto; [|inert_tac]. apply chg_sete; intros g Hg; now left.
  - (* OAcquire *) apply acquire_start_ext; auto.
  - (* ORelease *)
    destruct (release_facts s t l I) as (E & _). destruct (release s t l) as [s' r]. cbn [fst snd] in *.
    split; auto. intros; discriminate.
  - (* OCondWait *)
    destruct (negb (cond_locked s c)); [apply fin_benign; auto; [apply benign_refl|inert_tac]|].
    destruct (ckind_ (getc s c)).
    + set (f := length (futs s)). set (s1 := fst (new_future s None)).
      change (new_future s None) with (s1, f). cbv beta iota.
      assert (B1 : benign s s1) by apply chg_new_future.
      pose proof (Inv_benign s s1 B1 I) as I1.
      destruct (release_facts s1 t (clock (getc s c)) I1) as (E2 & Hf2 & Hl2 & _ & _).
      destruct (release s1 t (clock (getc s c))) as [s2 rr]. cbn [fst snd] in *.
      pose proof (ext_trans s s1 s2 (ext_benign s s1 I B1) E2) as E02.
      destruct rr as [v|e].
      * cbn [fst snd]. split; [|pend_tac].
        eapply ext_step_benign; [exact E02|].
        eapply benign_trans; [|apply chg_setf_flag; reflexivity].
        apply chg_setc.
        -- intros g Hg. cbn in Hg. apply pq_add_in in Hg as [->|Hg]; [|now left]. right. split.
           ++ rewrite Hf2. unfold s1. rewrite new_future_len. unfold f. lia.
           ++ intros H. apply Hl2 in H. apply (benign_lockfut s s1 f B1) in H. now apply (fresh_not_lockfut s I).
        -- intros g Hg. now left.
        -- intros H. cbn. now apply PQInv_add.
      * pose proof (ext_cond_p_after s2 c (RExc e) (ext_inv s s2 E02)) as E3.
        destruct (cond_p_after s2 c (RExc e)) as [s3 r3]. cbn [fst snd] in *.
        split; [eapply ext_trans; eauto|intros; discriminate].
    + destruct (release_facts s t (clock (getc s c)) I) as (E1 & Hf1 & Hl1 & _ & _).
      destruct (release s t (clock (getc s c))) as [s1 rr]. cbn [fst snd] in *.
      destruct rr as [v|e]; [|cbn [fst snd]; split; [auto|intros; discriminate]].
      pose proof (ext_inv s s1 E1) as I1.
      set (f := length (futs s1)). set (s2 := fst (new_future s1 None)).
      change (new_future s1 None) with (s2, f). cbv beta iota.
      assert (B2 : benign s1 s2) by apply chg_new_future.
      cbn [fst snd]. split; [|pend_tac].
      eapply ext_step_benign; [eapply ext_step_benign; [exact E1|exact B2]|].
      eapply benign_trans; [|apply chg_setf_flag; reflexivity].
      apply chg_setc.
      * intros g Hg. now left.
      * intros g Hg. cbn in Hg. apply in_app_or in Hg as [Hg|[<-|[]]]; [now left|]. right. split.
        -- unfold s2. rewrite new_future_len. unfold f. lia.
        -- intros H. apply (benign_lockfut s1 s2 f B2) in H. now apply (fresh_not_lockfut s1 I1).
      * intros H. exact H.
  - (* OCondNotify *)
    destruct (negb (cond_locked s c)); [apply fin_benign; auto; [apply benign_refl|inert_tac]|].
    cbn [fst snd]. apply fin_benign; auto; [|inert_tac].
    destruct (ckind_ (getc s c)); [now apply benign_notify_p|now apply benign_notify_i].
  - (* OCondNotifyAll *)
    destruct (negb (cond_locked s c)); [apply fin_benign; auto; [apply benign_refl|inert_tac]|].
    cbn [fst snd]. apply fin_benign; auto; [|inert_tac].
    destruct (ckind_ (getc s c)); [now apply benign_notify_p|now apply benign_notify_i].
  - (* OSleepInsert *)
    cbn [fst snd]. apply fin_benign; auto; [|inert_tac]. apply chg_call_pos.
    split; [exact Logic.I|intros; discriminate].
  - (* OTaskSwitch *)
    pose proof (benign_task_reinsert s t0 0) as B. destruct (task_reinsert s t0 0) as [s1 r]. cbn [fst] in B.
    destruct r as [v|e]; [|apply fin_benign; auto; inert_tac].
    destruct p as [p|]; cbn [fst snd].
    + apply fin_benign; [exact I| |inert_tac].
      eapply benign_trans; [exact B|]. apply chg_call_pos. split; [exact Logic.I|intros; discriminate].
    + apply fin_benign; [exact I|exact B|inert_tac].
  - (* OTaskReinsert *)
    pose proof (benign_task_reinsert s t0 p) as B. destruct (task_reinsert s t0 p) as [s1 r]. cbn [fst snd] in *.
    apply fin_benign; auto. inert_tac.
  - (* OCallSoon *) cbn [fst snd]. apply fin_benign; auto; [apply chg_call_soon, cb_ok_log|inert_tac].
  - (* OCallPos *) cbn [fst snd]. apply fin_benign; auto; [apply chg_call_pos, cb_ok_log|inert_tac].
  - (* OTaskThrow *)
    pose proof (benign_task_throw s t0 e) as B. destruct (task_throw s t0 e) as [s1 r]. cbn [fst snd] in *.
    apply fin_benign; auto. inert_tac.
  - (* OTaskInterrupt *)
    apply fin_benign; auto; [apply benign_task_interrupt_start|].
    intros y frs Hy. eapply task_interrupt_start_inert; eauto.
  - (* OTimeoutEnter *)
    destruct d as [d|]; [|apply fin_benign; auto; [apply benign_refl|inert_tac]].
    pose proof (chg_call_at (notlf s) s (Qplus (now s) d) (HTrigger (length (blocks s)))) as B.
    destruct (call_at s (Qplus (now s) d) (HTrigger (length (blocks s)))) as [s1 h]. cbn [fst snd] in *.
    apply fin_benign; auto; [|inert_tac].
    eapply benign_trans; [apply B; split; [exact Logic.I|intros; discriminate]|].
    apply chg_core_eq; reflexivity.
  - (* OTimeoutExit *)
    cbn [fst snd]. apply fin_benign; auto; [|inert_tac].
    eapply benign_trans; [|apply chg_cancel_handle]. apply chg_core_eq; reflexivity.
  - (* OInterruptor *)
    pose proof (benign_interruptor 4 s b 0) as B. pose proof (interruptor_inert 4 s b 0) as Hi.
    destruct (interruptor 4 s b 0) as [s1 r]. cbn [fst snd] in *.
    pose proof (interruptor_wrap_fst s1 r) as E. pose proof (interruptor_wrap_snd s1 r) as E2.
    destruct (interruptor_wrap s1 r) as [s2 r2]. cbn [fst snd] in *. subst s2.
    apply fin_benign; auto. intros y frs Hy. eapply Hi. eapply E2. exact Hy.
  - (* OSetPrio *)
    destruct (is_prio_task s t) eqn:Ep; cbn [fst snd]; (apply fin_benign; auto; [|inert_tac]); [|apply benign_refl].
    apply chg_sett; [reflexivity|reflexivity|symmetry; exact Ep|left; reflexivity].
  - (* OSelf *) apply fin_benign; auto; [apply benign_refl|inert_tac].
  - (* OQuery *) cbn [fst snd]. apply fin_benign; auto; [|inert_tac].
    unfold queue_iterated. destruct (ready (addlog s (query_code s))); apply chg_core_eq; reflexivity.
  - (* OCallSoonQuery *) cbn [fst snd]. apply fin_benign; auto; [|inert_tac].
    apply chg_call_soon. split; [exact Logic.I|intros; discriminate].
  - (* OCallSoonCancel *) cbn [fst snd]. apply fin_benign; auto; [|inert_tac].
    apply chg_call_soon. split; [exact Logic.I|intros; discriminate].
  - (* OCancelAw *)
    pose proof (benign_cancel_awaitable s f I) as B.
    destruct (cancel_awaitable s f) as [s' ok]. cbn [fst snd] in *. apply fin_benign; auto. inert_tac.
Qed.

(* ---------------------------------------------------------------- frame_resume *)
Definition frame_ok (s : st) (fr : frame) : Prop :=
  match fr with
  | InAcquireP _ _ _ => False
  | InAcquireA l _ => lkind_ (getl s l) = LPlain
  | _ => True end.

Definition reacq_after (s : st) (t c : nat) (err : option exn) (body : reply) : st * lres :=
  let '(s, r) := reacquire s t c true err body in
  match r with
  | LDone rep => let '(s, rep') := cond_p_after s c rep in (s, LDone rep')
  | _ => (s, r)
  end.

Lemma reacq_after_ext s t c err body :
  Inv s -> t < length (tasks s) ->
  ext s (fst (reacq_after s t c err body)) /\
  (forall y frs, snd (reacq_after s t c err body) = LSusp y frs -> pend (fst (reacq_after s t c err body)) frs).
Proof.
  intros I Ht. unfold reacq_after. destruct (reacquire_ext s t c true err body I Ht) as [E P].
  destruct (reacquire s t c true err body) as [s1 r]. cbn [fst snd] in *.
  destruct r as [rep|y frs]; [|cbn [fst snd]; auto].
  pose proof (ext_cond_p_after s1 c rep (ext_inv _ _ E)) as E2.
  destruct (cond_p_after s1 c rep) as [s2 rep']. cbn [fst snd] in *.
  split; [eapply ext_trans; eauto|intros; discriminate].
Qed.

Ltac ext_refl_tac I := split; [apply ext_refl; exact I|pend_tac].

Theorem frame_resume_ext t fr inp s :
  Inv s -> t < length (tasks s) -> frame_ok s fr ->
  ext s (fst (frame_resume t fr inp s)) /\
  (forall y frs, snd (frame_resume t fr inp s) = LSusp y frs -> pend (fst (frame_resume t fr inp s)) frs).
Proof.
  intros I Ht Hok. destruct fr; cbn [frame_resume].
  - (* InSleep0 *) ext_refl_tac I.
  - (* InFut *)
    destruct inp as [v|e]; [|ext_refl_tac I].
    destruct (fdone s f); [|ext_refl_tac I].
    pose proof (chg_fut_result (notlf s) s f) as B. destruct (fut_result s f) as [s' r]. cbn [fst snd] in *.
    apply fin_benign; auto. inert_tac.
  - (* InSleepTimer *) cbn [fst snd]. apply fin_benign; auto; [apply chg_cancel_handle|inert_tac].
  - (* InEventWait *) cbn [fst snd]. apply fin_benign; auto; [|inert_tac].
    apply chg_sete. intros g Hg. cbn in Hg. apply filter_In in Hg as [Hg _]. now left.
  - (* InAcquireP *) destruct Hok.
  - (* InAcquireA *)
    pose proof (benign_acquire_a_finish s l f inp I Hok) as B.
    destruct (acquire_a_finish s l f inp) as [s' r]. cbn [fst snd] in *. apply fin_benign; auto. inert_tac.
  - (* InCondWaitP *)
    set (s1 := match pq_remove HQ (cpq (getc s c)) (Z.of_nat f) with
               | Some (_, q') => setc s c (getc s c <| cpq := q' |>) | None => s end).
    assert (B1 : benign s s1).
    { unfold s1. destruct (pq_remove HQ (cpq (getc s c)) (Z.of_nat f)) as [[p q']|] eqn:Er; [|apply benign_refl].
      apply chg_setc.
      - intros g Hg. cbn in Hg. left. eapply pq_remove_in; eauto. apply (iB2 I).
      - intros g Hg. now left.
      - intros H. cbn. eapply pq_remove_perm; eauto. }
    pose proof (Inv_benign s s1 B1 I) as I1.
    assert (Ht1 : t < length (tasks s1)) by (pose proof (benign_tasks s s1 B1); lia).
    destruct (reacq_after_ext s1 t c None (match inp with RVal _ => RVal 1 | RExc e => RExc e end) I1 Ht1) as [E P].
    unfold reacq_after in E, P.
    destruct (reacquire s1 t c true None _) as [s2 r]. destruct r as [rep|y frs].
    + destruct (cond_p_after s2 c rep) as [s3 rep']. cbn [fst snd] in *.
      split; [eapply ext_trans; [apply ext_benign; eauto|exact E]|intros; discriminate].
    + cbn [fst snd] in *. split; [eapply ext_trans; [apply ext_benign; eauto|exact E]|exact P].
  - (* InReleasedP *)
    destruct inp as [v|e].
    + pose proof (ext_cond_p_after s c (match err with Some e => RExc e | None => body end) I) as E.
      destruct (cond_p_after s c _) as [s1 rep]. cbn [fst snd] in *. split; [exact E|intros; discriminate].
    + destruct (is_cancel e).
      * destruct (reacq_after_ext s t c (Some e) body I Ht) as [E P]. unfold reacq_after in E, P.
        destruct (reacquire s t c true (Some e) body) as [s2 r]. destruct r as [rep|y frs].
        -- destruct (cond_p_after s2 c rep) as [s3 rep']. cbn [fst snd] in *. split; [exact E|intros; discriminate].
        -- cbn [fst snd] in *. split; [exact E|exact P].
      * pose proof (ext_cond_p_after s c (RExc e) I) as E.
        destruct (cond_p_after s c (RExc e)) as [s1 rep]. cbn [fst snd] in *. split; [exact E|intros; discriminate].
  - (* InCondWaitI *)
    set (s1 := setc s c (getc s c <| cdq := filter (fun x => negb (Nat.eqb x f)) (cdq (getc s c)) |>)).
    assert (B1 : benign s s1).
    { apply chg_setc.
      - intros g Hg. now left.
      - intros g Hg. cbn in Hg. apply filter_In in Hg as [Hg _]. now left.
      - intros H. exact H. }
    pose proof (Inv_benign s s1 B1 I) as I1.
    assert (Ht1 : t < length (tasks s1)) by (pose proof (benign_tasks s s1 B1); lia).
    destruct (reacquire_ext s1 t c false None (match inp with RVal _ => RVal 1 | RExc e => RExc e end) I1 Ht1) as [E P].
    split; [eapply ext_trans; [apply ext_benign; eauto|exact E]|exact P].
  - (* InReacquireI *)
    destruct inp as [v|e]; [ext_refl_tac I|].
    destruct (is_cancel e); [apply reacquire_ext; auto|ext_refl_tac I].
  - (* InIntr *)
    destruct inp as [v|e].
    + pose proof (benign_interruptor 4 s b (S i)) as B. pose proof (interruptor_inert 4 s b (S i)) as Hi.
      destruct (interruptor 4 s b (S i)) as [s1 r]. cbn [fst snd] in *.
      pose proof (interruptor_wrap_fst s1 r) as E. pose proof (interruptor_wrap_snd s1 r) as E2.
      destruct (interruptor_wrap s1 r) as [s2 r2]. cbn [fst snd] in *. subst s2.
      apply fin_benign; auto. intros y frs Hy. eapply Hi. eapply E2. exact Hy.
    + destruct (Nat.eqb phase 0 && is_runtime (RExc e) && negb (Nat.eqb i 2))%bool.
      * pose proof (interruptor_wrap_fst s (LSusp YNone [InSleep0; InIntr b i 1])) as E'.
        pose proof (interruptor_wrap_snd s (LSusp YNone [InSleep0; InIntr b i 1])) as E2'.
        destruct (interruptor_wrap s (LSusp YNone [InSleep0; InIntr b i 1])) as [s2 r2].
        cbn [fst snd] in *. subst s2.
        split; [now apply ext_refl|]. intros y frs Hy. apply E2' in Hy. inversion Hy; subst.
        apply pend_inert. repeat constructor.
      * pose proof (interruptor_wrap_fst s (LDone (RExc e))) as E'.
        pose proof (interruptor_wrap_snd s (LDone (RExc e))) as E2'.
        destruct (interruptor_wrap s (LDone (RExc e))) as [s2 r2].
        cbn [fst snd] in *. subst s2.
        split; [now apply ext_refl|]. intros y frs Hy. apply E2' in Hy. discriminate.
Qed.
