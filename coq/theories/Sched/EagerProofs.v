(* C01 / C03 on the scheduler model: what the `Spawn SEager` node of [exec] does
   (synchronous prefix, done => finished future and no task, suspended => one
   continuation task TEager with the captured future's handshake flag cleared),
   what the first step of that continuation task does (exactly [finish_step] of a
   plain task that yielded the same thing, after re-arming the flag), and that a
   cancel()/throw before that first step is forwarded into the started coroutine
   exactly as for a task suspended there ([TSusp]). *)
From Coq Require Import QArith.
From RecordUpdate Require Import RecordUpdate.
From Asynkit Require Import Base.Prelude Base.Obs Queue.ListFacts Sched.Model Sched.PartTables
     Sched.PartitionProofs Sched.ThrowProofs Sched.FrameFacts Sched.Corr.
Import RecordSetNotations.
Open Scope nat_scope.

(* ------------------------------------------------------------ list facts *)
Lemma set_nth_app_last {A} (l : list A) a b : set_nth (l ++ [a]) (length l) b = l ++ [b].
Proof. induction l as [|h t IH]; simpl; auto. rewrite IH. reflexivity. Qed.

Lemma set_nth_same_id {A} (l : list A) i d x : nth i l d = x -> i < length l -> set_nth l i x = l.
Proof. intros <- H. apply set_nth_nth_id. exact H. Qed.

(* ------------------------------------------------------------ vocabulary *)
Definition reply_fstate (r : reply) : fstate :=
  match r with RVal v => FResult v | RExc e => FExc e end.

(* cs.as_future(): one more future, already finished; nothing else *)
Definition eager_done_state (s1 : st) (r : reply) : st :=
  s1 <| futs := futs s1 ++ [mkFut (reply_fstate r) [] false None None] |>.

(* CoroStart._capture() / __await__'s re-arm of the future handshake flag *)
Definition set_flag (b : bool) (s : st) (y : yielded) : st :=
  match y with YFut f => setf s f (getf s f <| fblock := b |>) | YNone => s end.

Definition eager_task (f : nat) (y : yielded) (frs : list frame) (kc : reply -> coro) : task :=
  mkTask KC None f (TEager y frs kc) None false [] None.

(* create_task(<continuation>) after the capture *)
Definition eager_cont_state (s1 : st) (y : yielded) (frs : list frame) (kc : reply -> coro) : st :=
  let s2 := set_flag false s1 y in
  call_soon_ (s2 <| futs := futs s2 ++ [mkFut FPending [] false (Some (length (tasks s2))) None] |>
                 <| tasks := tasks s2 ++ [eager_task (length (futs s2)) y frs kc] |>)
             (HStep (length (tasks s2)) None).

(* the coroutine resumed at its suspension point: library frames, then the user continuation *)
Definition run_cont (t : nat) (frs : list frame) (k : reply -> coro) (inp : reply) (s : st)
  : st * outcome :=
  let '(s1, r) := resume_stack t frs inp s in
  match r with
  | LDone rep => exec t (k rep) s1
  | LSusp y frs' => (s1, OYield y frs' k)
  end.

(* what Task.__step passes to the coroutine: None = send(None), Some e = throw(e) *)
Definition step_input (s : st) (t : nat) (exc : option exn) : option exn :=
  if tmustc (gett s t)
  then Some (match exc with Some e => if is_cancel e then e else ECancelled | None => ECancelled end)
  else exc.

Definition input_reply (i : option exn) : reply :=
  match i with None => RVal 0 | Some e => RExc e end.

(* ------------------------------------------------------------ small facts *)
Lemma length_futs_set_flag b s y : length (futs (set_flag b s y)) = length (futs s).
Proof. destruct y; simpl; auto. apply length_futs_setf. Qed.

Lemma tasks_set_flag b s y : tasks (set_flag b s y) = tasks s.
Proof. destruct y; reflexivity. Qed.

Lemma tcont_in_range s t : tcont_ (gett s t) <> TFin -> t < length (tasks s).
Proof.
  intros H. destruct (Nat.lt_ge_cases t (length (tasks s))) as [L|L]; auto.
  rewrite gett_oob in H by exact L. exfalso. apply H. reflexivity.
Qed.

Lemma fut_finish_new s o x :
  fut_finish (fst (new_future s o)) (length (futs s)) x =
  (s <| futs := futs s ++ [mkFut x [] false o None] |>, true).
Proof.
  unfold fut_finish, new_future, getf. cbn [fst futs set]. cbn.
  rewrite !nth_middle. cbn.
  unfold schedule_callbacks, setf, getf. cbn. rewrite !set_nth_app_last, nth_middle. cbn.
  reflexivity.
Qed.

(* ------------------------------------------------------------ C01: the eager node *)
Theorem eager_exec_eq t child k s :
  exec t (Spawn SEager child k) s =
  (let '(s1, o) := exec t child s in
   match o with
   | ODone r => exec t (k (RVal (Z.of_nat (length (futs s1))))) (eager_done_state s1 r)
   | OYield y frs kc =>
       exec t (k (RVal (Z.of_nat (length (futs s1))))) (eager_cont_state s1 y frs kc)
   end).
Proof.
  cbn [exec]. destruct (exec t child s) as [s1 o]. destruct o as [r|y frs kc].
  - change (new_future s1 None) with (fst (new_future s1 None), length (futs s1)). cbv iota beta.
    rewrite (fut_finish_new s1 None). reflexivity.
  - unfold eager_cont_state.
    change (set_flag false s1 y) with
      (match y with YFut f => setf s1 f (getf s1 f <| fblock := false |>) | YNone => s1 end).
    set (s2 := match y with YFut f => _ | YNone => s1 end).
    assert (L : length (futs s2) = length (futs s1)).
    { subst s2. destruct y; auto. apply length_futs_setf. }
    unfold new_future. cbv iota beta. rewrite L. reflexivity.
Qed.

(* C01_done_no_task: the child finished inside its prefix *)
Theorem eager_done_no_task t child k s s1 r :
  exec t child s = (s1, ODone r) ->
  let f := length (futs s1) in
  let s2 := eager_done_state s1 r in
  exec t (Spawn SEager child k) s = exec t (k (RVal (Z.of_nat f))) s2 /\
  futs s2 = futs s1 ++ [mkFut (reply_fstate r) [] false None None] /\
  getf s2 f = mkFut (reply_fstate r) [] false None None /\ fdone s2 f = true /\
  (forall g, g <> f -> getf s2 g = getf s1 g) /\
  tasks s2 = tasks s1 /\ ready s2 = ready s1 /\ handles s2 = handles s1 /\
  locks s2 = locks s1 /\ conds s2 = conds s1 /\ events s2 = events s1 /\ blocks s2 = blocks s1 /\
  timers s2 = timers s1 /\ now s2 = now s1 /\ current s2 = current s1 /\ log s2 = log s1 /\
  errors s2 = errors s1.
Proof.
  intros E f s2. split; [rewrite eager_exec_eq, E; reflexivity|].
  split; [reflexivity|].
  assert (G : getf s2 f = mkFut (reply_fstate r) [] false None None).
  { unfold getf, s2, eager_done_state, f. cbn. apply nth_middle. }
  split; [exact G|]. split; [unfold fdone; rewrite G; destruct r; reflexivity|].
  split; [|repeat split; reflexivity].
  intros g Hg. unfold getf, s2, eager_done_state. cbn.
  destruct (Nat.lt_ge_cases g (length (futs s1))) as [L|L].
  - apply app_nth1. exact L.
  - rewrite !nth_overflow; auto. rewrite app_length. simpl. unfold f in Hg. lia.
Qed.

(* C01_continuation: the child suspended; exactly one task, one handle, flag cleared *)
Lemma eager_cont_flag s1 y frs kc f : y = YFut f -> fblock (getf (eager_cont_state s1 y frs kc) f) = false.
Proof.
  intros ->. unfold eager_cont_state, set_flag, call_soon_, call_soon, getf, setf. cbn.
  destruct (Nat.lt_ge_cases f (length (futs s1))) as [L|L].
  - rewrite app_nth1 by (rewrite set_nth_length; exact L).
    rewrite nth_set_nth_same by exact L. reflexivity.
  - rewrite set_nth_oob by exact L.
    destruct (Nat.eq_dec f (length (futs s1))) as [EQ|N].
    + rewrite EQ, nth_middle. reflexivity.
    + rewrite nth_overflow; [reflexivity|]. rewrite app_length. simpl. lia.
Qed.

Theorem eager_continuation t child k s s1 y frs kc :
  exec t child s = (s1, OYield y frs kc) ->
  let tn := length (tasks s1) in
  let f := length (futs s1) in
  let s2 := eager_cont_state s1 y frs kc in
  exec t (Spawn SEager child k) s = exec t (k (RVal (Z.of_nat f))) s2 /\
  (* exactly one new task: the continuation, not yet stepped, owning the new pending future *)
  tasks s2 = tasks s1 ++ [mkTask KC None f (TEager y frs kc) None false [] None] /\
  gett s2 tn = mkTask KC None f (TEager y frs kc) None false [] None /\
  getf s2 f = mkFut FPending [] false (Some tn) None /\
  length (futs s2) = S (length (futs s1)) /\
  (* exactly one new handle, its first step, appended to the ready queue *)
  handles s2 = handles s1 ++ [mkH (HStep tn None) false] /\
  ready s2 = rq_append (ready s1) (length (handles s1)) 0%Q /\
  (* the flag clause: a captured future is left with its handshake flag cleared, and is
     otherwise untouched; every other old future is untouched *)
  (forall g, y = YFut g -> fblock (getf s2 g) = false) /\
  (forall g, g < f -> getf s2 g = (if match y with YFut g' => Nat.eqb g g' | YNone => false end
                                   then getf s1 g <| fblock := false |> else getf s1 g)) /\
  locks s2 = locks s1 /\ conds s2 = conds s1 /\ events s2 = events s1 /\ blocks s2 = blocks s1 /\
  timers s2 = timers s1 /\ now s2 = now s1 /\ current s2 = current s1 /\ log s2 = log s1 /\
  errors s2 = errors s1.
Proof.
  intros E tn f s2. split; [rewrite eager_exec_eq, E; reflexivity|].
  assert (Lf : length (futs (set_flag false s1 y)) = length (futs s1)) by apply length_futs_set_flag.
  assert (Lt : tasks (set_flag false s1 y) = tasks s1) by apply tasks_set_flag.
  assert (Et : tasks s2 = tasks s1 ++ [mkTask KC None f (TEager y frs kc) None false [] None]).
  { unfold s2, eager_cont_state, call_soon_, call_soon, eager_task. cbn. rewrite Lf, Lt. reflexivity. }
  assert (Ef : futs s2 = futs (set_flag false s1 y) ++ [mkFut FPending [] false (Some tn) None]).
  { unfold s2, eager_cont_state, call_soon_, call_soon. cbn. rewrite Lt. reflexivity. }
  split; [exact Et|].
  split; [unfold gett; rewrite Et; apply nth_middle|].
  split; [unfold getf; rewrite Ef; unfold f; rewrite <- Lf; apply nth_middle|].
  split; [rewrite Ef, app_length, Lf; simpl; lia|].
  split; [unfold s2, eager_cont_state, call_soon_, call_soon; cbn; rewrite Lt; destruct y; reflexivity|].
  split.
  { assert (HP : forall s', tasks s' = tasks s1 ++ [eager_task f y frs kc] ->
                            handle_priority s' (HStep tn None) = 0%Q).
    { intros s' Es'. unfold handle_priority, task_of_cb, gett. rewrite Es'. unfold tn.
      rewrite nth_middle. reflexivity. }
    unfold s2, eager_cont_state, call_soon_, call_soon. cbn -[handle_priority].
    rewrite !Lt, !Lf. rewrite HP by reflexivity. destruct y; reflexivity. }
  split; [intros g ->; apply eager_cont_flag; reflexivity|].
  split; [|unfold s2, eager_cont_state, call_soon_, call_soon; cbn; destruct y; repeat split; reflexivity].
  intros g Hg. unfold getf. rewrite Ef. rewrite app_nth1 by (rewrite Lf; exact Hg).
  destruct y as [|g']; [reflexivity|]. unfold set_flag, setf. cbn.
  rewrite nth_set_nth. destruct (Nat.eqb_spec g g') as [->|N]; cbn [andb].
  - destruct (Nat.ltb_spec g' (length (futs s1))); [reflexivity|unfold f in Hg; lia].
  - reflexivity.
Qed.

(* ------------------------------------------------------------ the shapes of Task.__step *)
(* a suspended task: the coroutine is resumed at its suspension point with the step's input
   (generalises ThrowProofs.step_throw_susp to send(None)) *)
Theorem step_susp_eq s t exc frs k :
  tdone s t = false -> tcont_ (gett s t) = TSusp frs k ->
  step_task t exc s =
  (let '(s2, o) := run_cont t frs k (input_reply (step_input s t exc)) (running_state s t) in
   finish_step t s2 o <| current := None |>).
Proof.
  intros Hd Hk. unfold step_task, step_input, run_cont, running_state, input_reply. rewrite Hd, Hk.
  destruct (tmustc (gett s t)); [destruct exc as [e|]; [destruct (is_cancel e)|]|destruct exc as [e|]];
    cbv beta iota; destruct (resume_stack t frs _ _) as [s1 r1]; destruct r1; reflexivity.
Qed.

(* a plain task taking its first step: the body runs from its beginning *)
Theorem step_new_eq s t c :
  tdone s t = false -> tcont_ (gett s t) = TNew c -> tmustc (gett s t) = false ->
  step_task t None s =
  (let '(s2, o) := exec t c (running_state s t) in finish_step t s2 o <| current := None |>).
Proof.
  intros Hd Hk Hm. unfold step_task, running_state. rewrite Hd, Hk, Hm. cbv beta iota.
  destruct (exec t c _) as [s2 o]. reflexivity.
Qed.

(* the continuation task of eager(), first step by send(None): nothing of the coroutine runs;
   the flag of the captured future is re-armed and what was captured is handed to
   finish_step as this step's yield *)
Theorem step_eager_first s t y frs k :
  tdone s t = false -> tcont_ (gett s t) = TEager y frs k -> tmustc (gett s t) = false ->
  step_task t None s =
  finish_step t (set_flag true (running_state s t) y) (OYield y frs k) <| current := None |>.
Proof.
  intros Hd Hk Hm. unfold step_task, running_state, set_flag. rewrite Hd, Hk, Hm. cbv beta iota.
  destruct y; reflexivity.
Qed.

(* ... first step by throw(e) (a pending cancel(), or an exception from task_throw /
   a failed wakeup): forwarded into the started coroutine at its suspension point *)
Theorem step_eager_throw s t exc e y frs k :
  tdone s t = false -> tcont_ (gett s t) = TEager y frs k -> step_input s t exc = Some e ->
  step_task t exc s =
  (let '(s2, o) := run_cont t frs k (RExc e) (running_state s t) in
   finish_step t s2 o <| current := None |>).
Proof.
  intros Hd Hk Hi. unfold step_task, step_input, run_cont, running_state in *. rewrite Hd, Hk.
  destruct (tmustc (gett s t)); [destruct exc as [e0|]; [destruct (is_cancel e0)|]|destruct exc as [e0|]];
    inversion Hi; subst; cbv beta iota;
    destruct (resume_stack t frs _ _) as [s1 r1]; destruct r1; reflexivity.
Qed.

(* the same task, had it been suspended there as an ordinary task *)
Definition as_susp (s : st) (t : nat) (frs : list frame) (k : reply -> coro) : st :=
  sett s t (gett s t <| tcont_ := TSusp frs k |>).

Lemma set_nth_twice {A} (l : list A) i a b : set_nth (set_nth l i a) i b = set_nth l i b.
Proof. revert i. induction l as [|h tl IH]; intros [|i]; simpl; auto. rewrite IH. reflexivity. Qed.

Lemma sett_sett s t a b : sett (sett s t a) t b = sett s t b.
Proof. unfold sett. cbn. rewrite set_nth_twice. reflexivity. Qed.

Lemma as_susp_facts s t frs k y :
  tcont_ (gett s t) = TEager y frs k ->
  gett (as_susp s t frs k) t = gett s t <| tcont_ := TSusp frs k |> /\
  (forall t', t' <> t -> gett (as_susp s t frs k) t' = gett s t') /\
  futs (as_susp s t frs k) = futs s /\
  tdone (as_susp s t frs k) t = tdone s t /\
  (forall exc, step_input (as_susp s t frs k) t exc = step_input s t exc) /\
  running_state (as_susp s t frs k) t = running_state s t.
Proof.
  intros Hk. assert (L : t < length (tasks s)) by (apply tcont_in_range; rewrite Hk; discriminate).
  assert (G : gett (as_susp s t frs k) t = gett s t <| tcont_ := TSusp frs k |>)
    by (apply gett_sett_same; exact L).
  split; [exact G|]. split; [intros t' N; apply gett_sett_other; exact N|]. split; [reflexivity|].
  split; [unfold tdone, fdone, getf; rewrite G; reflexivity|].
  split; [intros exc; unfold step_input; rewrite G; reflexivity|].
  unfold running_state. rewrite G. unfold as_susp. rewrite sett_sett. reflexivity.
Qed.

(* the two cases of step_task coincide whenever the step is a throw *)
Theorem step_eager_throw_as_susp s t exc e y frs k :
  tdone s t = false -> tcont_ (gett s t) = TEager y frs k -> step_input s t exc = Some e ->
  step_task t exc s = step_task t exc (as_susp s t frs k).
Proof.
  intros Hd Hk Hi. destruct (as_susp_facts s t frs k y Hk) as (G & _ & _ & D & I & R).
  rewrite (step_eager_throw s t exc e y frs k Hd Hk Hi).
  rewrite (step_susp_eq (as_susp s t frs k) t exc frs k); [|rewrite D; exact Hd|rewrite G; reflexivity].
  rewrite I, Hi, R. reflexivity.
Qed.

(* ------------------------------------------------------------ continuations are only consumed by running *)
Definition same_conts (s s' : st) : Prop :=
  length (tasks s') = length (tasks s) /\ forall t, tcont_ (gett s' t) = tcont_ (gett s t).

Lemma same_conts_refl s : same_conts s s.
Proof. split; auto. Qed.
Lemma same_conts_trans s1 s2 s3 : same_conts s1 s2 -> same_conts s2 s3 -> same_conts s1 s3.
Proof. intros [A1 A2] [B1 B2]. split; [congruence|]. intros t. rewrite B2. apply A2. Qed.
Lemma same_conts_tasks s s' : tasks s' = tasks s -> same_conts s s'.
Proof. intros E. unfold same_conts, gett. rewrite E. auto. Qed.
Lemma same_conts_sett s t x : tcont_ x = tcont_ (gett s t) -> same_conts s (sett s t x).
Proof.
  intros E. split; [apply length_tasks_sett|]. intros t'. rewrite gett_sett.
  destruct (Nat.eqb_spec t' t) as [->|N]; cbn [andb]; [|reflexivity].
  destruct (Nat.ltb t (length (tasks s))); auto.
Qed.

Lemma fold_soon_tasks f cbs :
  forall s, tasks (fold_left (fun s c => call_soon_ s (cb_callback f c)) cbs s) = tasks s.
Proof. induction cbs as [|c cbs IH]; intros s; simpl; auto. rewrite IH. reflexivity. Qed.

Lemma fut_finish_tasks_eq s f x : tasks (fst (fut_finish s f x)) = tasks s.
Proof.
  unfold fut_finish. destruct (fstate_ (getf s f)); try reflexivity.
  unfold schedule_callbacks. cbn [fst]. rewrite fold_soon_tasks. reflexivity.
Qed.

Lemma task_cancel_conts fuel : forall s t, same_conts s (fst (task_cancel fuel s t)).
Proof.
  induction fuel as [|fuel IH]; intros s t; cbn [task_cancel]; (destruct (tdone s t); [apply same_conts_refl|]);
    (destruct (twaiter (gett s t)) as [f|]; [|apply same_conts_sett; reflexivity]);
    (destruct (fowner (getf s f)) as [t'|];
     [|destruct (fut_finish s f FCancelled) as [s' ok] eqn:E; destruct ok; cbn [fst];
       [apply same_conts_tasks; rewrite <- (fut_finish_tasks_eq s f FCancelled), E; reflexivity
       |apply same_conts_sett; reflexivity]]).
  - apply same_conts_sett. reflexivity.
  - specialize (IH s t'). destruct (task_cancel fuel s t') as [s' ok]. destruct ok; cbn [fst] in *; [exact IH|].
    eapply same_conts_trans; [exact IH|]. apply same_conts_sett. reflexivity.
Qed.

Lemma cancel_awaitable_conts s f : same_conts s (fst (cancel_awaitable s f)).
Proof.
  unfold cancel_awaitable, cancel_task. destruct (fowner (getf s f)); [apply task_cancel_conts|].
  apply same_conts_tasks, fut_finish_tasks_eq.
Qed.

(* what finish_step leaves as the task's continuation: TFin exactly when the coroutine
   returned or raised, else the new suspension point *)
Theorem finish_step_tcont t s o :
  t < length (tasks s) ->
  tcont_ (gett (finish_step t s o) t) =
  match o with ODone _ => TFin | OYield _ frs k => TSusp frs k end.
Proof.
  intros L.
  assert (X : forall x s', same_conts (sett s t x) s' -> tcont_ (gett s' t) = tcont_ x).
  { intros x s' [_ H]. rewrite H, gett_sett_same by exact L. reflexivity. }
  assert (FF : forall u f x, same_conts u (fst (fut_finish u f x)))
    by (intros; apply same_conts_tasks, fut_finish_tasks_eq).
  assert (CS : forall u c, same_conts u (call_soon_ u c)) by (intros; apply same_conts_tasks; reflexivity).
  assert (SF : forall u f x, same_conts u (setf u f x)) by (intros; apply same_conts_tasks; reflexivity).
  unfold finish_step. destruct o as [[v|e]|[|f] frs k].
  - destruct (tmustc (gett s t)).
    + erewrite X; [|eapply same_conts_trans; [|apply FF]; apply same_conts_sett; reflexivity]; reflexivity.
    + erewrite X; [|apply FF]; reflexivity.
  - destruct (is_cancel e).
    + erewrite X; [|eapply same_conts_trans; [|apply FF]; apply SF]; reflexivity.
    + erewrite X; [|apply FF]; reflexivity.
  - erewrite X; [|apply CS]; reflexivity.
  - set (s1 := sett s t _).
    destruct (fblock (getf s1 f)); [|erewrite X; [|apply CS]; reflexivity].
    destruct (Nat.eqb f (tfut (gett s t))); [erewrite X; [|apply CS]; reflexivity|].
    set (s2 := sett (add_done_callback _ _ _) t _).
    assert (S12 : same_conts s1 s2).
    { unfold s2. eapply same_conts_trans; [|apply same_conts_sett; reflexivity].
      eapply same_conts_trans; [apply SF|]. unfold add_done_callback.
      destruct (fdone _ f); [apply CS|apply SF]. }
    destruct (tmustc (gett s2 t)); [|erewrite X; [|exact S12]; reflexivity].
    pose proof (cancel_awaitable_conts s2 f) as CA. destruct (cancel_awaitable s2 f) as [s' ok].
    cbn [fst] in CA. destruct ok.
    + erewrite X; [|eapply same_conts_trans; [exact S12|];
                    eapply same_conts_trans; [exact CA|]; apply same_conts_sett; reflexivity]; reflexivity.
    + erewrite X; [|eapply same_conts_trans; [exact S12|exact CA]]; reflexivity.
Qed.

(* ------------------------------------------------------------ C01_sync_prefix *)
(* the child's prefix runs first, inside the caller's step: same task id [t], current task
   unchanged, its events appended to the log; only then the caller's continuation runs *)
Theorem eager_sync_prefix t child k s :
  let s1 := fst (exec t child s) in
  exec t (Spawn SEager child k) s =
  (let '(s1, o) := exec t child s in
   match o with
   | ODone r => exec t (k (RVal (Z.of_nat (length (futs s1))))) (eager_done_state s1 r)
   | OYield y frs kc =>
       exec t (k (RVal (Z.of_nat (length (futs s1))))) (eager_cont_state s1 y frs kc)
   end) /\
  current s1 = current s /\ (exists l, log s1 = log s ++ l) /\
  length (tasks s) <= length (tasks s1).
Proof.
  intros s1. split; [apply eager_exec_eq|].
  assert (H : G s s1).
  { unfold s1. destruct (exec t child s) as [s' o] eqn:E. eapply G_exec; [exact E|apply G_refl]. }
  destruct H as [[H1 H2 _] H3]. auto.
Qed.

(* ------------------------------------------------------------ after the first step: an ordinary task *)
Lemma length_tasks_running s t : length (tasks (running_state s t)) = length (tasks s).
Proof. unfold running_state. cbn. apply set_nth_length. Qed.

Theorem step_eager_first_cont s t y frs k :
  tdone s t = false -> tcont_ (gett s t) = TEager y frs k -> tmustc (gett s t) = false ->
  tcont_ (gett (step_task t None s) t) = TSusp frs k.
Proof.
  intros Hd Hk Hm. rewrite (step_eager_first s t y frs k Hd Hk Hm).
  change (tcont_ (gett (finish_step t (set_flag true (running_state s t) y) (OYield y frs k)) t) = TSusp frs k).
  rewrite finish_step_tcont; [reflexivity|].
  rewrite tasks_set_flag, length_tasks_running. apply tcont_in_range. rewrite Hk. discriminate.
Qed.

(* ------------------------------------------------------------ C03: cancel() *)
Lemma cancel_no_waiter s t :
  tdone s t = false -> twaiter (gett s t) = None ->
  cancel_task s t = (sett s t (gett s t <| tmustc := true |>), true).
Proof.
  intros Hd Hw. unfold cancel_task. destruct (length (tasks s)); cbn [task_cancel]; rewrite Hd, Hw; reflexivity.
Qed.

Lemma sett_same_id s t : t < length (tasks s) -> sett s t (gett s t) = s.
Proof.
  intros L. destruct s. unfold sett, gett in *. cbn in *. rewrite set_nth_nth_id by exact L. reflexivity.
Qed.

(* a second cancel() before the step changes nothing *)
Lemma cancel_again s t :
  tdone s t = false -> twaiter (gett s t) = None -> tmustc (gett s t) = true ->
  cancel_task s t = (s, true).
Proof.
  intros Hd Hw Hm. rewrite cancel_no_waiter by assumption. f_equal.
  assert (L : t < length (tasks s)).
  { destruct (Nat.lt_ge_cases t (length (tasks s))) as [L|L]; auto.
    rewrite gett_oob in Hm by exact L. discriminate. }
  replace (gett s t <| tmustc := true |>) with (gett s t); [apply sett_same_id; exact L|].
  destruct (gett s t). cbn in Hm. subst. reflexivity.
Qed.

(* cancel() of a task blocked on a plain pending future cancels that future ... *)
Lemma cancel_blocked_plain s t f :
  tdone s t = false -> twaiter (gett s t) = Some f -> fowner (getf s f) = None ->
  fstate_ (getf s f) = FPending ->
  cancel_task s t = (fst (fut_finish s f FCancelled), true).
Proof.
  intros Hd Hw Ho Hp. unfold cancel_task.
  assert (X : forall fuel, task_cancel fuel s t = (fst (fut_finish s f FCancelled), true)).
  { intros fuel. destruct fuel; cbn [task_cancel]; rewrite Hd, Hw, Ho; unfold fut_finish; rewrite Hp; reflexivity. }
  apply X.
Qed.
(* ... and a further cancel() while that wake-up is pending only sets _must_cancel *)
Lemma cancel_blocked_again s t f :
  tdone s t = false -> twaiter (gett s t) = Some f -> fowner (getf s f) = None ->
  fstate_ (getf s f) <> FPending ->
  cancel_task s t = (sett s t (gett s t <| tmustc := true |>), true).
Proof.
  intros Hd Hw Ho Hp. unfold cancel_task.
  assert (X : forall fuel, task_cancel fuel s t = (sett s t (gett s t <| tmustc := true |>), true)).
  { intros fuel. destruct fuel; cbn [task_cancel]; rewrite Hd, Hw, Ho; unfold fut_finish;
      destruct (fstate_ (getf s f)); try reflexivity; exfalso; apply Hp; reflexivity. }
  apply X.
Qed.

Lemma wakeup_cancelled s t f :
  fstate_ (getf s f) = FCancelled -> fcexc (getf s f) = None ->
  wakeup t f s = step_task t (Some ECancelled) s.
Proof. intros H1 H2. unfold wakeup, fut_result. rewrite H1, H2. reflexivity. Qed.

Lemma step_input_cancel s t : step_input s t (Some ECancelled) = Some ECancelled.
Proof. unfold step_input. destruct (tmustc (gett s t)); reflexivity. Qed.
Lemma step_input_mustc s t : tmustc (gett s t) = true -> step_input s t None = Some ECancelled.
Proof. intros H. unfold step_input. rewrite H. reflexivity. Qed.
Lemma step_input_plain s t exc : tmustc (gett s t) = false -> step_input s t exc = exc.
Proof. intros H. unfold step_input. rewrite H. reflexivity. Qed.

(* C03_cancel_reaches, the instant the unchanged tree got wrong: cancel() after eager()
   returned and before the continuation task's first step *)
Theorem eager_cancel_reaches s t y frs k :
  tdone s t = false -> tcont_ (gett s t) = TEager y frs k -> twaiter (gett s t) = None ->
  let s' := fst (cancel_task s t) in
  snd (cancel_task s t) = true /\
  s' = sett s t (gett s t <| tmustc := true |>) /\
  tmustc (gett s' t) = true /\ tcont_ (gett s' t) = TEager y frs k /\ tdone s' t = false /\
  (* the next step throws CancelledError into the started coroutine at its suspension point *)
  step_task t None s' =
    (let '(s2, o) := run_cont t frs k (RExc ECancelled) (running_state s t) in
     finish_step t s2 o <| current := None |>) /\
  (* which is exactly the step of the same task suspended there as an ordinary task *)
  step_task t None s' = step_task t None (as_susp s' t frs k) /\
  (* cancelling again in between changes nothing *)
  cancel_task s' t = (s', true).
Proof.
  intros Hd Hk Hw s'. assert (L : t < length (tasks s)) by (apply tcont_in_range; rewrite Hk; discriminate).
  assert (Es : s' = sett s t (gett s t <| tmustc := true |>)).
  { unfold s'. rewrite cancel_no_waiter by assumption. reflexivity. }
  assert (Gs : gett s' t = gett s t <| tmustc := true |>) by (rewrite Es; apply gett_sett_same; exact L).
  assert (Hm' : tmustc (gett s' t) = true) by (rewrite Gs; reflexivity).
  assert (Hk' : tcont_ (gett s' t) = TEager y frs k) by (rewrite Gs; exact Hk).
  assert (Hd' : tdone s' t = false).
  { unfold tdone in *. rewrite Gs. rewrite Es. exact Hd. }
  assert (Hw' : twaiter (gett s' t) = None) by (rewrite Gs; exact Hw).
  assert (R : running_state s' t = running_state s t).
  { unfold running_state. rewrite Gs, Es, sett_sett. reflexivity. }
  split; [rewrite cancel_no_waiter by assumption; reflexivity|]. split; [exact Es|].
  split; [exact Hm'|]. split; [exact Hk'|]. split; [exact Hd'|].
  split; [|split].
  - rewrite (step_eager_throw s' t None ECancelled y frs k Hd' Hk' (step_input_mustc s' t Hm')).
    rewrite R. reflexivity.
  - apply (step_eager_throw_as_susp s' t None ECancelled y frs k Hd' Hk' (step_input_mustc s' t Hm')).
  - apply cancel_again; assumption.
Qed.

(* in whatever state that step is taken (other tasks may have run in between) *)
Theorem eager_step_cancelled s t exc y frs k :
  tdone s t = false -> tcont_ (gett s t) = TEager y frs k -> tmustc (gett s t) = true ->
  exists e, step_input s t exc = Some e /\ is_cancel e = true /\
  step_task t exc s =
    (let '(s2, o) := run_cont t frs k (RExc e) (running_state s t) in
     finish_step t s2 o <| current := None |>) /\
  step_task t exc s = step_task t exc (as_susp s t frs k).
Proof.
  intros Hd Hk Hm.
  assert (X : exists e, step_input s t exc = Some e /\ is_cancel e = true).
  { unfold step_input. rewrite Hm. destruct exc as [e|]; [|eexists; split; reflexivity].
    destruct (is_cancel e) eqn:C; eexists; split; try reflexivity. exact C. }
  destruct X as (e & Hi & Hc). exists e. split; [exact Hi|]. split; [exact Hc|]. split.
  - apply (step_eager_throw s t exc e y frs k Hd Hk Hi).
  - apply (step_eager_throw_as_susp s t exc e y frs k Hd Hk Hi).
Qed.

(* after the first step (ordinary suspended task), for completeness *)
Theorem susp_cancel_reaches s t frs k :
  tdone s t = false -> tcont_ (gett s t) = TSusp frs k ->
  (* runnable (no waiter): cancel() sets _must_cancel and the next step throws CancelledError *)
  (twaiter (gett s t) = None ->
     let s' := fst (cancel_task s t) in
     step_task t None s' =
       (let '(s2, o) := run_cont t frs k (RExc ECancelled) (running_state s t) in
        finish_step t s2 o <| current := None |>)) /\
  (* blocked on a pending plain future: the future is cancelled, and its wake-up throws
     CancelledError *)
  (forall f, twaiter (gett s t) = Some f -> fowner (getf s f) = None -> fstate_ (getf s f) = FPending ->
     cancel_task s t = (fst (fut_finish s f FCancelled), true)) /\
  (forall u f, tdone u t = false -> tcont_ (gett u t) = TSusp frs k ->
     fstate_ (getf u f) = FCancelled -> fcexc (getf u f) = None ->
     wakeup t f u =
       (let '(s2, o) := run_cont t frs k (RExc ECancelled) (running_state u t) in
        finish_step t s2 o <| current := None |>)).
Proof.
  intros Hd Hk. split; [|split].
  - intros Hw s'. assert (L : t < length (tasks s)) by (apply tcont_in_range; rewrite Hk; discriminate).
    assert (Es : s' = sett s t (gett s t <| tmustc := true |>)).
    { unfold s'. rewrite cancel_no_waiter by assumption. reflexivity. }
    assert (Gs : gett s' t = gett s t <| tmustc := true |>) by (rewrite Es; apply gett_sett_same; exact L).
    assert (R : running_state s' t = running_state s t).
    { unfold running_state. rewrite Gs, Es, sett_sett. reflexivity. }
    rewrite (step_susp_eq s' t None frs k).
    + rewrite step_input_mustc by (rewrite Gs; reflexivity). rewrite R. reflexivity.
    + unfold tdone in *. rewrite Gs, Es. exact Hd.
    + rewrite Gs. exact Hk.
  - intros f Hw Ho Hp. apply cancel_blocked_plain; assumption.
  - intros u f Hdu Hku Hc He. rewrite wakeup_cancelled by assumption.
    rewrite (step_susp_eq u t (Some ECancelled) frs k Hdu Hku), step_input_cancel. reflexivity.
Qed.

(* ------------------------------------------------------------ C03_no_stranded *)
Lemma G_run_cont s0 t frs k inp s s2 o : run_cont t frs k inp s = (s2, o) -> G s0 s -> G s0 s2.
Proof.
  intros E H. unfold run_cont in E. destruct (resume_stack t frs inp s) as [s1 r] eqn:R.
  pose proof (G_resume_stack s0 t _ _ _ _ _ R H) as H1.
  destruct r; [eapply G_exec; eauto|inversion E; subst; exact H1].
Qed.

(* a step never drops a suspended coroutine: afterwards the task either holds the coroutine's
   next suspension point, or it is finished and then the coroutine was resumed and ran to its end *)
Theorem step_no_stranded s t exc y frs k :
  tdone s t = false ->
  (tcont_ (gett s t) = TSusp frs k \/ tcont_ (gett s t) = TEager y frs k) ->
  let s' := step_task t exc s in
  (exists frs' k', tcont_ (gett s' t) = TSusp frs' k') \/
  (tcont_ (gett s' t) = TFin /\
   exists inp s2 r, run_cont t frs k inp (running_state s t) = (s2, ODone r)).
Proof.
  intros Hd Hk s'.
  assert (L : t < length (tasks s)) by (apply tcont_in_range; destruct Hk as [Hk|Hk]; rewrite Hk; discriminate).
  assert (Run : forall inp,
     s' = (let '(s2, o) := run_cont t frs k inp (running_state s t) in
           finish_step t s2 o <| current := None |>) ->
     (exists frs' k', tcont_ (gett s' t) = TSusp frs' k') \/
     (tcont_ (gett s' t) = TFin /\
      exists inp s2 r, run_cont t frs k inp (running_state s t) = (s2, ODone r))).
  { intros inp E. destruct (run_cont t frs k inp (running_state s t)) as [s2 o] eqn:RC.
    pose proof (G_run_cont _ _ _ _ _ _ _ _ RC (G_refl _)) as [[Ht _ _] _].
    rewrite length_tasks_running in Ht.
    assert (T : tcont_ (gett s' t) = match o with ODone _ => TFin | OYield _ frs' k' => TSusp frs' k' end).
    { rewrite E. change (gett (finish_step t s2 o <| current := None |>) t) with (gett (finish_step t s2 o) t).
      apply finish_step_tcont. lia. }
    destruct o as [r|y' frs' k']; [right|left; eauto].
    split; [exact T|]. exists inp, s2, r. exact RC. }
  destruct Hk as [Hk|Hk].
  - apply (Run (input_reply (step_input s t exc))). apply step_susp_eq; assumption.
  - destruct (step_input s t exc) as [e|] eqn:Hi.
    + apply (Run (RExc e)). apply (step_eager_throw s t exc e y frs k); assumption.
    + assert (Hm : tmustc (gett s t) = false /\ exc = None).
      { unfold step_input in Hi. destruct (tmustc (gett s t)); [discriminate|]. auto. }
      destruct Hm as [Hm ->]. left. exists frs, k. apply step_eager_first_cont with (y := y); assumption.
Qed.

(* ------------------------------------------------------------ the unchanged tree (C03_refuted_before_fix) *)
(* Task.__step as it behaved with the unrepaired CoroStart.as_coroutine(): a throw() into the
   unstarted wrapper generator raises there without ever reaching the started coroutine.
   Identical to [step_task] except in that one case. *)
Definition step_task_old (t : nat) (exc : option exn) (s : st) : st :=
  if tdone s t then adderr s LEInvalidState else
  let tk := gett s t in
  let exc := if tmustc tk
             then match exc with
                  | Some e => if is_cancel e then Some e else Some ECancelled
                  | None => Some ECancelled end
             else exc in
  let cont := tcont_ tk in
  let s := sett s t (tk <| tmustc := false |> <| twaiter := None |> <| tcont_ := TRun |>) in
  let s := s <| current := Some t |> in
  let inp := match exc with None => RVal 0 | Some e => RExc e end in
  let '(s, o) :=
    match cont with
    | TNew c => match exc with
                | Some e => (s, ODone (RExc e))
                | None => exec t c s end
    | TSusp frs k =>
        let '(s, r) := resume_stack t frs inp s in
        match r with
        | LDone rep => exec t (k rep) s
        | LSusp y frs' => (s, OYield y frs' k)
        end
    | TEager y frs k =>
        match exc with
        | None =>
            let s := match y with
                     | YFut f => setf s f (getf s f <| fblock := true |>)
                     | YNone => s end in
            (s, OYield y frs k)
        | Some e => (s, ODone (RExc e))      (* the started coroutine is abandoned *)
        end
    | TRun | TFin => (s, ODone (RExc EInvalidState))
    end in
  let s := finish_step t s o in
  s <| current := None |>.

(* the loop, parametrised by the step function *)
Definition wakeup_with (step : nat -> option exn -> st -> st) (t f : nat) (s : st) : st :=
  match fstate_ (getf s f) with
  | FResult _ => step t None s
  | FExc e => step t (Some e) s
  | FCancelled => let '(s', r) := fut_result s f in
                  step t (match r with RExc e => Some e | RVal _ => None end) s'
  | FPending => step t (Some EInvalidState) s
  end.
Definition run_one_with (step : nat -> option exn -> st -> st) (s : st) : st :=
  match rq_popleft (ready s) with
  | None => s
  | Some (h, r) =>
      let s := s <| ready := r |> in
      let hd := geth s h in
      if hcancelled hd then s else
      match hcb hd with
      | HStep t e => step t e s
      | HWakeup t f => wakeup_with step t f s
      | c => run_callback c s
      end
  end.
Lemma run_one_with_model s : run_one_with step_task s = run_one s.
Proof.
  unfold run_one_with, run_one. destruct (rq_popleft (ready s)) as [[h r]|]; [|reflexivity].
  cbv zeta. destruct (hcancelled _); [reflexivity|]. destruct (hcb _); reflexivity.
Qed.

(* the old step differs from the model only on (TEager, throw) *)
Lemma step_task_old_same s t exc :
  (forall y frs k, tcont_ (gett s t) = TEager y frs k -> step_input s t exc = None) ->
  step_task_old t exc s = step_task t exc s.
Proof.
  intros H. unfold step_task_old, step_task. destruct (tdone s t); [reflexivity|].
  destruct (tcont_ (gett s t)) as [c|frs k|y frs k| |] eqn:Hk; try reflexivity.
  specialize (H y frs k eq_refl). unfold step_input in H.
  destruct (tmustc (gett s t)); [discriminate|]. subst exc. reflexivity.
Qed.

(* the probe of DESIGN §4 C03:  t = eager(body()); t.cancel(); await t   with
   body:  log 1; try: await fut0  except CancelledError: log 2; raise  finally: log 3 *)
Definition probe_child : script :=
  SDo (OLog 1) (STry (SDo (OAwaitFut 0) SEnd) CCancel (SDo (OLog 2) SReraise) (SDo (OLog 3) SEnd) SEnd).
Definition probe_main : script :=
  SSpawn SEager probe_child (SDo (OCancelAw 1000) (SDo (OAwaitFut 1000) SEnd)).
Definition probe_start : st :=
  fst (spawn_task (fst (lib_call 0 ONewFut (init_st false 0 [] [] [] 0))) SPlain (denote_task probe_main)).
Fixpoint iter {A} (n : nat) (f : A -> A) (x : A) : A :=
  match n with O => x | S n => iter n f (f x) end.
Definition body_events (s : st) : list Z := map snd (log s).

Lemma iter_add {A} (f : A -> A) n m x : iter (n + m) f x = iter m f (iter n f x).
Proof. revert x. induction n as [|n IH]; intros x; simpl; auto. Qed.
Lemma iter_fixed {A} (f : A -> A) x : f x = x -> forall n, iter n f x = x.
Proof. intros H. induction n as [|n IH]; simpl; auto. rewrite H. exact IH. Qed.
Lemma run_one_with_idle step s : rq_popleft (ready s) = None -> run_one_with step s = s.
Proof. intros H. unfold run_one_with. rewrite H. reflexivity. Qed.

Theorem cancel_before_first_step_probe :
  (* the model (repaired code): the body sees the CancelledError and runs its finally *)
  body_events (iter 6 run_one probe_start) = [1; 2; 3]%Z /\
  rq_items (ready (iter 6 run_one probe_start)) = [] /\
  (* the old behaviour: the body is abandoned after 'start', although the task is done *)
  body_events (iter 6 (run_one_with step_task_old) probe_start) = [1]%Z /\
  rq_items (ready (iter 6 (run_one_with step_task_old) probe_start)) = [] /\
  (forall n, let ev := body_events (iter n (run_one_with step_task_old) probe_start) in
             ev = [] \/ ev = [1]%Z) /\
  (* in both the awaitable (task 1's future, id 2) ends cancelled *)
  fstate_ (getf (iter 6 run_one probe_start) 2) = FCancelled /\
  fstate_ (getf (iter 6 (run_one_with step_task_old) probe_start) 2) = FCancelled /\
  (* model: the continuation is finished by running; old: it is finished without having run *)
  tcont_ (gett (iter 6 run_one probe_start) 1) = TFin /\
  tcont_ (gett (iter 6 (run_one_with step_task_old) probe_start) 1) = TFin.
Proof.
  split; [vm_compute; reflexivity|]. split; [vm_compute; reflexivity|].
  split; [vm_compute; reflexivity|]. split; [vm_compute; reflexivity|].
  split.
  { intros n. cbv zeta. destruct (le_lt_dec 6 n) as [Hn|Hn].
    - right. replace n with (6 + (n - 6)) by lia. rewrite iter_add.
      rewrite iter_fixed; [vm_compute; reflexivity|]. apply run_one_with_idle. vm_compute. reflexivity.
    - do 6 (destruct n as [|n]; [vm_compute; auto|]). lia. }
  repeat split; vm_compute; reflexivity.
Qed.

(* ------------------------------------------------------------ non-vacuity *)
Definition ex_s0 : st := fst (lib_call 0 ONewFut (init_st false 0 [] [] [] 0)).

(* the hypotheses of eager_continuation / eager_done_no_task are met by real programs *)
Example ex_eager_yield :
  match exec 0 (denote_task probe_child) ex_s0 with
  | (s1, OYield (YFut 0) [InFut 0] kc) =>
      fblock (getf s1 0) = true /\
      fblock (getf (eager_cont_state s1 (YFut 0) [InFut 0] kc) 0) = false /\
      body_events s1 = [1]%Z
  | _ => False
  end.
Proof. vm_compute. auto. Qed.

Example ex_eager_done :
  exec 0 (denote_task (SDo (OLog 1) (SRaise (EBase 7)))) ex_s0 =
  (addlog ex_s0 1, ODone (RExc (EBase 7))) /\
  getf (eager_done_state (addlog ex_s0 1) (RExc (EBase 7))) 1 = mkFut (FExc (EBase 7)) [] false None None.
Proof. split; reflexivity. Qed.

(* eager(child) without a cancel: after the caller's step the continuation task 1 is TEager,
   not cancelled; its first step registers it on future 0 exactly as a plain task *)
Definition ex_main2 : script := SSpawn SEager probe_child (SDo (OAwaitFut 1000) SEnd).
Definition ex_start2 : st := fst (spawn_task ex_s0 SPlain (denote_task ex_main2)).
Example ex_first_step :
  let s := run_one ex_start2 in
  match tcont_ (gett s 1) with TEager (YFut 0) [InFut 0] _ => True | _ => False end /\
  tdone s 1 = false /\ tmustc (gett s 1) = false /\ fblock (getf s 0) = false /\
  let s' := run_one s in
  match tcont_ (gett s' 1) with TSusp [InFut 0] _ => True | _ => False end /\
  twaiter (gett s' 1) = Some 0 /\ fcbs (getf s' 0) = [CbWakeup 1] /\ fblock (getf s' 0) = false.
Proof. vm_compute. repeat split; reflexivity. Qed.

(* ... and with the cancel of the probe: TEager with _must_cancel set (hypotheses of
   eager_step_cancelled) *)
Example ex_cancelled_before_step :
  let s := run_one probe_start in
  match tcont_ (gett s 1) with TEager (YFut 0) [InFut 0] _ => True | _ => False end /\
  tdone s 1 = false /\ tmustc (gett s 1) = true /\ twaiter (gett s 1) = None.
Proof. vm_compute. repeat split; reflexivity. Qed.
