(* C10, most urgent first with starvation boosting ENABLED: whatever the boost factor, popleft
   returns the unique minimum of the queue for the CURRENT keys (class, base + boost, arrival):
   the array stays a heap through every maintenance run (Sched/PrioQueueBoost.v). *)
From Coq Require Import QArith Sorting.Permutation.
From Asynkit Require Import Base.Prelude Queue.ListFacts Queue.PQ Queue.Order Queue.Heap
     Queue.HeapqProofs Queue.PQProofs Queue.PosPQ Queue.PosProofs Queue.Exec
     Sched.Model Sched.PartTables Sched.PartitionRun Sched.PrioQueueProofs Sched.PrioQueueBoost.
Open Scope nat_scope.

Theorem pop_min_boost p o p' :
  Invv (pq_ p) -> pos_popleft HPV p = Some (o, p') ->
  exists e, In e (arr (pq_ p)) /\ eobj e = o /\
    (forall x, In x (arr (pq_ p)) -> x = e \/ entry_lt pv_lt e x = true) /\
    Invv (pq_ p').
Proof.
  intros Hi E. unfold pos_popleft in E.
  destruct (pq_popentry HPV (pq_ p)) as [[e q]|] eqn:Ep; [|discriminate].
  inversion E; subst o p'; clear E.
  destruct (pop_inv HPV HPV_sw HPV_spec _ _ _ Hi Ep) as (Hi' & Hperm & _).
  unfold pq_popentry in Ep. destruct (heappop HPV (arr (pq_ p))) as [[e0 a']|] eqn:Eh; [|discriminate].
  inversion Ep; subst e0 q; clear Ep.
  destruct Hi as [Hh (Hnd & _)].
  destruct (heappop_shape HPV HPV_sw HPV_spec _ _ _ Hh Eh) as (_ & Hp & _ & Hall).
  exists e. split; [apply (Permutation_in _ (Permutation_sym Hp)); simpl; auto|]. split; [reflexivity|].
  split; [|apply (update_counters_gen (with_pq p (reset_if_empty (seqn (pq_ p)) a')) false Hi')].
  intros x Hx. apply (Permutation_in _ Hp) in Hx. destruct Hx as [<-|Hx]; [left; reflexivity|right].
  rewrite Forall_forall in Hall. apply (ele_elt HPV_sw); [|apply Hall; exact Hx].
  apply (Permutation_NoDup (Permutation_map (@eseq pv) Hp)) in Hnd. simpl in Hnd.
  inversion Hnd as [|? ? Hn _]; subst. intros Es. apply Hn. rewrite Es. apply in_map. exact Hx.
Qed.

Theorem reachable_Inv_boost factor draws lks cds nev l :
  let s0 := init_st true factor draws lks cds nev in
  actions_ok s0 l -> exists p, ready (fold_left do_action l s0) = RPos p /\ Invv (pq_ p).
Proof.
  intros s0 Hl. destruct (Inv09_prio_boost factor draws lks cds nev l Hl) as [I _].
  pose proof (i_qok (i_wf I)) as Hq. fold s0 in Hq.
  destruct (ready (fold_left do_action l s0)) as [x|p]; [destruct Hq|]. eauto.
Qed.
