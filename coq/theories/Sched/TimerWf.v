(* C16: the well-formedness of the timer tables as a stand-alone global invariant.

   [TWf s]: every entry of the loop's timer heap refers to an existing handle, the handle ids in
   the heap are pairwise distinct, the timer list is heap-ordered for TimerHandle.__lt__ (the
   heapq invariant of HeapqModel), and a handle carrying the callback HTrigger b exists only for
   an allocated timeout block b.

   [TWf] holds in the initial state and is preserved - unconditionally: no side condition on the
   program, the ready queue or the state - by every library call, frame resumption, user program,
   task step, ready handle, loop-iteration start, clock advance, spawn and external call.  The
   timer heap is only touched by sleep / task_timeout (call_at: heappush of a fresh handle id) and
   by the iteration start (heappop); handles are only appended or have their cancelled flag set;
   blocks are only appended or deactivated.  Same proof architecture as FrameFacts.v. *)
From Coq Require Import QArith Sorting.Permutation.
From RecordUpdate Require Import RecordUpdate.
From Asynkit Require Import Base.Prelude Queue.ListFacts Queue.PQ Queue.PosPQ Queue.Exec
     Queue.Heap Queue.HeapqModel Queue.HeapqProofs
     Sched.Model Sched.PartTables Sched.PartitionProofs Sched.FrameFacts Sched.TimerInv.
Import RecordSetNotations.
Open Scope nat_scope.

Record TWfN (n : nat) (s : st) : Prop := {
  tw_len : n <= length (handles s);                          (* handles are never removed *)
  tw_tl : forall e, In e (timers s) -> snd e < length (handles s);
  tw_nd : NoDup (map snd (timers s));
  tw_hp : theap (timers s);
  tw_trg : forall x b', x < length (handles s) -> hcb (geth s x) = HTrigger b' -> b' < length (blocks s) }.

Definition is_trig (c : callback) : bool := match c with HTrigger _ => true | _ => false end.

Section WithN.
Variable n : nat.
Notation TWf := (TWfN n).

(* components untouched *)
Lemma TW_same s s' :
  handles s' = handles s -> timers s' = timers s -> length (blocks s') = length (blocks s) ->
  TWf s -> TWf s'.
Proof.
  intros Eh Em Eb I. destruct I. constructor; unfold geth in *; rewrite ?Eh, ?Em, ?Eb; auto.
Qed.

Lemma TW_setf s f x : TWf s -> TWf (setf s f x).
Proof. apply TW_same; reflexivity. Qed.
Lemma TW_sett s t x : TWf s -> TWf (sett s t x).
Proof. apply TW_same; reflexivity. Qed.
Lemma TW_setl s l x : TWf s -> TWf (setl s l x).
Proof. apply TW_same; reflexivity. Qed.
Lemma TW_setc s l x : TWf s -> TWf (setc s l x).
Proof. apply TW_same; reflexivity. Qed.
Lemma TW_sete s l x : TWf s -> TWf (sete s l x).
Proof. apply TW_same; reflexivity. Qed.
Lemma TW_setb s b x : TWf s -> TWf (setb s b x).
Proof. apply TW_same; try reflexivity. unfold setb. cbn. apply set_nth_length. Qed.
Lemma TW_ready s r : TWf s -> TWf (s <| ready := r |>).
Proof. apply TW_same; reflexivity. Qed.
Lemma TW_adderr s e : TWf s -> TWf (adderr s e).
Proof. apply TW_same; reflexivity. Qed.
Lemma TW_addlog s z : TWf s -> TWf (addlog s z).
Proof. apply TW_same; reflexivity. Qed.
Lemma TW_current s c : TWf s -> TWf (s <| current := c |>).
Proof. apply TW_same; reflexivity. Qed.
Lemma TW_futs s x : TWf s -> TWf (s <| futs := x |>).
Proof. apply TW_same; reflexivity. Qed.
Lemma TW_tasks s x : TWf s -> TWf (s <| tasks := x |>).
Proof. apply TW_same; reflexivity. Qed.
Lemma TW_now s x : TWf s -> TWf (s <| now := x |>).
Proof. apply TW_same; reflexivity. Qed.
Lemma TW_new_future s o : TWf s -> TWf (fst (new_future s o)).
Proof. apply TW_same; reflexivity. Qed.
Lemma TW_new_future_eq s o s' f : new_future s o = (s', f) -> TWf s -> TWf s'.
Proof. intros E. inversion E. apply TW_same; reflexivity. Qed.

(* a new handle that is not a trigger *)
Lemma TW_handles_app s c :
  is_trig c = false -> TWf s -> TWf (s <| handles := handles s ++ [mkH c false] |>).
Proof.
  intros Hc I. destruct I. constructor; cbn; unfold geth in *; cbn; rewrite ?app_length; simpl; auto.
  - lia.
  - intros e He. specialize (tw_tl0 e He). lia.
  - intros x b' Hx Hcb. destruct (Nat.lt_ge_cases x (length (handles s))) as [Hl|Hl].
    + rewrite app_nth1 in Hcb by lia. eapply tw_trg0; eauto.
    + replace x with (length (handles s)) in Hcb by lia. rewrite nth_middle in Hcb. simpl in Hcb.
      subst c. discriminate.
Qed.

Lemma TW_call_soon s c : is_trig c = false -> TWf s -> TWf (call_soon_ s c).
Proof.
  intros Hc I. unfold call_soon_, call_soon. cbn [fst]. apply TW_ready. apply TW_handles_app; auto.
Qed.

Lemma TW_call_at_eq s w' c s' h' : is_trig c = false -> call_at s w' c = (s', h') -> TWf s -> TWf s'.
Proof.
  intros Hc E I. unfold call_at in E. inversion E; subst; clear E.
  pose proof (TW_handles_app s c Hc I) as I1. destruct I1. destruct I as [_ tl0 _ hp0 _].
  pose proof (tperm_push (timers s) (w', length (handles s))) as P.
  constructor; cbn in *; unfold geth in *; cbn in *; auto.
  - intros e He. apply (Permutation_in _ P) in He. destruct He as [<-|He]; simpl.
    + rewrite app_length. simpl. lia.
    + auto.
  - eapply Permutation_NoDup; [apply Permutation_sym, Permutation_map, P|]. simpl. constructor; auto.
    intros Hi. apply in_map_iff in Hi. destruct Hi as (e & E1 & E2). specialize (tl0 e E2). lia.
  - apply theap_push; auto.
Qed.

Lemma TW_cancel_handle s h : TWf s -> TWf (cancel_handle s h).
Proof.
  intros I. destruct I. unfold cancel_handle.
  constructor; cbn; unfold geth in *; cbn; rewrite ?set_nth_length; auto.
  intros x b' Hx Hcb. apply (tw_trg0 x b' Hx). rewrite nth_set_nth in Hcb. destruct (_ && _) eqn:E; auto.
  cbn in Hcb. apply andb_true_iff in E. destruct E as [E _]. apply Nat.eqb_eq in E. subst x. exact Hcb.
Qed.

Lemma TW_call_pos s p c : is_trig c = false -> TWf s -> TWf (call_pos s p c).
Proof.
  intros Hc H. unfold call_pos. rewrite call_soon_eq. destruct (rq_remove _ _).
  - apply TW_ready, TW_call_soon; auto.
  - apply TW_call_soon; auto.
Qed.

(* entering a timeout block: the trigger handle, its heap entry and the block appear together *)
Lemma TW_enter s t d s1 h1 :
  call_at s (now s + d)%Q (HTrigger (length (blocks s))) = (s1, h1) -> TWf s ->
  TWf (s1 <| blocks := blocks s1 ++ [mkBlk t true h1] |>).
Proof.
  intros E I. unfold call_at in E. inversion E; subst; clear E. destruct I.
  pose proof (tperm_push (timers s) ((now s + d)%Q, length (handles s))) as P.
  constructor; cbn; unfold geth in *; cbn; rewrite ?app_length; simpl; auto.
  - lia.
  - intros e He. apply (Permutation_in _ P) in He. destruct He as [<-|He]; simpl; [lia|].
    specialize (tw_tl0 e He). lia.
  - eapply Permutation_NoDup; [apply Permutation_sym, Permutation_map, P|]. simpl. constructor; auto.
    intros Hi. apply in_map_iff in Hi. destruct Hi as (e & E1 & E2). specialize (tw_tl0 e E2). lia.
  - apply theap_push; auto.
  - intros x b' Hx Hcb. destruct (Nat.lt_ge_cases x (length (handles s))) as [Hl|Hl].
    + rewrite app_nth1 in Hcb by lia. specialize (tw_trg0 x b' Hl Hcb). lia.
    + replace x with (length (handles s)) in Hcb by lia. rewrite nth_middle in Hcb. simpl in Hcb.
      inversion Hcb. lia.
Qed.

Lemma cb_callback_ntrig f c : is_trig (cb_callback f c) = false.
Proof. destruct c; reflexivity. Qed.

Ltac cside := first [ reflexivity | apply cb_callback_ntrig ].

Ltac case_goal_T :=
  match goal with
  | |- TWf (if ?b then _ else _) => destruct b eqn:?
  | |- TWf (match ?x with _ => _ end) =>
      lazymatch type of x with
      | prod _ _ => let a := fresh "s" in let b := fresh "r" in destruct x as [a b] eqn:?
      | _ => destruct x eqn:?
      end
  | |- TWf (fst (if ?b then _ else _)) => destruct b eqn:?
  | |- TWf (fst (match ?x with _ => _ end)) =>
      lazymatch type of x with
      | prod _ _ => let a := fresh "s" in let b := fresh "r" in destruct x as [a b] eqn:?
      | _ => destruct x eqn:?
      end
  | |- TWf (fst (_, _)) => cbn [fst]
  end.

Ltac tprim := fail.
Ltac tstep :=
  first
    [ assumption
    | apply TW_call_soon; [cside|] | apply TW_cancel_handle | apply TW_call_pos; [cside|]
    | apply TW_setf | apply TW_sett | apply TW_setl | apply TW_setc | apply TW_sete | apply TW_setb
    | apply TW_ready | apply TW_adderr | apply TW_addlog | apply TW_new_future | apply TW_current
    | eapply TW_new_future_eq; [eassumption|]
    | eapply TW_call_at_eq; [ | eassumption | ]; [reflexivity | ]
    | tprim
    | case_goal_T ].
Ltac tgo := repeat tstep.
Ltac top E := repeat case_in E; inversion E; subst; clear E; tgo.

Lemma TW_fold {A} (f : st -> A -> st) :
  (forall s a, TWf s -> TWf (f s a)) ->
  forall l s, TWf s -> TWf (fold_left f l s).
Proof. intros H. induction l as [|a l IH]; intros s HG; simpl; auto. Qed.

Lemma TW_schedule_callbacks s f : TWf s -> TWf (schedule_callbacks s f).
Proof.
  intros H. unfold schedule_callbacks. apply TW_fold; [intros; apply TW_call_soon; [apply cb_callback_ntrig|auto]|]. tgo.
Qed.
Lemma TW_fut_finish s f x s' ok : fut_finish s f x = (s', ok) -> TWf s -> TWf s'.
Proof.
  intros E H. unfold fut_finish in E. destruct (fstate_ (getf s f)); inversion E; subst; auto.
  apply TW_schedule_callbacks. tgo.
Qed.
Lemma TW_fut_finish_fst s f x : TWf s -> TWf (fst (fut_finish s f x)).
Proof. intros H. destruct (fut_finish s f x) eqn:E. eapply TW_fut_finish; eauto. Qed.
Lemma TW_add_done_callback s f c : TWf s -> TWf (add_done_callback s f c).
Proof. intros H. unfold add_done_callback. tgo. Qed.
Lemma TW_remove_done_callback s f c : TWf s -> TWf (remove_done_callback s f c).
Proof. intros H. unfold remove_done_callback. tgo. Qed.

Ltac tprim ::=
  first
    [ eapply TW_fut_finish; [eassumption|]
    | apply TW_fut_finish_fst | apply TW_schedule_callbacks
    | apply TW_add_done_callback | apply TW_remove_done_callback ].

Lemma TW_task_cancel : forall fuel s t s' ok, task_cancel fuel s t = (s', ok) -> TWf s -> TWf s'.
Proof.
  induction fuel as [|fuel IH]; intros s t s' ok E H; cbn [task_cancel] in E.
  - top E.
  - repeat case_in E; inversion E; subst; clear E; tgo;
      match goal with Hc : task_cancel fuel _ _ = _ |- _ => try (eapply IH in Hc; [|eassumption]) end; tgo.
Qed.
Lemma TW_cancel_task s t s' ok : cancel_task s t = (s', ok) -> TWf s -> TWf s'.
Proof. apply TW_task_cancel. Qed.
Lemma TW_cancel_awaitable s f s' ok : cancel_awaitable s f = (s', ok) -> TWf s -> TWf s'.
Proof.
  unfold cancel_awaitable. destruct (fowner (getf s f)); [apply TW_cancel_task|apply TW_fut_finish].
Qed.

Ltac tprim ::=
  first
    [ eapply TW_fut_finish; [eassumption|]
    | apply TW_fut_finish_fst | apply TW_schedule_callbacks
    | apply TW_add_done_callback | apply TW_remove_done_callback
    | eapply TW_task_cancel; [eassumption|]
    | eapply TW_cancel_task; [eassumption|]
    | eapply TW_cancel_awaitable; [eassumption|] ].

(* ------------------------------------------------------------ locks *)
Lemma TW_take_lock s l t s' : take_lock s l t = inl s' -> TWf s -> TWf s'.
Proof. intros E H. unfold take_lock in E. top E. Qed.
Lemma TW_wake_up_first_p s l : TWf s -> TWf (wake_up_first_p s l).
Proof. intros H. unfold wake_up_first_p. tgo. Qed.
Lemma TW_wake_up_first_a s l : TWf s -> TWf (wake_up_first_a s l).
Proof. intros H. unfold wake_up_first_a. tgo. Qed.
Lemma TW_task_reschedule s t : TWf s -> TWf (task_reschedule s t).
Proof. intros H. unfold task_reschedule. tgo. Qed.

Lemma TW_propagate_task : forall fuel s t, TWf s -> TWf (propagate_task fuel s t).
Proof.
  induction fuel as [|fuel IH]; intros s t H; cbn [propagate_task].
  - destruct (negb _); auto.
    set (s' := if task_is_runnable s t then task_reschedule s t else s).
    assert (H' : TWf s') by (unfold s'; destruct (task_is_runnable s t); [apply TW_task_reschedule|]; auto).
    clearbody s'. clear H s. rename s' into s, H' into H.
    destruct (twaiting _); auto.
  - destruct (negb _); auto.
    set (s' := if task_is_runnable s t then task_reschedule s t else s).
    assert (H' : TWf s') by (unfold s'; destruct (task_is_runnable s t); [apply TW_task_reschedule|]; auto).
    clearbody s'. clear H s. rename s' into s, H' into H.
    destruct (twaiting (gett s t)) as [l|]; auto.
    set (s1 := match lowner (getl s l) with Some o => propagate_task fuel s o | None => s end).
    assert (H1 : TWf s1) by (unfold s1; destruct (lowner (getl s l)); auto).
    clearbody s1. tgo.
Qed.
Lemma TW_propagate_priority s t : TWf s -> TWf (propagate_priority s t).
Proof. apply TW_propagate_task. Qed.

Lemma TW_fut_result s f s' r : fut_result s f = (s', r) -> TWf s -> TWf s'.
Proof. intros E H. unfold fut_result in E. top E. Qed.
Lemma TW_await_fut s f outer s' r : await_fut s f outer = (s', r) -> TWf s -> TWf s'.
Proof.
  intros E H. unfold await_fut in E. destruct (fdone s f).
  - destruct (fut_result s f) as [s1 r1] eqn:F. inversion E; subst. eapply TW_fut_result; eauto.
  - inversion E; subst. tgo.
Qed.

Ltac tprim ::=
  first
    [ eapply TW_fut_finish; [eassumption|]
    | apply TW_fut_finish_fst | apply TW_schedule_callbacks
    | apply TW_add_done_callback | apply TW_remove_done_callback
    | eapply TW_task_cancel; [eassumption|]
    | eapply TW_cancel_task; [eassumption|]
    | eapply TW_cancel_awaitable; [eassumption|]
    | eapply TW_take_lock; [eassumption|]
    | apply TW_wake_up_first_p | apply TW_wake_up_first_a | apply TW_task_reschedule
    | apply TW_propagate_priority
    | eapply TW_fut_result; [eassumption|]
    | eapply TW_await_fut; [eassumption|] ].

Lemma TW_acquire_p_start s t l s' r : acquire_p_start s t l = (s', r) -> TWf s -> TWf s'.
Proof. intros E H. unfold acquire_p_start in E. top E. Qed.
Lemma TW_acquire_p_finish s t l f had inp s' r :
  acquire_p_finish s t l f had inp = (s', r) -> TWf s -> TWf s'.
Proof.
  intros E H. unfold acquire_p_finish in E.
  set (p := match inp with RVal _ => _ | RExc e => (s, RExc e) end) in E.
  assert (H1 : TWf (fst p)).
  { unfold p. destruct inp; [|exact H]. destruct (take_lock s l t) eqn:T; [|exact H].
    eapply TW_take_lock; eauto. }
  destruct p as [s1 r1]. cbn [fst] in H1. inversion E; subst. tgo.
Qed.
Lemma TW_release_p s t l s' r : release_p s t l = (s', r) -> TWf s -> TWf s'.
Proof. intros E H. unfold release_p in E. top E. Qed.
Lemma TW_acquire_a_start s l s' r : acquire_a_start s l = (s', r) -> TWf s -> TWf s'.
Proof. intros E H. unfold acquire_a_start in E. top E. Qed.
Lemma TW_acquire_a_finish s l f inp s' r : acquire_a_finish s l f inp = (s', r) -> TWf s -> TWf s'.
Proof. intros E H. unfold acquire_a_finish in E. top E. Qed.
Lemma TW_release_a s l s' r : release_a s l = (s', r) -> TWf s -> TWf s'.
Proof. intros E H. unfold release_a in E. top E. Qed.
Lemma TW_acquire_start s t l s' r : acquire_start s t l = (s', r) -> TWf s -> TWf s'.
Proof.
  unfold acquire_start. destruct (lkind_ (getl s l)); [apply TW_acquire_p_start|apply TW_acquire_a_start].
Qed.
Lemma TW_release s t l s' r : release s t l = (s', r) -> TWf s -> TWf s'.
Proof. unfold release. destruct (lkind_ (getl s l)); [apply TW_release_p|apply TW_release_a]. Qed.

(* ------------------------------------------------------------ throw / reinsert *)
Lemma TW_task_throw s t e s' r : task_throw s t e = (s', r) -> TWf s -> TWf s'.
Proof. intros E H. unfold task_throw in E. top E. Qed.
Lemma TW_task_reinsert s t p s' r : task_reinsert s t p = (s', r) -> TWf s -> TWf s'.
Proof. intros E H. unfold task_reinsert in E. top E. Qed.
Lemma TW_task_interrupt_start s t e s' r : task_interrupt_start s t e = (s', r) -> TWf s -> TWf s'.
Proof.
  intros E H. unfold task_interrupt_start in E.
  destruct (task_throw s t e) as [s1 r1] eqn:T. pose proof (TW_task_throw _ _ _ _ _ T H) as H1.
  destruct r1; [|inversion E; subst; auto].
  destruct (task_reinsert s1 t 0) as [s2 r2] eqn:R. pose proof (TW_task_reinsert _ _ _ _ _ R H1) as H2.
  destruct r2; inversion E; subst; auto.
Qed.
Lemma TW_interruptor : forall fuel s b i s' r, interruptor fuel s b i = (s', r) -> TWf s -> TWf s'.
Proof.
  induction fuel as [|fuel IH]; intros s b i s' r E H; cbn [interruptor] in E.
  - inversion E; subst; auto.
  - destruct (Nat.leb 3 i); [inversion E; subst; auto|].
    destruct (negb _); [eapply IH; eauto|].
    destruct (task_interrupt_start s _ _) as [s1 r1] eqn:T.
    pose proof (TW_task_interrupt_start _ _ _ _ _ T H) as H1.
    repeat case_in E; inversion E; subst; auto; eapply IH; eauto.
Qed.
Lemma TW_interruptor_wrap s r s' r' : interruptor_wrap s r = (s', r') -> TWf s -> TWf s'.
Proof. intros E H. pose proof (interruptor_wrap_fst s r) as F. rewrite E in F. simpl in F. subst. exact H. Qed.

(* ------------------------------------------------------------ conditions *)
Lemma TW_notify_p s c m : TWf s -> TWf (notify_p s c m).
Proof.
  intros H. unfold notify_p.
  match goal with |- context [fold_left ?F ?l ?a] =>
    assert (HF : TWf (fst (fst (fold_left F l a)))) end.
  { match goal with |- context [fold_left ?F ?l ?a] => generalize l; intros l0 end.
    assert (X : forall l (a : st * nat * nat), TWf (fst (fst a)) ->
      TWf (fst (fst (fold_left (fun '(s1, taken, cnt) (f : nat) =>
               if m <=? cnt then (s1, taken, cnt)
               else if fdone s1 f then (s1, S taken, cnt)
                    else (fst (fut_finish s1 f (FResult 1)), S taken, S cnt)) l a)))).
    { induction l as [|f l IH]; intros [[s1 tk] cnt] Ha; simpl; auto. apply IH.
      destruct (m <=? cnt); auto. destruct (fdone s1 f); auto. simpl. tgo. }
    apply X. exact H. }
  destruct (fold_left _ _ _) as [[s1 tk] cnt]. cbn [fst] in HF. tgo.
Qed.
Lemma TW_notify_i s c m : TWf s -> TWf (notify_i s c m).
Proof.
  intros H. unfold notify_i.
  assert (X : forall l (a : st * nat), TWf (fst a) ->
    TWf (fst (fold_left (fun '(s1, cnt) (f : nat) =>
             if m <=? cnt then (s1, cnt)
             else if fdone s1 f then (s1, cnt)
                  else (fst (fut_finish s1 f (FResult 0)), S cnt)) l a))).
  { induction l as [|f l IH]; intros [s1 cnt] Ha; simpl; auto. apply IH.
    destruct (m <=? cnt); auto. destruct (fdone s1 f); auto. simpl. tgo. }
  apply X. exact H.
Qed.
Lemma TW_reacquire s t c pc err body s' r :
  reacquire s t c pc err body = (s', r) -> TWf s -> TWf s'.
Proof.
  intros E H. unfold reacquire in E.
  destruct (acquire_start s t _) as [s1 r1] eqn:A. pose proof (TW_acquire_start _ _ _ _ _ A H).
  repeat case_in E; inversion E; subst; auto.
Qed.
Lemma TW_cond_p_after s c r s' r' : cond_p_after s c r = (s', r') -> TWf s -> TWf s'.
Proof. intros E H. unfold cond_p_after in E. destruct r; inversion E; subst; auto. apply TW_notify_p; auto. Qed.
Lemma TW_queue_iterated s : TWf s -> TWf (queue_iterated s).
Proof. intros H. unfold queue_iterated. tgo. Qed.

Ltac tprim ::=
  first
    [ eapply TW_fut_finish; [eassumption|]
    | apply TW_fut_finish_fst | apply TW_schedule_callbacks
    | apply TW_add_done_callback | apply TW_remove_done_callback
    | eapply TW_task_cancel; [eassumption|]
    | eapply TW_cancel_task; [eassumption|]
    | eapply TW_cancel_awaitable; [eassumption|]
    | eapply TW_take_lock; [eassumption|]
    | apply TW_wake_up_first_p | apply TW_wake_up_first_a | apply TW_task_reschedule
    | apply TW_propagate_priority
    | eapply TW_fut_result; [eassumption|]
    | eapply TW_await_fut; [eassumption|]
    | eapply TW_acquire_start; [eassumption|]
    | eapply TW_release; [eassumption|]
    | eapply TW_acquire_p_finish; [eassumption|]
    | eapply TW_acquire_a_finish; [eassumption|]
    | eapply TW_task_throw; [eassumption|]
    | eapply TW_task_reinsert; [eassumption|]
    | eapply TW_task_interrupt_start; [eassumption|]
    | eapply TW_interruptor; [eassumption|]
    | eapply TW_interruptor_wrap; [eassumption|]
    | apply TW_notify_p | apply TW_notify_i | apply TW_queue_iterated
    | eapply TW_reacquire; [eassumption|]
    | eapply TW_cond_p_after; [eassumption|] ].

(* ------------------------------------------------------------ library calls, frames, user code *)
Lemma TW_event_set_fold : forall ws s,
  TWf s -> TWf (fold_left (fun s f => if fdone s f then s else fst (fut_finish s f (FResult 1))) ws s).
Proof. intros ws. apply TW_fold. intros. tgo. Qed.

Theorem TW_lib_call t op s s' r : lib_call t op s = (s', r) -> TWf s -> TWf s'.
Proof.
  intros E H. destruct op; cbn [lib_call] in E;
    try (top E; fail).
  - (* OEventSet *) repeat case_in E; inversion E; subst; auto. apply TW_event_set_fold. tgo.
  - (* OTimeoutEnter *)
    destruct d as [d|]; [|inversion E; subst; auto].
    destruct (call_at s (now s + d)%Q (HTrigger (length (blocks s)))) as [s1 h1] eqn:A.
    inversion E; subst; clear E. eapply TW_enter; eauto.
Qed.

Lemma TW_frame_resume t fr inp s s' r : frame_resume t fr inp s = (s', r) -> TWf s -> TWf s'.
Proof.
  intros E H. destruct fr; cbn [frame_resume] in E; try (top E; fail);
    try (unfold interruptor_wrap in E; top E; fail).
Qed.

Lemma TW_resume_stack t : forall frs inp s s' r,
  resume_stack t frs inp s = (s', r) -> TWf s -> TWf s'.
Proof.
  induction frs as [|fr rest IH]; intros inp s s' r E H; cbn [resume_stack] in E.
  - inversion E; subst; auto.
  - destruct (frame_resume t fr inp s) as [s1 r1] eqn:F.
    pose proof (TW_frame_resume _ _ _ _ _ _ F H) as H1.
    destruct r1; [eapply IH; eauto|inversion E; subst; auto].
Qed.

Lemma TW_new_task s kind p c s' t : new_task s kind p c = (s', t) -> TWf s -> TWf s'.
Proof.
  intros E H. unfold new_task in E.
  destruct (new_future s (Some (length (tasks s)))) as [s1 f] eqn:N.
  pose proof (TW_new_future_eq _ _ _ _ N H) as H1. inversion E; subst. apply TW_call_soon; [reflexivity|].
  apply TW_tasks. exact H1.
Qed.
Lemma TW_spawn_task s how c s' t : spawn_task s how c = (s', t) -> TWf s -> TWf s'.
Proof. unfold spawn_task. destruct how; apply TW_new_task. Qed.

Theorem TW_exec t : forall c s s' o, exec t c s = (s', o) -> TWf s -> TWf s'.
Proof.
  induction c as [v|e|op k IH|how child IHc k IHk]; intros s s' o E H.
  - inversion E; subst; auto.
  - inversion E; subst; auto.
  - cbn [exec] in E. destruct (lib_call t op s) as [s1 r1] eqn:L.
    pose proof (TW_lib_call _ _ _ _ _ L H) as H1.
    destruct r1; [eapply IH; eauto|inversion E; subst; auto].
  - destruct how; cbn [exec] in E;
      try (destruct (spawn_task s _ child) as [s1 t'] eqn:S;
           pose proof (TW_spawn_task _ _ _ _ _ S H) as H1).
    + eapply IHk; eauto.
    + eapply IHk; eauto.
    + eapply IHk; eauto.
    + destruct (lib_call t _ s1) as [s2 r2] eqn:L. pose proof (TW_lib_call _ _ _ _ _ L H1) as H2.
      destruct r2 as [[v|e]|]; [eapply IHk; eauto|eapply IHk; eauto|inversion E; subst; auto].
    + inversion E; subst; auto.
    + destruct (exec t child s) as [s1 o1] eqn:C. pose proof (IHc _ _ _ C H) as H1.
      destruct o1 as [r1|y frs kc].
      * eapply IHk; [exact E|]. tgo.
      * eapply IHk; [exact E|]. apply TW_call_soon; [reflexivity|].
        apply TW_tasks. apply TW_futs. destruct y; tgo.
Qed.

(* ------------------------------------------------------------ Task.__step and the loop *)
Lemma TW_finish_step t s o : TWf s -> TWf (finish_step t s o).
Proof. intros H. unfold finish_step. tgo. Qed.

Theorem TW_step_task t exc s : TWf s -> TWf (step_task t exc s).
Proof.
  intros H. unfold step_task. destruct (tdone s t); [apply TW_adderr; auto|].
  match goal with |- context [sett s t ?x <| current := Some t |>] =>
    set (s1 := sett s t x <| current := Some t |>) end.
  assert (H1 : TWf s1) by (unfold s1; tgo).
  match goal with |- TWf (let '(s2, o) := ?p in _) => assert (HP : TWf (fst p)); [|destruct p as [sx ox]] end.
  { destruct (tcont_ (gett s t)) as [c|frs k|y frs k| |].
    - destruct (if tmustc (gett s t) then _ else exc); [exact H1|].
      destruct (exec t c s1) as [s2 o] eqn:E. cbn [fst]. eapply TW_exec; eauto.
    - destruct (resume_stack t frs _ s1) as [s2 r] eqn:E.
      pose proof (TW_resume_stack t _ _ _ _ _ E H1) as H2.
      destruct r; [|exact H2]. destruct (exec t (k r) s2) as [s3 o] eqn:E3. cbn [fst].
      eapply TW_exec; eauto.
    - destruct (if tmustc (gett s t) then _ else exc).
      + destruct (resume_stack t frs _ s1) as [s2 r] eqn:E.
        pose proof (TW_resume_stack t _ _ _ _ _ E H1) as H2.
        destruct r; [|exact H2]. destruct (exec t (k r) s2) as [s3 o] eqn:E3. cbn [fst].
        eapply TW_exec; eauto.
      + cbn [fst]. destruct y; tgo.
    - exact H1.
    - exact H1. }
  cbn [fst] in HP. cbv zeta. apply TW_current. apply TW_finish_step; auto.
Qed.

Lemma TW_wakeup t f s : TWf s -> TWf (wakeup t f s).
Proof.
  intros H. unfold wakeup. destruct (fstate_ (getf s f)); try (apply TW_step_task; exact H).
  destruct (fut_result s f) as [s1 r] eqn:E. apply TW_step_task. eapply TW_fut_result; eauto.
Qed.

Theorem TW_run_callback c s : TWf s -> TWf (run_callback c s).
Proof.
  intros H. destruct c as [t e|t f|t p|z|f v|b'| |t]; cbn [run_callback];
    try (apply TW_step_task; exact H); try (apply TW_wakeup; exact H); try (tgo; fail).
  - destruct (new_task s KC None (interruptor_body b')) as [s1 t1] eqn:E. cbn [fst].
    eapply TW_new_task; eauto.
  - destruct (cancel_task s t) as [s1 ok] eqn:E. cbn [fst]. eapply TW_cancel_task; eauto.
Qed.

Theorem TW_run_one s : TWf s -> TWf (run_one s).
Proof.
  intros H. unfold run_one. destruct (rq_popleft (ready s)) as [[x r]|] eqn:P; [|exact H].
  destruct (hcancelled _); [apply TW_ready; exact H|]. apply TW_run_callback. apply TW_ready. exact H.
Qed.

(* ------------------------------------------------------------ the start of a loop iteration *)
Lemma TW_timers_pop s e tm :
  HeapqModel.heappop timer_lt tdflt (timers s) = Some (e, tm) -> TWf s -> TWf (s <| timers := tm |>).
Proof.
  intros E I. pose proof (tperm_pop _ _ _ E) as P.
  destruct (theap_pop _ _ _ (tw_hp _ _ I) E) as [_ Hh].
  destruct I. constructor; cbn; auto.
  - intros x Hx. apply tw_tl0. apply (Permutation_in _ (Permutation_sym P)). right; auto.
  - pose proof (Permutation_NoDup (Permutation_map snd P) tw_nd0) as ND. inversion ND; auto.
Qed.

Lemma TW_drop_cancelled : forall fuel s, TWf s -> TWf (drop_cancelled fuel s).
Proof.
  induction fuel as [|fuel IH]; intros s H; cbn [drop_cancelled]; auto.
  destruct (timers s) as [|[w0 h0] tl] eqn:T; auto.
  destruct (hcancelled (geth s h0)) eqn:C; auto. rewrite <- T.
  destruct (HeapqModel.heappop _ _ _) as [[e tm]|] eqn:P; auto.
  apply IH. eapply TW_timers_pop; eauto.
Qed.

Lemma TW_move_due : forall fuel s, TWf s -> TWf (move_due fuel s).
Proof.
  induction fuel as [|fuel IH]; intros s H; cbn [move_due]; auto.
  destruct (timers s) as [|[w0 h0] tl] eqn:T; auto.
  destruct (Qle_bool w0 (now s)) eqn:C; auto. rewrite <- T.
  destruct (HeapqModel.heappop _ _ _) as [[[w1 h1] tm]|] eqn:P; auto.
  apply IH. apply TW_ready. eapply TW_timers_pop; eauto.
Qed.

Theorem TW_begin_iteration s : TWf s -> TWf (begin_iteration s).
Proof. intros H. unfold begin_iteration. apply TW_move_due. apply TW_drop_cancelled. exact H. Qed.

(* ------------------------------------------------------------ every action, every run *)
Theorem TW_do_action s a : TWf s -> TWf (do_action s a).
Proof.
  intros H. destruct a as [| |d|how c|op]; cbn [do_action].
  - apply TW_run_one; auto.
  - apply TW_begin_iteration; auto.
  - apply TW_now; auto.
  - destruct (spawn_task s how c) as [s1 t] eqn:E. cbn [fst]. eapply TW_spawn_task; eauto.
  - destruct (lib_call 0 op s) as [s1 r] eqn:E. cbn [fst]. eapply TW_lib_call; eauto.
Qed.

Theorem TW_actions : forall acts s, TWf s -> TWf (fold_left do_action acts s).
Proof.
  induction acts as [|a acts IH]; intros s H; simpl; auto. apply IH. apply TW_do_action. exact H.
Qed.

End WithN.

Notation TWf := (TWfN 0).

Theorem TW_init prio factor draws lks cds nev : TWf (init_st prio factor draws lks cds nev).
Proof.
  constructor; simpl.
  - lia.
  - intros e [].
  - constructor.
  - apply is_heap_nil.
  - intros; lia.
Qed.

Lemma TWfN_weaken n m s : m <= n -> TWfN n s -> TWfN m s.
Proof. intros L I. destruct I. constructor; auto. lia. Qed.
Lemma TWfN_intro n s : TWf s -> n <= length (handles s) -> TWfN n s.
Proof. intros I L. destruct I. constructor; auto. Qed.
