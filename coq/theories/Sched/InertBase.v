(* C09/C15/C10: finished tasks are inert.  Definitions and the primitive layer.

   Inv09 (PartTables.InvC) leaves finished tasks unconstrained because the model is total and
   lets foreign code complete a task's own future.  Under the domain condition "no external
   completion" (nec, Sched/InertRun.v) the following strengthening XI is an invariant, carried
   beside InvC through every primitive (this file), every library operation (InertOps.v) and
   every program, step and action (InertRun.v):
     x_dead   a finished task has no queued handle and no wake-up callback on a pending future;
     x_alive  the task whose step is in progress is not finished;
     x_ow     the future of task t is owned by t (fowner = Some t): task futures are distinct and
              are told apart from plain futures;
     x_ql..x_qh  every future id stored in a lock / condition / event waiter table or in a
              sleep timer callback is an allocated PLAIN future (fowner = None) - so the wake-ups
              the library performs on them never complete a task;
     x_pl/x_pc   the waiter heaps satisfy the heap invariant (needed to know which ids they hold). *)
From Coq Require Import QArith Sorting.Permutation.
From RecordUpdate Require Import RecordUpdate.
From Asynkit Require Import Base.Prelude Queue.ListFacts Queue.PQ Queue.PQProofs Queue.PosPQ Queue.Exec
     Queue.HeapqProofs Sched.Model Sched.PartTables Sched.PartitionProofs Sched.QFacts.
Import RecordSetNotations.
Open Scope nat_scope.

(* an allocated plain future *)
Definition ntf (s : st) (f : nat) : Prop := f < length (futs s) /\ fowner (getf s f) = None.
Definition qf_l (lk : lock) : list nat := pq_objs (lpq lk) ++ ldq lk.
Definition qf_c (cd : cond) : list nat := pq_objs (cpq cd) ++ cdq cd.

Record XI (c : option nat) (s : st) : Prop := {
  x_dead : forall t, t < length (tasks s) -> tdone s t = true ->
           hcnt s t = 0 /\ forall g, fdone s g = false -> ccnt s t g = 0;
  x_alive : forall t, c = Some t -> tdone s t = false;
  x_ow : forall t, t < length (tasks s) ->
         tfut (gett s t) < length (futs s) /\ fowner (getf s (tfut (gett s t))) = Some t;
  x_ql : forall l f, In f (qf_l (getl s l)) -> ntf s f;
  x_pl : forall l, PQInv (lpq (getl s l));
  x_qc : forall k f, In f (qf_c (getc s k)) -> ntf s f;
  x_pc : forall k, PQInv (cpq (getc s k));
  x_qe : forall e f, In f (ewaiters (gete s e)) -> ntf s f;
  x_qh : forall h f v, hcb (geth s h) = HSetResult f v -> ntf s f
}.
Arguments x_dead {c s}. Arguments x_alive {c s}. Arguments x_ow {c s}. Arguments x_ql {c s}.
Arguments x_pl {c s}. Arguments x_qc {c s}. Arguments x_pc {c s}. Arguments x_qe {c s}.
Arguments x_qh {c s}.

(* the future table grows and keeps owners *)
Definition fext (s s' : st) : Prop :=
  length (futs s) <= length (futs s') /\
  forall g, g < length (futs s) -> fowner (getf s' g) = fowner (getf s g).

Lemma fext_refl s : fext s s. Proof. split; auto. Qed.
Lemma fext_eq s s' : futs s' = futs s -> fext s s'.
Proof. intros E. unfold fext, getf. rewrite E. auto. Qed.
Lemma ntf_fext s s' f : fext s s' -> ntf s f -> ntf s' f.
Proof. intros [A B] [H1 H2]. split; [lia|]. rewrite B; auto. Qed.

(* a plain future is nobody's task future *)
Lemma ntf_not_task c s f t : XI c s -> ntf s f -> t < length (tasks s) -> tfut (gett s t) <> f.
Proof. intros X [_ N] Ht E. destruct (x_ow X t Ht) as [_ O]. rewrite E in O. congruence. Qed.

Lemma tfut_inj c s t t' :
  XI c s -> t < length (tasks s) -> t' < length (tasks s) ->
  tfut (gett s t) = tfut (gett s t') -> t = t'.
Proof.
  intros X Ht Ht' E. destruct (x_ow X t Ht) as [_ O]. destruct (x_ow X t' Ht') as [_ O'].
  rewrite E in O. congruence.
Qed.

(* the master transfer lemma: everything XI reads is unchanged, or changed harmlessly *)
Lemma XI_obs c s s' :
  XI c s -> length (tasks s') = length (tasks s) ->
  (forall t, t < length (tasks s) -> tdone s t = true -> hcnt s' t = hcnt s t) ->
  (forall g, fdone s' g = fdone s g) ->
  (forall t g, t < length (tasks s) -> tdone s t = true -> fdone s g = false -> ccnt s' t g = ccnt s t g) ->
  (forall t, t < length (tasks s) -> tfut (gett s' t) = tfut (gett s t)) ->
  fext s s' ->
  (forall l f, In f (qf_l (getl s' l)) -> In f (qf_l (getl s l)) \/ ntf s' f) ->
  (forall l, PQInv (lpq (getl s' l))) ->
  (forall k f, In f (qf_c (getc s' k)) -> In f (qf_c (getc s k)) \/ ntf s' f) ->
  (forall k, PQInv (cpq (getc s' k))) ->
  (forall e f, In f (ewaiters (gete s' e)) -> In f (ewaiters (gete s e)) \/ ntf s' f) ->
  (forall h f v, hcb (geth s' h) = HSetResult f v -> (exists h', hcb (geth s h') = HSetResult f v) \/ ntf s' f) ->
  XI c s'.
Proof.
  intros X El Eh Ef Ec Et Fx Hl Hpl Hc Hpc He Hh.
  assert (Td : forall t, t < length (tasks s) -> tdone s' t = tdone s t).
  { intros t Ht. unfold tdone. rewrite Et, Ef; auto. }
  constructor.
  - rewrite El. intros t Ht Hd. rewrite Td in Hd by auto. destruct (x_dead X t Ht Hd) as [D1 D2].
    split; [rewrite Eh; auto|]. intros g Hg. rewrite Ef in Hg. rewrite Ec; auto.
  - intros t Hc'. pose proof (x_alive X t Hc') as A. unfold tdone in *.
    destruct (Nat.lt_ge_cases t (length (tasks s))) as [Ht|Ht].
    + rewrite Et, Ef; auto.
    + rewrite gett_oob in * by lia. rewrite Ef. exact A.
  - rewrite El. intros t Ht. destruct (x_ow X t Ht) as [O1 O2]. rewrite Et by auto.
    destruct Fx as [F1 F2]. split; [lia|]. rewrite F2; auto.
  - intros l f Hf. destruct (Hl l f Hf) as [H|H]; auto. eapply ntf_fext; [exact Fx|]. eapply x_ql; eauto.
  - exact Hpl.
  - intros k f Hf. destruct (Hc k f Hf) as [H|H]; auto. eapply ntf_fext; [exact Fx|]. eapply x_qc; eauto.
  - exact Hpc.
  - intros e f Hf. destruct (He e f Hf) as [H|H]; auto. eapply ntf_fext; [exact Fx|]. eapply x_qe; eauto.
  - intros h f v Hf. destruct (Hh h f v Hf) as [[h' H]|H]; auto. eapply ntf_fext; [exact Fx|]. eapply x_qh; eauto.
Qed.

(* the waiter tables and the handle callbacks are untouched *)
Lemma XI_obs_t c s s' :
  XI c s -> length (tasks s') = length (tasks s) ->
  (forall t, t < length (tasks s) -> tdone s t = true -> hcnt s' t = hcnt s t) ->
  (forall g, fdone s' g = fdone s g) ->
  (forall t g, t < length (tasks s) -> tdone s t = true -> fdone s g = false -> ccnt s' t g = ccnt s t g) ->
  (forall t, t < length (tasks s) -> tfut (gett s' t) = tfut (gett s t)) ->
  fext s s' ->
  locks s' = locks s -> conds s' = conds s -> events s' = events s ->
  (forall h f v, hcb (geth s' h) = HSetResult f v -> (exists h', hcb (geth s h') = HSetResult f v) \/ ntf s' f) ->
  XI c s'.
Proof.
  intros X El Eh Ef Ec Et Fx L C E Hh.
  eapply XI_obs; eauto.
  - unfold getl. rewrite L. auto.
  - unfold getl. rewrite L. apply (x_pl X).
  - unfold getc. rewrite C. auto.
  - unfold getc. rewrite C. apply (x_pc X).
  - unfold gete. rewrite E. auto.
Qed.

Lemma hcnt_same s s' t :
  ready s' = ready s -> (forall h, hcb (geth s' h) = hcb (geth s h)) -> hcnt s' t = hcnt s t.
Proof. intros Er Eh. apply hcnt_perm; [rewrite Er; auto|auto]. Qed.

Lemma XI_same c s s' :
  ready s' = ready s -> handles s' = handles s -> futs s' = futs s -> tasks s' = tasks s ->
  locks s' = locks s -> conds s' = conds s -> events s' = events s -> XI c s -> XI c s'.
Proof.
  intros Er Eh Ef Et El Ec Ee X.
  assert (G : forall h, geth s' h = geth s h) by (intros; unfold geth; rewrite Eh; auto).
  eapply XI_obs_t; eauto.
  - rewrite Et; auto.
  - intros. apply hcnt_same; auto. intros; rewrite G; auto.
  - intros. unfold fdone, getf. rewrite Ef. auto.
  - intros. unfold ccnt, getf. rewrite Ef. auto.
  - intros. unfold gett. rewrite Et. auto.
  - apply fext_eq; auto.
  - intros h f v H. rewrite G in H. left; eauto.
Qed.

(* one table entry changes *)
Lemma getl_setl' s l x l' :
  getl (setl s l x) l' = if Nat.eqb l' l && Nat.ltb l (length (locks s)) then x else getl s l'.
Proof. unfold getl, setl. cbn. apply nth_set_nth. Qed.
Lemma getc_setc' s k x k' :
  getc (setc s k x) k' = if Nat.eqb k' k && Nat.ltb k (length (conds s)) then x else getc s k'.
Proof. unfold getc, setc. cbn. apply nth_set_nth. Qed.
Lemma gete_sete' s e x e' :
  gete (sete s e x) e' = if Nat.eqb e' e && Nat.ltb e (length (events s)) then x else gete s e'.
Proof. unfold gete, sete. cbn. apply nth_set_nth. Qed.

Lemma XI_tab c s s' :
  ready s' = ready s -> handles s' = handles s -> futs s' = futs s -> tasks s' = tasks s ->
  (forall l f, In f (qf_l (getl s' l)) -> In f (qf_l (getl s l)) \/ ntf s f) ->
  (forall l, PQInv (lpq (getl s' l))) ->
  (forall k f, In f (qf_c (getc s' k)) -> In f (qf_c (getc s k)) \/ ntf s f) ->
  (forall k, PQInv (cpq (getc s' k))) ->
  (forall e f, In f (ewaiters (gete s' e)) -> In f (ewaiters (gete s e)) \/ ntf s f) ->
  XI c s -> XI c s'.
Proof.
  intros Er Eh Ef Et Hl Hpl Hc Hpc He X.
  assert (G : forall h, geth s' h = geth s h) by (intros; unfold geth; rewrite Eh; auto).
  assert (N : forall f, ntf s f -> ntf s' f) by (unfold ntf, getf; rewrite Ef; auto).
  eapply XI_obs; eauto.
  - rewrite Et; auto.
  - intros. apply hcnt_same; auto. intros; rewrite G; auto.
  - intros. unfold fdone, getf. rewrite Ef. auto.
  - intros. unfold ccnt, getf. rewrite Ef. auto.
  - intros. unfold gett. rewrite Et. auto.
  - apply fext_eq; auto.
  - intros l f H. destruct (Hl l f H); auto.
  - intros k f H. destruct (Hc k f H); auto.
  - intros e f H. destruct (He e f H); auto.
  - intros h f v H. rewrite G in H. left; eauto.
Qed.

Lemma XI_setl c s l x :
  (forall f, In f (qf_l x) -> In f (qf_l (getl s l)) \/ ntf s f) -> PQInv (lpq x) ->
  XI c s -> XI c (setl s l x).
Proof.
  intros H1 H2 X.
  eapply (XI_tab c s (setl s l x)); [reflexivity|reflexivity|reflexivity|reflexivity| | | | | |exact X].
  - intros l' f. rewrite getl_setl'. destruct (_ && _) eqn:B; auto.
    apply andb_prop in B. destruct B as [B _]. apply Nat.eqb_eq in B. subst. apply H1.
  - intros l'. rewrite getl_setl'. destruct (_ && _); auto. apply (x_pl X).
  - auto.
  - apply (x_pc X).
  - auto.
Qed.

Lemma XI_setc c s k x :
  (forall f, In f (qf_c x) -> In f (qf_c (getc s k)) \/ ntf s f) -> PQInv (cpq x) ->
  XI c s -> XI c (setc s k x).
Proof.
  intros H1 H2 X.
  eapply (XI_tab c s (setc s k x)); [reflexivity|reflexivity|reflexivity|reflexivity| | | | | |exact X].
  - auto.
  - apply (x_pl X).
  - intros k' f. rewrite getc_setc'. destruct (_ && _) eqn:B; auto.
    apply andb_prop in B. destruct B as [B _]. apply Nat.eqb_eq in B. subst. apply H1.
  - intros k'. rewrite getc_setc'. destruct (_ && _); auto. apply (x_pc X).
  - auto.
Qed.

Lemma XI_sete c s e x :
  (forall f, In f (ewaiters x) -> In f (ewaiters (gete s e)) \/ ntf s f) ->
  XI c s -> XI c (sete s e x).
Proof.
  intros H1 X.
  eapply (XI_tab c s (sete s e x)); [reflexivity|reflexivity|reflexivity|reflexivity| | | | | |exact X].
  - auto.
  - apply (x_pl X).
  - auto.
  - apply (x_pc X).
  - intros e' f. rewrite gete_sete'. destruct (_ && _) eqn:B; auto.
    apply andb_prop in B. destruct B as [B _]. apply Nat.eqb_eq in B. subst. apply H1.
Qed.

(* task entry: future kept *)
Lemma XI_sett c s t x : tfut x = tfut (gett s t) -> XI c s -> XI c (sett s t x).
Proof.
  intros Hx X. eapply XI_obs_t; [exact X|..]; try (intros; reflexivity); try (apply fext_eq; reflexivity).
  - apply length_tasks_sett.
  - intros t' Ht'. rewrite gett_sett. destruct (_ && _) eqn:B; auto.
    apply andb_prop in B. destruct B as [B _]. apply Nat.eqb_eq in B. subst. auto.
  - intros h f v H. left; eauto.
Qed.

(* future entry: state, callbacks and owner kept *)
Lemma XI_setf c s f x :
  fstate_ x = fstate_ (getf s f) -> fcbs x = fcbs (getf s f) -> fowner x = fowner (getf s f) ->
  XI c s -> XI c (setf s f x).
Proof.
  intros Es Ecb Eo X. eapply XI_obs_t; [exact X|..]; try (intros; reflexivity); try (apply fext_eq; reflexivity).
  - intros g. unfold fdone. rewrite getf_setf. destruct (_ && _) eqn:B; auto.
    apply andb_prop in B. destruct B as [B _]. apply Nat.eqb_eq in B. subst. rewrite Es. auto.
  - intros t g _ _ _. unfold ccnt. rewrite getf_setf. destruct (_ && _) eqn:B; auto.
    apply andb_prop in B. destruct B as [B _]. apply Nat.eqb_eq in B. subst. rewrite Ecb. auto.
  - split; [rewrite length_futs_setf; lia|]. intros g _. rewrite getf_setf. destruct (_ && _) eqn:B; auto.
    apply andb_prop in B. destruct B as [B _]. apply Nat.eqb_eq in B. subst. auto.
  - intros h g v H. left; eauto.
Qed.

Lemma fowner_setf_same s f x g :
  fowner x = fowner (getf s f) -> fowner (getf (setf s f x) g) = fowner (getf s g).
Proof.
  intros E. rewrite getf_setf. destruct (Nat.eqb_spec g f); cbn [andb]; auto. subst.
  destruct (f <? length (futs s)); auto.
Qed.

Lemma fext_new_future s o : fext s (fst (new_future s o)).
Proof.
  split; [unfold new_future; cbn; rewrite app_length; lia|].
  intros g Hg. unfold new_future, getf; cbn. rewrite app_nth1 by auto. reflexivity.
Qed.

Lemma XI_new_future c s o : XI c s -> XI c (fst (new_future s o)).
Proof.
  intros X. eapply XI_obs_t; [exact X|..]; try (intros; reflexivity); try (apply fext_eq; reflexivity).
  - intros g. unfold fdone. destruct (getf_new_future s o g) as [-> _]. auto.
  - intros t g _ _ _. unfold ccnt. destruct (getf_new_future s o g) as [_ ->]. auto.
  - apply fext_new_future.
  - intros h g v H. left; eauto.
Qed.

Lemma ntf_new_future s : ntf (fst (new_future s None)) (length (futs s)).
Proof.
  split; [unfold new_future; cbn; rewrite app_length; simpl; lia|].
  unfold new_future, getf; cbn. rewrite app_nth2, Nat.sub_diag by lia. reflexivity.
Qed.

Section Base.
Variable qok : rq -> Prop.
Hypothesis QS : QSpec qok.
Notation WF := (WF qok).
Notation InvC := (InvC qok).
Notation K := (K qok).

Definition KX (c : option nat) (s0 s : st) : Prop := K c s0 s /\ XI c s.

Lemma KX_refl c s : InvC c s -> XI c s -> KX c s s.
Proof. intros; split; auto. apply K_refl; auto. Qed.

(* handles appended; ready queue: a permutation of the old one plus appended ids *)
Lemma hcb_app_old s s' l h :
  handles s' = handles s ++ l -> h < length (handles s) -> hcb (geth s' h) = hcb (geth s h).
Proof. intros E H. erewrite geth_app_old; eauto. Qed.

Lemma qh_app s s' l :
  handles s' = handles s ++ l -> (forall x f v, In x l -> hcb x <> HSetResult f v) ->
  forall h f v, hcb (geth s' h) = HSetResult f v -> exists h', hcb (geth s h') = HSetResult f v.
Proof.
  intros E Hl h f v H. destruct (Nat.lt_ge_cases h (length (handles s))) as [Hh|Hh].
  - rewrite (hcb_app_old s s' l h E Hh) in H. eauto.
  - unfold geth in H. rewrite E, app_nth2 in H by auto.
    destruct (nth_in_or_default (h - length (handles s)) l dh) as [Hi|Hd].
    + exfalso. eapply Hl; eauto.
    + rewrite Hd in H. discriminate.
Qed.

Lemma XI_call_soon c s c0 :
  WF s -> (forall t, cb_key t c0 = true -> t < length (tasks s) /\ tdone s t = false) ->
  (forall f v, c0 <> HSetResult f v) ->
  XI c s -> XI c (call_soon_ s c0).
Proof.
  intros W Hk Hn X. destruct (call_soon_facts qok QS s c0 W) as (W' & E' & Eh & Hc).
  eapply XI_obs_t; [exact X|..]; try (intros; reflexivity); try (apply fext_eq; reflexivity).
  - intros t Ht Hd. rewrite Hc. destruct (cb_key t c0) eqn:B; [|lia].
    destruct (Hk t B) as [_ A]. congruence.
  - intros h f v H. left. eapply qh_app; eauto. intros x f' v' [<-|[]]. simpl. auto.
Qed.

Lemma KX_call_soon_nt c s0 s c0 :
  task_of_cb c0 = None -> (forall f v, c0 <> HSetResult f v) -> KX c s0 s -> KX c s0 (call_soon_ s c0).
Proof.
  intros Hn Hs [HK X]. split; [apply K_call_soon_nt; auto|].
  apply XI_call_soon; auto; [apply HK|]. intros t B. unfold cb_key in B. rewrite Hn in B. discriminate.
Qed.

Lemma XI_call_at c s w c0 :
  WF s -> task_of_cb c0 = None -> (forall f v, c0 = HSetResult f v -> ntf s f) ->
  XI c s -> XI c (fst (call_at s w c0)).
Proof.
  intros W Hn Hs X. set (s' := fst (call_at s w c0)).
  assert (Eh : handles s' = handles s ++ [mkH c0 false]) by reflexivity.
  eapply XI_obs_t; [exact X|..]; try (intros; reflexivity); try (apply fext_eq; reflexivity).
  - intros t _ _. apply hcnt_perm; [reflexivity|]. intros h Hh. eapply hcb_app_old; eauto. apply (i_rwf W); auto.
  - intros h f v H. destruct (Nat.lt_ge_cases h (length (handles s))) as [Hh|Hh].
    + rewrite (hcb_app_old s s' _ h Eh Hh) in H. left; eauto.
    + unfold geth in H. rewrite Eh, app_nth2 in H by auto.
      destruct (h - length (handles s)) as [|[|n]]; simpl in H; try discriminate.
      right. change (ntf s f). eapply Hs. exact H.
Qed.

Lemma XI_cancel_handle c s h : XI c s -> XI c (cancel_handle s h).
Proof.
  intros X.
  assert (Ecb : forall h', hcb (geth (cancel_handle s h) h') = hcb (geth s h')).
  { intros h'. unfold cancel_handle, geth; cbn. rewrite nth_set_nth.
    destruct (_ && _) eqn:B; auto. apply andb_prop in B. destruct B as [B _].
    apply Nat.eqb_eq in B. subst. reflexivity. }
  eapply XI_obs_t; [exact X|..]; try (intros; reflexivity); try (apply fext_eq; reflexivity).
  - intros. apply hcnt_same; auto.
  - intros h' f v H. rewrite Ecb in H. left; eauto.
Qed.

Lemma KX_cancel_handle c s0 s h : nontask s h -> KX c s0 s -> KX c s0 (cancel_handle s h).
Proof. intros Hn [HK X]. split; [apply K_cancel_handle; auto|apply XI_cancel_handle; auto]. Qed.

(* the ready queue loses entries / is permuted *)
Lemma XI_ready_sub c s r :
  (forall t, hcnt (s <| ready := r |>) t <= hcnt s t) -> XI c s -> XI c (s <| ready := r |>).
Proof.
  intros H X. eapply XI_obs_t; [exact X|..]; try (intros; reflexivity); try (apply fext_eq; reflexivity).
  - intros t Ht Hd. destruct (x_dead X t Ht Hd) as [D _]. specialize (H t). lia.
  - intros h f v Hh. left; eauto.
Qed.

Lemma KX_ready_perm c s0 s r :
  qok r -> Permutation (rq_items r) (rq_items (ready s)) -> KX c s0 s -> KX c s0 (s <| ready := r |>).
Proof.
  intros Hq P [HK X]. split; [apply K_ready_perm; auto|]. apply XI_ready_sub; auto.
  intros t. unfold hcnt. rewrite (cnt_perm _ _ _ P). apply Nat.le_refl.
Qed.

(* ------------------------------------------------------------ fut_finish *)
Lemma fold_call_soon_handles f cbs : forall u,
  let s' := fold_left (fun s c => call_soon_ s (cb_callback f c)) cbs u in
  handles s' = handles u ++ map (fun c => mkH (cb_callback f c) false) cbs /\
  locks s' = locks u /\ conds s' = conds u /\ events s' = events u /\ futs s' = futs u.
Proof.
  induction cbs as [|x cbs IH]; intros u; simpl.
  - rewrite app_nil_r. auto.
  - destruct (IH (call_soon_ u (cb_callback f x))) as (A & B & C & D & E).
    rewrite A, B, C, D, E. cbn. rewrite <- app_assoc. auto.
Qed.

Lemma fut_finish_tabs s f x :
  let s' := fst (fut_finish s f x) in
  locks s' = locks s /\ conds s' = conds s /\ events s' = events s /\ fext s s' /\
  (forall h g v, hcb (geth s' h) = HSetResult g v -> exists h', hcb (geth s h') = HSetResult g v).
Proof.
  unfold fut_finish. destruct (fstate_ (getf s f)); cbn [fst];
    try (repeat split; auto using fext_refl; intros; eauto; fail).
  unfold schedule_callbacks.
  set (s1 := setf s f (getf s f <| fstate_ := x |>)).
  set (s2 := setf s1 f (getf s1 f <| fcbs := [] |>)).
  destruct (fold_call_soon_handles f (fcbs (getf s1 f)) s2) as (A & B & C & D & E).
  split; [rewrite B; reflexivity|]. split; [rewrite C; reflexivity|]. split; [rewrite D; reflexivity|].
  split.
  - set (sf := fold_left _ _ _) in *.
    assert (G : forall g, getf sf g = getf s2 g) by (intros g; unfold getf; rewrite E; reflexivity).
    split.
    + rewrite E. unfold s2, s1. rewrite !length_futs_setf. lia.
    + intros g _. rewrite G. unfold s2. rewrite fowner_setf_same by reflexivity.
      unfold s1. apply fowner_setf_same. reflexivity.
  - intros h g v H. eapply (qh_app s2); [exact A| |exact H].
    intros y g' v' Hy. apply in_map_iff in Hy. destruct Hy as (cb0 & <- & _). destruct cb0; discriminate.
Qed.

(* completing a plain future *)
Definition not_task_fut (s : st) (f : nat) : Prop :=
  forall t, t < length (tasks s) -> tfut (gett s t) <> f.

Lemma XI_fut_finish c s f x s' ok :
  x <> FPending -> fut_finish s f x = (s', ok) -> InvC c s -> f < length (futs s) ->
  not_task_fut s f -> XI c s -> XI c s'.
Proof.
  intros Hx E I Hf NT X.
  destruct (fstate_ (getf s f)) eqn:Es;
    try (unfold fut_finish in E; rewrite Es in E; inversion E; subst; auto; fail).
  destruct (fut_finish_obs qok QS s f x s' ok (i_wf I) Hx E Es Hf) as (W & E' & T & Hh & Hd & Hc).
  assert (Pf : fdone s f = false) by (apply fdone_pending; auto).
  pose proof (fut_finish_tabs s f x) as FT. rewrite E in FT. cbn [fst] in FT.
  destruct FT as (L & C & Ev & Fx & Hq).
  assert (Eg : forall t, gett s' t = gett s t) by (intros; unfold gett; rewrite T; auto).
  assert (Td : forall t, t < length (tasks s) -> tdone s' t = tdone s t).
  { intros t Ht. unfold tdone. rewrite Eg, Hd. destruct (Nat.eqb_spec (tfut (gett s t)) f); auto.
    exfalso. eapply NT; eauto. }
  constructor.
  - rewrite T. intros t Ht Hdn. rewrite Td in Hdn by auto. destruct (x_dead X t Ht Hdn) as [D1 D2].
    split; [rewrite Hh, D1, D2; auto|].
    intros g Hg. rewrite Hd in Hg. apply orb_false_elim in Hg. destruct Hg as [Hg1 Hg2].
    apply Nat.eqb_neq in Hg1. rewrite Hc; auto.
  - intros t Hc'. pose proof (x_alive X t Hc') as A. rewrite Td; auto. eapply (i_cur I); eauto.
  - rewrite T. intros t Ht. rewrite Eg. destruct (x_ow X t Ht) as [O1 O2]. destruct Fx as [F1 F2].
    split; [lia|]. rewrite F2; auto.
  - unfold getl. rewrite L. intros l g Hg. eapply ntf_fext; [exact Fx|]. eapply (x_ql X); eauto.
  - unfold getl. rewrite L. apply (x_pl X).
  - unfold getc. rewrite C. intros k g Hg. eapply ntf_fext; [exact Fx|]. eapply (x_qc X); eauto.
  - unfold getc. rewrite C. apply (x_pc X).
  - unfold gete. rewrite Ev. intros e g Hg. eapply ntf_fext; [exact Fx|]. eapply (x_qe X); eauto.
  - intros h g v H. destruct (Hq h g v H) as [h' H']. eapply ntf_fext; [exact Fx|]. eapply (x_qh X); eauto.
Qed.

Lemma KX_fut_finish c s0 s f x s' ok :
  x <> FPending -> fut_finish s f x = (s', ok) -> f < length (futs s) ->
  (XI c s -> not_task_fut s f) -> KX c s0 s -> KX c s0 s'.
Proof.
  intros Hx E Hf N [HK X]. split; [eapply K_fut_finish; eauto|].
  eapply XI_fut_finish; eauto. apply HK.
Qed.

(* ------------------------------------------------------------ simple setters *)
Lemma KX_same c s0 s s' :
  ready s' = ready s -> handles s' = handles s -> futs s' = futs s -> tasks s' = tasks s ->
  blocks s' = blocks s -> timers s' = timers s -> current s' = current s ->
  locks s' = locks s -> conds s' = conds s -> events s' = events s ->
  KX c s0 s -> KX c s0 s'.
Proof.
  intros Er Eh Ef Et Eb Em Ec El Eco Ee [HK X]. split; [eapply K_same; eauto|eapply XI_same; eauto].
Qed.

Lemma KX_addlog c s0 s n : KX c s0 s -> KX c s0 (addlog s n).
Proof. apply KX_same; reflexivity. Qed.
Lemma KX_adderr c s0 s e : KX c s0 s -> KX c s0 (adderr s e).
Proof. apply KX_same; reflexivity. Qed.

Lemma KX_setl c s0 s l x :
  (XI c s -> forall f, In f (qf_l x) -> In f (qf_l (getl s l)) \/ ntf s f) ->
  (XI c s -> PQInv (lpq x)) -> KX c s0 s -> KX c s0 (setl s l x).
Proof. intros H1 H2 [HK X]. split; [apply K_setl; auto|apply XI_setl; auto]. Qed.
Lemma KX_setc c s0 s k x :
  (XI c s -> forall f, In f (qf_c x) -> In f (qf_c (getc s k)) \/ ntf s f) ->
  (XI c s -> PQInv (cpq x)) -> KX c s0 s -> KX c s0 (setc s k x).
Proof. intros H1 H2 [HK X]. split; [apply K_setc; auto|apply XI_setc; auto]. Qed.
Lemma KX_sete c s0 s e x :
  (XI c s -> forall f, In f (ewaiters x) -> In f (ewaiters (gete s e)) \/ ntf s f) ->
  KX c s0 s -> KX c s0 (sete s e x).
Proof. intros H1 [HK X]. split; [apply K_sete; auto|apply XI_sete; auto]. Qed.

Lemma KX_sett' c s0 s t x :
  tfut x = tfut (gett s t) -> twaiter x = twaiter (gett s t) -> tcont_ x = tcont_ (gett s t) ->
  KX c s0 s -> KX c s0 (sett s t x).
Proof. intros A B C [HK X]. split; [apply K_sett'; auto|apply XI_sett; auto]. Qed.

Lemma KX_setf c s0 s f x :
  fstate_ x = fstate_ (getf s f) -> fcbs x = fcbs (getf s f) -> fowner x = fowner (getf s f) ->
  KX c s0 s -> KX c s0 (setf s f x).
Proof. intros A B C [HK X]. split; [apply K_setf; auto|apply XI_setf; auto]. Qed.

Lemma KX_new_future c s0 s o : KX c s0 s -> KX c s0 (fst (new_future s o)).
Proof. intros [HK X]. split; [apply K_new_future; auto|apply XI_new_future; auto]. Qed.
Lemma KX_new_future_eq c s0 s o s' f : new_future s o = (s', f) -> KX c s0 s -> KX c s0 s'.
Proof.
  intros E H. replace s' with (fst (new_future s o)) by (rewrite E; reflexivity). apply KX_new_future; auto.
Qed.

Lemma KX_trans c s0 s s' : KX c s0 s -> KX c s s' -> KX c s0 s'.
Proof. intros [HK X] [HK' X']. split; auto. eapply K_trans; eauto. Qed.

End Base.
