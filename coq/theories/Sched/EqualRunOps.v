(* C10 whole-run simulation, part 2: the ready-queue moves (task_throw, task_reinsert,
   task_interrupt, the interruptor of task_timeout), the run-checked side condition
   (monitor) and the simulation of lib_call, frame_resume and resume_stack. *)
From Coq Require Import QArith Lqa.
From RecordUpdate Require Import RecordUpdate.
From Asynkit Require Import Base.Prelude Queue.PQ Queue.PosPQ Queue.Exec Sched.Model
     Sched.PartTables Sched.PartitionProofs Sched.PrioLoopProofs Sched.PrioBoostFifo
     Sched.EqualRunBase.
Import RecordSetNotations.
Open Scope nat_scope.

(* ------------------------------------------------------------ the monitor (list loop only)
   uq s t: the ready queue holds at most one step/wake-up handle of task t (always true of a
   task that is not done - C09; a done task can only keep a handle when a program completes
   the task's own future with set_result/set_exception/cancel, which asyncio.Task refuses);
   rwfb s: the queued ids are allocated handles (always true - C09 i_rwf);
   priorities: the only priority value a program hands out is 0. *)
Definition uq (s : st) (t : nat) : bool := Nat.leb (hcnt s t) 1.
Definition rwfb (s : st) : bool :=
  forallb (fun h => Nat.ltb h (length (handles s))) (rq_items (ready s)).
Definition mon_throw (s : st) (t : nat) : bool := tdone s t || uq s t.
Definition mon_tis (s : st) (t : nat) (e : exn) : bool :=
  mon_throw s t &&
  (let '(s1, r) := task_throw s t e in match r with RVal _ => uq s1 t | RExc _ => true end).
Fixpoint mon_interruptor (fuel : nat) (s : st) (b i : nat) : bool :=
  match fuel with
  | O => true
  | S fuel =>
      if Nat.leb 3 i then true else
      if negb (bactive (getb s b)) then mon_interruptor fuel s b (S i) else
      mon_tis s (btask (getb s b)) (ETimeoutInt b) &&
      (let '(s1, r) := task_interrupt_start s (btask (getb s b)) (ETimeoutInt b) in
       match r with
       | LDone (RVal _) => mon_interruptor fuel s1 b (S i)
       | _ => true
       end)
  end.
Definition mon_lib (t : nat) (op : libop) (s : st) : bool :=
  match op with
  | OSleepInsert _ | OCallPos _ _ => rwfb s
  | OTaskSwitch t' p =>
      uq s t' && match p with Some _ => rwfb (fst (task_reinsert s t' 0)) | None => true end
  | OTaskReinsert t' _ => uq s t'
  | OTaskThrow t' _ => mon_throw s t'
  | OTaskInterrupt t' e => mon_tis s t' e
  | OInterruptor b => mon_interruptor 4 s b 0
  | OSetPrio p => Qeq_bool p 0
  | _ => true
  end.
Definition mon_frame (t : nat) (fr : frame) (inp : reply) (s : st) : bool :=
  match fr, inp with
  | InIntr b i _, RVal _ => mon_interruptor 4 s b (S i)
  | _, _ => true
  end.
Fixpoint mon_stack (t : nat) (frs : list frame) (inp : reply) (s : st) : bool :=
  match frs with
  | [] => true
  | fr :: rest =>
      mon_frame t fr inp s &&
      (let '(s', r) := frame_resume t fr inp s in
       match r with LDone rep => mon_stack t rest rep s' | LSusp _ _ => true end)
  end.

Lemma rwfb_rwf s : rwfb s = true -> rwf s.
Proof.
  unfold rwfb, rwf. rewrite forallb_forall. intros H h Hh. specialize (H h Hh).
  apply Nat.ltb_lt. exact H.
Qed.
Lemma uq_le s t : uq s t = true -> hcnt s t <= 1.
Proof. unfold uq. apply Nat.leb_le. Qed.

(* ------------------------------------------------------------ finds *)
Lemma sim_find s rp t : Rel s rp -> hcnt s t <= 1 ->
  match rq_find rp (task_key s t) true, rq_find (ready s) (task_key s t) true with
  | None, None => True
  | Some (h, rp'), Some (h', rl') => h = h' /\ RisoB 0 rp' rl'
  | _, _ => False
  end.
Proof. intros [A _] H. apply isoB_find; auto. Qed.

Lemma sim_call_pos' p c s rp : rwfb s = true -> Rel s rp ->
  exists rp', call_pos (wr s rp) p c = wr (call_pos s p c) rp' /\ Rel (call_pos s p c) rp'.
Proof. intros H R. apply sim_call_pos; auto. apply rwfb_rwf; auto. Qed.

Lemma sim_task_reinsert t p s rp : uq s t = true -> Rel s rp ->
  exists rp', task_reinsert (wr s rp) t p =
              (wr (fst (task_reinsert s t p)) rp', snd (task_reinsert s t p)) /\
              Rel (fst (task_reinsert s t p)) rp'.
Proof.
  intros H R. unfold task_reinsert. snorm1.
  pose proof (sim_find s rp t R (uq_le _ _ H)) as F.
  destruct (rq_find rp (task_key s t) true) as [[h rp1]|];
    destruct (rq_find (ready s) (task_key s t) true) as [[h' rl1]|]; try contradiction.
  - destruct F as [<- F]. cbn [fst snd].
    exists (rq_insert_pos rp1 p h). split; [reflexivity|].
    eapply Rel_ready; [exact R|]. apply isoB_insert_pos; auto.
  - cbn [fst snd]. sfin.
Qed.

Lemma sim_task_throw t e s rp : mon_throw s t = true -> Rel s rp ->
  exists rp', task_throw (wr s rp) t e =
              (wr (fst (task_throw s t e)) rp', snd (task_throw s t e)) /\
              Rel (fst (task_throw s t e)) rp'.
Proof.
  intros H R. destruct (task_throw s t e) as [s' x] eqn:E. cbn [fst snd].
  unfold task_throw in *. snorm1. unfold mon_throw in H.
  destruct (tdone s t) eqn:Hd; [injection E as <- <-; sfin|].
  simpl in H. pose proof (sim_find s rp t R (uq_le _ _ H)) as F.
  destruct (rq_find rp (task_key s t) true) as [[h rp1]|];
    destruct (rq_find (ready s) (task_key s t) true) as [[h' rl1]|]; try contradiction.
  - destruct F as [<- F]. sgoP E.
  - clear F. sgoP E.
Qed.

(* ------------------------------------------------------------ queue iteration, queries *)
Lemma sim_queue_iterated : SimS queue_iterated.
Proof.
  intros s rp R. unfold queue_iterated. snorm1. destruct R as [A B].
  destruct rp as [l0|p]; [destruct A|]. destruct (ready s) as [l|p0] eqn:Er; [|destruct A].
  destruct (isoB_iter 0 p (RList l) A) as [A' _]. snorm1.
  exists (RPos (snd (pos_iter HPV p))). split; [reflexivity|]. split; [rewrite Er; exact A'|exact B].
Qed.

(* ------------------------------------------------------------ task_interrupt, interruptor *)
Lemma sim_task_interrupt_start t e s rp : mon_tis s t e = true -> Rel s rp ->
  exists rp', task_interrupt_start (wr s rp) t e =
              (wr (fst (task_interrupt_start s t e)) rp', snd (task_interrupt_start s t e)) /\
              Rel (fst (task_interrupt_start s t e)) rp'.
Proof.
  intros H R. unfold mon_tis in H. apply andb_prop in H. destruct H as [H1 H2].
  unfold task_interrupt_start.
  destruct (sim_task_throw t e s rp H1 R) as (rp1 & E1 & R1). rewrite E1. clear E1.
  destruct (task_throw s t e) as [s1 r1]. cbn [fst snd] in *.
  destruct r1 as [v|x]; [|cbn [fst snd]; sfin].
  destruct (sim_task_reinsert t 0 s1 rp1 H2 R1) as (rp2 & E2 & R2). rewrite E2. clear E2.
  destruct (task_reinsert s1 t 0) as [s2 r2]. cbn [fst snd] in *.
  destruct r2; cbn [fst snd]; sfin.
Qed.

Lemma sim_interruptor fuel : forall b i s rp, mon_interruptor fuel s b i = true -> Rel s rp ->
  exists rp', interruptor fuel (wr s rp) b i =
              (wr (fst (interruptor fuel s b i)) rp', snd (interruptor fuel s b i)) /\
              Rel (fst (interruptor fuel s b i)) rp'.
Proof.
  induction fuel as [|fuel IH]; intros b i s rp H R; cbn [interruptor mon_interruptor] in *.
  - cbn [fst snd]. sfin.
  - snorm1. destruct (Nat.leb 3 i); [cbn [fst snd]; sfin|].
    destruct (negb (bactive (getb s b))); [apply IH; auto|].
    apply andb_prop in H. destruct H as [H1 H2].
    destruct (sim_task_interrupt_start _ _ s rp H1 R) as (rp1 & E1 & R1). rewrite E1. clear E1.
    destruct (task_interrupt_start s (btask (getb s b)) (ETimeoutInt b)) as [s1 r1].
    cbn [fst snd] in *.
    destruct r1 as [[v|x]|y frs]; try (cbn [fst snd]; sfin).
    + apply IH; auto.
    + destruct x; try (cbn [fst snd]; sfin). destruct (Nat.eqb i 2); cbn [fst snd]; sfin.
Qed.

Lemma sim_interruptor_wrap r s rp :
  interruptor_wrap (wr s rp) r = (wr (fst (interruptor_wrap s r)) rp, snd (interruptor_wrap s r)).
Proof. unfold interruptor_wrap. destruct r as [[v|e]|y frs]; try reflexivity. destruct (is_exception e); reflexivity. Qed.
Lemma interruptor_wrap_fst' s r : fst (interruptor_wrap s r) = s.
Proof. unfold interruptor_wrap. destruct r as [[v|e]|y frs]; try reflexivity. destruct (is_exception e); reflexivity. Qed.

(* ------------------------------------------------------------ lib_call *)
Lemma sim_event_fold ws : SimS (fun s =>
  fold_left (fun s f => if fdone s f then s else fst (fut_finish s f (FResult 1))) ws s).
Proof.
  induction ws as [|f ws IH]; intros s rp R; cbn [fold_left].
  - sfin.
  - snorm1. destruct (fdone s f); [exact (IH _ _ R)|].
    destruct (sim_fut_finish f (FResult 1) s rp R) as (rp1 & E1 & R1). cbv beta in E1.
    rewrite E1. cbn [fst]. exact (IH _ _ R1).
Qed.

Ltac sfind6 :=
  first [ sfind5
        | match goal with
          | |- context [queue_iterated (wr ?S ?rp)] => sapply (sim_queue_iterated S rp)
          | |- context [fold_left (fun s f => if fdone s f then s else fst (fut_finish s f (FResult 1)))
                                  ?ws (wr ?S ?rp)] => sapply (sim_event_fold ws S rp)
          | H : rwfb ?S = true |- context [call_pos (wr ?S ?rp) ?p ?c] =>
              sapply (sim_call_pos' p c S rp H)
          | H : uq ?S ?t = true |- context [task_reinsert (wr ?S ?rp) ?t ?p] =>
              sapply (sim_task_reinsert t p S rp H)
          | H : mon_throw ?S ?t = true |- context [task_throw (wr ?S ?rp) ?t ?e] =>
              sapply (sim_task_throw t e S rp H)
          | H : mon_tis ?S ?t ?e = true |- context [task_interrupt_start (wr ?S ?rp) ?t ?e] =>
              sapply (sim_task_interrupt_start t e S rp H)
          | H : mon_interruptor ?n ?S ?b ?i = true |- context [interruptor ?n (wr ?S ?rp) ?b ?i] =>
              sapply (sim_interruptor n b i S rp H)
          end ].
Ltac sfind ::= sfind6.

Lemma sim_lib_call t op s rp : mon_lib t op s = true -> Rel s rp ->
  exists rp', lib_call t op (wr s rp) = (wr (fst (lib_call t op s)) rp', snd (lib_call t op s)) /\
              Rel (fst (lib_call t op s)) rp'.
Proof.
  intros H R. destruct (lib_call t op s) as [s' x] eqn:E. cbn [fst snd].
  destruct op; cbn [lib_call mon_lib] in *; try (sgoP E; fail).
  - (* OTaskSwitch *)
    apply andb_prop in H. destruct H as [H1 H2]. destruct p; sgoP E.
  - (* OInterruptor *)
    unfold interruptor_wrap in *. sgoP E.
  - (* OSetPrio *)
    sprep E. snorm1. destruct (is_prio_task s t); injection E as <- <-; [|sfin].
    eexists; split; [reflexivity|]. apply Rel_sett_prio; [|exact R].
    simpl. apply Qeq_bool_iff. exact H.
Qed.
