(* C10, last sentence: "with all priorities equal the priority loop schedules exactly like
   the plain scheduling loop, whatever the history and with starvation boosting at its
   default setting" - as a theorem about WHOLE RUNS of the scheduler model.

   SimEq sl sp relates a state sl of the list loop (init_st false ...) and a state sp of
   the priority loop (init_st true factor draws ..., ANY boost factor and draws): every
   component is equal except the ready queue, where the PosPriorityQueue of sp satisfies
   RisoB 0 (queue invariant, every regular entry has priority == 0, run order = the list of
   sl), and every PriorityTask has priority == 0.

   Side condition (run-checked on the LIST loop only, Sched/EqualRunOps.v, EqualRunSteps.v):
   mon_run s acts = true says that along the run
     (a) every priority handed out by a program is 0: Spawn (SPrio p) and OSetPrio p only
         with p == 0;
     (b) whenever the scheduler searches the ready queue for the handle of a task t
         (task_throw, task_interrupt, task_switch, task_reinsert, the sleep_insert callback,
         the interruptor of task_timeout) at most one handle of t is queued (uq).  By C09
         this holds for every task that is not done; a done task can only keep a queued
         handle when a program completes the task's own future with
         set_result/set_exception/cancel, which asyncio.Task refuses (notes/C09.md);
     (c) where call_pos is used the queued ids are allocated handles (rwfb; always true by
         C09's i_rwf).
   uq_of_inv / rwfb_of_inv below discharge (b) for live tasks and (c) from Inv09. *)
From Coq Require Import QArith Lqa.
From RecordUpdate Require Import RecordUpdate.
From Asynkit Require Import Base.Prelude Base.Obs Queue.PQ Queue.PosPQ Queue.Exec Sched.Model
     Sched.Corr Sched.PartTables Sched.PartitionProofs Sched.PrioLoopProofs Sched.PrioBoostFifo
     Sched.EqualRunBase Sched.EqualRunOps Sched.EqualRunSteps.
Import RecordSetNotations.
Open Scope nat_scope.

Record SimEq (sl sp : st) : Prop := {
  se_handles : handles sp = handles sl;
  se_futs : futs sp = futs sl;
  se_tasks : tasks sp = tasks sl;
  se_locks : locks sp = locks sl;
  se_conds : conds sp = conds sl;
  se_events : events sp = events sl;
  se_blocks : blocks sp = blocks sl;
  se_timers : timers sp = timers sl;
  se_now : now sp = now sl;
  se_current : current sp = current sl;
  se_log : log sp = log sl;
  se_errors : errors sp = errors sl;
  se_ready : RisoB 0 (ready sp) (ready sl);
  se_prio0 : all_prio0 sl }.

Lemma SimEq_wr sl sp : SimEq sl sp <-> exists rp, sp = wr sl rp /\ Rel sl rp.
Proof.
  split.
  - intros [H1 H2 H3 H4 H5 H6 H7 H8 H9 H10 H11 H12 Hr Hp]. exists (ready sp). split.
    + destruct sp, sl. simpl in *. subst. reflexivity.
    + split; auto.
  - intros (rp & -> & [A B]). constructor; try reflexivity; auto.
Qed.

(* ---- stage 1 ---- *)
Theorem SimEq_init factor draws lks cds nev :
  SimEq (init_st false factor draws lks cds nev) (init_st true factor draws lks cds nev).
Proof. apply SimEq_wr. eexists. split; [apply init_wr|apply Rel_init]. Qed.

(* ---- stage 2: what SimEq says about the two ready queues ---- *)
Theorem SimEq_order sl sp : SimEq sl sp ->
  rq_items (ready sp) = rq_items (ready sl) /\
  (forall t, effective_priority sp t = effective_priority sl t /\ effective_priority sl t == 0) /\
  (forall c, handle_priority sp c = handle_priority sl c /\ handle_priority sl c == 0).
Proof.
  intros H. apply SimEq_wr in H. destruct H as (rp & -> & R). split; [exact (Rel_items _ _ R)|].
  destruct (equal_prio_keys sl (proj2 R)) as [K1 K2]. split; intros x; split; auto.
  - apply wr_effective_priority.
  - apply wr_handle_priority.
Qed.

(* ---- stages 3 and 4, in two-state form ---- *)
Ltac two_state L :=
  let rp := fresh "rp" in let R := fresh "R" in let rp1 := fresh "rp" in
  let E1 := fresh "E" in let R1 := fresh "R" in
  match goal with H : SimEq _ _ |- _ => apply SimEq_wr in H; destruct H as (rp & -> & R) end;
  destruct (L rp R) as (rp1 & E1 & R1); rewrite E1; cbn [fst snd];
  split; [apply SimEq_wr; exists rp1; split; [reflexivity|exact R1] | reflexivity].

Theorem SimEq_lib_call t op sl sp : SimEq sl sp -> mon_lib t op sl = true ->
  SimEq (fst (lib_call t op sl)) (fst (lib_call t op sp)) /\
  snd (lib_call t op sp) = snd (lib_call t op sl).
Proof. intros H M. two_state (fun rp R => sim_lib_call t op sl rp M R). Qed.

Theorem SimEq_resume_stack t frs inp sl sp : SimEq sl sp -> mon_stack t frs inp sl = true ->
  SimEq (fst (resume_stack t frs inp sl)) (fst (resume_stack t frs inp sp)) /\
  snd (resume_stack t frs inp sp) = snd (resume_stack t frs inp sl).
Proof. intros H M. two_state (fun rp R => sim_resume_stack t frs inp sl rp M R). Qed.

Theorem SimEq_exec t c sl sp : SimEq sl sp -> mon_exec t c sl = true ->
  SimEq (fst (exec t c sl)) (fst (exec t c sp)) /\ snd (exec t c sp) = snd (exec t c sl).
Proof. intros H M. two_state (fun rp R => sim_exec t c sl rp M R). Qed.

Ltac two_state1 L :=
  let rp := fresh "rp" in let R := fresh "R" in let rp1 := fresh "rp" in
  let E1 := fresh "E" in let R1 := fresh "R" in
  match goal with H : SimEq _ _ |- _ => apply SimEq_wr in H; destruct H as (rp & -> & R) end;
  destruct (L rp R) as (rp1 & E1 & R1); rewrite E1;
  apply SimEq_wr; exists rp1; split; [reflexivity|exact R1].

Theorem SimEq_step_task t exc sl sp : SimEq sl sp -> mon_step t exc sl = true ->
  SimEq (step_task t exc sl) (step_task t exc sp).
Proof. intros H M. two_state1 (fun rp R => sim_step_task t exc sl rp M R). Qed.

Theorem SimEq_run_one sl sp : SimEq sl sp -> mon_run_one sl = true ->
  SimEq (run_one sl) (run_one sp).
Proof. intros H M. two_state1 (fun rp R => sim_run_one sl rp M R). Qed.

Theorem SimEq_begin_iteration sl sp : SimEq sl sp ->
  SimEq (begin_iteration sl) (begin_iteration sp).
Proof. intros H. two_state1 (fun rp R => sim_begin_iteration sl rp R). Qed.

Theorem SimEq_do_action a sl sp : SimEq sl sp -> mon_action sl a = true ->
  SimEq (do_action sl a) (do_action sp a).
Proof. intros H M. two_state1 (fun rp R => sim_do_action a sl rp M R). Qed.

Theorem SimEq_run acts sl sp : SimEq sl sp -> mon_run sl acts = true ->
  SimEq (fold_left do_action acts sl) (fold_left do_action acts sp).
Proof. intros H M. two_state1 (fun rp R => sim_run acts sl rp M R). Qed.

(* ---- stage 5: observations ---- *)
(* the complete observation of Corr.v, with the ready queue shown as its run order (the list
   of queued handle ids with their cancelled flag and task) instead of the heap internals *)
Definition oview (s : st) : obs := ostate (s <| ready := RList (rq_items (ready s)) |>).

Lemma oview_list s : match ready s with RList _ => True | RPos _ => False end -> oview s = ostate s.
Proof.
  unfold oview. destruct s as [r hs fs ts ls cs es bs tm nw cu lg er]. simpl.
  destruct r; [reflexivity|tauto].
Qed.

Lemma SimEq_oview sl sp : SimEq sl sp -> oview sp = oview sl.
Proof.
  intros H. apply SimEq_wr in H. destruct H as (rp & -> & R). unfold oview.
  change (ready (wr sl rp)) with rp. rewrite (Rel_items _ _ R). reflexivity.
Qed.

Fixpoint run_view (s : st) (acts : list saction) : list obs :=
  match acts with
  | [] => []
  | a :: rest => let s' := do_action s (act a) in oview s' :: run_view s' rest
  end.

Lemma SimEq_run_view : forall acts sl sp, SimEq sl sp -> mon_run sl (map act acts) = true ->
  run_view sp acts = run_view sl acts.
Proof.
  induction acts as [|a acts IH]; intros sl sp H M; cbn [run_view map mon_run] in *; auto.
  apply andb_prop in M. destruct M as [M1 M2].
  pose proof (SimEq_do_action (act a) sl sp H M1) as H1.
  rewrite (SimEq_oview _ _ H1). f_equal. apply IH; auto.
Qed.

(* ---- the monitor's queue conditions follow from the C09 invariant ---- *)
Lemma rwfb_of_inv qok c s : InvC qok c s -> rwfb s = true.
Proof.
  intros I. unfold rwfb. apply forallb_forall. intros h Hh. apply Nat.ltb_lt.
  exact (i_rwf (i_wf I) h Hh).
Qed.

Lemma uq_of_inv qok c s t : InvC qok c s -> tdone s t = false -> uq s t = true.
Proof.
  intros I Hd. unfold uq. apply Nat.leb_le.
  destruct (Nat.lt_ge_cases t (length (tasks s))) as [Hl|Hl].
  - pose proof (i_cls I t Hl Hd) as C. unfold cls in C.
    destruct (is_cur c t); [destruct C as [-> _]; lia|].
    destruct C as [-> _]. destruct (bo s t); lia.
  - destruct (i_oor I t Hl) as [-> _]. lia.
Qed.

(* ---- the whole-run theorem ---- *)
Lemma mon_run_firstn : forall acts n s, mon_run s acts = true -> mon_run s (firstn n acts) = true.
Proof.
  induction acts as [|a acts IH]; intros [|n] s H; cbn [firstn mon_run] in *; auto.
  apply andb_prop in H. destruct H as [H1 H2]. rewrite H1. simpl. apply IH; auto.
Qed.

Lemma SimEq_list sl sp : SimEq sl sp -> match ready sl with RList _ => True | RPos _ => False end.
Proof.
  intros H. pose proof (se_ready _ _ H) as A. unfold RisoB in A.
  destruct (zero_rq (ready sp)); destruct (ready sl); try destruct A; exact Logic.I.
Qed.

Lemma run_view_list : forall acts sl sp, SimEq sl sp -> mon_run sl (map act acts) = true ->
  run_view sl acts = run_from sl acts.
Proof.
  induction acts as [|a acts IH]; intros sl sp H M; cbn [run_view run_from map mon_run] in *; auto.
  apply andb_prop in M. destruct M as [M1 M2].
  pose proof (SimEq_do_action (act a) sl sp H M1) as H1.
  rewrite (oview_list _ (SimEq_list _ _ H1)). f_equal. eapply IH; eauto.
Qed.

Theorem equal_priorities_whole_run factor draws lks cds nev (acts : list action) :
  let sl0 := init_st false factor draws lks cds nev in
  let sp0 := init_st true factor draws lks cds nev in
  mon_run sl0 acts = true ->
  forall n, SimEq (fold_left do_action (firstn n acts) sl0) (fold_left do_action (firstn n acts) sp0).
Proof.
  intros sl0 sp0 M n. apply SimEq_run; [apply SimEq_init|]. apply mon_run_firstn; auto.
Qed.

Theorem equal_priorities_whole_run_obs factor draws lks cds nev (acts : list saction) :
  let sl0 := init_st false factor draws lks cds nev in
  let sp0 := init_st true factor draws lks cds nev in
  mon_run sl0 (map act acts) = true ->
  run_view sp0 acts = run_from sl0 acts.
Proof.
  intros sl0 sp0 M. rewrite (SimEq_run_view acts sl0 sp0 (SimEq_init _ _ _ _ _) M).
  exact (run_view_list acts sl0 sp0 (SimEq_init _ _ _ _ _) M).
Qed.

(* ---- non-vacuity: locks, sleep_insert, task_switch, cancel, a timer, default-style boosting ---- *)
Definition sq (op : libop) (k : coro) : coro := Call op (fun _ => k).
Definition exA : coro :=
  sq (OAcquire 0) (sq (OLog 1) (sq (OSleepInsert 1) (sq (OLog 2) (sq (ORelease 0)
     (sq (OSleep (1#2)) (sq (OLog 6) (Ret 1))))))).
Definition exB : coro :=
  sq (OAcquire 0) (sq (OLog 3) (sq (ORelease 0) (sq OSleep0 (sq (OLog 7) (Ret 2))))).
Definition exC : coro :=
  sq (OLog 4) (sq (OTaskSwitch 1 None) (sq (OLog 5) (sq (OSetPrio 0) (sq (OCancel 0)
     (sq (OTaskSwitch 0 (Some 0)) (sq (OLog 8) (Ret 3))))))).
Definition ex_acts : list action :=
  [ASpawn (SPrio 0) exA; ASpawn SPlain exB; ASpawn (SPrio 0) exC; ABegin] ++ repeat AStep 9 ++
  [AAdvance 1; ABegin] ++ repeat AStep 6.
Definition ex_sl := fold_left do_action ex_acts (init_st false (1#2) [1#3; 2#3] [LPrio] [] 0).
Definition ex_sp := fold_left do_action ex_acts (init_st true (1#2) [1#3; 2#3] [LPrio] [] 0).

Example ex_mon : mon_run (init_st false (1#2) [1#3; 2#3] [LPrio] [] 0) ex_acts = true.
Proof. vm_compute. reflexivity. Qed.

Example equal_priorities_example :
  SimEq ex_sl ex_sp /\
  log ex_sl = [(1, 1%Z); (1, 2%Z); (3, 4%Z); (2, 3%Z); (3, 5%Z); (3, 8%Z); (1, 6%Z); (2, 7%Z)] /\
  log ex_sp = log ex_sl /\
  map fstate_ (futs ex_sp) = [FResult 1; FResult 2; FResult 3; FResult 1; FCancelled] /\
  match ready ex_sp with RPos p => (factor p == 1#2)%Q | RList _ => False end.
Proof.
  split.
  - unfold ex_sl, ex_sp. apply SimEq_run; [apply SimEq_init|exact ex_mon].
  - vm_compute. repeat split; reflexivity.
Qed.

(* the monitor does reject unequal priorities *)
Example ex_mon_rejects :
  mon_run (init_st false (1#2) [] [] [] 0) [ASpawn (SPrio 1) (Ret 0)] = false /\
  mon_run (init_st false (1#2) [] [] [] 0)
          [ASpawn (SPrio 0) (Call (OSetPrio 2) (fun _ => Ret 0)); AStep] = false.
Proof. vm_compute. split; reflexivity. Qed.

(* ---- the monitor under the C09 invariant: what is left of it at a library call ----
   Under InvC (any ready queue meeting QSpec; in particular every reachable state of the
   list loop, C09_inv / C09_inv_inside_step) the monitor of a library call reduces to:
   the priority is 0 (OSetPrio), and the target of task_switch / task_reinsert is not a done
   task.  task_throw / task_interrupt / task_timeout's interruptor need nothing. *)
Section MonFromInv.
Variable qok : rq -> Prop.
Hypothesis QS : QSpec qok.

Lemma fdone_remove_cb s f c g : fdone (remove_done_callback s f c) g = fdone s g.
Proof.
  unfold remove_done_callback, fdone. rewrite getf_setf.
  destruct (Nat.eqb_spec g f) as [->|]; simpl; auto.
  destruct (Nat.ltb f (length (futs s))); reflexivity.
Qed.

Lemma tdone_throw_go S t e t' : tdone (throw_go S t e) t' = tdone S t'.
Proof.
  unfold throw_go, tdone.
  assert (Ht : tfut (gett (call_soon_ (sett S t (gett S t <| twaiter := None |>)) (HStep t (Some e))) t')
               = tfut (gett S t')).
  { change (gett (call_soon_ (sett S t (gett S t <| twaiter := None |>)) (HStep t (Some e))) t')
      with (gett (sett S t (gett S t <| twaiter := None |>)) t').
    rewrite gett_sett. destruct (Nat.eqb_spec t' t) as [->|]; simpl; auto.
    destruct (Nat.ltb t (length (tasks S))); reflexivity. }
  rewrite Ht. reflexivity.
Qed.

Lemma tdone_throw s t e s' r t' : task_throw s t e = (s', r) -> tdone s' t' = tdone s t'.
Proof.
  intros E. destruct (task_throw_cases s t e s' r E) as [[-> _]|(_ & _ & _ & [H|H])]; auto.
  - destruct H as (f & _ & _ & ->). rewrite tdone_throw_go. unfold tdone.
    rewrite fdone_remove_cb. reflexivity.
  - destruct H as (h & r' & _ & _ & _ & ->). rewrite tdone_throw_go. reflexivity.
Qed.

Lemma mon_throw_of_inv c s t : InvC qok c s -> mon_throw s t = true.
Proof.
  intros I. unfold mon_throw. destruct (tdone s t) eqn:Hd; auto. simpl. eapply uq_of_inv; eauto.
Qed.

Lemma mon_tis_of_inv c s t e : InvC qok c s -> mon_tis s t e = true.
Proof.
  intros I. unfold mon_tis. rewrite (mon_throw_of_inv c s t I). simpl.
  destruct (task_throw s t e) as [s1 r1] eqn:T. destruct r1 as [v|x]; auto.
  pose proof (K_task_throw qok QS c s s t e s1 (RVal v) T (K_refl qok c s I)) as [I1 _].
  destruct (task_throw_cases s t e s1 (RVal v) T) as [[_ [k Hk]]|(_ & Hd & _)]; [discriminate|].
  eapply uq_of_inv; eauto. rewrite (tdone_throw _ _ _ _ _ t T). exact Hd.
Qed.

Lemma mon_interruptor_of_inv c : forall fuel s b i, InvC qok c s -> mon_interruptor fuel s b i = true.
Proof.
  induction fuel as [|fuel IH]; intros s b i I; cbn [mon_interruptor]; auto.
  destruct (Nat.leb 3 i); auto. destruct (negb (bactive (getb s b))); auto.
  rewrite (mon_tis_of_inv c s _ _ I). simpl.
  destruct (task_interrupt_start s (btask (getb s b)) (ETimeoutInt b)) as [s1 r1] eqn:T.
  destruct (K_task_interrupt_start qok QS c s s _ _ s1 r1 T (K_refl qok c s I)) as [[I1 _] _].
  destruct r1 as [[v|x]|y frs]; auto.
Qed.

Theorem mon_lib_of_inv c s t op : InvC qok c s ->
  match op with
  | OSetPrio p => Qeq_bool p 0 = true
  | OTaskSwitch t' _ | OTaskReinsert t' _ => tdone s t' = false
  | _ => True
  end -> mon_lib t op s = true.
Proof.
  intros I H. destruct op; cbn [mon_lib]; auto;
    try (eapply rwfb_of_inv; eauto; fail).
  - (* OTaskSwitch *)
    rewrite (uq_of_inv qok c s t0 I H). simpl. destruct p as [p|]; auto.
    destruct (task_reinsert s t0 0) as [s1 r1] eqn:T.
    pose proof (K_task_reinsert qok QS c s s t0 0 s1 r1 T (K_refl qok c s I)) as [I1 _].
    eapply rwfb_of_inv; eauto.
  - eapply uq_of_inv; eauto.
  - eapply mon_throw_of_inv; eauto.
  - eapply mon_tis_of_inv; eauto.
  - eapply mon_interruptor_of_inv; eauto.
Qed.
Lemma mon_frame_of_inv c s t fr inp : InvC qok c s -> mon_frame t fr inp s = true.
Proof.
  intros I. destruct fr; cbn [mon_frame]; auto. destruct inp; auto.
  eapply mon_interruptor_of_inv; eauto.
Qed.
End MonFromInv.
