(* C15, second part: task_interrupt = task_throw + task_switch runs the target NEXT;
   a later accepted throw replaces the pending handle, cancel() only sets _must_cancel;
   exactly one live handle of the target between an accepted throw and its step. *)
From Coq Require Import QArith Sorting.Permutation.
From RecordUpdate Require Import RecordUpdate.
From Asynkit Require Import Base.Prelude Queue.ListFacts Queue.PQ Queue.Order Queue.Heap
     Queue.HeapqProofs Queue.PQProofs Queue.PosPQ Queue.PosProofs Queue.PosInsert Queue.PosList
     Queue.Exec Sched.Model Sched.PartTables Sched.PartitionProofs Sched.PartitionSteps
     Sched.PartitionRun Sched.PartitionFinal Sched.ThrowProofs Sched.PrioQueueProofs Sched.FrameFacts
     Sched.ErrorsFrame Sched.TaskFrame.
Import RecordSetNotations.
Open Scope nat_scope.

(* ------------------------------------------------------------ counting *)
Lemma cnt_one_unique {A} (p : A -> bool) (l : list A) x y :
  cnt p l = 1 -> In x l -> In y l -> p x = true -> p y = true -> x = y.
Proof.
  induction l as [|a l IH]; simpl; [tauto|]. rewrite cnt_cons. intros Hc Hx Hy Px Py.
  destruct (p a) eqn:Pa.
  - assert (Z : cnt p l = 0) by lia.
    assert (N : forall z, In z l -> p z = true -> False).
    { intros z Hz Pz. pose proof (cnt_in_pos p l z Hz Pz). lia. }
    destruct Hx as [<-|Hx]; destruct Hy as [<-|Hy]; auto; exfalso; eauto.
  - destruct Hx as [<-|Hx]; [congruence|]. destruct Hy as [<-|Hy]; [congruence|].
    apply IH; auto.
Qed.

Lemma cnt_zero_all {A} (p : A -> bool) (l : list A) :
  cnt p l = 0 -> forall x, In x l -> p x = false.
Proof.
  intros Hc x Hx. destruct (p x) eqn:Px; auto. pose proof (cnt_in_pos p l x Hx Px). lia.
Qed.

(* ------------------------------------------------------------ "position 0 is the head" *)
(* what the run-next theorems need from the ready queue beyond QSpec: inserting at position 0
   makes the handle the head of the run order, and popleft returns the head of the run order *)
Record QNext (qok : rq -> Prop) : Prop := {
  qn_insert0 : forall r h, qok r -> rq_items (rq_insert_pos r 0 h) = h :: rq_items r;
  qn_pop : forall r h l, qok r -> rq_items r = h :: l ->
           exists r', rq_popleft r = Some (h, r') /\ rq_items r' = l /\ qok r';
  (* a handle appended (call_soon) after an insert at position 0 goes behind the inserted one *)
  qn_behind : forall r h k p, qok r ->
           exists l, rq_items (rq_append (rq_insert_pos r 0 h) k p) = h :: l /\
                     Permutation l (k :: rq_items r)
}.
Arguments qn_insert0 {qok}. Arguments qn_pop {qok}. Arguments qn_behind {qok}.

Lemma QNext_list : QNext qok_list.
Proof.
  constructor.
  - intros [l|p] h Hq; [|destruct Hq]. simpl. destruct l; reflexivity.
  - intros [l0|p] h l Hq E; [|destruct Hq]. simpl in E. subst l0. exists (RList l). simpl. auto.
  - intros [l|p] h k pr Hq; [|destruct Hq]. exists (l ++ [k]). split.
    + simpl. destruct l; reflexivity.
    + simpl. apply Permutation_sym, Permutation_cons_append.
Qed.

Lemma QNext_pos : QNext qok_pos.
Proof.
  constructor.
  - intros [l|p] h Hq; [destruct Hq|]. simpl in Hq. simpl rq_insert_pos. rewrite !rq_items_pos.
    unfold onat. rewrite <- !(map_map (@eobj pv) Z.to_nat).
    unfold plist at 1. rewrite (insert_position HPV HPV_plt HPV_spec p 0 (Z.of_nat h) Hq).
    fold (plist HPV p). simpl. rewrite Nat2Z.id. reflexivity.
  - intros [l0|p] h l Hq E; [destruct Hq|]. simpl in Hq. rewrite rq_items_pos in E.
    pose proof (popleft_plist HPV HPV_plt HPV_spec p Hq) as Hl.
    destruct (plist HPV p) as [|e t]; [discriminate|]. simpl in E. inversion E; subst h l; clear E.
    destruct Hl as (s' & E1 & Ht & Hp'). exists (RPos s'). simpl. rewrite E1. split; [reflexivity|].
    split; [|exact Hp']. change (rq_items (RPos s') = map onat t). rewrite rq_items_pos, Ht. reflexivity.
  - intros [l|p] h k pr Hq; [destruct Hq|]. simpl in Hq.
    pose proof (insert_inv HPV HPV_plt HPV_spec p 0 (Z.of_nat h) Hq) as Hq1.
    destruct (insert_plist HPV HPV_plt HPV_spec p 0 (Z.of_nat h) Hq) as (news & En & Em & Ec).
    simpl in En, Em.
    destruct news as [|e0 [|e1 news]]; try discriminate. inversion Em as [Eo]. clear Em.
    inversion Ec as [|? ? C0 _]; subst.
    set (p1 := pos_insert HPV p 0 (Z.of_nat h)) in *.
    simpl rq_insert_pos. simpl rq_append. fold p1.
    set (new := mkE (mkPV pr (n_ins p1) 0 1) (seqn (pq_ p1)) (Z.of_nat k)).
    assert (Hlt : entry_lt (plt HPV) new e0 = false).
    { unfold entry_lt. rewrite HPV_plt. unfold pv_lt, new. simpl. rewrite C0. reflexivity. }
    exists (map onat (ins_stable HPV new (plist HPV p))). split.
    + rewrite rq_items_pos, (append_plist HPV HPV_plt HPV_spec p1 (Z.of_nat k) pr Hq1), En.
      fold new. simpl app. cbn [ins_stable]. rewrite Hlt.
      simpl. unfold onat at 1. rewrite Eo, Nat2Z.id. reflexivity.
    + rewrite rq_items_pos.
      eapply perm_trans; [apply Permutation_map, (ins_stable_perm HPV)|]. cbn [map].
      unfold onat at 1. simpl eobj. rewrite Nat2Z.id. reflexivity.
Qed.

(* ------------------------------------------------------------ task_interrupt *)
Lemma interrupt_call_eq t t' e s : lib_call t (OTaskInterrupt t' e) s = task_interrupt_start s t' e.
Proof. reflexivity. Qed.

(* a refused task_interrupt raises the RuntimeError of task_throw and changes nothing *)
Theorem interrupt_refused t t' e s s1 x :
  task_throw s t' e = (s1, RExc x) ->
  lib_call t (OTaskInterrupt t' e) s = (s, LDone (RExc x)) /\ s1 = s /\ exists k, x = ERuntime k.
Proof.
  intros E. pose proof (throw_refused_unchanged s t' e s1 x E) as ->.
  split; [|split; [reflexivity|]].
  - cbn [lib_call]. unfold task_interrupt_start. rewrite E. reflexivity.
  - destruct (task_throw_cases s t' e s (RExc x) E) as [[_ (k & Hk)]|(Hk & _)]; [|discriminate].
    inversion Hk. eauto.
Qed.

Section Next.
Variable qok : rq -> Prop.
Hypothesis QS : QSpec qok.
Hypothesis QN : QNext qok.
Notation InvC := (InvC qok).

(* the unique task handle of t' after an accepted throw is the new one *)
Lemma throw_unique_handle c s t' e s1 v :
  InvC c s -> task_throw s t' e = (s1, RVal v) ->
  let hn := length (handles s) in
  geth s1 hn = mkH (HStep t' (Some e)) false /\ task_key s1 t' hn = true /\
  forall h, In h (rq_items (ready s1)) -> task_key s1 t' h = true -> h = hn.
Proof.
  intros I E hn.
  pose proof (throw_effect qok QS c s t' e s1 v I E) as TE. cbv zeta in TE.
  destruct TE as (_ & _ & _ & H1 & _ & _ & Hh & Hin & _).
  assert (G : geth s1 hn = mkH (HStep t' (Some e)) false).
  { unfold geth. rewrite Hh. apply nth_middle. }
  assert (Kn : task_key s1 t' hn = true).
  { unfold task_key, task_of_handle. rewrite G. simpl. apply Nat.eqb_refl. }
  split; [exact G|]. split; [exact Kn|].
  intros h Hi Hk. eapply (cnt_one_unique (task_key s1 t') (rq_items (ready s1))); eauto.
Qed.

(* after an accepted throw, task_switch(target) always succeeds and moves the new handle
   to the head of the run order *)
Lemma reinsert_after_throw c s t' e s1 v :
  InvC c s -> task_throw s t' e = (s1, RVal v) ->
  let hn := length (handles s) in
  exists r',
    rq_find (ready s1) (task_key s1 t') true = Some (hn, r') /\ qok r' /\
    Permutation (rq_items (ready s1)) (hn :: rq_items r') /\
    (forall h, In h (rq_items r') -> task_key s1 t' h = false) /\
    task_reinsert s1 t' 0 = (s1 <| ready := rq_insert_pos r' 0 hn |>, RVal 0).
Proof.
  intros I E hn.
  pose proof (throw_effect qok QS c s t' e s1 v I E) as TE. cbv zeta in TE.
  destruct TE as (I1 & _ & _ & H1 & _ & _ & _ & Hin & _).
  destruct (throw_unique_handle c s t' e s1 v I E) as (G & Kn & U). fold hn in G, Kn, U, Hin.
  destruct (rq_find (ready s1) (task_key s1 t') true) as [[h r']|] eqn:F.
  - destruct (q_find QS _ _ _ _ (i_qok (i_wf I1)) F) as (Q1 & Kh & P).
    assert (Eh : h = hn).
    { apply U; auto. eapply Permutation_in; [symmetry; exact P|]. left; reflexivity. }
    subst h. exists r'. split; [reflexivity|]. split; [exact Q1|]. split; [exact P|]. split.
    + apply cnt_zero_all. unfold hcnt in H1. rewrite (cnt_perm _ _ _ P), cnt_cons, Kn in H1. lia.
    + unfold task_reinsert. rewrite F. reflexivity.
  - exfalso. pose proof (q_find_none QS _ _ (i_qok (i_wf I1)) F hn Hin). congruence.
Qed.

(* C15_interrupt_next, at the level of the library call: the accepted interrupt leaves the
   target's new handle HStep t' (Some e) at the head of the run order; the next run_one is
   the target's step with e; the interrupting task has no handle at all at that point *)
Theorem interrupt_next c s t t' e s' :
  InvC c s -> lib_call t (OTaskInterrupt t' e) s = (s', LSusp YNone [InSleep0]) ->
  let hn := length (handles s) in
  exists s1 v r' r'',
    task_throw s t' e = (s1, RVal v) /\
    s' = s1 <| ready := rq_insert_pos r' 0 hn |> /\ qok r' /\
    Permutation (rq_items (ready s1)) (hn :: rq_items r') /\
    InvC c s' /\
    geth s' hn = mkH (HStep t' (Some e)) false /\
    rq_items (ready s') = hn :: rq_items r' /\
    (forall h, In h (rq_items r') -> task_key s' t' h = false) /\
    rq_popleft (ready s') = Some (hn, r'') /\ rq_items r'' = rq_items r' /\
    run_one s' = step_task t' (Some e) (s' <| ready := r'' |>) /\
    tdone s' t' = false /\ hcnt s' t' = 1 /\
    (c = Some t -> tdone s' t = false -> hcnt s' t = 0).
Proof.
  intros I L hn. rewrite interrupt_call_eq in L.
  destruct (K_task_interrupt_start qok QS c s s t' e s' _ L (K_refl qok c s I)) as [[I' _] _].
  unfold task_interrupt_start in L.
  destruct (task_throw s t' e) as [s1 r] eqn:E. destruct r as [v|x]; [|discriminate].
  destruct (reinsert_after_throw c s t' e s1 v I E) as (r' & F & Q1 & P & Z & R). fold hn in F, P, R.
  rewrite R in L. inversion L; subst s'; clear L.
  destruct (throw_unique_handle c s t' e s1 v I E) as (G & Kn & U). fold hn in G, Kn, U.
  pose proof (throw_effect qok QS c s t' e s1 v I E) as TE. cbv zeta in TE.
  destruct TE as (I1 & _ & Hd & H1 & _).
  destruct (q_insert QS r' 0 hn Q1) as [Q2 _].
  pose proof (qn_insert0 QN r' hn Q1) as It.
  destruct (qn_pop QN _ hn (rq_items r') Q2 It) as (r'' & Pp & It' & Q3).
  exists s1, v, r', r''.
  split; [reflexivity|]. split; [reflexivity|]. split; [exact Q1|]. split; [exact P|]. split; [exact I'|].
  split; [exact G|]. split; [exact It|]. split; [exact Z|]. split; [exact Pp|]. split; [exact It'|].
  split; [apply (run_one_step _ hn r'' t' e); [exact Pp|exact G]|]. split; [exact Hd|]. split.
  - unfold hcnt. change (ready (s1 <| ready := rq_insert_pos r' 0 hn |>)) with (rq_insert_pos r' 0 hn).
    change (task_key (s1 <| ready := rq_insert_pos r' 0 hn |>) t') with (task_key s1 t').
    rewrite It, cnt_cons.
    rewrite Kn, (cnt_zero _ _ Z). reflexivity.
  - intros -> Hdt. destruct (InvC_cur_quiet qok t _ I' Hdt) as (Q & _). exact Q.
Qed.

(* ... and there are only two outcomes under the invariant: refused with the state
   unchanged, or accepted and suspended in sleep(0) *)
Theorem interrupt_dichotomy c s t t' e :
  InvC c s ->
  (exists k, task_throw s t' e = (s, RExc (ERuntime k)) /\
             lib_call t (OTaskInterrupt t' e) s = (s, LDone (RExc (ERuntime k)))) \/
  (exists s1 s', task_throw s t' e = (s1, RVal 0) /\
                 lib_call t (OTaskInterrupt t' e) s = (s', LSusp YNone [InSleep0])).
Proof.
  intros I. destruct (task_throw s t' e) as [s1 r] eqn:E. destruct r as [v|x].
  - right. destruct (reinsert_after_throw c s t' e s1 v I E) as (r' & _ & _ & _ & _ & R).
    assert (v = 0%Z) as ->.
    { destruct (task_throw_cases s t' e s1 (RVal v) E) as [[_ (k & Hk)]|(Hk & _)]; congruence. }
    exists s1, (s1 <| ready := rq_insert_pos r' 0 (length (handles s)) |>). split; [reflexivity|].
    cbn [lib_call]. unfold task_interrupt_start. rewrite E, R. reflexivity.
  - left. destruct (interrupt_refused t t' e s s1 x E) as (L & -> & k & ->). eauto.
Qed.

(* the whole step of the interrupting task t: its code reaches `await task_interrupt(t', e)`,
   the call suspends, Task.__step re-schedules t by call_soon.  In the state sf the loop sees
   next: the head of the run order is the target's handle carrying e, t's own (only) handle
   HStep t None is the fresh one behind it, so run_one runs the target first *)
Theorem interrupt_then_yield s t t' e s' k :
  InvC (Some t) s -> tdone s t = false ->
  lib_call t (OTaskInterrupt t' e) s = (s', LSusp YNone [InSleep0]) ->
  exec t (Call (OTaskInterrupt t' e) k) s = (s', OYield YNone [InSleep0] k) /\
  let sf := finish_step t s' (OYield YNone [InSleep0] k) <| current := None |> in
  let hn := length (handles s) in
  t' <> t /\
  exists l r'',
    rq_items (ready sf) = hn :: l /\
    geth sf hn = mkH (HStep t' (Some e)) false /\
    geth sf (S hn) = mkH (HStep t None) false /\
    In (S hn) l /\
    (forall h, In h l -> task_key sf t' h = false) /\
    (forall h, In h l -> task_key sf t h = true -> h = S hn) /\
    tcont_ (gett sf t) = TSusp [InSleep0] k /\
    rq_popleft (ready sf) = Some (hn, r'') /\ rq_items r'' = l /\
    run_one sf = step_task t' (Some e) (sf <| ready := r'' |>).
Proof.
  intros I Hdt L. split; [cbn [exec]; rewrite L; reflexivity|]. intros sf hn.
  destruct (interrupt_next (Some t) s t t' e s' I L)
    as (s1 & v & r' & r0 & E & Es' & Q1 & P & I' & G & It & Z & _ & _ & _ & Hd' & H1' & Hq).
  fold hn in Es', P, G, It.
  pose proof (throw_effect qok QS (Some t) s t' e s1 v I E) as TE. cbv zeta in TE.
  destruct TE as (I1 & Hnc & _ & _ & _ & _ & Hh & _ & _ & Hfs & _ & _ & Hgo & _).
  assert (Hne : t' <> t).
  { intros ->. simpl in Hnc. rewrite Nat.eqb_refl in Hnc. discriminate. }
  split; [exact Hne|].
  pose proof (i_cur I' t eq_refl) as Ht'.
  assert (Hdt' : tdone s' t = false).
  { rewrite Es'. unfold tdone, fdone in *. change (gett (s1 <| ready := rq_insert_pos r' 0 hn |>) t) with (gett s1 t).
    change (getf (s1 <| ready := rq_insert_pos r' 0 hn |>)) with (getf s1).
    rewrite (Hgo t (not_eq_sym Hne)), Hfs. exact Hdt. }
  pose proof (Hq eq_refl Hdt') as H0.
  assert (Hl : length (handles s') = S hn).
  { rewrite Es'. change (handles (s1 <| ready := rq_insert_pos r' 0 hn |>)) with (handles s1).
    rewrite Hh, app_length. simpl. unfold hn. lia. }
  set (x := gett s' t <| tcont_ := TSusp [InSleep0] k |>).
  assert (Esf : sf = call_soon_ (sett s' t x) (HStep t None) <| current := None |>) by reflexivity.
  assert (Hhs : handles sf = handles s' ++ [mkH (HStep t None) false]) by reflexivity.
  set (pr := handle_priority (sett s' t x <| handles := handles s' ++ [mkH (HStep t None) false] |>) (HStep t None)).
  assert (Er : ready sf = rq_append (rq_insert_pos r' 0 hn) (S hn) pr).
  { assert (Er0 : ready sf = rq_append (ready s') (length (handles s')) pr) by reflexivity.
    rewrite Er0, Hl. f_equal. rewrite Es'. reflexivity. }
  destruct (qn_behind QN r' hn (S hn) pr Q1) as (l & El & Pl). rewrite <- Er in El.
  assert (Qf : qok (ready sf)).
  { rewrite Er. apply (q_append QS). apply (q_insert QS). exact Q1. }
  destruct (qn_pop QN _ hn l Qf El) as (r'' & Pp & It'' & _).
  assert (Gold : forall h, h < length (handles s') -> geth sf h = geth s' h).
  { intros h Hlt. unfold geth. rewrite Hhs, app_nth1; auto. }
  assert (Gn : geth sf hn = mkH (HStep t' (Some e)) false).
  { rewrite Gold by lia. exact G. }
  assert (Gn1 : geth sf (S hn) = mkH (HStep t None) false).
  { unfold geth. rewrite Hhs, <- Hl. apply nth_middle. }
  assert (Hin' : forall h, In h (rq_items r') -> h < length (handles s') /\ In h (rq_items (ready s'))).
  { intros h Hi. assert (Hi' : In h (rq_items (ready s'))) by (rewrite It; right; exact Hi).
    split; [apply (i_rwf (i_wf I') h Hi')|exact Hi']. }
  exists l, r''. split; [exact El|]. split; [exact Gn|]. split; [exact Gn1|].
  split; [eapply Permutation_in; [symmetry; exact Pl|]; left; reflexivity|].
  split; [|split; [|split; [|split; [exact Pp|split; [exact It''|]]]]].
  - intros h Hi. eapply Permutation_in in Hi; [|exact Pl]. destruct Hi as [<-|Hi].
    + unfold task_key, task_of_handle. rewrite Gn1. simpl. apply Nat.eqb_neq. exact Hne.
    + destruct (Hin' h Hi) as [Hlt _]. unfold task_key, task_of_handle. rewrite (Gold h Hlt).
      apply (Z h Hi).
  - intros h Hi Hk. eapply Permutation_in in Hi; [|exact Pl]. destruct Hi as [<-|Hi]; [reflexivity|].
    exfalso. destruct (Hin' h Hi) as [Hlt Hi'].
    unfold task_key, task_of_handle in Hk. rewrite (Gold h Hlt) in Hk.
    pose proof (cnt_zero_all _ _ H0 h Hi') as Hk'. unfold task_key, task_of_handle in Hk'. congruence.
  - rewrite Esf. change (gett (call_soon_ (sett s' t x) (HStep t None) <| current := None |>) t)
      with (gett (sett s' t x) t). rewrite gett_sett_same by exact Ht'. reflexivity.
  - apply (run_one_step sf hn r'' t' e); [exact Pp|exact Gn].
Qed.

End Next.

(* ------------------------------------------------------------ superseded *)
Section Superseded.
Variable qok : rq -> Prop.
Hypothesis QS : QSpec qok.
Notation InvC := (InvC qok).

Lemma ready_throw_go s1 t e :
  exists p, ready (throw_go s1 t e) = rq_append (ready s1) (length (handles s1)) p.
Proof. eexists. reflexivity. Qed.

Lemma task_eta_waiter (x : task) : twaiter x = None -> x <| twaiter := None |> = x.
Proof. destruct x; simpl; intros ->; reflexivity. Qed.

(* a second accepted throw REPLACES the pending handle: the handle carrying e1 leaves the
   ready queue (queue_find(remove)), the only live handle of t is the new HStep t (Some e2) *)
Theorem throw_supersedes c s t e1 e2 s1 s2 v1 v2 :
  InvC c s -> task_throw s t e1 = (s1, RVal v1) -> task_throw s1 t e2 = (s2, RVal v2) ->
  let h1 := length (handles s) in
  let h2 := S h1 in
  InvC c s2 /\
  handles s2 = handles s ++ [mkH (HStep t (Some e1)) false; mkH (HStep t (Some e2)) false] /\
  geth s2 h1 = mkH (HStep t (Some e1)) false /\ geth s2 h2 = mkH (HStep t (Some e2)) false /\
  ~ In h1 (rq_items (ready s2)) /\ In h2 (rq_items (ready s2)) /\
  hcnt s2 t = 1 /\
  (forall h, In h (rq_items (ready s2)) -> task_key s2 t h = true -> h = h2) /\
  (forall g, getf s2 g = getf s1 g) /\ (forall t', gett s2 t' = gett s1 t') /\
  (forall t', t' <> t -> hcnt s2 t' = hcnt s1 t') /\
  locks s2 = locks s1 /\ conds s2 = conds s1 /\ events s2 = events s1 /\ blocks s2 = blocks s1 /\
  timers s2 = timers s1 /\ now s2 = now s1 /\ current s2 = current s1 /\ log s2 = log s1 /\
  errors s2 = errors s1.
Proof.
  intros I E1 E2 h1 h2.
  pose proof (throw_effect qok QS c s t e1 s1 v1 I E1) as T1. cbv zeta in T1.
  destruct T1 as (I1 & _ & _ & _ & Hb1 & Hw1 & Hh1 & _).
  pose proof (throw_effect qok QS c s1 t e2 s2 v2 I1 E2) as T2. cbv zeta in T2.
  destruct T2 as (I2 & _ & _ & H2 & _ & _ & Hh2 & Hin2 & Hf & _ & _ & _ & Hgo & Hgt & Hho & R).
  assert (Hl1 : length (handles s1) = h2).
  { rewrite Hh1, app_length. simpl. unfold h2, h1. lia. }
  rewrite Hl1 in Hin2.
  destruct (throw_unique_handle qok QS c s t e1 s1 v1 I E1) as (G1 & K1 & _). fold h1 in G1, K1.
  destruct (throw_unique_handle qok QS c s1 t e2 s2 v2 I1 E2) as (G2 & _ & U2). rewrite Hl1 in G2, U2.
  split; [exact I2|]. split; [rewrite Hh2, Hh1, <- app_assoc; reflexivity|].
  split.
  { unfold geth. rewrite Hh2, app_nth1 by (rewrite Hl1; unfold h2; lia). exact G1. }
  split; [exact G2|]. split.
  { (* the old handle was found and removed *)
    destruct (reinsert_after_throw qok QS c s t e1 s1 v1 I E1) as (r' & F & Q1 & P & Z & _). fold h1 in F, P.
    destruct (task_throw_cases s1 t e2 s2 (RVal v2) E2) as [[_ (k & Hk)]|(_ & _ & _ & [H|H])]; [discriminate| |].
    - destruct H as (f & Hw & _). congruence.
    - destruct H as (h & r0 & _ & _ & F' & Es2). rewrite F in F'. inversion F'; subst h r0; clear F'.
      intros Hi. rewrite Es2 in Hi.
      destruct (ready_throw_go (s1 <| ready := r' |>) t e2) as (p & Er). rewrite Er in Hi.
      change (ready (s1 <| ready := r' |>)) with r' in Hi.
      change (handles (s1 <| ready := r' |>)) with (handles s1) in Hi.
      destruct (q_append QS r' (length (handles s1)) p Q1) as [_ Pa].
      eapply Permutation_in in Hi; [|exact Pa]. destruct Hi as [Hi|Hi].
      + rewrite Hl1 in Hi. unfold h2 in Hi. lia.
      + pose proof (Z h1 Hi). congruence. }
  split; [exact Hin2|]. split; [exact H2|]. split; [exact U2|]. split.
  { intros g. destruct (Hf g) as [->|[Hb _]]; [reflexivity|congruence]. }
  split.
  { intros t'. destruct (Nat.eq_dec t' t) as [->|Hn]; [|apply Hgo; exact Hn].
    rewrite Hgt. apply task_eta_waiter. exact Hw1. }
  split; [exact Hho|exact R].
Qed.

(* cancel() after an accepted throw only sets _must_cancel (the task has no waiter any more):
   the pending handle stays; Task.__step will deliver e itself if it is a CancelledError,
   else a fresh CancelledError (C15_delivered); further throws are refused *)
Theorem cancel_after_throw c s t e s1 v :
  InvC c s -> task_throw s t e = (s1, RVal v) ->
  let s2 := sett s1 t (gett s1 t <| tmustc := true |>) in
  cancel_task s1 t = (s2, true) /\ InvC c s2 /\
  ready s2 = ready s1 /\ handles s2 = handles s1 /\ futs s2 = futs s1 /\
  hcnt s2 t = 1 /\ tdone s2 t = false /\
  geth s2 (length (handles s)) = mkH (HStep t (Some e)) false /\
  gett s2 t = gett s1 t <| tmustc := true |> /\
  (forall t', t' <> t -> gett s2 t' = gett s1 t') /\
  (forall e', delivered_exn s2 t e' = if is_cancel e' then e' else ECancelled) /\
  (forall e', task_throw s2 t e' = (s2, RExc (ERuntime rt_task_cancelled))).
Proof.
  intros I E s2.
  pose proof (throw_effect qok QS c s t e s1 v I E) as T1. cbv zeta in T1.
  destruct T1 as (I1 & _ & Hd1 & H1 & Hb1 & Hw1 & Hh1 & _ & _ & _ & _ & _ & _ & Hgt & _).
  destruct (throw_unique_handle qok QS c s t e s1 v I E) as (G1 & _ & _).
  assert (Hk : tkind_ (gett s t) = KPy).
  { destruct (task_throw_cases s t e s1 (RVal v) E) as [[_ (k & Hk)]|(_ & _ & Hk & _)]; [discriminate|exact Hk]. }
  pose proof (kpy_in_range s t Hk) as Ht0.
  assert (Ht : t < length (tasks s1)).
  { destruct (K_task_throw qok QS c s s t e s1 _ E (K_refl qok c s I)) as [_ X]. pose proof (e_tlen X). lia. }
  assert (C : cancel_task s1 t = (s2, true)).
  { unfold cancel_task. destruct (length (tasks s1)); cbn [task_cancel]; rewrite Hd1, Hw1; reflexivity. }
  assert (Gt : gett s2 t = gett s1 t <| tmustc := true |>).
  { unfold s2. rewrite gett_sett_same by exact Ht. reflexivity. }
  assert (Hd2 : tdone s2 t = false).
  { unfold tdone. rewrite Gt. exact Hd1. }
  split; [exact C|]. split.
  { destruct (K_cancel_task qok QS c s1 s1 t s2 true C (K_refl qok c s1 I1)) as [X _]. exact X. }
  split; [reflexivity|]. split; [reflexivity|]. split; [reflexivity|]. split; [exact H1|].
  split; [exact Hd2|]. split; [exact G1|]. split; [exact Gt|]. split.
  { intros t' Hn. unfold s2. apply gett_sett_other. exact Hn. }
  split.
  { intros e'. unfold delivered_exn. rewrite Gt. reflexivity. }
  intros e'. apply throw_refuse_cancelling.
  - exact Hd2.
  - rewrite Gt, Hgt. exact Hk.
  - unfold bo. rewrite Gt. cbn. rewrite Hw1. reflexivity.
  - left. rewrite Gt. reflexivity.
Qed.

(* exactly one live handle while the task is runnable: in every state reachable (from a state
   satisfying Inv09) by any actions - steps of other tasks, timers, completions of the future
   the target used to wait on, further throws, cancels - a task that is not done and not blocked
   has exactly one handle in the ready queue and its wake-up callback is on no pending future, so
   no completion can add a second one (C15_no_second_resume) *)
Theorem one_handle_while_runnable : forall acts s t,
  Inv09 qok s -> actions_ok s acts ->
  let s' := fold_left do_action acts s in
  Inv09 qok s' /\
  (t < length (tasks s') -> tdone s' t = false -> bo s' t = None ->
   hcnt s' t = 1 /\ forall g, fdone s' g = false -> ccnt s' t g = 0).
Proof.
  intros acts s t I Ha s'. pose proof (Inv09_run qok QS acts s I Ha) as I'. fold s' in I'.
  split; [exact I'|]. intros Ht Hd Hb. destruct I' as [I' _].
  pose proof (i_cls I' t Ht Hd) as C. unfold cls in C. simpl in C. destruct C as [C1 C2].
  rewrite Hb in C1, C2. split; assumption.
Qed.

(* ... in particular between an accepted throw and the target's next step *)
Theorem delivered_once s t e s1 v acts :
  Inv09 qok s -> task_throw s t e = (s1, RVal v) -> actions_ok s1 acts ->
  let s' := fold_left do_action acts s1 in
  Inv09 qok s1 /\ hcnt s1 t = 1 /\ geth s1 (length (handles s)) = mkH (HStep t (Some e)) false /\
  Inv09 qok s' /\ t < length (tasks s') /\
  (tdone s' t = false -> bo s' t = None ->
   hcnt s' t = 1 /\ forall g, fdone s' g = false -> ccnt s' t g = 0).
Proof.
  intros [I Hc] E Ha s'.
  pose proof (throw_effect qok QS None s t e s1 v I E) as T1. cbv zeta in T1.
  destruct T1 as (I1 & _ & _ & H1 & _ & _ & Hh & _ & _ & _ & _ & _ & _ & _ & _ & _ & _ & _ & _ & _ & _ & Hc1 & _).
  destruct (throw_unique_handle qok QS None s t e s1 v I E) as (G1 & _ & _).
  assert (J1 : Inv09 qok s1) by (split; [exact I1|congruence]).
  destruct (one_handle_while_runnable acts s1 t J1 Ha) as [J' H']. fold s' in J', H'.
  assert (Ht1 : t < length (tasks s1)).
  { destruct (task_throw_cases s t e s1 (RVal v) E) as [[_ (k & Hk)]|(_ & _ & Hk & _)]; [discriminate|].
    pose proof (kpy_in_range s t Hk).
    destruct (K_task_throw qok QS None s s t e s1 _ E (K_refl qok None s I)) as [_ X]. pose proof (e_tlen X). lia. }
  pose proof (g_tasks _ _ (grow_actions acts s1)) as X. fold s' in X.
  split; [exact J1|]. split; [exact H1|]. split; [exact G1|]. split; [exact J'|].
  split; [lia|].
  intros Hd Hb. apply H'; auto. lia.
Qed.

End Superseded.

(* ------------------------------------------------------------ loop errors *)
(* "no handle of a finished task is queued".  Inv09 deliberately leaves finished tasks
   unconstrained (the model lets user code complete a task's own future, see notes/C09.md), so
   this is what has to be added to exclude the InvalidStateError of Task.__step *)
Definition NDH (s : st) : Prop :=
  forall h t, In h (rq_items (ready s)) -> task_of_handle s h = Some t -> tdone s t = false.

Section LoopErrors.
Variable qok : rq -> Prop.
Hypothesis QS : QSpec qok.
Notation InvC := (InvC qok).

(* under NDH a loop step never takes the InvalidStateError branch: the only error a step can
   add is the ValueError of a _task_reinsert callback whose task is not queued *)
Theorem run_one_no_invalid_state s :
  qok (ready s) -> NDH s ->
  errors (run_one s) = errors s \/
  (errors (run_one s) = errors s ++ [LEValue] /\
   exists h r t p, rq_popleft (ready s) = Some (h, r) /\ geth s h = mkH (HReinsert t p) false /\
                   rq_find r (task_key s t) true = None).
Proof.
  intros Hq N. rewrite run_one_errors.
  destruct (rq_popleft (ready s)) as [[h r]|] eqn:Pp; [|left; reflexivity].
  destruct (hcancelled (geth s h)) eqn:Hc; [left; reflexivity|].
  destruct (q_popleft QS _ _ _ Hq Pp) as [_ P].
  assert (Hin : In h (rq_items (ready s))) by (eapply Permutation_in; [symmetry; exact P|left; reflexivity]).
  rewrite run_callback_errors.
  destruct (hcb (geth s h)) as [t e|t f|t p|n|f v|b| |t] eqn:Hcb; try (left; reflexivity).
  - change (tdone (s <| ready := r |>) t) with (tdone s t).
    rewrite (N h t Hin); [left; reflexivity|]. unfold task_of_handle. rewrite Hcb. reflexivity.
  - change (tdone (s <| ready := r |>) t) with (tdone s t).
    rewrite (N h t Hin); [left; reflexivity|]. unfold task_of_handle. rewrite Hcb. reflexivity.
  - change (ready (s <| ready := r |>)) with r.
    change (task_key (s <| ready := r |>) t) with (task_key s t).
    destruct (rq_find r (task_key s t) true) as [x|] eqn:F; [left; reflexivity|].
    right. split; [reflexivity|]. exists h, r, t, p. split; [reflexivity|]. split; [|exact F].
    destruct (geth s h) as [cb cc]. simpl in *. subst. reflexivity.
Qed.

(* task_throw never queues a handle of a finished task, and never touches the errors *)
Theorem throw_keeps_ndh c s t e s1 r :
  InvC c s -> NDH s -> task_throw s t e = (s1, r) -> NDH s1 /\ errors s1 = errors s.
Proof.
  intros I N E. destruct r as [v|x]; [|rewrite (throw_refused_unchanged s t e s1 x E); auto].
  pose proof (throw_effect qok QS c s t e s1 v I E) as TE. cbv zeta in TE.
  destruct TE as (I1 & _ & Hd & _ & _ & _ & Hh & _ & _ & Hfs & _ & _ & Hgo & Hgt & _ & _ & _ & _ & _ & _ & _ & _ & _ & He).
  split; [|exact He].
  destruct (throw_unique_handle qok QS c s t e s1 v I E) as (G & _ & _).
  assert (Td : forall t', tdone s1 t' = tdone s t').
  { intros t'. unfold tdone, fdone. destruct (Nat.eq_dec t' t) as [->|Hn].
    - rewrite Hgt. cbn. rewrite Hfs. reflexivity.
    - rewrite (Hgo t' Hn), Hfs. reflexivity. }
  assert (Sub : forall h, In h (rq_items (ready s1)) -> h = length (handles s) \/ In h (rq_items (ready s))).
  { intros h Hi.
    destruct (task_throw_cases s t e s1 (RVal v) E) as [[_ (k & Hk)]|(_ & _ & _ & [H|H])]; [discriminate| |].
    - destruct H as (f & _ & _ & Es1). rewrite Es1 in Hi.
      destruct (ready_throw_go (remove_done_callback s f (CbWakeup t)) t e) as (p & Er0). rewrite Er0 in Hi.
      change (ready (remove_done_callback s f (CbWakeup t))) with (ready s) in Hi.
      change (handles (remove_done_callback s f (CbWakeup t))) with (handles s) in Hi.
      destruct (q_append QS (ready s) (length (handles s)) p (i_qok (i_wf I))) as [_ Pa].
      eapply Permutation_in in Hi; [|exact Pa]. destruct Hi as [<-|Hi]; auto.
    - destruct H as (h0 & r' & _ & _ & F & Es1). rewrite Es1 in Hi.
      destruct (q_find QS _ _ _ _ (i_qok (i_wf I)) F) as (Q1 & _ & P).
      destruct (ready_throw_go (s <| ready := r' |>) t e) as (p & Er0). rewrite Er0 in Hi.
      change (ready (s <| ready := r' |>)) with r' in Hi.
      change (handles (s <| ready := r' |>)) with (handles s) in Hi.
      destruct (q_append QS r' (length (handles s)) p Q1) as [_ Pa].
      eapply Permutation_in in Hi; [|exact Pa]. destruct Hi as [<-|Hi]; auto.
      right. eapply Permutation_in; [symmetry; exact P|]. right. exact Hi. }
  intros h t' Hi Ht'. rewrite Td. destruct (Sub h Hi) as [->|Hi'].
  - unfold task_of_handle in Ht'. rewrite G in Ht'. inversion Ht'; subst t'. rewrite <- Td. exact Hd.
  - apply (N h t' Hi'). unfold task_of_handle in *.
    assert (Hlt : h < length (handles s)) by (apply (i_rwf (i_wf I)); exact Hi').
    rewrite <- Ht'. unfold geth. rewrite Hh, app_nth1 by exact Hlt. reflexivity.
Qed.

(* the same for `await task_interrupt(...)` (throw + task_switch), whatever its outcome *)
Theorem interrupt_keeps_ndh c s t t' e s' r :
  InvC c s -> NDH s -> lib_call t (OTaskInterrupt t' e) s = (s', r) -> NDH s' /\ errors s' = errors s.
Proof.
  intros I N L. rewrite interrupt_call_eq in L. unfold task_interrupt_start in L.
  destruct (task_throw s t' e) as [s1 r1] eqn:E.
  destruct (throw_keeps_ndh c s t' e s1 r1 I N E) as [N1 E1].
  destruct r1 as [v|x]; [|inversion L; subst; auto].
  destruct (reinsert_after_throw qok QS c s t' e s1 v I E) as (r' & _ & Q1 & P & _ & R).
  rewrite R in L. inversion L; subst s' r; clear L. split; [|exact E1].
  destruct (q_insert QS r' 0 (length (handles s)) Q1) as [_ Pi].
  intros h t0 Hi Ht0. apply (N1 h t0); [|exact Ht0].
  change (In h (rq_items (rq_insert_pos r' 0 (length (handles s))))) in Hi.
  eapply Permutation_in; [symmetry; exact P|]. eapply Permutation_in; [exact Pi|exact Hi].
Qed.

End LoopErrors.

(* the delivery itself: the target of an accepted interrupt is not done when it runs next, so
   that loop step adds no error *)
Theorem interrupt_delivery_no_error qok (QS : QSpec qok) (QN : QNext qok) c s t t' e s' :
  InvC qok c s -> lib_call t (OTaskInterrupt t' e) s = (s', LSusp YNone [InSleep0]) ->
  errors s' = errors s /\ errors (run_one s') = errors s.
Proof.
  intros I L.
  destruct (interrupt_next qok QS QN c s t t' e s' I L)
    as (s1 & v & r' & r'' & E & Es' & _ & _ & _ & _ & _ & _ & _ & _ & R & Hd & _).
  pose proof (throw_effect qok QS c s t' e s1 v I E) as TE. cbv zeta in TE.
  assert (He : errors s' = errors s).
  { rewrite Es'. change (errors (s1 <| ready := rq_insert_pos r' 0 (length (handles s)) |>)) with (errors s1).
    apply TE. }
  split; [exact He|]. rewrite R, step_task_errors.
  change (tdone (s' <| ready := r'' |>) t') with (tdone s' t'). rewrite Hd. exact He.
Qed.

(* Inv09 alone does NOT exclude the InvalidStateError: the model lets code outside asyncio's API
   complete a task's own future while its first step is still queued (witness of notes/C09.md) *)
Example inv09_not_enough :
  let acts := [ASpawn SPlain (Ret 0); ADo (OSetResult 0 1)] in
  let s := fold_left do_action acts (init_st false 0 [] [] [] 0) in
  Inv09 qok_list s /\ ~ NDH s /\ errors (run_one s) = [LEInvalidState].
Proof.
  cbv zeta. split; [|split].
  - apply (Inv09_run qok_list QSpec_list); [apply (Inv09_init qok_list); exact Logic.I|].
    simpl. repeat split; auto.
  - intros N. specialize (N 0 0). vm_compute in N. specialize (N (or_introl eq_refl) eq_refl). discriminate.
  - vm_compute. reflexivity.
Qed.

(* ------------------------------------------------------------ exactly once, until the target's step *)
(* between an accepted throw and the target's next step - over EVERY sequence of actions none of
   which steps the target (steps of other tasks, loop callbacks, timers, clock, spawns, outside
   calls: completions of the future it used to wait on, cancel(), further throws ...) - the target
   keeps no waiter, is not blocked, keeps its continuation (the suspension point at which the
   exception will be raised), and, as long as its own future is not completed behind its back, has
   exactly one handle in the ready queue and no wake-up callback on any pending future.  The
   statement holds for every prefix, i.e. at every moment *)
Theorem delivered_once_until_stepped qok (QS : QSpec qok) s t e s1 v acts :
  Inv09 qok s -> task_throw s t e = (s1, RVal v) -> actions_ok s1 acts -> not_stepped t s1 acts ->
  let s' := fold_left do_action acts s1 in
  Inv09 qok s' /\ t < length (tasks s') /\
  twaiter (gett s' t) = None /\ bo s' t = None /\
  tcont_ (gett s' t) = tcont_ (gett s t) /\ tkind_ (gett s' t) = KPy /\
  tfut (gett s' t) = tfut (gett s t) /\
  (tdone s' t = false -> hcnt s' t = 1 /\ forall g, fdone s' g = false -> ccnt s' t g = 0).
Proof.
  intros J E Ha Ns s'.
  destruct (delivered_once qok QS s t e s1 v acts J E Ha) as (J1 & _ & _ & J' & Ht' & H').
  fold s' in J', Ht', H'.
  destruct J as [I Hc].
  pose proof (throw_effect qok QS None s t e s1 v I E) as TE. cbv zeta in TE.
  destruct TE as (_ & _ & _ & _ & _ & Hw1 & _ & _ & _ & _ & _ & _ & _ & Hgt & _).
  assert (Hk : tkind_ (gett s t) = KPy).
  { destruct (task_throw_cases s t e s1 (RVal v) E) as [[_ (k & Hk)]|(_ & _ & Hk & _)]; [discriminate|exact Hk]. }
  assert (Ht1 : t < length (tasks s1)).
  { pose proof (kpy_in_range s t Hk).
    destruct (K_task_throw qok QS None s s t e s1 _ E (K_refl qok None s I)) as [_ X]. pose proof (e_tlen X). lia. }
  destruct (Tf_actions t acts s1 Ns) as [_ T]. fold s' in T.
  destruct (T Ht1) as (T1 & T2 & T3 & T4).
  assert (Hw' : twaiter (gett s' t) = None) by (destruct T4 as [T4|T4]; congruence).
  split; [exact J'|]. split; [exact Ht'|]. split; [exact Hw'|].
  split; [unfold bo; rewrite Hw'; reflexivity|].
  split; [rewrite T3, Hgt; reflexivity|]. split; [rewrite T1, Hgt; exact Hk|].
  split; [rewrite T2, Hgt; reflexivity|].
  intros Hd. apply H'; [exact Hd|]. unfold bo. rewrite Hw'. reflexivity.
Qed.
