(* C13, second round: the link between a queued PriorityLock waiter and its task
   (converse half of I2), the link between a task's _fut_waiter and its top frame,
   and with the C09 partition invariant: the ready-queue half of "no lost wake-up"
   (I3/I4), quiescent cleanliness, and FIFO progress on the list loop. *)
From Coq Require Import QArith Sorting.Permutation.
From RecordUpdate Require Import RecordUpdate.
From Asynkit Require Import Base.Prelude Queue.PQ Queue.Order Queue.PosPQ Queue.Exec Sched.Model
  Sched.Tables Sched.QFacts Sched.LockInv Sched.Footprint Sched.LockOps Sched.LockLib
  Sched.LockProofs Sched.LockStatic.
Import RecordSetNotations.
Open Scope nat_scope.

(* ================================================================ 1. what is yielded *)
(* a suspension that yields future f has `await f` (Future.__await__) as its top frame *)
Definition yshape (y : yielded) (frs : list frame) : Prop :=
  match y with YFut f => exists rest, frs = InFut f :: rest | YNone => True end.
Definition rshape (r : lres) : Prop :=
  match r with LSusp y frs => yshape y frs | LDone _ => True end.

Lemma yshape_app y frs rest : yshape y frs -> yshape y (frs ++ rest).
Proof. destruct y; simpl; auto. intros (r & ->). eexists. reflexivity. Qed.

Lemma acquire_start_shape s t l : rshape (snd (acquire_start s t l)).
Proof.
  unfold acquire_start. destruct (lkind_ (getl s l)).
  - unfold acquire_p_start. destruct (_ && _)%bool.
    + destruct (take_lock s l t); exact I.
    + change (new_future s None) with (fst (new_future s None), length (futs s)). cbv beta iota.
      destruct (_ && _)%bool; cbn [snd]; [exact I|]. eexists. reflexivity.
  - unfold acquire_a_start. destruct (_ && _)%bool; cbn [snd]; [exact I|].
    eexists. reflexivity.
Qed.

Lemma reacquire_shape s t c pc err body : rshape (snd (reacquire s t c pc err body)).
Proof.
  unfold reacquire. pose proof (acquire_start_shape s t (clock (getc s c))) as H.
  destruct (acquire_start s t (clock (getc s c))) as [s1 r]. cbn [snd] in H.
  destruct r as [[v|e]|y frs]; cbn [snd]; auto. now apply yshape_app.
Qed.

Lemma task_interrupt_start_shape s t e : rshape (snd (task_interrupt_start s t e)).
Proof.
  unfold task_interrupt_start. destruct (task_throw s t e) as [s1 r]. destruct r; [|exact I].
  destruct (task_reinsert s1 t 0) as [s2 r2]. destruct r2; exact I.
Qed.

Lemma interruptor_shape fuel : forall s b i, rshape (snd (interruptor fuel s b i)).
Proof.
  induction fuel as [|fuel IH]; intros s b i; cbn [interruptor]; [exact I|].
  destruct (Nat.leb 3 i); [exact I|].
  destruct (negb (bactive (getb s b))); [apply IH|].
  pose proof (task_interrupt_start_shape s (btask (getb s b)) (ETimeoutInt b)) as H.
  destruct (task_interrupt_start s (btask (getb s b)) (ETimeoutInt b)) as [s1 r]. cbn [snd] in H.
  destruct r as [[v|e]|y frs]; cbn [snd]; auto.
  - destruct e; try exact I. destruct (Nat.eqb i 2); exact I.
  - now apply yshape_app.
Qed.

Lemma interruptor_wrap_shape s r : rshape r -> rshape (snd (interruptor_wrap s r)).
Proof.
  unfold interruptor_wrap. destruct r as [[v|e]|y frs]; cbn; auto.
  destruct (is_exception e); cbn; auto.
Qed.

Lemma await_fut_shape s f : rshape (snd (await_fut s f [])).
Proof.
  unfold await_fut. destruct (fdone s f).
  - destruct (fut_result s f). exact I.
  - cbn. eexists. reflexivity.
Qed.

Theorem lib_call_shape t op s : rshape (snd (lib_call t op s)).
Proof.
  destruct op; cbn [lib_call]; try exact I.
  - (* OSleep *)
    change (new_future s None) with (fst (new_future s None), length (futs s)). cbv beta iota.
    destruct (call_at _ _ _) as [s2 h]. cbn. eexists. reflexivity.
  - apply await_fut_shape.
  - apply await_fut_shape.
  - destruct (fut_finish s f (FResult v)). exact I.
  - destruct (fut_finish s f (FExc e)). exact I.
  - destruct (fut_finish s f FCancelled). exact I.
  - destruct (cancel_task s t0). exact I.
  - destruct (evalue (gete s e)); [exact I|]. cbn. eexists. reflexivity.
  - destruct (evalue (gete s e)); exact I.
  - apply acquire_start_shape.
  - destruct (release s t l). exact I.
  - (* OCondWait *)
    destruct (negb (cond_locked s c)); [exact I|]. destruct (ckind_ (getc s c)).
    + change (new_future s None) with (fst (new_future s None), length (futs s)). cbv beta iota.
      destruct (release _ t _) as [s2 rr]. destruct rr as [v|e].
      * cbn. eexists. reflexivity.
      * destruct (cond_p_after s2 c (RExc e)). exact I.
    + destruct (release s t _) as [s1 rr]. destruct rr as [v|e]; [|exact I].
      cbn. eexists. reflexivity.
  - destruct (negb (cond_locked s c)); exact I.
  - destruct (negb (cond_locked s c)); exact I.
  - destruct (task_reinsert s t0 0) as [s1 r]. destruct r; [|exact I]. destruct p; exact I.
  - destruct (task_reinsert s t0 p). exact I.
  - destruct (task_throw s t0 e). exact I.
  - apply task_interrupt_start_shape.
  - destruct d; exact I.
  - pose proof (interruptor_shape 4 s b 0) as H. destruct (interruptor 4 s b 0) as [s1 r].
    now apply interruptor_wrap_shape.
  - destruct (is_prio_task s t); exact I.
  - destruct (cancel_awaitable s f). exact I.
Qed.

Theorem frame_resume_shape t fr inp s : rshape (snd (frame_resume t fr inp s)).
Proof.
  destruct fr; cbn [frame_resume]; try exact I.
  - destruct inp; [|exact I]. destruct (fdone s f); [|exact I]. destruct (fut_result s f). exact I.
  - destruct (acquire_p_finish s t l f had inp). exact I.
  - destruct (acquire_a_finish s l f inp). exact I.
  - match goal with |- context [reacquire ?S t c true None ?b] =>
      pose proof (reacquire_shape S t c true None b) as H; destruct (reacquire S t c true None b) as [s2 r] end.
    cbn [snd] in H. destruct r as [rep|y frs]; [|exact H]. destruct (cond_p_after s2 c rep). exact I.
  - destruct inp as [v|e].
    + destruct (cond_p_after s c _). exact I.
    + destruct (is_cancel e).
      * pose proof (reacquire_shape s t c true (Some e) body) as H.
        destruct (reacquire s t c true (Some e) body) as [s2 r]. cbn [snd] in H.
        destruct r as [rep|y frs]; [|exact H]. destruct (cond_p_after s2 c rep). exact I.
      * destruct (cond_p_after s c (RExc e)). exact I.
  - apply reacquire_shape.
  - destruct inp; [exact I|]. destruct (is_cancel e); [apply reacquire_shape|exact I].
  - destruct inp as [v|e].
    + pose proof (interruptor_shape 4 s b (S i)) as H. destruct (interruptor 4 s b (S i)) as [s1 r].
      now apply interruptor_wrap_shape.
    + destruct (_ && _)%bool; apply interruptor_wrap_shape; exact I.
Qed.

Theorem resume_stack_shape frs : forall t inp s, rshape (snd (resume_stack t frs inp s)).
Proof.
  induction frs as [|fr rest IH]; intros t inp s; cbn [resume_stack]; [exact I|].
  pose proof (frame_resume_shape t fr inp s) as H. destruct (frame_resume t fr inp s) as [s1 r].
  cbn [snd] in H. destruct r as [rep|y frs1]; [apply IH|]. cbn. now apply yshape_app.
Qed.

Theorem exec_shape c : forall t s y frs k, snd (exec t c s) = OYield y frs k -> yshape y frs.
Proof.
  induction c as [v|e|op k IHk|how child IHc k IHk]; intros t s y frs k0; cbn [exec]; try discriminate.
  - pose proof (lib_call_shape t op s) as H. destruct (lib_call t op s) as [s1 r]. cbn [snd] in H.
    destruct r as [rep|y1 frs1]; [apply IHk|]. cbn [snd]. intros E. inversion E; subst. exact H.
  - destruct how.
    + destruct (spawn_task s SPlain child) as [s1 t']. apply IHk.
    + destruct (spawn_task s SPy child) as [s1 t']. apply IHk.
    + destruct (spawn_task s (SPrio p) child) as [s1 t']. apply IHk.
    + destruct (spawn_task s SDescend child) as [s1 t'].
      pose proof (lib_call_shape t (OTaskSwitch t' (Some 1)) s1) as H.
      destruct (lib_call t (OTaskSwitch t' (Some 1)) s1) as [s2 r]. cbn [snd] in H.
      destruct r as [[v|e]|y1 frs1]; [apply IHk|apply IHk|].
      cbn [snd]. intros E. inversion E; subst. exact H.
    + destruct (spawn_task s SStart child) as [s1 t']. cbn [snd]. intros E. inversion E; subst. exact I.
    + destruct (exec t child s) as [s1 o]. destruct o as [r|y1 frs1 kc].
      * destruct (new_future s1 None) as [s2 f]. apply IHk.
      * cbv zeta. destruct (new_future _ _) as [s2 f]. apply IHk.
Qed.

(* ================================================================ 2. what a primitive keeps *)
(* [keep s s']: the step leaves every PriorityLock waiter queue alone, only clears
   _fut_waiter fields, and does not shrink the future table *)
Definition lproj (s : st) : list (pq Q) := map lpq (locks s).
Definition wle (s s' : st) : Prop :=
  forall t, twaiter (gett s' t) = twaiter (gett s t) \/ twaiter (gett s' t) = None.
Record keep (s s' : st) : Prop := mkKeep {
  k_l : lproj s' = lproj s;
  k_w : wle s s';
  k_f : length (futs s) <= length (futs s') }.

Lemma wle_refl s : wle s s.
Proof. intros t. now left. Qed.
Lemma wle_trans s1 s2 s3 : wle s1 s2 -> wle s2 s3 -> wle s1 s3.
Proof.
  intros A B t. destruct (B t) as [E|E]; [|now right]. rewrite E. apply A.
Qed.
Lemma keep_refl s : keep s s.
Proof. constructor; auto. apply wle_refl. Qed.
Lemma keep_trans s1 s2 s3 : keep s1 s2 -> keep s2 s3 -> keep s1 s3.
Proof.
  intros [A1 A2 A3] [B1 B2 B3]. constructor; [congruence|eapply wle_trans; eauto|lia].
Qed.

Lemma keep_same s s' :
  locks s' = locks s -> tasks s' = tasks s -> length (futs s) <= length (futs s') -> keep s s'.
Proof.
  intros El Et Hf. constructor; auto.
  - unfold lproj. now rewrite El.
  - intros t. left. unfold gett. now rewrite Et.
Qed.
Lemma keep_step s s1 s2 :
  keep s s1 -> locks s2 = locks s1 -> tasks s2 = tasks s1 -> length (futs s1) <= length (futs s2) ->
  keep s s2.
Proof. intros K El Et Hf. eapply keep_trans; [exact K|now apply keep_same]. Qed.

Lemma keep_sett s t x :
  twaiter x = twaiter (gett s t) \/ twaiter x = None -> keep s (sett s t x).
Proof.
  intros H. constructor; [reflexivity| |cbn; lia].
  intros t0. rewrite gett_sett.
  destruct (Nat.eqb t t0 && Nat.ltb t (length (tasks s)))%bool eqn:E; [|now left].
  apply andb_prop in E as [E _]. apply Nat.eqb_eq in E. subst t0. exact H.
Qed.
Lemma keep_setl s l x : lpq x = lpq (getl s l) -> keep s (setl s l x).
Proof.
  intros H. constructor; [|intros t; now left|cbn; lia].
  unfold lproj, setl. cbn. apply map_set_nth_same with (d := dlock). exact H.
Qed.
Lemma keep_setf s f x : keep s (setf s f x).
Proof. apply keep_same; try reflexivity. unfold setf. cbn. rewrite set_nth_length. lia. Qed.

Lemma lproj_getl s s' l : lproj s' = lproj s -> lpq (getl s' l) = lpq (getl s l).
Proof.
  intros E. unfold getl. change (lpq (nth l (locks s') dlock)) with (lpq (nth l (locks s') dlock)).
  rewrite <- !(map_nth lpq). fold (lproj s'). fold (lproj s). now rewrite E.
Qed.
Lemma lproj_objs s s' l : lproj s' = lproj s -> objs s' l = objs s l.
Proof. intros E. unfold objs. now rewrite (lproj_getl s s' l E). Qed.
Lemma keep_objs s s' l : keep s s' -> objs s' l = objs s l.
Proof. intros K. apply lproj_objs. apply K. Qed.

Ltac kq :=
  try apply keep_refl;
  try (apply keep_same; [reflexivity|reflexivity|cbn; lia]);
  try (apply keep_sett; left; reflexivity);
  try (apply keep_setl; reflexivity);
  try apply keep_setf.

Lemma fold_soon_futs f cbs : forall s1,
  futs (fold_left (fun s c => call_soon_ s (cb_callback f c)) cbs s1) = futs s1.
Proof. intros s1. apply (fold_soon_proj f cbs s1). Qed.

Lemma keep_fut_finish s f x : keep s (fst (fut_finish s f x)).
Proof.
  destruct (fut_finish_proj s f x) as (A & B & C). apply keep_same; auto. lia.
Qed.

Lemma keep_task_cancel fuel : forall s t, keep s (fst (task_cancel fuel s t)).
Proof.
  induction fuel as [|fuel IH]; intros s t; cbn [task_cancel].
  - destruct (tdone s t); kq. destruct (twaiter (gett s t)) as [f|]; kq.
    destruct (fowner (getf s f)); kq.
    pose proof (keep_fut_finish s f FCancelled) as E. destruct (fut_finish s f FCancelled) as [s' ok].
    destruct ok; kq. exact E.
  - destruct (tdone s t); kq. destruct (twaiter (gett s t)) as [f|]; kq.
    destruct (fowner (getf s f)) as [t'|].
    + pose proof (IH s t') as E. destruct (task_cancel fuel s t') as [s' ok]. cbn [fst] in *.
      destruct ok; [exact E|]. cbn [fst]. eapply keep_trans; [exact E|kq].
    + pose proof (keep_fut_finish s f FCancelled) as E. destruct (fut_finish s f FCancelled) as [s' ok].
      destruct ok; kq. exact E.
Qed.

Lemma keep_cancel_awaitable s f : keep s (fst (cancel_awaitable s f)).
Proof.
  unfold cancel_awaitable. destruct (fowner (getf s f)); [apply keep_task_cancel|apply keep_fut_finish].
Qed.

Lemma keep_wake_p s l : keep s (wake_up_first_p s l).
Proof.
  unfold wake_up_first_p. destruct (arr (lpq (getl s l))); kq.
  match goal with |- context [if ?b then _ else _] => destruct b end; kq.
  match goal with |- context [if ?b then _ else _] => destruct b end; kq.
  apply keep_fut_finish.
Qed.

Lemma keep_wake_a s l : keep s (wake_up_first_a s l).
Proof.
  unfold wake_up_first_a. destruct (ldq (getl s l)); kq. destruct (fdone s n); kq. apply keep_fut_finish.
Qed.

Lemma keep_take_lock s l t s' : take_lock s l t = inl s' -> keep s s'.
Proof.
  unfold take_lock. destruct (lowner (getl s l)); [discriminate|]. intros H. inversion H; subst. clear H.
  destruct (is_prio_task _ t).
  - eapply keep_trans; [|apply keep_sett; left; reflexivity]. apply keep_setl; reflexivity.
  - kq.
Qed.

Lemma keep_release_p s t l : keep s (fst (release_p s t l)).
Proof.
  unfold release_p. destruct (negb (llocked (getl s l))); kq. destruct (lowner (getl s l)); kq.
  destruct (negb (Nat.eqb n t)); kq. cbn [fst].
  eapply keep_trans; [|apply keep_wake_p].
  set (s1 := setl s l (getl s l <| lowner := None |>)).
  assert (K1 : keep s s1) by (unfold s1; kq).
  set (s2 := if is_prio_task s1 t then _ else s1).
  assert (K2 : keep s1 s2) by (unfold s2; destruct (is_prio_task s1 t); kq).
  eapply keep_trans; [exact K1|]. eapply keep_trans; [exact K2|]. kq.
Qed.

Lemma keep_release s t l : keep s (fst (release s t l)).
Proof.
  unfold release. destruct (lkind_ (getl s l)); [apply keep_release_p|].
  unfold release_a. destruct (llocked (getl s l)); kq. cbn [fst].
  eapply keep_trans; [|apply keep_wake_a]. kq.
Qed.

Lemma keep_call_soon s c : keep s (call_soon_ s c).
Proof. kq. Qed.

Lemma keep_task_throw s t e : keep s (fst (task_throw s t e)).
Proof.
  assert (Go : forall s0, keep s0 (call_soon_ (sett s0 t (gett s0 t <| twaiter := None |>)) (HStep t (Some e)))).
  { intros s0. apply keep_step with (s1 := sett s0 t (gett s0 t <| twaiter := None |>));
      [apply keep_sett; right; reflexivity|reflexivity|reflexivity|cbn; lia]. }
  unfold task_throw. destruct (tdone s t); kq. destruct (tkind_ (gett s t)); kq.
  destruct (twaiter (gett s t)) as [f|].
  - destruct (negb (fdone s f)); cbn [fst].
    + eapply keep_trans; [|apply Go]. unfold remove_done_callback. kq.
    + destruct (_ || _)%bool; kq. destruct (rq_find _ _ _) as [[h r]|]; kq. cbn [fst].
      eapply keep_trans; [|apply Go]. kq.
  - destruct (tmustc (gett s t)); kq. destruct (rq_find _ _ _) as [[h r]|]; kq. cbn [fst].
    eapply keep_trans; [|apply Go]. kq.
Qed.

Lemma keep_task_reinsert s t p : keep s (fst (task_reinsert s t p)).
Proof. unfold task_reinsert. destruct (rq_find _ _ _) as [[h r]|]; kq. Qed.

Lemma keep_task_interrupt_start s t e : keep s (fst (task_interrupt_start s t e)).
Proof.
  unfold task_interrupt_start. pose proof (keep_task_throw s t e) as E1.
  destruct (task_throw s t e) as [s1 r]. cbn [fst] in E1. destruct r; [|exact E1].
  pose proof (keep_task_reinsert s1 t 0) as E2. destruct (task_reinsert s1 t 0) as [s2 r2].
  cbn [fst] in E2. destruct r2; cbn [fst]; eapply keep_trans; eauto.
Qed.

Lemma keep_interruptor fuel : forall s b i, keep s (fst (interruptor fuel s b i)).
Proof.
  induction fuel as [|fuel IH]; intros s b i; cbn [interruptor]; kq.
  destruct (Nat.leb 3 i); kq. destruct (negb (bactive (getb s b))); [apply IH|].
  pose proof (keep_task_interrupt_start s (btask (getb s b)) (ETimeoutInt b)) as E.
  destruct (task_interrupt_start s (btask (getb s b)) (ETimeoutInt b)) as [s1 r]. cbn [fst] in E.
  destruct r as [[v|e]|y frs]; cbn [fst]; auto.
  - eapply keep_trans; [exact E|apply IH].
  - destruct e; auto. destruct (Nat.eqb i 2); exact E.
Qed.

Lemma keep_event_fold lst : forall s,
  keep s (fold_left (fun s f => if fdone s f then s else fst (fut_finish s f (FResult 1))) lst s).
Proof.
  induction lst as [|f lst IH]; intros s; simpl; kq. eapply keep_trans; [|apply IH].
  destruct (fdone s f); [kq|apply keep_fut_finish].
Qed.

Lemma keep_notify_i s c n : keep s (notify_i s c n).
Proof.
  unfold notify_i.
  assert (H : forall lst s0 cnt,
    keep s0 (fst (fold_left (fun '(s, cnt) f =>
                    if Nat.leb n cnt then (s, cnt)
                    else if fdone s f then (s, cnt)
                    else (fst (fut_finish s f (FResult 0)), S cnt)) lst (s0, cnt)))).
  { induction lst as [|f lst IH]; intros s0 cnt; simpl; kq.
    destruct (Nat.leb n cnt); [apply IH|]. destruct (fdone s0 f); [apply IH|].
    eapply keep_trans; [apply keep_fut_finish|apply IH]. }
  apply H.
Qed.

Lemma keep_notify_p s c n : keep s (notify_p s c n).
Proof.
  unfold notify_p.
  assert (H : forall lst s0 a b,
    keep s0 (fst (fst (fold_left (fun '(s, taken, cnt) f =>
                 if Nat.leb n cnt then (s, taken, cnt)
                 else if fdone s f then (s, S taken, cnt)
                 else (fst (fut_finish s f (FResult 1)), S taken, S cnt)) lst (s0, a, b))))).
  { induction lst as [|f lst IH]; intros s0 a b; simpl; kq.
    destruct (Nat.leb n b); [apply IH|]. destruct (fdone s0 f); [apply IH|].
    eapply keep_trans; [apply keep_fut_finish|apply IH]. }
  match goal with |- context [fold_left ?F ?L ?A] => specialize (H L s 0 0); destruct (fold_left F L A) as [[s1 tk] cnt] end.
  cbn [fst] in H. eapply keep_trans; [exact H|]. kq.
Qed.

Lemma keep_cond_p_after s c r : keep s (fst (cond_p_after s c r)).
Proof. unfold cond_p_after. destruct r; kq. apply keep_notify_p. Qed.

Lemma keep_fut_result s f : keep s (fst (fut_result s f)).
Proof. unfold fut_result. destruct (fstate_ (getf s f)); kq. destruct (fcexc (getf s f)); kq. Qed.

Lemma keep_await_fut s f outer : keep s (fst (await_fut s f outer)).
Proof.
  unfold await_fut. destruct (fdone s f); kq.
  pose proof (keep_fut_result s f) as E. destruct (fut_result s f). exact E.
Qed.

Lemma keep_call_pos s p c : keep s (call_pos s p c).
Proof.
  unfold call_pos. destruct (call_soon s c) as [s1 h] eqn:E.
  unfold call_soon in E. inversion E; subst. destruct (rq_remove _ _); kq.
Qed.

Lemma keep_new_future s o : keep s (fst (new_future s o)).
Proof. apply keep_same; try reflexivity. cbn. rewrite app_length. lia. Qed.

Lemma keep_acquire_a_start s l : keep s (fst (acquire_a_start s l)).
Proof.
  unfold acquire_a_start. destruct (_ && _)%bool; kq.
  change (new_future s None) with (fst (new_future s None), length (futs s)). cbv beta iota. cbn [fst].
  eapply keep_trans; [apply keep_new_future|]. eapply keep_trans; [|apply keep_setf]. kq.
Qed.

(* ================================================================ 3. the waiter queues *)
Definition lfr (r : lres) : list frame := match r with LSusp _ frs => frs | LDone _ => [] end.

(* the part of the C13 invariant that only looks at the waiter queues and the size of
   the future table *)
Record QF (s : st) : Prop := mkQF {
  q_wf : forall l, qwf (lpq (getl s l));
  q_bd : forall l f, In f (objs s l) -> f < length (futs s);
  q_d1 : forall l l' f, In f (objs s l) -> In f (objs s l') -> l = l' }.

Lemma QF_of_Inv s : Inv s -> QF s.
Proof.
  intros I. constructor.
  - apply (iB1 I).
  - intros l f H. apply (iD0 I). now exists l.
  - apply (iD1 I).
Qed.

Lemma QF_keep s s' : keep s s' -> QF s -> QF s'.
Proof.
  intros K [A B C]. constructor.
  - intros l. rewrite (lproj_getl s s' l (k_l _ _ K)). apply A.
  - intros l f. rewrite (keep_objs s s' l K). intros H. pose proof (B l f H). pose proof (k_f _ _ K). lia.
  - intros l l' f. rewrite !(keep_objs s s' _ K). apply C.
Qed.

(* every future queued after the step was queued before, or belongs to an acquire frame
   among the frames [P] the step returns *)
Definition osup (P : list frame) (s s' : st) : Prop :=
  forall l f, In f (objs s' l) -> In f (objs s l) \/ exists had, In (InAcquireP l f had) P.
Record srel (P : list frame) (s s' : st) : Prop := mkSrel {
  sr_w : wle s s';
  sr_f : length (futs s) <= length (futs s');
  sr_o : osup P s s' }.

Lemma keep_srel P s s' : keep s s' -> srel P s s'.
Proof.
  intros K. constructor; [apply K|apply K|]. intros l f H. left. now rewrite <- (keep_objs s s' l K).
Qed.
Lemma srel_keep_l P s1 s2 s3 : keep s1 s2 -> srel P s2 s3 -> srel P s1 s3.
Proof.
  intros K [A B C]. constructor.
  - eapply wle_trans; [apply K|exact A].
  - pose proof (k_f _ _ K). lia.
  - intros l f H. destruct (C l f H) as [H1|H1]; [left|now right]. now rewrite <- (keep_objs s1 s2 l K).
Qed.
Lemma srel_keep_r P s1 s2 s3 : srel P s1 s2 -> keep s2 s3 -> srel P s1 s3.
Proof.
  intros [A B C] K. constructor.
  - eapply wle_trans; [exact A|apply K].
  - pose proof (k_f _ _ K). lia.
  - intros l f H. rewrite (keep_objs s2 s3 l K) in H. apply C. exact H.
Qed.
Lemma srel_weaken P P' s s' : (forall fr, In fr P -> In fr P') -> srel P s s' -> srel P' s s'.
Proof.
  intros Hi [A B C]. constructor; auto. intros l f H. destruct (C l f H) as [H1|[had H1]]; [now left|].
  right. exists had. auto.
Qed.

Lemma objs_setl s l x l0 :
  objs (setl s l x) l0 =
  if (Nat.eqb l l0 && Nat.ltb l (length (locks s)))%bool then pq_objs (lpq x) else objs s l0.
Proof.
  unfold objs. rewrite getl_setl. destruct (Nat.eqb l l0 && Nat.ltb l (length (locks s)))%bool; reflexivity.
Qed.

Lemma QF_setl_perm s l lk' :
  QF s -> qwf (lpq lk') -> Permutation (pq_objs (lpq lk')) (objs s l) ->
  QF (setl s l lk') /\ (forall l0 f, In f (objs (setl s l lk') l0) <-> In f (objs s l0)).
Proof.
  intros [A B C] Hq Hp.
  assert (Ho : forall l0 f, In f (objs (setl s l lk') l0) <-> In f (objs s l0)).
  { intros l0 f. rewrite objs_setl.
    destruct (Nat.eqb l l0 && Nat.ltb l (length (locks s)))%bool eqn:E; [|tauto].
    apply andb_prop in E as [E _]. apply Nat.eqb_eq in E. subst l0. split; intros H.
    - eapply Permutation_in; eauto.
    - eapply Permutation_in; [apply Permutation_sym|]; eauto. }
  split; [|exact Ho]. constructor.
  - intros l0. rewrite getl_setl.
    destruct (Nat.eqb l l0 && Nat.ltb l (length (locks s)))%bool; auto.
  - intros l0 f H. apply Ho in H. apply (B l0 f H).
  - intros l0 l1 f H0 H1. apply Ho in H0, H1. eapply C; eauto.
Qed.

Lemma prop_facts fuel : forall s t, QF s ->
  QF (propagate_task fuel s t) /\ tasks (propagate_task fuel s t) = tasks s /\
  futs (propagate_task fuel s t) = futs s /\
  (forall l f, In f (objs (propagate_task fuel s t) l) <-> In f (objs s l)).
Proof.
  assert (Triv : forall s s', QF s -> locks s' = locks s -> tasks s' = tasks s -> futs s' = futs s ->
            QF s' /\ tasks s' = tasks s /\ futs s' = futs s /\
            (forall l f, In f (objs s' l) <-> In f (objs s l))).
  { intros s s' Q El Et Ef.
    assert (K : keep s s') by (apply keep_same; auto; rewrite Ef; lia).
    split; [eapply QF_keep; eauto|]. split; auto. split; auto. intros l f.
    rewrite (keep_objs s s' l K). tauto. }
  induction fuel as [|fuel IH]; intros s t Q; cbn [propagate_task].
  - destruct (negb (is_prio_task s t)); [apply Triv; auto|].
    set (s0 := if task_is_runnable s t then task_reschedule s t else s).
    assert (P0 : QF s0 /\ tasks s0 = tasks s /\ futs s0 = futs s /\
                 (forall l f, In f (objs s0 l) <-> In f (objs s l)))
      by (unfold s0; destruct (task_is_runnable s t); apply Triv; auto).
    clearbody s0. destruct P0 as (Q0 & Et0 & Ef0 & Ho0).
    match goal with |- QF ?R /\ _ =>
      cut (QF R /\ tasks R = tasks s0 /\ futs R = futs s0 /\
           (forall l f, In f (objs R l) <-> In f (objs s0 l))) end;
      [intros (A & B & C & D); split; [exact A|]; split; [congruence|]; split; [congruence|];
       intros l1 g; rewrite D; apply Ho0|].
    clear Ho0 Et0 Ef0 Q s. rename s0 into s, Q0 into Q.
    destruct (twaiting (gett s t)); apply Triv; auto.
  - destruct (negb (is_prio_task s t)); [apply Triv; auto|].
    set (s0 := if task_is_runnable s t then task_reschedule s t else s).
    assert (P0 : QF s0 /\ tasks s0 = tasks s /\ futs s0 = futs s /\
                 (forall l f, In f (objs s0 l) <-> In f (objs s l)))
      by (unfold s0; destruct (task_is_runnable s t); apply Triv; auto).
    clearbody s0. destruct P0 as (Q0 & Et0 & Ef0 & Ho0).
    match goal with |- QF ?R /\ _ =>
      cut (QF R /\ tasks R = tasks s0 /\ futs R = futs s0 /\
           (forall l f, In f (objs R l) <-> In f (objs s0 l))) end;
      [intros (A & B & C & D); split; [exact A|]; split; [congruence|]; split; [congruence|];
       intros l1 g; rewrite D; apply Ho0|].
    clear Ho0 Et0 Ef0 Q s. rename s0 into s, Q0 into Q.
    destruct (twaiting (gett s t)) as [l|]; [|apply Triv; auto].
    set (s1 := match lowner (getl s l) with Some o => propagate_task fuel s o | None => s end).
    assert (P1 : QF s1 /\ tasks s1 = tasks s /\ futs s1 = futs s /\
                 (forall l f, In f (objs s1 l) <-> In f (objs s l))).
    { unfold s1. destruct (lowner (getl s l)); [now apply IH|apply Triv; auto]. }
    destruct P1 as (Q1 & Et1 & Ef1 & Ho1).
    destruct (find _ (lwt (getl s1 l))) as [[f t0]|]; [|auto].
    destruct (pq_reschedule HQ (lpq (getl s1 l)) _ _) as [[o q']|] eqn:Er; [|auto].
    destruct (pq_resched_objs _ _ _ _ _ (q_wf _ Q1 l) Er) as [Hq Hp].
    assert (Hq' : qwf (lpq (getl s1 l <| lpq := q' |>))) by (cbn; exact Hq).
    assert (Hp' : Permutation (pq_objs (lpq (getl s1 l <| lpq := q' |>))) (objs s1 l)) by (cbn; exact Hp).
    destruct (QF_setl_perm s1 l (getl s1 l <| lpq := q' |>) Q1 Hq' Hp') as [Q2 Ho2].
    split; [exact Q2|]. split; [exact Et1|]. split; [exact Ef1|].
    intros l0 g. rewrite Ho2. apply Ho1.
Qed.

(* PriorityLock.acquire up to its `await fut` *)
Lemma acq_p_start_facts s t l :
  QF s -> QF (fst (acquire_p_start s t l)) /\
          srel (lfr (snd (acquire_p_start s t l))) s (fst (acquire_p_start s t l)).
Proof.
  intros Q. unfold acquire_p_start.
  destruct (negb (llocked (getl s l)) && _)%bool.
  - destruct (take_lock s l t) as [s'|e] eqn:E; cbn [fst snd lfr].
    + pose proof (keep_take_lock s l t s' E) as K. split; [eapply QF_keep; eauto|now apply keep_srel].
    + split; [exact Q|apply keep_srel, keep_refl].
  - set (f := length (futs s)). set (s1 := fst (new_future s None)).
    change (new_future s None) with (s1, f). cbv beta iota.
    assert (K1 : keep s s1) by apply keep_new_future.
    destruct (is_prio_task s t && _)%bool.
    { cbn [fst snd lfr]. split; [eapply QF_keep; eauto|now apply keep_srel]. }
    set (s2 := if is_prio_task s t then sett s1 t (gett s1 t <| twaiting := Some l |>) else s1).
    assert (K12 : keep s1 s2) by (unfold s2; destruct (is_prio_task s t); kq).
    pose proof (keep_trans _ _ _ K1 K12) as K2.
    pose proof (QF_keep _ _ K2 Q) as Q2.
    assert (Hf2 : length (futs s2) = S f).
    { unfold s2. destruct (is_prio_task s t); cbn; rewrite app_length; simpl; unfold f; lia. }
    set (p := if is_prio_task s t then effective_priority s t else 0%Q).
    set (lk3 := getl s2 l <| lpq := pq_add HQ (lpq (getl s2 l)) p (Z.of_nat f) |>
                           <| lwt := lwt (getl s2 l) ++ [(f, t)] |>).
    set (s3 := setl s2 l lk3).
    assert (Hfresh : forall l0, ~ In f (objs s2 l0)).
    { intros l0 H. rewrite (keep_objs s s2 l0 K2) in H. pose proof (q_bd _ Q l0 f H). unfold f in *. lia. }
    assert (Ho3 : forall l0 g, In g (objs s3 l0) -> (l0 = l /\ g = f) \/ In g (objs s2 l0)).
    { intros l0 g. unfold s3. rewrite objs_setl.
      destruct (Nat.eqb l l0 && Nat.ltb l (length (locks s2)))%bool eqn:E; [|auto].
      apply andb_prop in E as [E _]. apply Nat.eqb_eq in E. subst l0. cbn. intros H.
      apply pq_add_in in H. destruct H; auto. }
    assert (Q3 : QF s3).
    { constructor.
      - intros l0. unfold s3. rewrite getl_setl.
        destruct (Nat.eqb l l0 && Nat.ltb l (length (locks s2)))%bool; [|apply (q_wf _ Q2)].
        cbn. apply qwf_add; [apply (q_wf _ Q2)|apply (Hfresh l)].
      - intros l0 g H. change (futs s3) with (futs s2). rewrite Hf2.
        destruct (Ho3 l0 g H) as [[_ ->]|H2]; [lia|].
        rewrite (keep_objs s s2 l0 K2) in H2. pose proof (q_bd _ Q l0 g H2). unfold f. lia.
      - intros l0 l1 g H0 H1.
        destruct (Ho3 l0 g H0) as [[E0 Eg]|H0']; destruct (Ho3 l1 g H1) as [[E1 Eg1]|H1'].
        + congruence.
        + subst. exfalso. now apply (Hfresh l1).
        + subst. exfalso. now apply (Hfresh l0).
        + eapply (q_d1 _ Q2); eauto. }
    set (s4 := match lowner (getl s3 l) with Some o => propagate_priority s3 o | None => s3 end).
    assert (P4 : QF s4 /\ tasks s4 = tasks s3 /\ futs s4 = futs s3 /\
                 (forall l0 g, In g (objs s4 l0) <-> In g (objs s3 l0))).
    { unfold s4. destruct (lowner (getl s3 l)); [unfold propagate_priority; now apply prop_facts|].
      split; [exact Q3|]. split; [reflexivity|]. split; [reflexivity|]. intros; tauto. }
    destruct P4 as (Q4 & Et4 & Ef4 & Ho4).
    set (s5 := setf s4 f (getf s4 f <| fblock := true |>)).
    assert (K5 : keep s4 s5) by apply keep_setf.
    cbn [fst snd lfr]. split; [eapply QF_keep; eauto|].
    apply srel_keep_r with (s2 := s4); [|exact K5]. constructor.
    + intros t0. unfold gett. rewrite Et4. change (tasks s3) with (tasks s2). apply (k_w _ _ K2).
    + rewrite Ef4. change (futs s3) with (futs s2). rewrite Hf2. unfold f. lia.
    + intros l0 g H. apply Ho4 in H. destruct (Ho3 l0 g H) as [[-> ->]|H2].
      * right. exists (is_prio_task s t). right. now left.
      * left. now rewrite <- (keep_objs s s2 l0 K2).
Qed.

(* ... and after it *)
Lemma acq_p_finish_facts s t l f had inp :
  QF s -> In f (objs s l) ->
  QF (fst (acquire_p_finish s t l f had inp)) /\ wle s (fst (acquire_p_finish s t l f had inp)) /\
  length (futs s) <= length (futs (fst (acquire_p_finish s t l f had inp))) /\
  (forall l0 g, In g (objs (fst (acquire_p_finish s t l f had inp)) l0) -> In g (objs s l0) /\ g <> f).
Proof.
  intros Q Hf. unfold acquire_p_finish.
  set (p := match inp with
            | RVal _ => match take_lock s l t with inl s' => (s', RVal 1) | inr e => (s, RExc e) end
            | RExc e => (s, RExc e) end).
  assert (K0 : keep s (fst p)).
  { unfold p. destruct inp; kq. destruct (take_lock s l t) eqn:E; kq. eapply keep_take_lock; eauto. }
  destruct p as [s0 r]. cbn [fst] in K0.
  pose proof (QF_keep _ _ K0 Q) as Q0.
  assert (Hf0 : In f (objs s0 l)) by (now rewrite (keep_objs s s0 l K0)).
  pose proof (objs_inrange s0 l f Hf0) as Hl.
  destruct (pq_remove HQ (lpq (getl s0 l)) (Z.of_nat f)) as [[pr q']|] eqn:Er.
  2:{ exfalso. eapply pq_remove_none; eauto. apply (q_wf _ Q0). }
  destruct (qwf_remove _ _ _ _ (q_wf _ Q0 l) Er) as (Hq & Hp & Hnin).
  set (lk1 := getl s0 l <| lpq := q' |> <| lwt := _ |>).
  set (s1 := setl s0 l lk1).
  assert (Ho1 : forall l0 g, In g (objs s1 l0) -> In g (objs s0 l0) /\ g <> f).
  { intros l0 g. unfold s1. rewrite objs_setl.
    destruct (Nat.eqb l l0 && Nat.ltb l (length (locks s0)))%bool eqn:E.
    - apply andb_prop in E as [E _]. apply Nat.eqb_eq in E. subst l0. cbn. intros H. split.
      + eapply Permutation_in; [apply Permutation_sym; exact Hp|]. now right.
      + intros ->. contradiction.
    - intros H. split; auto. intros ->. pose proof (q_d1 _ Q0 _ _ _ Hf0 H) as E'. subst l0.
      rewrite Nat.eqb_refl in E. apply Nat.ltb_lt in Hl. rewrite Hl in E. discriminate. }
  assert (Q1 : QF s1).
  { constructor.
    - intros l0. unfold s1. rewrite getl_setl.
      destruct (Nat.eqb l l0 && Nat.ltb l (length (locks s0)))%bool; [exact Hq|apply (q_wf _ Q0)].
    - intros l0 g H. destruct (Ho1 l0 g H) as [H' _]. apply (q_bd _ Q0 l0 g H').
    - intros l0 l1 g H0 H1. destruct (Ho1 l0 g H0) as [H0' _]. destruct (Ho1 l1 g H1) as [H1' _].
      eapply (q_d1 _ Q0); eauto. }
  set (s2 := if llocked (getl s1 l)
             then match lowner (getl s1 l) with
                  | Some o => if Nat.eqb o t then s1 else propagate_priority s1 o
                  | None => s1 end
             else wake_up_first_p s1 l).
  assert (P2 : QF s2 /\ wle s1 s2 /\ length (futs s1) <= length (futs s2) /\
               (forall l0 g, In g (objs s2 l0) <-> In g (objs s1 l0))).
  { assert (FK : forall s', keep s1 s' -> QF s' /\ wle s1 s' /\ length (futs s1) <= length (futs s') /\
                   (forall l0 g, In g (objs s' l0) <-> In g (objs s1 l0))).
    { intros s' K. split; [eapply QF_keep; eauto|]. split; [apply K|]. split; [apply K|].
      intros l0 g. rewrite (keep_objs s1 s' l0 K). tauto. }
    unfold s2. destruct (llocked (getl s1 l)); [|apply FK, keep_wake_p].
    destruct (lowner (getl s1 l)) as [o|]; [|apply FK, keep_refl].
    destruct (Nat.eqb o t); [apply FK, keep_refl|].
    unfold propagate_priority.
    destruct (prop_facts (efuel s1) s1 o Q1) as (Q2 & Et2 & Ef2 & Ho2).
    split; [exact Q2|]. split; [intros t0; left; unfold gett; now rewrite Et2|].
    split; [rewrite Ef2; lia|exact Ho2]. }
  destruct P2 as (Q2 & W2 & F2 & Ho2).
  set (s3 := if had then sett s2 t (gett s2 t <| twaiting := None |>) else s2).
  assert (K3 : keep s2 s3) by (unfold s3; destruct had; kq).
  cbn [fst]. split; [eapply QF_keep; eauto|]. split; [|split].
  - eapply wle_trans; [apply K0|]. eapply wle_trans; [|apply K3].
    eapply wle_trans; [|exact W2]. intros t0. now left.
  - pose proof (k_f _ _ K0). pose proof (k_f _ _ K3). change (futs s1) with (futs s0) in *. lia.
  - intros l0 g H. rewrite (keep_objs s2 s3 l0 K3) in H. apply Ho2 in H. destruct (Ho1 l0 g H) as [H' Hn].
    split; auto. now rewrite <- (keep_objs s s0 l0 K0).
Qed.

(* ================================================================ 4. library calls and frames *)
Ltac ksame := apply keep_same; [reflexivity|reflexivity|cbn; rewrite ?set_nth_length, ?app_length; lia].

Theorem lib_call_keep t op s : needs_task op = false -> keep s (fst (lib_call t op s)).
Proof.
  destruct op; cbn [lib_call]; intros Hn; try discriminate; kq; try ksame.
  - apply keep_await_fut.
  - apply keep_await_fut.
  - pose proof (keep_fut_finish s f (FResult v)) as E. destruct (fut_finish s f (FResult v)). exact E.
  - pose proof (keep_fut_finish s f (FExc e)) as E. destruct (fut_finish s f (FExc e)). exact E.
  - pose proof (keep_fut_finish s f FCancelled) as E. destruct (fut_finish s f FCancelled). exact E.
  - pose proof (keep_task_cancel (length (tasks s)) s t0) as E. unfold cancel_task.
    destruct (task_cancel (length (tasks s)) s t0). exact E.
  - destruct (evalue (gete s e)); kq; try ksame.
  - destruct (evalue (gete s e)); kq. cbn [fst]. eapply keep_trans; [|apply keep_event_fold]. kq.
  - pose proof (keep_release s t l) as E. destruct (release s t l). exact E.
  - (* OCondWait *)
    destruct (negb (cond_locked s c)); kq. destruct (ckind_ (getc s c)).
    + change (new_future s None) with (fst (new_future s None), length (futs s)). cbv beta iota.
      pose proof (keep_release (fst (new_future s None)) t (clock (getc s c))) as E.
      destruct (release (fst (new_future s None)) t (clock (getc s c))) as [s2 rr]. cbn [fst] in E.
      pose proof (keep_trans _ _ _ (keep_new_future s None) E) as E'.
      destruct rr as [v|e].
      * cbn [fst]. eapply keep_trans; [exact E'|]. eapply keep_trans; [|apply keep_setf]. kq.
      * pose proof (keep_cond_p_after s2 c (RExc e)) as E2. destruct (cond_p_after s2 c (RExc e)) as [s3 r3].
        cbn [fst] in *. eapply keep_trans; eauto.
    + pose proof (keep_release s t (clock (getc s c))) as E.
      destruct (release s t (clock (getc s c))) as [s1 rr]. cbn [fst] in E.
      destruct rr as [v|e]; [|exact E].
      change (new_future s1 None) with (fst (new_future s1 None), length (futs s1)). cbv beta iota. cbn [fst].
      eapply keep_trans; [exact E|]. eapply keep_trans; [apply (keep_new_future s1 None)|].
      eapply keep_trans; [|apply keep_setf]. kq.
  - destruct (negb (cond_locked s c)); kq. cbn [fst].
    destruct (ckind_ (getc s c)); [apply keep_notify_p|apply keep_notify_i].
  - destruct (negb (cond_locked s c)); kq. cbn [fst].
    destruct (ckind_ (getc s c)); [apply keep_notify_p|apply keep_notify_i].
  - cbn [fst]. apply keep_call_pos.
  - pose proof (keep_task_reinsert s t0 0) as E. destruct (task_reinsert s t0 0) as [s1 r]. cbn [fst] in E.
    destruct r; [|exact E]. destruct p; [|exact E]. cbn [fst].
    eapply keep_trans; [exact E|apply keep_call_pos].
  - pose proof (keep_task_reinsert s t0 p) as E. destruct (task_reinsert s t0 p). exact E.
  - cbn [fst]. apply keep_call_pos.
  - pose proof (keep_task_throw s t0 e) as E. destruct (task_throw s t0 e). exact E.
  - apply keep_task_interrupt_start.
  - destruct d; kq; try ksame.
  - pose proof (keep_interruptor 4 s b 0) as E. destruct (interruptor 4 s b 0) as [s1 r]. cbn [fst] in E.
    rewrite interruptor_wrap_fst. exact E.
  - destruct (is_prio_task s t); kq.
  - cbn [fst]. unfold queue_iterated. destruct (ready _); ksame.
  - pose proof (keep_cancel_awaitable s f) as E. destruct (cancel_awaitable s f). exact E.
Qed.

Lemma acquire_start_facts s t l :
  QF s -> QF (fst (acquire_start s t l)) /\
          srel (lfr (snd (acquire_start s t l))) s (fst (acquire_start s t l)).
Proof.
  intros Q. unfold acquire_start. destruct (lkind_ (getl s l)); [now apply acq_p_start_facts|].
  pose proof (keep_acquire_a_start s l) as K. split; [eapply QF_keep; eauto|now apply keep_srel].
Qed.

Lemma reacquire_facts s t c pc err body :
  QF s -> QF (fst (reacquire s t c pc err body)) /\
          srel (lfr (snd (reacquire s t c pc err body))) s (fst (reacquire s t c pc err body)).
Proof.
  intros Q. unfold reacquire. destruct (acquire_start_facts s t (clock (getc s c)) Q) as [Q1 R1].
  destruct (acquire_start s t (clock (getc s c))) as [s1 r]. cbn [fst snd] in *.
  destruct r as [[v|e]|y frs]; cbn [fst snd lfr] in *; split; auto.
  eapply srel_weaken; [|exact R1]. intros fr H. apply in_or_app. now left.
Qed.

Theorem lib_call_facts t op s :
  QF s -> QF (fst (lib_call t op s)) /\ srel (lfr (snd (lib_call t op s))) s (fst (lib_call t op s)).
Proof.
  intros Q. destruct (needs_task op) eqn:En.
  - destruct op; try discriminate. cbn [lib_call]. now apply acquire_start_facts.
  - pose proof (lib_call_keep t op s En) as K. split; [eapply QF_keep; eauto|now apply keep_srel].
Qed.

(* the acquire frame of an entry is only resumed through [frame_resume (InAcquireP ..)],
   treated in resume_stack; every other frame: *)
Theorem frame_resume_facts t fr inp s :
  is_acq fr = false -> QF s ->
  QF (fst (frame_resume t fr inp s)) /\
  srel (lfr (snd (frame_resume t fr inp s))) s (fst (frame_resume t fr inp s)).
Proof.
  intros Ha Q.
  assert (FK : forall s' (r : lres), keep s s' -> QF s' /\ srel (lfr r) s s').
  { intros s' r K. split; [eapply QF_keep; eauto|now apply keep_srel]. }
  destruct fr; cbn [frame_resume]; try discriminate.
  - apply FK. kq.
  - destruct inp; [|apply FK; kq]. destruct (fdone s f); [|apply FK; kq].
    pose proof (keep_fut_result s f) as E. destruct (fut_result s f). cbn [fst snd]. now apply FK.
  - apply FK. cbn [fst]. unfold cancel_handle. ksame.
  - apply FK. cbn [fst]. kq.
  - (* InAcquireA *)
    apply FK. unfold acquire_a_finish.
    set (s1 := setl s l _).
    assert (K1 : keep s s1) by (unfold s1; kq).
    destruct inp; cbn [fst].
    + eapply keep_trans; [exact K1|]. kq.
    + destruct (is_cancel e); cbn [fst]; [|exact K1].
      destruct (llocked (getl s1 l)); [exact K1|]. eapply keep_trans; [exact K1|apply keep_wake_a].
  - (* InCondWaitP *)
    set (s1 := match pq_remove HQ (cpq (getc s c)) (Z.of_nat f) with
               | Some (_, q') => setc s c (getc s c <| cpq := q' |>) | None => s end).
    assert (K1 : keep s s1) by (unfold s1; destruct (pq_remove _ _ _) as [[? ?]|]; kq).
    pose proof (QF_keep _ _ K1 Q) as Q1.
    match goal with |- context [reacquire s1 t c true None ?b] =>
      destruct (reacquire_facts s1 t c true None b Q1) as [Q2 R2];
      destruct (reacquire s1 t c true None b) as [s2 r] end.
    cbn [fst snd] in *. destruct r as [rep|y frs].
    + pose proof (keep_cond_p_after s2 c rep) as K3. destruct (cond_p_after s2 c rep) as [s3 rep'].
      cbn [fst snd lfr] in *. split; [eapply QF_keep; eauto|].
      eapply srel_keep_l; [exact K1|]. eapply srel_keep_r; eauto.
    + cbn [fst snd]. split; auto. eapply srel_keep_l; eauto.
  - (* InReleasedP *)
    destruct inp as [v|e].
    + match goal with |- context [cond_p_after s c ?r] =>
        pose proof (keep_cond_p_after s c r) as E; destruct (cond_p_after s c r) end.
      cbn [fst snd] in *. now apply FK.
    + destruct (is_cancel e).
      * destruct (reacquire_facts s t c true (Some e) body Q) as [Q2 R2].
        destruct (reacquire s t c true (Some e) body) as [s2 r]. cbn [fst snd] in *.
        destruct r as [rep|y frs]; [|cbn [fst snd]; auto].
        pose proof (keep_cond_p_after s2 c rep) as K3. destruct (cond_p_after s2 c rep) as [s3 rep'].
        cbn [fst snd lfr] in *. split; [eapply QF_keep; eauto|]. eapply srel_keep_r; eauto.
      * pose proof (keep_cond_p_after s c (RExc e)) as E. destruct (cond_p_after s c (RExc e)).
        cbn [fst snd] in *. now apply FK.
  - (* InCondWaitI *)
    set (s1 := setc s c _).
    assert (K1 : keep s s1) by (unfold s1; kq).
    pose proof (QF_keep _ _ K1 Q) as Q1.
    match goal with |- context [reacquire s1 t c false None ?b] =>
      destruct (reacquire_facts s1 t c false None b Q1) as [Q2 R2] end.
    split; auto. eapply srel_keep_l; eauto.
  - destruct inp; [apply FK; kq|]. destruct (is_cancel e); [now apply reacquire_facts|apply FK; kq].
  - (* InIntr *)
    destruct inp as [v|e].
    + pose proof (keep_interruptor 4 s b (S i)) as E. destruct (interruptor 4 s b (S i)) as [s1 r].
      cbn [fst] in E. rewrite interruptor_wrap_fst. now apply FK.
    + destruct (_ && _)%bool; rewrite interruptor_wrap_fst; apply FK; kq.
Qed.

(* ================================================================ 5. resuming a stack *)
Lemma srel_trans_nil P s1 s2 s3 : srel [] s1 s2 -> srel P s2 s3 -> srel P s1 s3.
Proof.
  intros [A1 A2 A3] [B1 B2 B3]. constructor; [eapply wle_trans; eauto|lia|].
  intros l f H. destruct (B3 l f H) as [H1|H1]; [|now right].
  destruct (A3 l f H1) as [H2|[had []]]. now left.
Qed.

Lemma resume_noacq_facts frs : forall t inp s,
  QF s -> no_acq frs ->
  QF (fst (resume_stack t frs inp s)) /\
  srel (lfr (snd (resume_stack t frs inp s))) s (fst (resume_stack t frs inp s)).
Proof.
  induction frs as [|fr rest IH]; intros t inp s Q Hn; cbn [resume_stack].
  - cbn [fst snd lfr]. split; [exact Q|apply keep_srel, keep_refl].
  - destruct (frame_resume_facts t fr inp s (Hn fr (or_introl eq_refl)) Q) as [Q1 R1].
    destruct (frame_resume t fr inp s) as [s1 r]. cbn [fst snd] in *.
    destruct r as [rep|y frs1]; cbn [lfr] in *.
    + destruct (IH t rep s1 Q1 (no_acq_tail fr rest Hn)) as [Q2 R2]. split; [exact Q2|].
      eapply srel_trans_nil; eauto.
    + cbn [fst snd lfr]. split; [exact Q1|]. eapply srel_weaken; [|exact R1].
      intros x Hx. apply in_or_app. now left.
Qed.

Lemma infut_keep t f inp s :
  exists rep, snd (frame_resume t (InFut f) inp s) = LDone rep /\
              keep s (fst (frame_resume t (InFut f) inp s)).
Proof.
  cbn [frame_resume]. destruct inp as [v|e]; [|eexists; split; [reflexivity|kq]].
  destruct (fdone s f); [|eexists; split; [reflexivity|kq]].
  pose proof (keep_fut_result s f) as E. destruct (fut_result s f) as [s' r].
  eexists. split; [reflexivity|exact E].
Qed.

Definition acq_in (l f : nat) (frs : list frame) : Prop := exists had, In (InAcquireP l f had) frs.

Theorem resume_stack_facts frs t inp s :
  QF s -> stack_ok frs -> (forall l f had, In (InAcquireP l f had) frs -> In f (objs s l)) ->
  QF (fst (resume_stack t frs inp s)) /\ wle s (fst (resume_stack t frs inp s)) /\
  length (futs s) <= length (futs (fst (resume_stack t frs inp s))) /\
  (forall l g, In g (objs (fst (resume_stack t frs inp s)) l) ->
     (In g (objs s l) /\ forall l1 had, ~ In (InAcquireP l1 g had) frs) \/
     acq_in l g (lfr (snd (resume_stack t frs inp s)))).
Proof.
  intros Q Hs Ha. destruct Hs as [Hn|(l & f & had & rest & -> & Hn)].
  - destruct (resume_noacq_facts frs t inp s Q Hn) as [Q1 [A B C]].
    split; [exact Q1|]. split; [exact A|]. split; [exact B|].
    intros l g H. destruct (C l g H) as [H1|H1]; [left|now right]. split; auto.
    intros l1 had H2. specialize (Hn _ H2). discriminate.
  - cbn [resume_stack].
    destruct (infut_keep t f inp s) as (rep & Er & K1).
    destruct (frame_resume t (InFut f) inp s) as [s1 r]. cbn [fst snd] in *. subst r.
    cbn [frame_resume].
    pose proof (QF_keep _ _ K1 Q) as Q1.
    assert (Hf1 : In f (objs s1 l)).
    { rewrite (keep_objs s s1 l K1). apply (Ha l f had). right. now left. }
    destruct (acq_p_finish_facts s1 t l f had rep Q1 Hf1) as (Q2 & W2 & F2 & O2).
    destruct (acquire_p_finish s1 t l f had rep) as [s2 r2]. cbn [fst snd] in *.
    destruct (resume_noacq_facts rest t r2 s2 Q2 Hn) as [Q3 [A3 B3 C3]].
    split; [exact Q3|]. split; [|split].
    + eapply wle_trans; [apply K1|]. eapply wle_trans; eauto.
    + pose proof (k_f _ _ K1). lia.
    + intros l0 g H. destruct (C3 l0 g H) as [H1|H1]; [left|now right].
      destruct (O2 l0 g H1) as [H2 Hne]. split; [now rewrite <- (keep_objs s s1 l0 K1)|].
      intros l1 had1 [E|[E|E]]; [discriminate|congruence|]. specialize (Hn _ E). discriminate.
Qed.

(* ================================================================ 6. the liveness invariant *)
(* [QP P s]: every queued waiter future belongs to an acquire frame that is stored in the
   task table, or is among the frames [P] of the running computation (converse of iF2);
   [Jw s]: a task whose _fut_waiter is f is suspended in `await f`;
   [ES s]: the same for what a not yet started eager continuation task has yielded *)
Definition QP (P : list frame) (s : st) : Prop :=
  forall l f, In f (objs s l) -> (exists t, acq_in l f (tframes s t)) \/ acq_in l f P.
Definition Jw (s : st) : Prop :=
  forall t f, twaiter (gett s t) = Some f -> exists rest, tframes s t = InFut f :: rest.
Definition ES (s : st) : Prop :=
  forall t y frs k, tcont_ (gett s t) = TEager y frs k -> yshape y frs.
Record LV (P : list frame) (s : st) : Prop := mkLV {
  lv_q : QF s; lv_p : QP P s; lv_j : Jw s; lv_e : ES s }.

Lemma kproj_tcont s s' t : kproj s' = kproj s -> tcont_ (gett s' t) = tcont_ (gett s t).
Proof.
  intros E. unfold gett.
  rewrite <- !(map_nth tcont_). fold (kproj s'). fold (kproj s). now rewrite E.
Qed.
Lemma kproj_tframes s s' t : kproj s' = kproj s -> tframes s' t = tframes s t.
Proof. intros E. unfold tframes. now rewrite (kproj_tcont s s' t E). Qed.
Lemma kproj_len s s' : kproj s' = kproj s -> length (tasks s') = length (tasks s).
Proof. intros E. unfold kproj in E. apply (f_equal (@length _)) in E. now rewrite !map_length in E. Qed.

(* what user-level steps (below Task.__step) keep of the task table *)
Record xrel (s s' : st) : Prop := mkX {
  x_len : length (tasks s) <= length (tasks s');
  x_old : forall t, t < length (tasks s) -> tcont_ (gett s' t) = tcont_ (gett s t);
  x_w : wle s s' }.
Lemma xrel_refl s : xrel s s.
Proof. constructor; auto. apply wle_refl. Qed.
Lemma xrel_trans s1 s2 s3 : xrel s1 s2 -> xrel s2 s3 -> xrel s1 s3.
Proof.
  intros [A1 A2 A3] [B1 B2 B3]. constructor; [lia| |eapply wle_trans; eauto].
  intros t Ht. rewrite B2 by lia. now apply A2.
Qed.
Lemma xrel_of s s' : kproj s' = kproj s -> wle s s' -> xrel s s'.
Proof.
  intros E W. constructor; [rewrite (kproj_len s s' E); lia| |exact W].
  intros t _. now apply kproj_tcont.
Qed.

Lemma LV_weaken P P' s : (forall l f, acq_in l f P -> acq_in l f P') -> LV P s -> LV P' s.
Proof.
  intros H [A B C D]. constructor; auto. intros l f Hf. destruct (B l f Hf); auto.
Qed.

Lemma Jw_step s s' : kproj s' = kproj s -> wle s s' -> Jw s -> Jw s'.
Proof.
  intros E W H t f Ht. destruct (W t) as [Ew|Ew]; [|congruence]. rewrite Ew in Ht.
  rewrite (kproj_tframes s s' t E). now apply H.
Qed.
Lemma ES_step s s' : kproj s' = kproj s -> ES s -> ES s'.
Proof. intros E H t y frs k Ht. rewrite (kproj_tcont s s' t E) in Ht. eapply H; eauto. Qed.

Lemma LV_srel P' s s' : kproj s' = kproj s -> QF s' -> srel P' s s' -> LV [] s -> LV P' s'.
Proof.
  intros E Q' [W F O] [A B C D]. constructor; auto.
  - intros l f Hf. destruct (O l f Hf) as [H|H]; [|now right].
    destruct (B l f H) as [[t Ht]|[had []]]. left. exists t. now rewrite (kproj_tframes s s' t E).
  - eapply Jw_step; eauto.
  - eapply ES_step; eauto.
Qed.

Lemma LV_keep P s s' : kproj s' = kproj s -> keep s s' -> LV P s -> LV P s'.
Proof.
  intros E K [A B C D]. constructor.
  - eapply QF_keep; eauto.
  - intros l f Hf. rewrite (keep_objs s s' l K) in Hf. destruct (B l f Hf) as [[t Ht]|H]; [|now right].
    left. exists t. now rewrite (kproj_tframes s s' t E).
  - eapply Jw_step; eauto. apply K.
  - eapply ES_step; eauto.
Qed.

(* appending a task *)
Lemma gett_app_old s tk t :
  t < length (tasks s) -> gett (s <| tasks := tasks s ++ [tk] |>) t = gett s t.
Proof. intros H. unfold gett. cbn. now apply nth_app_old. Qed.
Lemma gett_app_new s tk : gett (s <| tasks := tasks s ++ [tk] |>) (length (tasks s)) = tk.
Proof. unfold gett. cbn. apply nth_app_fresh. Qed.
Lemma gett_app_oob s tk t :
  length (tasks s) < t -> gett (s <| tasks := tasks s ++ [tk] |>) t = dtask.
Proof. intros H. apply gett_oob. cbn. rewrite app_length. simpl. lia. Qed.

Lemma LV_app P P' s tk :
  twaiter tk = None ->
  (forall y frs k, tcont_ tk = TEager y frs k -> yshape y frs) ->
  (forall l f, acq_in l f P -> acq_in l f (frames_of (tcont_ tk)) \/ acq_in l f P') ->
  LV P s -> LV P' (s <| tasks := tasks s ++ [tk] |>) /\ xrel s (s <| tasks := tasks s ++ [tk] |>).
Proof.
  intros Hw He Hp [A B C D]. set (s' := s <| tasks := tasks s ++ [tk] |>).
  assert (K : keep s s').
  { constructor; [reflexivity| |cbn; lia]. intros t.
    destruct (Nat.lt_ge_cases t (length (tasks s))) as [Ht|Ht].
    - left. unfold s'. now rewrite gett_app_old.
    - right. destruct (Nat.eq_dec t (length (tasks s))) as [->|Hne].
      + unfold s'. now rewrite gett_app_new.
      + unfold s'. rewrite gett_app_oob by lia. reflexivity. }
  assert (Hfr : forall t, t < length (tasks s) -> tframes s' t = tframes s t).
  { intros t Ht. unfold tframes, s'. now rewrite gett_app_old. }
  assert (Hin : forall t fr, In fr (tframes s t) -> In fr (tframes s' t)).
  { intros t fr H. destruct (Nat.lt_ge_cases t (length (tasks s))) as [Ht|Ht].
    - now rewrite Hfr.
    - rewrite tframes_oob in H by auto. destruct H. }
  split.
  - constructor.
    + eapply QF_keep; eauto.
    + intros l f Hf. rewrite (keep_objs s s' l K) in Hf. destruct (B l f Hf) as [[t [had Ht]]|H].
      * left. exists t, had. now apply Hin.
      * destruct (Hp l f H) as [H1|H1]; [|now right]. left. exists (length (tasks s)).
        unfold tframes, s'. now rewrite gett_app_new.
    + intros t f Ht. destruct (Nat.lt_ge_cases t (length (tasks s))) as [Hlt|Hge].
      * rewrite Hfr by auto. apply C. unfold s' in Ht. now rewrite gett_app_old in Ht.
      * exfalso. destruct (Nat.eq_dec t (length (tasks s))) as [->|Hne].
        -- unfold s' in Ht. rewrite gett_app_new in Ht. congruence.
        -- unfold s' in Ht. rewrite gett_app_oob in Ht by lia. discriminate.
    + intros t y frs k Ht. destruct (Nat.lt_ge_cases t (length (tasks s))) as [Hlt|Hge].
      * unfold s' in Ht. rewrite gett_app_old in Ht by auto. eapply D; eauto.
      * destruct (Nat.eq_dec t (length (tasks s))) as [->|Hne].
        -- unfold s' in Ht. rewrite gett_app_new in Ht. eapply He; eauto.
        -- unfold s' in Ht. rewrite gett_app_oob in Ht by lia. discriminate.
  - constructor; [unfold s'; cbn; rewrite app_length; lia| |apply K].
    intros t Ht. unfold s'. now rewrite gett_app_old.
Qed.

Lemma kproj_call_soon s c : kproj (call_soon_ s c) = kproj s.
Proof. reflexivity. Qed.

Lemma new_task_live P s kind p c :
  LV P s -> LV P (fst (new_task s kind p c)) /\ xrel s (fst (new_task s kind p c)).
Proof.
  intros L. unfold new_task.
  set (t := length (tasks s)). set (s1 := fst (new_future s (Some t))).
  change (new_future s (Some t)) with (s1, length (futs s)). cbv beta iota. cbn [fst].
  assert (L1 : LV P s1) by (apply (LV_keep P s s1); [reflexivity|apply keep_new_future|exact L]).
  set (tk := mkTask kind p (length (futs s)) (TNew c) None false [] None).
  destruct (LV_app P P s1 tk eq_refl) as [L2 X2]; auto.
  { intros y frs k H. discriminate. }
  split.
  - eapply LV_keep; [| |exact L2]; [reflexivity|apply keep_call_soon].
  - eapply xrel_trans; [|eapply xrel_trans; [exact X2|]].
    + apply xrel_of; [reflexivity|apply (keep_new_future s (Some t))].
    + apply xrel_of; [reflexivity|apply keep_call_soon].
Qed.

Lemma spawn_task_live P s how c :
  LV P s -> LV P (fst (spawn_task s how c)) /\ xrel s (fst (spawn_task s how c)).
Proof. intros L. unfold spawn_task. destruct how; now apply new_task_live. Qed.

(* ================================================================ 7. user code *)
Definition ofr (o : outcome) : list frame := match o with OYield _ frs _ => frs | ODone _ => [] end.

Lemma lib_call_live t op s :
  LV [] s -> LV (lfr (snd (lib_call t op s))) (fst (lib_call t op s)) /\ xrel s (fst (lib_call t op s)).
Proof.
  intros L. destruct (lib_call_facts t op s (lv_q _ _ L)) as [Q1 R1]. split.
  - exact (LV_srel _ s _ (kproj_lib_call t op s) Q1 R1 L).
  - apply xrel_of; [apply kproj_lib_call|apply R1].
Qed.

Theorem exec_live c : forall t s,
  LV [] s -> LV (ofr (snd (exec t c s))) (fst (exec t c s)) /\ xrel s (fst (exec t c s)).
Proof.
  induction c as [v|e|op k IHk|how child IHc k IHk]; intros t s L; cbn [exec].
  - cbn. split; [exact L|apply xrel_refl].
  - cbn. split; [exact L|apply xrel_refl].
  - destruct (lib_call_live t op s L) as [L1 X1]. destruct (lib_call t op s) as [s1 r]. cbn [fst snd] in *.
    destruct r as [rep|y frs]; cbn [lfr] in L1.
    + destruct (IHk rep t s1 L1) as [L2 X2]. split; [exact L2|eapply xrel_trans; eauto].
    + cbn [fst snd ofr]. auto.
  - assert (Plain : forall h, LV [] (fst (spawn_task s h child)) /\ xrel s (fst (spawn_task s h child)))
      by (intros h; now apply spawn_task_live).
    destruct how.
    + destruct (Plain SPlain) as [L1 X1]. destruct (spawn_task s SPlain child) as [s1 t']. cbn [fst] in *.
      destruct (IHk (RVal (Z.of_nat t')) t s1 L1) as [L2 X2]. split; [exact L2|eapply xrel_trans; eauto].
    + destruct (Plain SPy) as [L1 X1]. destruct (spawn_task s SPy child) as [s1 t']. cbn [fst] in *.
      destruct (IHk (RVal (Z.of_nat t')) t s1 L1) as [L2 X2]. split; [exact L2|eapply xrel_trans; eauto].
    + destruct (Plain (SPrio p)) as [L1 X1]. destruct (spawn_task s (SPrio p) child) as [s1 t']. cbn [fst] in *.
      destruct (IHk (RVal (Z.of_nat t')) t s1 L1) as [L2 X2]. split; [exact L2|eapply xrel_trans; eauto].
    + destruct (Plain SDescend) as [L1 X1]. destruct (spawn_task s SDescend child) as [s1 t']. cbn [fst] in *.
      destruct (lib_call_live t (OTaskSwitch t' (Some 1)) s1 L1) as [L2 X2].
      destruct (lib_call t (OTaskSwitch t' (Some 1)) s1) as [s2 r]. cbn [fst snd] in *.
      pose proof (xrel_trans _ _ _ X1 X2) as X02.
      destruct r as [[v|e]|y frs]; cbn [lfr] in L2.
      * destruct (IHk (RVal (Z.of_nat t')) t s2 L2) as [L3 X3]. split; [exact L3|eapply xrel_trans; eauto].
      * destruct (IHk (RExc e) t s2 L2) as [L3 X3]. split; [exact L3|eapply xrel_trans; eauto].
      * cbn [fst snd ofr]. auto.
    + destruct (Plain SStart) as [L1 X1]. destruct (spawn_task s SStart child) as [s1 t']. cbn [fst snd ofr] in *.
      split; [|exact X1]. eapply LV_weaken; [|exact L1]. intros l f [had []].
    + (* SEager *)
      destruct (IHc t s L) as [L1 X1]. pose proof (exec_shape child t s) as Sh.
      destruct (exec t child s) as [s1 o]. cbn [fst snd] in *.
      destruct o as [r|y frs kc]; cbn [ofr] in L1.
      * set (f := length (futs s1)). set (s2 := fst (new_future s1 None)).
        change (new_future s1 None) with (s2, f). cbv beta iota.
        set (s3 := fst (fut_finish s2 f _)).
        assert (K3 : keep s1 s3).
        { eapply keep_trans; [apply (keep_new_future s1 None)|apply keep_fut_finish]. }
        assert (E3 : kproj s3 = kproj s1) by (unfold s3; rewrite kproj_fut_finish; reflexivity).
        pose proof (LV_keep _ _ _ E3 K3 L1) as L3.
        destruct (IHk (RVal (Z.of_nat f)) t s3 L3) as [L4 X4]. split; [exact L4|].
        eapply xrel_trans; [exact X1|]. eapply xrel_trans; [|exact X4]. apply xrel_of; [exact E3|apply K3].
      * cbv zeta.
        set (sa := match y with YFut f => setf s1 f (getf s1 f <| fblock := false |>) | YNone => s1 end).
        assert (Ka : keep s1 sa) by (unfold sa; destruct y; kq).
        assert (Ea : kproj sa = kproj s1) by (unfold sa; destruct y; reflexivity).
        set (tn := length (tasks sa)). set (f := length (futs sa)).
        set (sb := fst (new_future sa (Some tn))).
        change (new_future sa (Some tn)) with (sb, f). cbv beta iota.
        assert (Kb : keep s1 sb) by (eapply keep_trans; [exact Ka|apply keep_new_future]).
        assert (Eb : kproj sb = kproj s1) by exact Ea.
        pose proof (LV_keep _ _ _ Eb Kb L1) as Lb.
        set (tk := mkTask KC None f (TEager y frs kc) None false [] None).
        destruct (LV_app frs [] sb tk eq_refl) as [Lc Xc]; auto.
        { intros y0 frs0 k0 H. inversion H; subst. eapply Sh; eauto. }
        set (sc := sb <| tasks := tasks sb ++ [tk] |>) in *.
        set (sd := call_soon_ sc (HStep tn None)).
        assert (Ld : LV [] sd) by (eapply LV_keep; [| |exact Lc]; [reflexivity|apply keep_call_soon]).
        destruct (IHk (RVal (Z.of_nat f)) t sd Ld) as [L4 X4]. split; [exact L4|].
        eapply xrel_trans; [exact X1|]. eapply xrel_trans; [|exact X4].
        eapply xrel_trans; [apply (xrel_of s1 sb Eb); apply Kb|].
        eapply xrel_trans; [exact Xc|]. apply xrel_of; [reflexivity|apply keep_call_soon].
Qed.

(* ================================================================ 8. Task.__step *)
Definition kk (s s' : st) : Prop := kproj s' = kproj s /\ keep s s'.
Lemma kk_refl s : kk s s.
Proof. split; [reflexivity|apply keep_refl]. Qed.
Lemma kk_trans s1 s2 s3 : kk s1 s2 -> kk s2 s3 -> kk s1 s3.
Proof. intros [A1 A2] [B1 B2]. split; [congruence|eapply keep_trans; eauto]. Qed.
Lemma LV_kk P s s' : kk s s' -> LV P s -> LV P s'.
Proof. intros [E K]. now apply LV_keep. Qed.
Lemma kk_same s s' :
  locks s' = locks s -> tasks s' = tasks s -> length (futs s) <= length (futs s') -> kk s s'.
Proof. intros El Et Hf. split; [unfold kproj; now rewrite Et|now apply keep_same]. Qed.
Lemma kk_sett s t x :
  tcont_ x = tcont_ (gett s t) -> twaiter x = twaiter (gett s t) \/ twaiter x = None -> kk s (sett s t x).
Proof. intros E W. split; [now apply kproj_sett|now apply keep_sett]. Qed.
Lemma kk_fut_finish s f x : kk s (fst (fut_finish s f x)).
Proof. split; [apply kproj_fut_finish|apply keep_fut_finish]. Qed.
Lemma kk_cancel_awaitable s f : kk s (fst (cancel_awaitable s f)).
Proof. split; [apply kproj_cancel_awaitable|apply keep_cancel_awaitable]. Qed.
Lemma kk_add_done_callback s f c : kk s (add_done_callback s f c).
Proof.
  unfold add_done_callback. destruct (fdone s f); apply kk_same; try reflexivity.
  unfold setf. cbn. rewrite set_nth_length. lia.
Qed.
Ltac kks := apply kk_same; [reflexivity|reflexivity|cbn; rewrite ?set_nth_length, ?app_length; lia].

Lemma QF_locks s s' :
  locks s' = locks s -> length (futs s) <= length (futs s') -> QF s -> QF s'.
Proof.
  intros El Hf [A B C].
  assert (Hg : forall l, getl s' l = getl s l) by (intros; unfold getl; now rewrite El).
  assert (Ho : forall l, objs s' l = objs s l) by (intros; unfold objs; now rewrite Hg).
  constructor.
  - intros l. rewrite Hg. apply A.
  - intros l f. rewrite Ho. intros H. specialize (B l f H). lia.
  - intros l l' f. rewrite !Ho. apply C.
Qed.

Lemma tframes_sett s t x t0 :
  tframes (sett s t x) t0 =
  if (Nat.eqb t t0 && Nat.ltb t (length (tasks s)))%bool then frames_of (tcont_ x) else tframes s t0.
Proof.
  unfold tframes. rewrite gett_sett. destruct (Nat.eqb t t0 && Nat.ltb t (length (tasks s)))%bool; reflexivity.
Qed.

(* storing the frames of the running task *)
Lemma LV_store P s t k :
  t < length (tasks s) -> tframes s t = [] -> twaiter (gett s t) = None ->
  (forall y frs k0, k = TEager y frs k0 -> yshape y frs) ->
  (forall l f, acq_in l f P -> acq_in l f (frames_of k)) ->
  LV P s -> LV [] (sett s t (gett s t <| tcont_ := k |>)).
Proof.
  intros Ht Hfr Hw Hk Hp [A B C D]. set (s' := sett s t (gett s t <| tcont_ := k |>)).
  assert (K : keep s s') by (unfold s'; apply keep_sett; left; reflexivity).
  apply Nat.ltb_lt in Ht.
  assert (Hfs : forall t0, tframes s' t0 = if Nat.eqb t t0 then frames_of k else tframes s t0).
  { intros t0. unfold s'. rewrite tframes_sett, Ht, andb_true_r. reflexivity. }
  assert (Hg : forall t0, gett s' t0 = if Nat.eqb t t0 then gett s t <| tcont_ := k |> else gett s t0).
  { intros t0. unfold s'. rewrite gett_sett, Ht, andb_true_r. reflexivity. }
  constructor.
  - eapply QF_keep; eauto.
  - intros l f Hf. rewrite (keep_objs s s' l K) in Hf. left. destruct (B l f Hf) as [[t0 [had H0]]|H0].
    + exists t0, had. rewrite Hfs. destruct (Nat.eqb t t0) eqn:E; [|exact H0].
      apply Nat.eqb_eq in E. subst t0. rewrite Hfr in H0. destruct H0.
    + exists t. rewrite Hfs, Nat.eqb_refl. now apply Hp.
  - intros t0 f. rewrite Hg, Hfs. destruct (Nat.eqb t t0) eqn:E.
    + cbn. rewrite Hw. discriminate.
    + apply C.
  - intros t0 y frs k0. rewrite Hg. destruct (Nat.eqb t t0) eqn:E.
    + cbn. apply Hk.
    + apply D.
Qed.

(* registering the future the task now waits on *)
Lemma LV_wait P s t f rest :
  tframes s t = InFut f :: rest -> LV P s -> LV P (sett s t (gett s t <| twaiter := Some f |>)).
Proof.
  intros Hfr [A B C D]. set (s' := sett s t (gett s t <| twaiter := Some f |>)).
  assert (E : kproj s' = kproj s) by (unfold s'; apply kproj_sett; reflexivity).
  constructor.
  - apply (QF_locks s s'); auto.
  - intros l g Hg. change (objs s' l) with (objs s l) in Hg. destruct (B l g Hg) as [[t0 H0]|H0]; [|now right].
    left. exists t0. now rewrite (kproj_tframes s s' t0 E).
  - intros t0 g. rewrite (kproj_tframes s s' t0 E). unfold s'. rewrite gett_sett.
    destruct (Nat.eqb t t0 && Nat.ltb t (length (tasks s)))%bool eqn:E0; [|apply C].
    apply andb_prop in E0 as [E0 _]. apply Nat.eqb_eq in E0. subst t0. cbn. intros H. inversion H; subst g.
    eauto.
  - eapply ES_step; eauto.
Qed.

Theorem finish_step_live t s o :
  t < length (tasks s) -> tframes s t = [] -> twaiter (gett s t) = None ->
  (forall y frs k, o = OYield y frs k -> yshape y frs) ->
  LV (ofr o) s -> LV [] (finish_step t s o).
Proof.
  intros Ht Hfr Hw Hsh L. unfold finish_step. destruct o as [[v|e]|y frs k]; cbn [ofr] in L.
  - set (s1 := sett s t (gett s t <| tcont_ := TFin |>)).
    assert (L1 : LV [] s1).
    { apply (LV_store [] s t TFin); auto. intros; discriminate. }
    destruct (tmustc (gett s t)).
    + eapply LV_kk; [|exact L1]. eapply kk_trans; [|apply kk_fut_finish]. apply kk_sett; auto.
    + eapply LV_kk; [apply kk_fut_finish|exact L1].
  - set (s1 := sett s t (gett s t <| tcont_ := TFin |>)).
    assert (L1 : LV [] s1).
    { apply (LV_store [] s t TFin); auto. intros; discriminate. }
    destruct (is_cancel e).
    + eapply LV_kk; [|exact L1]. eapply kk_trans; [|apply kk_fut_finish]. kks.
    + eapply LV_kk; [apply kk_fut_finish|exact L1].
  - specialize (Hsh y frs k eq_refl).
    set (s1 := sett s t (gett s t <| tcont_ := TSusp frs k |>)).
    assert (L1 : LV [] s1).
    { apply (LV_store frs s t (TSusp frs k)); auto. intros; discriminate. }
    assert (Hfr1 : tframes s1 t = frs).
    { unfold s1. rewrite tframes_sett, Nat.eqb_refl. apply Nat.ltb_lt in Ht. now rewrite Ht. }
    assert (Soon : forall e, LV [] (call_soon_ s1 (HStep t e))).
    { intros e. eapply LV_kk; [|exact L1]. kks. }
    destruct y as [|f]; [apply Soon|].
    destruct (fblock (getf s1 f)); [|apply Soon].
    destruct (Nat.eqb f (tfut (gett s t))); [apply Soon|].
    set (s2 := setf s1 f (getf s1 f <| fblock := false |>)).
    set (s3 := add_done_callback s2 f (CbWakeup t)).
    assert (K3 : kk s1 s3).
    { eapply kk_trans; [|apply kk_add_done_callback]. unfold s2. kks. }
    pose proof (LV_kk _ _ _ K3 L1) as L3.
    destruct Hsh as [rest Hrest].
    assert (Hfr3 : tframes s3 t = InFut f :: rest).
    { rewrite (kproj_tframes s1 s3 t (proj1 K3)), Hfr1. exact Hrest. }
    set (s4 := sett s3 t (gett s3 t <| twaiter := Some f |>)).
    pose proof (LV_wait [] s3 t f rest Hfr3 L3) as L4. fold s4 in L4.
    destruct (tmustc (gett s4 t)); [|exact L4].
    pose proof (kk_cancel_awaitable s4 f) as K5. destruct (cancel_awaitable s4 f) as [s5 ok]. cbn [fst] in K5.
    pose proof (LV_kk _ _ _ K5 L4) as L5.
    destruct ok; [|exact L5]. eapply LV_kk; [|exact L5]. apply kk_sett; auto.
Qed.

Lemma resume_live t frs inp s :
  LV frs s -> stack_ok frs -> (forall l f had, In (InAcquireP l f had) frs -> In f (objs s l)) ->
  LV (lfr (snd (resume_stack t frs inp s))) (fst (resume_stack t frs inp s)) /\
  xrel s (fst (resume_stack t frs inp s)).
Proof.
  intros [A B C D] Hs Ha.
  destruct (resume_stack_facts frs t inp s A Hs Ha) as (Q1 & W1 & F1 & O1).
  pose proof (kproj_resume_stack frs t inp s) as E.
  split; [|now apply xrel_of]. constructor; auto.
  - intros l g Hg. destruct (O1 l g Hg) as [[H1 H2]|H1]; [|now right].
    destruct (B l g H1) as [[t0 H0]|[had H0]].
    + left. exists t0. now rewrite (kproj_tframes _ _ t0 E).
    + exfalso. eapply H2; eauto.
  - eapply Jw_step; eauto.
  - eapply ES_step; eauto.
Qed.

Theorem step_task_live t exc s :
  Inv s -> t < length (tasks s) -> LV [] s -> LV [] (step_task t exc s).
Proof.
  intros I Ht L. unfold step_task.
  destruct (tdone s t); [eapply LV_kk; [|exact L]; kks|].
  set (exc' := if tmustc (gett s t) then _ else exc).
  set (s1 := sett s t (gett s t <| tmustc := false |> <| twaiter := None |> <| tcont_ := TRun |>)).
  set (s2 := s1 <| current := Some t |>).
  assert (K2 : keep s s2).
  { apply keep_step with (s1 := s1); [unfold s1; apply keep_sett; right; reflexivity|reflexivity|reflexivity|cbn; lia]. }
  pose proof (proj2 (Nat.ltb_lt _ _) Ht) as Htb.
  assert (Hg2 : forall t0, gett s2 t0 =
            if Nat.eqb t t0 then gett s t <| tmustc := false |> <| twaiter := None |> <| tcont_ := TRun |>
            else gett s t0).
  { intros t0. change (gett s2 t0) with (gett s1 t0). unfold s1. rewrite gett_sett, Htb, andb_true_r. reflexivity. }
  assert (Hfr2 : forall t0, tframes s2 t0 = if Nat.eqb t t0 then [] else tframes s t0).
  { intros t0. unfold tframes. rewrite Hg2. destruct (Nat.eqb t t0); reflexivity. }
  assert (L2 : LV (tframes s t) s2).
  { destruct L as [A B C D]. constructor.
    - eapply QF_keep; eauto.
    - intros l f Hf. rewrite (keep_objs s s2 l K2) in Hf. destruct (B l f Hf) as [[t0 H0]|[had []]].
      destruct (Nat.eqb t t0) eqn:E.
      + apply Nat.eqb_eq in E. subst t0. now right.
      + left. exists t0. now rewrite Hfr2, E.
    - intros t0 f. rewrite Hg2, Hfr2. destruct (Nat.eqb t t0); [discriminate|apply C].
    - intros t0 y frs k. rewrite Hg2. destruct (Nat.eqb t t0); [discriminate|apply D]. }
  assert (Hc2 : tcont_ (gett s2 t) = TRun) by (rewrite Hg2, Nat.eqb_refl; reflexivity).
  assert (Hw2 : twaiter (gett s2 t) = None) by (rewrite Hg2, Nat.eqb_refl; reflexivity).
  assert (Ht2 : t < length (tasks s2)) by (unfold s2, s1; cbn; now rewrite set_nth_length).
  assert (Tail : forall s3 o, LV (ofr o) s3 -> xrel s2 s3 ->
                   (forall y frs k, o = OYield y frs k -> yshape y frs) ->
                   LV [] ((finish_step t s3 o) <| current := None |>)).
  { intros s3 o L3 X3 Sh. eapply LV_kk; [|apply (finish_step_live t s3 o)]; auto.
    - kks.
    - pose proof (x_len _ _ X3). lia.
    - unfold tframes. rewrite (x_old _ _ X3 t Ht2), Hc2. reflexivity.
    - destruct (x_w _ _ X3 t) as [E|E]; congruence. }
  assert (Res : forall frs k inp, tframes s t = frs -> 
     LV [] (let '(s3, o) := (let '(s, r) := resume_stack t frs inp s2 in
                   match r with
                   | LDone rep => exec t (k rep) s
                   | LSusp y frs' => (s, OYield y frs' k) end) in
            (finish_step t s3 o) <| current := None |>)).
  { intros frs k inp Efr. rewrite Efr in L2.
    destruct (resume_live t frs inp s2 L2) as [L3 X3].
    - rewrite <- Efr. apply (iF1 I).
    - intros l f had H. rewrite (keep_objs s s2 l K2). apply (iF2 I t l f had). now rewrite Efr.
    - pose proof (resume_stack_shape frs t inp s2) as Sh.
      destruct (resume_stack t frs inp s2) as [s3 r]. cbn [fst snd] in *.
      destruct r as [rep|y frs']; cbn [lfr] in L3.
      + destruct (exec_live (k rep) t s3 L3) as [L4 X4]. pose proof (exec_shape (k rep) t s3) as Sh4.
        destruct (exec t (k rep) s3) as [s4 o]. cbn [fst snd] in *.
        apply Tail; auto. eapply xrel_trans; eauto.
      + apply Tail; auto. intros y0 frs0 k0 H. inversion H; subst. exact Sh. }
  unfold tframes in Res, L2.
  destruct (tcont_ (gett s t)) as [c|frs k|y frs k| |] eqn:Ec; cbn [frames_of] in *.
  - destruct exc' as [e|].
    + apply Tail; [exact L2|apply xrel_refl|intros; discriminate].
    + destruct (exec_live c t s2 L2) as [L3 X3]. pose proof (exec_shape c t s2) as Sh.
      destruct (exec t c s2) as [s3 o]. cbn [fst snd] in *. apply Tail; auto.
  - apply Res. reflexivity.
  - destruct exc' as [e|].
    + apply Res. reflexivity.
    + set (s3 := match y with YFut f => setf s2 f (getf s2 f <| fblock := true |>) | YNone => s2 end).
      assert (K3 : kk s2 s3) by (unfold s3; destruct y; [apply kk_refl|kks]).
      apply Tail.
      * cbn [ofr]. eapply LV_kk; eauto.
      * apply xrel_of; [apply K3|apply K3].
      * intros y0 frs0 k0 H. inversion H; subst. destruct L as [_ _ _ D]. eapply D; eauto.
  - apply Tail; [exact L2|apply xrel_refl|intros; discriminate].
  - apply Tail; [exact L2|apply xrel_refl|intros; discriminate].
Qed.

(* ================================================================ 9. the loop *)
Lemma kk_task_reinsert s t p : kk s (fst (task_reinsert s t p)).
Proof. split; [apply kproj_task_reinsert|apply keep_task_reinsert]. Qed.
Lemma kk_cancel_task s t : kk s (fst (cancel_task s t)).
Proof. split; [apply kproj_task_cancel|apply keep_task_cancel]. Qed.
Lemma kk_fut_result s f : kk s (fst (fut_result s f)).
Proof. split; [apply kproj_fut_result|apply keep_fut_result]. Qed.

Theorem wakeup_live t f s : Inv s -> t < length (tasks s) -> LV [] s -> LV [] (wakeup t f s).
Proof.
  intros I Ht L. unfold wakeup. destruct (fstate_ (getf s f)); try now apply step_task_live.
  pose proof (chg_fut_result (notlf s) s f) as B. pose proof (kk_fut_result s f) as K.
  destruct (fut_result s f) as [s' r]. cbn [fst] in *.
  apply step_task_live.
  - eapply Inv_benign; eauto.
  - pose proof (benign_tasks _ _ B). lia.
  - eapply LV_kk; eauto.
Qed.

Theorem run_callback_live c s :
  Inv s -> In c (hcbs s) -> LV [] s -> LV [] (run_callback c s).
Proof.
  intros I Hin L. pose proof (iE1 I _ Hin) as Hc.
  destruct c; cbn [run_callback cb_task_ok] in *.
  - now apply step_task_live.
  - now apply wakeup_live.
  - pose proof (kk_task_reinsert s t p) as K. destruct (task_reinsert s t p) as [s' r]. cbn [fst] in K.
    pose proof (LV_kk _ _ _ K L) as L'. destruct r; [exact L'|]. eapply LV_kk; [|exact L']. kks.
  - eapply LV_kk; [|exact L]. kks.
  - eapply LV_kk; [apply kk_fut_finish|exact L].
  - now apply new_task_live.
  - eapply LV_kk; [|exact L]. unfold queue_iterated. destruct (ready _); kks.
  - eapply LV_kk; [apply kk_cancel_task|exact L].
Qed.

Theorem run_one_live s : Inv s -> LV [] s -> LV [] (run_one s).
Proof.
  intros I L. unfold run_one.
  destruct (rq_popleft (ready s)) as [[h r]|]; [|exact L].
  set (s1 := s <| ready := r |>).
  assert (B1 : benign s s1) by (apply chg_core_eq; reflexivity).
  assert (L1 : LV [] s1) by (eapply LV_kk; [|exact L]; kks).
  destruct (hcancelled (geth s1 h)) eqn:Ec; [exact L1|].
  apply run_callback_live; auto.
  - eapply Inv_benign; eauto.
  - change (hcbs s1) with (hcbs s). change (geth s1 h) with (geth s h) in *.
    destruct (Nat.lt_ge_cases h (length (handles s))) as [Hh|Hh].
    + unfold hcbs, geth. apply in_map. now apply nth_In.
    + unfold geth in Ec. rewrite nth_overflow in Ec by auto. discriminate.
Qed.

Lemma kk_drop_cancelled fuel : forall s, kk s (drop_cancelled fuel s).
Proof.
  induction fuel as [|fuel IH]; intros s; cbn [drop_cancelled]; [apply kk_refl|].
  destruct (timers s) as [|[w h] tm]; [apply kk_refl|].
  destruct (hcancelled (geth s h)); [|apply kk_refl].
  destruct (HeapqModel.heappop timer_lt tdflt ((w, h) :: tm)) as [[e tm']|]; [|apply kk_refl].
  eapply kk_trans; [|apply IH]. kks.
Qed.
Lemma kk_move_due fuel : forall s, kk s (move_due fuel s).
Proof.
  induction fuel as [|fuel IH]; intros s; cbn [move_due]; [apply kk_refl|].
  destruct (timers s) as [|[w h] tm]; [apply kk_refl|].
  destruct (Qle_bool w (now s)); [|apply kk_refl].
  destruct (HeapqModel.heappop timer_lt tdflt ((w, h) :: tm)) as [[[w' h'] tm']|]; [|apply kk_refl].
  eapply kk_trans; [|apply IH]. kks.
Qed.

Theorem do_action_live s a :
  Inv s -> LockProofs.action_ok s a -> LV [] s -> LV [] (do_action s a).
Proof.
  intros I Hok L. destruct a; cbn [do_action LockProofs.action_ok] in *.
  - now apply run_one_live.
  - eapply LV_kk; [|exact L]. unfold begin_iteration.
    eapply kk_trans; [apply kk_drop_cancelled|apply kk_move_due].
  - eapply LV_kk; [|exact L]. kks.
  - now apply spawn_task_live.
  - destruct Hok as [_ Hn]. eapply LV_kk; [|exact L].
    split; [apply kproj_lib_call|now apply lib_call_keep].
Qed.

Lemma LV_init p fa dr lks cds nev : LV [] (init_st p fa dr lks cds nev).
Proof.
  set (s := init_st p fa dr lks cds nev).
  assert (Ht : forall t, gett s t = dtask) by (intros t; unfold gett, s, init_st; cbn; destruct t; reflexivity).
  assert (Hob : forall l, objs s l = []).
  { intros l. unfold objs, s. destruct (init_getl p fa dr lks cds nev l) as [k ->]. reflexivity. }
  constructor.
  - apply QF_of_Inv. apply Inv_init.
  - intros l f H. rewrite Hob in H. destruct H.
  - intros t f. rewrite Ht. discriminate.
  - intros t y frs k. rewrite Ht. discriminate.
Qed.

Theorem run_live acts : forall s,
  Inv s -> LV [] s -> run_ok s acts -> LV [] (fold_left do_action acts s).
Proof.
  induction acts as [|a acts IH]; intros s I L Hok; simpl; [exact L|].
  destruct Hok as [Ha Hr]. apply IH; [|now apply do_action_live|exact Hr].
  apply (ext_inv _ _ (do_action_ext s a I Ha)).
Qed.

Theorem LV_reach p fa dr lks cds nev acts :
  run_ok (init_st p fa dr lks cds nev) acts ->
  LV [] (fold_left do_action acts (init_st p fa dr lks cds nev)).
Proof. intros H. apply run_live; auto. apply Inv_init. apply LV_init. Qed.

(* ================================================================ 10. with the partition invariant (C09) *)
From Asynkit Require Sched.PartTables Sched.PartitionProofs Sched.PartitionSteps Sched.PartitionRun
  Sched.PartitionFinal Sched.PrioQueueBoost.

(* the acquire frame of a queued waiter: its task exists and is suspended in
   `await fut` directly above the acquire frame *)
Lemma waiter_link s l f :
  Inv s -> LV [] s -> In f (objs s l) ->
  exists t had rest, t < length (tasks s) /\ tframes s t = InFut f :: InAcquireP l f had :: rest.
Proof.
  intros I L Hf. destruct (lv_p _ _ L l f Hf) as [[t [had Hin]]|[had []]].
  destruct (iF1 I t) as [Hn|(l' & f' & had' & rest & E & Hn)].
  - specialize (Hn _ Hin). discriminate.
  - exists t. rewrite E in Hin. destruct Hin as [H|[H|H]]; [discriminate| |specialize (Hn _ H); discriminate].
    inversion H; subst. exists had, rest. split; auto.
    destruct (Nat.lt_ge_cases t (length (tasks s))); auto.
    rewrite tframes_oob in E by auto. discriminate.
Qed.

(* model artefact excluded by hypothesis: user code of the model can complete a TASK's own
   future (OSetResult/OSetExc/OFutCancel on it; real asyncio.Task raises RuntimeError), which
   leaves a "done" task with suspended frames that no step will ever resume *)
Definition no_external_completion (s : st) : Prop :=
  forall t, tdone s t = true -> tframes s t = [].

(* I3: every queued waiter's task is either blocked on the waiter future (pending, exactly one
   wake-up callback, no handle) or runnable with exactly one handle in the ready queue *)
Theorem waiter_states qok s :
  Inv s -> LV [] s -> PartitionRun.Inv09 qok s -> no_external_completion s ->
  forall l f, In f (objs s l) ->
  exists t had rest,
    t < length (tasks s) /\ tframes s t = InFut f :: InAcquireP l f had :: rest /\
    tdone s t = false /\
    ((fdone s f = false /\ twaiter (gett s t) = Some f /\
      PartTables.hcnt s t = 0 /\ PartTables.ccnt s t f = 1) \/
     (PartTables.bo s t = None /\ PartTables.hcnt s t = 1 /\
      forall g, fdone s g = false -> PartTables.ccnt s t g = 0)).
Proof.
  intros I L [I9 Hcur] Hext l f Hf.
  destruct (waiter_link s l f I L Hf) as (t & had & rest & Ht & Hfr).
  exists t, had, rest. split; [exact Ht|]. split; [exact Hfr|].
  assert (Hd : tdone s t = false).
  { destruct (tdone s t) eqn:E; auto. rewrite (Hext t E) in Hfr. discriminate. }
  split; [exact Hd|].
  pose proof (PartTables.i_cls I9 t Ht Hd) as C. unfold PartTables.cls in C. simpl in C.
  destruct C as [R1 R2]. unfold PartTables.bo in *.
  destruct (twaiter (gett s t)) as [g|] eqn:Ew.
  - destruct (lv_j _ _ L t g Ew) as [rest' E']. rewrite Hfr in E'. inversion E'; subst g.
    destruct (fdone s f) eqn:Ed.
    + right. split; auto.
    + left. split; auto. split; auto. split; auto. rewrite (R2 f Ed), Nat.eqb_refl. reflexivity.
  - right. split; auto.
Qed.

(* I4 + I3: a free PriorityLock with waiters has a waiter whose future is done (woken with a
   result, or cancelled) and whose task is not done and has exactly one handle in the ready
   queue: it will run, and its finally clause takes the lock or passes the wake-up on *)
Theorem wake_in_flight_full qok s :
  Inv s -> WF4 s -> LV [] s -> PartitionRun.Inv09 qok s -> no_external_completion s ->
  forall l, lkind_ (getl s l) = LPrio -> llocked (getl s l) = false -> objs s l <> [] ->
  exists f t had rest,
    In f (objs s l) /\ fdone s f = true /\ (woken s f = true \/ fcancelled s f = true) /\
    t < length (tasks s) /\ tframes s t = InFut f :: InAcquireP l f had :: rest /\
    tdone s t = false /\ PartTables.hcnt s t = 1 /\ PartTables.bo s t = None /\
    (forall g, fdone s g = false -> PartTables.ccnt s t g = 0).
Proof.
  intros I H4 L I9 Hext l Hk Hl Hne.
  destruct (H4 l Hk Hl Hne) as (f & Hf & Hd).
  destruct (waiter_states qok s I L I9 Hext l f Hf) as (t & had & rest & Ht & Hfr & Hnd & Hc).
  exists f, t, had, rest. split; auto. split; auto. split.
  { unfold fdone, woken, fcancelled in *. destruct (fstate_ (getf s f)); auto; discriminate. }
  split; auto. split; auto. split; auto.
  destruct Hc as [(Hp & _)|(Hb & Hh & Hcc)]; [congruence|auto].
Qed.

(* ---------------------------------------------------------------- quiescent states *)
Theorem quiescent_clean s :
  Inv s -> LV [] s ->
  (forall t, t < length (tasks s) -> tdone s t = true) ->
  no_external_completion s ->
  (* no task finished while holding a lock *)
  (forall l t, lowner (getl s l) = Some t -> tdone s t = false) ->
  forall l, l < length (locks s) -> lkind_ (getl s l) = LPrio ->
    lowner (getl s l) = None /\ llocked (getl s l) = false /\ pq_objs (lpq (getl s l)) = [] /\
    (forall t, ~ In l (tholding (gett s t))) /\
    (forall t fr, In fr (tframes s t) -> False).
Proof.
  intros I L Hall Hext Hhold l Hl Hk.
  assert (Ho : lowner (getl s l) = None).
  { destruct (lowner (getl s l)) as [t|] eqn:E; auto.
    pose proof (iA5 I _ _ E) as Ht. pose proof (Hhold _ _ E). rewrite (Hall t Ht) in H. discriminate. }
  assert (Hfr : forall t, tframes s t = []).
  { intros t. destruct (Nat.lt_ge_cases t (length (tasks s))) as [Ht|Ht].
    - apply Hext. now apply Hall.
    - now apply tframes_oob. }
  split; [exact Ho|]. split.
  { destruct (llocked (getl s l)) eqn:E; auto. apply (iA1 I l Hk) in E. congruence. }
  split.
  { fold (objs s l). destruct (objs s l) as [|f rest] eqn:E; auto. exfalso.
    destruct (waiter_link s l f I L) as (t & had & r & _ & Ht); [rewrite E; now left|].
    rewrite Hfr in Ht. discriminate. }
  split.
  - intros t Hin. pose proof (iA2 I l t Hl Hin). congruence.
  - intros t fr. rewrite Hfr. intros [].
Qed.

(* ---------------------------------------------------------------- FIFO progress on the list loop *)
Lemma run_one_pops_head s h rest :
  ready s = RList (h :: rest) ->
  run_one s = (let s1 := s <| ready := RList rest |> in
               if hcancelled (geth s1 h) then s1 else run_callback (hcb (geth s1 h)) s1).
Proof. intros E. unfold run_one. rewrite E. reflexivity. Qed.

Fixpoint steps (n : nat) (s : st) : st :=
  match n with O => s | S n => steps n (do_action s AStep) end.

(* no positional scheduling among the first n steps: each of them leaves the rest of the
   list queue in place and only appends at its tail *)
Fixpoint fifo (n : nat) (s : st) : Prop :=
  match n with
  | O => True
  | S n => (exists q app, ready s = RList q /\ ready (do_action s AStep) = RList (tl q ++ app)) /\
           fifo n (do_action s AStep)
  end.

Lemma fifo_position n : forall s q,
  ready s = RList q -> fifo n s -> n <= length q ->
  exists app, ready (steps n s) = RList (skipn n q ++ app).
Proof.
  induction n as [|n IH]; intros s q E F Hn; cbn [steps].
  - exists []. now rewrite app_nil_r.
  - destruct F as [(q0 & app & E0 & E1) F]. rewrite E in E0. inversion E0; subst q0.
    destruct q as [|h q]; [simpl in Hn; lia|]. simpl in E1, Hn.
    destruct (IH _ _ E1 F) as [app' E']; [rewrite app_length; lia|].
    exists (app ++ app'). change (do_action s AStep) with (run_one s). rewrite E'. cbn [skipn].
    rewrite skipn_app. replace (n - length q) with 0 by lia. simpl. now rewrite app_assoc.
Qed.

(* a handle at position i of the list queue is at its head after i append-only steps: the
   (i+1)-th step pops it *)
Theorem handle_runs_in_turn s q i :
  ready s = RList q -> i < length q -> fifo i s ->
  exists rest, ready (steps i s) = RList (nth i q 0 :: rest) /\
    do_action (steps i s) AStep =
      (let s1 := (steps i s) <| ready := RList rest |> in
       if hcancelled (geth s1 (nth i q 0)) then s1 else run_callback (hcb (geth s1 (nth i q 0))) s1).
Proof.
  intros E Hi F. destruct (fifo_position i s q E F) as [app Ei]; [lia|].
  assert (Hs : exists tl0, skipn i q = nth i q 0 :: tl0).
  { clear -Hi. revert i Hi. induction q as [|x q IH]; intros i Hi; [simpl in Hi; lia|].
    destruct i as [|i]; [eexists; reflexivity|]. simpl in *. apply IH. lia. }
  destruct Hs as [tl0 Hs]. rewrite Hs in Ei. exists (tl0 ++ app). split; [exact Ei|].
  cbn [do_action]. now apply run_one_pops_head.
Qed.

(* lock free with waiters => some waiter task's handle sits at a position i of the list
   queue and is popped by the (i+1)-th step, provided the steps before it only append *)
Theorem progress_list s q :
  Inv s -> WF4 s -> LV [] s -> PartitionRun.Inv09 PartitionFinal.qok_list s -> no_external_completion s ->
  ready s = RList q ->
  forall l, lkind_ (getl s l) = LPrio -> llocked (getl s l) = false -> objs s l <> [] ->
  exists f t had rest i,
    In f (objs s l) /\ fdone s f = true /\ tframes s t = InFut f :: InAcquireP l f had :: rest /\
    tdone s t = false /\ i < length q /\ task_of_handle s (nth i q 0) = Some t /\
    hcancelled (geth s (nth i q 0)) = false /\
    (fifo i s -> exists rest', ready (steps i s) = RList (nth i q 0 :: rest') /\
       do_action (steps i s) AStep =
         (let s1 := (steps i s) <| ready := RList rest' |> in
          if hcancelled (geth s1 (nth i q 0)) then s1 else run_callback (hcb (geth s1 (nth i q 0))) s1)).
Proof.
  intros I H4 L I9 Hext Eq l Hk Hl Hne.
  destruct (wake_in_flight_full _ s I H4 L I9 Hext l Hk Hl Hne)
    as (f & t & had & rest & Hf & Hd & _ & Ht & Hfr & Hnd & Hh & _ & _).
  assert (Hpos : 0 < PartTables.cnt (task_key s t) q).
  { unfold PartTables.hcnt in Hh. rewrite Eq in Hh. simpl in Hh. lia. }
  destruct (PartTables.cnt_pos_in _ _ Hpos) as (h & Hin & Hkey).
  destruct (In_nth q h 0 Hin) as (i & Hi & Ei).
  exists f, t, had, rest, i. rewrite Ei.
  assert (Hth : task_of_handle s h = Some t).
  { unfold task_key in Hkey. destruct (task_of_handle s h) as [t'|]; [|discriminate].
    apply Nat.eqb_eq in Hkey. now subst. }
  repeat (split; [assumption|]). split.
  - destruct (hcancelled (geth s h)) eqn:E; auto.
    destruct I9 as [I9 _]. pose proof (PartTables.i_canc (PartTables.i_wf I9) h E). congruence.
  - intros F. rewrite <- Ei. now apply handle_runs_in_turn.
Qed.

(* ================================================================ 11. every reachable state *)
From Asynkit Require Import Sched.Corr Sched.LockThms.

Definition both_ok (s : st) (acts : list action) : Prop :=
  run_ok s acts /\ PartitionRun.actions_ok s acts.

Theorem reach_list factor draws lks cds nev acts :
  let s0 := init_st false factor draws lks cds nev in
  both_ok s0 acts ->
  let s := fold_left do_action acts s0 in
  Inv s /\ WF4 s /\ LV [] s /\ PartitionRun.Inv09 PartitionFinal.qok_list s.
Proof.
  intros s0 [H1 H2] s. split; [now apply C13_inv_all|]. split; [now apply C13_wake_in_flight_all|].
  split; [now apply LV_reach|].
  apply (PartitionRun.Inv09_run _ PartitionFinal.QSpec_list); auto.
  apply PartitionRun.Inv09_init. exact Logic.I.
Qed.

Theorem reach_prio factor draws lks cds nev acts :
  let s0 := init_st true factor draws lks cds nev in
  both_ok s0 acts ->
  let s := fold_left do_action acts s0 in
  Inv s /\ WF4 s /\ LV [] s /\ PartitionRun.Inv09 PrioQueueBoost.qok_boost s.
Proof.
  intros s0 [H1 H2] s. split; [now apply C13_inv_all|]. split; [now apply C13_wake_in_flight_all|].
  split; [now apply LV_reach|]. now apply PrioQueueBoost.Inv09_prio_boost.
Qed.

(* ---------------------------------------------------------------- examples *)
(* a state-independent sufficient condition for C09's side condition *)
Definition act_ok0 (a : action) : Prop :=
  match a with
  | ASpawn _ c => PartTables.coro_ok 0 c
  | ADo op => PartTables.op_ok 0 op
  | _ => True end.

Lemma actions_ok_static acts : Forall act_ok0 acts -> forall s, PartitionRun.actions_ok s acts.
Proof.
  induction 1 as [|a acts Ha Hr IH]; intros s; simpl; auto. split; [|apply IH].
  destruct a; simpl in *; auto.
  - eapply PartTables.coro_ok_mono; eauto. lia.
  - eapply PartTables.op_ok_mono; eauto. lia.
Qed.

Ltac cok := cbn; repeat (split; [exact I|]; let m := fresh "m" in let r := fresh "r" in
                         let H := fresh "H" in intros m r H; destruct r; cbn; try exact I).
Lemma coro_ok_sH n : PartTables.coro_ok n (denote_task sH).
Proof. cok. Qed.
Lemma coro_ok_sW n : PartTables.coro_ok n (denote_task sW).
Proof. cok. Qed.

Lemma actions_ok_example : forall s, PartitionRun.actions_ok s (acts_a ++ acts_b ++ acts_c).
Proof.
  apply actions_ok_static. unfold acts_a, acts_b, acts_c. cbn [map act app].
  repeat (constructor; [first [exact I|apply coro_ok_sH|apply coro_ok_sW]|]). constructor.
Qed.

Lemma actions_ok_app s a b : PartitionRun.actions_ok s (a ++ b) -> PartitionRun.actions_ok s a.
Proof.
  revert s. induction a as [|x a IH]; intros s H; simpl in *; auto.
  destruct H as [H1 H2]. split; auto.
Qed.

Lemma no_ext_small s n :
  length (tasks s) = n ->
  forallb (fun t => negb (tdone s t) || match tframes s t with [] => true | _ => false end) (seq 0 n) = true ->
  no_external_completion s.
Proof.
  intros En Hb t Hd. destruct (Nat.lt_ge_cases t (length (tasks s))) as [Ht|Ht]; [|now apply tframes_oob].
  rewrite forallb_forall in Hb. specialize (Hb t). rewrite Hd in Hb. simpl in Hb.
  destruct (tframes s t); auto. discriminate Hb. apply in_seq. lia.
Qed.

Lemma both_ok_example : both_ok st0 (acts_a ++ acts_b ++ acts_c).
Proof. split; [apply run_ok_example|apply actions_ok_example]. Qed.
Lemma both_ok_app s a b : both_ok s (a ++ b) -> both_ok s a.
Proof. intros [A B]. split; [eapply run_ok_app; eauto|eapply actions_ok_app; eauto]. Qed.

(* stB: the lock is free, the woken waiter W1 (task 1, future 3) has exactly one handle *)
Example stB_wake_in_flight :
  exists f t had rest,
    In f (objs stB 0) /\ fdone stB f = true /\ (woken stB f = true \/ fcancelled stB f = true) /\
    t < length (tasks stB) /\ tframes stB t = InFut f :: InAcquireP 0 f had :: rest /\
    tdone stB t = false /\ PartTables.hcnt stB t = 1 /\ PartTables.bo stB t = None /\
    (forall g, fdone stB g = false -> PartTables.ccnt stB t g = 0).
Proof.
  assert (B : both_ok st0 (acts_a ++ acts_b)).
  { apply (both_ok_app st0 (acts_a ++ acts_b) acts_c). rewrite <- app_assoc. apply both_ok_example. }
  destruct (reach_list 0 [] [LPrio] [] 0 (acts_a ++ acts_b) B) as (I & H4 & L & I9).
  apply (wake_in_flight_full _ _ I H4 L I9).
  - apply (no_ext_small _ 4); vm_compute; reflexivity.
  - vm_compute. reflexivity.
  - vm_compute. reflexivity.
  - vm_compute. discriminate.
Qed.

(* stC: every task is done and the lock is clean *)
Example stC_quiescent :
  lowner (getl stC 0) = None /\ llocked (getl stC 0) = false /\ pq_objs (lpq (getl stC 0)) = [] /\
  (forall t, ~ In 0 (tholding (gett stC t))) /\ (forall t fr, In fr (tframes stC t) -> False).
Proof.
  destruct (reach_list 0 [] [LPrio] [] 0 (acts_a ++ acts_b ++ acts_c) both_ok_example) as (I & H4 & L & I9).
  apply (quiescent_clean stC I L).
  - intros t Ht. change (length (tasks stC)) with 4 in Ht.
    do 4 (destruct t as [|t]; [vm_compute; reflexivity|]). lia.
  - apply (no_ext_small _ 4); vm_compute; reflexivity.
  - intros l t. destruct l as [|l]; [vm_compute; discriminate|].
    rewrite getl_oob; [discriminate|]. change (length (locks stC)) with 1. lia.
  - change (length (locks stC)) with 1. lia.
  - vm_compute. reflexivity.
Qed.

(* stB on the list loop: the queue is [W2's wake-up; W1's wake-up]; the first step (the
   cancelled W2 leaving the queue) only pops, so W1's handle - position 1 - is run by the
   second step, and W1 completes *)
Example stB_progress :
  ready stB = RList [7; 5] /\ task_of_handle stB 5 = Some 1 /\ fifo 1 stB /\
  ready (steps 1 stB) = RList [5] /\ tdone (steps 2 stB) 1 = true.
Proof.
  split; [vm_compute; reflexivity|]. split; [vm_compute; reflexivity|]. split.
  - split; [|exact I]. exists [7; 5], []. split; vm_compute; reflexivity.
  - split; vm_compute; reflexivity.
Qed.

(* ================================================================ 12. final forms (both loops) *)
Theorem reach_any prio factor draws lks cds nev acts :
  let s0 := init_st prio factor draws lks cds nev in
  both_ok s0 acts ->
  let s := fold_left do_action acts s0 in
  exists qok, Inv s /\ WF4 s /\ LV [] s /\ PartitionRun.Inv09 qok s.
Proof.
  intros s0 B s. destruct prio.
  - exists PrioQueueBoost.qok_boost. now apply reach_prio.
  - exists PartitionFinal.qok_list. now apply reach_list.
Qed.

Theorem waiter_link_reach prio factor draws lks cds nev acts :
  run_ok (init_st prio factor draws lks cds nev) acts ->
  let s := fold_left do_action acts (init_st prio factor draws lks cds nev) in
  (forall l f, In f (pq_objs (lpq (getl s l))) ->
     exists t had rest, t < length (tasks s) /\ tframes s t = InFut f :: InAcquireP l f had :: rest) /\
  (forall t f, twaiter (gett s t) = Some f -> exists rest, tframes s t = InFut f :: rest).
Proof.
  intros H s. pose proof (C13_inv_all _ _ _ _ _ _ _ H) as I. pose proof (LV_reach _ _ _ _ _ _ _ H) as L.
  split.
  - intros l f Hf. now apply waiter_link.
  - apply (lv_j _ _ L).
Qed.

Theorem waiter_states_reach prio factor draws lks cds nev acts :
  let s0 := init_st prio factor draws lks cds nev in
  run_ok s0 acts -> PartitionRun.actions_ok s0 acts ->
  let s := fold_left do_action acts s0 in
  (forall t, tdone s t = true -> tframes s t = []) ->
  forall l f, In f (pq_objs (lpq (getl s l))) ->
  exists t had rest,
    t < length (tasks s) /\ tframes s t = InFut f :: InAcquireP l f had :: rest /\
    tdone s t = false /\
    ((fdone s f = false /\ twaiter (gett s t) = Some f /\
      PartTables.hcnt s t = 0 /\ PartTables.ccnt s t f = 1) \/
     (PartTables.bo s t = None /\ PartTables.hcnt s t = 1 /\
      forall g, fdone s g = false -> PartTables.ccnt s t g = 0)).
Proof.
  intros s0 H1 H2 s Hext l f Hf.
  destruct (reach_any prio factor draws lks cds nev acts (conj H1 H2)) as (qok & I & _ & L & I9).
  now apply (waiter_states qok s I L I9 Hext).
Qed.

Theorem wake_in_flight_full_reach prio factor draws lks cds nev acts :
  let s0 := init_st prio factor draws lks cds nev in
  run_ok s0 acts -> PartitionRun.actions_ok s0 acts ->
  let s := fold_left do_action acts s0 in
  (forall t, tdone s t = true -> tframes s t = []) ->
  forall l, lkind_ (getl s l) = LPrio -> llocked (getl s l) = false ->
    pq_objs (lpq (getl s l)) <> [] ->
  exists f t had rest,
    In f (pq_objs (lpq (getl s l))) /\ fdone s f = true /\
    (woken s f = true \/ fcancelled s f = true) /\
    t < length (tasks s) /\ tframes s t = InFut f :: InAcquireP l f had :: rest /\
    tdone s t = false /\ PartTables.hcnt s t = 1 /\ PartTables.bo s t = None /\
    (forall g, fdone s g = false -> PartTables.ccnt s t g = 0).
Proof.
  intros s0 H1 H2 s Hext l Hk Hl Hne.
  destruct (reach_any prio factor draws lks cds nev acts (conj H1 H2)) as (qok & I & H4 & L & I9).
  now apply (wake_in_flight_full qok s I H4 L I9 Hext).
Qed.

Theorem quiescent_clean_reach prio factor draws lks cds nev acts :
  run_ok (init_st prio factor draws lks cds nev) acts ->
  let s := fold_left do_action acts (init_st prio factor draws lks cds nev) in
  (forall t, t < length (tasks s) -> tdone s t = true) ->
  (forall t, tdone s t = true -> tframes s t = []) ->
  (forall l t, lowner (getl s l) = Some t -> tdone s t = false) ->
  forall l, l < length (locks s) -> lkind_ (getl s l) = LPrio ->
    lowner (getl s l) = None /\ llocked (getl s l) = false /\ pq_objs (lpq (getl s l)) = [] /\
    (forall t, ~ In l (tholding (gett s t))) /\
    (forall t fr, In fr (tframes s t) -> False).
Proof.
  intros H s. apply quiescent_clean; [now apply C13_inv_all|now apply LV_reach].
Qed.

Theorem progress_list_reach factor draws lks cds nev acts :
  let s0 := init_st false factor draws lks cds nev in
  run_ok s0 acts -> PartitionRun.actions_ok s0 acts ->
  let s := fold_left do_action acts s0 in
  (forall t, tdone s t = true -> tframes s t = []) ->
  forall l, lkind_ (getl s l) = LPrio -> llocked (getl s l) = false ->
    pq_objs (lpq (getl s l)) <> [] ->
  exists q f t had rest i,
    ready s = RList q /\
    In f (pq_objs (lpq (getl s l))) /\ fdone s f = true /\
    tframes s t = InFut f :: InAcquireP l f had :: rest /\ tdone s t = false /\
    i < length q /\ task_of_handle s (nth i q 0) = Some t /\ hcancelled (geth s (nth i q 0)) = false /\
    (fifo i s -> exists rest', ready (steps i s) = RList (nth i q 0 :: rest') /\
       do_action (steps i s) AStep =
         (let s1 := (steps i s) <| ready := RList rest' |> in
          if hcancelled (geth s1 (nth i q 0)) then s1 else run_callback (hcb (geth s1 (nth i q 0))) s1)).
Proof.
  intros s0 H1 H2 s Hext l Hk Hl Hne.
  destruct (reach_list factor draws lks cds nev acts (conj H1 H2)) as (I & H4 & L & I9).
  assert (Eq : exists q, ready s = RList q).
  { pose proof (PartTables.i_qok (PartTables.i_wf (proj1 I9))) as Hq. fold s0 in Hq. fold s in Hq.
    destruct (ready s) as [q|p]; [eauto|destruct Hq]. }
  destruct Eq as [q Eq]. exists q.
  destruct (progress_list s q I H4 L I9 Hext Eq l Hk Hl Hne) as (f & t & had & rest & i & H).
  exists f, t, had, rest, i. split; [exact Eq|exact H].
Qed.
