(* Finished tasks are inert: the domain condition nec ("no external completion of a task's
   future"), and the invariant XI beside InvC through lib_call (all libops), frame_resume (all
   frames), resume_stack, task creation and user code (exec, every coro tree). *)
From Coq Require Import QArith Sorting.Permutation.
From RecordUpdate Require Import RecordUpdate.
From Asynkit Require Import Base.Prelude Queue.ListFacts Queue.PQ Queue.Order Queue.PQProofs Queue.PosPQ Queue.Exec
     Queue.HeapqProofs Sched.Model Sched.PartTables Sched.PartitionProofs Sched.PartitionSteps
     Sched.PartitionRun Sched.ThrowProofs Sched.QFacts Sched.InertBase Sched.InertOps.
Import RecordSetNotations.
Open Scope nat_scope.

(* ------------------------------------------------------------ the domain condition *)
(* f is not the future of any task (boolean, so that it is decided by computation on examples) *)
Definition notaskb (s : st) (f : nat) : bool :=
  forallb (fun tk => negb (Nat.eqb (tfut tk) f)) (tasks s).

Lemma notaskb_ok s f : notaskb s f = true -> not_task_fut s f.
Proof.
  unfold notaskb, not_task_fut, gett. intros H t Ht E. rewrite forallb_forall in H.
  specialize (H (nth t (tasks s) dtask) (nth_In _ _ Ht)). rewrite E, Nat.eqb_refl in H. discriminate.
Qed.

(* the three operations with which code can resolve / fail / cancel-as-a-future a future are
   not applied to the future that belongs to a task (asyncio: Task.set_result / set_exception
   raise RuntimeError, and Task.cancel is not Future.cancel) *)
Definition op_nec (s : st) (op : libop) : Prop :=
  match op with
  | OSetResult f _ | OSetExc f _ | OFutCancel f => notaskb s f = true
  | _ => True
  end.

(* ... for every library call executed while task t runs the code c from state s *)
Fixpoint exec_nec (t : nat) (c : coro) (s : st) {struct c} : Prop :=
  match c with
  | Ret _ | Raise _ => True
  | Call op k =>
      op_nec s op /\
      (let '(s', r) := lib_call t op s in
       match r with LDone rep => exec_nec t (k rep) s' | LSusp _ _ => True end)
  | Spawn SEager child k =>
      exec_nec t child s /\
      (let '(s, o) := exec t child s in
       match o with
       | ODone r =>
           let '(s, f) := new_future s None in
           let s := fst (fut_finish s f (match r with RVal v => FResult v | RExc e => FExc e end)) in
           exec_nec t (k (RVal (Z.of_nat f))) s
       | OYield y frs kc =>
           let s := match y with
                    | YFut f => setf s f (getf s f <| fblock := false |>)
                    | YNone => s end in
           let tn := length (tasks s) in
           let '(s, f) := new_future s (Some tn) in
           let s := s <| tasks := tasks s ++ [mkTask KC None f (TEager y frs kc) None false [] None] |> in
           let s := call_soon_ s (HStep tn None) in
           exec_nec t (k (RVal (Z.of_nat f))) s
       end)
  | Spawn how child k =>
      let '(s, t') := spawn_task s how child in
      match how with
      | SDescend =>
          let '(s, r) := lib_call t (OTaskSwitch t' (Some 1)) s in
          match r with
          | LDone (RExc e) => exec_nec t (k (RExc e)) s
          | LDone (RVal _) => exec_nec t (k (RVal (Z.of_nat t'))) s
          | LSusp _ _ => True
          end
      | SStart => True
      | _ => exec_nec t (k (RVal (Z.of_nat t'))) s
      end
  end.

Section Lib.
Variable qok : rq -> Prop.
Hypothesis QS : QSpec qok.
Notation WF := (WF qok).
Notation InvC := (InvC qok).
Notation K := (K qok).
Notation KX := (KX qok).

(* ------------------------------------------------------------ small frame facts *)
Lemma fext_wake_up_first_p s l : fext s (wake_up_first_p s l).
Proof. unfold wake_up_first_p. repeat case_goal; try apply fext_refl. apply fext_fut_finish. Qed.
Lemma fext_wake_up_first_a s l : fext s (wake_up_first_a s l).
Proof. unfold wake_up_first_a. repeat case_goal; try apply fext_refl. apply fext_fut_finish. Qed.

Lemma fext_release s t l : fext s (fst (release s t l)).
Proof.
  unfold release, release_p, release_a.
  repeat case_goal; cbn [fst]; try apply fext_refl;
    (eapply fext_trans; [|first [apply fext_wake_up_first_p|apply fext_wake_up_first_a]]);
    apply fext_eq; reflexivity.
Qed.

Lemma KX_call_at c s0 s w c0 s' h :
  call_at s w c0 = (s', h) -> task_of_cb c0 = None -> (forall f v, c0 = HSetResult f v -> ntf s f) ->
  KX c s0 s -> KX c s0 s' /\ h = length (handles s) /\ nontask s' h.
Proof.
  intros E Hn Hs [HK X].
  destruct (call_at_facts qok c s0 s w c0 Hn HK) as (HK2 & Eh & Hnt).
  rewrite E in HK2, Eh, Hnt. simpl in HK2, Eh, Hnt. subst h. split; [|split; auto].
  split; auto. replace s' with (fst (call_at s w c0)) by (rewrite E; reflexivity).
  apply (XI_call_at qok); auto. apply HK.
Qed.

Lemma KX_event_set_fold c s0 : forall ws s,
  KX c s0 s -> (forall f, In f ws -> ntf s f) ->
  KX c s0 (fold_left (fun s f => if fdone s f then s else fst (fut_finish s f (FResult 1))) ws s).
Proof.
  induction ws as [|f ws IH]; intros s HK Hw; simpl; auto. apply IH.
  - destruct (fdone s f); auto. apply KX_fut_finish_fst'; auto; [discriminate|].
    intros _. apply (Hw f). left; reflexivity.
  - intros g Hg. destruct (fdone s f); [apply Hw; right; exact Hg|].
    eapply ntf_fext; [apply fext_fut_finish|]. apply Hw. right; exact Hg.
Qed.

Ltac xprim ::=
  first
    [ xeq KX_new_future_eq | xeq KX_task_cancel | xeq KX_cancel_task | xeq KX_cancel_awaitable
    | xeq KX_task_reinsert
    | apply KX_call_pos_nt; [eassumption|reflexivity|intros ? ?; discriminate|]
    | xap KX_task_reschedule | xap KX_propagate_priority | xap KX_queue_iterated
    | xeq KX_release | xeq KX_acquire_start | xeq KX_take_lock | xeq KX_cond_p_after
    | xap KX_notify_p | xap KX_notify_i
    | xeq KX_task_throw | xeq KX_fut_result | xeq KX_await_fut | xeq KX_reacquire
    | xeq KX_acquire_p_finish | xeq KX_acquire_a_finish ].

Lemma lib_call_KX c t op s s' r :
  lib_call t op s = (s', r) -> op_ok (length (blocks s)) op -> op_nec s op ->
  InvC c s -> XI c s -> KX c s s'.
Proof.
  intros E Hop Hn I X. pose proof (KX_refl qok c s I X) as HK.
  destruct op; cbn [lib_call] in E.
  - (* OLog *) ksplit E; xgo.
  - (* OSleep0 *) ksplit E; xgo.
  - (* OSleep *)
    destruct (new_future s None) as [s1 f] eqn:N.
    pose proof (KX_new_future_eq qok c s s None s1 f N HK) as HK1.
    destruct (call_at s1 (now s1 + d)%Q (HSetResult f 0)) as [s2 h] eqn:A.
    destruct (KX_call_at c s s1 _ _ s2 h A eq_refl) with (2 := HK1) as (HK2 & _ & _).
    { intros f' v' Eq. inversion Eq; subst. eapply ntf_new_future_eq; eauto. }
    inversion E; subst; clear E. xgo.
  - (* ONewFut *) ksplit E; xgo.
  - (* OAwaitFut *) eapply KX_await_fut; eauto.
  - (* OAwaitTask *) eapply KX_await_fut; eauto.
  - (* OSetResult *)
    destruct (fut_finish s f (FResult v)) as [s1 ok] eqn:F. inversion E; subst; clear E.
    eapply KX_fut_finish_n; [exact QS| |exact F| |exact HK]; [discriminate|].
    intros _. apply notaskb_ok. exact Hn.
  - (* OSetExc *)
    destruct (fut_finish s f (FExc e)) as [s1 ok] eqn:F. inversion E; subst; clear E.
    eapply KX_fut_finish_n; [exact QS| |exact F| |exact HK]; [discriminate|].
    intros _. apply notaskb_ok. exact Hn.
  - (* OFutCancel *)
    destruct (fut_finish s f FCancelled) as [s1 ok] eqn:F. inversion E; subst; clear E.
    eapply KX_fut_finish_n; [exact QS| |exact F| |exact HK]; [discriminate|].
    intros _. apply notaskb_ok. exact Hn.
  - (* OCancel *) ksplit E; xgo.
  - (* OEventWait *) ksplit E; xgo.
    intros _ g Hg. cbn in Hg. apply in_app_or in Hg. destruct Hg as [Hg|[<-|[]]]; [left; exact Hg|].
    right. eapply ntf_new_future_eq; eauto.
  - (* OEventSet *)
    ksplit E; auto.
    assert (HK1 : KX c s (sete s e (mkEv true (ewaiters (gete s e))))) by xgo.
    apply KX_event_set_fold; [exact HK1|].
    intros f Hf. apply (x_qe (KX_x _ _ _ _ HK1) e). exact Hf.
  - (* OEventClear *) ksplit E; xgo.
  - (* OAcquire *) eapply KX_acquire_start; eauto.
  - (* ORelease *) ksplit E; xgo.
  - (* OCondWait *)
    destruct (negb (cond_locked s c0)); [inversion E; subst; auto|].
    destruct (ckind_ (getc s c0)).
    + (* CPrio *)
      destruct (new_future s None) as [s1 f] eqn:N.
      pose proof (KX_new_future_eq qok c s s None s1 f N HK) as HK1.
      destruct (release s1 t (clock (getc s c0))) as [s2 rr] eqn:R.
      pose proof (KX_release qok QS c s s1 t _ s2 rr R HK1) as HK2.
      assert (Nf : ntf s2 f).
      { eapply ntf_fext; [|eapply ntf_new_future_eq; eauto].
        pose proof (fext_release s1 t (clock (getc s c0))) as Fx. rewrite R in Fx. exact Fx. }
      destruct rr as [v|e].
      * inversion E; subst; clear E. xgo.
        -- intros _ g Hg. unfold qf_c in *. cbn in Hg. apply in_app_or in Hg. destruct Hg as [Hg|Hg].
           ++ apply pq_add_in in Hg. destruct Hg as [->|Hg]; [right; exact Nf|left; apply in_or_app; auto].
           ++ left; apply in_or_app; auto.
        -- intros X2. apply PQInv_add. apply (x_pc X2).
      * destruct (cond_p_after s2 c0 (RExc e)) as [s3 r3] eqn:C. inversion E; subst.
        eapply KX_cond_p_after; eauto.
    + (* CIntr *)
      destruct (release s t (clock (getc s c0))) as [s1 rr] eqn:R.
      pose proof (KX_release qok QS c s s t _ s1 rr R HK) as HK1.
      destruct rr; [|inversion E; subst; auto].
      destruct (new_future s1 None) as [s2 f] eqn:N.
      pose proof (KX_new_future_eq qok c s s1 None s2 f N HK1) as HK2.
      inversion E; subst; clear E. xgo.
      intros _ g Hg. unfold qf_c in Hg. cbn in Hg. rewrite app_assoc in Hg. apply in_app_or in Hg.
      destruct Hg as [Hg|[<-|[]]]; [left; exact Hg|right; eapply ntf_new_future_eq; eauto].
  - (* OCondNotify *) ksplit E; xgo.
  - ksplit E; xgo.
  - (* OSleepInsert *) ksplit E; xgo.
  - (* OTaskSwitch *) ksplit E; xgo.
  - ksplit E; xgo.
  - ksplit E; xgo.
  - ksplit E; xgo.
  - (* OTaskThrow *) ksplit E; xgo.
  - (* OTaskInterrupt *) eapply KX_task_interrupt_start; eauto.
  - (* OTimeoutEnter *)
    destruct d as [d|]; [|ksplit E; xgo].
    destruct (call_at s (now s + d)%Q (HTrigger (length (blocks s)))) as [s1 h] eqn:A.
    destruct (KX_call_at c s s _ _ s1 h A eq_refl) with (2 := HK) as (HK2 & Eh & Hnt).
    { intros f' v' Eq. discriminate. }
    inversion E; subst; clear E. apply KX_blocks_app; auto.
  - (* OTimeoutExit *)
    simpl in Hop. inversion E; subst; clear E.
    apply KX_cancel_handle.
    + eapply nontask_same; [|apply (i_blk (i_wf I)); exact Hop]. reflexivity.
    + apply KX_setb; auto.
  - (* OInterruptor *)
    destruct (interruptor 4 s b 0) as [s1 r1] eqn:N.
    pose proof (KX_interruptor qok QS c s 4 s b 0 s1 r1 N HK) as HK1.
    destruct (interruptor_wrap_eq _ _ _ _ E) as [-> Hr]. auto.
  - ksplit E; xgo.
  - ksplit E; xgo.
  - ksplit E; xgo.
  - ksplit E; xgo.
  - ksplit E; xgo.
  - ksplit E; xgo.
Qed.


Lemma qf_c_rem cd f p q' g :
  PQInv (cpq cd) -> pq_remove HQ (cpq cd) (Z.of_nat f) = Some (p, q') ->
  In g (qf_c (cd <| cpq := q' |>)) -> In g (qf_c cd).
Proof.
  unfold qf_c. cbn. intros Hi R H. apply in_app_or in H. apply in_or_app. destruct H as [H|H]; auto.
  left. eapply pq_remove_in; eauto.
Qed.

Lemma frame_resume_KX c t fr inp s s' r :
  frame_resume t fr inp s = (s', r) -> frame_ok s fr -> InvC c s -> XI c s -> KX c s s'.
Proof.
  intros E Hfr I X. pose proof (KX_refl qok c s I X) as HK.
  destruct fr; cbn [frame_resume] in E.
  - ksplit E; xgo.
  - ksplit E; xgo.
  - inversion E; subst. apply KX_cancel_handle; auto.
  - (* InEventWait *)
    ksplit E; xgo.
    all: intros _ g Hg; left; cbn in Hg; apply filter_In in Hg; apply Hg.
  - ksplit E; xgo.
  - ksplit E; xgo.
  - (* InCondWaitP *)
    set (s1 := match pq_remove HQ (cpq (getc s c0)) (Z.of_nat f) with
               | Some (_, q') => setc s c0 (getc s c0 <| cpq := q' |>) | None => s end) in *.
    assert (HK1 : KX c s s1).
    { unfold s1. destruct (pq_remove HQ (cpq (getc s c0)) (Z.of_nat f)) as [[p q']|] eqn:R; auto.
      apply KX_setc; auto.
      - intros X1 g Hg. left. eapply qf_c_rem; [apply (x_pc X1)|exact R|exact Hg].
      - intros X1. destruct (pq_remove_perm _ _ _ _ (x_pc X1 c0) R) as [Hq _]. exact Hq. }
    destruct (reacquire s1 t c0 true None _) as [s2 r2] eqn:R.
    pose proof (KX_reacquire qok QS _ _ _ _ _ _ _ _ _ _ R HK1) as HK2.
    destruct r2 as [rep|y frs].
    + destruct (cond_p_after s2 c0 rep) as [s3 r3] eqn:C. inversion E; subst.
      eapply KX_cond_p_after; eauto.
    + inversion E; subst. auto.
  - (* InReleasedP *)
    destruct inp as [v|e].
    + destruct (cond_p_after s c0 _) as [s3 r3] eqn:C. inversion E; subst.
      eapply KX_cond_p_after; eauto.
    + destruct (is_cancel e).
      * destruct (reacquire s t c0 true (Some e) body) as [s2 r2] eqn:R.
        pose proof (KX_reacquire qok QS _ _ _ _ _ _ _ _ _ _ R HK) as HK2.
        destruct r2 as [rep|y frs].
        { destruct (cond_p_after s2 c0 rep) as [s3 r3] eqn:C. inversion E; subst.
          eapply KX_cond_p_after; eauto. }
        { inversion E; subst. auto. }
      * destruct (cond_p_after s c0 (RExc e)) as [s3 r3] eqn:C. inversion E; subst.
        eapply KX_cond_p_after; eauto.
  - (* InCondWaitI *)
    eapply KX_reacquire; [exact QS|exact E|]. apply KX_setc; auto; [|intros X1; apply (x_pc X1)].
    intros _ g Hg. left. unfold qf_c in *. cbn in Hg. apply in_app_or in Hg. apply in_or_app.
    destruct Hg as [Hg|Hg]; auto. apply filter_In in Hg. right. apply Hg.
  - (* InReacquireI *)
    destruct inp as [v|e]; [inversion E; subst; auto|].
    destruct (is_cancel e); [|inversion E; subst; auto].
    eapply KX_reacquire; eauto.
  - (* InIntr *)
    destruct inp as [v|e].
    + destruct (interruptor 4 s b (S i)) as [s1 r1] eqn:N.
      pose proof (KX_interruptor qok QS c s 4 s b (S i) s1 r1 N HK) as HK1.
      destruct (interruptor_wrap_eq _ _ _ _ E) as [-> Hr]. auto.
    + destruct (_ && _).
      * destruct (interruptor_wrap_eq _ _ _ _ E) as [-> Hr]. auto.
      * destruct (interruptor_wrap_eq _ _ _ _ E) as [-> Hr]. auto.
Qed.

Lemma resume_stack_KX c t : forall frs inp s s' r,
  resume_stack t frs inp s = (s', r) -> Forall (frame_ok s) frs -> InvC c s -> XI c s -> KX c s s'.
Proof.
  induction frs as [|fr rest IH]; intros inp s s' r E Hf I X; cbn [resume_stack] in E.
  - inversion E; subst. apply KX_refl; auto.
  - inversion Hf as [|? ? Hfr Hrest]; subst.
    destruct (frame_resume t fr inp s) as [s1 r1] eqn:F.
    pose proof (frame_resume_KX c t fr inp s s1 r1 F Hfr I X) as HK1.
    destruct r1 as [rep|y frs'].
    + eapply KX_trans; [exact HK1|]. eapply IH; [exact E| |apply HK1|apply HK1].
      eapply frames_ok_ext; [apply HK1|exact Hrest].
    + inversion E; subst. exact HK1.
Qed.

(* ------------------------------------------------------------ creating a task *)
Lemma add_task_XI c s kind p k0 :
  InvC c s -> tcont_ok s k0 -> XI c s -> XI c (add_task s kind p k0).
Proof.
  intros I Hk X. set (tn := length (tasks s)). set (f := length (futs s)).
  pose proof (K_new_future qok c s s (Some tn) (K_refl qok c s I)) as [I1 E1].
  set (s1 := fst (new_future s (Some tn))) in *.
  destruct (new_future_pending s (Some tn)) as (Lf & Pf & Cf & _). fold s1 in Lf, Pf, Cf. fold f in Lf, Pf, Cf.
  set (tk := mkTask kind p f k0 None false [] None).
  set (s2 := s1 <| tasks := tasks s1 ++ [tk] |>).
  assert (G2 : forall t', t' < tn -> gett s2 t' = gett s t').
  { intros t' Ht'. unfold gett, s2; cbn. rewrite app_nth1 by auto. reflexivity. }
  assert (G2n : gett s2 tn = tk).
  { unfold gett, s2; cbn. rewrite app_nth2 by (unfold tn; lia). unfold tn. rewrite Nat.sub_diag. reflexivity. }
  assert (L2 : length (tasks s2) = S tn).
  { unfold s2; cbn. rewrite app_length; simpl. unfold tn. lia. }
  assert (W2 : WF s2).
  { destruct (i_wf I1) as [W1 W2 W3 W4 W5 W6 W7].
    constructor; [exact W1|exact W2|exact W3| |exact W5|exact W6|].
    - intros t' Ht'. rewrite L2 in Ht'. change (futs s2) with (futs s1). rewrite Lf.
      destruct (Nat.eq_dec t' tn) as [->|Hn].
      + rewrite G2n. simpl. unfold f. lia.
      + rewrite G2 by lia. pose proof (i_tfut (i_wf I) t' ltac:(fold tn; lia)). fold f. lia.
    - intros t' Ht'. rewrite L2 in Ht'. destruct (Nat.eq_dec t' tn) as [->|Hn].
      + rewrite G2n. simpl. eapply tcont_ok_eq; [| |exact Hk]; reflexivity.
      + rewrite G2 by lia. eapply tcont_ok_eq; [| |apply (i_frm (i_wf I)); fold tn; lia]; reflexivity. }
  destruct (call_soon_facts qok QS s2 (HStep tn None) W2) as (W3 & E3 & Eh3 & Hc3).
  change (add_task s kind p k0) with (call_soon_ s2 (HStep tn None)).
  set (s3 := call_soon_ s2 (HStep tn None)) in *.
  assert (Fd : forall g, fdone s3 g = fdone s g).
  { intros g. change (fdone s3 g) with (fdone s1 g). unfold fdone, s1.
    destruct (getf_new_future s (Some tn) g) as [-> _]. reflexivity. }
  assert (Cc : forall t' g, ccnt s3 t' g = ccnt s t' g).
  { intros t' g. change (ccnt s3 t' g) with (ccnt s1 t' g). unfold ccnt, s1.
    destruct (getf_new_future s (Some tn) g) as [_ ->]. reflexivity. }
  assert (Hh : forall t', hcnt s3 t' = hcnt s t' + (if Nat.eqb t' tn then 1 else 0)).
  { intros t'. rewrite Hc3. reflexivity. }
  assert (Fx : fext s s3).
  { change (fext s s1). apply fext_new_future. }
  assert (Eg : forall t', t' < tn -> gett s3 t' = gett s t') by (intros; change (gett s3 t') with (gett s2 t'); auto).
  assert (L3 : length (tasks s3) = S tn) by exact L2.
  assert (Tn : tdone s3 tn = false).
  { unfold tdone. change (gett s3 tn) with (gett s2 tn). rewrite G2n. simpl. change (fdone s3 f) with (fdone s1 f). exact Pf. }
  constructor.
  - rewrite L3. intros t' Ht' Hd. destruct (Nat.eq_dec t' tn) as [->|Hn]; [congruence|].
    assert (Ht0 : t' < tn) by lia. unfold tdone in Hd. rewrite Eg, Fd in Hd by auto.
    destruct (x_dead X t' Ht0 Hd) as [D1 D2]. split.
    + rewrite Hh, D1. destruct (Nat.eqb_spec t' tn); [congruence|reflexivity].
    + intros g Hg. rewrite Fd in Hg. rewrite Cc. auto.
  - intros t' Hc. pose proof (i_cur I t' Hc) as Ht0. fold tn in Ht0.
    unfold tdone. rewrite Eg, Fd by auto. apply (x_alive X t' Hc).
  - rewrite L3. intros t' Ht'. destruct Fx as [F1 F2]. destruct (Nat.eq_dec t' tn) as [->|Hn].
    + assert (Etn : gett s3 tn = tk) by (change (gett s3 tn) with (gett s2 tn); exact G2n).
      rewrite Etn. change (tfut tk) with f. split.
      * change (length (futs s3)) with (length (futs s1)). rewrite Lf. unfold f. lia.
      * change (getf s3 f) with (getf s1 f). unfold s1, new_future, getf; cbn. unfold f.
        rewrite app_nth2, Nat.sub_diag by lia. reflexivity.
    + assert (Ht0 : t' < tn) by lia. rewrite Eg by auto. destruct (x_ow X t' Ht0) as [O1 O2].
      split; [lia|]. rewrite F2; auto.
  - intros l g Hg. eapply ntf_fext; [exact Fx|]. eapply (x_ql X); eauto.
  - apply (x_pl X).
  - intros k g Hg. eapply ntf_fext; [exact Fx|]. eapply (x_qc X); eauto.
  - apply (x_pc X).
  - intros e g Hg. eapply ntf_fext; [exact Fx|]. eapply (x_qe X); eauto.
  - intros h g v H. eapply ntf_fext; [exact Fx|].
    destruct (qh_app s s3 [mkH (HStep tn None) false]) with (h := h) (f := g) (v := v) as [h' H']; auto.
    + intros y g' v' [<-|[]]. discriminate.
    + eapply (x_qh X); eauto.
Qed.

Lemma add_task_KX c s kind p k0 :
  InvC c s -> tcont_ok s k0 -> XI c s -> KX c s (add_task s kind p k0).
Proof. intros I Hk X. split; [apply add_task_K; auto|apply add_task_XI; auto]. Qed.

Lemma spawn_task_KX c s how c0 s' t' :
  spawn_task s how c0 = (s', t') -> InvC c s -> XI c s -> coro_ok (length (blocks s)) c0 -> KX c s s'.
Proof.
  intros E I X Hc. unfold spawn_task in E.
  destruct how; rewrite new_task_add in E; inversion E; subst; apply add_task_KX; auto.
Qed.


(* ------------------------------------------------------------ user code *)
Lemma exec_KX c t : forall c0 s s' o,
  exec t c0 s = (s', o) -> coro_ok (length (blocks s)) c0 -> exec_nec t c0 s ->
  InvC c s -> XI c s -> KX c s s'.
Proof.
  induction c0 as [v|e|op k IH|how child IHc k IHk]; intros s s' o E Hok Hn I X.
  - inversion E; subst. apply KX_refl; auto.
  - inversion E; subst. apply KX_refl; auto.
  - cbn [exec] in E. cbn [exec_nec] in Hn. destruct Hn as [Hn1 Hn2].
    destruct (lib_call t op s) as [s1 r] eqn:L.
    pose proof (lib_call_KX c t op s s1 r L (proj1 Hok) Hn1 I X) as HK1.
    pose proof (lib_call_kont _ t op k s s1 r Hok (Nat.le_refl _) L (e_blen (proj2 (KX_k _ _ _ _ HK1)))) as Hk1.
    destruct r as [rep|y frs].
    + eapply KX_trans; [exact HK1|]. eapply IH; [exact E|exact Hk1|exact Hn2|apply HK1|apply HK1].
    + inversion E; subst. exact HK1.
  - destruct Hok as [Hchild Hk].
    assert (Hk' : forall s2, K c s s2 -> kont_ok (length (blocks s2)) k).
    { intros s2 H2. intros m rep Hm. apply Hk. pose proof (e_blen (proj2 H2)). lia. }
    destruct how.
    1,2,3: (cbn [exec] in E; cbn [exec_nec] in Hn; destruct (spawn_task s _ child) as [s1 t'] eqn:S;
            pose proof (spawn_task_KX c s _ child s1 t' S I X Hchild) as HK1;
            eapply KX_trans; [exact HK1|];
            eapply IHk; [exact E|apply (Hk' s1 (KX_k _ _ _ _ HK1)); lia|exact Hn|apply HK1|apply HK1]).
    + (* SDescend *)
      cbn [exec] in E. cbn [exec_nec] in Hn. destruct (spawn_task s SDescend child) as [s1 t'] eqn:S.
      pose proof (spawn_task_KX c s _ child s1 t' S I X Hchild) as HK1.
      destruct (lib_call t (OTaskSwitch t' (Some 1)) s1) as [s2 r] eqn:L.
      pose proof (lib_call_KX c t _ s1 s2 r L Logic.I Logic.I (KX_inv _ _ _ _ HK1) (KX_x _ _ _ _ HK1)) as HK2.
      pose proof (KX_trans qok c s s1 s2 HK1 HK2) as HK12.
      destruct r as [[v|e]|y frs].
      * eapply KX_trans; [exact HK12|].
        eapply IHk; [exact E|apply (Hk' s2 (KX_k _ _ _ _ HK12)); lia|exact Hn|apply HK2|apply HK2].
      * eapply KX_trans; [exact HK12|].
        eapply IHk; [exact E|apply (Hk' s2 (KX_k _ _ _ _ HK12)); lia|exact Hn|apply HK2|apply HK2].
      * inversion E; subst. exact HK12.
    + (* SStart *)
      cbn [exec] in E. destruct (spawn_task s SStart child) as [s1 t'] eqn:S.
      pose proof (spawn_task_KX c s _ child s1 t' S I X Hchild) as HK1.
      inversion E; subst. exact HK1.
    + (* SEager *)
      cbn [exec] in E. cbn [exec_nec] in Hn. destruct Hn as [Hnc Hn].
      destruct (exec t child s) as [s1 o1] eqn:X0.
      pose proof (IHc s s1 o1 X0 Hchild Hnc I X) as HK1.
      destruct (exec_K qok QS c t child s s1 o1 X0 Hchild I) as [_ Ho1].
      destruct o1 as [r|y frs kc].
      * destruct (new_future s1 None) as [s2 f] eqn:N.
        assert (HK2 : KX c s (fst (fut_finish s2 f match r with RVal v => FResult v | RExc e => FExc e end))).
        { apply KX_fut_finish_fst'; [exact QS|destruct r; discriminate| |eapply KX_new_future_eq; eauto].
          intros _. apply (ntf_new_future_eq _ _ _ N). }
        eapply KX_trans; [exact HK2|].
        eapply IHk; [exact E|apply (Hk' _ (KX_k _ _ _ _ HK2)); lia|exact Hn|apply HK2|apply HK2].
      * set (s2 := match y with YFut f => setf s1 f (getf s1 f <| fblock := false |>) | YNone => s1 end) in *.
        assert (HK2 : KX c s s2) by (unfold s2; xgo).
        destruct Ho1 as [Hf1 Hkc].
        assert (Hk0 : tcont_ok s2 (TEager y frs kc)).
        { simpl. split.
          - eapply frames_ok_ext; [|exact Hf1]. unfold s2. destruct y; [apply ext_refl|].
            eapply ext_same; [..|apply ext_refl]; reflexivity.
          - replace (length (blocks s2)) with (length (blocks s1)); auto.
            unfold s2; destruct y; reflexivity. }
        pose proof (add_task_KX c s2 KC None (TEager y frs kc) (KX_inv _ _ _ _ HK2) Hk0 (KX_x _ _ _ _ HK2)) as HK3.
        pose proof (KX_trans qok c s s2 _ HK2 HK3) as HK23.
        change (exec t (k (RVal (Z.of_nat (length (futs s2))))) (add_task s2 KC None (TEager y frs kc))
                = (s', o)) in E.
        eapply KX_trans; [exact HK23|].
        eapply IHk; [exact E|apply (Hk' _ (KX_k _ _ _ _ HK23)); lia|exact Hn|apply HK3|apply HK3].
Qed.

End Lib.
