(* C16, timing half: complete runs (vm_compute) and non-vacuity of the hypotheses of
   TimerInv / TimerDue.  List loop, SPy task, virtual clock.

   The task sleeps 1 tick, then (at time 1) enters task_timeout(2) - deadline 3 - around sleep(X),
   logs 7 after the block, logs the exception leaving the try (904 = TimeoutError), then 8. *)
From Coq Require Import QArith Sorting.Permutation.
From RecordUpdate Require Import RecordUpdate.
From Asynkit Require Import Base.Prelude Queue.Heap Sched.Model Sched.Corr Sched.PartTables Sched.PartitionFinal
     Sched.TimeoutProofs Sched.TimerInv Sched.TimerDue.
Import RecordSetNotations.
Open Scope nat_scope.

Definition ex_dl (x : Q) : script :=
  STry (SDo (OSleep 1%Q) (STimeout (Some 2%Q) (SDo (OSleep x) SEnd) (SDo (OLog 7) SEnd)))
       CBase (SLogExc SEnd) SEnd (SDo (OLog 8) SEnd).

(* spawn; iteration (task starts, sleeps 1); clock = 1; iteration: the sleep's timer is due, its
   callback runs, the task wakes, enters the block (deadline 1 + 2 = 3) and sleeps X *)
Definition ex_dl_prefix (x : Q) : list saction :=
  [XSpawn SPy (ex_dl x); XBegin; XStep; XAdvance 1%Q; XBegin; XStep; XStep].

(* the body outlives the deadline (X = 5/2, it would end at 3.5): clock 2, iteration: nothing;
   clock 3, iteration: the trigger becomes ready; trigger; interruptor; target; interruptor ends *)
Definition ex_dl_long : list saction :=
  ex_dl_prefix (5 # 2) ++ [XAdvance 1%Q; XBegin; XAdvance 1%Q; XBegin; XStep; XStep; XStep; XStep].

Example ex_deadline_fires :
  let st_after n := run_acts (firstn n ex_dl_long) in
  (* entered at time 1: block 0 of task 0, active, trigger handle 3, timer entry (3, handle 3) *)
  (now (st_after 7) == 1 /\ blocks (st_after 7) = [mkBlk 0 true 3] /\
   geth (st_after 7) 3 = mkH (HTrigger 0) false /\
   filter (fun e => Nat.eqb (snd e) 3) (timers (st_after 7)) = [((1 + 2)%Q, 3)] /\
   rq_items (ready (st_after 7)) = []) /\
  (* clock 2 < 3, a whole iteration: nothing ready, still armed, nothing logged *)
  (now (st_after 9) == 2 /\ rq_items (ready (st_after 9)) = [] /\
   map bactive (blocks (st_after 9)) = [true] /\ hcancelled (geth (st_after 9) 3) = false /\
   filter (fun e => Nat.eqb (snd e) 3) (timers (st_after 9)) = [((1 + 2)%Q, 3)] /\
   events_of (st_after 9) = [] /\ length (tasks (st_after 9)) = 1) /\
  (* clock 3 = deadline: the iteration start moves the trigger to the ready queue *)
  (now (st_after 11) == 3 /\ rq_items (ready (st_after 11)) = [3] /\
   filter (fun e => Nat.eqb (snd e) 3) (timers (st_after 11)) = [] /\
   map bactive (blocks (st_after 11)) = [true]) /\
  (* the trigger runs: the interruptor task 1 exists, its first step is queued *)
  (length (tasks (st_after 12)) = 2 /\ tcont_ (gett (st_after 12) 1) = TNew (interruptor_body 0) /\
   rq_items (ready (st_after 12)) = [5] /\ geth (st_after 12) 5 = mkH (HStep 1 None) false) /\
  (* the interruptor's first step: the token is thrown, the target is the next handle *)
  (rq_items (ready (st_after 13)) = [6; 7] /\
   geth (st_after 13) 6 = mkH (HStep 0 (Some (ETimeoutInt 0))) false /\
   geth (st_after 13) 7 = mkH (HStep 1 None) false /\ events_of (st_after 13) = []) /\
  (* the target runs: TimeoutError (904) leaves the block, which is inactive, timer handle cancelled *)
  (events_of (st_after 14) = [904; 8]%Z /\ map bactive (blocks (st_after 14)) = [false] /\
   hcancelled (geth (st_after 14) 3) = true /\ now (st_after 14) == 3) /\
  (rq_items (ready (st_after 15)) = [] /\ errors (st_after 15) = [] /\
   map fstate_ (futs (st_after 15)) = [FResult 0; FResult 0; FPending; FResult 0]).
Proof. vm_compute. repeat split; try reflexivity; discriminate. Qed.

(* the body ends before the deadline (X = 3/2, it ends at 2.5 < 3): clock 2, iteration: nothing;
   clock 2.5, iteration: the sleep's timer is due, callback, the task wakes and LEAVES the block
   (7, 8): handle cancelled; clock 3, iteration: the cancelled timer is dropped from the heap, never
   becomes ready, no interruptor task is ever created *)
Definition ex_dl_short : list saction :=
  ex_dl_prefix (3 # 2) ++
  [XAdvance 1%Q; XBegin; XAdvance (1 # 2); XBegin; XStep; XStep; XAdvance (1 # 2); XBegin; XStep].

Example ex_deadline_not_reached :
  let st_after n := run_acts (firstn n ex_dl_short) in
  (now (st_after 9) == 2 /\ rq_items (ready (st_after 9)) = [] /\
   map bactive (blocks (st_after 9)) = [true] /\ hcancelled (geth (st_after 9) 3) = false) /\
  (* at 2.5 the task has left the block normally; the entry is still in the heap, cancelled *)
  (now (st_after 13) == (5 # 2) /\ events_of (st_after 13) = [7; 8]%Z /\
   map bactive (blocks (st_after 13)) = [false] /\ hcancelled (geth (st_after 13) 3) = true /\
   filter (fun e => Nat.eqb (snd e) 3) (timers (st_after 13)) = [((1 + 2)%Q, 3)] /\
   rq_items (ready (st_after 13)) = []) /\
  (* at 3 the iteration start drops it: nothing becomes ready, nothing is thrown *)
  (now (st_after 15) == 3 /\ timers (st_after 15) = [] /\ rq_items (ready (st_after 15)) = [] /\
   st_after 16 = st_after 15 /\ events_of (st_after 16) = [7; 8]%Z /\ length (tasks (st_after 16)) = 1 /\
   fstate_ (getf (st_after 16) 0) = FResult 0 /\ errors (st_after 16) = []).
Proof. vm_compute. repeat split; try reflexivity; discriminate. Qed.

(* exact tie (X = 2: the body's sleep and the deadline are both due at 3).  The block's timer
   was created first (heap order on equal `when`: array order), so its trigger is moved first, then the
   sleep's callback; trigger, set_result, interruptor (block still active: throws) - the block is
   interrupted although its sleep was over in the same iteration (the oracle accepts either) *)
Definition ex_dl_tie : list saction :=
  ex_dl_prefix 2 ++ [XAdvance 2%Q; XBegin; XStep; XStep; XStep; XStep; XStep].
Example ex_deadline_tie :
  let st_after n := run_acts (firstn n ex_dl_tie) in
  (rq_items (ready (st_after 9)) = [3; 4] /\ hcb (geth (st_after 9) 3) = HTrigger 0 /\
   hcb (geth (st_after 9) 4) = HSetResult 2 0) /\
  events_of (st_after 14) = [904; 8]%Z /\ map bactive (blocks (st_after 14)) = [false] /\
  rq_items (ready (st_after 14)) = [] /\ errors (st_after 14) = [].
Proof. vm_compute. repeat split; reflexivity. Qed.

(* ---- non-vacuity of the hypotheses: the state after a spawn satisfies EnterWf; entering a
   block there (from outside the loop) gives Inv, which then holds along every action list whose
   iteration starts are before the deadline *)
Definition ex_s0 : st := run_acts [XSpawn SPy (SDo (OSleep 1%Q) SEnd)].

Example ex_enter_wf : EnterWf qok_list ex_s0.
Proof.
  constructor.
  - exact Logic.I.
  - vm_compute. intros x [<-|[]]. lia.
  - vm_compute. intros b' Hb'. lia.
  - intros t h' Hin. destruct t as [|t]; [vm_compute in Hin; tauto|].
    unfold gett in Hin. rewrite nth_overflow in Hin by (vm_compute; lia). vm_compute in Hin. tauto.
  - vm_compute. tauto.
  - vm_compute. lia.
  - intros x b' Hx. vm_compute in Hx. assert (x = 0) by lia. subst x. vm_compute. discriminate.
  - vm_compute. constructor.
  - apply is_heap_nil.
Qed.

Example ex_inv_holds :
  let s1 := fst (lib_call 0 (OTimeoutEnter (Some 2%Q)) ex_s0) in
  Inv qok_list 0 1 (now ex_s0 + 2)%Q s1 /\
  (forall acts, early (now ex_s0 + 2)%Q (now s1) acts ->
     Inv qok_list 0 1 (now ex_s0 + 2)%Q (fold_left do_action acts s1)) /\
  early (now ex_s0 + 2)%Q (now s1)
        [ABegin; AStep; AAdvance 1%Q; ABegin; AStep; AStep; AAdvance (1 # 2); ABegin; AStep].
Proof.
  destruct (enter_arms qok_list 0 2%Q ex_s0 ex_enter_wf) as (E & _ & _ & _ & _ & I).
  cbv zeta. rewrite E. cbn [fst]. split; [exact I|]. split.
  - intros acts He. apply (armed_actions qok_list QSpec_list); auto.
  - vm_compute. repeat split; reflexivity.
Qed.
