(* C01, whole runs: the two start modes of an await-determined body establish the tracking
   invariant of EagerRun.v; the run theorems and an example. *)
From Coq Require Import QArith Sorting.Permutation.
From RecordUpdate Require Import RecordUpdate.
From Asynkit Require Import Base.Prelude Queue.ListFacts Queue.PQ Queue.PosPQ Queue.Exec
     Sched.Model Sched.Corr Sched.PartTables Sched.PartitionProofs Sched.PartitionSteps Sched.PartitionRun
     Sched.PartitionFinal Sched.FrameFacts Sched.TaskFrame Sched.ThrowProofs Sched.EagerProofs Sched.FutMono
     Sched.EagerRunOth Sched.EagerRun.
Import RecordSetNotations.
Open Scope nat_scope.

Lemma skipn_len_app {A} (a b : list A) : skipn (length a) (a ++ b) = b.
Proof. rewrite skipn_app, skipn_all, Nat.sub_diag. reflexivity. Qed.
Lemma map_snd_pair {A B} (x : A) (l : list B) : map snd (map (pair x) l) = l.
Proof. induction l; cbn; congruence. Qed.

Section Thm.
Variable qok : rq -> Prop.
Hypothesis QS : QSpec qok.
Variable P : nat -> Prop.

(* ---------------------------------------------------------------- plain task *)
Theorem plain_run s how c acts val :
  Inv09 qok s -> how <> SPy -> AD P c -> (forall f, P f -> f < length (futs s)) ->
  let tn := length (tasks s) in
  let s1 := do_action s (ASpawn how c) in
  let sf := fold_left do_action acts s1 in
  actions_ok s1 acts -> calm_run tn s1 acts -> agree P sf val ->
  tcont_ (gett sf tn) = TFin ->
  map snd (evlog tn (length (log s)) sf) = fst (ref_run c val) /\
  fstate_ (getf sf (tfut (gett sf tn))) = task_outcome (snd (ref_run c val)).
Proof.
  intros I Hh Hc Rng tn s1 sf Ha Hq A Fin.
  assert (Ex : exists p, s1 = fst (new_task s KC p c)).
  { unfold s1. cbn [do_action]. unfold spawn_task. destruct how; try congruence; eexists; reflexivity. }
  destruct Ex as [p E1].
  assert (Hcur : current s <> Some (length (tasks s))) by (rewrite (proj2 I); discriminate).
  destruct (start_plain qok QS P val None s p c (proj1 I) Hcur Hc Rng) as (X1 & T1 & R1 & _).
  cbv zeta in X1, T1, R1. rewrite <- E1 in X1, T1, R1. fold tn in X1, T1, R1.
  assert (B1 : B qok P val c tn (length (log s)) [] s1).
  { constructor; auto. apply (Inv09_action qok QS s (ASpawn how c) I). cbn. apply (AD_coro_ok P c Hc). }
  pose proof (B_run qok QS P val c tn _ [] acts s1 B1 Ha Hq A) as Bf. fold sf in Bf.
  destruct (B_final qok P val c tn _ [] sf Bf Fin) as [F1 F2]. cbn [app] in F1. auto.
Qed.

(* ---------------------------------------------------------------- eager start *)
Theorem eager_run s t c k acts val :
  InvC qok (Some t) s -> current s = Some t ->
  AD P c -> coro_ok (length (blocks s)) (Spawn SEager c k) ->
  (forall f, P f -> f < length (futs s)) ->
  forall s1 o1 s' o,
  exec t c s = (s1, o1) ->                       (* the synchronous prefix, inside the caller's step *)
  exec t (Spawn SEager c k) s = (s', o) ->       (* ... and the rest of the caller's activation *)
  let sb := finish_step t s' o <| current := None |> in
  let sf := fold_left do_action acts sb in
  let tn := length (tasks s1) in
  let pre := map snd (skipn (length (log s)) (log s1)) in
  let fid := length (futs s1) in
  actions_ok sb acts -> agree P sf val ->
  match o1 with
  | ODone _ =>
      pre = fst (ref_run c val) /\ fstate_ (getf sf fid) = reply_fstate (snd (ref_run c val))
  | OYield _ _ _ =>
      calm_run tn sb acts -> tcont_ (gett sf tn) = TFin ->
      pre ++ map snd (evlog tn (length (log s1)) sf) = fst (ref_run c val) /\
      fstate_ (getf sf (tfut (gett sf tn))) = task_outcome (snd (ref_run c val))
  end.
Proof.
  intros I Hcur Hc Hok Rng s1 o1 s' o E1 E sb sf tn pre fid Ha A.
  pose proof (i_cur I t eq_refl) as Lt.
  assert (Msb : FM s sb).
  { apply (FM_same s (finish_step t s' o)); [reflexivity|]. apply FM_finish_step.
    eapply FM_exec; [exact E|apply FM_refl]. }
  assert (As : agree P s val).
  { apply (agree_mono P s sf val); [|exact Rng|exact A].
    eapply FM_trans; [exact Msb|apply FM_actions]. }
  destruct (exec_AD P val t c Hc s s1 o1 Rng As E1) as (l & S1 & L1 & O1).
  assert (Tg : tagof s = S t) by (unfold tagof; rewrite Hcur; reflexivity).
  assert (Epre : pre = l).
  { unfold pre. rewrite L1, skipn_len_app, map_snd_pair. reflexivity. }
  rewrite eager_exec_eq, E1 in E.
  destruct o1 as [r|y frs kc].
  - (* finished synchronously: no task, a finished future *)
    rewrite O1. cbn [fst snd]. split; [exact Epre|].
    set (s2 := eager_done_state s1 r) in *.
    assert (M2 : FM s2 sf).
    { eapply FM_trans; [|apply FM_actions]. apply (FM_same s2 (finish_step t s' o)); [reflexivity|].
      apply FM_finish_step. eapply FM_exec; [exact E|apply FM_refl]. }
    assert (G2 : getf s2 fid = mkFut (reply_fstate r) [] false None None).
    { unfold s2, eager_done_state, getf, fid. cbn. rewrite app_nth2 by lia. rewrite Nat.sub_diag. reflexivity. }
    rewrite (FM_write_once s2 sf fid M2).
    + rewrite G2. reflexivity.
    + unfold s2, eager_done_state, fid. cbn. rewrite app_length. cbn. lia.
    + rewrite G2. destruct r; discriminate.
  - (* suspended: the continuation task tn *)
    intros Hq Fin. destruct O1 as (Fy & Ak & Yo & Rr). destruct S1 as [S1 S2 S3 S4 S5 S6].
    destruct (exec_K qok QS (Some t) t c s s1 _ E1 (AD_coro_ok P c Hc _) I) as [[I1 _] _].
    set (sa := set_flag false s1 y).
    assert (Ia : InvC qok (Some t) sa).
    { unfold sa, set_flag. destruct y as [|f]; [exact I1|].
      apply (K_setf qok (Some t) s1 s1); try reflexivity. apply K_refl. exact I1. }
    assert (Ta : tasks sa = tasks s1) by apply tasks_set_flag.
    assert (Fa : length (futs sa) = length (futs s1)) by apply length_futs_set_flag.
    assert (Etn : length (tasks sa) = tn) by (rewrite Ta; reflexivity).
    set (x := eager_task (length (futs sa)) y frs kc).
    set (fx := mkFut FPending [] false (Some (length (tasks sa))) None).
    set (u := sa <| futs := futs sa ++ [fx] |> <| tasks := tasks sa ++ [x] |>).
    set (s2 := eager_cont_state s1 y frs kc) in *.
    assert (E2 : s2 = call_soon_ u (HStep (length (tasks sa)) None)) by reflexivity.
    pose proof (fresh_quiet qok P val (Some t) sa x fx Ia eq_refl eq_refl) as Q. fold u in Q. rewrite Etn in Q.
    assert (G2 : gett s2 tn = x).
    { rewrite E2. unfold gett. cbn. rewrite app_nth2 by lia. rewrite <- Etn, Nat.sub_diag. reflexivity. }
    assert (L2 : log s2 = log s1) by (rewrite E2; unfold u, sa, set_flag; destruct y; reflexivity).
    set (n0 := length (log s1)).
    assert (Ev : evlog tn n0 s2 = []) by (unfold evlog, n0; rewrite L2, skipn_all; reflexivity).
    assert (C2 : current s2 <> Some tn).
    { assert (Ec : current s2 = Some t).
      { rewrite E2. unfold u, sa, set_flag. destruct y; cbn; rewrite S4; exact Hcur. }
      rewrite Ec. intros Eq. inversion Eq. unfold tn in *. rewrite S3 in *. lia. }
    assert (X2 : X qok tn (twaiter (gett s2 tn)) n0 (evlog tn n0 s2) true s2).
    { assert (X0 : X qok tn None n0 [] false s2).
      { rewrite E2, Etn. apply X_call_soon; [exact QS|cbn; intros _; reflexivity|apply X_quiet; exact Q]. }
      rewrite G2, Ev. destruct X0 as [A1 A2 A3 A4 A5 A6 A7 A8]. constructor; auto;
        intros _; first [rewrite G2; reflexivity|exact C2|exact Ev]. }
    assert (T2 : Tracks P val c tn n0 pre s2).
    { unfold Tracks. rewrite G2. cbn [tcont_ twaiter x eager_task]. split; [unfold n0; rewrite L2; lia|].
      split; [exact Fy|]. split; [exact Ak|]. split; [destruct y; cbn in *; tauto|]. split; [|reflexivity].
      unfold Rem, evs_of. rewrite Ev, Epre. cbn [map]. rewrite app_nil_r. exact Rr. }
    assert (N2 : length (futs s2) = S (length (futs s1))).
    { rewrite E2. cbn. rewrite app_length, Fa. cbn. lia. }
    assert (R2 : forall f, P f -> f < length (futs s2) /\ f <> tfut (gett s2 tn)).
    { intros f Pf. pose proof (Rng f Pf). rewrite G2, N2. cbn [tfut x eager_task]. rewrite Fa, S5. lia. }
    assert (Ltn2 : tn < length (tasks s2)).
    { rewrite E2. cbn. rewrite app_length, Ta. cbn. unfold tn. lia. }
    assert (Lf2 : tfut (gett s2 tn) < length (futs s2)).
    { rewrite G2, N2. cbn [tfut x eager_task]. rewrite Fa. lia. }
    assert (Ntn : t <> tn) by (unfold tn; rewrite S3; lia).
    (* the rest of the caller's activation *)
    destruct (keep qok P val c tn n0 pre s2 s') as (X3 & T3 & R3); auto.
    { eapply X_exec; [exact QS|exact E|exact X2]. }
    { eapply Tf_exec; [exact E|apply Tf_refl]. }
    { eapply FM_exec; [exact E|apply FM_refl]. }
    { destruct (G_exec s2 t _ s2 s' o E (G_refl s2)) as [[_ Gl _] _]. exact Gl. }
    assert (Ltn3 : tn < length (tasks s')).
    { destruct (G_exec s2 t _ s2 s' o E (G_refl s2)) as [[Gt _ _] _]. lia. }
    assert (Hs'o : K qok (Some t) s s' /\ outcome_ok s' o).
    { apply (exec_K qok QS (Some t) t (Spawn SEager c k) s s' o); [|exact Hok|exact I].
      rewrite eager_exec_eq, E1. exact E. }
    destruct Hs'o as [[I3 _] Oo].
    assert (Lf3 : tfut (gett s' tn) < length (futs s')) by (apply (i_tfut (i_wf I3) tn Ltn3)).
    set (s4 := finish_step t s' o).
    destruct (keep qok P val c tn n0 pre s' s4) as (X4 & T4 & R4); auto.
    { apply X_finish_step; [exact QS|exact Ntn|exact X3]. }
    { apply Tf_finish_step; [exact Ntn|apply Tf_refl]. }
    { apply FM_finish_step, FM_refl. }
    { destruct (G_finish_step s' t s' o (G_refl s')) as [[_ Gl _] _]. exact Gl. }
    assert (Bb : B qok P val c tn n0 pre sb).
    { constructor.
      - split; [|reflexivity]. eapply InvC_same; [..|apply (finish_step_inv qok QS t s' o I3 Oo)]; reflexivity.
      - apply (X_current qok tn _ n0 _ true s4 None); [discriminate|exact X4].
      - exact T4.
      - exact R4. }
    pose proof (B_run qok QS P val c tn n0 pre acts sb Bb Ha Hq A) as Bf. fold sf in Bf.
    exact (B_final qok P val c tn n0 pre sf Bf Fin).
Qed.

End Thm.
