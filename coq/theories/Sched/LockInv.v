(* The PriorityLock invariant of the scheduler model (C13) and the two transfer
   principles every preservation proof goes through:
   - [chg W s s']: a step that leaves the PriorityLock tables alone (Inv_chg);
   - [Inv_lockstep]: a step that rewrites one lock [l] and the held-lock list of
     one task [t] (local conditions on that lock only). *)
From Coq Require Import QArith Sorting.Permutation.
From RecordUpdate Require Import RecordUpdate.
From Asynkit Require Import Base.Prelude Queue.PQ Queue.PosPQ Queue.Exec Sched.Model
  Sched.Tables Sched.QFacts.
Import RecordSetNotations.
Open Scope nat_scope.

(* ------------------------------------------------------------ vocabulary *)
(* the future ids queued on lock l (its _waiters heap, any order) *)
Definition objs (s : st) (l : nat) : list nat := pq_objs (lpq (getl s l)).
(* a future "woken with a result": done and not cancelled (the test of the repaired
   _wake_up_first) *)
Definition woken (s : st) (f : nat) : bool :=
  match fstate_ (getf s f) with FResult _ | FExc _ => true | _ => false end.
(* f is the future of a current waiter of some PriorityLock *)
Definition lockfut (s : st) (f : nat) : Prop := exists l, In f (objs s l).
Definition hcbs (s : st) : list callback := map hcb (handles s).
(* f is referenced by a table whose owner completes it with a result:
   asyncio.Lock waiters, Event waiters, Condition waiters, sleep timers *)
Definition foreign (s : st) (f : nat) : Prop :=
  (exists l, In f (ldq (getl s l))) \/ (exists e, In f (ewaiters (gete s e))) \/
  (exists c, In f (pq_objs (cpq (getc s c)))) \/ (exists c, In f (cdq (getc s c))) \/
  (exists v, In (HSetResult f v) (hcbs s)).

Definition frames_of (c : tcont) : list frame :=
  match c with TSusp frs _ | TEager _ frs _ => frs | _ => [] end.
Definition tframes (s : st) (t : nat) : list frame := frames_of (tcont_ (gett s t)).
Definition is_acq (fr : frame) : bool := match fr with InAcquireP _ _ _ => true | _ => false end.
Definition no_acq (frs : list frame) : Prop := forall fr, In fr frs -> is_acq fr = false.
(* a suspended stack contains at most one PriorityLock.acquire frame, and it sits
   directly under the `await fut` of its own future *)
Definition stack_ok (frs : list frame) : Prop :=
  no_acq frs \/
  exists l f had rest, frs = InFut f :: InAcquireP l f had :: rest /\ no_acq rest.
Definition cb_task_ok (s : st) (c : callback) : Prop :=
  match c with HStep t _ | HWakeup t _ => t < length (tasks s) | _ => True end.

(* ------------------------------------------------------------ the invariant *)
Record Inv (s : st) : Prop := mkInv {
  (* I1: bookkeeping of PriorityLock ownership *)
  iA1 : forall l, lkind_ (getl s l) = LPrio ->
        (lowner (getl s l) <> None <-> llocked (getl s l) = true);
  iA2 : forall l t, l < length (locks s) -> In l (tholding (gett s t)) ->
        lowner (getl s l) = Some t;
  iA3 : forall l t, lowner (getl s l) = Some t -> is_prio_task s t = true ->
        In l (tholding (gett s t));
  iA4 : forall t, is_prio_task s t = false -> tholding (gett s t) = [];
  iA5 : forall l t, lowner (getl s l) = Some t -> t < length (tasks s);
  (* waiter queues are well formed; asyncio locks have no priority queue *)
  iB0 : forall l, lkind_ (getl s l) = LPlain -> arr (lpq (getl s l)) = [];
  iB1 : forall l, qwf (lpq (getl s l));
  iB2 : forall c, PQInv (cpq (getc s c));
  (* I5: at most one woken waiter per lock, none while the lock is owned *)
  iC1 : forall l f1 f2, In f1 (objs s l) -> In f2 (objs s l) ->
        woken s f1 = true -> woken s f2 = true -> f1 = f2;
  iC2 : forall l f, lowner (getl s l) <> None -> In f (objs s l) -> woken s f = false;
  (* lock-waiter futures are plain futures known to nobody else *)
  iD0 : forall f, lockfut s f -> f < length (futs s) /\ fowner (getf s f) = None;
  iD1 : forall l l' f, In f (objs s l) -> In f (objs s l') -> l = l';
  iD2 : forall f, lockfut s f -> ~ foreign s f;
  iD3 : forall f, foreign s f -> f < length (futs s);
  iD4 : forall t, t < length (tasks s) ->
        tfut (gett s t) < length (futs s) /\ fowner (getf s (tfut (gett s t))) <> None;
  (* handles and future callbacks only name existing tasks *)
  iE1 : forall c, In c (hcbs s) -> cb_task_ok s c;
  iE2 : forall f t, In (CbWakeup t) (fcbs (getf s f)) -> t < length (tasks s);
  (* I2 (the half needed here): suspended acquire frames *)
  iF1 : forall t, stack_ok (tframes s t);
  iF2 : forall t l f had, In (InAcquireP l f had) (tframes s t) -> In f (objs s l);
  iF3 : forall t t' l l' f had had',
        In (InAcquireP l f had) (tframes s t) -> In (InAcquireP l' f had') (tframes s t') -> t = t';
  iF4 : forall t l f, In (InAcquireA l f) (tframes s t) -> lkind_ (getl s l) = LPlain;
  (* no lock (with an id in range) is recorded twice as held *)
  iA6 : forall t l, l < length (locks s) -> count_occ Nat.eq_dec (tholding (gett s t)) l <= 1
}.

Arguments iA1 {s} _.
Arguments iA2 {s} _.
Arguments iA3 {s} _.
Arguments iA4 {s} _.
Arguments iA5 {s} _.
Arguments iB0 {s} _.
Arguments iB1 {s} _.
Arguments iB2 {s} _.
Arguments iC1 {s} _.
Arguments iC2 {s} _.
Arguments iD0 {s} _.
Arguments iD1 {s} _.
Arguments iD2 {s} _.
Arguments iD3 {s} _.
Arguments iD4 {s} _.
Arguments iE1 {s} _.
Arguments iE2 {s} _.
Arguments iF1 {s} _.
Arguments iF2 {s} _.
Arguments iF3 {s} _.
Arguments iF4 {s} _.
Arguments iA6 {s} _.

(* ------------------------------------------------------------ small facts *)
Lemma no_acq_nil : no_acq [].
Proof. intros fr []. Qed.
Lemma stack_ok_nil : stack_ok [].
Proof. left. apply no_acq_nil. Qed.
Lemma no_acq_app a b : no_acq a -> no_acq b -> no_acq (a ++ b).
Proof. intros Ha Hb fr H. apply in_app_or in H as []; auto. Qed.
Lemma no_acq_cons fr frs : is_acq fr = false -> no_acq frs -> no_acq (fr :: frs).
Proof. intros Ha Hb x [<-|H]; auto. Qed.
Lemma no_acq_tail fr frs : no_acq (fr :: frs) -> no_acq frs.
Proof. intros H x Hx. apply H. now right. Qed.
Lemma no_acq_in l f had frs : no_acq frs -> ~ In (InAcquireP l f had) frs.
Proof. intros H Hin. specialize (H _ Hin). discriminate. Qed.

Lemma woken_oob s f : length (futs s) <= f -> woken s f = false.
Proof. intros H. unfold woken. now rewrite getf_oob. Qed.

Lemma objs_oob s l : length (locks s) <= l -> objs s l = [].
Proof. intros H. unfold objs. now rewrite getl_oob. Qed.

Lemma objs_inrange s l f : In f (objs s l) -> l < length (locks s).
Proof.
  intros H. destruct (Nat.lt_ge_cases l (length (locks s))); auto.
  rewrite objs_oob in H by auto. destruct H.
Qed.

Lemma tframes_oob s t : length (tasks s) <= t -> tframes s t = [].
Proof. intros H. unfold tframes. now rewrite gett_oob. Qed.

Lemma is_prio_oob s t : length (tasks s) <= t -> is_prio_task s t = false.
Proof. intros H. unfold is_prio_task. now rewrite gett_oob. Qed.

Lemma is_prio_inrange s t : is_prio_task s t = true -> t < length (tasks s).
Proof.
  intros H. destruct (Nat.lt_ge_cases t (length (tasks s))); auto.
  rewrite is_prio_oob in H by auto. discriminate.
Qed.

(* ------------------------------------------------------------ chg *)
(* A step that does not touch the PriorityLock tables.  [W]: the futures that may
   become woken by the step. *)
Record chg (W : nat -> Prop) (s s' : st) : Prop := mkChg {
  c_nlocks : length (locks s') = length (locks s);
  c_lock : forall l, lkind_ (getl s' l) = lkind_ (getl s l) /\
                     lowner (getl s' l) = lowner (getl s l) /\
                     lpq (getl s' l) = lpq (getl s l) /\
                     (llocked (getl s' l) = llocked (getl s l) \/ lkind_ (getl s l) = LPlain);
  c_ntasks : length (tasks s) <= length (tasks s');
  c_task : forall t, t < length (tasks s) ->
           tholding (gett s' t) = tholding (gett s t) /\ tfut (gett s' t) = tfut (gett s t) /\
           is_prio_task s' t = is_prio_task s t /\
           (tframes s' t = tframes s t \/ tframes s' t = []);
  c_newtask : forall t, length (tasks s) <= t ->
           tholding (gett s' t) = [] /\ tframes s' t = [] /\
           (t < length (tasks s') ->
            tfut (gett s' t) < length (futs s') /\ fowner (getf s' (tfut (gett s' t))) <> None);
  c_nfuts : length (futs s) <= length (futs s');
  c_fowner : forall g, g < length (futs s) -> fowner (getf s' g) = fowner (getf s g);
  c_woken : forall g, g < length (futs s) -> woken s' g = true -> woken s g = true \/ W g;
  c_cbs : forall g t, In (CbWakeup t) (fcbs (getf s' g)) ->
          In (CbWakeup t) (fcbs (getf s g)) \/ t < length (tasks s');
  c_hcbs : forall c, In c (hcbs s') -> In c (hcbs s) \/ cb_task_ok s' c;
  c_foreign : forall f, foreign s' f -> foreign s f \/ (f < length (futs s') /\ ~ lockfut s f);
  c_cpq : (forall c, PQInv (cpq (getc s c))) -> forall c, PQInv (cpq (getc s' c));
  c_done : forall g, fdone s g = true -> fdone s' g = true
}.

Arguments c_nlocks {W s s'} _.
Arguments c_lock {W s s'} _.
Arguments c_ntasks {W s s'} _.
Arguments c_task {W s s'} _.
Arguments c_newtask {W s s'} _.
Arguments c_nfuts {W s s'} _.
Arguments c_fowner {W s s'} _.
Arguments c_woken {W s s'} _.
Arguments c_cbs {W s s'} _.
Arguments c_hcbs {W s s'} _.
Arguments c_foreign {W s s'} _.
Arguments c_cpq {W s s'} _.
Arguments c_done {W s s'} _.

Lemma chg_objs W s s' l : chg W s s' -> objs s' l = objs s l.
Proof. intros H. unfold objs. destruct (c_lock H l) as (_ & _ & -> & _). reflexivity. Qed.

Arguments chg_objs {W s s'} l _.
Lemma chg_lockfut W s s' f : chg W s s' -> (lockfut s' f <-> lockfut s f).
Proof.
  intros H. unfold lockfut. split; intros [l Hl]; exists l.
  - now rewrite (chg_objs l H) in Hl.
  - now rewrite (chg_objs l H).
Qed.

Lemma chg_kind W s s' l : chg W s s' -> lkind_ (getl s' l) = lkind_ (getl s l).
Proof. intros H. apply (c_lock H l). Qed.

Arguments chg_kind {W s s'} l _.
Lemma chg_frames_in W s s' t fr : chg W s s' -> In fr (tframes s' t) -> In fr (tframes s t).
Proof.
  intros H Hin. destruct (Nat.lt_ge_cases t (length (tasks s))) as [Ht|Ht].
  - destruct (c_task H t Ht) as (_ & _ & _ & [E|E]); rewrite E in Hin; auto. destruct Hin.
  - destruct (c_newtask H t Ht) as (_ & E & _). rewrite E in Hin. destruct Hin.
Qed.

Lemma chg_weaken (W W' : nat -> Prop) s s' : (forall g, W g -> W' g) -> chg W s s' -> chg W' s s'.
Proof.
  intros HW H. destruct H. constructor; auto.
  intros g Hg Hw. destruct (c_woken0 g Hg Hw); auto.
Qed.

(* general form: the two I5 clauses of the new state are supplied by the caller *)
Theorem Inv_chg_gen W s s' :
  chg W s s' -> Inv s ->
  (forall l f1 f2, In f1 (objs s l) -> In f2 (objs s l) ->
                   woken s' f1 = true -> woken s' f2 = true -> f1 = f2) ->
  (forall l f, lowner (getl s l) <> None -> In f (objs s l) -> woken s' f = false) ->
  Inv s'.
Proof.
  intros H I HC1 HC2.
  assert (Hobjs : forall l, objs s' l = objs s l) by (intros; eapply chg_objs; eauto).
  assert (Hlf : forall f, lockfut s' f <-> lockfut s f) by (intros; eapply chg_lockfut; eauto).
  constructor.
  - (* A1 *) intros l Hk. destruct (c_lock H l) as (Ek & Eo & _ & El).
    rewrite Ek in Hk. rewrite Eo. destruct El as [->|El]; [apply (iA1 I); auto|congruence].
  - (* A2 *) intros l t Hl Hin. rewrite (c_nlocks H) in Hl.
    destruct (c_lock H l) as (_ & -> & _).
    destruct (Nat.lt_ge_cases t (length (tasks s))) as [Ht|Ht].
    + destruct (c_task H t Ht) as (E & _). rewrite E in Hin. apply (iA2 I); auto.
    + destruct (c_newtask H t Ht) as (E & _). rewrite E in Hin. destruct Hin.
  - (* A3 *) intros l t Ho Hp. destruct (c_lock H l) as (_ & Eo & _). rewrite Eo in Ho.
    pose proof (iA5 I _ _ Ho) as Ht. destruct (c_task H t Ht) as (E & _ & Ep & _).
    rewrite E. rewrite Ep in Hp. apply (iA3 I); auto.
  - (* A4 *) intros t Hp. destruct (Nat.lt_ge_cases t (length (tasks s))) as [Ht|Ht].
    + destruct (c_task H t Ht) as (E & _ & Ep & _). rewrite E. rewrite Ep in Hp. apply (iA4 I); auto.
    + apply (c_newtask H t Ht).
  - (* A5 *) intros l t Ho. destruct (c_lock H l) as (_ & Eo & _). rewrite Eo in Ho.
    pose proof (iA5 I _ _ Ho). pose proof (c_ntasks H). lia.
  - (* B0 *) intros l Hk. destruct (c_lock H l) as (Ek & _ & -> & _). rewrite Ek in Hk. apply (iB0 I); auto.
  - (* B1 *) intros l. destruct (c_lock H l) as (_ & _ & -> & _). apply (iB1 I).
  - (* B2 *) apply (c_cpq H). apply (iB2 I).
  - (* C1 *) intros l f1 f2 H1 H2 W1 W2. rewrite Hobjs in H1, H2. eapply HC1; eauto.
  - (* C2 *) intros l f Ho Hin. destruct (c_lock H l) as (_ & Eo & _). rewrite Eo in Ho.
    rewrite Hobjs in Hin. eapply HC2; eauto.
  - (* D0 *) intros f Hl. apply Hlf in Hl. destruct (iD0 I _ Hl) as [Hr Hf].
    pose proof (c_nfuts H). split; [lia|]. rewrite (c_fowner H); auto.
  - (* D1 *) intros l l' f. rewrite !Hobjs. apply (iD1 I).
  - (* D2 *) intros f Hl Hf. apply Hlf in Hl. destruct (c_foreign H _ Hf) as [Hf'|[_ Hn]]; auto.
    eapply (iD2 I); eauto.
  - (* D3 *) intros f Hf. destruct (c_foreign H _ Hf) as [Hf'|[Hr _]]; auto.
    pose proof (iD3 I _ Hf'). pose proof (c_nfuts H). lia.
  - (* D4 *) intros t Ht. destruct (Nat.lt_ge_cases t (length (tasks s))) as [Ht0|Ht0].
    + destruct (c_task H t Ht0) as (_ & E & _). rewrite E.
      destruct (iD4 I t Ht0) as [Hr Hf]. pose proof (c_nfuts H). split; [lia|].
      rewrite (c_fowner H); auto.
    + apply (c_newtask H t Ht0); auto.
  - (* E1 *) intros c Hc. destruct (c_hcbs H _ Hc) as [Hc'|]; auto.
    pose proof (iE1 I _ Hc') as Hok. pose proof (c_ntasks H).
    destruct c; simpl in *; auto; lia.
  - (* E2 *) intros f t Hc. destruct (c_cbs H _ _ Hc) as [Hc'|]; auto.
    pose proof (iE2 I _ _ Hc'). pose proof (c_ntasks H). lia.
  - (* F1 *) intros t. destruct (Nat.lt_ge_cases t (length (tasks s))) as [Ht|Ht].
    + destruct (c_task H t Ht) as (_ & _ & _ & [E|E]); rewrite E; [apply (iF1 I)|apply stack_ok_nil].
    + destruct (c_newtask H t Ht) as (_ & E & _). rewrite E. apply stack_ok_nil.
  - (* F2 *) intros t l f had Hin. rewrite Hobjs. eapply (iF2 I). eapply chg_frames_in; eauto.
  - (* F3 *) intros t t' l l' f had had' H1 H2.
    eapply (iF3 I); eapply chg_frames_in; eauto.
  - (* F4 *) intros t l f Hin. rewrite (chg_kind l H). eapply (iF4 I). eapply chg_frames_in; eauto.
  - (* A6 *) intros t l Hl. rewrite (c_nlocks H) in Hl.
    destruct (Nat.lt_ge_cases t (length (tasks s))) as [Ht|Ht].
    + destruct (c_task H t Ht) as (E & _). rewrite E. apply (iA6 I); auto.
    + destruct (c_newtask H t Ht) as (E & _). rewrite E. simpl. lia.
Qed.

Theorem Inv_chg W s s' :
  chg W s s' -> (forall g, W g -> ~ lockfut s g) -> Inv s -> Inv s'.
Proof.
  intros H HW I.
  assert (Hwok : forall l f, In f (objs s l) -> woken s' f = true -> woken s f = true).
  { intros l f Hin Hw. assert (lockfut s f) as Hl by (exists l; auto).
    destruct (iD0 I _ Hl) as [Hr _]. destruct (c_woken H _ Hr Hw) as [|Hx]; auto.
    exfalso. eapply HW; eauto. }
  eapply Inv_chg_gen; eauto.
  - intros l f1 f2 H1 H2 W1 W2. apply (iC1 I l); eauto.
  - intros l f Ho Hin. destruct (woken s' f) eqn:Ew; auto.
    rewrite <- (iC2 I l f Ho Hin). symmetry. eapply Hwok; eauto.
Qed.

(* states that agree on everything the invariant looks at *)
Lemma chg_core_eq W s s' :
  locks s' = locks s -> tasks s' = tasks s -> futs s' = futs s -> events s' = events s ->
  conds s' = conds s -> hcbs s' = hcbs s -> chg W s s'.
Proof.
  intros El Et Ef Ee Ec Eh.
  assert (Hl : forall l, getl s' l = getl s l) by (intros; unfold getl; now rewrite El).
  assert (Ht : forall t, gett s' t = gett s t) by (intros; unfold gett; now rewrite Et).
  assert (Hf : forall f, getf s' f = getf s f) by (intros; unfold getf; now rewrite Ef).
  constructor.
  - now rewrite El.
  - intros l. rewrite Hl. auto.
  - rewrite Et. lia.
  - intros t _. unfold is_prio_task, tframes. rewrite Ht. auto.
  - intros t Hge. unfold tframes. rewrite Ht, gett_oob by auto. simpl. split; auto. split; auto.
    intros Hlt. rewrite Et in Hlt. lia.
  - rewrite Ef. lia.
  - intros g _. now rewrite Hf.
  - intros g _. unfold woken. rewrite Hf. auto.
  - intros g t. rewrite Hf. auto.
  - intros c. rewrite Eh. auto.
  - intros f Hfo. left. unfold foreign, getl, gete, getc in *. rewrite El, Ee, Ec, Eh in Hfo. exact Hfo.
  - intros Hc c. unfold getc. rewrite Ec. apply Hc.
  - intros g. unfold fdone. now rewrite Hf.
Qed.

(* ------------------------------------------------------------ lockstep *)
(* A step that rewrites lock [l] and the held-lock list of task [t] only. *)
Theorem Inv_lockstep s s' l t :
  futs s' = futs s -> events s' = events s -> conds s' = conds s -> hcbs s' = hcbs s ->
  length (locks s') = length (locks s) -> length (tasks s') = length (tasks s) ->
  (forall l', l' <> l -> getl s' l' = getl s l') ->
  (forall t', tfut (gett s' t') = tfut (gett s t') /\ is_prio_task s' t' = is_prio_task s t' /\
              tframes s' t' = tframes s t' /\
              (t' <> t -> tholding (gett s' t') = tholding (gett s t'))) ->
  lkind_ (getl s' l) = lkind_ (getl s l) -> ldq (getl s' l) = ldq (getl s l) ->
  (* local conditions on l and t *)
  (lkind_ (getl s l) = LPrio -> (lowner (getl s' l) <> None <-> llocked (getl s' l) = true)) ->
  (l < length (locks s) -> forall t', In l (tholding (gett s' t')) -> lowner (getl s' l) = Some t') ->
  (forall l', l' <> l -> (In l' (tholding (gett s' t)) <-> In l' (tholding (gett s t)))) ->
  (forall t', lowner (getl s' l) = Some t' -> is_prio_task s t' = true ->
              In l (tholding (gett s' t'))) ->
  (is_prio_task s t = false -> tholding (gett s' t) = []) ->
  (forall t', lowner (getl s' l) = Some t' -> t' < length (tasks s)) ->
  (forall l0, l0 < length (locks s) -> count_occ Nat.eq_dec (tholding (gett s' t)) l0 <= 1) ->
  (lkind_ (getl s l) = LPlain -> arr (lpq (getl s' l)) = []) ->
  qwf (lpq (getl s' l)) ->
  (forall f1 f2, In f1 (objs s' l) -> In f2 (objs s' l) ->
                 woken s f1 = true -> woken s f2 = true -> f1 = f2) ->
  (forall f, lowner (getl s' l) <> None -> In f (objs s' l) -> woken s f = false) ->
  (forall f, In f (objs s' l) -> In f (objs s l) \/
       (f < length (futs s) /\ fowner (getf s f) = None /\ ~ lockfut s f /\ ~ foreign s f)) ->
  (forall t' f had, In (InAcquireP l f had) (tframes s t') -> In f (objs s' l)) ->
  Inv s -> Inv s'.
Proof.
  intros Ef Ee Ec Eh Enl Ent Hlo Hto Hk Hdq LA1 LA2 LA2o LA3 LA4 LA5 LA6 LB0 LB1 LC1 LC2 LD LF2 I.
  assert (Hgf : forall f, getf s' f = getf s f) by (intros; unfold getf; now rewrite Ef).
  assert (Hw : forall f, woken s' f = woken s f) by (intros; unfold woken; now rewrite Hgf).
  assert (Hobo : forall l', l' <> l -> objs s' l' = objs s l').
  { intros l' Hne. unfold objs. now rewrite Hlo. }
  assert (Hfor : forall f, foreign s' f <-> foreign s f).
  { intros f. unfold foreign, gete, getc. rewrite Ee, Ec, Eh.
    assert (Hq : (exists l0, In f (ldq (getl s' l0))) <-> (exists l0, In f (ldq (getl s l0)))).
    { split; intros [l0 Hl0]; exists l0; destruct (Nat.eq_dec l0 l) as [->|Hne].
      - now rewrite <- Hdq.
      - now rewrite <- Hlo by auto.
      - now rewrite Hdq.
      - now rewrite Hlo by auto. }
    rewrite Hq. reflexivity. }
  assert (Hlf : forall f, lockfut s' f -> lockfut s f \/
       (f < length (futs s) /\ fowner (getf s f) = None /\ ~ lockfut s f /\ ~ foreign s f)).
  { intros f [l0 Hl0]. destruct (Nat.eq_dec l0 l) as [->|Hne].
    - destruct (LD _ Hl0) as [H|H]; auto. left. now exists l.
    - rewrite Hobo in Hl0 by auto. left. now exists l0. }
  constructor.
  - (* A1 *) intros l0 Hk0. destruct (Nat.eq_dec l0 l) as [->|Hne].
    + rewrite Hk in Hk0. auto.
    + rewrite Hlo in * by auto. apply (iA1 I); auto.
  - (* A2 *) intros l0 t0 Hl0 Hin. rewrite Enl in Hl0. destruct (Nat.eq_dec l0 l) as [->|Hne].
    + auto.
    + rewrite Hlo by auto. apply (iA2 I); auto.
      destruct (Nat.eq_dec t0 t) as [->|Hnt].
      * apply LA2o; auto.
      * destruct (Hto t0) as (_ & _ & _ & E). rewrite <- E; auto.
  - (* A3 *) intros l0 t0 Ho Hp. destruct (Hto t0) as (_ & Ep & _ & E). rewrite Ep in Hp.
    destruct (Nat.eq_dec l0 l) as [->|Hne].
    + auto.
    + rewrite Hlo in Ho by auto. pose proof (iA3 I _ _ Ho Hp) as Hin.
      destruct (Nat.eq_dec t0 t) as [->|Hnt].
      * apply LA2o; auto.
      * rewrite E; auto.
  - (* A4 *) intros t0 Hp. destruct (Hto t0) as (_ & Ep & _ & E). rewrite Ep in Hp.
    destruct (Nat.eq_dec t0 t) as [->|Hnt]; auto. rewrite E; auto. apply (iA4 I); auto.
  - (* A5 *) intros l0 t0 Ho. rewrite Ent. destruct (Nat.eq_dec l0 l) as [->|Hne]; auto.
    rewrite Hlo in Ho by auto. apply (iA5 I _ _ Ho).
  - (* B0 *) intros l0 Hk0. destruct (Nat.eq_dec l0 l) as [->|Hne].
    + rewrite Hk in Hk0. auto.
    + rewrite Hlo in * by auto. apply (iB0 I); auto.
  - (* B1 *) intros l0. destruct (Nat.eq_dec l0 l) as [->|Hne]; auto.
    rewrite Hlo by auto. apply (iB1 I).
  - (* B2 *) intros c. unfold getc. rewrite Ec. apply (iB2 I).
  - (* C1 *) intros l0 f1 f2 H1 H2. rewrite !Hw. destruct (Nat.eq_dec l0 l) as [->|Hne]; auto.
    rewrite Hobo in H1, H2 by auto. apply (iC1 I l0); auto.
  - (* C2 *) intros l0 f Ho Hin. rewrite Hw. destruct (Nat.eq_dec l0 l) as [->|Hne]; auto.
    rewrite Hobo in Hin by auto. rewrite Hlo in Ho by auto. apply (iC2 I l0); auto.
  - (* D0 *) intros f Hl. rewrite Ef, Hgf. destruct (Hlf _ Hl) as [H|(H1 & H2 & _)]; auto.
    apply (iD0 I _ H).
  - (* D1 *) intros l1 l2 f H1 H2.
    destruct (Nat.eq_dec l1 l) as [->|Hn1]; destruct (Nat.eq_dec l2 l) as [->|Hn2]; auto.
    + rewrite Hobo in H2 by auto. destruct (LD _ H1) as [H|(_ & _ & Hn & _)].
      * apply (iD1 I _ _ _ H H2).
      * exfalso. apply Hn. now exists l2.
    + rewrite Hobo in H1 by auto. destruct (LD _ H2) as [H|(_ & _ & Hn & _)].
      * apply (iD1 I _ _ _ H1 H).
      * exfalso. apply Hn. now exists l1.
    + rewrite Hobo in H1, H2 by auto. apply (iD1 I _ _ _ H1 H2).
  - (* D2 *) intros f Hl Hf. apply Hfor in Hf. destruct (Hlf _ Hl) as [H|(_ & _ & _ & Hn)]; auto.
    apply (iD2 I _ H Hf).
  - (* D3 *) intros f Hf. apply Hfor in Hf. rewrite Ef. apply (iD3 I _ Hf).
  - (* D4 *) intros t0 Ht0. rewrite Ent in Ht0. destruct (Hto t0) as (E & _). rewrite E, Ef, Hgf.
    apply (iD4 I _ Ht0).
  - (* E1 *) intros c Hc. rewrite Eh in Hc. pose proof (iE1 I _ Hc) as H.
    destruct c; simpl in *; auto; rewrite Ent; auto.
  - (* E2 *) intros f t0. rewrite Hgf, Ent. apply (iE2 I).
  - (* F1 *) intros t0. destruct (Hto t0) as (_ & _ & E & _). rewrite E. apply (iF1 I).
  - (* F2 *) intros t0 l0 f had Hin. destruct (Hto t0) as (_ & _ & E & _). rewrite E in Hin.
    destruct (Nat.eq_dec l0 l) as [->|Hne].
    + eapply LF2; eauto.
    + rewrite Hobo by auto. eapply (iF2 I); eauto.
  - (* F3 *) intros t1 t2 l1 l2 f had had' H1 H2.
    destruct (Hto t1) as (_ & _ & E1 & _). destruct (Hto t2) as (_ & _ & E2 & _).
    rewrite E1 in H1. rewrite E2 in H2. eapply (iF3 I); eauto.
  - (* F4 *) intros t0 l0 f Hin. destruct (Hto t0) as (_ & _ & E & _). rewrite E in Hin.
    pose proof (iF4 I _ _ _ Hin) as H.
    destruct (Nat.eq_dec l0 l) as [->|Hne]; [now rewrite Hk|now rewrite Hlo].
  - (* A6 *) intros t0 l0 Hl0. rewrite Enl in Hl0. destruct (Nat.eq_dec t0 t) as [->|Hnt]; auto.
    destruct (Hto t0) as (_ & _ & _ & E). rewrite E by auto. apply (iA6 I); auto.
Qed.
