(* C15 / C16 on the priority loop with starvation boosting ENABLED: "position 0 is the head of the
   run order".  The queue predicate [qok_boostc] adds to PrioQueueBoost.qok_boost (the
   PriorityQueue invariant of the array) that every entry is positional with boost 0 (class 0) or
   regular (class 1): maintenance never touches positional entries and never changes a class.
   [QSpec_boostc]: it is a QSpec instance (so C09's invariant holds in every reachable state of the
   boosted loop with it); [QNextW_boostc]: the weak run-next interface of InterruptNextW.v. *)
From Coq Require Import QArith Lqa Sorting.Permutation.
From RecordUpdate Require Import RecordUpdate.
From Asynkit Require Import Base.Prelude Queue.ListFacts Queue.PQ Queue.Order Queue.Heap
     Queue.HeapqProofs Queue.PQProofs Queue.PosPQ Queue.PosProofs Queue.PosList
     Queue.Exec Sched.Model Sched.PartTables Sched.PartitionProofs Sched.PartitionSteps
     Sched.PartitionRun Sched.PartitionFinal Sched.PrioLoopProofs Sched.PrioQueueProofs Sched.PrioQueueBoost
     Sched.InterruptNext Sched.InterruptNextW.
Import RecordSetNotations.
Open Scope nat_scope.

Notation clsA := (Forall cls_ok).

Definition qok_boostc (r : rq) : Prop :=
  match r with RPos p => Invv (pq_ p) /\ clsA (arr (pq_ p)) | RList _ => False end.

Lemma qok_boostc_boost r : qok_boostc r -> qok_boost r.
Proof. destruct r; simpl; tauto. Qed.

(* ------------------------------------------------------------ maintenance and the classes *)
(* what maintenance can do to an entry: sequence number, object and class stay; a positional
   entry is not touched at all *)
Definition reb (e e' : entry pv) : Prop :=
  eseq e' = eseq e /\ eobj e' = eobj e /\ pclass (epri e') = pclass (epri e) /\
  (pclass (epri e) = 0%Z -> e' = e).

Lemma reb_refl e : reb e e.
Proof. repeat split; auto. Qed.

Lemma boost_loop_reb a : forall limit m f ds,
  Forall2 reb a (fst (fst (boost_loop a limit m f ds))).
Proof.
  induction a as [|e t IH]; simpl; intros limit m f ds; [constructor|].
  destruct (pclass (epri e) =? 0)%Z eqn:C0; cbn [orb].
  - specialize (IH limit m f ds). destruct (boost_loop t limit m f ds) as [[t' ds'] n].
    simpl in *. constructor; auto. apply reb_refl.
  - apply Z.eqb_neq in C0. destruct (_ || _).
    + specialize (IH limit m f ds). destruct (boost_loop t limit m f ds) as [[t' ds'] n].
      simpl in *. constructor; auto. apply reb_refl.
    + specialize (IH limit m f (tl ds)).
      destruct (negb (qltb _ 0)); destruct (boost_loop t limit m f (tl ds)) as [[t' ds'] n]; simpl in *.
      * constructor; auto. apply reb_refl.
      * constructor; auto. repeat split; simpl; auto. intros; congruence.
Qed.

Lemma reb_cls e e' : reb e e' -> cls_ok e -> cls_ok e'.
Proof.
  intros (_ & _ & Hc & H0) [[C B]|C].
  - rewrite (H0 C). left; auto.
  - right. congruence.
Qed.

(* [rebs a a']: a' is, up to a permutation, a re-boost of a *)
Definition rebs (a a' : list (entry pv)) : Prop :=
  exists m, Forall2 reb a m /\ Permutation m a'.

Lemma rebs_refl a : rebs a a.
Proof.
  exists a. split; [|reflexivity]. induction a; constructor; auto. apply reb_refl.
Qed.

Lemma do_maintenance_rebs s : rebs (arr (pq_ s)) (arr (pq_ (do_maintenance HPV s))).
Proof.
  unfold do_maintenance. destruct (Qeq_bool (factor s) 0); [apply rebs_refl|].
  destruct (find _ _) as [r|]; [|apply rebs_refl]. destruct (has_straggler _ _); [|apply rebs_refl].
  pose proof (boost_loop_reb (arr (pq_ s)) (n_ins s - plen s)
                (minmax_loop (arr (pq_ s)) (pv_priority (epri r))) (factor s) (draws s)) as R.
  destruct (boost_loop _ _ _ _ _) as [[a' ds'] n]. simpl in R. cbn [pq_ arr].
  exists a'. split; [exact R|]. destruct n; [reflexivity|].
  apply Permutation_sym, (hs_heapify_perm HPV_spec).
Qed.

Lemma update_counters_rebs s b : rebs (arr (pq_ s)) (arr (pq_ (update_counters HPV s b))).
Proof.
  unfold update_counters. destruct b.
  - destruct (_ <? _)%Z; [|apply rebs_refl]. cbn [pq_].
    apply (do_maintenance_rebs (mkPos (pq_ s) (last_maint s) (n_ins s + 1) (n_rem s) (factor s) (draws s))).
  - destruct (0 <? plen s)%Z; apply rebs_refl.
Qed.

Lemma rebs_cls a a' : rebs a a' -> clsA a -> clsA a'.
Proof.
  intros (m & F & P) H. eapply cls_perm; [exact P|].
  clear P. induction F; [constructor|]. inversion H; subst. constructor; auto. eapply reb_cls; eauto.
Qed.

Lemma update_counters_cls s b : clsA (arr (pq_ s)) -> clsA (arr (pq_ (update_counters HPV s b))).
Proof. apply rebs_cls, update_counters_rebs. Qed.

Lemma popleft_cls p o p' :
  Invv (pq_ p) -> clsA (arr (pq_ p)) -> pos_popleft HPV p = Some (o, p') -> clsA (arr (pq_ p')).
Proof.
  intros Hi Hc E. unfold pos_popleft in E.
  destruct (pq_popentry HPV (pq_ p)) as [[e q]|] eqn:Ep; [|discriminate].
  assert (E' : p' = update_counters HPV (with_pq p q) false) by (inversion E; reflexivity). subst p'. clear E.
  destruct (pop_inv HPV HPV_sw HPV_spec _ _ _ Hi Ep) as (_ & Hperm & _).
  apply update_counters_cls. cbn [with_pq pq_]. eapply cls_removed; eauto.
Qed.

Lemma promote_cls k : forall s acc s1 pr ok,
  Invv (pq_ s) -> clsA (arr (pq_ s)) -> promote HPV k s acc = (s1, pr, ok) -> clsA (arr (pq_ s1)).
Proof.
  induction k as [|k IH]; intros s acc s1 pr ok Hi Hc E; cbn [promote] in E.
  - inversion E; subst. auto.
  - destruct (pos_popleft HPV s) as [[o s']|] eqn:Ep.
    + eapply IH; [| |exact E].
      * destruct (q_popleft QSpec_boost (RPos s) (Z.to_nat o) (RPos s') Hi) as [Hq _]; [|exact Hq].
        cbn [rq_popleft]. rewrite Ep. reflexivity.
      * apply (popleft_cls s o s' Hi Hc Ep).
    + inversion E; subst. auto.
Qed.

Lemma fold_add_cls p os : forall q,
  cls_ok (mkE p 0 0) -> clsA (arr q) -> Invv q ->
  clsA (arr (fold_left (fun q o => pq_add HPV q p o) os q)).
Proof.
  induction os as [|o os IH]; intros q Hp Hc Hi; simpl; [auto|].
  apply IH; auto; [|apply (add_inv HPV HPV_spec); auto].
  eapply cls_perm; [apply Permutation_sym, (add_perm HPV HPV_spec)|]. constructor; auto.
Qed.

Theorem QSpec_boostc : QSpec qok_boostc.
Proof.
  constructor.
  - (* append *)
    intros [l|p] h pr Hq; [destruct Hq|]. destruct Hq as [Hi Hc].
    destruct (q_append QSpec_boost (RPos p) h pr Hi) as [Hi' P]. split; [|exact P].
    split; [exact Hi'|]. cbn [rq_append pq_]. unfold pos_append_pri. apply update_counters_cls.
    cbn [with_pq pq_]. eapply cls_perm; [apply Permutation_sym, (add_perm HPV HPV_spec)|].
    constructor; auto. right; reflexivity.
  - (* popleft *)
    intros [l|p] h r' Hq E; [destruct Hq|]. destruct Hq as [Hi Hc].
    destruct (q_popleft QSpec_boost (RPos p) h r' Hi E) as [Hi' P]. split; [|exact P].
    cbn [rq_popleft] in E. destruct (pos_popleft HPV p) as [[o p']|] eqn:Ep; [|discriminate].
    inversion E; subst. split; [exact Hi'|]. apply (popleft_cls p o p' Hi Hc Ep).
  - (* find with remove *)
    intros [l|p] key h r' Hq E; [destruct Hq|]. destruct Hq as [Hi Hc].
    destruct (q_find QSpec_boost (RPos p) key h r' Hi E) as (Hi' & Hk & P). split; [|split; [exact Hk|exact P]].
    cbn [rq_find] in E. unfold pos_find in E.
    destruct (pq_find HPV (pq_ p) _ true) as [[e q]|] eqn:Eq; [|discriminate]. inversion E; subst; clear E.
    split; [exact Hi'|]. destruct (find_inv HPV HPV_spec _ _ _ _ _ Hi Eq) as (_ & _ & _ & Hperm).
    cbn [with_pq pq_]. eapply cls_removed; eauto.
  - (* find: nothing found *)
    intros r key Hq. apply (q_find_none QSpec_boost r key (qok_boostc_boost r Hq)).
  - (* remove *)
    intros [l|p] h r' Hq E; [destruct Hq|]. destruct Hq as [Hi Hc].
    destruct (q_remove QSpec_boost (RPos p) h r' Hi E) as [Hi' P]. split; [|exact P].
    cbn [rq_remove] in E. unfold pos_remove in E.
    destruct (pq_remove HPV (pq_ p) (Z.of_nat h)) as [[pr q]|] eqn:Eq; [|discriminate].
    assert (E' : r' = RPos (update_counters HPV (with_pq p q) false)) by (inversion E; reflexivity).
    subst r'; clear E. split; [exact Hi'|].
    destruct (remove_inv HPV HPV_sw HPV_spec _ _ _ _ Hi Eq) as (_ & e & _ & _ & Hperm).
    apply update_counters_cls. cbn [with_pq pq_]. eapply cls_removed; eauto.
  - (* insert at a position *)
    intros [l|p] k h Hq; [destruct Hq|]. destruct Hq as [Hi Hc].
    destruct (q_insert QSpec_boost (RPos p) k h Hi) as [Hi' P]. split; [|exact P].
    split; [exact Hi'|]. cbn [rq_insert_pos pq_]. unfold pos_insert.
    destruct (promote HPV k p []) as [[s1 pr] ok] eqn:Epm.
    destruct (promote_gen k p [] s1 pr ok Hi Epm) as [Hi1 _].
    pose proof (promote_cls k p [] s1 pr ok Hi Hc Epm) as Hc1.
    apply update_counters_cls. cbn [with_pq pq_]. apply fold_add_cls; auto. left; split; reflexivity.
  - (* reschedule *)
    intros [l|p] key pr Hq; [destruct Hq|]. destruct Hq as [Hi Hc].
    destruct (q_resched QSpec_boost (RPos p) key pr Hi) as [Hi' P]. split; [|exact P].
    cbn [rq_reschedule] in *. unfold pos_reschedule in *.
    destruct (pq_find HPV (pq_ p) _ false) as [[e q]|]; [|split; auto].
    destruct (pclass (epri e) =? 0)%Z; [split; auto|].
    unfold pos_reschedule_reg in *.
    destruct (pq_reschedule HPV (pq_ p) _ _) as [[o' q']|] eqn:Er; [|split; auto].
    split; [exact Hi'|]. cbn [with_pq pq_].
    destruct (resched_inv HPV HPV_spec _ _ _ _ _ Hi Er) as (_ & _ & e0 & r & _ & Ho & Hp & Hcase).
    destruct Hcase as [->|[Hp' _]]; [exact Hc|].
    eapply cls_perm; [apply Permutation_sym, Hp'|]. constructor; [right; reflexivity|].
    apply (cls_removed _ _ _ Hp Hc).
  - (* iteration *)
    intros p [Hi Hc]. destruct (q_iter QSpec_boost p Hi) as [Hi' P]. split; [|exact P].
    split; [exact Hi'|]. unfold pos_iter. cbn [snd with_pq pq_ pq_sort arr].
    eapply cls_perm; [apply Permutation_sym, (stable_sort_perm HPV)|exact Hc].
Qed.

(* ------------------------------------------------------------ a positional strict minimum *)
Notation eltv := (entry_lt (plt HPV)).

(* e is a positional entry of the array, strictly before every other entry *)
Definition min0 (e : entry pv) (a : list (entry pv)) : Prop :=
  In e a /\ pclass (epri e) = 0%Z /\ forall x, In x a -> x = e \/ eltv e x = true.

Lemma class01_lt (e x : entry pv) :
  pclass (epri e) = 0%Z -> pclass (epri x) = 1%Z -> eltv e x = true.
Proof.
  intros C0 C1. unfold entry_lt. rewrite HPV_plt.
  assert (L : pv_lt (epri e) (epri x) = true) by (apply pv_lt_true; left; lia).
  rewrite L. reflexivity.
Qed.

(* the head of the run order (list.sort() of the array) is the strict minimum *)
Lemma min0_sort_head q e :
  Invv q -> min0 e (arr q) ->
  exists t, stable_sort HPV (arr q) = e :: t.
Proof.
  intros [_ (Hnd & _)] (Hin & _ & Hmin).
  destruct (in_split _ _ Hin) as (l1 & l2 & E).
  assert (Hp : Permutation (arr q) (e :: l1 ++ l2)).
  { rewrite E. apply Permutation_sym, Permutation_middle. }
  exists (stable_sort HPV (l1 ++ l2)).
  apply (sort_min_first HPV HPV_sw _ _ _ Hnd Hp).
  rewrite Forall_forall. intros x Hx. unfold ele.
  assert (Hxa : In x (arr q)).
  { eapply Permutation_in; [apply Permutation_sym; exact Hp|]. right; exact Hx. }
  destruct (Hmin x Hxa) as [->|L].
  - apply (elt_irrefl HPV_sw).
  - apply (elt_asym HPV_sw). exact L.
Qed.

(* maintenance keeps it *)
Lemma reb_in e a m : Forall2 reb a m -> pclass (epri e) = 0%Z -> In e a -> In e m.
Proof.
  intros F C0. induction F as [|x x' l l' R F IH]; intros Hin; [destruct Hin|].
  destruct Hin as [->|Hin]; [|right; auto].
  left. destruct R as (_ & _ & _ & R0). apply R0. exact C0.
Qed.

Lemma reb_min e a m :
  Forall2 reb a m -> pclass (epri e) = 0%Z -> clsA a ->
  (forall x, In x a -> x = e \/ eltv e x = true) ->
  forall x', In x' m -> x' = e \/ eltv e x' = true.
Proof.
  intros F C0. induction F as [|x x' l l' R F IH]; intros Hc Hmin y Hy; [destruct Hy|].
  inversion Hc as [|? ? Cx Hcl]; subst. destruct Hy as [<-|Hy].
  - destruct R as (_ & _ & Rc & R0). destruct (Hmin x (or_introl eq_refl)) as [->|L].
    + left. apply R0. exact C0.
    + destruct Cx as [[Cx0 _]|Cx1].
      * rewrite (R0 Cx0). right; exact L.
      * right. apply class01_lt; [exact C0|congruence].
  - apply IH; auto. intros z Hz. apply Hmin. right; exact Hz.
Qed.

Lemma min0_rebs e a a' : clsA a -> min0 e a -> rebs a a' -> min0 e a'.
Proof.
  intros Hc (Hin & C0 & Hmin) (m & F & P). split; [|split; [exact C0|]].
  - eapply Permutation_in; [exact P|]. eapply reb_in; eauto.
  - intros x Hx. apply (reb_min e a m F C0 Hc Hmin). eapply Permutation_in; [apply Permutation_sym, P|exact Hx].
Qed.

(* one more entry behind it *)
Lemma min0_add e a n a' :
  min0 e a -> eltv e n = true -> Permutation a' (n :: a) -> min0 e a'.
Proof.
  intros (Hin & C0 & Hmin) L P. split; [|split; [exact C0|]].
  - eapply Permutation_in; [apply Permutation_sym, P|]. right; exact Hin.
  - intros x Hx. apply (Permutation_in _ P) in Hx. destruct Hx as [<-|Hx]; [right; exact L|auto].
Qed.

(* the entry insert(0, o) creates is a positional strict minimum *)
Definition pval0 (q : pq pv) : Q :=
  match pq_peek q with
  | Some h => if (pclass (epri h) =? 0)%Z then base (epri h) - 1 else 0
  | None => 0
  end.

Lemma min0_insert0 p o :
  Invv (pq_ p) -> clsA (arr (pq_ p)) ->
  let newp := mkPV (pval0 (pq_ p)) (n_ins p) 0 0 in
  min0 (mkE newp (seqn (pq_ p)) o) (arr (pq_add HPV (pq_ p) newp o)).
Proof.
  intros [Hh _] Hc newp. set (new := mkE newp (seqn (pq_ p)) o).
  pose proof (add_perm HPV HPV_spec (pq_ p) newp o) as P. fold new in P.
  split; [eapply Permutation_in; [apply Permutation_sym, P|left; reflexivity]|]. split; [reflexivity|].
  intros x Hx. apply (Permutation_in _ P) in Hx. destruct Hx as [<-|Hx]; [left; reflexivity|]. right.
  unfold pval0, pq_peek in newp. destruct (arr (pq_ p)) as [|h l] eqn:Ea; [destruct Hx|].
  cbn [hd_error] in newp.
  assert (Hle : eltv x h = false).
  { assert (F : Forall (hle eltv h) (h :: l)).
    { apply heap_min_cons; auto.
      - intros a. unfold hle. apply (elt_irrefl HPV_sw).
      - intros a0 b0 c0. unfold hle. intros A B. exact (ele_trans HPV_sw a0 b0 c0 A B). }
    rewrite Forall_forall in F. apply (F x Hx). }
  rewrite Forall_forall in Hc. pose proof (Hc h (or_introl eq_refl)) as Ch. pose proof (Hc x Hx) as Cx.
  apply (elt_false HPV_sw) in Hle. rewrite HPV_plt in Hle.
  assert (Hxh : pv_lt (epri x) (epri h) = false) by (destruct Hle as [Hle|(Hle & _)]; [|exact Hle];
    destruct (pv_lt (epri x) (epri h)) eqn:Q0; auto;
    pose proof (sw_asym pv_lt_strict_weak _ _ Q0); congruence).
  apply pv_lt_false in Hxh.
  unfold entry_lt. rewrite HPV_plt.
  assert (L : pv_lt (epri new) (epri x) = true); [|rewrite L; reflexivity].
  apply pv_lt_true. unfold new, newp. cbn [epri pclass pv_priority base boost].
  destruct (pclass (epri h) =? 0)%Z eqn:C0.
  - apply Z.eqb_eq in C0. destruct Ch as [[_ Bh]|Ch]; [|lia].
    destruct Cx as [[Cx Bx]|Cx]; [|left; lia]. right. split; [lia|].
    destruct Hxh as [Hxh|[_ Hxh]]; [lia|]. unfold pv_priority in Hxh. rewrite Bh, Bx in Hxh.
    unfold pv_priority. cbn [base boost]. rewrite Bx. lra.
  - apply Z.eqb_neq in C0. destruct Ch as [[Ch _]|Ch]; [lia|].
    destruct Cx as [[Cx _]|Cx]; [|left; lia]. destruct Hxh as [Hxh|[Hxh _]]; lia.
Qed.

Lemma head_items p e :
  Invv (pq_ p) -> min0 e (arr (pq_ p)) -> exists t, rq_items (RPos p) = Z.to_nat (eobj e) :: t.
Proof.
  intros Hi Hm. destruct (min0_sort_head (pq_ p) e Hi Hm) as (t & E).
  exists (map onat t). rewrite rq_items_pos. unfold plist. rewrite E. reflexivity.
Qed.

(* the state after insert(0, h): the new entry is a positional strict minimum, whatever the
   maintenance pass triggered by the insert did to the regular entries *)
Lemma insert0_min p h :
  Invv (pq_ p) -> clsA (arr (pq_ p)) ->
  let p2 := pos_insert HPV p 0 (Z.of_nat h) in
  Invv (pq_ p2) /\ clsA (arr (pq_ p2)) /\
  exists new, eobj new = Z.of_nat h /\ min0 new (arr (pq_ p2)).
Proof.
  intros Hi Hc p2.
  destruct (q_insert QSpec_boostc (RPos p) 0 h (conj Hi Hc)) as [[Hi2 Hc2] _].
  cbn [rq_insert_pos] in Hi2, Hc2. fold p2 in Hi2, Hc2.
  split; [exact Hi2|]. split; [exact Hc2|].
  set (newp := mkPV (pval0 (pq_ p)) (n_ins p) 0 0).
  set (q1 := pq_add HPV (pq_ p) newp (Z.of_nat h)).
  assert (E2 : p2 = update_counters HPV (with_pq p q1) true) by reflexivity.
  exists (mkE newp (seqn (pq_ p)) (Z.of_nat h)). split; [reflexivity|].
  rewrite E2. eapply min0_rebs; [| |apply update_counters_rebs].
  - cbn [with_pq pq_]. eapply cls_perm; [apply Permutation_sym, (add_perm HPV HPV_spec)|].
    constructor; [left; split; reflexivity|exact Hc].
  - cbn [with_pq pq_]. apply min0_insert0; auto.
Qed.

Theorem QNextW_boostc : QNextW qok_boostc.
Proof.
  constructor.
  - (* insert at 0 *)
    intros [l|p] h Hq; [destruct Hq|]. destruct Hq as [Hi Hc].
    destruct (insert0_min p h Hi Hc) as (Hi2 & Hc2 & new & Eo & Hm).
    destruct (head_items _ new Hi2 Hm) as (t & Et). rewrite Eo, Nat2Z.id in Et.
    cbn [rq_insert_pos]. exists t. split; [exact Et|].
    destruct (q_insert QSpec_boostc (RPos p) 0 h (conj Hi Hc)) as [_ P].
    cbn [rq_insert_pos] in P. rewrite Et in P. apply (Permutation_cons_inv P).
  - (* popleft pops the head of the run order; the rest keeps its order *)
    intros [l0|p] h l Hq E; [destruct Hq|]. destruct Hq as [Hi Hc].
    rewrite rq_items_pos in E. unfold plist in E.
    pose proof (pop_refines HPV HPV_sw HPV_spec (pq_ p) Hi) as Hr.
    unfold ref_popentry in Hr. simpl arr in Hr.
    destruct (stable_sort HPV (arr (pq_ p))) as [|e t] eqn:Es; [discriminate|].
    simpl in E. inversion E; subst h l; clear E.
    destruct (pq_popentry HPV (pq_ p)) as [[e' q]|] eqn:Epop; simpl in Hr; [|discriminate].
    assert (He : e' = e) by congruence. subst e'.
    assert (Hq : stable_sort HPV (arr q) = t).
    { pose proof (f_equal (fun x => match x with Some (_, r) => arr r | None => [] end) Hr) as Hq.
      simpl in Hq. exact Hq. }
    set (p' := update_counters HPV (with_pq p q) false).
    assert (Ep : pos_popleft HPV p = Some (eobj e, p')) by (unfold pos_popleft; rewrite Epop; reflexivity).
    assert (Eq : pq_ p' = q) by (unfold p', update_counters; destruct (0 <? plen (with_pq p q))%Z; reflexivity).
    exists (RPos p'). split; [cbn [rq_popleft]; rewrite Ep; reflexivity|]. split.
    + rewrite rq_items_pos. unfold plist. rewrite Eq, Hq. reflexivity.
    + destruct (q_popleft QSpec_boostc (RPos p) (onat e) (RPos p') (conj Hi Hc)) as [Hq' _]; [|exact Hq'].
      cbn [rq_popleft]. rewrite Ep. reflexivity.
  - (* a later append stays behind *)
    intros [l|p] h k pr Hq; [destruct Hq|]. destruct Hq as [Hi Hc].
    destruct (insert0_min p h Hi Hc) as (Hi2 & Hc2 & new & Eo & Hm).
    cbn [rq_insert_pos rq_append]. set (p2 := pos_insert HPV p 0 (Z.of_nat h)) in *.
    set (n := mkE (mkPV pr (n_ins p2) 0 1) (seqn (pq_ p2)) (Z.of_nat k)).
    set (q3 := pq_add HPV (pq_ p2) (mkPV pr (n_ins p2) 0 1) (Z.of_nat k)).
    assert (E3 : pos_append_pri HPV p2 (Z.of_nat k) pr = update_counters HPV (with_pq p2 q3) true) by reflexivity.
    destruct (q_append QSpec_boostc (RPos p2) k pr (conj Hi2 Hc2)) as [[Hi3 Hc3] P3].
    cbn [rq_append] in Hi3, Hc3, P3.
    assert (Hm3 : min0 new (arr (pq_ (pos_append_pri HPV p2 (Z.of_nat k) pr)))).
    { rewrite E3. eapply min0_rebs; [| |apply update_counters_rebs]; cbn [with_pq pq_].
      - eapply cls_perm; [apply Permutation_sym, (add_perm HPV HPV_spec)|].
        constructor; [right; reflexivity|exact Hc2].
      - eapply (min0_add new (arr (pq_ p2)) n); [exact Hm| |apply (add_perm HPV HPV_spec)].
        apply class01_lt; [apply Hm|reflexivity]. }
    destruct (head_items _ new Hi3 Hm3) as (t & Et). rewrite Eo, Nat2Z.id in Et.
    exists t. split; [exact Et|].
    destruct (q_insert QSpec_boostc (RPos p) 0 h (conj Hi Hc)) as [_ P2]. cbn [rq_insert_pos] in P2. fold p2 in P2.
    rewrite Et in P3.
    assert (P4 : Permutation (h :: t) (h :: k :: rq_items (RPos p))).
    { eapply perm_trans; [exact P3|]. eapply perm_trans; [apply perm_skip, P2|]. apply perm_swap. }
    apply (Permutation_cons_inv P4).
Qed.

(* reachability: C09's invariant with the stronger queue predicate, boosted loop *)
Theorem Inv09_prio_boostc factor draws lks cds nev l :
  let s0 := init_st true factor draws lks cds nev in
  actions_ok s0 l -> Inv09 qok_boostc (fold_left do_action l s0).
Proof.
  intros s0 Hl. apply (Inv09_run qok_boostc QSpec_boostc); auto.
  apply (Inv09_init qok_boostc). simpl. split; [apply Inv_empty|constructor].
Qed.

(* ------------------------------------------------------------ why QNext itself fails with boosting *)
(* factor 2, draws 1: a regular entry B (handle 1, priority 5) and a regular entry A (handle 2,
   priority 0) are queued; eleven rounds of append (priority -1) / popleft pass; the run order is
   [A; B].  The insert at position 0 is the insert that triggers the maintenance pass: B is a
   straggler, is boosted by 1 * ((0 - 5) * 2) = -10 and overtakes A.  The run order becomes
   [99; B; A]: the new handle IS the head, but the rest is not the old order. *)
Definition bx_pop (r : rq) : rq := match rq_popleft r with Some (_, r') => r' | None => r end.
Fixpoint bx_rounds (n : nat) (r : rq) : rq :=
  match n with O => r | S n => bx_rounds n (bx_pop (rq_append r (10 + n) (-1)%Q)) end.
Definition bx_r0 : rq :=
  bx_rounds 11 (rq_append (rq_append (RPos (pos_empty 2 [1%Q; 1%Q; 1%Q])) 1 5%Q) 2 0%Q).

Lemma bx_pop_ok qok (QS : QSpec qok) r : qok r -> qok (bx_pop r).
Proof.
  intros Hq. unfold bx_pop. destruct (rq_popleft r) as [[h r']|] eqn:E; [|exact Hq].
  apply (q_popleft QS r h r' Hq E).
Qed.
Lemma bx_rounds_ok qok (QS : QSpec qok) n : forall r, qok r -> qok (bx_rounds n r).
Proof.
  induction n as [|n IH]; intros r Hq; simpl; [exact Hq|].
  apply IH. apply (bx_pop_ok qok QS). apply (q_append QS). exact Hq.
Qed.
Lemma bx_r0_ok : qok_boostc bx_r0.
Proof.
  unfold bx_r0. apply (bx_rounds_ok qok_boostc QSpec_boostc).
  apply (q_append QSpec_boostc). apply (q_append QSpec_boostc).
  simpl. split; [apply Inv_empty|constructor].
Qed.

Example bx_orders :
  rq_items bx_r0 = [2; 1] /\ rq_items (rq_insert_pos bx_r0 0 99) = [99; 1; 2].
Proof. vm_compute. split; reflexivity. Qed.

Theorem QNext_boost_strict_false : ~ QNext qok_boostc /\ ~ QNext qok_boost.
Proof.
  destruct bx_orders as [E1 E2]. split; intros QN.
  - pose proof (qn_insert0 QN bx_r0 99 bx_r0_ok) as E. rewrite E1, E2 in E. discriminate.
  - pose proof (qn_insert0 QN bx_r0 99 (qok_boostc_boost _ bx_r0_ok)) as E. rewrite E1, E2 in E. discriminate.
Qed.

(* ------------------------------------------------------------ non-vacuity on the boosted loop *)
(* boost factor 2: two Python tasks are queued (run order [0; 1]); an accepted task_interrupt of
   task 1 puts its new handle 2 = HStep 1 (Some e) in front of task 0's; the next loop step
   delivers e to task 1 while task 0 has not run *)
Definition bi_s0 : st := init_st true 2 [1%Q] [] [] 0.
Definition bi_acts : list action := [ASpawn SPy (Ret 0%Z); ASpawn SPy (Ret 1%Z)].
Definition bi_s : st := fold_left do_action bi_acts bi_s0.

Example bi_example :
  actions_ok bi_s0 bi_acts /\ InvC qok_boostc None bi_s /\
  let s' := fst (lib_call 0 (OTaskInterrupt 1 (EUser 1)) bi_s) in
  lib_call 0 (OTaskInterrupt 1 (EUser 1)) bi_s = (s', LSusp YNone [InSleep0]) /\
  rq_items (ready bi_s) = [0; 1] /\ rq_items (ready s') = [2; 0] /\
  geth s' 2 = mkH (HStep 1 (Some (EUser 1))) false /\
  map fstate_ (futs (run_one s')) = [FPending; FExc (EUser 1)].
Proof.
  assert (A : actions_ok bi_s0 bi_acts) by (simpl; auto).
  split; [exact A|]. split; [apply (Inv09_prio_boostc 2 [1%Q] [] [] 0 bi_acts A)|].
  vm_compute. repeat split; reflexivity.
Qed.
