(* C11/C12 on the fixed-lock-order domain: non-vacuity of the domain conditions, and the run
   of finding F17 (PriorityTask.propagate_priority stopped at a cancelled waiter that has not
   run yet): with the OLD text of propagate_task (defined below, not in Model.v) `keyed` fails and
   the lock is handed to the less urgent waiter; in the current (repaired) model the same run
   re-keys the entry and the hand-over is right. *)
From Coq Require Import QArith Lqa.
From RecordUpdate Require Import RecordUpdate.
From Asynkit Require Import Base.Prelude Queue.PQ Queue.Exec Sched.Model Sched.Corr Sched.LockInv
  Sched.LockLib Sched.LockProofs Sched.LockThms Sched.InheritEprio Sched.InheritHandover Sched.WaitProofs
  Sched.Tables Sched.InheritFalls Sched.NoOvertakeRel Sched.NoOvertakeThms.
From Asynkit Require Import Sched.OrderInv Sched.OrderPass Sched.OrderThms.
Import RecordSetNotations.
Open Scope nat_scope.

(* a section as the generators of harness/props/c11.py produce it:
   await l.acquire(); try: body finally: l.release(); rest *)
Definition sect (l : nat) (body rest : script) : script :=
  SDo (OAcquire l) (STry body CNever SEnd (SDo (ORelease l) SEnd) rest).

Ltac ord_tac :=
  vm_compute;
  repeat match goal with
         | |- _ /\ _ => split
         | |- True => exact I
         | |- _ -> _ => intro
         | H : _ \/ _ |- _ => destruct H
         | H : False |- _ => destruct H
         | H : _ = _ |- _ => subst
         end; try lia.

(* ------------------------------------------------------------ 1. three tasks, two locks, nested sections *)
(* C (task 0, priority 7) holds lock 1 across three sleeps; A (task 1, priority 4) takes lock 0
   and then blocks on lock 1 INSIDE the section of lock 0; B (task 2, priority -2) arrives last and
   blocks on lock 0: chain B -> A -> C. *)
Definition eC : script := sect 1 (SDo OSleep0 (SDo OSleep0 (SDo OSleep0 SEnd))) SEnd.
Definition eA : script := sect 0 (SDo OSleep0 (sect 1 (SDo OSleep0 SEnd) SEnd)) SEnd.
Definition eB : script := sect 0 (sect 1 SEnd SEnd) SEnd.
Definition eacts : list action :=
  map act [XSpawn (SPrio 7) eC; XSpawn (SPrio 4) eA; XStep; XStep; XStep; XStep;
           XSpawn (SPrio (-2)) eB; XStep; XStep].
Definition eall : list action := eacts ++ map act [XStep; XStep; XStep; XStep; XStep; XStep; XStep; XStep; XStep; XStep].
Notation est0 := (init_st false 0%Q [] [LPrio; LPrio] [] 0).
Definition est : st := Eval vm_compute in fold_left do_action eacts est0.

Example erun_ok : run_ok est0 eall.
Proof. vm_compute. repeat split. Qed.
Example erun_ne : run_ne est0 eall.
Proof. vm_compute. repeat split; intros; discriminate. Qed.
Example erun_ord : run_ord est0 eall.
Proof. ord_tac. Qed.

Example est_reachable_ord : reachable_ord est.
Proof.
  exists false, 0%Q, [], [LPrio; LPrio], [], 0, eacts.
  split; [vm_compute; repeat split|]. split; [vm_compute; repeat split; intros; discriminate|].
  split; [ord_tac|]. vm_compute. reflexivity.
Qed.

Example est_facts :
  (* A holds lock 0 and is queued on lock 1 (held by C); B is queued on lock 0 *)
  tholding (gett est 1) = [0] /\ lwt (getl est 1) = [(2, 1)] /\ lowner (getl est 1) = Some 0 /\
  lwt (getl est 0) = [(4, 2)] /\ lowner (getl est 0) = Some 1 /\
  (* B's priority has travelled up the chain; A's entry was re-keyed from 4 to -2 *)
  map (fun t => Qred (effective_priority est t)) [0; 1; 2] = [(-2)%Q; (-2)%Q; (-2)%Q] /\
  arr (lpq (getl est 1)) = [mkE (-2)%Q 0 2] /\
  (* the whole run ends with every lock free *)
  map (fun l => lowner (getl (fold_left do_action eall est0) l)) [0; 1] = [None; None].
Proof. repeat split; vm_compute; reflexivity. Qed.

(* the theorems of OrderThms.v apply: acyclic, holder chain at least as urgent as B *)
Example est_ranked : ranked est.
Proof. apply ranked_reachable, est_reachable_ord. Qed.
Example est_holder_chain :
  (effective_priority est 1 <= effective_priority est 2)%Q /\
  (forall x, waits_tr est 1 x -> (effective_priority est x <= effective_priority est 2)%Q).
Proof.
  apply (holder_reach_ord est 0 2 1 est_reachable_ord); vm_compute; auto.
Qed.

(* ------------------------------------------------------------ 2. finding F17 and its repair *)
(* Three locks, always taken in increasing order.
     O2 (task 0, priority 0)  holds lock 2 across three sleeps;
     O1 (task 1, priority 5)  holds lock 1 and is queued on lock 2: future 3, key 5;
     U  (task 2, priority 7)  holds lock 0 and is queued on lock 1 (future 4);
     T  (task 3, priority -5) cancels U and then queues on lock 0 (held by U);
     W2 (task 4, priority 3)  queues on lock 2 afterwards: future 8, key 3.
   When T arrives, U is cancelled but has not run yet: it is RUNNABLE and still queued on
   lock 1, so effective_priority(O1) is -5 (through U).
   Before the repair propagate_priority(U) rescheduled the runnable U and STOPPED: O1's entry
   in lock 2 kept key 5, nobody re-keyed it, and O2's release handed lock 2 to W2 (key 3)
   although O1 had been strictly more urgent (-5 < 3) during the whole time both were waiting.
   The repaired propagate_priority reschedules U AND passes the notification on through the
   lock U is still queued on: U's entry in lock 1 and O1's entry in lock 2 are re-keyed to -5
   and the release wakes O1. *)
Definition kO2 : script := sect 2 (SDo OSleep0 (SDo OSleep0 (SDo OSleep0 SEnd))) SEnd.
Definition kO1 : script := sect 1 (sect 2 SEnd SEnd) SEnd.
Definition kW2 : script := sect 2 SEnd SEnd.
Definition kU : script := sect 0 (sect 1 SEnd SEnd) SEnd.
Definition kT : script := SDo (OCancel 2) (sect 0 SEnd SEnd).
Definition kacts : list action :=
  map act [XSpawn (SPrio 0) kO2; XStep; XSpawn (SPrio 5) kO1; XSpawn (SPrio 7) kU;
           XStep; XStep; XStep; XSpawn (SPrio (-5)) kT; XSpawn (SPrio 3) kW2; XStep; XStep; XStep; XStep;
           XStep; XStep; XStep; XStep; XStep; XStep; XStep].
Notation kst0 := (init_st false 0%Q [] [LPrio; LPrio; LPrio] [] 0).
Notation KT := (tr kst0 kacts).

Example krun_ok : run_ok kst0 kacts.
Proof. vm_compute. repeat split. Qed.
Example krun_ne : run_ne kst0 kacts.
Proof. vm_compute. repeat split; intros; discriminate. Qed.
Example krun_ord : run_ord kst0 kacts.
Proof. ord_tac. Qed.

Definition kst11 : st := Eval vm_compute in KT 11.
Definition kst12 : st := Eval vm_compute in KT 12.
Definition kst13 : st := Eval vm_compute in KT 13.

Lemma reach_prefix k :
  reachable_ord (KT k).
Proof.
  exists false, 0%Q, [], [LPrio; LPrio; LPrio], [], 0, (firstn k kacts). unfold tr.
  assert (P : forall acts s n, (run_ok s acts -> run_ok s (firstn n acts)) /\
                               (run_ne s acts -> run_ne s (firstn n acts)) /\
                               (run_ord s acts -> run_ord s (firstn n acts))).
  { induction acts as [|a acts IH]; intros s n; destruct n; simpl; auto.
    destruct (IH (do_action s a) n) as (A & B & C).
    repeat split; try tauto; intros [H1 H2]; auto. }
  destruct (P kacts kst0 k) as (A & B & C).
  split; [apply A, krun_ok|]. split; [apply B, krun_ne|]. split; [apply C, krun_ord|reflexivity].
Qed.

Example kst12_reachable_ord : reachable_ord kst12.
Proof. change kst12 with (KT 12). apply reach_prefix. Qed.

(* ---------------------------------------------------------------- 2a. the current (repaired) model *)
Lemma kst12_arr2 : arr (lpq (getl kst12 2)) = [mkE (-5)%Q 0 3; mkE 3%Q 1 8].
Proof. vm_compute; reflexivity. Qed.

Example k_facts :
  (* state 11: T has arrived, W2 not yet; U's future 4 is cancelled, U still queued on lock 1;
     U's entry in lock 1 and O1's entry in lock 2 have been re-keyed to -5 *)
  fstate_ (getf kst11 4) = FCancelled /\ lwt (getl kst11 1) = [(4, 2)] /\
  arr (lpq (getl kst11 1)) = [mkE (-5)%Q 0 4] /\
  arr (lpq (getl kst11 2)) = [mkE (-5)%Q 0 3] /\ Qred (effective_priority kst11 1) = (-5)%Q /\
  (* state 12: W2 queued with key 3, behind O1 *)
  arr (lpq (getl kst12 2)) = [mkE (-5)%Q 0 3; mkE 3%Q 1 8] /\ lwt (getl kst12 2) = [(3, 1); (8, 4)] /\
  fdone kst12 3 = false /\ fdone kst12 8 = false /\
  map (fun t => Qred (effective_priority kst12 t)) [1; 4] = [(-5)%Q; 3%Q] /\
  (* the release of lock 2 (action 12) completes O1's future; W2's stays pending *)
  fstate_ (getf kst13 3) = FResult 1 /\ fstate_ (getf kst13 8) = FPending /\
  In 3 (objs kst13 2) /\ In 8 (objs kst13 2).
Proof. repeat split; vm_compute; auto. Qed.

Example kst12_keyed2 : keyed kst12 2.
Proof.
  intros e He _. rewrite kst12_arr2 in He. destruct He as [<-|[<-|[]]]; vm_compute; reflexivity.
Qed.

Example kst12_before : before kst12 2 (mkE (-5)%Q 0 3) (mkE 3%Q 1 8).
Proof. left; vm_compute; reflexivity. Qed.

(* the acyclicity theorem applies to this state *)
Example kst12_ranked : ranked kst12.
Proof. apply ranked_reachable, kst12_reachable_ord. Qed.

(* ---------------------------------------------------------------- 2b. before the repair (F17) *)
(* PriorityTask.propagate_priority / PriorityLock.propagate_priority as they were: a runnable task
   is rescheduled and the notification stops there (`elif self._waiting_on`) *)
Fixpoint propagate_task_old (fuel : nat) (s : st) (t : nat) : st :=
  if negb (is_prio_task s t) then s else
  if task_is_runnable s t then task_reschedule s t
  else match twaiting (gett s t), fuel with
       | Some l, S fuel =>
           let lk := getl s l in
           let s := match lowner lk with
                    | Some o => propagate_task_old fuel s o
                    | None => s end in
           let p := effective_priority s t in
           let lk := getl s l in
           match find (fun pr => Nat.eqb (snd pr) t) (lwt lk) with
           | Some (f, _) =>
               match pq_reschedule HQ (lpq lk) (fun o => Nat.eqb (Z.to_nat o) f) p with
               | Some (_, q') => setl s l (lk <| lpq := q' |>)
               | None => s
               end
           | None => s
           end
       | _, _ => s
       end.
Definition propagate_priority_old (s : st) (t : nat) : st := propagate_task_old (efuel s) s t.

(* PriorityLock.acquire up to its `await fut` (Model.acquire_p_start), over the old propagate *)
Definition acquire_p_start_old (s : st) (t l : nat) : st * lres :=
  let lk := getl s l in
  if negb (llocked lk) && match arr (lpq lk) with [] => true | _ => false end then
    match take_lock s l t with
    | inl s' => (s', LDone (RVal 1))
    | inr e => (s, LDone (RExc e))
    end
  else
    let had := is_prio_task s t in
    let p := if had then effective_priority s t else 0%Q in
    let '(s, f) := new_future s None in
    if had && match twaiting (gett s t) with Some _ => true | None => false end
    then (s, LDone (RExc EAssertion))
    else
      let s := if had then sett s t (gett s t <| twaiting := Some l |>) else s in
      let lk := getl s l in
      let s := setl s l (lk <| lpq := pq_add HQ (lpq lk) p (Z.of_nat f) |>
                            <| lwt := lwt lk ++ [(f, t)] |>) in
      let s := match lowner (getl s l) with
               | Some o => propagate_priority_old s o
               | None => s end in
      (setf s f (getf s f <| fblock := true |>), LSusp (YFut f) [InFut f; InAcquireP l f had]).

(* the two versions differ only at a task that is runnable AND still queued on a PriorityLock *)
Lemma propagate_old_agrees fuel : forall s t,
  (forall u, task_is_runnable s u = true -> twaiting (gett s u) = None) ->
  propagate_task fuel s t = propagate_task_old fuel s t.
Proof.
  induction fuel as [|fuel IH]; intros s t H; cbn [propagate_task propagate_task_old].
  - destruct (negb (is_prio_task s t)); [reflexivity|].
    destruct (task_is_runnable s t) eqn:Er; [|reflexivity].
    change (gett (task_reschedule s t) t) with (gett s t). rewrite (H t Er). reflexivity.
  - destruct (negb (is_prio_task s t)); [reflexivity|].
    destruct (task_is_runnable s t) eqn:Er.
    + change (gett (task_reschedule s t) t) with (gett s t). rewrite (H t Er). reflexivity.
    + destruct (twaiting (gett s t)) as [l|]; [|reflexivity].
      destruct (lowner (getl s l)) as [o|]; [rewrite (IH s o H)|]; reflexivity.
Qed.

(* The state just before T's arrival.  In `kacts` T calls U.cancel() and acquire(lock 0) in one
   step; to have the state between the two as a state of a run, the same cancellation is issued
   from outside (XDo) and T's script is the section alone.  kpre is reachable in the CURRENT
   model on the fixed-order domain: the next handle in the ready queue is T's first step, U
   (cancelled, runnable, still queued on lock 1) runs after it. *)
Definition kT' : script := sect 0 SEnd SEnd.
Definition kactsX : list action :=
  map act [XSpawn (SPrio 0) kO2; XStep; XSpawn (SPrio 5) kO1; XSpawn (SPrio 7) kU;
           XStep; XStep; XStep; XSpawn (SPrio (-5)) kT'; XSpawn (SPrio 3) kW2; XStep; XDo (OCancel 2)].
Definition kpre : st := Eval vm_compute in fold_left do_action kactsX kst0.

Example kpre_reachable_ord : reachable_ord kpre.
Proof.
  exists false, 0%Q, [], [LPrio; LPrio; LPrio], [], 0, kactsX.
  split; [vm_compute; repeat split|]. split; [vm_compute; repeat split; intros; discriminate|].
  split; [ord_tac|]. vm_compute. reflexivity.
Qed.
Example kpre_ranked : ranked kpre.
Proof. apply ranked_reachable, kpre_reachable_ord. Qed.

Example kpre_facts :
  (* U's future 4 is cancelled, U is runnable and still queued on lock 1 (held by O1); O1 is
     queued on lock 2 (held by O2) with key 5; U holds lock 0; T (task 3) has not started *)
  fstate_ (getf kpre 4) = FCancelled /\ task_is_runnable kpre 2 = true /\
  twaiting (gett kpre 2) = Some 1 /\ lwt (getl kpre 1) = [(4, 2)] /\ lwt (getl kpre 2) = [(3, 1)] /\
  map (fun l => lowner (getl kpre l)) [0; 1; 2] = [Some 2; Some 1; Some 0] /\
  map (fun l => arr (lpq (getl kpre l))) [0; 1; 2] = [[]; [mkE 7%Q 0 4]; [mkE 5%Q 0 3]] /\
  map (fun t => Qred (effective_priority kpre t)) [0; 1; 2; 3; 4] = [0%Q; 5%Q; 7%Q; (-5)%Q; 3%Q] /\
  (* the next handle in the ready queue is T's *)
  match ready kpre with RList (h :: _) => task_of_handle kpre h = Some 3 | _ => False end /\
  keyed kpre 0 /\ keyed kpre 1 /\ keyed kpre 2.
Proof.
  do 9 (split; [vm_compute; reflexivity|]).
  assert (E0 : arr (lpq (getl kpre 0)) = []) by (vm_compute; reflexivity).
  assert (E1 : arr (lpq (getl kpre 1)) = [mkE 7%Q 0 4]) by (vm_compute; reflexivity).
  assert (E2 : arr (lpq (getl kpre 2)) = [mkE 5%Q 0 3]) by (vm_compute; reflexivity).
  split; [|split].
  - intros e He _. rewrite E0 in He. destruct He.
  - intros e He _. rewrite E1 in He. destruct He as [<-|[]]; vm_compute; reflexivity.
  - intros e He _. rewrite E2 in He. destruct He as [<-|[]]; vm_compute; reflexivity.
Qed.

(* T's acquire(lock 0) with the old text, in the reachable state kpre; then W2's acquire(lock 2) *)
Definition kold11 : st := fst (acquire_p_start_old kpre 3 0).
Definition kold12 : st := fst (acquire_p_start_old kold11 4 2).
(* ... and T's acquire(lock 0) with the current one *)
Definition knew11 : st := fst (acquire_p_start kpre 3 0).

Lemma kold11_def : kold11 = fst (acquire_p_start_old kpre 3 0).
Proof. reflexivity. Qed.
Lemma kold12_def : kold12 = fst (acquire_p_start_old kold11 4 2).
Proof. reflexivity. Qed.
Lemma knew11_def : knew11 = fst (acquire_p_start kpre 3 0).
Proof. reflexivity. Qed.

Lemma kold12_arr2 : arr (lpq (getl kold12 2)) = [mkE 3%Q 1 8; mkE 5%Q 0 3].
Proof. vm_compute; reflexivity. Qed.

(* the wait-for graph of kold12 is the chain T -> U -> O1 -> O2 <- W2 *)
Lemma kold12_graph :
  (tholding (gett kold12 0) = [2] /\ tholding (gett kold12 1) = [1] /\
   tholding (gett kold12 2) = [0] /\ tholding (gett kold12 3) = [] /\ tholding (gett kold12 4) = []) /\
  (lock_waiter_tasks (getl kold12 0) = [3] /\ lock_waiter_tasks (getl kold12 1) = [2] /\
   lock_waiter_tasks (getl kold12 2) = [4; 1]) /\
  efuel kold12 = 9.
Proof. repeat split; vm_compute; reflexivity. Qed.
Example kold12_ranked : ranked kold12.
Proof.
  destruct kold12_graph as ((H0 & H1 & H2 & H3 & H4) & (W0 & W1 & W2) & Hf).
  exists (fun t => match t with 0 => 3 | 1 => 2 | 2 => 1 | _ => 0 end). split.
  - intros w t (l & Hl & Hw). destruct t as [|[|[|[|[|t]]]]].
    + rewrite H0 in Hl. destruct Hl as [<-|[]]. rewrite W2 in Hw. destruct Hw as [<-|[<-|[]]]; lia.
    + rewrite H1 in Hl. destruct Hl as [<-|[]]. rewrite W1 in Hw. destruct Hw as [<-|[]]; lia.
    + rewrite H2 in Hl. destruct Hl as [<-|[]]. rewrite W0 in Hw. destruct Hw as [<-|[]]; lia.
    + rewrite H3 in Hl. destruct Hl.
    + rewrite H4 in Hl. destruct Hl.
    + rewrite Tables.gett_oob in Hl by (vm_compute; lia). destruct Hl.
  - intros t. rewrite Hf. destruct t as [|[|[|t]]]; lia.
Qed.

Example kold_facts :
  (* after T's arrival with the old text: everybody on the chain has effective priority -5, but
     only the ready queue was touched - the keys of locks 1 and 2 are the old ones *)
  arr (lpq (getl kold11 1)) = [mkE 7%Q 0 4] /\ arr (lpq (getl kold11 2)) = [mkE 5%Q 0 3] /\
  map (fun t => Qred (effective_priority kold11 t)) [0; 1; 2; 3] = [(-5)%Q; (-5)%Q; (-5)%Q; (-5)%Q] /\
  (* after W2's arrival: W2 queued with key 3, in front of O1's stale 5; both entries live *)
  arr (lpq (getl kold12 2)) = [mkE 3%Q 1 8; mkE 5%Q 0 3] /\ lwt (getl kold12 2) = [(3, 1); (8, 4)] /\
  fdone kold12 3 = false /\ fdone kold12 8 = false /\
  map (fun t => Qred (effective_priority kold12 t)) [1; 4] = [(-5)%Q; 3%Q] /\
  map (fun t => Qred (wprio kold12 t)) [1; 4] = [(-5)%Q; 3%Q] /\
  lowner (getl kold12 2) = Some 0 /\
  ~ keyed kold12 2 /\
  (* O1's entry is `before` W2's (strictly more urgent) *)
  before kold12 2 (mkE 5%Q 0 3) (mkE 3%Q 1 8).
Proof.
  do 10 (split; [vm_compute; reflexivity|]). split.
  - intros K. specialize (K (mkE 5%Q 0 3)).
    assert (H : (5 == wprio kold12 (entry_task (getl kold12 2) (mkE 5%Q 0 3)))%Q).
    { apply K; [rewrite kold12_arr2; simpl; tauto|vm_compute; reflexivity]. }
    vm_compute in H. discriminate.
  - left; vm_compute; reflexivity.
Qed.

(* O2 releases lock 2: W2 (effective priority 3, key 3) gets the lock although the live waiter
   O1 (effective priority -5, stale key 5) is `before` it *)
Example kold_handover :
  release_p kold12 0 2 = (wake_up_first_p (pre_wake kold12 0 2) 2, RVal 0) /\
  map (fun t => Qred (wprio (pre_wake kold12 0 2) t)) [1; 4] = [(-5)%Q; 3%Q] /\
  before (pre_wake kold12 0 2) 2 (mkE 5%Q 0 3) (mkE 3%Q 1 8) /\
  map (fun f => fstate_ (getf (wake_up_first_p (pre_wake kold12 0 2) 2) f)) [3; 8] = [FPending; FResult 1].
Proof.
  split; [apply release_p_wake; vm_compute; reflexivity|].
  split; [vm_compute; reflexivity|]. split; [left; vm_compute; reflexivity|].
  vm_compute; reflexivity.
Qed.

(* the current text applied to the same state kpre: U's entry in lock 1 and O1's entry in lock 2
   are re-keyed to -5, as in the run (kst11) *)
Example knew_facts :
  arr (lpq (getl knew11 1)) = [mkE (-5)%Q 0 4] /\ arr (lpq (getl knew11 2)) = [mkE (-5)%Q 0 3] /\
  map (fun t => Qred (effective_priority knew11 t)) [0; 1; 2; 3] = [(-5)%Q; (-5)%Q; (-5)%Q; (-5)%Q] /\
  map (fun l => arr (lpq (getl knew11 l))) [0; 1; 2] = map (fun l => arr (lpq (getl kst11 l))) [0; 1; 2].
Proof. repeat split; vm_compute; reflexivity. Qed.

Print Assumptions kold_facts.
Print Assumptions kold_handover.
Print Assumptions kpre_reachable_ord.
