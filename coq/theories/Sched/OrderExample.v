(* C11/C12 on the fixed-lock-order domain: non-vacuity of the domain conditions, and the run
   that shows that `keyed` is NOT an invariant of the domain when a waiter is cancelled
   (finding F17: PriorityTask.propagate_priority stops at a cancelled waiter that has not run
   yet). *)
From Coq Require Import QArith Lqa.
From Asynkit Require Import Base.Prelude Queue.PQ Queue.Exec Sched.Model Sched.Corr Sched.LockInv
  Sched.LockLib Sched.LockProofs Sched.LockThms Sched.InheritEprio Sched.InheritHandover Sched.WaitProofs
  Sched.NoOvertakeRel Sched.NoOvertakeThms.
From Asynkit Require Import Sched.OrderInv Sched.OrderPass Sched.OrderThms.
Open Scope nat_scope.

(* a section as the generators of harness/props/c11.py produce it:
   await l.acquire(); try: body finally: l.release(); rest *)
Definition sect (l : nat) (body rest : script) : script :=
  SDo (OAcquire l) (STry body CNever SEnd (SDo (ORelease l) SEnd) rest).

Ltac ord_tac :=
  vm_compute;
  repeat match goal with
         | |- _ /\ _ => split
         | |- True => exact I
         | |- _ -> _ => intro
         | H : _ \/ _ |- _ => destruct H
         | H : False |- _ => destruct H
         | H : _ = _ |- _ => subst
         end; try lia.

(* ------------------------------------------------------------ 1. three tasks, two locks, nested sections *)
(* C (task 0, priority 7) holds lock 1 across three sleeps; A (task 1, priority 4) takes lock 0
   and then blocks on lock 1 INSIDE the section of lock 0; B (task 2, priority -2) arrives last and
   blocks on lock 0: chain B -> A -> C. *)
Definition eC : script := sect 1 (SDo OSleep0 (SDo OSleep0 (SDo OSleep0 SEnd))) SEnd.
Definition eA : script := sect 0 (SDo OSleep0 (sect 1 (SDo OSleep0 SEnd) SEnd)) SEnd.
Definition eB : script := sect 0 (sect 1 SEnd SEnd) SEnd.
Definition eacts : list action :=
  map act [XSpawn (SPrio 7) eC; XSpawn (SPrio 4) eA; XStep; XStep; XStep; XStep;
           XSpawn (SPrio (-2)) eB; XStep; XStep].
Definition eall : list action := eacts ++ map act [XStep; XStep; XStep; XStep; XStep; XStep; XStep; XStep; XStep; XStep].
Notation est0 := (init_st false 0%Q [] [LPrio; LPrio] [] 0).
Definition est : st := Eval vm_compute in fold_left do_action eacts est0.

Example erun_ok : run_ok est0 eall.
Proof. vm_compute. repeat split. Qed.
Example erun_ne : run_ne est0 eall.
Proof. vm_compute. repeat split; intros; discriminate. Qed.
Example erun_ord : run_ord est0 eall.
Proof. ord_tac. Qed.

Example est_reachable_ord : reachable_ord est.
Proof.
  exists false, 0%Q, [], [LPrio; LPrio], [], 0, eacts.
  split; [vm_compute; repeat split|]. split; [vm_compute; repeat split; intros; discriminate|].
  split; [ord_tac|]. vm_compute. reflexivity.
Qed.

Example est_facts :
  (* A holds lock 0 and is queued on lock 1 (held by C); B is queued on lock 0 *)
  tholding (gett est 1) = [0] /\ lwt (getl est 1) = [(2, 1)] /\ lowner (getl est 1) = Some 0 /\
  lwt (getl est 0) = [(4, 2)] /\ lowner (getl est 0) = Some 1 /\
  (* B's priority has travelled up the chain; A's entry was re-keyed from 4 to -2 *)
  map (fun t => Qred (effective_priority est t)) [0; 1; 2] = [(-2)%Q; (-2)%Q; (-2)%Q] /\
  arr (lpq (getl est 1)) = [mkE (-2)%Q 0 2] /\
  (* the whole run ends with every lock free *)
  map (fun l => lowner (getl (fold_left do_action eall est0) l)) [0; 1] = [None; None].
Proof. repeat split; vm_compute; reflexivity. Qed.

(* the theorems of OrderThms.v apply: acyclic, holder chain at least as urgent as B *)
Example est_ranked : ranked est.
Proof. apply ranked_reachable, est_reachable_ord. Qed.
Example est_holder_chain :
  (effective_priority est 1 <= effective_priority est 2)%Q /\
  (forall x, waits_tr est 1 x -> (effective_priority est x <= effective_priority est 2)%Q).
Proof.
  apply (holder_reach_ord est 0 2 1 est_reachable_ord); vm_compute; auto.
Qed.

(* ------------------------------------------------------------ 2. `keyed` fails on the domain (F17) *)
(* Three locks, always taken in increasing order.
     O2 (task 0, priority 0)  holds lock 2 across three sleeps;
     O1 (task 1, priority 5)  holds lock 1 and is queued on lock 2: future 3, key 5;
     U  (task 2, priority 7)  holds lock 0 and is queued on lock 1 (future 4);
     T  (task 3, priority -5) cancels U and then queues on lock 0 (held by U);
     W2 (task 4, priority 3)  queues on lock 2 afterwards: future 8, key 3.
   When T arrives, U is cancelled but has not run yet: propagate_priority(U) sees a runnable
   task, reschedules it and STOPS.  U is still in lock 1's queue, so effective_priority(O1) is
   -5 (through U), but O1's entry in lock 2 keeps key 5 and nobody re-keys it.  O2's release
   hands lock 2 to W2 (key 3) although O1 has been strictly more urgent (-5 < 3) during the
   whole time both were waiting. *)
Definition kO2 : script := sect 2 (SDo OSleep0 (SDo OSleep0 (SDo OSleep0 SEnd))) SEnd.
Definition kO1 : script := sect 1 (sect 2 SEnd SEnd) SEnd.
Definition kW2 : script := sect 2 SEnd SEnd.
Definition kU : script := sect 0 (sect 1 SEnd SEnd) SEnd.
Definition kT : script := SDo (OCancel 2) (sect 0 SEnd SEnd).
Definition kacts : list action :=
  map act [XSpawn (SPrio 0) kO2; XStep; XSpawn (SPrio 5) kO1; XSpawn (SPrio 7) kU;
           XStep; XStep; XStep; XSpawn (SPrio (-5)) kT; XSpawn (SPrio 3) kW2; XStep; XStep; XStep; XStep;
           XStep; XStep; XStep; XStep; XStep; XStep; XStep].
Notation kst0 := (init_st false 0%Q [] [LPrio; LPrio; LPrio] [] 0).
Notation KT := (tr kst0 kacts).

Example krun_ok : run_ok kst0 kacts.
Proof. vm_compute. repeat split. Qed.
Example krun_ne : run_ne kst0 kacts.
Proof. vm_compute. repeat split; intros; discriminate. Qed.
Example krun_ord : run_ord kst0 kacts.
Proof. ord_tac. Qed.

Definition kst11 : st := Eval vm_compute in KT 11.
Definition kst12 : st := Eval vm_compute in KT 12.
Definition kst13 : st := Eval vm_compute in KT 13.

Lemma reach_prefix k :
  reachable_ord (KT k).
Proof.
  exists false, 0%Q, [], [LPrio; LPrio; LPrio], [], 0, (firstn k kacts). unfold tr.
  assert (P : forall acts s n, (run_ok s acts -> run_ok s (firstn n acts)) /\
                               (run_ne s acts -> run_ne s (firstn n acts)) /\
                               (run_ord s acts -> run_ord s (firstn n acts))).
  { induction acts as [|a acts IH]; intros s n; destruct n; simpl; auto.
    destruct (IH (do_action s a) n) as (A & B & C).
    repeat split; try tauto; intros [H1 H2]; auto. }
  destruct (P kacts kst0 k) as (A & B & C).
  split; [apply A, krun_ok|]. split; [apply B, krun_ne|]. split; [apply C, krun_ord|reflexivity].
Qed.

Example kst12_reachable_ord : reachable_ord kst12.
Proof. change kst12 with (KT 12). apply reach_prefix. Qed.

Example k_facts :
  (* state 11: T has arrived, W2 not yet; U's future 4 is cancelled, U still queued on lock 1 *)
  fstate_ (getf kst11 4) = FCancelled /\ lwt (getl kst11 1) = [(4, 2)] /\
  arr (lpq (getl kst11 2)) = [mkE 5%Q 0 3] /\ Qred (effective_priority kst11 1) = (-5)%Q /\
  (* state 12: W2 queued with key 3 *)
  arr (lpq (getl kst12 2)) = [mkE 3%Q 1 8; mkE 5%Q 0 3] /\ lwt (getl kst12 2) = [(3, 1); (8, 4)] /\
  fdone kst12 3 = false /\ fdone kst12 8 = false /\
  map (fun t => Qred (effective_priority kst12 t)) [1; 4] = [(-5)%Q; 3%Q] /\
  (* the release of lock 2 (action 12) completes W2's future; O1's stays pending *)
  fstate_ (getf kst13 8) = FResult 1 /\ fstate_ (getf kst13 3) = FPending /\
  In 3 (objs kst13 2) /\ In 8 (objs kst13 2).
Proof. repeat split; vm_compute; auto. Qed.

Example k_not_keyed : ~ keyed kst12 2.
Proof.
  intros K. specialize (K (mkE 5%Q 0 3)).
  assert (H : (5 == wprio kst12 (entry_task (getl kst12 2) (mkE 5%Q 0 3)))%Q).
  { apply K; [vm_compute; tauto|vm_compute; reflexivity]. }
  vm_compute in H. discriminate.
Qed.

(* the acyclicity theorem applies to this state as well *)
Example kst12_ranked : ranked kst12.
Proof. apply ranked_reachable, kst12_reachable_ord. Qed.
