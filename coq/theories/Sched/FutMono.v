(* Futures are write-once, for every operation of the scheduler model, every user program and
   every state: through every primitive, library call, frame resumption, coroutine execution,
   task step, loop callback and top-level action, a future's owner never changes, its state
   never changes once it is not pending, and a stored _cancelled_exc is always a
   CancelledError (or was already there).  No side conditions: the relation holds for every
   task's step and every action.  (Same proof architecture as TaskFrame.v.) *)
From Coq Require Import QArith.
From RecordUpdate Require Import RecordUpdate.
From Asynkit Require Import Base.Prelude Queue.ListFacts Queue.PQ Queue.PosPQ Queue.Exec
     Sched.Model Sched.PartTables Sched.PartitionProofs.
Import RecordSetNotations.
Open Scope nat_scope.

(* per-future: owner never changes; once not pending the state never changes; a stored
   _cancelled_exc is a CancelledError(-subclass) or was already there *)
Definition fmono (x y : fut) : Prop :=
  fowner y = fowner x /\
  (fstate_ x <> FPending -> fstate_ y = fstate_ x) /\
  (forall e, fcexc y = Some e -> is_cancel e = true \/ fcexc x = Some e).
Definition FM (s0 s : st) : Prop :=
  length (futs s0) <= length (futs s) /\
  (forall f, f < length (futs s0) -> fmono (getf s0 f) (getf s f)) /\
  (forall f e, length (futs s0) <= f -> fcexc (getf s f) = Some e -> is_cancel e = true).

Lemma fmono_refl x : fmono x x.
Proof. split; [reflexivity|split; [reflexivity|intros e H; right; exact H]]. Qed.
Lemma fmono_trans x y z : fmono x y -> fmono y z -> fmono x z.
Proof.
  intros (a1 & a2 & a3) (b1 & b2 & b3). split; [congruence|]. split.
  - intros N. rewrite <- (a2 N). apply b2. rewrite (a2 N). exact N.
  - intros e H. destruct (b3 e H) as [C|C]; [left; exact C|apply a3; exact C].
Qed.
Lemma FM_refl s : FM s s.
Proof. split; [lia|]. split; [intros; apply fmono_refl|]. intros f e H. rewrite getf_oob by exact H. discriminate. Qed.
Lemma FM_trans s1 s2 s3 : FM s1 s2 -> FM s2 s3 -> FM s1 s3.
Proof.
  intros (A1 & A2 & A3) (B1 & B2 & B3). split; [lia|]. split.
  - intros f H. eapply fmono_trans; [apply A2; exact H|apply B2; lia].
  - intros f e H He. destruct (Nat.lt_ge_cases f (length (futs s2))) as [L|L].
    + destruct (B2 f L) as (_ & _ & X). destruct (X e He) as [C|C]; [exact C|]. eapply A3; eauto.
    + eapply B3; eauto.
Qed.
Lemma FM_same s0 s s' : futs s' = futs s -> FM s0 s -> FM s0 s'.
Proof. intros E (A1 & A2 & A3). unfold FM, getf in *. rewrite E. auto. Qed.

Lemma FM_setl s0 s l x : FM s0 s -> FM s0 (setl s l x). Proof. apply FM_same; reflexivity. Qed.
Lemma FM_setc s0 s l x : FM s0 s -> FM s0 (setc s l x). Proof. apply FM_same; reflexivity. Qed.
Lemma FM_sete s0 s l x : FM s0 s -> FM s0 (sete s l x). Proof. apply FM_same; reflexivity. Qed.
Lemma FM_sett s0 s t x : FM s0 s -> FM s0 (sett s t x). Proof. apply FM_same; reflexivity. Qed.
Lemma FM_setb s0 s b x : FM s0 s -> FM s0 (setb s b x). Proof. apply FM_same; reflexivity. Qed.
Lemma FM_ready s0 s r : FM s0 s -> FM s0 (s <| ready := r |>). Proof. apply FM_same; reflexivity. Qed.
Lemma FM_handles s0 s r : FM s0 s -> FM s0 (s <| handles := r |>). Proof. apply FM_same; reflexivity. Qed.
Lemma FM_timers s0 s r : FM s0 s -> FM s0 (s <| timers := r |>). Proof. apply FM_same; reflexivity. Qed.
Lemma FM_adderr s0 s e : FM s0 s -> FM s0 (adderr s e). Proof. apply FM_same; reflexivity. Qed.
Lemma FM_addlog s0 s n : FM s0 s -> FM s0 (addlog s n). Proof. apply FM_same; reflexivity. Qed.
Lemma FM_call_soon s0 s c : FM s0 s -> FM s0 (call_soon_ s c). Proof. apply FM_same; reflexivity. Qed.
Lemma FM_call_at_eq s0 s w c s' h : call_at s w c = (s', h) -> FM s0 s -> FM s0 s'.
Proof. intros E. inversion E. apply FM_same; reflexivity. Qed.
Lemma FM_cancel_handle s0 s h : FM s0 s -> FM s0 (cancel_handle s h). Proof. apply FM_same; reflexivity. Qed.
Lemma FM_call_pos s0 s p c : FM s0 s -> FM s0 (call_pos s p c).
Proof.
  intros H. unfold call_pos. rewrite call_soon_eq. destruct (rq_remove _ _).
  - apply FM_ready, FM_call_soon, H.
  - apply FM_call_soon, H.
Qed.
Lemma FM_tasks_app s0 s x : FM s0 s -> FM s0 (s <| tasks := tasks s ++ [x] |>).
Proof. apply FM_same; reflexivity. Qed.
Lemma FM_blocks_app s0 s x : FM s0 s -> FM s0 (s <| blocks := blocks s ++ [x] |>).
Proof. apply FM_same; reflexivity. Qed.

(* writing a future entry: allowed if the new entry is fmono-related to the old one *)
Lemma FM_setf s0 s f x : fmono (getf s f) x -> FM s0 s -> FM s0 (setf s f x).
Proof.
  intros Hx (A1 & A2 & A3). split; [rewrite length_futs_setf; exact A1|]. split.
  - intros g Hg. rewrite getf_setf. destruct (_ && _) eqn:B; [|auto].
    apply andb_prop in B. destruct B as [B _]. apply Nat.eqb_eq in B. subst g.
    eapply fmono_trans; [apply A2; exact Hg|exact Hx].
  - intros g e Hg. rewrite getf_setf. destruct (_ && _) eqn:B; [|apply A3; auto].
    apply andb_prop in B. destruct B as [B _]. apply Nat.eqb_eq in B. subst g.
    intros He. destruct Hx as (_ & _ & X). destruct (X e He) as [C|C]; [exact C|]. eapply A3; eauto.
Qed.

(* a new future is pending and has no stored exception *)
Lemma FM_new_future s0 s o : FM s0 s -> FM s0 (fst (new_future s o)).
Proof.
  intros (A1 & A2 & A3). unfold new_future. cbn [fst].
  split; [cbn; rewrite app_length; cbn; lia|]. split.
  - intros g Hg. unfold getf at 2. cbn. rewrite app_nth1 by lia. apply A2; exact Hg.
  - intros g e Hg. unfold getf. cbn. destruct (Nat.lt_ge_cases g (length (futs s))) as [L|L].
    + rewrite app_nth1 by lia. apply A3. exact Hg.
    + rewrite app_nth2 by lia. destruct (g - length (futs s)) as [|[|n]]; cbn; discriminate.
Qed.
Lemma FM_new_future_eq s0 s o s' f : new_future s o = (s', f) -> FM s0 s -> FM s0 s'.
Proof. intros E H. pose proof (FM_new_future s0 s o H) as X. rewrite E in X. exact X. Qed.

(* the shapes of future writes in the model: handshake flag, callback list, clearing the
   stored exception, the state of a pending future, storing a CancelledError *)
Ltac fm_side :=
  split; [reflexivity|split;
    [ first [ intros _; reflexivity
            | let N := fresh "N" in intros N; exfalso; apply N;
              match goal with Hp : fstate_ _ = FPending |- _ => exact Hp end ]
    | let e' := fresh "e'" in let He' := fresh "He'" in
      intros e' He';
      first [ right; exact He'
            | cbn in He'; discriminate He'
            | cbn in He'; inversion He'; subst; left; assumption ] ]].

Ltac case_goal_FM :=
  match goal with
  | |- FM _ (if ?b then _ else _) => destruct b eqn:?
  | |- FM _ (match ?x with _ => _ end) =>
      lazymatch type of x with
      | prod _ _ => let a := fresh "s" in let b := fresh "r" in destruct x as [a b] eqn:?
      | _ => destruct x eqn:?
      end
  | |- FM _ (fst (if ?b then _ else _)) => destruct b eqn:?
  | |- FM _ (fst (match ?x with _ => _ end)) =>
      lazymatch type of x with
      | prod _ _ => let a := fresh "s" in let b := fresh "r" in destruct x as [a b] eqn:?
      | _ => destruct x eqn:?
      end
  | |- FM _ (fst (_, _)) => cbn [fst]
  end.

Ltac tprim := fail.
Ltac tstep :=
  first
    [ assumption
    | apply FM_call_soon | apply FM_cancel_handle | apply FM_call_pos
    | (apply FM_setf; [fm_side|]) | apply FM_sett | apply FM_setl | apply FM_setc | apply FM_sete
    | apply FM_setb | apply FM_ready
    | apply FM_handles | apply FM_timers | apply FM_adderr | apply FM_addlog | apply FM_new_future
    | eapply FM_new_future_eq; [eassumption|]
    | eapply FM_call_at_eq; [eassumption|]
    | tprim
    | case_goal_FM ].
Ltac tgo := repeat tstep.
(* from an equation E : f ... = (s', r) *)
Ltac top E := repeat case_in E; inversion E; subst; clear E; tgo.

Lemma FM_fold {A} (f : st -> A -> st) :
  (forall s0 s a, FM s0 s -> FM s0 (f s a)) ->
  forall l s0 s, FM s0 s -> FM s0 (fold_left f l s).
Proof. intros H. induction l as [|a l IH]; intros s0 s HG; simpl; auto. Qed.
Lemma FM_schedule_callbacks s0 s f : FM s0 s -> FM s0 (schedule_callbacks s f).
Proof.
  intros H. unfold schedule_callbacks. apply FM_fold; [intros; apply FM_call_soon; auto|]. tgo.
Qed.

Lemma FM_fut_finish s0 s f x s' ok : fut_finish s f x = (s', ok) -> FM s0 s -> FM s0 s'.
Proof.
  intros E H. unfold fut_finish in E. destruct (fstate_ (getf s f)) eqn:Hp; inversion E; subst; auto.
  apply FM_schedule_callbacks. apply FM_setf; [fm_side|exact H].
Qed.
Lemma FM_fut_finish_fst s0 s f x : FM s0 s -> FM s0 (fst (fut_finish s f x)).
Proof. intros H. destruct (fut_finish s f x) eqn:E. eapply FM_fut_finish; eauto. Qed.

Lemma FM_add_done_callback s0 s f c : FM s0 s -> FM s0 (add_done_callback s f c).
Proof. intros H. unfold add_done_callback. tgo. Qed.
Lemma FM_remove_done_callback s0 s f c : FM s0 s -> FM s0 (remove_done_callback s f c).
Proof. intros H. unfold remove_done_callback. tgo. Qed.

Ltac tprim ::=
  first
    [ eapply FM_fut_finish; [eassumption|]
    | apply FM_fut_finish_fst | apply FM_schedule_callbacks
    | apply FM_add_done_callback | apply FM_remove_done_callback ].

Lemma FM_task_cancel s0 : forall fuel s t s' ok, task_cancel fuel s t = (s', ok) -> FM s0 s -> FM s0 s'.
Proof.
  induction fuel as [|fuel IH]; intros s t s' ok E H; cbn [task_cancel] in E.
  - top E.
  - repeat case_in E; inversion E; subst; clear E; tgo;
      match goal with Hc : task_cancel fuel _ _ = _ |- _ => try (eapply IH in Hc; [|eassumption]) end; tgo.
Qed.
Lemma FM_cancel_task s0 s t s' ok : cancel_task s t = (s', ok) -> FM s0 s -> FM s0 s'.
Proof. apply FM_task_cancel. Qed.
Lemma FM_cancel_awaitable s0 s f s' ok : cancel_awaitable s f = (s', ok) -> FM s0 s -> FM s0 s'.
Proof.
  unfold cancel_awaitable. destruct (fowner (getf s f)); [apply FM_cancel_task|apply FM_fut_finish].
Qed.

Ltac tprim ::=
  first
    [ eapply FM_fut_finish; [eassumption|]
    | apply FM_fut_finish_fst | apply FM_schedule_callbacks
    | apply FM_add_done_callback | apply FM_remove_done_callback
    | eapply FM_task_cancel; [eassumption|]
    | eapply FM_cancel_task; [eassumption|]
    | eapply FM_cancel_awaitable; [eassumption|] ].

(* ------------------------------------------------------------ locks *)
Lemma FM_take_lock s0 s l t s' : take_lock s l t = inl s' -> FM s0 s -> FM s0 s'.
Proof. intros E H. unfold take_lock in E. top E. Qed.

Lemma FM_wake_up_first_p s0 s l : FM s0 s -> FM s0 (wake_up_first_p s l).
Proof. intros H. unfold wake_up_first_p. tgo. Qed.
Lemma FM_wake_up_first_a s0 s l : FM s0 s -> FM s0 (wake_up_first_a s l).
Proof. intros H. unfold wake_up_first_a. tgo. Qed.
Lemma FM_task_reschedule s0 s t : FM s0 s -> FM s0 (task_reschedule s t).
Proof. intros H. unfold task_reschedule. tgo. Qed.

Lemma FM_propagate_task s0 : forall fuel s t, FM s0 s -> FM s0 (propagate_task fuel s t).
Proof.
  induction fuel as [|fuel IH]; intros s t H; cbn [propagate_task].
  - destruct (negb _); auto.
    set (s' := if task_is_runnable s t then task_reschedule s t else s).
    assert (H' : FM s0 s') by (unfold s'; destruct (task_is_runnable s t); [apply FM_task_reschedule|]; auto).
    clearbody s'. clear H s. rename s' into s, H' into H.
    destruct (twaiting _); auto.
  - destruct (negb _); auto.
    set (s' := if task_is_runnable s t then task_reschedule s t else s).
    assert (H' : FM s0 s') by (unfold s'; destruct (task_is_runnable s t); [apply FM_task_reschedule|]; auto).
    clearbody s'. clear H s. rename s' into s, H' into H.
    destruct (twaiting (gett s t)) as [l|]; auto.
    set (s1 := match lowner (getl s l) with Some o => propagate_task fuel s o | None => s end).
    assert (H1 : FM s0 s1) by (unfold s1; destruct (lowner (getl s l)); auto).
    clearbody s1. tgo.
Qed.
Lemma FM_propagate_priority s0 s t : FM s0 s -> FM s0 (propagate_priority s t).
Proof. apply FM_propagate_task. Qed.

Lemma FM_fut_result s0 s f s' r : fut_result s f = (s', r) -> FM s0 s -> FM s0 s'.
Proof. intros E H. unfold fut_result in E. top E. Qed.
Lemma FM_await_fut s0 s f outer s' r : await_fut s f outer = (s', r) -> FM s0 s -> FM s0 s'.
Proof.
  intros E H. unfold await_fut in E. destruct (fdone s f).
  - destruct (fut_result s f) as [s1 r1] eqn:F. inversion E; subst. eapply FM_fut_result; eauto.
  - inversion E; subst. tgo.
Qed.

Ltac tprim ::=
  first
    [ eapply FM_fut_finish; [eassumption|]
    | apply FM_fut_finish_fst | apply FM_schedule_callbacks
    | apply FM_add_done_callback | apply FM_remove_done_callback
    | eapply FM_task_cancel; [eassumption|]
    | eapply FM_cancel_task; [eassumption|]
    | eapply FM_cancel_awaitable; [eassumption|]
    | eapply FM_take_lock; [eassumption|]
    | apply FM_wake_up_first_p | apply FM_wake_up_first_a | apply FM_task_reschedule
    | apply FM_propagate_priority
    | eapply FM_fut_result; [eassumption|]
    | eapply FM_await_fut; [eassumption|] ].

Lemma FM_acquire_p_start s0 s t l s' r : acquire_p_start s t l = (s', r) -> FM s0 s -> FM s0 s'.
Proof. intros E H. unfold acquire_p_start in E. top E. Qed.
Lemma FM_acquire_p_finish s0 s t l f had inp s' r :
  acquire_p_finish s t l f had inp = (s', r) -> FM s0 s -> FM s0 s'.
Proof.
  intros E H. unfold acquire_p_finish in E.
  set (p := match inp with RVal _ => _ | RExc e => (s, RExc e) end) in E.
  assert (H1 : FM s0 (fst p)).
  { unfold p. destruct inp; [|exact H]. destruct (take_lock s l t) eqn:T; [|exact H].
    eapply FM_take_lock; eauto. }
  destruct p as [s1 r1]. cbn [fst] in H1. inversion E; subst. tgo.
Qed.
Lemma FM_release_p s0 s t l s' r : release_p s t l = (s', r) -> FM s0 s -> FM s0 s'.
Proof. intros E H. unfold release_p in E. top E. Qed.
Lemma FM_acquire_a_start s0 s l s' r : acquire_a_start s l = (s', r) -> FM s0 s -> FM s0 s'.
Proof. intros E H. unfold acquire_a_start in E. top E. Qed.
Lemma FM_acquire_a_finish s0 s l f inp s' r : acquire_a_finish s l f inp = (s', r) -> FM s0 s -> FM s0 s'.
Proof. intros E H. unfold acquire_a_finish in E. top E. Qed.
Lemma FM_release_a s0 s l s' r : release_a s l = (s', r) -> FM s0 s -> FM s0 s'.
Proof. intros E H. unfold release_a in E. top E. Qed.
Lemma FM_acquire_start s0 s t l s' r : acquire_start s t l = (s', r) -> FM s0 s -> FM s0 s'.
Proof.
  unfold acquire_start. destruct (lkind_ (getl s l)); [apply FM_acquire_p_start|apply FM_acquire_a_start].
Qed.
Lemma FM_release s0 s t l s' r : release s t l = (s', r) -> FM s0 s -> FM s0 s'.
Proof. unfold release. destruct (lkind_ (getl s l)); [apply FM_release_p|apply FM_release_a]. Qed.

(* ------------------------------------------------------------ throw / reinsert *)
Lemma FM_task_throw s0 s t e s' r : task_throw s t e = (s', r) -> FM s0 s -> FM s0 s'.
Proof. intros E H. unfold task_throw in E. top E. Qed.
Lemma FM_task_reinsert s0 s t p s' r : task_reinsert s t p = (s', r) -> FM s0 s -> FM s0 s'.
Proof. intros E H. unfold task_reinsert in E. top E. Qed.
Lemma FM_task_interrupt_start s0 s t e s' r : task_interrupt_start s t e = (s', r) -> FM s0 s -> FM s0 s'.
Proof.
  intros E H. unfold task_interrupt_start in E.
  destruct (task_throw s t e) as [s1 r1] eqn:T. pose proof (FM_task_throw _ _ _ _ _ _ T H) as H1.
  destruct r1; [|inversion E; subst; auto].
  destruct (task_reinsert s1 t 0) as [s2 r2] eqn:R. pose proof (FM_task_reinsert _ _ _ _ _ _ R H1) as H2.
  destruct r2; inversion E; subst; auto.
Qed.
Lemma FM_interruptor s0 : forall fuel s b i s' r, interruptor fuel s b i = (s', r) -> FM s0 s -> FM s0 s'.
Proof.
  induction fuel as [|fuel IH]; intros s b i s' r E H; cbn [interruptor] in E.
  - inversion E; subst; auto.
  - destruct (Nat.leb 3 i); [inversion E; subst; auto|].
    destruct (negb _); [eapply IH; eauto|].
    destruct (task_interrupt_start s _ _) as [s1 r1] eqn:T.
    pose proof (FM_task_interrupt_start _ _ _ _ _ _ T H) as H1.
    repeat case_in E; inversion E; subst; auto; eapply IH; eauto.
Qed.
Lemma interruptor_wrap_fst_ s r : fst (interruptor_wrap s r) = s.
Proof. unfold interruptor_wrap. destruct r as [[|e]|]; auto. destruct (is_exception e); auto. Qed.
Lemma FM_interruptor_wrap s0 s r s' r' : interruptor_wrap s r = (s', r') -> FM s0 s -> FM s0 s'.
Proof. intros E H. pose proof (interruptor_wrap_fst_ s r) as F. rewrite E in F. simpl in F. subst. exact H. Qed.

(* ------------------------------------------------------------ conditions *)
Lemma FM_notify_p s0 s c n : FM s0 s -> FM s0 (notify_p s c n).
Proof.
  intros H. unfold notify_p.
  match goal with |- context [fold_left ?F ?l ?a] =>
    assert (HF : FM s0 (fst (fst (fold_left F l a)))) end.
  { match goal with |- context [fold_left ?F ?l ?a] => generalize l; intros l0 end.
    assert (X : forall l (a : st * nat * nat), FM s0 (fst (fst a)) ->
      FM s0 (fst (fst (fold_left (fun '(s1, taken, cnt) (f : nat) =>
               if n <=? cnt then (s1, taken, cnt)
               else if fdone s1 f then (s1, S taken, cnt)
                    else (fst (fut_finish s1 f (FResult 1)), S taken, S cnt)) l a)))).
    { induction l as [|f l IH]; intros [[s1 tk] cnt] Ha; simpl; auto. apply IH.
      destruct (n <=? cnt); auto. destruct (fdone s1 f); auto. simpl. tgo. }
    apply X. exact H. }
  destruct (fold_left _ _ _) as [[s1 tk] cnt]. cbn [fst] in HF. tgo.
Qed.
Lemma FM_notify_i s0 s c n : FM s0 s -> FM s0 (notify_i s c n).
Proof.
  intros H. unfold notify_i.
  assert (X : forall l (a : st * nat), FM s0 (fst a) ->
    FM s0 (fst (fold_left (fun '(s1, cnt) (f : nat) =>
             if n <=? cnt then (s1, cnt)
             else if fdone s1 f then (s1, cnt)
                  else (fst (fut_finish s1 f (FResult 0)), S cnt)) l a))).
  { induction l as [|f l IH]; intros [s1 cnt] Ha; simpl; auto. apply IH.
    destruct (n <=? cnt); auto. destruct (fdone s1 f); auto. simpl. tgo. }
  apply X. exact H.
Qed.
Lemma FM_reacquire s0 s t c pc err body s' r :
  reacquire s t c pc err body = (s', r) -> FM s0 s -> FM s0 s'.
Proof.
  intros E H. unfold reacquire in E.
  destruct (acquire_start s t _) as [s1 r1] eqn:A. pose proof (FM_acquire_start _ _ _ _ _ _ A H).
  repeat case_in E; inversion E; subst; auto.
Qed.
Lemma FM_cond_p_after s0 s c r s' r' : cond_p_after s c r = (s', r') -> FM s0 s -> FM s0 s'.
Proof. intros E H. unfold cond_p_after in E. destruct r; inversion E; subst; auto. apply FM_notify_p; auto. Qed.
Lemma FM_queue_iterated s0 s : FM s0 s -> FM s0 (queue_iterated s).
Proof. intros H. unfold queue_iterated. tgo. Qed.

Ltac tprim ::=
  first
    [ eapply FM_fut_finish; [eassumption|]
    | apply FM_fut_finish_fst | apply FM_schedule_callbacks
    | apply FM_add_done_callback | apply FM_remove_done_callback
    | eapply FM_task_cancel; [eassumption|]
    | eapply FM_cancel_task; [eassumption|]
    | eapply FM_cancel_awaitable; [eassumption|]
    | eapply FM_take_lock; [eassumption|]
    | apply FM_wake_up_first_p | apply FM_wake_up_first_a | apply FM_task_reschedule
    | apply FM_propagate_priority
    | eapply FM_fut_result; [eassumption|]
    | eapply FM_await_fut; [eassumption|]
    | eapply FM_acquire_start; [eassumption|]
    | eapply FM_release; [eassumption|]
    | eapply FM_acquire_p_finish; [eassumption|]
    | eapply FM_acquire_a_finish; [eassumption|]
    | eapply FM_task_throw; [eassumption|]
    | eapply FM_task_reinsert; [eassumption|]
    | eapply FM_task_interrupt_start; [eassumption|]
    | eapply FM_interruptor; [eassumption|]
    | eapply FM_interruptor_wrap; [eassumption|]
    | apply FM_notify_p | apply FM_notify_i | apply FM_queue_iterated
    | eapply FM_reacquire; [eassumption|]
    | eapply FM_cond_p_after; [eassumption|] ].

(* ------------------------------------------------------------ timeout blocks *)
Lemma FM_setb_exit s0 s b :
  FM s0 s -> FM s0 (setb s b (mkBlk (btask (getb s b)) false (btimer (getb s b)))).
Proof. apply FM_same; reflexivity. Qed.

(* ------------------------------------------------------------ library calls, frames, user code *)
Lemma FM_event_set_fold s0 : forall ws s,
  FM s0 s -> FM s0 (fold_left (fun s f => if fdone s f then s else fst (fut_finish s f (FResult 1))) ws s).
Proof. intros ws. apply FM_fold. intros. tgo. Qed.

Lemma FM_lib_call s0 t op s s' r : lib_call t op s = (s', r) -> FM s0 s -> FM s0 s'.
Proof.
  intros E H. destruct op; cbn [lib_call] in E;
    try (top E; fail).
  all: try (repeat case_in E; inversion E; subst; auto; apply FM_event_set_fold; tgo; fail).
  all: try (repeat case_in E; inversion E; subst; auto; apply FM_blocks_app; tgo; fail).
  all: try (inversion E; subst; apply FM_cancel_handle, FM_setb_exit, H).
Qed.

Lemma FM_frame_resume s0 t fr inp s s' r : frame_resume t fr inp s = (s', r) -> FM s0 s -> FM s0 s'.
Proof.
  intros E H. destruct fr; cbn [frame_resume] in E; try (top E; fail);
    try (unfold interruptor_wrap in E; top E; fail).
Qed.

Lemma FM_resume_stack s0 t : forall frs inp s s' r,
  resume_stack t frs inp s = (s', r) -> FM s0 s -> FM s0 s'.
Proof.
  induction frs as [|fr rest IH]; intros inp s s' r E H; cbn [resume_stack] in E.
  - inversion E; subst; auto.
  - destruct (frame_resume t fr inp s) as [s1 r1] eqn:F.
    pose proof (FM_frame_resume _ _ _ _ _ _ _ F H) as H1.
    destruct r1; [eapply IH; eauto|inversion E; subst; auto].
Qed.

Lemma FM_new_task s0 s kind p c s' t : new_task s kind p c = (s', t) -> FM s0 s -> FM s0 s'.
Proof.
  intros E H. unfold new_task in E.
  destruct (new_future s (Some (length (tasks s)))) as [s1 f] eqn:N.
  pose proof (FM_new_future_eq _ _ _ _ _ N H) as H1. inversion E; subst. apply FM_call_soon.
  apply FM_tasks_app. exact H1.
Qed.
Lemma FM_spawn_task s0 s how c s' t : spawn_task s how c = (s', t) -> FM s0 s -> FM s0 s'.
Proof. unfold spawn_task. destruct how; apply FM_new_task. Qed.

Lemma FM_exec s0 t : forall c s s' o, exec t c s = (s', o) -> FM s0 s -> FM s0 s'.
Proof.
  induction c as [v|e|op k IH|how child IHc k IHk]; intros s s' o E H.
  - inversion E; subst; auto.
  - inversion E; subst; auto.
  - cbn [exec] in E. destruct (lib_call t op s) as [s1 r1] eqn:L.
    pose proof (FM_lib_call _ _ _ _ _ _ L H) as H1.
    destruct r1; [eapply IH; eauto|inversion E; subst; auto].
  - destruct how; cbn [exec] in E;
      try (destruct (spawn_task s _ child) as [s1 t'] eqn:S;
           pose proof (FM_spawn_task _ _ _ _ _ _ S H) as H1).
    + eapply IHk; eauto.
    + eapply IHk; eauto.
    + eapply IHk; eauto.
    + destruct (lib_call t _ s1) as [s2 r2] eqn:L. pose proof (FM_lib_call _ _ _ _ _ _ L H1) as H2.
      destruct r2 as [[v|e]|]; [eapply IHk; eauto|eapply IHk; eauto|inversion E; subst; auto].
    + inversion E; subst; auto.
    + destruct (exec t child s) as [s1 o1] eqn:C. pose proof (IHc _ _ _ C H) as H1.
      destruct o1 as [r1|y frs kc].
      * eapply IHk; [exact E|]. tgo.
      * eapply IHk; [exact E|]. apply FM_call_soon.
        match goal with |- FM s0 (?u <| futs := ?a |> <| tasks := ?b |>) =>
          assert (HU : FM s0 u);
          [|apply (FM_same s0 (fst (new_future u (Some (length (tasks u)))))); [reflexivity|];
            apply FM_new_future; exact HU] end.
        destruct y; tgo.
Qed.


(* ------------------------------------------------------------ task steps and the loop *)
Lemma FM_finish_step s0 t s o : FM s0 s -> FM s0 (finish_step t s o).
Proof. intros H. unfold finish_step. tgo. Qed.

Lemma FM_step_task t exc s : FM s (step_task t exc s).
Proof.
  unfold step_task. destruct (tdone s t); [apply FM_adderr, FM_refl|].
  match goal with |- context [sett s t ?x <| current := Some t |>] =>
    set (s1 := sett s t x <| current := Some t |>) end.
  assert (H1 : FM s s1) by (apply (FM_same s s); [reflexivity|apply FM_refl]).
  match goal with |- FM s (let '(s2, o) := ?p in _) =>
    assert (HP : FM s (fst p)); [|destruct p as [sx ox]] end.
  { destruct (tcont_ (gett s t)) as [c0|frs k|y frs k| |].
    - destruct (if tmustc (gett s t) then _ else exc); [exact H1|].
      destruct (exec t c0 s1) as [s2 o] eqn:E. cbn [fst]. eapply FM_exec; [exact E|exact H1].
    - destruct (resume_stack t frs _ s1) as [s2 r] eqn:E.
      pose proof (FM_resume_stack s t _ _ _ _ _ E H1) as H2.
      destruct r; [|exact H2]. destruct (exec t (k r) s2) as [s3 o] eqn:E3. cbn [fst].
      eapply FM_exec; eauto.
    - destruct (if tmustc (gett s t) then _ else exc).
      + destruct (resume_stack t frs _ s1) as [s2 r] eqn:E.
        pose proof (FM_resume_stack s t _ _ _ _ _ E H1) as H2.
        destruct r; [|exact H2]. destruct (exec t (k r) s2) as [s3 o] eqn:E3. cbn [fst].
        eapply FM_exec; eauto.
      + cbn [fst]. destruct y; [exact H1|apply FM_setf; [fm_side|exact H1]].
    - exact H1.
    - exact H1. }
  cbn [fst] in HP. apply (FM_same s (finish_step t sx ox)); [reflexivity|].
  apply (FM_finish_step s t sx ox HP).
Qed.

Lemma FM_wakeup t f s : FM s (wakeup t f s).
Proof.
  unfold wakeup. destruct (fstate_ (getf s f)); try apply FM_step_task.
  destruct (fut_result s f) as [s1 r] eqn:E.
  eapply FM_trans; [eapply FM_fut_result; [exact E|apply FM_refl]|apply FM_step_task].
Qed.

Lemma FM_run_callback cb s : FM s (run_callback cb s).
Proof.
  destruct cb as [t e|t f|t p|n|f v|b| |t]; cbn [run_callback].
  - apply FM_step_task.
  - apply FM_wakeup.
  - destruct (task_reinsert s t p) as [s1 r] eqn:E.
    pose proof (FM_task_reinsert s s t p s1 r E (FM_refl s)) as H1.
    destruct r; [exact H1|apply FM_adderr, H1].
  - apply FM_addlog, FM_refl.
  - apply FM_fut_finish_fst, FM_refl.
  - destruct (new_task s KC None (interruptor_body b)) as [s1 t1] eqn:E. cbn [fst].
    eapply FM_new_task; [exact E|apply FM_refl].
  - apply FM_queue_iterated, FM_addlog, FM_refl.
  - destruct (cancel_task s t) as [s1 ok] eqn:E. cbn [fst]. eapply FM_cancel_task; [exact E|apply FM_refl].
Qed.

Lemma FM_run_one s : FM s (run_one s).
Proof.
  unfold run_one. destruct (rq_popleft (ready s)) as [[h r]|] eqn:Pp; [|apply FM_refl].
  change (geth (s <| ready := r |>) h) with (geth s h).
  destruct (hcancelled (geth s h)) eqn:Hc; [apply FM_ready, FM_refl|].
  eapply FM_trans; [apply FM_ready, FM_refl|]. apply FM_run_callback.
Qed.

Lemma FM_begin_iteration s : FM s (begin_iteration s).
Proof.
  unfold begin_iteration. generalize (length (timers s)). intros n.
  assert (D : forall fuel u, FM u (drop_cancelled fuel u)).
  { induction fuel as [|fuel IH]; intros u; cbn [drop_cancelled]; [apply FM_refl|].
    destruct (timers u) as [|[w h] tl]; [apply FM_refl|]. destruct (hcancelled _); [|apply FM_refl].
    destruct (HeapqModel.heappop _ _ _) as [[x tm]|]; [|apply FM_refl].
    eapply FM_trans; [apply FM_timers, FM_refl|apply IH]. }
  assert (M : forall fuel u, FM u (move_due fuel u)).
  { induction fuel as [|fuel IH]; intros u; cbn [move_due]; [apply FM_refl|].
    destruct (timers u) as [|[w h] tl]; [apply FM_refl|]. destruct (Qle_bool _ _); [|apply FM_refl].
    destruct (HeapqModel.heappop _ _ _) as [[[x h'] tm]|]; [|apply FM_refl].
    eapply FM_trans; [apply FM_ready, FM_timers, FM_refl|apply IH]. }
  eapply FM_trans; [apply D|apply M].
Qed.

(* every top-level action, and every sequence of actions, from every state *)
Theorem FM_action s a : FM s (do_action s a).
Proof.
  destruct a as [| |d|how c|op]; cbn [do_action].
  - apply FM_run_one.
  - apply FM_begin_iteration.
  - apply (FM_same s s); [reflexivity|apply FM_refl].
  - destruct (spawn_task s how c) as [s1 t] eqn:E. cbn [fst]. eapply FM_spawn_task; [exact E|apply FM_refl].
  - destruct (lib_call 0 op s) as [s1 r] eqn:E. cbn [fst]. eapply FM_lib_call; [exact E|apply FM_refl].
Qed.

Theorem FM_actions : forall acts s, FM s (fold_left do_action acts s).
Proof.
  induction acts as [|a acts IH]; intros s; simpl; [apply FM_refl|].
  eapply FM_trans; [apply FM_action|apply IH].
Qed.

(* a future that is not pending keeps its state for ever *)
Lemma FM_write_once s0 s f : FM s0 s -> f < length (futs s0) -> fstate_ (getf s0 f) <> FPending ->
  fstate_ (getf s f) = fstate_ (getf s0 f).
Proof. intros (_ & A & _) L N. destruct (A f L) as (_ & X & _). exact (X N). Qed.

Corollary write_once_actions acts s f : f < length (futs s) -> fstate_ (getf s f) <> FPending ->
  fstate_ (getf (fold_left do_action acts s) f) = fstate_ (getf s f).
Proof. apply FM_write_once, FM_actions. Qed.
Corollary write_once_exec t c s s' o f : exec t c s = (s', o) -> f < length (futs s) ->
  fstate_ (getf s f) <> FPending -> fstate_ (getf s' f) = fstate_ (getf s f).
Proof. intros E. apply FM_write_once. eapply FM_exec; [exact E|apply FM_refl]. Qed.

Print Assumptions FM_actions.
Print Assumptions write_once_actions.
Print Assumptions write_once_exec.
