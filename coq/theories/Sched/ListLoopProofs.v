(* C08, loop level: the scheduling operations on the list ready queue (stock
   loop and SchedulingMixin loops) have list semantics. *)
From Asynkit Require Import Base.Prelude Base.Obs Queue.Deque Queue.DequeProofs Sched.ListLoop.
From Coq Require Import Permutation.
Open Scope Z_scope.

Notation st := (@st (list Z)).

Lemma Zeqb_eq' : forall x y : Z, Z.eqb x y = true -> x = y.
Proof. intros x y H. now apply Z.eqb_eq. Qed.

(* ------------------------------------------------------------------ *)
(* the queue primitives of ListQ in closed form                         *)
Definition ins_at (q : list Z) (p : nat) (h : Z) : list Z :=
  insert_nth q (Nat.min p (length q)) h.

Lemma ins_at_split q p h :
  exists a b, q = a ++ b /\ length a = Nat.min p (length q) /\ ins_at q p h = a ++ h :: b.
Proof. apply insert_nth_split. lia. Qed.

Lemma ins_at_perm q p h : Permutation (h :: q) (ins_at q p h).
Proof. apply insert_nth_perm. Qed.

Lemma ins_at_0 q h : ins_at q 0 h = h :: q.
Proof. unfold ins_at. simpl. apply insert_nth_0. Qed.

Lemma list_find_split a b h key rm :
  key h = true -> (forall x, In x b -> key x = false) ->
  qi_find ListQ (a ++ h :: b) key rm = (Some h, if rm then a ++ b else a ++ h :: b).
Proof.
  intros Kh Kb. simpl. rewrite (queue_find_split Z.eqb Z.eqb_refl a b h key rm Kh Kb).
  reflexivity.
Qed.

Lemma list_find_none q key rm :
  (forall x, In x q -> key x = false) -> qi_find ListQ q key rm = (None, q).
Proof. intros Hq. simpl. rewrite (queue_find_none Z.eqb q key rm Hq). reflexivity. Qed.

Lemma list_remove_split a b h :
  ~ In h b -> qi_remove ListQ (a ++ h :: b) h = (true, a ++ b).
Proof.
  intros Hb. simpl. rewrite (queue_remove_split Z.eqb Z.eqb_refl Zeqb_eq' a b h Hb). reflexivity.
Qed.

Lemma list_remove_absent q h : ~ In h q -> qi_remove ListQ q h = (false, q).
Proof.
  intros Hq. simpl. rewrite (queue_remove_absent Z.eqb Zeqb_eq' q h Hq). reflexivity.
Qed.

Lemma list_insert_pos q p h : qi_insert_pos ListQ q p h = ins_at q p h.
Proof. simpl. rewrite dinsert_spec. apply list_insert_nat. Qed.

Lemma list_call_pos q p h : qi_call_pos ListQ q p h = ins_at q p h.
Proof.
  simpl. rewrite (call_pos_spec Z.eqb Z.eqb_refl). simpl. apply list_insert_nat.
Qed.

(* ------------------------------------------------------------------ *)
(* state-level primitives                                               *)
Lemma set_rq_same (s : st) : set_rq s (rq s) = s.
Proof. now destruct s. Qed.

Definition next_id (s : st) : Z := Z.of_nat (length (hs s)).

Lemma call_soon_eq (s : st) k :
  call_soon ListQ s k =
  (mkSt (rq s ++ [next_id s]) (hs s ++ [k]) (ts s) (evs s) (held s) (slog s) (errs s) (prog s),
   next_id s).
Proof. reflexivity. Qed.

Lemma call_pos_eq (s : st) p k :
  call_pos_ ListQ s p k =
  (mkSt (ins_at (rq s) p (next_id s)) (hs s ++ [k]) (ts s) (evs s) (held s) (slog s) (errs s) (prog s),
   next_id s).
Proof.
  unfold call_pos_, new_handle, set_rq. cbn [rq hs ts evs held slog errs prog].
  rewrite list_call_pos. reflexivity.
Qed.

(* task_reinsert: the task's LAST handle is moved to min(p, len) *)
Lemma task_reinsert_found (s : st) t p a h b :
  rq s = a ++ h :: b -> task_key s t h = true -> (forall x, In x b -> task_key s t x = false) ->
  task_reinsert ListQ s t p = (set_rq s (ins_at (a ++ b) p h), true).
Proof.
  intros E Kh Kb. unfold task_reinsert. rewrite E.
  rewrite (list_find_split a b h (task_key s t) true Kh Kb).
  rewrite list_insert_pos. reflexivity.
Qed.

(* a task without a handle in the queue: ValueError and the state is unchanged *)
Lemma task_reinsert_absent (s : st) t p :
  (forall x, In x (rq s) -> task_key s t x = false) ->
  task_reinsert ListQ s t p = (s, false).
Proof.
  intros Hq. unfold task_reinsert. rewrite (list_find_none (rq s) (task_key s t) true Hq).
  now rewrite set_rq_same.
Qed.

(* ------------------------------------------------------------------ *)
(* C08_ops_list                                                         *)
Theorem ops_list (s : st) :
  (* call_soon: appended at the end *)
  (forall k, rq (fst (call_soon ListQ s k)) = rq s ++ [snd (call_soon ListQ s k)])
  (* call_pos p: after exactly min(p,len) earlier entries, the others keep their order,
     the multiset grows by exactly the new handle *)
  /\ (forall p k, exists a b h, h = snd (call_pos_ ListQ s p k) /\
        rq s = a ++ b /\ length a = Nat.min p (length (rq s)) /\
        rq (fst (call_pos_ ListQ s p k)) = a ++ h :: b /\
        Permutation (h :: rq s) (rq (fst (call_pos_ ListQ s p k))))
  (* task_reinsert t p on a runnable task: its last handle h is taken out and put after
     exactly min(p,len) of the others; the others keep their order; same multiset *)
  /\ (forall t p a h b,
        rq s = a ++ h :: b -> task_key s t h = true -> (forall x, In x b -> task_key s t x = false) ->
        exists c d, a ++ b = c ++ d /\ length c = Nat.min p (length (a ++ b)) /\
          task_reinsert ListQ s t p = (set_rq s (c ++ h :: d), true) /\
          Permutation (rq s) (c ++ h :: d))
  (* task_reinsert on a task with no handle in the queue: ValueError, state EQUAL *)
  /\ (forall t p, (forall x, In x (rq s) -> task_key s t x = false) ->
        task_reinsert ListQ s t p = (s, false))
  (* ready_find: the last handle of the task, removed exactly when asked to *)
  /\ (forall t rm a h b,
        rq s = a ++ h :: b -> task_key s t h = true -> (forall x, In x b -> task_key s t x = false) ->
        qi_find ListQ (rq s) (task_key s t) rm = (Some h, if rm then a ++ b else rq s))
  /\ (forall t rm, (forall x, In x (rq s) -> task_key s t x = false) ->
        qi_find ListQ (rq s) (task_key s t) rm = (None, rq s))
  (* ready_remove: exactly that handle; ValueError and nothing changes when it is not queued *)
  /\ (forall a h b, rq s = a ++ h :: b -> ~ In h b -> qi_remove ListQ (rq s) h = (true, a ++ b))
  /\ (forall h, ~ In h (rq s) -> qi_remove ListQ (rq s) h = (false, rq s))
  (* ready_insert: at the end *)
  /\ (forall h, qi_append ListQ (rq s) h = rq s ++ [h]).
Proof.
  repeat split.
  - intros p k. rewrite call_pos_eq. cbn [fst snd rq].
    destruct (ins_at_split (rq s) p (next_id s)) as (a & b & E & La & Ei).
    exists a, b, (next_id s).
    split; [reflexivity|]. split; [exact E|]. split; [exact La|]. split; [exact Ei|].
    apply ins_at_perm.
  - intros t p a h b E Kh Kb.
    destruct (ins_at_split (a ++ b) p h) as (c & d & E' & Lc & Ei).
    exists c, d. split; [exact E'|]. split; [exact Lc|]. split.
    + rewrite <- Ei. eapply task_reinsert_found; eauto.
    + rewrite E, <- Ei. etransitivity; [|apply ins_at_perm].
      symmetry. apply Permutation_middle.
  - intros t p Hq. now apply task_reinsert_absent.
  - intros t rm a h b E Kh Kb. rewrite E. now apply list_find_split.
  - intros t rm Hq. now apply list_find_none.
  - intros a h b E Hb. rewrite E. now apply list_remove_split.
  - intros h Hq. now apply list_remove_absent.
Qed.

(* ------------------------------------------------------------------ *)
(* task_switch                                                          *)
Lemma task_key_ext (s s' : st) t h :
  hs s' = hs s -> task_key s' t h = task_key s t h.
Proof. intros E. unfold task_key. now rewrite E. Qed.

Lemma nth_error_snoc1 {A} (l : list A) x y : nth_error (l ++ [x; y]) (length l) = Some x.
Proof. rewrite nth_error_app2 by lia. now rewrite Nat.sub_diag. Qed.
Lemma nth_error_snoc2 {A} (l : list A) x y : nth_error (l ++ [x; y]) (S (length l)) = Some y.
Proof. rewrite nth_error_app2 by lia. replace (S (length l) - length l)%nat with 1%nat by lia. reflexivity. Qed.
Lemma nth_error_snoc {A} (l : list A) x : nth_error (l ++ [x]) (length l) = Some x.
Proof. rewrite nth_error_app2 by lia. now rewrite Nat.sub_diag. Qed.

Lemma task_of_old (l l' : list hkind) h t : task_of l h = Some t -> task_of (l ++ l') h = Some t.
Proof.
  unfold task_of. destruct (h <? 0); [discriminate|].
  destruct (nth_error l (Z.to_nat h)) as [k|] eqn:E; [|discriminate].
  rewrite nth_error_app1 by (apply nth_error_Some; congruence). now rewrite E.
Qed.

(* the state right after `await task_switch(t, insert_pos=Some p)` suspended *)
Definition after_switch (s : st) (A : nat) (p : nat) (k : list op) (q : list Z) : st :=
  let n := length (hs s) in
  mkSt (Z.of_nat n :: q ++ [Z.of_nat (S n)]) (hs s ++ [HReins A p; HStep A])
       (set_nth (ts s) A (mkT k false)) (evs s) (held s) (slog s) (errs s) (prog s).

Lemma sleep_insert_eq (s : st) A p k :
  sleep_insert_ ListQ s A p k = after_switch s A p k (rq s).
Proof.
  unfold sleep_insert_, yield_. rewrite call_pos_eq. cbn [fst]. rewrite call_soon_eq. cbn [fst].
  unfold set_task, set_ts, after_switch, next_id. cbn [rq hs ts evs held slog errs prog].
  rewrite ins_at_0, app_length, <- app_assoc. simpl length. simpl app.
  replace (length (hs s) + 1)%nat with (S (length (hs s))) by lia. reflexivity.
Qed.

(* running the positional callback of sleep_insert: the caller's step handle,
   which is the last entry, moves to min(p, len) *)
Lemma run_reins (s : st) A p k q :
  run_one ListQ (after_switch s A p k q) =
  Some (Z.of_nat (length (hs s)),
        mkSt (ins_at q p (Z.of_nat (S (length (hs s))))) (hs s ++ [HReins A p; HStep A])
             (set_nth (ts s) A (mkT k false)) (evs s) (held s) [] (errs s) (prog s)).
Proof.
  unfold run_one, after_switch. cbn [qi_popleft ListQ popleft rq hs ts evs held slog errs prog].
  f_equal. f_equal. unfold run_handle.
  replace (Z.of_nat (length (hs s)) <? 0) with false by lia.
  cbn [hs]. rewrite Nat2Z.id, nth_error_snoc1.
  erewrite (task_reinsert_found _ A p q (Z.of_nat (S (length (hs s)))) []).
  - rewrite app_nil_r. reflexivity.
  - reflexivity.
  - unfold task_key, task_of. cbn [hs].
    replace (Z.of_nat (S (length (hs s))) <? 0) with false by lia.
    rewrite Nat2Z.id, nth_error_snoc2. apply Nat.eqb_refl.
  - intros x [].
Qed.

(* C08_task_switch *)
Theorem task_switch_spec (s : st) (A t : nat) (ip : option nat) (k : list op) a ht b :
  (t < length (ts s))%nat ->
  rq s = a ++ ht :: b -> task_key s t ht = true -> (forall x, In x b -> task_key s t x = false) ->
  let s1 := exec_ops ListQ A (OSwitch t ip :: k) s in
  let n := length (hs s) in
  match ip with
  | None =>
      (* t's handle is first, the caller's new step handle is last *)
      rq s1 = ht :: a ++ b ++ [Z.of_nat n] /\ nth_error (hs s1) n = Some (HStep A)
  | Some p =>
      (* the positional callback runs first; after it the caller's step handle sits after
         exactly min(p, len) entries of  t's handle :: the others *)
      exists s2 c d,
        run_one ListQ s1 = Some (Z.of_nat n, s2) /\
        nth_error (hs s1) n = Some (HReins A p) /\
        nth_error (hs s2) (S n) = Some (HStep A) /\
        ht :: a ++ b = c ++ d /\ length c = Nat.min p (S (length (a ++ b))) /\
        rq s2 = c ++ Z.of_nat (S n) :: d /\
        ((1 <= p)%nat -> exists d', rq s2 = ht :: d')
  end.
Proof.
  intros Ht E Kh Kb s1 n.
  assert (Hs1 : s1 = let s0 := logz s [3; zn A; zn t; zopt ip] in
                     match ip with
                     | None => yield_ ListQ (set_rq s0 (ht :: a ++ b)) A k
                     | Some p => sleep_insert_ ListQ (set_rq s0 (ht :: a ++ b)) A p k
                     end).
  { subst s1. cbn [exec_ops]. cbn [logz ts].
    replace (Nat.ltb t (length (ts s))) with true by (symmetry; apply Nat.ltb_lt; lia).
    erewrite (task_reinsert_found _ t 0 a ht b).
    - rewrite ins_at_0. reflexivity.
    - exact E.
    - exact Kh.
    - exact Kb. }
  destruct ip as [p|].
  - rewrite Hs1. cbv zeta. rewrite sleep_insert_eq.
    set (s0 := set_rq _ _).
    assert (Hh : hs s0 = hs s) by reflexivity.
    assert (Hq : rq s0 = ht :: a ++ b) by reflexivity.
    rewrite run_reins. rewrite Hh, Hq. fold n.
    destruct (ins_at_split (ht :: a ++ b) p (Z.of_nat (S n))) as (c & d & Ecd & Lc & Ei).
    eexists. exists c, d. split; [reflexivity|].
    unfold after_switch. cbn [hs rq]. rewrite Hh. fold n.
    split; [apply nth_error_snoc1|]. split; [apply nth_error_snoc2|].
    split; [exact Ecd|]. split; [exact Lc|]. split; [exact Ei|].
    intros Hp. rewrite Ei. destruct c as [|c0 c'].
    + simpl in Lc. lia.
    + simpl in Ecd. injection Ecd as -> _. eexists. reflexivity.
  - rewrite Hs1. cbv zeta. unfold yield_. rewrite call_soon_eq. cbn [fst].
    unfold set_task, set_ts. cbn [rq hs]. unfold next_id. cbn [hs set_rq logz].
    split; [cbn [rq set_rq]; simpl app; now rewrite <- app_assoc|]. apply nth_error_snoc.
Qed.

(* ------------------------------------------------------------------ *)
(* create_task_descend                                                  *)

(* operations that only ever append to the ready queue *)
Definition append_only (o : op) : bool :=
  match o with
  | OSleep | OCallSoon _ | OCreate _ | OStart _ | OWait _ | OSet _ | OItems => true
  | OFind _ rm => negb rm
  | _ => false
  end.

Lemma wake_all_rq ws : forall s : st, exists app, rq (wake_all ListQ s ws) = rq s ++ app.
Proof.
  induction ws as [|w ws IH]; intros s.
  - exists []. simpl. now rewrite app_nil_r.
  - change (wake_all ListQ s (w :: ws)) with (wake_all ListQ (fst (call_soon ListQ s (HWakeup w))) ws).
    destruct (IH (fst (call_soon ListQ s (HWakeup w)))) as (app & E).
    rewrite E, call_soon_eq. cbn [fst rq]. rewrite <- app_assoc. eexists. reflexivity.
Qed.

Lemma find_norm_rq (q : list Z) key : snd (qi_find ListQ q key false) = q.
Proof.
  simpl. unfold queue_find. destruct (rscan key q) as [[i h]|]; reflexivity.
Qed.

Lemma append_only_exec me ops : forall s : st,
  forallb append_only ops = true -> exists app, rq (exec_ops ListQ me ops s) = rq s ++ app.
Proof.
  induction ops as [|o k IH]; intros s Hall.
  - exists []. simpl. now rewrite app_nil_r.
  - simpl in Hall. apply andb_true_iff in Hall as [Ho Hk].
    destruct o; try discriminate Ho; cbn [exec_ops].
    + (* OSleep *) unfold yield_. rewrite call_soon_eq. cbn. eexists. reflexivity.
    + (* OCallSoon *) rewrite call_soon_eq.
      match goal with |- context [exec_ops _ _ _ ?s'] => destruct (IH s' Hk) as (app & E); rewrite E end.
      cbn [rq logz]. rewrite <- app_assoc. eexists. reflexivity.
    + (* OCreate *) cbn [logz prog].
      destruct (Nat.ltb s0 (length (prog s))).
      * unfold spawn. rewrite call_soon_eq. cbn [fst set_ts ts].
        match goal with |- context [exec_ops _ _ _ ?s'] => destruct (IH s' Hk) as (app & E); rewrite E end.
        cbn [rq logz]. rewrite <- app_assoc. eexists. reflexivity.
      * match goal with |- context [exec_ops _ _ _ ?s'] => destruct (IH s' Hk) as (app & E); rewrite E end.
        cbn [rq logz]. eexists. reflexivity.
    + (* OStart *) cbn [logz prog].
      destruct (Nat.ltb s0 (length (prog s))).
      * unfold spawn, yield_. rewrite !call_soon_eq. cbn. rewrite <- app_assoc. eexists. reflexivity.
      * match goal with |- context [exec_ops _ _ _ ?s'] => destruct (IH s' Hk) as (app & E); rewrite E end.
        cbn [rq logz]. eexists. reflexivity.
    + (* OFind t false *)
      destruct rm; [discriminate|]. cbn [logz ts].
      destruct (Nat.ltb t (length (ts s))).
      * match goal with |- context [qi_find ListQ ?q ?key false] =>
          pose proof (find_norm_rq q key) as Hf; destruct (qi_find ListQ q key false) as [r q1] end.
        cbn [snd] in Hf. subst q1.
        match goal with |- context [exec_ops _ _ _ ?s'] => destruct (IH s' Hk) as (app & E); rewrite E end.
        destruct r; cbn [rq logz set_rq]; eexists; reflexivity.
      * match goal with |- context [exec_ops _ _ _ ?s'] => destruct (IH s' Hk) as (app & E); rewrite E end.
        cbn [rq logz]. eexists. reflexivity.
    + (* OWait *) cbn [logz evs].
      destruct (nth_error (evs s) e) as [[[|] ws]|].
      * match goal with |- context [exec_ops _ _ _ ?s'] => destruct (IH s' Hk) as (app & E); rewrite E end.
        cbn [rq]. eexists. reflexivity.
      * cbn. exists []. now rewrite app_nil_r.
      * match goal with |- context [exec_ops _ _ _ ?s'] => destruct (IH s' Hk) as (app & E); rewrite E end.
        cbn [rq logz]. eexists. reflexivity.
    + (* OSet *) cbn [logz evs].
      destruct (nth_error (evs s) e) as [[[|] ws]|].
      * match goal with |- context [exec_ops _ _ _ ?s'] => destruct (IH s' Hk) as (app & E); rewrite E end.
        cbn [rq]. eexists. reflexivity.
      * match goal with |- context [exec_ops _ _ _ ?s'] => destruct (IH s' Hk) as (app & E); rewrite E end.
        match goal with |- context [wake_all _ ?s' ?w] => destruct (wake_all_rq w s') as (app' & E'); rewrite E' end.
        cbn [rq set_evs]. rewrite <- app_assoc. eexists. reflexivity.
      * match goal with |- context [exec_ops _ _ _ ?s'] => destruct (IH s' Hk) as (app & E); rewrite E end.
        cbn [rq logz]. eexists. reflexivity.
    + (* OItems *) cbn [qi_items ListQ].
      match goal with |- context [exec_ops _ _ _ ?s'] => destruct (IH s' Hk) as (app & E); rewrite E end.
      cbn [rq logz logo set_rq]. eexists. reflexivity.
Qed.

Lemma nth_error_set_nth_other {A} (l : list A) i j x :
  i <> j -> nth_error (set_nth l i x) j = nth_error l j.
Proof.
  revert i j. induction l as [|y t IH]; intros i j Hij; [now destruct i|].
  destruct i as [|i], j as [|j]; simpl; try reflexivity; try lia.
  apply IH. lia.
Qed.

Lemma nth_error_set_nth_same {A} (l : list A) i x :
  (i < length l)%nat -> nth_error (set_nth l i x) i = Some x.
Proof.
  revert i. induction l as [|y t IH]; intros i Hi; simpl in Hi; [lia|].
  destruct i as [|i]; simpl; [reflexivity|]. apply IH. lia.
Qed.

(* C08_descend: create_task_descend(script i) by task A with ready queue q.
   The next three handles executed are: the positional callback, the new task's
   first step, the caller's resumption - provided the new task's first step only
   appends to the queue. *)
Theorem descend_spec (s : st) (A i : nat) (k : list op) :
  (i < length (prog s))%nat ->
  (A < length (ts s))%nat ->
  forallb append_only (nth i (prog s) []) = true ->
  let N := length (ts s) in                      (* the new task *)
  let n := length (hs s) in
  let hN := Z.of_nat n in                        (* its first step *)
  let hr := Z.of_nat (S n) in                    (* the positional callback *)
  let hA := Z.of_nat (S (S n)) in                (* the caller's resumption *)
  let s1 := exec_ops ListQ A (ODescend i :: k) s in
  rq s1 = hr :: hN :: rq s ++ [hA] /\
  exists s2 s3 app,
    run_one ListQ s1 = Some (hr, s2) /\ rq s2 = hN :: hA :: rq s /\
    nth_error (hs s2) n = Some (HStep N) /\
    nth_error (hs s2) (S (S n)) = Some (HStep A) /\
    nth_error (ts s2) A = Some (mkT k false) /\
    run_one ListQ s2 = Some (hN, s3) /\
    rq s3 = hA :: rq s ++ app.
Proof.
  intros Hi HA Hao N n hN hr hA s1.
  set (s0 := logz s [9; zn A; zn i]).
  set (sN := mkSt (rq s ++ [hN]) (hs s ++ [HStep N]) (ts s ++ [mkT (nth i (prog s) []) false])
                  (evs s) (held s) (slog s0) (errs s) (prog s)).
  assert (Hs1 : s1 = sleep_insert_ ListQ (set_rq sN (hN :: rq s)) A 1 k).
  { subst s1. cbn [exec_ops]. fold s0. cbn [prog s0 logz].
    replace (Nat.ltb i (length (prog s))) with true by (symmetry; apply Nat.ltb_lt; lia).
    unfold spawn. rewrite call_soon_eq. cbn [fst].
    unfold set_ts, next_id. cbn [rq hs ts evs held slog errs prog s0 logz]. fold s0. fold N n hN.
    match goal with |- context [task_reinsert ListQ ?x N 0] => change x with sN end.
    erewrite (task_reinsert_found sN N 0 (rq s) hN []).
    - rewrite app_nil_r, ins_at_0. reflexivity.
    - reflexivity.
    - unfold task_key, task_of. cbn [hs sN]. subst hN.
      replace (Z.of_nat n <? 0) with false by lia. rewrite Nat2Z.id. subst n.
      rewrite nth_error_snoc. apply Nat.eqb_refl.
    - intros x []. }
  rewrite Hs1, sleep_insert_eq.
  set (s' := set_rq sN (hN :: rq s)).
  assert (Hh : hs s' = hs s ++ [HStep N]) by reflexivity.
  assert (Hl : length (hs s') = S n) by (rewrite Hh, app_length; simpl; lia).
  assert (Hq : rq s' = hN :: rq s) by reflexivity.
  split.
  { unfold after_switch. cbn [rq]. rewrite Hl, Hq. reflexivity. }
  rewrite run_reins. rewrite Hl, Hq.
  assert (Hins : ins_at (hN :: rq s) 1 (Z.of_nat (S (S n))) = hN :: hA :: rq s).
  { unfold ins_at. simpl length. replace (Nat.min 1 (S (length (rq s)))) with 1%nat by lia.
    simpl. now rewrite insert_nth_0. }
  rewrite Hins.
  set (s2 := mkSt (hN :: hA :: rq s) _ _ _ _ _ _ _).
  exists s2.
  assert (Hh2 : hs s2 = (hs s ++ [HStep N]) ++ [HReins A 1; HStep A]) by (subst s2; cbn [hs]; now rewrite Hh).
  assert (HtN : nth_error (ts s2) N = Some (mkT (nth i (prog s) []) false)).
  { subst s2. cbn [ts s' set_rq sN]. rewrite nth_error_set_nth_other by lia.
    subst N. apply nth_error_snoc. }
  assert (Hn : nth_error (hs s2) n = Some (HStep N)).
  { rewrite Hh2, <- app_assoc. subst n. rewrite nth_error_app2 by lia. now rewrite Nat.sub_diag. }
  destruct (append_only_exec N (nth i (prog s) [])
              (mkSt (hA :: rq s) (hs s2) (ts s2) (evs s2) (held s2) [] (errs s2) (prog s2)) Hao)
    as (app & Happ).
  eexists. exists app.
  split; [reflexivity|]. split; [reflexivity|]. split; [exact Hn|].
  split.
  { rewrite Hh2. replace (S (S n)) with (S (length (hs s ++ [HStep N]))) by (rewrite app_length; simpl; lia).
    apply nth_error_snoc2. }
  split.
  { subst s2. cbn [ts s' set_rq sN]. apply nth_error_set_nth_same. rewrite app_length. lia. }
  split.
  - unfold run_one.
    replace (qi_popleft ListQ (rq s2)) with (Some (hN, hA :: rq s)) by reflexivity.
    cbv beta iota. reflexivity.
  - unfold run_handle. subst hN.
    replace (Z.of_nat n <? 0) with false by lia. rewrite Nat2Z.id. cbn [hs]. rewrite Hn.
    unfold run_task. cbn [ts]. rewrite HtN. rewrite Happ. reflexivity.
Qed.

(* ------------------------------------------------------------------ *)
(* non-vacuity: concrete instances of the hypotheses                    *)
Definition ex_state : st :=
  (* three tasks; task 0 is running (its handle was popped), tasks 1 and 2 have
     handles 1 and 2 queued, a logging callback (handle 3) sits between them *)
  mkSt [1; 3; 2] [HStep 0; HStep 1; HStep 2; HCb 7]
       [mkT [] false; mkT [OSleep] false; mkT [OSleep] false] [(false, [])] None [] 0
       [[OSleep]; [OCallSoon 5; OSleep]].

Example task_switch_example :
  (* hypotheses of task_switch_spec hold for t = 1 (a = [], ht = 1, b = [3; 2]) *)
  rq ex_state = [] ++ 1 :: [3; 2] /\ task_key ex_state 1 1 = true /\
  (forall x, In x [3; 2] -> task_key ex_state 1 x = false) /\
  (* and the outcome for insert_pos = 2: callback 4 first, then 1, 3, caller (5), 2 *)
  rq (exec_ops ListQ 0 [OSwitch 1 (Some 2%nat)] ex_state) = [4; 1; 3; 2; 5] /\
  option_map (fun r => rq (snd r)) (run_one ListQ (exec_ops ListQ 0 [OSwitch 1 (Some 2%nat)] ex_state))
    = Some [1; 3; 5; 2] /\
  (* a blocked/done/self target: ValueError, nothing changes but the log *)
  rq (exec_ops ListQ 0 [OSwitch 0 (Some 2%nat); OSleep] ex_state) = [1; 3; 2; 4].
Proof.
  repeat split; try reflexivity.
  intros x [<-|[<-|[]]]; reflexivity.
Qed.

Example descend_example :
  forallb append_only (nth 1 (prog ex_state) []) = true /\
  let s1 := exec_ops ListQ 0 [ODescend 1] ex_state in
  rq s1 = [5; 4; 1; 3; 2; 6] /\
  match run_one ListQ s1 with
  | Some (h, s2) => h = 5 /\ rq s2 = [4; 6; 1; 3; 2] /\
      match run_one ListQ s2 with
      | Some (h', s3) => h' = 4 /\ rq s3 = [6; 1; 3; 2; 7; 8]
      | None => False
      end
  | None => False
  end.
Proof. vm_compute. repeat split; reflexivity. Qed.

(* ------------------------------------------------------------------ *)
(* ingredients of "exactly once" (the whole-run invariant is not assembled
   here; see notes/C08.md): handle ids are fresh and increasing, the loop
   removes exactly the head it runs *)
Lemma new_ids_fresh (s : st) k p :
  snd (call_soon ListQ s k) = next_id s /\ hs (fst (call_soon ListQ s k)) = hs s ++ [k] /\
  snd (call_pos_ ListQ s p k) = next_id s /\ hs (fst (call_pos_ ListQ s p k)) = hs s ++ [k].
Proof. rewrite call_soon_eq, call_pos_eq. repeat split. Qed.

Lemma run_one_head (s s' : st) h :
  run_one ListQ s = Some (h, s') -> exists q', rq s = h :: q'.
Proof.
  unfold run_one. cbn [qi_popleft ListQ]. destruct (rq s) as [|x q']; simpl; [discriminate|].
  intros [= <- _]. now exists q'.
Qed.
