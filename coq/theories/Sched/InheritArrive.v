(* C12, nested waiters: a waiter ARRIVES (PriorityLock.acquire up to its `await fut`) keeps
   [forall l, keyed s l].  Abstract form ([keyed_join]: any pair of states related like the state
   before the call and the state after the enqueue) and the theorem for [acquire_p_start]. *)
From Coq Require Import QArith Lqa Sorting.Permutation.
From RecordUpdate Require Import RecordUpdate.
From Asynkit Require Import Base.Prelude Queue.PQ Queue.Order Queue.Heap Queue.ListFacts Queue.PQProofs
  Queue.PosPQ Queue.Exec
  Sched.Model Sched.Tables Sched.QFacts Sched.LockInv Sched.Footprint Sched.LockOps Sched.LockLib
  Sched.LockProofs Sched.LockThms Sched.InheritEprio Sched.InheritHandover Sched.InheritKeys
  Sched.InheritFalls Sched.WaitInv Sched.WaitOps Sched.WaitProofs.
From Asynkit Require Import Sched.OrderInv Sched.OrderPass Sched.OrderThms Sched.InheritLocal
  Sched.InheritChain.
Import RecordSetNotations.
Open Scope nat_scope.

(* ------------------------------------------------------------ small facts *)
Lemma flat_map_ext_in {A B} (f g : A -> list B) L :
  (forall a, In a L -> f a = g a) -> flat_map f L = flat_map g L.
Proof.
  induction L as [|a L IH]; simpl; intros H; [reflexivity|].
  rewrite (H a) by now left. f_equal. apply IH. intros; apply H; now right.
Qed.

Lemma lwtasks_ext lk lk' :
  lpq lk' = lpq lk -> lwt lk' = lwt lk -> lock_waiter_tasks lk' = lock_waiter_tasks lk.
Proof. intros A B. unfold lock_waiter_tasks. now rewrite A, B. Qed.

Lemma tr_first s t x : waits_tr s t x -> exists x', waits_on s t x'.
Proof. induction 1; eauto. Qed.

Lemma up_chain s t o x :
  (forall x', waits_on s t x' -> x' = o) -> waits_tr s t x -> x = o \/ waits_tr s o x.
Proof.
  intros H Htr. induction Htr as [t x Hw|t v x _ IH Hw].
  - left. now apply H.
  - destruct (IH H) as [->|Hv]; right; [now apply wt_one|eapply wt_step; eauto].
Qed.

Lemma wprio_plain s w : is_prio_task s w = false -> wprio s w = 0%Q.
Proof. unfold wprio, is_prio_task. destruct (tprio (gett s w)); [discriminate|reflexivity]. Qed.

(* the generic locality step: outside the dirty set, entries that are old (same key, same task, live
   before) or already current are current *)
Lemma keyed_local s s' (D : nat -> Prop) :
  ranked s -> ranked s' ->
  (forall x, ~ D x -> tprio (gett s' x) = tprio (gett s x)) ->
  (forall x, ~ D x -> Permutation (waiters_of s' x) (waiters_of s x)) ->
  (forall x w, ~ D x -> In w (waiters_of s x) -> ~ D w) ->
  (forall l0, keyed s l0) ->
  forall l0 e', ~ D (entry_task (getl s' l0) e') ->
    ((epri e' == wprio s (entry_task (getl s' l0) e'))%Q \/
     exists e, In e (arr (lpq (getl s l0))) /\ live s e /\ (epri e' == epri e)%Q /\
               entry_task (getl s l0) e = entry_task (getl s' l0) e') ->
    (epri e' == wprio s' (entry_task (getl s' l0) e'))%Q.
Proof.
  intros (rank & Hr & Hb) (rank' & Hr' & Hb') Hp Hw Hup K l0 e' Hd Hc.
  rewrite (wprio_local s s' rank rank' D Hr Hb Hr' Hb' Hp Hw Hup _ Hd).
  destruct Hc as [Hc|(e & He & Hl & Hk & Et)]; [exact Hc|].
  rewrite Hk, <- Et. now apply K.
Qed.

(* ------------------------------------------------------------ abstract arrival *)
Section Join.
Variables (s s3 : st) (t l f : nat) (p : Q) (sq : Z).
Variables (ne ne3 : bool) (X X3 : nat -> Prop) (R R3 : nat * list frame).
Hypothesis I : Inv s.
Hypothesis W : WIx ne X R s.
Hypothesis O : OW s.
Hypothesis I3 : Inv s3.
Hypothesis W3 : WIx ne3 X3 R3 s3.
Hypothesis O3 : OW s3.
Hypothesis K : forall l0, keyed s l0.
Hypothesis Jt : forall x, tprio (gett s3 x) = tprio (gett s x) /\ tholding (gett s3 x) = tholding (gett s x).
Hypothesis Jo : forall l0, l0 <> l -> lpq (getl s3 l0) = lpq (getl s l0) /\ lwt (getl s3 l0) = lwt (getl s l0).
Hypothesis Jq : Permutation (arr (lpq (getl s3 l))) (mkE p sq (Z.of_nat f) :: arr (lpq (getl s l))).
Hypothesis Jw : lwt (getl s3 l) = lwt (getl s l) ++ [(f, t)].
Hypothesis Jd : forall g, fdone s g = true -> fdone s3 g = true.
Hypothesis Jp : (p == wprio s t)%Q.
Hypothesis Jn : forall l0 g, ~ In (g, t) (rows s l0).

Let D (x : nat) : Prop := waits_tr s3 t x.

Lemma join_old_task l0 e : In e (arr (lpq (getl s l0))) ->
  entry_task (getl s3 l0) e = entry_task (getl s l0) e.
Proof.
  intros He. destruct (Nat.eq_dec l0 l) as [->|Hne].
  2:{ unfold entry_task, task_of_fut. now rewrite (proj2 (Jo l0 Hne)). }
  pose proof (rtask_row _ _ _ _ _ _ W He) as Hrow. unfold rtask in Hrow.
  unfold entry_task. set (g := Z.to_nat (eobj e)) in *.
  apply task_of_fut_unique; [apply (w_nodup W3 l)|]. rewrite Jw. apply in_or_app. left. exact Hrow.
Qed.

Lemma join_new_task : entry_task (getl s3 l) (mkE p sq (Z.of_nat f)) = t.
Proof.
  unfold entry_task. cbn [eobj]. rewrite Nat2Z.id.
  apply task_of_fut_unique; [apply (w_nodup W3 l)|]. rewrite Jw. apply in_or_app. right. now left.
Qed.

Lemma join_lwtasks_old l0 w : In w (lock_waiter_tasks (getl s l0)) -> In w (lock_waiter_tasks (getl s3 l0)).
Proof.
  rewrite !lock_waiter_tasks_eq. intros H. apply in_map_iff in H as (e & <- & He).
  rewrite <- (join_old_task l0 e He). apply in_map.
  destruct (Nat.eq_dec l0 l) as [->|Hne]; [|now rewrite (proj1 (Jo l0 Hne))].
  eapply Permutation_in; [apply Permutation_sym, Jq|now right].
Qed.

Lemma join_lwtasks_new : In t (lock_waiter_tasks (getl s3 l)).
Proof.
  rewrite lock_waiter_tasks_eq. rewrite <- join_new_task. apply in_map.
  eapply Permutation_in; [apply Permutation_sym, Jq|now left].
Qed.

Lemma join_waits_mono w x : waits_on s w x -> waits_on s3 w x.
Proof.
  intros (l1 & H1 & H2). exists l1. rewrite (proj2 (Jt x)). split; auto. now apply join_lwtasks_old.
Qed.

(* the only edge out of the newcomer goes to the owner of l, a PriorityTask *)
Lemma join_first x : waits_on s3 t x -> lowner (getl s3 l) = Some x /\ is_prio_task s3 x = true.
Proof.
  intros (l1 & H1 & H2).
  destruct (waiter_has_row _ _ _ _ _ _ W3 H2) as (g & Hrow).
  pose proof (rows_inrange _ _ _ _ Hrow) as Hlr.
  assert (l1 = l).
  { destruct (Nat.eq_dec l1 l) as [|Hne]; auto. exfalso. unfold rows in Hrow.
    rewrite (proj2 (Jo l1 Hne)) in Hrow. exact (Jn l1 g Hrow). }
  subst l1. split; [now apply (iA2 I3)|]. eapply (holder_prio s3 I3); eauto.
Qed.

Lemma join_out l0 e' : In e' (arr (lpq (getl s3 l0))) -> live s3 e' ->
  ~ D (entry_task (getl s3 l0) e') ->
  (epri e' == wprio s3 (entry_task (getl s3 l0) e'))%Q.
Proof.
  intros He' Hl' Hd.
  apply (keyed_local s s3 D); auto.
  - apply (ranked_tbl ne X R); auto.
  - apply (ranked_tbl ne3 X3 R3); auto.
  - intros x _. apply Jt.
  - intros x Hx. unfold waiters_of. rewrite (proj2 (Jt x)).
    erewrite flat_map_ext_in; [apply Permutation_refl|].
    intros l1 Hl1. destruct (Nat.eq_dec l1 l) as [->|Hne].
    + exfalso. apply Hx. apply wt_one. exists l. rewrite (proj2 (Jt x)). split; auto. apply join_lwtasks_new.
    + destruct (Jo l1 Hne). now apply lwtasks_ext.
  - intros x w Hx Hw Hdw. apply Hx. eapply wt_step; [exact Hdw|].
    apply join_waits_mono. now apply waits_on_iff.
  - assert (Hold : forall e, In e (arr (lpq (getl s l0))) -> live s3 e ->
              entry_task (getl s3 l0) e = entry_task (getl s3 l0) e' -> (epri e == epri e')%Q ->
              exists e0, In e0 (arr (lpq (getl s l0))) /\ live s e0 /\ (epri e' == epri e0)%Q /\
                         entry_task (getl s l0) e0 = entry_task (getl s3 l0) e').
    { intros e He Hl Et Ek. exists e. split; auto. split.
      - unfold live in *. destruct (fdone s (Z.to_nat (eobj e))) eqn:E; auto. rewrite (Jd _ E) in Hl. discriminate.
      - split; [now symmetry|]. rewrite <- Et. symmetry. now apply join_old_task. }
    destruct (Nat.eq_dec l0 l) as [->|Hne].
    + apply (Permutation_in _ Jq) in He'. destruct He' as [<-|He'].
      * left. rewrite join_new_task. exact Jp.
      * right. apply (Hold e'); auto. reflexivity.
    + rewrite (proj1 (Jo l0 Hne)) in He'. right. apply (Hold e'); auto. reflexivity.
Qed.

Theorem keyed_join : forall l0,
  keyed (match lowner (getl s3 l) with Some o => propagate_priority s3 o | None => s3 end) l0.
Proof.
  assert (Hnone : (forall x, ~ waits_on s3 t x) -> forall l0, keyed s3 l0).
  { intros Hno l0 e He Hl. apply join_out; auto. intros Hd.
    destruct (tr_first _ _ _ Hd) as (x' & Hx'). exact (Hno x' Hx'). }
  destruct (lowner (getl s3 l)) as [o|] eqn:Eo.
  2:{ apply Hnone. intros x Hx. destruct (join_first x Hx) as [E _]. congruence. }
  destruct (is_prio_task s3 o) eqn:Epo.
  - apply (keyed_propagate_up ne3 X3 R3 s3 I3 W3 O3 o Epo).
    intros l0 e He Hl Hna. apply join_out; auto. intros Hd. apply Hna.
    apply (up_chain s3 t o _) in Hd; [exact Hd|].
    intros x' Hx'. destruct (join_first x' Hx') as [E _]. congruence.
  - assert (E : propagate_priority s3 o = s3).
    { unfold propagate_priority. rewrite propagate_unf, Epo. reflexivity. }
    rewrite E. apply Hnone. intros x Hx. destruct (join_first x Hx) as [E1 E2]. congruence.
Qed.
End Join.

(* ------------------------------------------------------------ steps that only touch what keyed does not read *)
Lemma OW_tasks s s' : tasks s' = tasks s -> OW s -> OW s'.
Proof.
  intros E O x l l0. unfold is_prio_task, gett. rewrite E. apply O.
Qed.

Lemma rk_setf_flag s f x : allwf s -> fstate_ x = fstate_ (getf s f) -> rk s (setf s f x).
Proof.
  intros W E. constructor; auto.
  - intros g. rewrite getf_setf. destruct (Nat.eqb f g && Nat.ltb f (length (futs s)))%bool eqn:B; auto.
    apply andb_prop in B as [B _]. apply Nat.eqb_eq in B. now subst g.
  - intros l e' He. exists e'. repeat split; auto. left. reflexivity.
Qed.

Lemma rk_new_future s o : allwf s -> rk s (fst (new_future s o)).
Proof.
  intros W. unfold new_future. cbn [fst]. constructor; auto.
  - intros g. unfold getf. cbn.
    destruct (Nat.lt_ge_cases g (length (futs s))) as [Hg|Hg]; [now rewrite nth_app_old|].
    rewrite (nth_overflow (futs s)) by exact Hg.
    destruct (Nat.eq_dec g (length (futs s))) as [->|Hne]; [now rewrite nth_app_fresh|].
    rewrite nth_overflow; [reflexivity|]. rewrite app_length. simpl. lia.
  - intros l e' He. exists e'. repeat split; auto. left. reflexivity.
Qed.

(* ------------------------------------------------------------ PriorityLock.acquire up to `await fut` *)
Theorem keyed_arrive s t l P :
  Inv s -> t < length (tasks s) -> lkind_ (getl s l) = LPrio -> WI true (t, P) s -> OW s ->
  holds_below s t l -> (forall l0 g, ~ In (g, t) (rows s l0)) ->
  (forall l0, keyed s l0) ->
  (forall l0, keyed (fst (acquire_p_start s t l)) l0) /\ OW (fst (acquire_p_start s t l)).
Proof.
  intros I Ht Hk W O Hb Hnr K.
  assert (Wf : allwf s) by (intros l0; apply (iB1 I)).
  assert (Htw : is_prio_task s t = true -> twaiting (gett s t) = None).
  { intros Hp. destruct (twaiting (gett s t)) as [l'|] eqn:Ew; auto. exfalso.
    destruct (w_newait W eq_refl t l' (fun h => h) Hp Ew) as (g & Hrow). exact (Hnr _ _ Hrow). }
  pose proof (acquire_p_start_W true s t l P I Ht Hk W) as Wres.
  destruct (acquire_p_start_ext s t l I Ht Hk) as [Eres _]. apply ext_inv in Eres.
  revert Wres Eres. unfold acquire_p_start.
  destruct (negb (llocked (getl s l)) && match arr (lpq (getl s l)) with [] => true | _ => false end)%bool eqn:Efast.
  - (* the lock is free and nobody is queued *)
    destruct (take_lock s l t) as [s'|e] eqn:E; cbn [fst snd]; [|auto].
    intros W' I'.
    destruct (take_lock_ot s l t s' E) as [Ot Hh]. pose proof (wk_take_lock s l t s' E) as Kw.
    assert (O' : OW s').
    { intros x l1 l0 Hp Ew Hl0. destruct (Nat.eq_dec x t) as [->|Hne].
      - exfalso. destruct (k_task Kw t Ht) as (E1 & E2 & _). rewrite E1 in Ew. rewrite E2 in Hp.
        rewrite (Htw Hp) in Ew. discriminate.
      - unfold is_prio_task in Hp. rewrite (o_oth Ot x Hne) in *. eapply O; eauto. }
    split; [|exact O'].
    intros l0 e' He' Hl'.
    assert (Hrow' : forall l1 e, In e (arr (lpq (getl s l1))) -> entry_task (getl s l1) e <> t).
    { intros l1 e He Eq. pose proof (rtask_row _ _ _ _ _ _ W He) as Hrow. unfold rtask in Hrow.
      unfold entry_task in Eq. rewrite Eq in Hrow. exact (Hnr _ _ Hrow). }
    assert (Et : forall l1 e, entry_task (getl s' l1) e = entry_task (getl s l1) e).
    { intros l1 e. unfold entry_task, task_of_fut. pose proof (k_rows Kw l1) as Er. unfold rows in Er. now rewrite Er. }
    rewrite (k_lpq Kw) in He'.
    apply (keyed_local s s' (fun x => x = t)); auto.
    + apply (ranked_tbl true (fun _ => False) (t, P)); auto.
    + apply (ranked_tbl true (fun _ => False) (t, P)); auto.
    + intros x Hx. now rewrite (o_oth Ot x Hx).
    + intros x Hx. unfold waiters_of. rewrite (o_oth Ot x Hx).
      erewrite flat_map_ext_in; [apply Permutation_refl|]. intros l1 _.
      apply lwtasks_ext; [apply (k_lpq Kw)|apply (k_rows Kw)].
    + intros x w _ Hw ->. apply waits_on_iff in Hw as (l1 & _ & Hw).
      destruct (waiter_has_row _ _ _ _ _ _ W Hw) as (g & Hrow). exact (Hnr _ _ Hrow).
    + rewrite Et. now apply Hrow'.
    + right. exists e'. split; auto. split; [|split; [reflexivity|now rewrite Et]].
      unfold live in *. destruct (fdone s (Z.to_nat (eobj e'))) eqn:Ed; auto.
      rewrite (k_done Kw _ Ed) in Hl'. discriminate.
  - assert (Hl : l < length (locks s)).
    { destruct (Nat.lt_ge_cases l (length (locks s))); auto.
      rewrite getl_oob in Efast by auto. discriminate. }
    set (f := length (futs s)).
    set (s1 := fst (new_future s None)).
    assert (B1 : benign s s1) by apply chg_new_future.
    assert (K1 : wk s s1) by apply wk_new_future.
    assert (R1 : rk s s1) by (now apply rk_new_future).
    change (new_future s None) with (s1, f). cbv beta iota.
    pose proof (WI_wk _ _ _ _ _ K1 W) as W1.
    destruct (is_prio_task s t && match twaiting (gett s1 t) with Some _ => true | None => false end)%bool eqn:Eas.
    { cbn [fst snd]. intros _ _. split; [intros l0; now apply (rk_keyed s s1)|].
      eapply OW_tasks; [|exact O]. reflexivity. }
    set (had := is_prio_task s t) in *.
    set (s2 := if had then sett s1 t (gett s1 t <| twaiting := Some l |>) else s1).
    assert (B2 : benign s s2).
    { unfold s2. destruct had; auto. eapply benign_trans; [exact B1|]. bsett. }
    pose proof (Inv_benign s s2 B2 I) as I2.
    assert (Hf2 : getf s2 f = mkFut FPending [] false None None).
    { unfold s2. destruct had; apply new_future_get. }
    assert (Hlen2 : length (futs s2) = S (length (futs s))).
    { unfold s2. destruct had; apply new_future_len. }
    assert (Hfor2 : forall g, foreign s2 g <-> foreign s g).
    { intros g. unfold s2. destruct had; reflexivity. }
    assert (Hl2 : forall l0, getl s2 l0 = getl s l0).
    { intros l0. unfold s2. destruct had; reflexivity. }
    assert (Ht2 : t < length (tasks s2)).
    { unfold s2. destruct had; [rewrite sett_len|]; exact Ht. }
    assert (Hp2 : is_prio_task s2 t = had).
    { unfold s2. destruct had eqn:Eh; [|exact Eh]. unfold is_prio_task. rewrite gett_sett_same by exact Ht.
      cbn. exact Eh. }
    assert (W2 : WIx true (fun x => x = t /\ had = true) (t, P) s2).
    { unfold s2. destruct had eqn:Eh.
      - simpl in Eas. destruct (twaiting (gett s1 t)) eqn:Ew; [discriminate|].
        apply (WIx_sett_waiting true (fun _ => False) (fun x => x = t /\ true = true) (t, P) s1 t (Some l) W1).
        + intros l0 g Hin Hpr. destruct (w_wait W1 _ _ _ Hin Hpr) as [E _]. congruence.
        + intros x Hne. split; [intros [E _]; contradiction|tauto].
        + intros _ Hx. exfalso. apply Hx. auto.
      - eapply WI_X; [|exact W1]. intros x. split; [tauto|intros [_ E]; discriminate]. }
    set (p := if had then effective_priority s t else 0%Q).
    set (lk3 := getl s2 l <| lpq := pq_add HQ (lpq (getl s2 l)) p (Z.of_nat f) |> <| lwt := lwt (getl s2 l) ++ [(f, t)] |>).
    change (setl s2 l lk3) with (upd s2 l lk3 0 None).
    set (s3 := upd s2 l lk3 0 None).
    assert (Hnl2 : ~ lockfut s2 f).
    { intros H. apply (benign_lockfut s s2 f B2) in H. now apply (fresh_not_lockfut s I). }
    assert (I3 : Inv s3).
    { apply Inv_add; auto.
      - rewrite (c_nlocks B2). exact Hl.
      - rewrite Hl2. exact Hk.
      - rewrite Hlen2. unfold f. lia.
      - now rewrite Hf2.
      - intros H. apply Hfor2 in H. now apply (fresh_not_foreign s I).
      - unfold woken. now rewrite Hf2. }
    assert (W3 : WI true (t, InFut f :: InAcquireP l f had :: P) s3).
    { unfold s3, upd. apply (WIx_join true (fun x => x = t /\ had = true) t l f had P s2 p); auto.
      - rewrite (c_nlocks B2). exact Hl.
      - intros H. apply Hnl2. now exists l.
      - tauto.
      - intros Eh. unfold s2. rewrite Eh. rewrite gett_sett_same; [reflexivity|].
        change (tasks s1) with (tasks s). exact Ht.
      - intros _ Hh.
        assert (Eth : tholding (gett s2 t) = tholding (gett s t) /\ own s2 t = own s t).
        { unfold own, s2. destruct had; [rewrite gett_sett_same by exact Ht; cbn|]; auto. }
        destruct Eth as [Eth Eo]. rewrite Eth in Hh. rewrite Eo. unfold p.
        destruct had eqn:Eh; [rewrite (eprio_own_nohold s t Hh); reflexivity|].
        unfold own. unfold had, is_prio_task in Eh. destruct (tprio (gett s t)); [discriminate|reflexivity].
      - apply (iB1 I2). }
    (* the tables of s3 *)
    assert (Ts3 : tasks s3 = tasks s2) by reflexivity.
    assert (G2 : forall x, tprio (gett s2 x) = tprio (gett s x) /\ tholding (gett s2 x) = tholding (gett s x) /\
                           (x <> t -> gett s2 x = gett s x)).
    { intros x. unfold s2. destruct had; [|auto]. rewrite gett_sett.
      destruct (Nat.eqb t x && Nat.ltb t (length (tasks s1)))%bool eqn:B.
      - apply andb_prop in B as [B _]. apply Nat.eqb_eq in B. subst x. cbn. repeat split; auto. intros H; now destruct H.
      - auto. }
    assert (G3 : forall x, gett s3 x = gett s2 x) by (intros x; reflexivity).
    assert (O3 : OW s3).
    { intros x l1 l0 Hp Ew Hl0. unfold is_prio_task in Hp. rewrite G3 in *.
      destruct (Nat.eq_dec x t) as [->|Hne].
      - destruct (G2 t) as (_ & Eh & _). rewrite Eh in Hl0.
        assert (l1 = l).
        { revert Ew. unfold s2. destruct had eqn:Eh'.
          - rewrite gett_sett_same by exact Ht. cbn. congruence.
          - intros Ew. exfalso. destruct (G2 t) as (Ep & _ & _). rewrite Ep in Hp.
            unfold had, is_prio_task in Eh'. now rewrite Hp in Eh'. }
        subst l1. now apply Hb.
      - destruct (G2 x) as (_ & _ & Eg). rewrite (Eg Hne) in *. eapply O; eauto. }
    assert (Gl3 : getl s3 l = lk3).
    { unfold s3, upd. apply getl_setl_same. rewrite (c_nlocks B2). exact Hl. }
    assert (Go3 : forall l0, l0 <> l -> getl s3 l0 = getl s l0).
    { intros l0 Hne. unfold s3, upd. rewrite getl_setl_other by auto. apply Hl2. }
    assert (Kj : forall l0, keyed (match lowner (getl s3 l) with Some o => propagate_priority s3 o | None => s3 end) l0).
    { apply (keyed_join s s3 t l f p (seqn (lpq (getl s l))) true true (fun _ => False) (fun _ => False)
                        (t, P) (t, InFut f :: InAcquireP l f had :: P)); auto.
      - intros x. rewrite G3. destruct (G2 x) as (A & B & _). auto.
      - intros l0 Hne. now rewrite (Go3 l0 Hne).
      - rewrite Gl3. change (lpq lk3) with (pq_add HQ (lpq (getl s2 l)) p (Z.of_nat f)).
        rewrite Hl2. apply add_perm, HQ_spec.
      - rewrite Gl3. change (lwt lk3) with (lwt (getl s2 l) ++ [(f, t)]). now rewrite Hl2.
      - intros g Hg. pose proof (k_done K1 g Hg) as Hg1.
        assert (F3 : futs s3 = futs s1).
        { change (futs s3) with (futs s2). unfold s2. destruct had; reflexivity. }
        unfold fdone, getf in *. rewrite F3. exact Hg1.
      - unfold p, wprio, had, is_prio_task. destruct (tprio (gett s t)); reflexivity. }
    set (s4 := match lowner (getl s3 l) with Some o => propagate_priority s3 o | None => s3 end) in *.
    assert (T4 : tasks s4 = tasks s3).
    { unfold s4. destruct (lowner (getl s3 l)); [apply tasks_propagate_task|reflexivity]. }
    assert (Wf4 : allwf s4).
    { unfold s4. destruct (lowner (getl s3 l)) as [o|]; [|intros l0; apply (iB1 I3)].
      apply (rk_wf s3). apply rk_propagate_priority; [intros l0; apply (iB1 I3)|intros l0; apply (w_nodup W3)]. }
    cbn [fst snd]. intros _ _. split.
    + intros l0. apply (rk_keyed s4); [apply rk_setf_flag; [exact Wf4|reflexivity]|apply Kj].
    + apply (OW_tasks s3); [|exact O3]. unfold setf. cbn. exact T4.
Qed.
