(* C12: the keys of the waiter queue follow the effective priorities.
   - effective priorities do not depend on the order of the waiter arrays nor on the keys;
   - PriorityTask.propagate_priority / PriorityLock.propagate_priority ([propagate_task])
     only re-key entries (same future, same arrival sequence number), never change an
     effective priority, and leave every entry keyed either as before or by the current
     effective priority of its task;
   - along the whole holder chain the entry of each blocked PriorityTask is re-keyed to its
     current effective priority. *)
From Coq Require Import QArith Lqa Sorting.Permutation.
From RecordUpdate Require Import RecordUpdate.
From Asynkit Require Import Base.Prelude Queue.PQ Queue.Order Queue.Heap Queue.ListFacts
  Queue.PQProofs Queue.PosPQ Queue.PosProofs Queue.Exec Sched.Model Sched.Tables Sched.QFacts
  Sched.LockInv Sched.LockOps Sched.InheritEprio Sched.InheritHandover.
Import RecordSetNotations.
Open Scope nat_scope.

(* ------------------------------------------------------------ least elements *)
Lemma min_of_sim x vs y ws :
  min_of x vs -> min_of y ws ->
  (forall v, In v vs -> exists w, In w ws /\ (v == w)%Q) ->
  (forall w, In w ws -> exists v, In v vs /\ (v == w)%Q) -> (x == y)%Q.
Proof.
  intros [Hx Hxl] [Hy Hyl] H1 H2.
  destruct (H1 _ Hx) as (w & Hw & Ew). destruct (H2 _ Hy) as (v & Hv & Ev).
  specialize (Hxl _ Hv). specialize (Hyl _ Hw). lra.
Qed.

Lemma Permutation_flat_map_pw {A B} (f g : A -> list B) l :
  (forall x, Permutation (f x) (g x)) -> Permutation (flat_map f l) (flat_map g l).
Proof.
  intros H. induction l as [|x l IH]; simpl; auto. now apply Permutation_app.
Qed.

(* ------------------------------------------------------------ eprio up to reordering *)
(* states with the same task priorities and held locks, whose waiter lists agree up to
   order *)
Definition esim (s s' : st) : Prop :=
  (forall t, tprio (gett s' t) = tprio (gett s t) /\ tholding (gett s' t) = tholding (gett s t)) /\
  (forall l, Permutation (lock_waiter_tasks (getl s' l)) (lock_waiter_tasks (getl s l))) /\
  efuel s' = efuel s.

Lemma esim_waiters s s' t : esim s s' -> Permutation (waiters_of s' t) (waiters_of s t).
Proof.
  intros (Ht & Hl & _). unfold waiters_of. destruct (Ht t) as [_ ->].
  now apply Permutation_flat_map_pw.
Qed.

Lemma eprio_sim s s' : esim s s' -> forall fuel t, (eprio fuel s' t == eprio fuel s t)%Q.
Proof.
  intros E. pose proof E as (Ht & Hl & _). induction fuel as [|fuel IH]; intros t.
  - rewrite !eprio_0. unfold own. destruct (Ht t) as [-> _]. reflexivity.
  - assert (Hg : forall w, (wprio_f fuel s' w == wprio_f fuel s w)%Q).
    { intros w. unfold wprio_f. destruct (Ht w) as [-> _]. destruct (tprio (gett s w)); [apply IH|reflexivity]. }
    assert (Ho : own s' t = own s t) by (unfold own; now destruct (Ht t) as [-> _]).
    eapply min_of_sim; [apply eprio_step|apply eprio_step| |].
    + intros v [<-|Hv].
      * exists (own s t). split; [now left|rewrite Ho; reflexivity].
      * apply in_map_iff in Hv as (w & <- & Hw). exists (wprio_f fuel s w). split; [|apply Hg].
        right. apply in_map. eapply Permutation_in; [apply (esim_waiters s s' t E)|exact Hw].
    + intros v [<-|Hv].
      * exists (own s' t). split; [now left|rewrite Ho; reflexivity].
      * apply in_map_iff in Hv as (w & <- & Hw). exists (wprio_f fuel s' w). split; [|apply Hg].
        right. apply in_map.
        eapply Permutation_in; [apply Permutation_sym, (esim_waiters s s' t E)|exact Hw].
Qed.

Lemma wprio_sim s s' w : esim s s' -> (wprio s' w == wprio s w)%Q.
Proof.
  intros E. pose proof E as (Ht & _ & Ef). unfold wprio, effective_priority.
  destruct (Ht w) as [-> _]. destruct (tprio (gett s w)); [|reflexivity].
  rewrite Ef. now apply eprio_sim.
Qed.

Lemma effective_priority_sim s s' t :
  esim s s' -> (effective_priority s' t == effective_priority s t)%Q.
Proof. intros E. pose proof E as (_ & _ & Ef). unfold effective_priority. rewrite Ef. now apply eprio_sim. Qed.

Lemma waits_on_sim s s' w t : esim s s' -> (waits_on s' w t <-> waits_on s w t).
Proof.
  intros (Ht & Hl & _). unfold waits_on. split; intros (l & H1 & H2); exists l.
  - destruct (Ht t) as [_ E]. rewrite E in H1. split; auto. eapply Permutation_in; [apply Hl|auto].
  - destruct (Ht t) as [_ E]. rewrite E. split; auto.
    eapply Permutation_in; [apply Permutation_sym, Hl|auto].
Qed.

Lemma ranked_sim s s' : esim s s' -> ranked s -> ranked s'.
Proof.
  intros E (rank & H1 & H2). exists rank. split.
  - intros w t Hw. apply H1. now apply (waits_on_sim s s').
  - intros t. destruct E as (_ & _ & ->). apply H2.
Qed.

(* ------------------------------------------------------------ reschedule re-keys one entry *)
Lemma lock_waiter_tasks_objs lk :
  lock_waiter_tasks lk = map (task_of_fut lk) (pq_objs (lpq lk)).
Proof. unfold lock_waiter_tasks, pq_objs. now rewrite map_map. Qed.

Lemma resched_rekey (q : pq Q) key np o q' :
  PQInv q -> pq_reschedule HQ q key np = Some (o, q') ->
  exists e e' r,
    key (eobj e) = true /\ eobj e = o /\ Permutation (arr q) (e :: r) /\
    Permutation (arr q') (e' :: r) /\ seqn q' = seqn q /\
    eseq e' = eseq e /\ eobj e' = eobj e /\ (epri e' == np)%Q.
Proof.
  intros Hi Hr. destruct (find_last_index key (arr q)) as [i|] eqn:Hfi.
  - rewrite (resched_some HQ q key np i Hfi) in Hr.
    destruct (find_last_index_some _ _ _ (edflt HQ) Hfi) as [Hlt Hk].
    set (e := nth i (arr q) (edflt HQ)) in *.
    pose proof (perm_remove_nth (arr q) i (edflt HQ) Hlt) as Hp. fold e in Hp.
    destruct (plt HQ (epri e) np || plt HQ np (epri e)) eqn:Ec;
      inversion Hr as [[Ho Hq]]; subst o q'; clear Hr.
    + exists e, (mkE np (eseq e) (eobj e)), (remove_nth (arr q) i).
      split; [exact Hk|]. split; [reflexivity|]. split; [exact Hp|]. split.
      { simpl. eapply perm_trans; [apply (hs_heapify_perm HQ_spec)|]. now apply perm_set_nth. }
      split; [reflexivity|]. split; [reflexivity|]. split; [reflexivity|]. simpl. reflexivity.
    + exists e, e, (remove_nth (arr q) i).
      split; [exact Hk|]. split; [reflexivity|]. split; [exact Hp|]. split; [exact Hp|].
      split; [reflexivity|]. split; [reflexivity|]. split; [reflexivity|].
      apply orb_false_iff in Ec as [E1 E2]. change (plt HQ) with qltb in E1, E2.
      apply qltb_ge in E1, E2. lra.
  - rewrite (resched_none HQ) in Hr by auto. discriminate.
Qed.

(* ------------------------------------------------------------ the re-keying relation *)
Definition allwf (s : st) : Prop := forall l, qwf (lpq (getl s l)).
(* a waiter future is recorded for one task only *)
Definition lwt_ok (s : st) : Prop := forall l, NoDup (map fst (lwt (getl s l))).

Record rk (s s' : st) : Prop := mkRk {
  rk_tasks : tasks s' = tasks s;
  rk_futs : forall g, fstate_ (getf s' g) = fstate_ (getf s g);
  rk_nlocks : length (locks s') = length (locks s);
  rk_lwt : forall l, lwt (getl s' l) = lwt (getl s l);
  rk_owner : forall l, lowner (getl s' l) = lowner (getl s l);
  rk_wf : allwf s';
  rk_objs : forall l, Permutation (pq_objs (lpq (getl s' l))) (pq_objs (lpq (getl s l)));
  rk_ent : forall l e', In e' (arr (lpq (getl s' l))) ->
           exists e, In e (arr (lpq (getl s l))) /\ eseq e' = eseq e /\ eobj e' = eobj e /\
                     ((epri e' == epri e)%Q \/
                      (epri e' == wprio s (entry_task (getl s l) e))%Q) }.

Lemma rk_refl s : allwf s -> rk s s.
Proof.
  intros W. constructor; auto. intros l e' He. exists e'. repeat split; auto. left. reflexivity.
Qed.

Lemma rk_gett s s' t : rk s s' -> gett s' t = gett s t.
Proof. intros R. unfold gett. now rewrite (rk_tasks _ _ R). Qed.

Lemma rk_fdone s s' f : rk s s' -> fdone s' f = fdone s f.
Proof. intros R. unfold fdone. now rewrite (rk_futs _ _ R). Qed.

Lemma rk_esim s s' : rk s s' -> esim s s'.
Proof.
  intros R. split; [|split].
  - intros t. now rewrite (rk_gett _ _ t R).
  - intros l. rewrite !lock_waiter_tasks_objs.
    rewrite (map_ext (task_of_fut (getl s' l)) (task_of_fut (getl s l))).
    + apply Permutation_map, (rk_objs _ _ R).
    + intros f. unfold task_of_fut. now rewrite (rk_lwt _ _ R).
  - unfold efuel. now rewrite (rk_tasks _ _ R), (rk_nlocks _ _ R).
Qed.

Lemma rk_entry_task s s' l e e' :
  rk s s' -> eobj e' = eobj e -> entry_task (getl s' l) e' = entry_task (getl s l) e.
Proof. intros R E. unfold entry_task, task_of_fut. now rewrite (rk_lwt _ _ R), E. Qed.

Lemma rk_trans s1 s2 s3 : rk s1 s2 -> rk s2 s3 -> rk s1 s3.
Proof.
  intros A B. constructor.
  - now rewrite (rk_tasks _ _ B), (rk_tasks _ _ A).
  - intros g. now rewrite (rk_futs _ _ B), (rk_futs _ _ A).
  - now rewrite (rk_nlocks _ _ B), (rk_nlocks _ _ A).
  - intros l. now rewrite (rk_lwt _ _ B), (rk_lwt _ _ A).
  - intros l. now rewrite (rk_owner _ _ B), (rk_owner _ _ A).
  - apply (rk_wf _ _ B).
  - intros l. eapply perm_trans; [apply (rk_objs _ _ B)|apply (rk_objs _ _ A)].
  - intros l e3 H3.
    destruct (rk_ent _ _ B l e3 H3) as (e2 & H2 & S32 & O32 & K32).
    destruct (rk_ent _ _ A l e2 H2) as (e1 & H1 & S21 & O21 & K21).
    exists e1. split; auto. split; [congruence|]. split; [congruence|].
    destruct K32 as [K32|K32].
    + destruct K21 as [K21|K21]; [left|right]; lra.
    + right. rewrite K32. rewrite (rk_entry_task s1 s2 l e1 e2 A O21).
      apply wprio_sim. now apply rk_esim.
Qed.

Lemma rk_live s s' e : rk s s' -> (live s' e <-> live s e).
Proof. intros R. unfold live. now rewrite (rk_fdone _ _ _ R). Qed.

(* up-to-date keys stay up to date *)
Theorem rk_keyed s s' l : rk s s' -> keyed s l -> keyed s' l.
Proof.
  intros R K e' He' Le'.
  destruct (rk_ent _ _ R l e' He') as (e & He & Sq & Ob & Ky).
  assert (Le : live s e).
  { apply (rk_live s s' e' R) in Le'. unfold live in *. now rewrite <- Ob. }
  rewrite (rk_entry_task s s' l e e' R Ob).
  rewrite (wprio_sim s s' _ (rk_esim _ _ R)).
  destruct Ky as [Ky|Ky]; auto. rewrite Ky. now apply K.
Qed.

(* ------------------------------------------------------------ one reschedule of a lock queue *)
Lemma rk_only_ready s r : allwf s -> rk s (s <| ready := r |>).
Proof.
  intros W. constructor; auto. intros l e' He. exists e'. repeat split; auto. left. reflexivity.
Qed.

Lemma task_of_fut_unique lk f w :
  NoDup (map fst (lwt lk)) -> In (f, w) (lwt lk) -> task_of_fut lk f = w.
Proof.
  intros Hnd Hin. unfold task_of_fut.
  destruct (find (fun p => Nat.eqb (fst p) f) (lwt lk)) as [[f' w']|] eqn:E.
  - apply List.find_some in E as [Hin' Ef]. simpl in Ef. apply Nat.eqb_eq in Ef. subst f'. simpl.
    assert ((f, w') = (f, w)) as Eq by (eapply NoDup_map_inj_in; eauto).
    congruence.
  - eapply List.find_none in E; [|exact Hin]. simpl in E. now rewrite Nat.eqb_refl in E.
Qed.

Lemma rk_resched s l u f o q' :
  allwf s -> lwt_ok s -> is_prio_task s u = true ->
  In (f, u) (lwt (getl s l)) ->
  pq_reschedule HQ (lpq (getl s l)) (fun o => Nat.eqb (Z.to_nat o) f) (effective_priority s u)
    = Some (o, q') ->
  let s' := setl s l (getl s l <| lpq := q' |>) in
  rk s s' /\
  (forall e', In e' (arr (lpq (getl s' l))) -> Z.to_nat (eobj e') = f ->
              (epri e' == effective_priority s u)%Q).
Proof.
  intros W Lw Hp Hin Hr s'.
  destruct (W l) as (Hi & Hnd & Hnn).
  destruct (resched_rekey _ _ _ _ _ Hi Hr) as (e & e' & r & Hk & Ho & Pq & Pq' & Sq & Se & Oe & Ke).
  destruct (pq_resched_objs _ _ _ _ _ (W l) Hr) as [Wq' Po].
  apply Nat.eqb_eq in Hk.
  assert (Hl : l < length (locks s)).
  { destruct (Nat.lt_ge_cases l (length (locks s))) as [|Hge]; auto.
    rewrite getl_oob in Hin by auto. destruct Hin. }
  assert (Gl : getl s' l = getl s l <| lpq := q' |>) by (unfold s'; now apply getl_setl_same).
  assert (Go : forall l0, l0 <> l -> getl s' l0 = getl s l0).
  { intros l0 Hne. unfold s'. apply getl_setl_other. auto. }
  split.
  - constructor.
    + reflexivity.
    + reflexivity.
    + unfold s', setl. cbn. apply set_nth_length.
    + intros l0. destruct (Nat.eq_dec l0 l) as [->|Hne]; [now rewrite Gl|now rewrite Go].
    + intros l0. destruct (Nat.eq_dec l0 l) as [->|Hne]; [now rewrite Gl|now rewrite Go].
    + intros l0. destruct (Nat.eq_dec l0 l) as [->|Hne]; [rewrite Gl; exact Wq'|rewrite Go; auto].
    + intros l0. destruct (Nat.eq_dec l0 l) as [->|Hne]; [rewrite Gl; exact Po|now rewrite Go].
    + intros l0 x Hx. destruct (Nat.eq_dec l0 l) as [->|Hne].
      * rewrite Gl in Hx. cbn in Hx.
        apply (Permutation_in _ Pq') in Hx. destruct Hx as [<-|Hx].
        -- exists e. split; [eapply Permutation_in; [apply Permutation_sym, Pq|now left]|].
           split; auto. split; auto. right. rewrite Ke.
           unfold entry_task. rewrite Hk. rewrite (task_of_fut_unique _ _ _ (Lw l) Hin).
           unfold wprio, is_prio_task in *. destruct (tprio (gett s u)); [reflexivity|discriminate].
        -- exists x. split; [eapply Permutation_in; [apply Permutation_sym, Pq|now right]|].
           repeat split; auto. left. reflexivity.
      * rewrite Go in Hx by auto. exists x. repeat split; auto. left. reflexivity.
  - intros x Hx Hf. rewrite Gl in Hx. cbn in Hx.
    apply (Permutation_in _ Pq') in Hx. destruct Hx as [<-|Hx]; auto.
    exfalso.
    assert (Hnd' : NoDup (objs_of (e :: r))).
    { eapply Permutation_NoDup; [apply objs_of_perm, Pq|]. rewrite <- pq_objs_eq. exact Hnd. }
    simpl in Hnd'. apply NoDup_cons_iff in Hnd' as [Hn _]. apply Hn.
    rewrite Hk, <- Hf. unfold objs_of. now apply (in_map (fun e0 : entry Q => Z.to_nat (eobj e0))).
Qed.

(* ------------------------------------------------------------ propagate_priority *)
Lemma find_snd_in (lw : list (nat * nat)) u f u' :
  find (fun pr => Nat.eqb (snd pr) u) lw = Some (f, u') -> In (f, u) lw.
Proof.
  intros E. apply List.find_some in E as [Hin Eu]. simpl in Eu. apply Nat.eqb_eq in Eu. now subst u'.
Qed.

Lemma rk_lwt_ok s s' : rk s s' -> lwt_ok s -> lwt_ok s'.
Proof. intros R L l. rewrite (rk_lwt _ _ R). apply L. Qed.

Lemma rk_is_prio s s' t : rk s s' -> is_prio_task s' t = is_prio_task s t.
Proof. intros R. unfold is_prio_task. now rewrite (rk_gett _ _ t R). Qed.

(* propagate_priority only re-keys: no effective priority changes, every entry keeps its
   future and its arrival number, and its key is the old one or the current effective
   priority of its task *)
Theorem rk_propagate_task fuel : forall s t,
  allwf s -> lwt_ok s -> rk s (propagate_task fuel s t).
Proof.
  induction fuel as [|fuel IH]; intros s t W L.
  - simpl. destruct (negb (is_prio_task s t)); [now apply rk_refl|].
    destruct (task_is_runnable s t); destruct (twaiting (gett _ t));
      try (now apply rk_refl); now apply rk_only_ready.
  - simpl. destruct (negb (is_prio_task s t)) eqn:Ep; [now apply rk_refl|].
    apply negb_false_iff in Ep.
    set (s0 := if task_is_runnable s t then task_reschedule s t else s).
    assert (R0 : rk s s0).
    { unfold s0. destruct (task_is_runnable s t); [now apply rk_only_ready|now apply rk_refl]. }
    clearbody s0. eapply rk_trans; [exact R0|].
    rewrite <- (rk_is_prio _ _ t R0) in Ep. pose proof (rk_wf _ _ R0) as W0.
    pose proof (rk_lwt_ok _ _ R0 L) as L0. clear R0 W L s. rename s0 into s, W0 into W, L0 into L.
    destruct (twaiting (gett s t)) as [l|]; [|now apply rk_refl].
    set (s1 := match lowner (getl s l) with Some o => propagate_task fuel s o | None => s end).
    assert (R1 : rk s s1).
    { unfold s1. destruct (lowner (getl s l)); [now apply IH|now apply rk_refl]. }
    destruct (find (fun pr => Nat.eqb (snd pr) t) (lwt (getl s1 l))) as [[f u']|] eqn:Ef; auto.
    destruct (pq_reschedule HQ (lpq (getl s1 l)) _ (effective_priority s1 t)) as [[o q']|] eqn:Er; auto.
    apply find_snd_in in Ef.
    destruct (rk_resched s1 l t f o q' (rk_wf _ _ R1) (rk_lwt_ok _ _ R1 L)
                         ltac:(rewrite (rk_is_prio _ _ t R1); exact Ep) Ef Er) as [R2 _].
    eapply rk_trans; eauto.
Qed.

Corollary rk_propagate_priority s t : allwf s -> lwt_ok s -> rk s (propagate_priority s t).
Proof. apply rk_propagate_task. Qed.

Corollary propagate_keeps_eprio s t u :
  allwf s -> lwt_ok s ->
  (effective_priority (propagate_priority s t) u == effective_priority s u)%Q.
Proof. intros W L. apply effective_priority_sim, rk_esim, rk_propagate_priority; auto. Qed.

Corollary propagate_keeps_keyed s t l :
  allwf s -> lwt_ok s -> keyed s l -> keyed (propagate_priority s t) l.
Proof. intros W L. apply rk_keyed, rk_propagate_priority; auto. Qed.

(* ------------------------------------------------------------ the holder chain is re-keyed *)
(* w is a PriorityTask blocked in acquire() of lock l with waiter future f *)
Definition blocked_on (s : st) (w l f : nat) : Prop :=
  is_prio_task s w = true /\ task_is_runnable s w = false /\ twaiting (gett s w) = Some l /\
  In (f, w) (lwt (getl s l)) /\
  (forall f', In (f', w) (lwt (getl s l)) -> f' = f).
(* propagate_priority started at u reaches w after n hops over lock owners *)
Inductive reaches (s : st) : nat -> nat -> nat -> Prop :=
| reach_here u : reaches s O u u
| reach_up n u l f o w : blocked_on s u l f -> lowner (getl s l) = Some o ->
                         reaches s n o w -> reaches s (S n) u w.

Lemma rk_runnable s s' t : rk s s' -> task_is_runnable s' t = task_is_runnable s t.
Proof.
  intros R. unfold task_is_runnable, task_is_blocked, tdone.
  rewrite (rk_gett _ _ t R). destruct (twaiter (gett s t)); now rewrite !(rk_fdone _ _ _ R).
Qed.

Lemma rk_blocked_on s s' w l f : rk s s' -> blocked_on s w l f -> blocked_on s' w l f.
Proof.
  intros R (A & B & C & D & E). unfold blocked_on.
  rewrite (rk_is_prio _ _ w R), (rk_runnable _ _ w R), (rk_gett _ _ w R), (rk_lwt _ _ R). auto.
Qed.

Lemma rk_reaches s s' n u w : rk s s' -> reaches s n u w -> reaches s' n u w.
Proof.
  intros R H. induction H as [u|n u l f o w B O _ IH]; [constructor|].
  econstructor; [eapply rk_blocked_on; eauto| |exact IH]. now rewrite (rk_owner _ _ R).
Qed.

(* the entry of future f in lock l is keyed by task w's current effective priority *)
Definition key_current (s : st) (w l f : nat) : Prop :=
  forall e, In e (arr (lpq (getl s l))) -> Z.to_nat (eobj e) = f ->
            (epri e == effective_priority s w)%Q.

Lemma rk_key_current_other s s' w l f :
  rk s s' -> key_current s w l f -> is_prio_task s w = true -> task_of_fut (getl s l) f = w ->
  key_current s' w l f.
Proof.
  intros R K Hp Ht e' He' Hf.
  destruct (rk_ent _ _ R l e' He') as (e & He & _ & Ob & Ky).
  rewrite (effective_priority_sim s s' w (rk_esim _ _ R)).
  assert (Hfe : Z.to_nat (eobj e) = f) by (now rewrite <- Ob).
  destruct Ky as [Ky|Ky]; rewrite Ky; [now apply K|].
  unfold entry_task. rewrite Hfe, Ht. unfold wprio, is_prio_task in *.
  destruct (tprio (gett s w)); [reflexivity|discriminate].
Qed.

Theorem propagate_rekeys_chain fuel : forall s u n w l f,
  allwf s -> lwt_ok s -> reaches s n u w -> n < fuel -> blocked_on s w l f ->
  key_current (propagate_task fuel s u) w l f.
Proof.
  induction fuel as [|fuel IH]; intros s u n w l f W L Hr Hn Hb; [lia|].
  assert (Hstep : forall s0 t l0 f0, allwf s0 -> lwt_ok s0 -> blocked_on s0 t l0 f0 ->
            propagate_task (S fuel) s0 t =
            let s1 := match lowner (getl s0 l0) with Some o => propagate_task fuel s0 o | None => s0 end in
            match find (fun pr => Nat.eqb (snd pr) t) (lwt (getl s1 l0)) with
            | Some (f1, _) =>
                match pq_reschedule HQ (lpq (getl s1 l0)) (fun o => Nat.eqb (Z.to_nat o) f1)
                                    (effective_priority s1 t) with
                | Some (_, q') => setl s1 l0 (getl s1 l0 <| lpq := q' |>)
                | None => s1 end
            | None => s1 end).
  { intros s0 t l0 f0 _ _ (A & B & C & _). simpl. rewrite A, B, C. reflexivity. }
  inversion Hr as [u0|n0 u0 l1 f1 o w0 Hbu Ho Hr' E1 E2 E3]; subst.
  - (* w = u: its own entry is re-keyed last *)
    rewrite (Hstep s w l f W L Hb). cbv zeta.
    set (s1 := match lowner (getl s l) with Some o => propagate_task fuel s o | None => s end).
    assert (R1 : rk s s1).
    { unfold s1. destruct (lowner (getl s l)); [now apply rk_propagate_task|now apply rk_refl]. }
    pose proof (rk_blocked_on _ _ _ _ _ R1 Hb) as (A1 & B1 & C1 & D1 & E1).
    destruct (find (fun pr => Nat.eqb (snd pr) w) (lwt (getl s1 l))) as [[f1 u']|] eqn:Ef.
    + pose proof (find_snd_in _ _ _ _ Ef) as Hin1. assert (f1 = f) by (now apply E1). subst f1.
      destruct (pq_reschedule HQ (lpq (getl s1 l)) _ (effective_priority s1 w)) as [[o q']|] eqn:Er.
      * destruct (rk_resched s1 l w f o q' (rk_wf _ _ R1) (rk_lwt_ok _ _ R1 L) A1 Hin1 Er) as [R2 K2].
        intros e He Hf. rewrite (K2 e He Hf). symmetry.
        apply effective_priority_sim, rk_esim, R2.
      * (* no entry for f: vacuous *)
        intros e He Hf. exfalso.
        assert (find_last_index (fun o => Nat.eqb (Z.to_nat o) f) (arr (lpq (getl s1 l))) = None) as Hn0.
        { unfold pq_reschedule in Er. destruct (find_last_index _ _); [|reflexivity].
          destruct (_ || _); discriminate. }
        pose proof (find_last_index_none _ _ Hn0 e He) as Hk. simpl in Hk.
        rewrite Hf, Nat.eqb_refl in Hk. discriminate.
    + exfalso. eapply List.find_none in Ef; [|exact D1]. simpl in Ef. now rewrite Nat.eqb_refl in Ef.
  - (* w is further up: re-keyed by the recursive call, kept by the reschedule of u's entry *)
    rewrite (Hstep s u l1 f1 W L Hbu). cbv zeta. rewrite Ho.
    set (s1 := propagate_task fuel s o).
    assert (R1 : rk s s1) by (now apply rk_propagate_task).
    assert (K1 : key_current s1 w l f) by (apply (IH s o n0 w l f); auto; lia).
    pose proof (rk_blocked_on _ _ _ _ _ R1 Hb) as Hb1.
    pose proof (rk_blocked_on _ _ _ _ _ R1 Hbu) as (A1 & B1 & C1 & D1 & E1).
    assert (Tw : task_of_fut (getl s1 l) f = w).
    { destruct Hb1 as (_ & _ & _ & Dw & _). apply task_of_fut_unique; auto. apply (rk_lwt_ok _ _ R1 L). }
    destruct (find (fun pr => Nat.eqb (snd pr) u) (lwt (getl s1 l1))) as [[f2 u']|] eqn:Ef; auto.
    pose proof (find_snd_in _ _ _ _ Ef) as Hin1.
    destruct (pq_reschedule HQ (lpq (getl s1 l1)) _ (effective_priority s1 u)) as [[o2 q']|] eqn:Er; auto.
    destruct (rk_resched s1 l1 u f2 o2 q' (rk_wf _ _ R1) (rk_lwt_ok _ _ R1 L) A1 Hin1 Er) as [R2 _].
    eapply rk_key_current_other; eauto. apply Hb1.
Qed.
