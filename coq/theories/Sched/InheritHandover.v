(* C12: whom PriorityLock._wake_up_first wakes.  The waiter queue is a heap of entries
   (key, arrival sequence number, future); the woken future is the one of the entry that
   is least by (key, sequence number) among all queued entries, and nobody is woken while
   a woken waiter is still queued.  If the keys are the current effective priorities
   (0 for plain tasks) this is the (effective priority, arrival)-least waiter; FIFO when
   all waiters are plain tasks. *)
From Coq Require Import QArith Lqa Sorting.Permutation.
From RecordUpdate Require Import RecordUpdate.
From Asynkit Require Import Base.Prelude Queue.PQ Queue.Order Queue.Heap Queue.PQProofs
  Queue.PosPQ Queue.PosProofs Queue.Exec Sched.Model Sched.Tables Sched.QFacts Sched.LockInv
  Sched.LockOps Sched.InheritEprio.
Import RecordSetNotations.
Open Scope nat_scope.

(* ------------------------------------------------------------ vocabulary *)
(* the task recorded for waiter future f of a lock, and for a queue entry *)
Definition task_of_fut (lk : lock) (f : nat) : nat :=
  match find (fun p => Nat.eqb (fst p) f) (lwt lk) with Some p => snd p | None => 0 end.
Definition entry_task (lk : lock) (e : entry Q) : nat := task_of_fut lk (Z.to_nat (eobj e)).

Lemma lock_waiter_tasks_eq lk : lock_waiter_tasks lk = map (entry_task lk) (arr (lpq lk)).
Proof. reflexivity. Qed.

(* the waiter of an entry is still waiting: its future is pending *)
Definition live (s : st) (e : entry Q) : Prop := fdone s (Z.to_nat (eobj e)) = false.
(* every live entry of lock l is keyed by the current effective priority of its task
   (0 for a plain task), up to equality of rationals *)
Definition keyed (s : st) (l : nat) : Prop :=
  forall e, In e (arr (lpq (getl s l))) -> live s e ->
            (epri e == wprio s (entry_task (getl s l) e))%Q.

(* a is served before b: more urgent, or equally urgent and arrived earlier *)
Definition before (s : st) (l : nat) (a b : entry Q) : Prop :=
  let pa := wprio s (entry_task (getl s l) a) in
  let pb := wprio s (entry_task (getl s l) b) in
  (pa < pb)%Q \/ ((pa == pb)%Q /\ (eseq a < eseq b)%Z).

(* ------------------------------------------------------------ the order of entries *)
Lemma elt_q_true (a b : entry Q) :
  entry_lt qltb a b = true <->
  (epri a < epri b)%Q \/ ((epri a == epri b)%Q /\ (eseq a < eseq b)%Z).
Proof.
  unfold entry_lt. rewrite orb_true_iff, andb_true_iff, negb_true_iff, qltb_lt, qltb_ge, Z.ltb_lt.
  split.
  - intros [H|[H1 H2]]; auto.
    destruct (Qlt_le_dec (epri a) (epri b)); auto. right. split; auto. lra.
  - intros [H|[H1 H2]]; auto. right. split; auto. lra.
Qed.

(* element 0 of a well-formed queue is strictly least *)
Lemma head_strict_min (q : pq Q) head rest :
  PQInv q -> arr q = head :: rest -> forall e, In e rest -> entry_lt qltb head e = true.
Proof.
  intros [Hh (Hnd & _)] Ea e He. rewrite Ea in Hh, Hnd.
  pose proof (eheap_min_cons HQ_sw head rest Hh) as Hmin.
  rewrite Forall_forall in Hmin. specialize (Hmin _ He).
  apply (ele_elt qltb_strict_weak); auto.
  simpl in Hnd. inversion Hnd as [|? ? Hn _]; subst.
  intros E. apply Hn. rewrite E. now apply in_map.
Qed.

(* a newly added entry gets a sequence number above all queued ones: arrival order *)
Lemma add_seq_last (q : pq Q) p o :
  PQInv q -> Permutation (arr (pq_add HQ q p o)) (mkE p (seqn q) o :: arr q) /\
             forall e, In e (arr q) -> (eseq e < seqn q)%Z.
Proof.
  intros [_ (_ & Hf & _)]. split.
  - apply (add_perm HQ HQ_spec).
  - now apply Forall_forall.
Qed.

(* ------------------------------------------------------------ _wake_up_first *)
(* what _wake_up_first does, exhaustively *)
Theorem wake_cases s l :
  PQInv (lpq (getl s l)) ->
  wake_up_first_p s l = s \/
  exists head rest,
    arr (lpq (getl s l)) = head :: rest /\
    (forall g, In g (pq_objs (lpq (getl s l))) -> woken s g = false) /\
    fstate_ (getf s (Z.to_nat (eobj head))) = FPending /\
    wake_up_first_p s l = fst (fut_finish s (Z.to_nat (eobj head)) (FResult 1)) /\
    (forall e, In e rest -> entry_lt qltb head e = true).
Proof.
  intros Hq. unfold wake_up_first_p.
  destruct (arr (lpq (getl s l))) as [|head rest] eqn:Ea; [now left|].
  destruct (existsb _ _) eqn:Ex; [now left|].
  destruct (fdone s (Z.to_nat (eobj head))) eqn:Ed; [now left|].
  right. exists head, rest. split; [reflexivity|]. split; [|split; [|split]].
  - intros g Hg. apply (existsb_false_forall _ _ Ex g Hg).
  - unfold fdone in Ed. destruct (fstate_ (getf s _)); auto; discriminate.
  - reflexivity.
  - now apply (head_strict_min (lpq (getl s l))).
Qed.

Lemma fut_finish_noop s f x : fstate_ (getf s f) <> FPending -> fst (fut_finish s f x) = s.
Proof. intros H. unfold fut_finish. destruct (fstate_ (getf s f)); auto. congruence. Qed.

(* the state of a future after fut_finish *)
Lemma fut_finish_state s f x g :
  fstate_ (getf s f) = FPending -> f < length (futs s) ->
  fstate_ (getf (fst (fut_finish s f x)) g) = if Nat.eqb f g then x else fstate_ (getf s g).
Proof.
  intros E Hr. unfold fut_finish. rewrite E. cbn [fst]. unfold schedule_callbacks.
  match goal with |- context [fold_left ?F ?L ?S] => destruct (fold_soon_proj f L S) as (_ & B & _) end.
  rewrite (getf_congr _ _ g B).
  set (s1 := setf s f (getf s f <| fstate_ := x |>)).
  assert (L1 : length (futs s1) = length (futs s)) by (unfold s1, setf; cbn; apply set_nth_length).
  rewrite getf_setf. rewrite L1. unfold s1. rewrite getf_setf.
  assert (Nat.ltb f (length (futs s)) = true) as -> by (now apply Nat.ltb_lt).
  rewrite andb_true_r. destruct (Nat.eqb f g) eqn:Efg.
  - rewrite Nat.eqb_refl. reflexivity.
  - rewrite getf_setf, Efg. reflexivity.
Qed.

(* C12_handover_is_heap_min: if _wake_up_first completes a future, it is the future of
   the entry that is strictly least (by key, then sequence number) among all queued
   entries, that future was pending, and no queued waiter was already woken *)
Theorem handover_is_heap_min s l f :
  PQInv (lpq (getl s l)) ->
  fstate_ (getf (wake_up_first_p s l) f) <> fstate_ (getf s f) ->
  exists head rest,
    arr (lpq (getl s l)) = head :: rest /\ f = Z.to_nat (eobj head) /\
    fstate_ (getf s f) = FPending /\
    fstate_ (getf (wake_up_first_p s l) f) = FResult 1 /\
    (forall e, In e rest -> entry_lt qltb head e = true) /\
    (forall g, In g (pq_objs (lpq (getl s l))) -> woken s g = false) /\
    (forall g, g <> f -> fstate_ (getf (wake_up_first_p s l) g) = fstate_ (getf s g)).
Proof.
  intros Hq Hch. destruct (wake_cases s l Hq) as [E|(head & rest & Ea & Hnw & Ep & Ew & Hmin)].
  - rewrite E in Hch. congruence.
  - set (h := Z.to_nat (eobj head)) in *.
    assert (Hr : h < length (futs s)).
    { destruct (Nat.lt_ge_cases h (length (futs s))) as [|Hge]; auto.
      exfalso. apply Hch. rewrite Ew. unfold fut_finish. rewrite Ep. cbn [fst].
      unfold schedule_callbacks.
      match goal with |- context [fold_left ?F ?L ?S] => destruct (fold_soon_proj h L S) as (_ & B & _) end.
      rewrite (getf_congr _ _ f B). rewrite getf_setf.
      assert (Nat.ltb h (length (futs (setf s h (getf s h <| fstate_ := FResult 1 |>)))) = false) as ->.
      { apply Nat.ltb_ge. unfold setf; cbn. rewrite set_nth_length. exact Hge. }
      rewrite andb_false_r. rewrite getf_setf.
      assert (Nat.ltb h (length (futs s)) = false) as -> by (now apply Nat.ltb_ge).
      now rewrite andb_false_r. }
    assert (Hst : forall g, fstate_ (getf (wake_up_first_p s l) g) =
                            if Nat.eqb h g then FResult 1 else fstate_ (getf s g)).
    { intros g. rewrite Ew. now apply fut_finish_state. }
    assert (f = h).
    { destruct (Nat.eqb h f) eqn:E; [now apply Nat.eqb_eq in E|].
      exfalso. apply Hch. rewrite Hst, E. reflexivity. }
    subst f. exists head, rest. repeat split; auto.
    + rewrite Hst, Nat.eqb_refl. reflexivity.
    + intros g Hg. rewrite Hst. apply Nat.eqb_neq in Hg. rewrite Nat.eqb_sym in Hg.
      now rewrite Hg.
Qed.

(* ------------------------------------------------------------ with tracked keys *)
Lemma keyed_before s l a b :
  keyed s l -> In a (arr (lpq (getl s l))) -> In b (arr (lpq (getl s l))) ->
  live s a -> live s b -> entry_lt qltb a b = true -> before s l a b.
Proof.
  intros K Ha Hb La Lb Hlt. apply elt_q_true in Hlt.
  pose proof (K _ Ha La) as Ka. pose proof (K _ Hb Lb) as Kb.
  unfold before. cbv zeta. destruct Hlt as [H|[H1 H2]]; [left|right; split; auto]; lra.
Qed.

(* C12_handover: when the keys of the live entries are up to date, the woken waiter is
   the (effective priority, arrival)-least live one *)
Theorem handover_by_eprio s l f :
  PQInv (lpq (getl s l)) -> keyed s l ->
  fstate_ (getf (wake_up_first_p s l) f) <> fstate_ (getf s f) ->
  exists head rest,
    arr (lpq (getl s l)) = head :: rest /\ f = Z.to_nat (eobj head) /\
    fstate_ (getf s f) = FPending /\
    fstate_ (getf (wake_up_first_p s l) f) = FResult 1 /\
    (forall e, In e rest -> live s e -> before s l head e) /\
    (forall g, In g (pq_objs (lpq (getl s l))) -> woken s g = false).
Proof.
  intros Hq K Hch.
  destruct (handover_is_heap_min s l f Hq Hch) as (head & rest & Ea & Ef & Ep & Er & Hmin & Hnw & _).
  exists head, rest. repeat split; auto.
  intros e He Le. apply keyed_before; auto; try (rewrite Ea; simpl; auto).
  unfold live, fdone. rewrite <- Ef, Ep. reflexivity.
Qed.

(* C12_plain_fifo: with only plain tasks queued (keys 0), the earliest arrival among the
   live waiters is woken *)
Theorem handover_plain_fifo s l f :
  PQInv (lpq (getl s l)) -> keyed s l ->
  (forall e, In e (arr (lpq (getl s l))) -> is_prio_task s (entry_task (getl s l) e) = false) ->
  fstate_ (getf (wake_up_first_p s l) f) <> fstate_ (getf s f) ->
  exists head rest,
    arr (lpq (getl s l)) = head :: rest /\ f = Z.to_nat (eobj head) /\
    (forall e, In e rest -> live s e -> (eseq head < eseq e)%Z).
Proof.
  intros Hq K Hpl Hch.
  destruct (handover_by_eprio s l f Hq K Hch) as (head & rest & Ea & Ef & _ & _ & Hb & _).
  exists head, rest. repeat split; auto. intros e He Le.
  assert (Hz : forall x, In x (arr (lpq (getl s l))) -> wprio s (entry_task (getl s l) x) = 0%Q).
  { intros x Hx. specialize (Hpl _ Hx). unfold is_prio_task in Hpl. unfold wprio.
    destruct (tprio (gett s _)); [discriminate|reflexivity]. }
  destruct (Hb _ He Le) as [H|[_ H]]; auto. unfold before in H. cbv zeta in H.
  rewrite !Hz in H by (rewrite Ea; simpl; auto). lra.
Qed.
