(* C08, liveness half, list layer: the position of a handle in a list queue and how the
   elementary queue edits (append, positional insert, removal) change it.  Pure lists. *)
From Coq Require Import Sorting.Permutation.
From Asynkit Require Import Base.Prelude.
Open Scope nat_scope.

(* number of entries strictly before the first occurrence of h (= length q when h is absent) *)
Fixpoint ahead_l (q : list nat) (h : nat) : nat :=
  match q with
  | [] => 0
  | x :: t => if Nat.eqb x h then 0 else S (ahead_l t h)
  end.

(* the entries strictly before h *)
Definition before (q : list nat) (h : nat) : list nat := firstn (ahead_l q h) q.

Lemma ahead_le q h : ahead_l q h <= length q.
Proof. induction q as [|x t IH]; simpl; [lia|]. destruct (Nat.eqb x h); lia. Qed.

Lemma ahead_in q h : In h q <-> ahead_l q h < length q.
Proof.
  induction q as [|x t IH]; simpl; [split; [tauto|lia]|].
  destruct (Nat.eqb x h) eqn:E.
  - apply Nat.eqb_eq in E. split; [lia|auto].
  - apply Nat.eqb_neq in E. split.
    + intros [A|A]; [congruence|]. apply IH in A. lia.
    + intros A. right. apply IH. lia.
Qed.

Lemma ahead_notin q h : ~ In h q -> ahead_l q h = length q.
Proof. intros A. pose proof (ahead_le q h). pose proof (ahead_in q h). destruct (Nat.eq_dec (ahead_l q h) (length q)); auto. exfalso. apply A, H0. lia. Qed.

Lemma ahead_nth q h : In h q -> nth (ahead_l q h) q 0 = h.
Proof.
  induction q as [|x t IH]; simpl; [tauto|]. destruct (Nat.eqb x h) eqn:E.
  - apply Nat.eqb_eq in E. auto.
  - apply Nat.eqb_neq in E. intros [A|A]; [congruence|auto].
Qed.

Lemma ahead_nth_first q h i : i < ahead_l q h -> nth i q 0 <> h.
Proof.
  revert i; induction q as [|x t IH]; simpl; intros i; [lia|]. destruct (Nat.eqb x h) eqn:E; [lia|].
  apply Nat.eqb_neq in E. destruct i as [|i]; auto. intros A. apply IH. lia.
Qed.

Lemma ahead_head h q : ahead_l (h :: q) h = 0.
Proof. simpl. now rewrite Nat.eqb_refl. Qed.

Lemma ahead_zero q h : In h q -> ahead_l q h = 0 -> exists rest, q = h :: rest.
Proof.
  destruct q as [|x t]; simpl; [tauto|]. destruct (Nat.eqb x h) eqn:E; [|lia].
  apply Nat.eqb_eq in E. subst. eauto.
Qed.

Lemma ahead_cons x q h : x <> h -> ahead_l (x :: q) h = S (ahead_l q h).
Proof. intros A. simpl. apply Nat.eqb_neq in A. now rewrite A. Qed.

(* appending at the tail does not move a queued handle *)
Lemma ahead_app q a h : In h q -> ahead_l (q ++ a) h = ahead_l q h.
Proof.
  induction q as [|x t IH]; simpl; [tauto|]. destruct (Nat.eqb x h) eqn:E; auto.
  apply Nat.eqb_neq in E. intros [A|A]; [congruence|]. now rewrite IH.
Qed.

Lemma before_notin q h : ~ In h (before q h).
Proof.
  unfold before. induction q as [|x t IH]; simpl; [tauto|]. destruct (Nat.eqb x h) eqn:E; simpl; [tauto|].
  apply Nat.eqb_neq in E. intros [A|A]; auto.
Qed.

Lemma before_split q h : In h q -> q = before q h ++ h :: skipn (S (ahead_l q h)) q.
Proof.
  unfold before. induction q as [|x t IH]; simpl; [tauto|]. destruct (Nat.eqb x h) eqn:E.
  - apply Nat.eqb_eq in E. subst. reflexivity.
  - apply Nat.eqb_neq in E. intros [A|A]; [congruence|]. simpl. f_equal. now apply IH.
Qed.

Lemma before_length q h : length (before q h) = ahead_l q h.
Proof. unfold before. rewrite firstn_length. pose proof (ahead_le q h). lia. Qed.

(* ---------------------------------------------------------------- positional insert *)
Lemma insert_nth_in {A} (l : list A) p x y : In y (insert_nth l p x) <-> y = x \/ In y l.
Proof.
  revert l; induction p as [|p IH]; intros [|a t]; simpl.
  - intuition auto.
  - intuition auto.
  - intuition auto.
  - rewrite IH. intuition auto.
Qed.

(* an entry inserted at position p (clamped to the length) moves h back by one exactly when
   p <= h's index *)
Lemma ahead_insert q p x h :
  In h q -> x <> h ->
  ahead_l (insert_nth q p x) h = ahead_l q h + (if p <=? ahead_l q h then 1 else 0).
Proof.
  revert q; induction p as [|p IH]; intros q Hin Hx.
  - destruct q; simpl; apply Nat.eqb_neq in Hx; rewrite Hx; simpl; lia.
  - destruct q as [|a t]; [destruct Hin|]. simpl. destruct (Nat.eqb a h) eqn:E; [simpl; lia|].
    apply Nat.eqb_neq in E. destruct Hin as [A|A]; [congruence|]. rewrite IH by auto.
    change (S p <=? S (ahead_l t h)) with (p <=? ahead_l t h). lia.
Qed.

(* the inserted entry itself sits after exactly min p len entries *)
Lemma ahead_insert_self q p x : ~ In x q -> ahead_l (insert_nth q p x) x = Nat.min p (length q).
Proof.
  revert q; induction p as [|p IH]; intros q Hn.
  - destruct q; simpl; now rewrite Nat.eqb_refl.
  - destruct q as [|a t]; simpl; [now rewrite Nat.eqb_refl|].
    destruct (Nat.eqb a x) eqn:E; [apply Nat.eqb_eq in E; subst; simpl in Hn; tauto|].
    rewrite IH; [reflexivity|]. simpl in Hn. tauto.
Qed.

(* ---------------------------------------------------------------- removal *)
Lemma remove_nth_in {A} (l : list A) i y : In y (remove_nth l i) -> In y l.
Proof.
  revert i; induction l as [|a t IH]; intros [|i]; simpl; auto. intros [A0|A0]; eauto.
Qed.

(* removing the entry at index i, which is not (the first occurrence of) h: h stays queued and
   moves forward by one exactly when i < h's index *)
Lemma ahead_remove q i h :
  In h q -> i <> ahead_l q h ->
  In h (remove_nth q i) /\
  ahead_l (remove_nth q i) h = ahead_l q h - (if i <? ahead_l q h then 1 else 0).
Proof.
  revert i; induction q as [|a t IH]; intros i Hin Hi; [destruct Hin|].
  simpl in *. destruct (Nat.eqb a h) eqn:E.
  - apply Nat.eqb_eq in E. subst. destruct i as [|i]; [lia|]. simpl. rewrite Nat.eqb_refl. split; auto.
  - pose proof E as E'. apply Nat.eqb_neq in E. destruct Hin as [A|A]; [congruence|]. destruct i as [|i].
    + split; auto. simpl. lia.
    + simpl. rewrite E'. destruct (IH i A) as [B C]; [lia|]. split; auto. rewrite C.
      change (S i <? S (ahead_l t h)) with (i <? ahead_l t h).
      destruct (i <? ahead_l t h) eqn:F; [apply Nat.ltb_lt in F; lia|lia].
Qed.

(* removing h itself (its only occurrence) *)
Lemma remove_self q h : NoDup q -> In h q -> ~ In h (remove_nth q (ahead_l q h)).
Proof.
  induction q as [|a t IH]; simpl; [tauto|]. intros ND Hin. inversion ND as [|? ? N1 N2]; subst.
  destruct (Nat.eqb a h) eqn:E.
  - apply Nat.eqb_eq in E. subst. exact N1.
  - apply Nat.eqb_neq in E. destruct Hin as [A|A]; [congruence|]. simpl. intros [B|B]; [congruence|].
    now apply IH.
Qed.

(* ---------------------------------------------------------------- the exact balance of one step *)
(* q, q' duplicate-free, h in both.  [newfront]: entries in front of h in q' that were not in
   front of h in q (inserted or moved there); [gonefront]: entries in front of h in q that no
   longer are (removed, or moved behind h). *)
Definition mem (x : nat) (l : list nat) : bool := existsb (Nat.eqb x) l.
Definition newfront (q q' : list nat) (h : nat) : nat :=
  length (filter (fun x => negb (mem x (before q h))) (before q' h)).
Definition gonefront (q q' : list nat) (h : nat) : nat :=
  length (filter (fun x => negb (mem x (before q' h))) (before q h)).

Lemma mem_in x l : mem x l = true <-> In x l.
Proof.
  unfold mem. rewrite existsb_exists. split.
  - intros (y & A & B). apply Nat.eqb_eq in B. now subst.
  - intros A. exists x. split; auto. apply Nat.eqb_refl.
Qed.

Lemma filter_split_length {A} (f : A -> bool) l :
  length l = length (filter f l) + length (filter (fun x => negb (f x)) l).
Proof. induction l as [|a t IH]; simpl; auto. destruct (f a); simpl; lia. Qed.

Lemma firstn_in {A} (x : A) l : forall n, In x (firstn n l) -> In x l.
Proof.
  induction l as [|b t IH]; intros [|n]; simpl; try tauto. intros [A0|A0]; eauto.
Qed.

Lemma NoDup_firstn {A} n (l : list A) : NoDup l -> NoDup (firstn n l).
Proof.
  revert n; induction l as [|a t IH]; intros [|n] ND; simpl; try constructor.
  - inversion ND; subst. intros A0. apply H1. eapply firstn_in; eauto.
  - inversion ND; subst. auto.
Qed.

Lemma common_length (a b : list nat) : NoDup a -> NoDup b ->
  length (filter (fun x => mem x b) a) = length (filter (fun x => mem x a) b).
Proof.
  intros Na Nb. apply Permutation_length. apply NoDup_Permutation.
  - now apply NoDup_filter.
  - now apply NoDup_filter.
  - intros x. rewrite !filter_In, !mem_in. tauto.
Qed.

Theorem ahead_balance q q' h :
  NoDup q -> NoDup q' ->
  ahead_l q' h + gonefront q q' h = ahead_l q h + newfront q q' h.
Proof.
  intros N N'. unfold newfront, gonefront.
  pose proof (NoDup_firstn (ahead_l q h) q N) as Nb. pose proof (NoDup_firstn (ahead_l q' h) q' N') as Nb'.
  fold (before q h) in Nb. fold (before q' h) in Nb'.
  pose proof (filter_split_length (fun x => mem x (before q h)) (before q' h)) as A.
  pose proof (filter_split_length (fun x => mem x (before q' h)) (before q h)) as B.
  pose proof (common_length _ _ Nb Nb') as C. rewrite !before_length in *. lia.
Qed.
