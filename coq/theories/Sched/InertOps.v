(* Finished tasks are inert: the invariant XI (InertBase.v) beside InvC through every model
   function below lib_call, then lib_call (all libops), frame_resume (all frames), resume_stack. *)
From Coq Require Import QArith Sorting.Permutation.
From RecordUpdate Require Import RecordUpdate.
From Asynkit Require Import Base.Prelude Queue.ListFacts Queue.PQ Queue.Order Queue.PQProofs Queue.PosPQ Queue.Exec
     Queue.HeapqProofs Sched.Model Sched.PartTables Sched.PartitionProofs Sched.PartitionSteps
     Sched.PartitionRun Sched.ThrowProofs Sched.QFacts Sched.InertBase.
Import RecordSetNotations.
Open Scope nat_scope.

(* ------------------------------------------------------------ waiter heaps *)
Lemma pq_resched_in q key np o q' :
  PQInv q -> pq_reschedule HQ q key np = Some (o, q') ->
  PQInv q' /\ forall f, In f (pq_objs q') -> In f (pq_objs q).
Proof.
  intros Hi E.
  destruct (resched_inv HQ HQ_spec _ _ _ _ _ Hi E) as (Hi' & _ & e & r & Hin & Ho & Hpe & Hq).
  split; auto. destruct Hq as [->|[Hpq _]]; auto.
  intros f Hf. rewrite !pq_objs_eq in *.
  eapply Permutation_in; [apply Permutation_sym, objs_of_perm, Hpe|].
  eapply Permutation_in in Hf; [|apply objs_of_perm, Hpq]. simpl in *. rewrite Ho. exact Hf.
Qed.

Lemma in_qf_l_pq lk f : In f (pq_objs (lpq lk)) -> In f (qf_l lk).
Proof. intros; apply in_or_app; auto. Qed.
Lemma in_qf_l_dq lk f : In f (ldq lk) -> In f (qf_l lk).
Proof. intros; apply in_or_app; auto. Qed.
Lemma in_qf_c_pq cd f : In f (pq_objs (cpq cd)) -> In f (qf_c cd).
Proof. intros; apply in_or_app; auto. Qed.
Lemma in_qf_c_dq cd f : In f (cdq cd) -> In f (qf_c cd).
Proof. intros; apply in_or_app; auto. Qed.

Section Ops0.
Variable qok : rq -> Prop.
Hypothesis QS : QSpec qok.
Notation WF := (WF qok).
Notation InvC := (InvC qok).
Notation K := (K qok).
Notation KX := (KX qok).

(* completing a future that is not a task's *)
Lemma KX_fut_finish_n c s0 s f x s' ok :
  x <> FPending -> fut_finish s f x = (s', ok) -> (XI c s -> not_task_fut s f) ->
  KX c s0 s -> KX c s0 s'.
Proof.
  intros Hx E N HKX. destruct (Nat.lt_ge_cases f (length (futs s))) as [Hf|Hf].
  - eapply InertBase.KX_fut_finish; eauto.
  - destruct HKX as [HK X]. split; [eapply K_fut_finish; eauto|].
    destruct (fstate_ (getf s f)) eqn:Es;
      try (unfold fut_finish in E; rewrite Es in E; inversion E; subst; auto; fail).
    unfold fut_finish in E. rewrite Es in E. inversion E; subst; clear E.
    unfold schedule_callbacks.
    assert (Ef : forall u y, length (futs u) <= f -> futs (setf u f y) = futs u).
    { intros u y Hu. unfold setf; cbn. apply set_nth_oob; auto. }
    set (s1 := setf s f (getf s f <| fstate_ := x |>)).
    assert (Eg : getf s1 f = dfut).
    { unfold s1. apply getf_oob. rewrite length_futs_setf; auto. }
    rewrite Eg. simpl.
    eapply XI_same; [..|exact X]; try reflexivity.
    rewrite Ef; [unfold s1; apply Ef; auto|]. unfold s1. rewrite Ef; auto.
Qed.

(* ... in particular a plain future (allocated or not) *)
Lemma plain_not_task c s f : XI c s -> fowner (getf s f) = None -> not_task_fut s f.
Proof. intros X N t Ht E. destruct (x_ow X t Ht) as [_ O]. rewrite E in O. congruence. Qed.

Lemma KX_fut_finish' c s0 s f x s' ok :
  x <> FPending -> fut_finish s f x = (s', ok) -> (XI c s -> fowner (getf s f) = None) ->
  KX c s0 s -> KX c s0 s'.
Proof.
  intros Hx E N. eapply KX_fut_finish_n; eauto. intros X. eapply plain_not_task; eauto.
Qed.

Lemma KX_fut_finish_fst' c s0 s f x :
  x <> FPending -> (XI c s -> fowner (getf s f) = None) -> KX c s0 s -> KX c s0 (fst (fut_finish s f x)).
Proof.
  intros Hx N H. destruct (fut_finish s f x) as [s' ok] eqn:E. simpl. eapply KX_fut_finish'; eauto.
Qed.

End Ops0.

Ltac xs :=
  first
    [ let f := fresh "f" in let H := fresh "H" in intros _ f H; left; exact H
    | let X := fresh "X" in intros X; apply (x_pl X)
    | let X := fresh "X" in intros X; apply (x_pc X)
    | intros _; assumption
    | intros _; reflexivity ].

Ltac xprim := fail.
Ltac xstep :=
  first
    [ assumption
    | apply KX_setl; [try xs|try xs|]
    | apply KX_setc; [try xs|try xs|]
    | apply KX_sete; [try xs|]
    | apply KX_addlog | apply KX_adderr
    | apply KX_new_future
    | apply KX_fut_finish_fst'; [eassumption|discriminate|try xs|]
    | eapply KX_fut_finish'; [eassumption| |eassumption|try xs|]; [discriminate|]
    | apply KX_sett'; [reflexivity|reflexivity|reflexivity|]
    | apply KX_setf; [reflexivity|reflexivity|reflexivity|]
    | apply KX_call_soon_nt; [eassumption|reflexivity|intros ? ?; discriminate|]
    | xprim
    | match goal with
      | |- KX _ _ _ (if ?b then _ else _) => destruct b eqn:?
      | |- KX _ _ _ (match ?x with _ => _ end) =>
          lazymatch type of x with
          | prod _ _ => let a := fresh "s" in let b := fresh "r" in destruct x as [a b] eqn:?
          | _ => destruct x eqn:?
          end
      end ].
Ltac xgo := repeat xstep.
Ltac xop E := repeat case_in E; inversion E; subst; clear E; xgo.



Section Ops.
Variable qok : rq -> Prop.
Hypothesis QS : QSpec qok.
Notation WF := (WF qok).
Notation InvC := (InvC qok).
Notation K := (K qok).
Notation KX := (KX qok).

Lemma KX_inv c s0 s : KX c s0 s -> InvC c s. Proof. intros H. apply H. Qed.
Lemma KX_wf c s0 s : KX c s0 s -> WF s. Proof. intros H. apply H. Qed.
Lemma KX_x c s0 s : KX c s0 s -> XI c s. Proof. intros H. apply H. Qed.
Lemma KX_k c s0 s : KX c s0 s -> K c s0 s. Proof. intros H. apply H. Qed.

Lemma ql_owner c s l f : XI c s -> In f (qf_l (getl s l)) -> fowner (getf s f) = None.
Proof. intros X H. apply (x_ql X l f H). Qed.
Lemma qc_owner c s k f : XI c s -> In f (qf_c (getc s k)) -> fowner (getf s f) = None.
Proof. intros X H. apply (x_qc X k f H). Qed.

(* ------------------------------------------------------------ cancellation *)
Lemma KX_task_cancel c s0 : forall fuel s t s' ok,
  task_cancel fuel s t = (s', ok) -> KX c s0 s -> KX c s0 s'.
Proof.
  induction fuel as [|fuel IH]; intros s t s' ok E HK; cbn [task_cancel] in E.
  - repeat case_in E; inversion E; subst; clear E; xgo.
  - repeat case_in E; inversion E; subst; clear E; xgo.
    + eapply IH; eauto.
    + eapply IH; eauto.
Qed.

Lemma KX_cancel_task c s0 s t s' ok : cancel_task s t = (s', ok) -> KX c s0 s -> KX c s0 s'.
Proof. apply KX_task_cancel. Qed.

Lemma KX_cancel_awaitable c s0 s f s' ok :
  cancel_awaitable s f = (s', ok) -> KX c s0 s -> KX c s0 s'.
Proof.
  unfold cancel_awaitable. intros E HK. case_in E.
  - eapply KX_cancel_task; eauto.
  - eapply KX_fut_finish'; [exact QS| |exact E|intros _; assumption|exact HK]. discriminate.
Qed.

(* ------------------------------------------------------------ ready-queue moves *)
Lemma KX_task_reinsert c s0 s t p s' r :
  task_reinsert s t p = (s', r) -> KX c s0 s -> KX c s0 s'.
Proof.
  unfold task_reinsert. intros E HK. destruct (rq_find (ready s) (task_key s t) true) as [[h r']|] eqn:F;
    inversion E; subst; clear E; auto.
  destruct (q_find QS _ _ _ _ (i_qok (KX_wf _ _ _ HK)) F) as (Q1 & _ & P1).
  destruct (q_insert QS r' p h Q1) as (Q2 & P2).
  apply KX_ready_perm; auto. eapply perm_trans; [exact P2|]. symmetry. exact P1.
Qed.

Lemma KX_call_pos_nt c s0 s p c0 :
  task_of_cb c0 = None -> (forall f v, c0 <> HSetResult f v) -> KX c s0 s -> KX c s0 (call_pos s p c0).
Proof.
  intros Hn Hs HK. unfold call_pos. rewrite call_soon_eq.
  pose proof (KX_call_soon_nt qok QS c s0 s c0 Hn Hs HK) as HK1.
  destruct (rq_remove (ready (call_soon_ s c0)) (length (handles s))) as [r|] eqn:R; auto.
  destruct (q_remove QS _ _ _ (i_qok (KX_wf _ _ _ HK1)) R) as (Q1 & P1).
  destruct (q_insert QS r p (length (handles s)) Q1) as (Q2 & P2).
  apply KX_ready_perm; auto. eapply perm_trans; [exact P2|]. symmetry. exact P1.
Qed.

Lemma KX_task_reschedule c s0 s t : KX c s0 s -> KX c s0 (task_reschedule s t).
Proof.
  intros HK. unfold task_reschedule.
  destruct (q_resched QS (ready s) (task_key s t) (effective_priority s t)
              (i_qok (KX_wf _ _ _ HK))) as (Q1 & P1).
  apply KX_ready_perm; auto.
Qed.

Lemma KX_propagate_task c s0 : forall fuel s t, KX c s0 s -> KX c s0 (propagate_task fuel s t).
Proof.
  induction fuel as [|fuel IH]; intros s t HK; cbn [propagate_task].
  - repeat case_goal; auto using KX_task_reschedule.
  - destruct (negb (is_prio_task s t)); auto.
    set (s' := if task_is_runnable s t then task_reschedule s t else s).
    assert (HK' : KX c s0 s') by (unfold s'; destruct (task_is_runnable s t); auto using KX_task_reschedule).
    clearbody s'. clear HK s. rename s' into s, HK' into HK.
    destruct (twaiting (gett s t)) as [l|]; auto.
    assert (HK1 : KX c s0 (match lowner (getl s l) with
                           | Some o => propagate_task fuel s o | None => s end)).
    { destruct (lowner (getl s l)); auto. }
    set (s1 := match lowner (getl s l) with Some o => propagate_task fuel s o | None => s end) in *.
    clearbody s1.
    destruct (find _ (lwt (getl s1 l))) as [[f t0]|]; auto.
    destruct (pq_reschedule HQ (lpq (getl s1 l)) _ _) as [[o q']|] eqn:R; auto.
    apply KX_setl; auto.
    + intros X g Hg. left. destruct (pq_resched_in _ _ _ _ _ (x_pl X l) R) as [_ S].
      apply in_app_or in Hg. apply in_or_app. destruct Hg as [Hg|Hg]; [left; apply S; exact Hg|right; exact Hg].
    + intros X. destruct (pq_resched_in _ _ _ _ _ (x_pl X l) R) as [S _]. exact S.
Qed.

Lemma KX_propagate_priority c s0 s t : KX c s0 s -> KX c s0 (propagate_priority s t).
Proof. apply KX_propagate_task. Qed.

Lemma KX_queue_iterated c s0 s : KX c s0 s -> KX c s0 (queue_iterated s).
Proof.
  intros HK. unfold queue_iterated. destruct (ready s) as [l|p] eqn:R; auto.
  assert (Q : qok (RPos p)) by (rewrite <- R; apply (i_qok (KX_wf _ _ _ HK))).
  destruct (q_iter QS p Q) as (Q1 & P1). apply KX_ready_perm; auto. rewrite R. exact P1.
Qed.

End Ops.

Ltac xeq L := first [eapply L; [eassumption|eassumption|] | eapply L; [eassumption|]].
Ltac xap L := first [apply L; [eassumption|] | apply L].
Ltac xprim ::=
  first
    [ xeq KX_new_future_eq | xeq KX_task_cancel | xeq KX_cancel_task | xeq KX_cancel_awaitable
    | xeq KX_task_reinsert
    | apply KX_call_pos_nt; [eassumption|reflexivity|intros ? ?; discriminate|]
    | xap KX_task_reschedule | xap KX_propagate_priority | xap KX_queue_iterated ].

Section Ops2.
Variable qok : rq -> Prop.
Hypothesis QS : QSpec qok.
Notation WF := (WF qok).
Notation InvC := (InvC qok).
Notation K := (K qok).
Notation KX := (KX qok).

(* ------------------------------------------------------------ locks *)
Lemma KX_take_lock c s0 s l t s' : take_lock s l t = inl s' -> KX c s0 s -> KX c s0 s'.
Proof. unfold take_lock. intros E HK. xop E. Qed.

Lemma KX_wake_up_first_p c s0 s l : KX c s0 s -> KX c s0 (wake_up_first_p s l).
Proof.
  intros HK. unfold wake_up_first_p.
  destruct (arr (lpq (getl s l))) as [|head tl] eqn:A; auto.
  destruct (existsb _ _); auto. destruct (fdone s _); auto.
  apply KX_fut_finish_fst'; auto; [discriminate|].
  intros X. apply (ql_owner c s l _ X). apply in_qf_l_pq. unfold pq_objs. rewrite A. left. reflexivity.
Qed.

Lemma KX_wake_up_first_a c s0 s l : KX c s0 s -> KX c s0 (wake_up_first_a s l).
Proof.
  intros HK. unfold wake_up_first_a.
  destruct (ldq (getl s l)) as [|f tl] eqn:A; auto. destruct (fdone s f); auto.
  apply KX_fut_finish_fst'; auto; [discriminate|].
  intros X. apply (ql_owner c s l _ X). apply in_qf_l_dq. rewrite A. left. reflexivity.
Qed.

Lemma KX_fut_result c s0 s f s' r : fut_result s f = (s', r) -> KX c s0 s -> KX c s0 s'.
Proof. unfold fut_result. intros E HK. xop E. Qed.

Lemma KX_await_fut c s0 s f outer s' r :
  await_fut s f outer = (s', r) -> KX c s0 s -> KX c s0 s'.
Proof.
  unfold await_fut. intros E HK. repeat case_in E; inversion E; subst; clear E; xgo.
  eapply KX_fut_result; eauto.
Qed.


Lemma ntf_new_future_eq s s1 f : new_future s None = (s1, f) -> ntf s1 f.
Proof. intros E. inversion E; subst. apply (ntf_new_future s). Qed.

Lemma qf_l_add lk p f0 w g :
  In g (qf_l (lk <| lpq := pq_add HQ (lpq lk) p (Z.of_nat f0) |> <| lwt := w |>)) ->
  g = f0 \/ In g (qf_l lk).
Proof.
  unfold qf_l. cbn. intros H. apply in_app_or in H. destruct H as [H|H].
  - apply pq_add_in in H. destruct H; auto. right. apply in_or_app. auto.
  - right. apply in_or_app. auto.
Qed.

Lemma qf_l_rem lk f p q' w g :
  PQInv (lpq lk) -> pq_remove HQ (lpq lk) (Z.of_nat f) = Some (p, q') ->
  In g (qf_l (lk <| lpq := q' |> <| lwt := w |>)) -> In g (qf_l lk).
Proof.
  unfold qf_l. cbn. intros Hi R H. apply in_app_or in H. apply in_or_app. destruct H as [H|H]; auto.
  left. eapply pq_remove_in; eauto.
Qed.

Lemma KX_acquire_p_start c s0 s t l s' r :
  acquire_p_start s t l = (s', r) -> KX c s0 s -> KX c s0 s'.
Proof.
  unfold acquire_p_start. intros E HK. repeat case_in E; inversion E; subst; clear E; xgo.
  all: try (eapply KX_take_lock; eauto; fail).
  all: try (let X := fresh "X" in intros X; apply PQInv_add; apply (x_pl X)).
  all: intros X g Hg; apply qf_l_add in Hg; destruct Hg as [->|Hg];
    [right; apply (ntf_new_future_eq _ _ _ Heqp)|left; exact Hg].
Qed.

Lemma KX_acquire_p_finish c s0 s t l f had inp s' r :
  acquire_p_finish s t l f had inp = (s', r) -> KX c s0 s -> KX c s0 s'.
Proof.
  unfold acquire_p_finish. intros E HK.
  assert (H1 : forall s1 r1,
     match inp with
     | RVal _ => match take_lock s l t with inl s' => (s', RVal 1) | inr e => (s, RExc e) end
     | RExc e => (s, RExc e) end = (s1, r1) -> KX c s0 s1).
  { intros s1 r1 E1. destruct inp; [destruct (take_lock s l t) eqn:T|]; inversion E1; subst; auto.
    eapply KX_take_lock; eauto. }
  destruct (match inp with RVal _ => _ | RExc e => _ end) as [s1 r1] eqn:E1.
  specialize (H1 _ _ eq_refl). inversion E; subst; clear E.
  repeat first [xstep | apply KX_wake_up_first_p].
  all: match goal with
       | R : pq_remove HQ _ _ = Some _ |- XI _ _ -> PQInv _ =>
           let X := fresh "X" in intros X; destruct (pq_remove_perm _ _ _ _ (x_pl X l) R) as [? _]; assumption
       | R : pq_remove HQ _ _ = Some _ |- _ =>
           let X := fresh "X" in let g := fresh "g" in let Hg := fresh "Hg" in
           intros X g Hg; left; eapply (qf_l_rem _ _ _ _ _ _ (x_pl X l) R); exact Hg
       end.
Qed.

Lemma KX_release_p c s0 s t l s' r : release_p s t l = (s', r) -> KX c s0 s -> KX c s0 s'.
Proof.
  unfold release_p. intros E HK. repeat case_in E; inversion E; subst; clear E;
    repeat first [xstep | apply KX_wake_up_first_p].
Qed.

Lemma KX_acquire_a_start c s0 s l s' r : acquire_a_start s l = (s', r) -> KX c s0 s -> KX c s0 s'.
Proof.
  unfold acquire_a_start. intros E HK. xop E.
  intros X g Hg. unfold qf_l in Hg. cbn in Hg. rewrite app_assoc in Hg. apply in_app_or in Hg.
  destruct Hg as [Hg|[<-|[]]]; [left; exact Hg|right; apply (ntf_new_future_eq _ _ _ Heqp)].
Qed.

Lemma KX_acquire_a_finish c s0 s l f inp s' r :
  acquire_a_finish s l f inp = (s', r) -> KX c s0 s -> KX c s0 s'.
Proof.
  unfold acquire_a_finish. intros E HK.
  assert (HK1 : KX c s0 (setl s l (getl s l <| ldq := filter (fun x => negb (Nat.eqb x f)) (ldq (getl s l)) |>))).
  { apply KX_setl; auto; [|intros X; apply (x_pl X)].
    intros X g Hg. left. unfold qf_l in *. cbn in Hg. apply in_app_or in Hg. apply in_or_app.
    destruct Hg as [Hg|Hg]; auto. apply filter_In in Hg. right. apply Hg. }
  repeat case_in E; inversion E; subst; clear E;
    repeat first [xstep | apply KX_wake_up_first_a].
Qed.

Lemma KX_release_a c s0 s l s' r : release_a s l = (s', r) -> KX c s0 s -> KX c s0 s'.
Proof.
  unfold release_a. intros E HK. repeat case_in E; inversion E; subst; clear E;
    repeat first [xstep | apply KX_wake_up_first_a].
Qed.

Lemma KX_acquire_start c s0 s t l s' r : acquire_start s t l = (s', r) -> KX c s0 s -> KX c s0 s'.
Proof.
  unfold acquire_start. intros E HK. destruct (lkind_ (getl s l)).
  - eapply KX_acquire_p_start; eauto.
  - eapply KX_acquire_a_start; eauto.
Qed.

Lemma KX_release c s0 s t l s' r : release s t l = (s', r) -> KX c s0 s -> KX c s0 s'.
Proof.
  unfold release. intros E HK. destruct (lkind_ (getl s l)).
  - eapply KX_release_p; eauto.
  - eapply KX_release_a; eauto.
Qed.

End Ops2.

Ltac xprim ::=
  first
    [ xeq KX_new_future_eq | xeq KX_task_cancel | xeq KX_cancel_task | xeq KX_cancel_awaitable
    | xeq KX_task_reinsert
    | apply KX_call_pos_nt; [eassumption|reflexivity|intros ? ?; discriminate|]
    | xap KX_task_reschedule | xap KX_propagate_priority | xap KX_queue_iterated
    | xeq KX_release | xeq KX_acquire_start | xeq KX_take_lock
    | xeq KX_fut_result | xeq KX_await_fut
    | xeq KX_acquire_p_finish | xeq KX_acquire_a_finish ].

Section Ops3.
Variable qok : rq -> Prop.
Hypothesis QS : QSpec qok.
Notation WF := (WF qok).
Notation InvC := (InvC qok).
Notation K := (K qok).
Notation KX := (KX qok).

(* ------------------------------------------------------------ conditions *)
Lemma fext_trans a b c : fext a b -> fext b c -> fext a c.
Proof.
  intros [A1 A2] [B1 B2]. split; [lia|]. intros g Hg. rewrite B2 by lia. apply A2; auto.
Qed.

Lemma fext_fut_finish s f x : fext s (fst (fut_finish s f x)).
Proof. apply (fut_finish_tabs s f x). Qed.

(* waking the futures of a list, each allocated and plain when the walk starts *)
Lemma KX_wake_fold c s0 (n : nat) (v : Z) (proj : st * nat * nat -> st) :
  forall (F : st * nat * nat -> nat -> st * nat * nat),
  (forall a f, (proj (F a f) = proj a) \/ (proj (F a f) = fst (fut_finish (proj a) f (FResult v)))) ->
  forall order a, KX c s0 (proj a) -> (forall f, In f order -> ntf (proj a) f) ->
  KX c s0 (proj (fold_left F order a)) /\ fext (proj a) (proj (fold_left F order a)).
Proof.
  intros F HF. induction order as [|f order IH]; intros a HK Ho; simpl.
  - split; [exact HK|apply fext_refl].
  - assert (St : KX c s0 (proj (F a f)) /\ fext (proj a) (proj (F a f))).
    { destruct (HF a f) as [E|E]; rewrite E.
      - split; [exact HK|apply fext_refl].
      - split; [|apply fext_fut_finish].
        apply KX_fut_finish_fst'; auto; [discriminate|]. intros _. apply (Ho f). left; reflexivity. }
    destruct St as [HK1 F1]. destruct (IH (F a f) HK1) as [HK2 F2].
    + intros g Hg. eapply ntf_fext; [exact F1|]. apply Ho. right; exact Hg.
    + split; [exact HK2|]. eapply fext_trans; eauto.
Qed.

Lemma sorted_objs_in (q : pq Q) f :
  In f (map (fun e => Z.to_nat (eobj e)) (arr (pq_sort HQ q))) -> In f (pq_objs q).
Proof.
  unfold pq_sort, pq_objs. cbn [arr]. intros H. apply in_map_iff in H. destruct H as (e & <- & He).
  apply (in_map (fun e0 : entry Q => Z.to_nat (eobj e0))). eapply Permutation_in; [|exact He].
  apply (Order.stable_sort_perm HQ).
Qed.

Lemma KX_notify_p c s0 s cd n : KX c s0 s -> KX c s0 (notify_p s cd n).
Proof.
  intros HK. unfold notify_p.
  set (order := map (fun e => Z.to_nat (eobj e)) (arr (pq_sort HQ (cpq (getc s cd))))).
  set (F := fun '(s, taken, cnt) f =>
              if n <=? cnt then (s, taken, cnt)
              else if fdone s f then (s, S taken, cnt)
                   else (fst (fut_finish s f (FResult 1)), S taken, S cnt)).
  assert (Ho : forall f, In f order -> ntf s f).
  { intros f Hf. apply (x_qc (KX_x _ _ _ _ HK) cd). apply in_qf_c_pq. apply sorted_objs_in. exact Hf. }
  destruct (KX_wake_fold c s0 n 1 (fun a => fst (fst a)) F) with (order := order) (a := (s, 0, 0))
    as [HK1 F1]; auto.
  { intros [[s1 tk] cn] f. simpl. destruct (n <=? cn); auto. destruct (fdone s1 f); auto. }
  destruct (fold_left F order (s, 0, 0)) as [[s1 tk] cn]. cbn [fst] in HK1, F1.
  pose proof (x_pc (KX_x _ _ _ _ HK) cd) as Pq.
  destruct (pq_take_inv (cpq (getc s cd)) (if n <=? 0 then 0 else tk) Pq) as [Pq' Pp].
  apply KX_setc; auto.
  intros X g Hg. unfold qf_c in *. cbn in Hg. apply in_app_or in Hg. destruct Hg as [Hg|Hg].
  - right. eapply ntf_fext; [exact F1|]. apply (x_qc (KX_x _ _ _ _ HK) cd). apply in_qf_c_pq.
    eapply Permutation_in; [exact Pp|exact Hg].
  - left. apply in_or_app. right. exact Hg.
Qed.

Lemma KX_notify_i c s0 s cd n : KX c s0 s -> KX c s0 (notify_i s cd n).
Proof.
  intros HK. unfold notify_i.
  set (F := fun '(s, cnt) f =>
              if n <=? cnt then (s, cnt)
              else if fdone s f then (s, cnt)
                   else (fst (fut_finish s f (FResult 0)), S cnt)).
  assert (Ho : forall f, In f (cdq (getc s cd)) -> ntf s f).
  { intros f Hf. apply (x_qc (KX_x _ _ _ _ HK) cd). apply in_qf_c_dq. exact Hf. }
  assert (X : forall order a, KX c s0 (fst a) -> (forall f, In f order -> ntf (fst a) f) ->
                              KX c s0 (fst (fold_left F order a))).
  { induction order as [|f order IH]; intros [s1 cn] H1 H2; simpl; auto.
    apply IH; simpl in *.
    - destruct (n <=? cn); simpl; auto. destruct (fdone s1 f); simpl; auto.
      apply KX_fut_finish_fst'; auto; [discriminate|]. intros _. apply (H2 f). left; reflexivity.
    - intros g Hg. destruct (n <=? cn); simpl; auto. destruct (fdone s1 f); simpl; auto.
      eapply ntf_fext; [apply fext_fut_finish|]. auto. }
  apply X; auto.
Qed.

Lemma KX_reacquire c s0 s t cd pc err body s' r :
  reacquire s t cd pc err body = (s', r) -> KX c s0 s -> KX c s0 s'.
Proof.
  unfold reacquire. intros E HK.
  destruct (acquire_start s t (clock (getc s cd))) as [s1 r1] eqn:A.
  pose proof (KX_acquire_start _ QS _ _ _ _ _ _ _ A HK).
  repeat case_in E; inversion E; subst; auto.
Qed.

Lemma KX_cond_p_after c s0 s cd r s' r' :
  cond_p_after s cd r = (s', r') -> KX c s0 s -> KX c s0 s'.
Proof.
  unfold cond_p_after. intros E HK. destruct r; inversion E; subst; auto. apply KX_notify_p; auto.
Qed.

(* ------------------------------------------------------------ task_throw *)
Lemma throw_lengths s t e s' v :
  task_throw s t e = (s', RVal v) ->
  length (tasks s') = length (tasks s) /\ length (futs s') = length (futs s) /\ tdone s t = false.
Proof.
  intros E. destruct (task_throw_cases s t e s' (RVal v) E) as [[_ (k & Hk)]|(_ & Hd & _ & H)]; [discriminate|].
  destruct H as [(f & _ & _ & ->)|(h & r' & _ & _ & _ & ->)]; unfold throw_go.
  - split; [|split; auto].
    + change (length (tasks (sett (remove_done_callback s f (CbWakeup t)) t
                (gett (remove_done_callback s f (CbWakeup t)) t <| twaiter := None |>))) = length (tasks s)).
      rewrite length_tasks_sett. reflexivity.
    + change (length (futs (remove_done_callback s f (CbWakeup t))) = length (futs s)).
      unfold remove_done_callback. apply length_futs_setf.
  - split; [|split; auto].
    change (length (tasks (sett (s <| ready := r' |>) t
              (gett (s <| ready := r' |>) t <| twaiter := None |>))) = length (tasks s)).
    rewrite length_tasks_sett. reflexivity.
Qed.

Lemma KX_task_throw c s0 s t e s' r : task_throw s t e = (s', r) -> KX c s0 s -> KX c s0 s'.
Proof.
  intros E [HK X]. split; [eapply K_task_throw; eauto|].
  destruct r as [v|x]; [|rewrite (throw_refused_unchanged s t e s' x E); exact X].
  pose proof (throw_effect qok QS c s t e s' v (proj1 HK) E) as TE. cbv zeta in TE.
  destruct TE as (_ & _ & _ & _ & _ & _ & Hh & _ & Hg & Hfs & Hcc & _ & Hgo & Hgt & Hho & L & C & Ev & _).
  destruct (throw_lengths s t e s' v E) as (Lt & Lf & Hd).
  eapply XI_obs_t; [exact X|exact Lt|..]; auto.
  - intros t' _ Hd'. apply Hho. intros ->. congruence.
  - intros g. unfold fdone. rewrite Hfs. reflexivity.
  - intros t' g _ Hd' _. apply Hcc. intros ->. congruence.
  - intros t' _. destruct (Nat.eq_dec t' t) as [->|Hn]; [rewrite Hgt; reflexivity|rewrite Hgo; auto].
  - split; [lia|]. intros g _. destruct (Hg g) as [->|[_ ->]]; reflexivity.
  - intros h f v' H. left. eapply qh_app; [exact Hh| |exact H]. intros y f' v'' [<-|[]]. discriminate.
Qed.

(* ------------------------------------------------------------ timeout blocks *)
Lemma KX_setb c s0 s b x : btimer x = btimer (getb s b) -> KX c s0 s -> KX c s0 (setb s b x).
Proof. intros Hx [HK X]. split; [apply K_setb; auto|eapply XI_same; [..|exact X]; reflexivity]. Qed.

Lemma KX_blocks_app c s0 s x :
  nontask s (btimer x) -> KX c s0 s -> KX c s0 (s <| blocks := blocks s ++ [x] |>).
Proof. intros Hx [HK X]. split; [apply K_blocks_app; auto|eapply XI_same; [..|exact X]; reflexivity]. Qed.

(* ------------------------------------------------------------ interrupts *)
Lemma KX_task_interrupt_start c s0 s t e s' r :
  task_interrupt_start s t e = (s', r) -> KX c s0 s -> KX c s0 s'.
Proof.
  unfold task_interrupt_start. intros E HK.
  destruct (task_throw s t e) as [s1 r1] eqn:T.
  pose proof (KX_task_throw _ _ _ _ _ _ _ T HK) as HK1.
  destruct r1; [|inversion E; subst; auto].
  destruct (task_reinsert s1 t 0) as [s2 r2] eqn:R.
  pose proof (KX_task_reinsert _ QS _ _ _ _ _ _ _ R HK1) as HK2.
  destruct r2; inversion E; subst; auto.
Qed.

Lemma KX_interruptor c s0 : forall fuel s b i s' r,
  interruptor fuel s b i = (s', r) -> KX c s0 s -> KX c s0 s'.
Proof.
  induction fuel as [|fuel IH]; intros s b i s' r E HK; cbn [interruptor] in E.
  - inversion E; subst. auto.
  - destruct (3 <=? i); [inversion E; subst; auto|].
    destruct (negb (bactive (getb s b))); [eapply IH; eauto|].
    destruct (task_interrupt_start s (btask (getb s b)) (ETimeoutInt b)) as [s1 r1] eqn:T.
    pose proof (KX_task_interrupt_start _ _ _ _ _ _ _ T HK) as HK1.
    destruct r1 as [[v|e]|y frs].
    + eapply IH; eauto.
    + destruct e; try (inversion E; subst; auto; fail).
      destruct (i =? 2); inversion E; subst; auto.
    + inversion E; subst. auto.
Qed.

End Ops3.
