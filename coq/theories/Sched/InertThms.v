(* Finished tasks are inert: the theorems on reachable states of the three loop models (list
   queue, priority queue, priority queue with boosting), the loop-error corollaries (C15), the
   static sufficient condition, and examples. *)
From Coq Require Import QArith Sorting.Permutation.
From RecordUpdate Require Import RecordUpdate.
From Asynkit Require Import Base.Prelude Queue.PQ Queue.PosPQ Queue.Exec
     Sched.Model Sched.PartTables Sched.PartitionProofs Sched.PartitionSteps Sched.PartitionRun
     Sched.PartitionFinal Sched.PrioQueueProofs Sched.PrioQueueBoost Sched.ThrowProofs
     Sched.ErrorsFrame Sched.InterruptNext
     Sched.InertBase Sched.InertOps Sched.InertLib Sched.InertRun Sched.InertStatic.
Import RecordSetNotations.
Open Scope nat_scope.

(* what XI says about finished tasks, in plain terms *)
Definition inert (s : st) : Prop :=
  forall t, t < length (tasks s) -> tdone s t = true ->
    hcnt s t = 0 /\ forall g, fdone s g = false -> ccnt s t g = 0.

Section Gen.
Variable qok : rq -> Prop.
Hypothesis QS : QSpec qok.

(* every prefix of a good run is a good run *)
Lemma actions_ok_app s a b : actions_ok s (a ++ b) -> actions_ok s a.
Proof.
  revert s. induction a as [|x a IH]; intros s H; simpl in *; auto. destruct H; split; auto.
Qed.
Lemma nec_app s a b : nec s (a ++ b) -> nec s a.
Proof.
  revert s. induction a as [|x a IH]; intros s H; simpl in *; auto. destruct H; split; auto.
Qed.

(* a loop step never records InvalidStateError; the only error it can add is the ValueError of a
   _task_reinsert callback whose task is not queued *)
Theorem inert_errors_run : forall acts s,
  Inv09 qok s -> XI None s -> actions_ok s acts -> nec s acts ->
  forall e, In e (errors (fold_left do_action acts s)) -> In e (errors s) \/ e = LEValue.
Proof.
  induction acts as [|a acts IH]; intros s J X Ha Hn e He; simpl in *; auto.
  destruct Ha as [Ha Hl]. destruct Hn as [Hn Hnl].
  pose proof (Inv09_action qok QS s a J Ha) as J1.
  pose proof (inert_action qok QS s a J X Ha Hn) as X1.
  destruct (IH _ J1 X1 Hl Hnl e He) as [H|H]; auto.
  assert (Dec : a = AStep \/ a <> AStep) by (destruct a; [left; reflexivity|right; discriminate..]).
  destruct Dec as [->|Hne].
  - cbn [do_action] in H. destruct J as [I Hc].
    destruct (run_one_no_invalid_state qok QS s (i_qok (i_wf I)) (NDH_of_inert qok None s I X)) as [E|[E _]];
      rewrite E in H; auto.
    apply in_app_or in H. destruct H as [H|[<-|[]]]; auto.
  - rewrite (action_errors s a Hne) in H. auto.
Qed.

Theorem inert_reach_gen acts s0 :
  Inv09 qok s0 -> XI None s0 -> errors s0 = [] -> actions_ok s0 acts -> nec s0 acts ->
  let s := fold_left do_action acts s0 in
  Inv09 qok s /\ XI None s /\ NDH s /\ inert s /\ ~ In LEInvalidState (errors s).
Proof.
  intros J X E0 Ha Hn s. destruct (inert_run qok QS acts s0 J X Ha Hn) as [J' X']. fold s in J', X'.
  split; [exact J'|]. split; [exact X'|]. split; [apply (NDH_of_inert qok None s (proj1 J') X')|].
  split; [exact (x_dead X')|].
  intros Hin. destruct (inert_errors_run acts s0 J X Ha Hn _ Hin) as [H|H]; [|discriminate].
  rewrite E0 in H. destruct H.
Qed.

(* throws and interrupts: from any state in which the invariants hold - in particular inside a
   step - they keep the invariants (hence NDH) and never touch the loop's errors *)
Theorem inert_throw c s t e s1 r :
  InvC qok c s -> XI c s -> task_throw s t e = (s1, r) ->
  InvC qok c s1 /\ XI c s1 /\ NDH s1 /\ errors s1 = errors s.
Proof.
  intros I X E. destruct (KX_task_throw qok QS c s s t e s1 r E (KX_refl qok c s I X)) as [[I1 _] X1].
  split; [exact I1|]. split; [exact X1|]. split; [apply (NDH_of_inert qok c s1 I1 X1)|].
  apply (throw_keeps_ndh qok QS c s t e s1 r I (NDH_of_inert qok c s I X) E).
Qed.

Theorem inert_interrupt c s t t' e s' r :
  InvC qok c s -> XI c s -> lib_call t (OTaskInterrupt t' e) s = (s', r) ->
  InvC qok c s' /\ XI c s' /\ NDH s' /\ errors s' = errors s.
Proof.
  intros I X E.
  destruct (lib_call_KX qok QS c t _ s s' r E Logic.I Logic.I I X) as [[I1 _] X1].
  split; [exact I1|]. split; [exact X1|]. split; [apply (NDH_of_inert qok c s' I1 X1)|].
  apply (interrupt_keeps_ndh qok QS c s t t' e s' r I (NDH_of_inert qok c s I X) E).
Qed.

End Gen.

(* ------------------------------------------------------------ the three loop models *)
Theorem inert_reach_list factor draws lks cds nev acts :
  let s0 := init_st false factor draws lks cds nev in
  actions_ok s0 acts -> nec s0 acts ->
  let s := fold_left do_action acts s0 in
  Inv09 qok_list s /\ XI None s /\ NDH s /\ inert s /\ ~ In LEInvalidState (errors s).
Proof.
  intros s0 Ha Hn. apply (inert_reach_gen qok_list QSpec_list); auto.
  - apply (Inv09_init qok_list). exact Logic.I.
  - apply XI_init.
Qed.

Theorem inert_reach_pos draws lks cds nev acts :
  let s0 := init_st true 0 draws lks cds nev in
  actions_ok s0 acts -> nec s0 acts ->
  let s := fold_left do_action acts s0 in
  Inv09 qok_pos s /\ XI None s /\ NDH s /\ inert s /\ ~ In LEInvalidState (errors s).
Proof.
  intros s0 Ha Hn. apply (inert_reach_gen qok_pos QSpec_pos); auto.
  - apply (Inv09_prio draws lks cds nev []). exact Logic.I.
  - apply XI_init.
Qed.

Theorem inert_reach_boost factor draws lks cds nev acts :
  let s0 := init_st true factor draws lks cds nev in
  actions_ok s0 acts -> nec s0 acts ->
  let s := fold_left do_action acts s0 in
  Inv09 qok_boost s /\ XI None s /\ NDH s /\ inert s /\ ~ In LEInvalidState (errors s).
Proof.
  intros s0 Ha Hn. apply (inert_reach_gen qok_boost QSpec_boost); auto.
  - apply (Inv09_prio_boost factor draws lks cds nev []). exact Logic.I.
  - apply XI_init.
Qed.

(* the hypotheses of the generic theorems hold in the initial state of each loop model *)
Theorem inert_init :
  (forall factor draws lks cds nev, let s0 := init_st false factor draws lks cds nev in
     Inv09 qok_list s0 /\ XI None s0 /\ errors s0 = []) /\
  (forall draws lks cds nev, let s0 := init_st true 0 draws lks cds nev in
     Inv09 qok_pos s0 /\ XI None s0 /\ errors s0 = []) /\
  (forall factor draws lks cds nev, let s0 := init_st true factor draws lks cds nev in
     Inv09 qok_boost s0 /\ XI None s0 /\ errors s0 = []).
Proof.
  split; [|split]; intros; split; try (split; [apply XI_init|reflexivity]).
  - apply (Inv09_init qok_list). exact Logic.I.
  - apply (Inv09_prio draws lks cds nev []). exact Logic.I.
  - apply (Inv09_prio_boost factor draws lks cds nev []). exact Logic.I.
Qed.

(* loop errors on reachable states, with no NDH hypothesis left *)
Theorem loop_errors_reach qok (QS : QSpec qok) s0 acts :
  Inv09 qok s0 -> XI None s0 -> errors s0 = [] -> actions_ok s0 acts -> nec s0 acts ->
  let s := fold_left do_action acts s0 in
  ~ In LEInvalidState (errors s) /\
  (errors (run_one s) = errors s \/
   (errors (run_one s) = errors s ++ [LEValue] /\
    exists h r t p, rq_popleft (ready s) = Some (h, r) /\ geth s h = mkH (HReinsert t p) false /\
                    rq_find r (task_key s t) true = None)) /\
  (forall t e s1 r, task_throw s t e = (s1, r) -> errors s1 = errors s /\ NDH s1) /\
  (forall t t' e s' r, lib_call t (OTaskInterrupt t' e) s = (s', r) -> errors s' = errors s /\ NDH s') /\
  (QNext qok -> forall t t' e s', lib_call t (OTaskInterrupt t' e) s = (s', LSusp YNone [InSleep0]) ->
                errors s' = errors s /\ errors (run_one s') = errors s).
Proof.
  intros J X E0 Ha Hn s.
  destruct (inert_reach_gen qok QS acts s0 J X E0 Ha Hn) as (J' & X' & N & _ & Hno). fold s in J', X', N, Hno.
  destruct J' as [I' Hc'].
  split; [exact Hno|]. split; [apply (run_one_no_invalid_state qok QS s (i_qok (i_wf I')) N)|].
  split; [|split].
  - intros t e s1 r E. destruct (inert_throw qok QS None s t e s1 r I' X' E) as (_ & _ & N1 & E1). auto.
  - intros t t' e s' r E. destruct (inert_interrupt qok QS None s t t' e s' r I' X' E) as (_ & _ & N1 & E1). auto.
  - intros QN t t' e s' E. apply (interrupt_delivery_no_error qok QS QN None s t t' e s' I' E).
Qed.

(* ------------------------------------------------------------ examples *)
(* task 0 (Python task) creates the plain future 1 and awaits it; task 1 completes that plain
   future with set_result - allowed by nec - and returns; task 0 wakes up and returns; both tasks
   are then finished (futures 0 and 2); a third task is spawned, cancelled from outside and runs *)
Definition ix_waiter : coro :=
  Call ONewFut (fun r => match r with
                         | RVal f => Call (OAwaitFut (Z.to_nat f)) (fun _ => Call (OLog 1) (fun _ => Ret 1))
                         | RExc e => Raise e end).
Definition ix_setter : coro := Call (OSetResult 1 7) (fun _ => Call (OLog 2) (fun _ => Ret 2)).
Definition ix_acts : list action :=
  [ASpawn SPy ix_waiter; AStep; ASpawn SPlain ix_setter; AStep; AStep;
   ASpawn SPlain (Call OSleep0 (fun _ => Ret 3)); ADo (OCancel 2); AStep; ADo (OCancelAw 0); AStep].
Definition ix_s0 : st := init_st false 0 [] [] [] 0.
Definition ix_state : st := fold_left do_action ix_acts ix_s0.

Lemma ix_actions_ok : actions_ok ix_s0 ix_acts.
Proof.
  simpl. repeat split; auto; intros; try exact Logic.I.
  all: try (destruct rep; simpl; auto; repeat split; auto; intros; exact Logic.I).
Qed.

Lemma ix_nec : nec ix_s0 ix_acts.
Proof. vm_compute. repeat split. Qed.

Example inert_example :
  actions_ok ix_s0 ix_acts /\ nec ix_s0 ix_acts /\
  Inv09 qok_list ix_state /\ NDH ix_state /\ inert ix_state /\
  tdone ix_state 0 = true /\ tdone ix_state 1 = true /\ tdone ix_state 2 = true /\
  fstate_ (getf ix_state 1) = FResult 7 /\ log ix_state = [(2, 2%Z); (1, 1%Z)] /\
  rq_items (ready ix_state) = [] /\ errors ix_state = [].
Proof.
  split; [exact ix_actions_ok|]. split; [exact ix_nec|].
  destruct (inert_reach_list 0 [] [] [] 0 ix_acts ix_actions_ok ix_nec) as (J & _ & N & D & _).
  split; [exact J|]. split; [exact N|]. split; [exact D|].
  vm_compute. repeat split; reflexivity.
Qed.

(* nec is what excludes the witness of notes/C09.md: completing a task's own future from outside *)
Example nec_excludes_witness :
  let acts := [ASpawn SPlain (Ret 0); ADo (OSetResult 0 1)] in
  actions_ok ix_s0 acts /\ ~ nec ix_s0 acts.
Proof.
  cbv zeta. split; [simpl; repeat split; auto|].
  intros H. vm_compute in H. destruct H as (_ & H & _). discriminate.
Qed.

(* the static condition on a run whose programs never call set_result/set_exception/Future.cancel *)
Example nec_static_example :
  let acts := [ASpawn SPy (Call ONewFut (fun _ => Call (OCancelAw 0) (fun _ => Ret 0))); AStep;
               ADo (OCancel 0); AStep] in
  Forall act_nf acts /\ nec ix_s0 acts.
Proof.
  cbv zeta.
  assert (H : Forall act_nf [ASpawn SPy (Call ONewFut (fun _ => Call (OCancelAw 0) (fun _ => Ret 0))); AStep;
                             ADo (OCancel 0); AStep]).
  { repeat constructor; intros; repeat constructor; intros; repeat constructor. }
  split; [exact H|]. apply nec_static_init. exact H.
Qed.
