(* Consequences of the invariant [WInv] (Sched/WaitInv.v, WaitProofs.v) in the vocabulary of the
   C11 / C12 / C14 developments: hypotheses of those theorems that hold in every reachable
   state. *)
From Coq Require Import QArith Lqa Sorting.Permutation.
From RecordUpdate Require Import RecordUpdate.
From Asynkit Require Import Base.Prelude Queue.PQ Queue.Order Queue.ListFacts Queue.PQProofs Queue.PosPQ
  Queue.Exec Sched.Model Sched.Corr Sched.Tables Sched.QFacts Sched.LockInv Sched.Footprint Sched.LockOps
  Sched.LockLib Sched.LockProofs Sched.LockStatic Sched.LockThms Sched.InheritEprio Sched.InheritHandover
  Sched.InheritKeys Sched.InheritFalls Sched.InheritExamples Sched.InheritThms Sched.CondView Sched.CondProofs Sched.CondNotify Sched.CondThms
  Sched.WaitInv Sched.WaitOps Sched.WaitLib Sched.WaitProofs.
Import RecordSetNotations.
Open Scope nat_scope.

(* ------------------------------------------------------------ W1 *)
Theorem WInv_lwt_ok ne s : WInv ne s -> lwt_ok s.
Proof. intros W l. apply (w_nodup W l). Qed.

Theorem reach_lwt_ok s : reachable s -> lwt_ok s.
Proof. intros H. eapply WInv_lwt_ok. now apply reachable_WInv. Qed.

(* the rows of a lock are exactly its queued futures, once each *)
Theorem reach_rows_perm s l :
  reachable s ->
  NoDup (map fst (lwt (getl s l))) /\
  Permutation (map fst (lwt (getl s l))) (pq_objs (lpq (getl s l))) /\
  (forall f t, In (f, t) (lwt (getl s l)) -> t < length (tasks s)).
Proof.
  intros Hr. pose proof (reachable_WInv s Hr) as W. pose proof (reachable_inv s Hr) as I.
  split; [apply (w_nodup W l)|]. split.
  - apply NoDup_Permutation; [apply (w_nodup W l)|apply (iB1 I l)|]. intros f. apply (w_objs W l f).
  - intros f t. apply (w_range W l f t).
Qed.

(* every queued entry has a suspended acquirer (the other half of I2 of C13) *)
Theorem reach_row_has_frame s l f u :
  reachable s -> In (f, u) (lwt (getl s l)) ->
  exists t had, In (InAcquireP l f had) (tframes s t) /\ had = is_prio_task s u /\
                (is_prio_task s t = true -> u = t).
Proof.
  intros Hr Hin. pose proof (reachable_WInv s Hr) as W.
  destruct (w_row W l f u Hin) as (t & had & Hh). pose proof Hh as Hh'. apply hasfr_nil in Hh.
  destruct (w_frame W t l f had Hh') as (u' & Hu' & Eh & Hp & _).
  pose proof (rows_unique _ _ _ _ (w_nodup W l) Hin Hu') as E. subst u'.
  exists t, had. auto.
Qed.

(* ------------------------------------------------------------ W2 *)
(* a PriorityTask recorded as waiter of lock l has _waiting_on = l and no other row *)
Theorem reach_row_waiting s l f t :
  reachable s -> is_prio_task s t = true -> In (f, t) (lwt (getl s l)) ->
  twaiting (gett s t) = Some l /\
  (forall l' f', In (f', t) (lwt (getl s l')) -> l' = l /\ f' = f).
Proof.
  intros Hr Hp Hin. pose proof (reachable_WInv s Hr) as W.
  destruct (w_wait W l f t Hin Hp) as [Hw _]. split; auto.
  intros l' f' Hin'. destruct (w_wait W l' f' t Hin' Hp) as [Hw' _].
  assert (l' = l) by congruence. subst l'. split; auto. eapply (w_one W); eauto.
Qed.

(* without eager starts: _waiting_on = l iff the task has a row in l, and then the task is
   suspended in PriorityLock.acquire of l with that future *)
Theorem reach_ne_waiting_iff s t l :
  reachable_ne s -> is_prio_task s t = true ->
  (twaiting (gett s t) = Some l <-> exists f, In (f, t) (lwt (getl s l))).
Proof.
  intros Hr Hp. pose proof (reachable_ne_WInv s Hr) as W. split.
  - intros Hw. apply (w_newait W eq_refl t l); auto.
  - intros (f & Hin). apply (w_wait W l f t Hin Hp).
Qed.

Theorem reach_ne_waiter_suspended s l f t :
  reachable_ne s -> In (f, t) (lwt (getl s l)) ->
  exists frs k, tcont_ (gett s t) = TSusp frs k /\ In (InAcquireP l f (is_prio_task s t)) frs /\
                In f (objs s l).
Proof.
  intros Hr Hin. pose proof (reachable_ne_WInv s Hr) as W.
  pose proof (reachable_inv s (reachable_ne_reachable s Hr)) as I.
  destruct (w_row W l f t Hin) as (t' & had & Hh). pose proof Hh as Hh'. apply hasfr_nil in Hh.
  destruct (w_frame W t' l f had Hh') as (u & Hu & Eh & _ & Hne). specialize (Hne eq_refl). subst u.
  pose proof (rows_unique _ _ _ _ (w_nodup W l) Hin Hu) as E. subst t'. subst had.
  pose proof (w_necont W eq_refl t) as Hc. unfold tframes in Hh.
  destruct (tcont_ (gett s t)) as [c|frs k|y frs k| |] eqn:Ek; simpl in Hh, Hc; try destruct Hh; try discriminate.
  exists frs, k. split; auto. split; auto. apply (iF2 I t l f (is_prio_task s t)).
  unfold tframes. rewrite Ek. exact Hh.
Qed.

(* blocked_on of C12 from reachability: only "not runnable" remains to be checked *)
Theorem reach_blocked_on s w l f :
  reachable s -> is_prio_task s w = true -> In (f, w) (lwt (getl s l)) ->
  task_is_runnable s w = false -> blocked_on s w l f.
Proof.
  intros Hr Hp Hin Hn. destruct (reach_row_waiting s l f w Hr Hp Hin) as [Hw Hu].
  unfold blocked_on. repeat split; auto. intros f' Hf'. now destruct (Hu l f' Hf').
Qed.

(* ------------------------------------------------------------ W3 *)
Theorem reach_frame_kinds s t :
  reachable s ->
  (forall l f had, In (InAcquireP l f had) (tframes s t) ->
     lkind_ (getl s l) = LPrio /\ l < length (locks s) /\ In f (objs s l) /\
     (is_prio_task s t = true -> had = true)) /\
  (forall l f, In (InAcquireA l f) (tframes s t) -> lkind_ (getl s l) = LPlain /\ l < length (locks s)).
Proof.
  intros Hr. pose proof (reachable_WInv s Hr) as W. pose proof (reachable_inv s Hr) as I. split.
  - intros l f had Hin. pose proof (iF2 I _ _ _ _ Hin) as Hf.
    split; [eapply objs_kind_prio; eauto|]. split; [eapply objs_inrange; eauto|]. split; auto.
    intros Hp. destruct (w_frame W t l f had (or_introl Hin)) as (u & _ & Eh & Hu & _).
    rewrite Eh, (Hu Hp). exact Hp.
  - intros l f Hin. pose proof (iF4 I _ _ _ Hin) as Hk. split; auto.
    destruct (Nat.lt_ge_cases l (length (locks s))); auto. rewrite getl_oob in Hk by auto. discriminate.
Qed.

Theorem reach_stack_wf s t c frs k :
  reachable s -> tcont_ (gett s t) = TSusp frs k ->
  wait_stack c (clock (getc s c)) frs -> stack_wf s t (clock (getc s c)) frs.
Proof.
  intros Hr Hk Hst. destruct (reach_frame_kinds s t Hr) as [HP HA].
  assert (Hfr : tframes s t = frs) by (unfold tframes; now rewrite Hk).
  destruct Hst as [pc f|pc f had err body Hb|pc f err body Hb]; cbn [stack_wf].
  - destruct pc; exact Logic.I.
  - destruct (HP (clock (getc s c)) f had) as (A & _ & _ & B); [rewrite Hfr; simpl; auto|]. auto.
  - apply (HA (clock (getc s c)) f). rewrite Hfr. simpl. auto.
Qed.

(* the lock of a task suspended inside wait() exists *)
Theorem reach_wait_lock_inrange s t c frs k :
  reachable s -> tcont_ (gett s t) = TSusp frs k ->
  wait_stack c (clock (getc s c)) frs -> clock (getc s c) < length (locks s).
Proof.
  intros Hr Hk Hst. destruct (reach_frame_kinds s t Hr) as [HP HA].
  pose proof (reachable_WInv s Hr) as W.
  assert (Hfr : tframes s t = frs) by (unfold tframes; now rewrite Hk).
  destruct Hst as [pc f|pc f had err body Hb|pc f err body Hb].
  - apply (w_cw W t (wait_frame pc c f) c).
    + left. rewrite Hfr. simpl. auto.
    + destruct pc; reflexivity.
  - apply (HP (clock (getc s c)) f had). rewrite Hfr. simpl. auto.
  - apply (HA (clock (getc s c)) f). rewrite Hfr. simpl. auto.
Qed.

(* without eager starts the frame of PriorityLock.acquire records exactly whether its task is
   a PriorityTask, and the task is registered as waiting on that lock *)
Theorem reach_ne_frame_had s t l f had :
  reachable_ne s -> In (InAcquireP l f had) (tframes s t) ->
  had = is_prio_task s t /\ In (f, t) (lwt (getl s l)) /\
  (is_prio_task s t = true -> twaiting (gett s t) = Some l).
Proof.
  intros Hr Hin. pose proof (reachable_ne_WInv s Hr) as W.
  destruct (w_frame W t l f had (or_introl Hin)) as (u & Hu & Eh & _ & Hne). specialize (Hne eq_refl).
  subst u. split; auto. split; auto. intros Hp. apply (w_wait W l f t Hu Hp).
Qed.

(* without eager starts a PriorityTask suspended at the `await fut` of wait() is not
   registered as waiting on a lock *)
Theorem reach_ne_not_waiting s t c l frs k :
  reachable_ne s -> tcont_ (gett s t) = TSusp frs k -> wait_stack c l frs ->
  at_wait_point frs = true -> not_waiting s t.
Proof.
  intros Hr Hk Hst Ha Hp. destruct (twaiting (gett s t)) as [l'|] eqn:Hw; auto. exfalso.
  apply (reach_ne_waiting_iff s t l' Hr Hp) in Hw as (f & Hin).
  destruct (reach_ne_waiter_suspended s l' f t Hr Hin) as (frs' & k' & Ek & Hf & _).
  rewrite Hk in Ek. inversion Ek; subst frs' k'.
  destruct Hst as [pc f0|pc f0 had err body Hb|pc f0 err body Hb].
  - destruct pc; simpl in Hf; intuition discriminate.
  - rewrite at_wait_retry in Ha. discriminate.
  - rewrite at_wait_retry in Ha. discriminate.
Qed.

(* ------------------------------------------------------------ W4 *)
Theorem reach_cond_queues s c :
  reachable s ->
  qwf (cpq (getc s c)) /\ NoDup (cdq (getc s c)) /\
  (forall f, In f (pq_objs (cpq (getc s c))) \/ In f (cdq (getc s c)) ->
     f < length (futs s) /\ fowner (getf s f) = None /\ ~ lockfut s f /\
     clock (getc s c) < length (locks s)).
Proof.
  intros Hr. pose proof (reachable_WInv s Hr) as W. pose proof (reachable_inv s Hr) as I.
  split; [split; [apply (iB2 I)|apply (w_cq W)]|]. split; [apply (w_cd W)|].
  intros f H. destruct (w_cf W c f H) as (A & B & C). repeat split; auto.
  intros Hl. apply (iD2 I f Hl). destruct H; [eapply foreign_cpq|eapply foreign_cdq]; eauto.
Qed.

(* ------------------------------------------------------------ packaged statements (Props) *)
Theorem graph_consistent_full :
  forall s, reachable s ->
    (forall l t, l < length (locks s) -> In l (tholding (gett s t)) -> lowner (getl s l) = Some t) /\
    (forall l t, lowner (getl s l) = Some t -> is_prio_task s t = true -> In l (tholding (gett s t))) /\
    (forall l, NoDup (map fst (lwt (getl s l))) /\
               Permutation (map fst (lwt (getl s l))) (pq_objs (lpq (getl s l))) /\
               (forall f t, In (f, t) (lwt (getl s l)) -> t < length (tasks s))) /\
    (forall l f t, In (f, t) (lwt (getl s l)) -> is_prio_task s t = true ->
       twaiting (gett s t) = Some l /\
       (forall l' f', In (f', t) (lwt (getl s l')) -> l' = l /\ f' = f)) /\
    (forall l f u, In (f, u) (lwt (getl s l)) ->
       exists t had, In (InAcquireP l f had) (tframes s t) /\ had = is_prio_task s u /\
                     (is_prio_task s t = true -> u = t)) /\
    (reachable_ne s ->
       (forall t l, is_prio_task s t = true ->
          (twaiting (gett s t) = Some l <-> exists f, In (f, t) (lwt (getl s l)))) /\
       (forall l f t, In (f, t) (lwt (getl s l)) ->
          exists frs k, tcont_ (gett s t) = TSusp frs k /\
                        In (InAcquireP l f (is_prio_task s t)) frs /\
                        In f (pq_objs (lpq (getl s l))))).
Proof.
  intros s Hr. pose proof (reachable_inv s Hr) as I.
  split; [apply (iA2 I)|]. split; [apply (iA3 I)|]. split; [intros l; now apply reach_rows_perm|].
  split; [intros l f t Hin Hp; now apply reach_row_waiting|].
  split; [intros l f u; now apply reach_row_has_frame|].
  intros Hn. split; [intros t l; now apply reach_ne_waiting_iff|].
  intros l f t; now apply reach_ne_waiter_suspended.
Qed.

Theorem propagate_reach_thm :
  forall s t, reachable s ->
    let s' := propagate_priority s t in
    (forall u, (effective_priority s' u == effective_priority s u)%Q) /\
    (forall l, lwt (getl s' l) = lwt (getl s l) /\
               Permutation (pq_objs (lpq (getl s' l))) (pq_objs (lpq (getl s l))) /\
               forall e', In e' (arr (lpq (getl s' l))) ->
                 exists e, In e (arr (lpq (getl s l))) /\ eseq e' = eseq e /\ eobj e' = eobj e /\
                   ((epri e' == epri e)%Q \/
                    (epri e' == wprio s' (entry_task (getl s' l) e'))%Q)) /\
    (forall l, keyed s l -> keyed s' l) /\
    (forall n w l f, reaches s n t w -> n < efuel s ->
       is_prio_task s w = true -> In (f, w) (lwt (getl s l)) -> task_is_runnable s w = false ->
       forall e, In e (arr (lpq (getl s' l))) -> Z.to_nat (eobj e) = f ->
                 (epri e == effective_priority s' w)%Q).
Proof.
  intros s t Hr. pose proof (reachable_inv s Hr) as I. pose proof (reach_lwt_ok s Hr) as L.
  destruct (C12_propagate_thm s t I L) as (A & B & C & D).
  split; [exact A|]. split; [exact B|]. split; [exact C|].
  intros n w l f Hre Hn Hp Hin Hnr. apply (D n w l f Hre Hn). now apply reach_blocked_on.
Qed.

Theorem notify_order_reach :
  forall (s : st) (c n : nat), reachable s ->
    let s' := notify_p s c n in
    let order := pq_objs (pq_sort HQ (cpq (getc s c))) in
    let W := firstn n (filter (fun f => negb (fdone s f)) order) in
    sorted (plt HQ) (arr (pq_sort HQ (cpq (getc s c)))) /\
    Permutation order (pq_objs (cpq (getc s c))) /\
    (forall f, In f W -> fstate_ (getf s' f) = FResult 1) /\
    (forall f, ~ In f W -> getf s' f = getf s f) /\
    qwf (cpq (getc s' c)) /\
    Permutation (arr (cpq (getc s' c))) (arr (cpq (getc s c))) /\
    pq_sort HQ (cpq (getc s' c)) = pq_sort HQ (cpq (getc s c)) /\
    (forall c', c' <> c -> getc s' c' = getc s c') /\
    locks s' = locks s /\ tasks s' = tasks s.
Proof.
  intros s c n Hr. destruct (reach_cond_queues s c Hr) as (Q & _ & F).
  apply notify_order_full; auto. intros f Hf. apply (F f (or_introl Hf)).
Qed.

Theorem notify_order_i_reach :
  forall (s : st) (c n : nat), reachable s ->
    let s' := notify_i s c n in
    let W := firstn n (filter (fun f => negb (fdone s f)) (cdq (getc s c))) in
    (forall f, In f W -> fstate_ (getf s' f) = FResult 0) /\
    (forall f, ~ In f W -> getf s' f = getf s f) /\
    conds s' = conds s /\ locks s' = locks s /\ tasks s' = tasks s.
Proof.
  intros s c n Hr. destruct (reach_cond_queues s c Hr) as (_ & D & F).
  apply notify_order_i_full; auto. intros f Hf. apply (F f (or_intror Hf)).
Qed.

(* the preconditions of the C14 theorems for a task suspended inside wait(), in a state
   reachable without eager starts *)
Theorem wait_pre_reach s t c frs k exc :
  reachable_ne s -> tcont_ (gett s t) = TSusp frs k ->
  let l := clock (getc s c) in
  wait_stack c l frs ->
  match exc with
  | None => exists f rest v, frs = InFut f :: rest /\ fstate_ (getf s f) = FResult v
  | Some e => is_cancel e = true \/ at_wait_point frs = true
  end ->
  wait_pre (step_entry s t) t c frs (match exc with None => RVal 0 | Some e => RExc e end).
Proof.
  intros Hn Hk l Hst Hin. pose proof (reachable_ne_reachable s Hn) as Hr.
  apply (wait_pre_of_inv s t c frs k exc); auto.
  - now apply reachable_inv.
  - eapply reach_stack_wf; eauto.
  - eapply reach_wait_lock_inrange; eauto.
  - intros Ha _. eapply reach_ne_not_waiting; eauto.
Qed.

Theorem lock_on_exit_reach :
  forall (s : st) (t c : nat) (frs : list frame) (k : reply -> coro) (exc : option exn) (s' : st) (r : lres),
    reachable_ne s -> tcont_ (gett s t) = TSusp frs k ->
    let l := clock (getc s c) in
    wait_stack c l frs ->
    match exc with
    | None => exists f rest v, frs = InFut f :: rest /\ fstate_ (getf s f) = FResult v
    | Some e => is_cancel e = true \/ at_wait_point frs = true
    end ->
    let se := step_entry s t in
    resume_stack t frs (match exc with None => RVal 0 | Some e => RExc e end) se = (s', r) ->
    match r with
    | LSusp y frs' =>
        (exists f' rest, y = YFut f' /\ frs' = InFut f' :: rest) /\
        wait_stack c l frs' /\ stack_wf s' t l frs' /\ at_wait_point frs' = false /\
        is_pcond frs' = is_pcond frs /\
        (forall l0, lkind_ (getl s' l0) = lkind_ (getl s l0) /\
                    llocked (getl s' l0) = llocked (getl s l0) /\
                    lowner (getl s' l0) = lowner (getl s l0)) /\
        clock (getc s' c) = l /\ l < length (locks s') /\
        is_prio_task s' t = is_prio_task s t
    | LDone rep =>
        llocked (getl s' l) = true /\
        (lkind_ (getl s' l) = LPrio -> lowner (getl s' l) = Some t) /\
        (forall l0, l0 <> l ->
                    lkind_ (getl s' l0) = lkind_ (getl s l0) /\
                    llocked (getl s' l0) = llocked (getl s l0) /\
                    lowner (getl s' l0) = lowner (getl s l0)) /\
        rep = match last_exc frs (match exc with None => RVal 0 | Some e => RExc e end) with
              | Some e => RExc e | None => RVal 1 end
    end.
Proof.
  intros s t c frs k exc s' r Hn Hk l Hst Hin se Er.
  pose proof (wait_pre_reach s t c frs k exc Hn Hk Hst Hin) as (A & B & C & D & E).
  fold se in A, B, C, D, E.
  assert (El : clock (getc se c) = l) by reflexivity. rewrite El in *.
  assert (Ep : forall t0, is_prio_task se t0 = is_prio_task s t0).
  { intros t0. destruct (step_entry_task s t) as [Ep _]. unfold is_prio_task, se, step_entry.
    change (gett (sett s t _ <| current := Some t |>) t0) with (gett (sett s t (gett s t <| tmustc := false |> <| twaiter := None |> <| tcont_ := TRun |>)) t0).
    rewrite gett_sett. destruct (Nat.eqb t t0 && Nat.ltb t (length (tasks s)))%bool eqn:E0; auto.
    apply andb_prop in E0 as [E0 _]. apply Nat.eqb_eq in E0. now subst t0. }
  assert (Hlk : forall l0, getl se l0 = getl s l0) by reflexivity.
  pose proof (lock_on_exit_full se t c frs _ s' r A B C D E Er) as H1.
  pose proof (exception_identity_full se t c frs _ s' r A B C D E Er) as H2.
  cbv zeta in H1, H2. rewrite El in H1. destruct r as [rep|y frs'].
  - destruct H1 as (a1 & a2 & _ & a4). split; [exact a1|]. split; [exact a2|]. split; [exact a4|exact H2].
  - destruct H1 as (a1 & a2 & a3 & a4 & a5 & a6 & a7 & a8 & a9).
    split; [exact a1|]. split; [exact a2|]. split; [exact a3|]. split; [exact a4|]. split; [exact a5|].
    split; [exact a6|]. split; [exact a7|]. split; [exact a8|]. rewrite a9. apply Ep.
Qed.

(* ------------------------------------------------------------ W5 *)
(* In a state reachable without eager starts, the live entry of a waiter that holds no
   PriorityLock is keyed by the waiter's current effective priority (its own priority). *)
Theorem reach_ne_key s l e :
  reachable_ne s -> In e (arr (lpq (getl s l))) -> live s e ->
  tholding (gett s (entry_task (getl s l) e)) = [] ->
  (epri e == wprio s (entry_task (getl s l) e))%Q.
Proof.
  intros Hr He Hl Hh. pose proof (reachable_ne_WInv s Hr) as W.
  rewrite (wprio_own_nohold s _ Hh). apply (w_key W eq_refl l e He Hl Hh).
Qed.

(* hence [keyed] holds for every lock whose queued tasks hold no PriorityLock *)
Theorem reach_ne_keyed_flat s l :
  reachable_ne s ->
  (forall f w, In (f, w) (lwt (getl s l)) -> tholding (gett s w) = []) -> keyed s l.
Proof.
  intros Hr Hflat e He Hl. pose proof (reachable_ne_WInv s Hr) as W.
  apply reach_ne_key; auto. pose proof (rtask_row _ _ _ _ l e W He) as Hrow.
  apply (Hflat _ _ Hrow).
Qed.

Theorem handover_reach :
  forall s l f, reachable_ne s ->
    (forall g w, In (g, w) (lwt (getl s l)) -> tholding (gett s w) = []) ->
    fstate_ (getf (wake_up_first_p s l) f) <> fstate_ (getf s f) ->
    exists head rest,
      arr (lpq (getl s l)) = head :: rest /\ f = Z.to_nat (eobj head) /\
      fstate_ (getf s f) = FPending /\
      fstate_ (getf (wake_up_first_p s l) f) = FResult 1 /\
      (forall e, In e rest -> live s e -> before s l head e) /\
      (forall g, In g (pq_objs (lpq (getl s l))) -> woken s g = false).
Proof.
  intros s l f Hr Hflat Hch. apply handover_by_eprio; auto.
  - apply (iB1 (reachable_inv s (reachable_ne_reachable s Hr)) l).
  - now apply reach_ne_keyed_flat.
Qed.

(* the same at the hand-over performed by release(): [pre_wake s t l] (Sched/InheritFalls.v) is
   the state in which release() calls _wake_up_first (owner cleared, lock removed from the
   held list, unlocked) *)
Theorem release_handover_reach :
  forall s t l f, reachable_ne s ->
    llocked (getl s l) = true -> lowner (getl s l) = Some t ->
    (forall g w, In (g, w) (lwt (getl s l)) -> tholding (gett s w) = []) ->
    fstate_ (getf (fst (release_p s t l)) f) <> fstate_ (getf s f) ->
    exists head rest,
      arr (lpq (getl s l)) = head :: rest /\ f = Z.to_nat (eobj head) /\
      fstate_ (getf s f) = FPending /\
      fstate_ (getf (fst (release_p s t l)) f) = FResult 1 /\
      (forall e, In e rest -> live s e -> before s l head e) /\
      (forall g, In g (pq_objs (lpq (getl s l))) -> woken s g = false).
Proof.
  intros s t l f Hr Hl Ho Hflat Hch. rewrite (release_p_wake s t l Hl Ho) in *. cbn [fst] in *.
  pose proof (reachable_inv s (reachable_ne_reachable s Hr)) as I.
  pose proof (reachable_ne_WInv s Hr) as W.
  pose proof (llocked_inrange s l Hl) as Hlr.
  set (s1 := pre_wake s t l) in *.
  assert (Hf : forall g, getf s1 g = getf s g).
  { intros g. unfold s1, pre_wake. cbv zeta. destruct (is_prio_task _ t); reflexivity. }
  assert (Hq : lpq (getl s1 l) = lpq (getl s l) /\ lwt (getl s1 l) = lwt (getl s l)).
  { unfold s1, pre_wake. cbv zeta.
    set (sa := setl s l (getl s l <| lowner := None |>)).
    assert (Ea : getl sa l = getl s l <| lowner := None |>) by (unfold sa; now apply getl_setl_same).
    set (sb := if is_prio_task sa t then sett sa t _ else sa).
    assert (Eb : getl sb l = getl sa l) by (unfold sb; destruct (is_prio_task sa t); reflexivity).
    assert (Lb : length (locks sb) = length (locks s)).
    { unfold sb. destruct (is_prio_task sa t); unfold sa, setl; cbn; now rewrite set_nth_length. }
    rewrite getl_setl_same by (rewrite Lb; exact Hlr). rewrite Eb, Ea. split; reflexivity. }
  destruct Hq as [Hq Hw].
  assert (Hwp : forall g w, In (g, w) (lwt (getl s l)) -> wprio s1 w = wprio s w).
  { intros g w Hin. pose proof (Hflat g w Hin) as Hh.
    assert (Hne : w <> t \/ is_prio_task s t = false).
    { destruct (Nat.eq_dec w t) as [->|]; auto. right. destruct (is_prio_task s t) eqn:Ep; auto.
      pose proof (iA3 I l t Ho Ep) as Hin'. rewrite Hh in Hin'. destruct Hin'. }
    assert (Eg : gett s1 w = gett s w).
    { unfold s1, pre_wake. cbv zeta.
      change (is_prio_task (setl s l (getl s l <| lowner := None |>)) t) with (is_prio_task s t).
      destruct Hne as [Hne|Hne]; [|rewrite Hne; reflexivity].
      destruct (is_prio_task s t); [|reflexivity].
      match goal with |- gett (setl (sett ?S t ?x) l ?y) w = _ =>
        change (gett (setl (sett S t x) l y) w) with (gett (sett S t x) w) end.
      rewrite gett_sett_other by auto. reflexivity. }
    rewrite !wprio_own_nohold; [unfold own; now rewrite Eg| exact Hh | now rewrite Eg]. }
  assert (Het : forall e, entry_task (getl s1 l) e = entry_task (getl s l) e).
  { intros e. unfold entry_task, task_of_fut. now rewrite Hw. }
  assert (K1 : keyed s1 l).
  { intros e He Hle. rewrite Hq in He. rewrite Het.
    assert (Hle0 : live s e) by (unfold live, fdone in *; now rewrite <- Hf).
    pose proof (rtask_row _ _ _ _ l e W He) as Hrow.
    change (rtask s l (Z.to_nat (eobj e))) with (entry_task (getl s l) e) in Hrow.
    rewrite (Hwp _ _ Hrow). apply (reach_ne_keyed_flat s l Hr Hflat e He Hle0). }
  assert (Hch1 : fstate_ (getf (wake_up_first_p s1 l) f) <> fstate_ (getf s1 f)) by (now rewrite Hf).
  destruct (handover_by_eprio s1 l f ltac:(rewrite Hq; apply (iB1 I l)) K1 Hch1)
    as (head & rest & Ea & Ef & Ep & Er & Hb & Hnw).
  exists head, rest. rewrite Hq in Ea. rewrite Hf in Ep. split; auto. split; auto. split; auto. split; auto.
  assert (Hent : forall e, In e (head :: rest) -> wprio s1 (entry_task (getl s l) e) = wprio s (entry_task (getl s l) e)).
  { intros e He. rewrite <- Ea in He. pose proof (rtask_row _ _ _ _ l e W He) as Hrow.
    change (rtask s l (Z.to_nat (eobj e))) with (entry_task (getl s l) e) in Hrow. apply (Hwp _ _ Hrow). }
  split.
  - intros e He Hle. assert (Hle1 : live s1 e) by (unfold live, fdone in *; now rewrite Hf).
    pose proof (Hb e He Hle1) as B. unfold before in *. cbv zeta in *. rewrite !Het in B.
    rewrite (Hent head (or_introl eq_refl)), (Hent e (or_intror He)) in B. exact B.
  - intros g Hg. rewrite <- Hq in Hg. specialize (Hnw g Hg). unfold woken in *. now rewrite <- Hf.
Qed.
