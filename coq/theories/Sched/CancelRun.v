(* C03, whole runs: an await-determined body that is cancelled while it is suspended at its
   (n+1)-th await produces the same events and the same outcome whether it was started by
   eager() or as a plain task, under every schedule: the events and the outcome of the pure
   reference run [ref_run_c c val n], which feeds [val f] to the first n awaits, a
   CancelledError to the (n+1)-th, and [val] again to whatever the body awaits afterwards.

   The development extends Sched/EagerRun.v (whose invariant [B] does not mention
   _must_cancel, so it survives every cancel() issued by other code):
   - [ref_run_c], [susp_at] (the (n+1)-th await point on the val-path: events before it,
     what it yields, its continuation);
   - [own_core_cancel]: the step of the tracked task that delivers the CancelledError - from
     an unstepped eager continuation (TEager: the F2 case), from a runnable task (pending
     _must_cancel) or as the wake-up of the cancelled future it is blocked on - resumes the
     body's continuation with RExc ECancelled; afterwards the task is tracked against the
     reference run with cancellation;
   - [cancel_run]: the run-checked shape of a run with one delivered cancellation;
   - [cancel_run_B]: the invariant through such a run. *)
From Coq Require Import QArith Sorting.Permutation.
From RecordUpdate Require Import RecordUpdate.
From Asynkit Require Import Base.Prelude Queue.ListFacts Queue.PQ Queue.PosPQ Queue.Exec
     Sched.Model Sched.PartTables Sched.PartitionProofs Sched.PartitionSteps Sched.PartitionRun
     Sched.FrameFacts Sched.TaskFrame Sched.ThrowProofs Sched.EagerProofs Sched.FutMono
     Sched.EagerRunOth Sched.EagerRun.
Import RecordSetNotations.
Open Scope nat_scope.

(* ------------------------------------------------------------ the reference run with a cancellation *)
(* the first n awaits (await f / sleep(0)) are answered as in [ref_run]; the (n+1)-th is
   resumed with a CancelledError; from there on the body (which may catch it, log, await
   again, re-raise, return) is run by [ref_run] again *)
Fixpoint ref_run_c (c : coro) (val : nat -> reply) (n : nat) {struct c} : list Z * reply :=
  match c with
  | Ret v => ([], RVal v)
  | Raise e => ([], RExc e)
  | Call (OLog x) k => let p := ref_run_c (k (RVal 0)) val n in (x :: fst p, snd p)
  | Call (OAwaitFut f) k =>
      match n with
      | O => ref_run (k (RExc ECancelled)) val
      | S m => ref_run_c (k (val f)) val m
      end
  | Call OSleep0 k =>
      match n with
      | O => ref_run (k (RExc ECancelled)) val
      | S m => ref_run_c (k (RVal 0)) val m
      end
  | _ => ([], RExc EInvalidState)
  end.

(* the (n+1)-th await point on the val-path: the events logged before it is reached, what the
   body yields there, and the body's continuation *)
Fixpoint susp_at (c : coro) (val : nat -> reply) (n : nat) {struct c}
  : option (list Z * yielded * (reply -> coro)) :=
  match c with
  | Call (OLog x) k =>
      match susp_at (k (RVal 0)) val n with
      | Some (l, y, k') => Some (x :: l, y, k')
      | None => None
      end
  | Call (OAwaitFut f) k =>
      match n with
      | O => Some ([], YFut f, k)
      | S m => susp_at (k (val f)) val m
      end
  | Call OSleep0 k =>
      match n with
      | O => Some ([], YNone, k)
      | S m => susp_at (k (RVal 0)) val m
      end
  | _ => None
  end.

Lemma susp_at_ref val : forall c n l y k,
  susp_at c val n = Some (l, y, k) ->
  ref_run c val = (l ++ fst (ref_run (k (yreply val y)) val), snd (ref_run (k (yreply val y)) val)) /\
  ref_run_c c val n = (l ++ fst (ref_run (k (RExc ECancelled)) val), snd (ref_run (k (RExc ECancelled)) val)).
Proof.
  induction c as [v|e|op k0 IH|how child IHc k0 IHk]; intros n l y k H; try discriminate.
  destruct op; try discriminate; cbn [susp_at] in H; cbn [ref_run ref_run_c].
  - destruct (susp_at (k0 (RVal 0)) val n) as [[[l' y'] k']|] eqn:E; [|discriminate].
    inversion H; subst. destruct (IH _ _ _ _ _ E) as [A1 A2]. rewrite A1, A2. cbn. auto.
  - destruct n as [|m].
    + inversion H; subst. cbn. split; apply surjective_pairing.
    + destruct (IH _ _ _ _ _ H) as [A1 A2]. auto.
  - destruct n as [|m].
    + inversion H; subst. cbn. split; apply surjective_pairing.
    + apply (IH _ _ _ _ _ H).
Qed.

Lemma susp_at_AD P val : forall c, AD P c -> forall n l y k,
  susp_at c val n = Some (l, y, k) -> (forall r, AD P (k r)) /\ yP P y.
Proof.
  induction 1 as [v|e|x k0 Hk IH|f k0 Pf Hk IH|k0 Hk IH]; intros n l y k H; try discriminate;
    cbn [susp_at] in H.
  - destruct (susp_at (k0 (RVal 0)) val n) as [[[l' y'] k']|] eqn:E; [|discriminate].
    inversion H; subst. apply (IH _ _ _ _ _ E).
  - destruct n as [|m]; [inversion H; subst; split; [exact Hk|exact Pf]|apply (IH _ _ _ _ _ H)].
  - destruct n as [|m]; [inversion H; subst; split; [exact Hk|exact Logic.I]|apply (IH _ _ _ _ _ H)].
Qed.

(* a body whose plain reference run is a given trace and reply *)
Definition ret_of (r : reply) : coro := match r with RVal v => Ret v | RExc e => Raise e end.
Fixpoint lin (l : list Z) (r : reply) : coro :=
  match l with
  | [] => ret_of r
  | x :: l' => Call (OLog x) (fun _ => lin l' r)
  end.
Lemma ref_run_lin val r : forall l, ref_run (lin l r) val = (l, r).
Proof. induction l as [|x l IH]; cbn; [destruct r; reflexivity|rewrite IH; reflexivity]. Qed.

Lemma yframes_inj y y' : yframes y = yframes y' -> y = y'.
Proof. destruct y, y'; cbn; intros H; inversion H; reflexivity. Qed.

Lemma agree_sub (P P' : nat -> Prop) s val : (forall f, P f -> P' f) -> agree P' s val -> agree P s val.
Proof. intros S A f Pf. apply (A f (S f Pf)). Qed.

(* ------------------------------------------------------------ the tracked task, cancelled *)
Section Cancel.
Variable qok : rq -> Prop.
Hypothesis QS : QSpec qok.
Variable P : nat -> Prop.     (* the futures the body may await *)
Variable val : nat -> reply.  (* their values *)
Variable c : coro.            (* the body *)
Variable tn : nat.            (* its task *)
Variable n0 : nat.            (* log position at the task's creation *)
Variable pre : list Z.        (* events of the synchronous prefix (eager start); [] for a plain task *)
Variable n : nat.             (* the await index at which the cancellation is delivered *)

(* how the cancellation reaches the task:
   None    - through _must_cancel: cancel() found the task not blocked (the eager continuation
             not yet stepped, or the task runnable), the next step throws CancelledError;
   Some f  - the task was blocked on the pending future f: f is cancelled and its wake-up
             throws the CancelledError *)
Variable m : option nat.

(* the futures the body may still await after the delivery *)
Definition P2 (g : nat) : Prop := P g /\ Some g <> m.

Definition cstar : coro := lin (fst (ref_run_c c val n)) (snd (ref_run_c c val n)).

Lemma ref_run_cstar : ref_run cstar val = ref_run_c c val n.
Proof. unfold cstar. rewrite ref_run_lin. symmetry. apply surjective_pairing. Qed.

(* tn's own step, resuming the body at its (n+1)-th await with a CancelledError *)
Lemma own_core_cancel sp exc l y k :
  Qt qok tn sp -> Tracks P val c tn n0 pre sp ->
  (forall f, P f -> f < length (futs sp) /\ f <> tfut (gett sp tn)) ->
  tfut (gett sp tn) < length (futs sp) -> tdone sp tn = false -> agree P2 sp val ->
  susp_at c val n = Some (l, y, k) ->
  (tcont_ (gett sp tn) = TSusp (yframes y) k \/
   (tcont_ (gett sp tn) = TEager y (yframes y) k /\ exists e, step_input sp tn exc = Some e)) ->
  resume_stack tn (yframes y) (input_reply (step_input sp tn exc)) (running_state sp tn)
    = (running_state sp tn, LDone (RExc ECancelled)) ->
  AD P2 (k (RExc ECancelled)) ->
  Good qok P2 val cstar tn n0 pre sp (step_task tn exc sp).
Proof.
  intros Q [Ln T] Rng Hf Hd A Hs Hk Hres Hc2. pose proof (q_tn qok tn sp Q) as Ltn.
  set (rs := running_state sp tn) in *.
  assert (Grs : gett rs tn = gett sp tn <| tmustc := false |> <| twaiter := None |> <| tcont_ := TRun |>).
  { unfold rs, running_state. apply (gett_sett_same sp tn _ Ltn). }
  assert (Qrs : Qt qok tn rs).
  { eapply Qt_obs; [..|exact Q]; try reflexivity.
    - unfold rs, running_state. cbn. apply set_nth_length.
    - rewrite Grs. reflexivity.
    - intros g. auto. }
  assert (Hpend : fstate_ (getf sp (tfut (gett sp tn))) = FPending).
  { unfold tdone, fdone in Hd. destruct (fstate_ (getf sp (tfut (gett sp tn)))); congruence. }
  assert (Ars : agree P2 rs val) by (intros f Pf; exact (A f Pf)).
  assert (Rng2 : forall f, P2 f -> f < length (futs sp) /\ f <> tfut (gett sp tn)).
  { intros f [Pf _]. apply (Rng f Pf). }
  assert (Rrs : forall f, P2 f -> f < length (futs rs)) by (intros f Pf; apply (Rng2 f Pf)).
  destruct (susp_at_ref val c n l y k Hs) as [R1 R2].
  (* the events so far are those before the await point *)
  assert (HR : Rem val c tn n0 pre sp (k (yreply val y))).
  { destruct Hk as [Ek|[Ek _]]; rewrite Ek in T.
    - destruct T as (y' & Fy & _ & _ & HR & _). apply yframes_inj in Fy. subst y'. exact HR.
    - destruct T as (_ & _ & _ & HR & _). exact HR. }
  assert (Ee : evs_of tn n0 pre sp = l).
  { unfold Rem in HR. rewrite R1 in HR. inversion HR as [H1]. apply app_inv_tail in H1. symmetry. exact H1. }
  assert (HRs : Rem val cstar tn n0 pre sp (k (RExc ECancelled))).
  { unfold Rem. rewrite ref_run_cstar, R2, Ee. reflexivity. }
  assert (Est : step_task tn exc sp =
                (let '(s2, o) := exec tn (k (RExc ECancelled)) rs in finish_step tn s2 o <| current := None |>)).
  { destruct Hk as [Ek|[Ek [e He]]].
    - rewrite (step_susp_eq sp tn exc _ k Hd Ek). unfold run_cont. fold rs. rewrite Hres. reflexivity.
    - rewrite (step_eager_throw sp tn exc e y _ k Hd Ek He). unfold run_cont. fold rs.
      rewrite He in Hres. cbn [input_reply] in Hres. rewrite Hres. reflexivity. }
  rewrite Est. destruct (exec tn (k (RExc ECancelled)) rs) as [s2 o] eqn:E.
  destruct (exec_AD P2 val tn _ Hc2 rs s2 o Rrs Ars E) as (l2 & S1 & L1 & O1).
  destruct S1 as [S1 S2 S3 S4 S5 S6].
  assert (G2 : gett s2 tn = gett rs tn) by (apply gett_tasks_eq; exact S3).
  assert (Q2 : Qt qok tn s2).
  { eapply Qt_obs; [exact S1|exact S2|rewrite S3; reflexivity|rewrite G2; reflexivity|exact S6|exact Qrs]. }
  assert (T2 : tfut (gett s2 tn) = tfut (gett sp tn)) by (rewrite G2, Grs; reflexivity).
  assert (Pend2 : fstate_ (getf s2 (tfut (gett s2 tn))) = FPending).
  { rewrite T2. destruct (S6 (tfut (gett sp tn))) as [-> _]. exact Hpend. }
  unfold Good.
  rewrite <- T2. replace (length (futs sp)) with (length (futs s2)) by exact S5.
  apply (own_tail qok QS P2 val cstar tn n0 pre sp s2 o l2 (k (RExc ECancelled)) Ln HRs Q2).
  - rewrite G2, Grs. reflexivity.
  - rewrite G2, Grs. reflexivity.
  - rewrite T2, S5. exact Hf.
  - exact Pend2.
  - exact L1.
  - intros f Pf. rewrite T2, S5. apply (Rng2 f Pf).
  - destruct o as [r|y2 frs k2]; [exact O1|]. destruct O1 as (F1 & F2 & F3 & F4). split; [exact F1|].
    split; [exact F2|]. destruct y2 as [|f]; cbn in *; auto. destruct F3 as (a & b & c0). auto.
Qed.

(* ------------------------------------------------------------ the delivering step *)
Definition pendb (s : st) : bool :=
  match m with
  | None => tmustc (gett s tn)
  | Some f => fcancelled s f
  end.

(* the task is suspended at its (n+1)-th await: not yet stepped eager continuation or an
   ordinary suspended task; when blocked (m = Some f) it is that await that yields f, and f
   carries no stored exception instance (Future.cancel() never stores one) *)
Definition deliver_ok (s : st) : Prop :=
  exists l y k, susp_at c val n = Some (l, y, k) /\
    match m with
    | None => tcont_ (gett s tn) = TSusp (yframes y) k \/ tcont_ (gett s tn) = TEager y (yframes y) k
    | Some f => y = YFut f /\ tcont_ (gett s tn) = TSusp (yframes y) k /\ fcexc (getf s f) = None
    end.

(* the body does not await the cancelled future again *)
Definition post_ok : Prop :=
  match m with
  | None => True
  | Some _ => forall l y k, susp_at c val n = Some (l, y, k) -> AD P2 (k (RExc ECancelled))
  end.

(* no awaited future fails with a CancelledError(-subclass) instance: needed when cancel()
   finds the task woken but not yet run, where Task.__step lets such an exception through *)
Definition val_nc : Prop := forall f e, val f = RExc e -> is_cancel e = false.

Lemma B_deliver s h r :
  AD P c -> post_ok -> val_nc ->
  B qok P val c tn n0 pre s -> rq_popleft (ready s) = Some (h, r) -> hcancelled (geth s h) = false ->
  task_of_handle s h = Some tn -> tdone s tn = false -> agree P2 s val ->
  pendb s = true -> deliver_ok s ->
  B qok P2 val cstar tn n0 pre (run_one s).
Proof.
  intros Hc0 Hpo Hnc Bs Pp Hc Hk Hd A Hp (l & y & k & Hs & Hdo). pose proof Bs as [I Xs T Rng].
  pose proof (Inv09_action qok QS s AStep I Logic.I) as I'. pose proof (FM_action s AStep) as M.
  cbn [do_action] in I', M.
  destruct (q_popleft QS _ _ _ (i_qok (i_wf (proj1 I))) Pp) as [Q1 Q2].
  pose proof (pop_task qok s h r tn Q1 Q2 Hk (proj1 I)) as Ip.
  set (sp := s <| ready := r |>) in *.
  destruct (InvC_cur_quiet qok tn sp Ip Hd) as (U1 & U2 & U3).
  assert (Q : Qt qok tn sp).
  { constructor.
    - exact Q1.
    - intros h' Hh'. split.
      + apply (i_rwf (i_wf (proj1 I)) h'). eapply Permutation_in; [symmetry; exact Q2|right; exact Hh'].
      + intros E. apply task_key_true in E. pose proof (cnt_zero_inv _ _ U1 h' Hh'). congruence.
    - intros g Hg Hi. pose proof (cnt_zero_inv _ _ (U2 g Hg) _ Hi) as Z.
      unfold is_wakeup in Z. cbn in Z. rewrite Nat.eqb_refl in Z. discriminate.
    - apply (i_cur Ip tn eq_refl).
    - exact (x_kc _ _ _ _ _ _ _ Xs). }
  assert (Hb : forall f, twaiter (gett sp tn) = Some f -> fdone sp f = true).
  { intros f Hf. unfold bo in U3. rewrite Hf in U3. destruct (fdone sp f); [reflexivity|discriminate]. }
  assert (Hg : hgood tn (twaiter (gett s tn)) (hcb (geth s h))).
  { apply (x_rdy _ _ _ _ _ _ _ Xs h). eapply Permutation_in; [symmetry; exact Q2|left; reflexivity]. }
  destruct (susp_at_AD P val c Hc0 n l y k Hs) as [Ak Py].
  assert (Hc2 : AD P2 (k (RExc ECancelled))).
  { unfold post_ok in Hpo. destruct m as [f0|] eqn:Em; [apply (Hpo l y k Hs)|].
    assert (S : forall c', AD P c' -> AD P2 c').
    { induction 1; constructor; auto. split; [assumption|rewrite Em; discriminate]. }
    apply S, Ak. }
  assert (Core : forall exc,
            (tcont_ (gett sp tn) = TSusp (yframes y) k \/
             (tcont_ (gett sp tn) = TEager y (yframes y) k /\ exists e, step_input sp tn exc = Some e)) ->
            resume_stack tn (yframes y) (input_reply (step_input sp tn exc)) (running_state sp tn)
              = (running_state sp tn, LDone (RExc ECancelled)) ->
            Good qok P2 val cstar tn n0 pre sp (step_task tn exc sp)).
  { intros exc H1 H2. apply (own_core_cancel sp exc l y k); auto.
    apply (i_tfut (i_wf (proj1 I)) tn (q_tn qok tn sp Q)). }
  assert (Fin : Good qok P2 val cstar tn n0 pre sp (run_one s) -> B qok P2 val cstar tn n0 pre (run_one s)).
  { intros (Gx & Gt & Gf & Gl). constructor; auto.
    intros f [Pf _]. destruct (Rng f Pf) as [L N]. rewrite Gf, Gl. auto. }
  apply Fin.
  assert (Hthrow : forall e, resume_stack tn (yframes y) (RExc e) (running_state sp tn)
                             = (running_state sp tn, LDone (RExc e))).
  { intros e. destruct y; reflexivity. }
  unfold run_one. rewrite Pp. change (geth (s <| ready := r |>) h) with (geth s h). rewrite Hc.
  fold sp. unfold task_of_handle in Hk. unfold pendb in Hp.
  destruct m as [f0|] eqn:Em.
  - (* blocked on f0, which has been cancelled *)
    destruct Hdo as (Ey & Ek & Ecx). subst y.
    assert (Ef0 : fstate_ (getf s f0) = FCancelled).
    { unfold fcancelled in Hp. destruct (fstate_ (getf s f0)); congruence. }
    assert (Hw : twaiter (gett s tn) = Some f0).
    { destruct T as [_ T]. rewrite Ek in T. destruct T as (y' & Fy & _ & _ & _ & W).
      apply yframes_inj in Fy. subst y'. exact W. }
    assert (Hin : forall exc, (exc = None \/ exc = Some ECancelled) ->
              resume_stack tn (yframes (YFut f0)) (input_reply (step_input sp tn exc)) (running_state sp tn)
              = (running_state sp tn, LDone (RExc ECancelled))).
    { intros exc Hx. unfold step_input. destruct (tmustc (gett sp tn)).
      - destruct Hx as [->| ->]; apply Hthrow.
      - destruct Hx as [->| ->]; [|apply Hthrow]. cbn [input_reply yframes resume_stack frame_resume].
        unfold fdone, fut_result. change (getf (running_state sp tn) f0) with (getf s f0).
        rewrite Ef0, Ecx. reflexivity. }
    destruct (hcb (geth s h)) as [t e|t f| | | | | | ] eqn:Ecb; cbn in Hk; try discriminate;
      inversion Hk; subst t; cbn [run_callback].
    + cbn in Hg. rewrite (Hg eq_refl). apply (Core None); [left; exact Ek|apply Hin; left; reflexivity].
    + cbn in Hg. specialize (Hg eq_refl). rewrite Hw in Hg. inversion Hg; subst f. unfold wakeup.
      change (getf sp f0) with (getf s f0). rewrite Ef0. unfold fut_result.
      change (getf sp f0) with (getf s f0). rewrite Ef0, Ecx.
      apply (Core (Some ECancelled)); [left; exact Ek|apply Hin; right; reflexivity].
  - (* _must_cancel is set *)
    assert (Hm : tmustc (gett sp tn) = true) by exact Hp.
    assert (HN : Good qok P2 val cstar tn n0 pre sp (step_task tn None sp)).
    { apply (Core None).
      - destruct Hdo as [Ek|Ek]; [left; exact Ek|right; split; [exact Ek|]].
        exists ECancelled. apply step_input_mustc. exact Hm.
      - rewrite (step_input_mustc sp tn Hm). apply Hthrow. }
    destruct (hcb (geth s h)) as [t e|t f| | | | | | ] eqn:Ecb; cbn in Hk; try discriminate;
      inversion Hk; subst t; cbn [run_callback].
    + cbn in Hg. rewrite (Hg eq_refl). exact HN.
    + cbn in Hg. specialize (Hg eq_refl). unfold wakeup.
      assert (Pf : P f).
      { destruct T as [_ T]. destruct Hdo as [Ek|Ek]; rewrite Ek in T.
        - destruct T as (y' & _ & _ & Py' & _ & W). rewrite W in Hg. destruct y'; cbn in *; congruence.
        - destruct T as (_ & _ & _ & _ & W). congruence. }
      assert (Af : match fstate_ (getf s f) with
                   | FPending => True | FResult v => val f = RVal v | FExc e => val f = RExc e
                   | FCancelled => False end).
      { apply (A f). split; [exact Pf|rewrite Em; discriminate]. }
      pose proof (Hb f Hg) as Df. unfold fdone in Df.
      change (getf sp f) with (getf s f) in *.
      destruct (fstate_ (getf s f)) eqn:Ef; try discriminate; try contradiction.
      * exact HN.
      * assert (Ne : is_cancel e = false) by (apply (Hnc f e Af)).
        assert (Si : step_input sp tn (Some e) = Some ECancelled).
        { unfold step_input. rewrite Hm, Ne. reflexivity. }
        apply (Core (Some e)).
        -- destruct Hdo as [Ek|Ek]; [left; exact Ek|right; split; [exact Ek|]]. exists ECancelled. exact Si.
        -- rewrite Si. apply Hthrow.
Qed.

(* ------------------------------------------------------------ runs with one delivered cancellation *)
Definition stepping (s : st) (a : action) : Prop :=
  a = AStep /\ exists h r, rq_popleft (ready s) = Some (h, r) /\ hcancelled (geth s h) = false /\
                           task_of_handle s h = Some tn.

(* run-checked shape of the run (at every action boundary):
   - as long as no cancellation is pending the run is calm (EagerRun.calm);
   - while it is pending (cancel() may be called again, any other code may run) the task is
     not finished from outside, and the first step of tn is the delivery: tn is suspended at
     its (n+1)-th await;
   - after the delivery the run is calm again: no second cancellation *)
Fixpoint cancel_run_ (E : Prop) (s : st) (acts : list action) : Prop :=
  match acts with
  | [] => E
  | a :: l =>
      if pendb s
      then tdone s tn = false /\
           ((not_stepping tn s a /\ cancel_run_ E (do_action s a) l) \/
            (stepping s a /\ deliver_ok s /\ calm_run tn (do_action s a) l))
      else calm tn s a /\ cancel_run_ E (do_action s a) l
  end.
(* the cancellation is delivered within the run *)
Definition cancel_run : st -> list action -> Prop := cancel_run_ False.
(* ... or the run may end before (used for drained runs, where it cannot) *)
Definition cancel_run_opt : st -> list action -> Prop := cancel_run_ True.

Lemma B_action_pre s a :
  B qok P val c tn n0 pre s -> action_ok s a -> calm tn s a -> agree P s val ->
  B qok P val c tn n0 pre (do_action s a).
Proof.
  intros Bs Ha [Hm Hd] A.
  destruct (tdone s tn) eqn:Dn.
  { apply B_others; [exact QS|exact Bs|exact Ha|apply Hd; reflexivity]. }
  destruct a as [| |d|how c0|op]; try (apply B_others; [exact QS|exact Bs|exact Ha|exact Logic.I]).
  destruct (rq_popleft (ready s)) as [[h r]|] eqn:Pp.
  2:{ apply B_others; [exact QS|exact Bs|exact Ha|]. intros h r E. congruence. }
  destruct (hcancelled (geth s h)) eqn:Hc.
  { apply B_others; [exact QS|exact Bs|exact Ha|]. intros h' r' E Hc'. congruence. }
  destruct (task_of_handle s h) as [t|] eqn:Hk.
  2:{ apply B_others; [exact QS|exact Bs|exact Ha|]. intros h' r' E Hc'. congruence. }
  destruct (Nat.eq_dec t tn) as [->|N].
  2:{ apply B_others; [exact QS|exact Bs|exact Ha|]. intros h' r' E Hc'. congruence. }
  cbn [do_action]. eapply B_own; eauto.
Qed.

(* before the cancellation is pending the futures hold val's replies *)
Lemma agree_pre s sf :
  FM s sf -> (forall f, P f -> f < length (futs s)) -> agree P2 sf val ->
  (forall f, m = Some f -> fstate_ (getf sf f) = FCancelled) ->
  (forall f, m = Some f -> fcancelled s f = false) -> agree P s val.
Proof.
  intros M Rng A Hf Hp f Pf.
  destruct (fstate_ (getf s f)) eqn:E; auto.
  - assert (N : Some f <> m).
    { intros Em. symmetry in Em. pose proof (Hf f Em) as C.
      rewrite (FM_write_once s sf f M (Rng f Pf)) in C by (rewrite E; discriminate). congruence. }
    pose proof (agree_mono P2 s sf val M (fun g Hg => Rng g (proj1 Hg)) A f (conj Pf N)) as A1.
    rewrite E in A1. exact A1.
  - assert (N : Some f <> m).
    { intros Em. symmetry in Em. pose proof (Hf f Em) as C.
      rewrite (FM_write_once s sf f M (Rng f Pf)) in C by (rewrite E; discriminate). congruence. }
    pose proof (agree_mono P2 s sf val M (fun g Hg => Rng g (proj1 Hg)) A f (conj Pf N)) as A1.
    rewrite E in A1. exact A1.
  - assert (N : Some f <> m).
    { intros Em. symmetry in Em. pose proof (Hp f Em) as C. unfold fcancelled in C. rewrite E in C. discriminate. }
    pose proof (agree_mono P2 s sf val M (fun g Hg => Rng g (proj1 Hg)) A f (conj Pf N)) as A1.
    rewrite E in A1. exact A1.
Qed.

Theorem cancel_run_B_gen E : AD P c -> post_ok -> val_nc -> forall acts s,
  B qok P val c tn n0 pre s -> actions_ok s acts -> cancel_run_ E s acts ->
  agree P2 (fold_left do_action acts s) val ->
  (forall f, m = Some f -> fstate_ (getf (fold_left do_action acts s) f) = FCancelled) ->
  B qok P2 val cstar tn n0 pre (fold_left do_action acts s) \/
  (E /\ B qok P val c tn n0 pre (fold_left do_action acts s)).
Proof.
  intros Hc0 Hpo Hnc. induction acts as [|a acts IH]; intros s Bs Ha Hr A Hf; [right; split; [exact Hr|exact Bs]|].
  cbn [fold_left] in *. destruct Ha as [Ha1 Ha2]. cbn [cancel_run_] in Hr.
  assert (Rng : forall f, P f -> f < length (futs s)) by (intros f Pf; apply (b_rng _ _ _ _ _ _ _ _ Bs f Pf)).
  assert (Mf : FM s (fold_left do_action acts (do_action s a))).
  { eapply FM_trans; [apply FM_action|apply FM_actions]. }
  destruct (pendb s) eqn:Hp.
  - destruct Hr as [Hd [[Hn Hr]|[[-> (h & r & Pp & Hc & Hk)] [Hdo Hq]]]].
    + apply IH; auto. apply B_others; auto.
    + assert (A2 : agree P2 s val).
      { apply (agree_mono P2 s _ val Mf); [intros g Hg; apply Rng, Hg|exact A]. }
      pose proof (B_deliver s h r Hc0 Hpo Hnc Bs Pp Hc Hk Hd A2 Hp Hdo) as B1.
      left. apply (B_run qok QS P2 val cstar tn n0 pre acts _ B1 Ha2 Hq A).
  - destruct Hr as [Hq Hr]. apply IH; auto.
    apply B_action_pre; auto. apply (agree_pre s _ Mf Rng A Hf).
    intros f Em. unfold pendb in Hp. rewrite Em in Hp. exact Hp.
Qed.

Theorem cancel_run_B : AD P c -> post_ok -> val_nc -> forall acts s,
  B qok P val c tn n0 pre s -> actions_ok s acts -> cancel_run s acts ->
  agree P2 (fold_left do_action acts s) val ->
  (forall f, m = Some f -> fstate_ (getf (fold_left do_action acts s) f) = FCancelled) ->
  B qok P2 val cstar tn n0 pre (fold_left do_action acts s).
Proof.
  intros Hc0 Hpo Hnc acts s Bs Ha Hr A Hf.
  destruct (cancel_run_B_gen False Hc0 Hpo Hnc acts s Bs Ha Hr A Hf) as [H|[[] _]]. exact H.
Qed.

(* the blocked form: the future ends cancelled *)
Lemma cancel_run_fut f : m = Some f -> forall acts s,
  f < length (futs s) -> cancel_run s acts -> fstate_ (getf (fold_left do_action acts s) f) = FCancelled.
Proof.
  intros Em. unfold cancel_run. induction acts as [|a acts IH]; intros s L Hr; [destruct Hr|].
  cbn [fold_left cancel_run_] in *. destruct (pendb s) eqn:Hp.
  - unfold pendb in Hp. rewrite Em in Hp. unfold fcancelled in Hp.
    assert (E : fstate_ (getf s f) = FCancelled) by (destruct (fstate_ (getf s f)); congruence).
    assert (Mf : FM s (fold_left do_action acts (do_action s a))).
    { eapply FM_trans; [apply FM_action|apply FM_actions]. }
    rewrite (FM_write_once s _ f Mf L) by (rewrite E; discriminate). exact E.
  - destruct Hr as [_ Hr]. apply IH; [|exact Hr]. destruct (FM_action s a) as (L1 & _). lia.
Qed.

(* a run of this shape contains the delivery: the await point exists *)
Lemma cancel_run_susp : forall acts s, cancel_run s acts ->
  exists l y k, susp_at c val n = Some (l, y, k) /\ (forall f, m = Some f -> y = YFut f).
Proof.
  unfold cancel_run. induction acts as [|a acts IH]; intros s Hr; [destruct Hr|]. cbn [cancel_run_] in Hr.
  destruct (pendb s).
  - destruct Hr as [_ [[_ Hr]|[_ [(l & y & k & Hs & Hdo) _]]]]; [apply (IH _ Hr)|].
    exists l, y, k. split; [exact Hs|]. intros f Em. rewrite Em in Hdo. apply Hdo.
  - destruct Hr as [_ Hr]. apply (IH _ Hr).
Qed.

(* a state of the invariant with an empty ready queue and all awaited futures done: the
   tracked task's own future is done (an undone task has a handle, or is blocked on a pending
   future - the activation discipline of Inv09) *)
Lemma B_drained (P' : nat -> Prop) c' s :
  B qok P' val c' tn n0 pre s -> rq_items (ready s) = [] -> (forall f, P' f -> fdone s f = true) ->
  tdone s tn = true.
Proof.
  intros [I Xs [_ T] Rng] Hq Hall. destruct (tdone s tn) eqn:Hd; [reflexivity|exfalso].
  pose proof (i_cls (proj1 I) tn (x_tn _ _ _ _ _ _ _ Xs) Hd) as C. unfold cls in C. cbn in C.
  destruct C as [C1 _]. unfold hcnt in C1. rewrite Hq in C1. cbn in C1. unfold bo in C1.
  destruct (tcont_ (gett s tn)) as [c0|frs k|y frs k| |].
  - destruct T as (_ & _ & W). rewrite W in C1. discriminate.
  - destruct T as (y & _ & _ & Py & _ & W). rewrite W in C1. destruct y as [|f]; cbn in C1; [discriminate|].
    cbn in Py. rewrite (Hall f Py) in C1. discriminate.
  - destruct T as (_ & _ & _ & _ & W). rewrite W in C1. discriminate.
  - destruct T.
  - destruct T as (_ & Hfs). unfold tdone, fdone in Hd. rewrite Hfs in Hd.
    destruct (snd (ref_run c' val)) as [v|e]; cbn in Hd; [discriminate|destruct (is_cancel e); discriminate].
Qed.

End Cancel.
