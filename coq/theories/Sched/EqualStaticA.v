(* C10: the monitor mon_run of the whole-run simulation (Sched/EqualRun*.v) discharged for whole
   runs.  Part A: the syntactic condition "every priority handed out is 0" (pz / act_pz) and the
   fact that the continuations stored in the task table keep it (architecture and generic kproj_*
   lemmas of LockStatic.v).  Part B: under Inv09 + XI (finished tasks are inert, Sched/Inert*.v)
   every monitor check succeeds: uq holds for EVERY task (a finished task has no handle at all),
   rwfb is i_rwf; threaded through exec / step_task / run_one / do_action / runs. *)
From Coq Require Import QArith Sorting.Permutation.
From RecordUpdate Require Import RecordUpdate.
From Asynkit Require Import Base.Prelude Queue.PQ Queue.PosPQ Queue.Exec Sched.Model
  Sched.Tables Sched.LockStatic Sched.EqualRunOps Sched.EqualRunSteps.
Import RecordSetNotations.
Open Scope nat_scope.

Definition op_pz (op : libop) : Prop :=
  match op with OSetPrio p => Qeq_bool p 0 = true | _ => True end.

Inductive pz : coro -> Prop :=
| pz_ret v : pz (Ret v)
| pz_raise e : pz (Raise e)
| pz_call op k : op_pz op -> (forall r, pz (k r)) -> pz (Call op k)
| pz_spawn how child k : prio_ok how = true -> pz child -> (forall r, pz (k r)) -> pz (Spawn how child k).

(* ---------------------------------------------------------------- stored continuations only hand out priority 0 *)
Definition cont_pz (k : tcont) : Prop :=
  match k with
  | TNew c => pz c
  | TSusp _ k | TEager _ _ k => forall r, pz (k r)
  | TRun | TFin => True
  end.
Definition conts_pz (s : st) : Prop := Forall cont_pz (kproj s).

Lemma conts_pz_same s s' : kproj s' = kproj s -> conts_pz s -> conts_pz s'.
Proof. unfold conts_pz. now intros ->. Qed.



Lemma conts_pz_sett s t x : conts_pz s -> cont_pz (tcont_ x) -> conts_pz (sett s t x).
Proof.
  intros H Hx. unfold conts_pz, kproj, sett. cbn. rewrite map_set_nth. now apply Forall_set_nth.
Qed.

Lemma conts_pz_get s t : conts_pz s -> cont_pz (tcont_ (gett s t)).
Proof.
  intros H. destruct (Nat.lt_ge_cases t (length (tasks s))) as [Ht|Ht].
  - unfold conts_pz, kproj in H. rewrite Forall_forall in H. apply H. apply in_map. now apply nth_In.
  - rewrite gett_oob by auto. exact I.
Qed.

Lemma conts_pz_app s tk : conts_pz s -> cont_pz (tcont_ tk) -> conts_pz (s <| tasks := tasks s ++ [tk] |>).
Proof.
  intros H Hx. unfold conts_pz, kproj. cbn. rewrite map_app. apply Forall_app. split; [exact H|].
  constructor; [exact Hx|constructor].
Qed.

Lemma conts_pz_new_task s kind p c : conts_pz s -> pz c -> conts_pz (fst (new_task s kind p c)).
Proof.
  intros H Hc. unfold new_task.
  change (new_future s (Some (length (tasks s)))) with (fst (new_future s (Some (length (tasks s)))), length (futs s)).
  cbv beta iota. cbn [fst].
  match goal with |- conts_pz (call_soon_ ?S _) => change (conts_pz S) end.
  apply (conts_pz_app (fst (new_future s (Some (length (tasks s)))))); auto.
Qed.

Lemma conts_pz_spawn_task s how c : conts_pz s -> pz c -> conts_pz (fst (spawn_task s how c)).
Proof. intros. unfold spawn_task. destruct how; now apply conts_pz_new_task. Qed.

Lemma exec_conts_pz c : pz c -> forall t s, conts_pz s ->
  conts_pz (fst (exec t c s)) /\
  (forall y frs k, snd (exec t c s) = OYield y frs k -> forall r, pz (k r)).
Proof.
  induction 1 as [v|e|op k Hp Hk IHk|how child k Hh Hc IHc Hk IHk]; intros t s H; cbn [exec].
  - split; auto. intros; discriminate.
  - split; auto. intros; discriminate.
  - pose proof (kproj_lib_call t op s) as E. destruct (lib_call t op s) as [s1 r]. cbn [fst] in E.
    destruct r as [rep|y frs].
    + apply IHk. eapply conts_pz_same; eauto.
    + cbn [fst snd]. split; [eapply conts_pz_same; eauto|]. intros y0 frs0 k0 E0. inversion E0; subst. exact Hk.
  - assert (Hwrap : forall t', forall r, pz (match r with RVal _ => k (RVal (Z.of_nat t')) | RExc e => k (RExc e) end)).
    { intros t' [v|e]; apply Hk. }
    destruct how.
    + pose proof (conts_pz_spawn_task s SPlain child H Hc) as H1. destruct (spawn_task s SPlain child) as [s1 t']. now apply IHk.
    + pose proof (conts_pz_spawn_task s SPy child H Hc) as H1. destruct (spawn_task s SPy child) as [s1 t']. now apply IHk.
    + pose proof (conts_pz_spawn_task s (SPrio p) child H Hc) as H1. destruct (spawn_task s (SPrio p) child) as [s1 t']. now apply IHk.
    + pose proof (conts_pz_spawn_task s SDescend child H Hc) as H1. destruct (spawn_task s SDescend child) as [s1 t'].
      cbn [fst] in H1. pose proof (kproj_lib_call t (OTaskSwitch t' (Some 1)) s1) as E.
      destruct (lib_call t (OTaskSwitch t' (Some 1)) s1) as [s2 r]. cbn [fst] in E.
      assert (H2 : conts_pz s2) by (eapply conts_pz_same; eauto).
      destruct r as [[v|e]|y frs]; [now apply IHk|now apply IHk|].
      cbn [fst snd]. split; auto. intros y0 frs0 k0 E0. inversion E0; subst. apply Hwrap.
    + pose proof (conts_pz_spawn_task s SStart child H Hc) as H1. destruct (spawn_task s SStart child) as [s1 t'].
      cbn [fst snd] in *. split; auto. intros y0 frs0 k0 E0. inversion E0; subst. apply Hwrap.
    + destruct (IHc t s H) as [H1 K1]. destruct (exec t child s) as [s1 o]. cbn [fst snd] in *.
      destruct o as [r|y frs kc].
      * change (new_future s1 None) with (fst (new_future s1 None), length (futs s1)). cbv beta iota.
        apply IHk. eapply conts_pz_same; [apply kproj_fut_finish|]. exact H1.
      * cbv zeta.
        match goal with |- context [new_future ?S ?O] =>
          change (new_future S O) with (fst (new_future S O), length (futs S)) end.
        cbv beta iota. apply IHk.
        match goal with |- conts_pz (call_soon_ ?S _) => change (conts_pz S) end.
        match goal with |- conts_pz (?S <| tasks := tasks ?S ++ [?TK] |>) => apply (conts_pz_app S TK) end.
        -- destruct y; exact H1.
        -- cbn. apply (K1 y frs kc eq_refl).
Qed.



Lemma finish_step_conts_pz t s o :
  conts_pz s -> (forall y frs k, o = OYield y frs k -> forall r, pz (k r)) ->
  conts_pz (finish_step t s o).
Proof.
  intros H K. unfold finish_step. destruct o as [[v|e]|y frs k].
  - set (s1 := sett s t (gett s t <| tcont_ := TFin |>)).
    assert (H1 : conts_pz s1) by (apply conts_pz_sett; [exact H|exact I]).
    destruct (tmustc (gett s t)).
    + eapply conts_pz_same; [apply kproj_fut_finish|]. apply conts_pz_sett; [exact H1|].
      apply (conts_pz_get s1 t H1).
    + eapply conts_pz_same; [apply kproj_fut_finish|]. exact H1.
  - set (s1 := sett s t (gett s t <| tcont_ := TFin |>)).
    assert (H1 : conts_pz s1) by (apply conts_pz_sett; [exact H|exact I]).
    destruct (is_cancel e); (eapply conts_pz_same; [apply kproj_fut_finish|]); exact H1.
  - set (s1 := sett s t (gett s t <| tcont_ := TSusp frs k |>)).
    assert (H1 : conts_pz s1) by (apply conts_pz_sett; [exact H|]; cbn; eapply K; eauto).
    destruct y as [|f]; [exact H1|].
    destruct (fblock (getf s1 f)); [|exact H1].
    destruct (Nat.eqb f (tfut (gett s t))); [exact H1|].
    set (s2 := setf s1 f (getf s1 f <| fblock := false |>)).
    set (s3 := add_done_callback s2 f (CbWakeup t)).
    assert (H3 : conts_pz s3).
    { eapply conts_pz_same; [apply kproj_add_done_callback|]. exact H1. }
    set (s4 := sett s3 t (gett s3 t <| twaiter := Some f |>)).
    assert (H4 : conts_pz s4) by (apply conts_pz_sett; [exact H3|apply (conts_pz_get s3 t H3)]).
    destruct (tmustc (gett s4 t)); [|exact H4].
    pose proof (kproj_cancel_awaitable s4 f) as E. destruct (cancel_awaitable s4 f) as [s5 ok]. cbn [fst] in E.
    assert (H5 : conts_pz s5) by (eapply conts_pz_same; eauto).
    destruct ok; [|exact H5]. apply conts_pz_sett; [exact H5|apply (conts_pz_get s5 t H5)].
Qed.

Lemma resume_exec_conts_pz t frs inp s k :
  conts_pz s -> (forall r, pz (k r)) ->
  let '(s3, o) := (let '(s1, r) := resume_stack t frs inp s in
                   match r with
                   | LDone rep => exec t (k rep) s1
                   | LSusp y frs' => (s1, OYield y frs' k) end) in
  conts_pz s3 /\ (forall y frs0 k0, o = OYield y frs0 k0 -> forall r, pz (k0 r)).
Proof.
  intros H K. pose proof (kproj_resume_stack frs t inp s) as E.
  destruct (resume_stack t frs inp s) as [s1 r]. cbn [fst] in E.
  assert (H1 : conts_pz s1) by (eapply conts_pz_same; eauto).
  destruct r as [rep|y frs1].
  - destruct (exec_conts_pz (k rep) (K rep) t s1 H1) as [H2 K2].
    destruct (exec t (k rep) s1) as [s3 o]. cbn [fst snd] in *. auto.
  - split; auto. intros y0 frs0 k0 E0. inversion E0; subst. exact K.
Qed.

Theorem step_task_conts_pz t exc s : conts_pz s -> conts_pz (step_task t exc s).
Proof.
  intros H. unfold step_task. destruct (tdone s t); [exact H|].
  pose proof (conts_pz_get s t H) as Hc.
  set (exc' := if tmustc (gett s t) then _ else exc).
  set (s1 := sett s t (gett s t <| tmustc := false |> <| twaiter := None |> <| tcont_ := TRun |>)).
  set (s2 := s1 <| current := Some t |>).
  assert (H2 : conts_pz s2) by (apply (conts_pz_sett s t); [exact H|exact I]).
  assert (Tail : forall s3 o, conts_pz s3 -> (forall y frs k, o = OYield y frs k -> forall r, pz (k r)) ->
                 conts_pz ((finish_step t s3 o) <| current := None |>)).
  { intros s3 o H3 K3. apply (finish_step_conts_pz t s3 o H3 K3). }
  destruct (tcont_ (gett s t)) as [c|frs k|y frs k| |]; cbn [cont_pz] in Hc.
  - destruct exc' as [e|].
    + apply Tail; auto. intros; discriminate.
    + destruct (exec_conts_pz c Hc t s2 H2) as [H3 K3]. destruct (exec t c s2) as [s3 o]. now apply Tail.
  - pose proof (resume_exec_conts_pz t frs (match exc' with None => RVal 0 | Some e => RExc e end) s2 k H2 Hc) as R.
    destruct (let '(s1, r) := resume_stack t frs _ s2 in _) as [s3 o]. destruct R. now apply Tail.
  - destruct exc' as [e|].
    + pose proof (resume_exec_conts_pz t frs (RExc e) s2 k H2 Hc) as R.
      destruct (let '(s1, r) := resume_stack t frs _ s2 in _) as [s3 o]. destruct R. now apply Tail.
    + apply Tail.
      * destruct y; exact H2.
      * intros y0 frs0 k0 E0. inversion E0; subst. exact Hc.
  - apply Tail; auto. intros; discriminate.
  - apply Tail; auto. intros; discriminate.
Qed.



Lemma interruptor_body_pz b : pz (interruptor_body b).
Proof. unfold interruptor_body. constructor; [exact I|]. intros [v|e]; constructor. Qed.

Theorem run_callback_conts_pz c s : conts_pz s -> conts_pz (run_callback c s).
Proof.
  intros H. destruct c; cbn [run_callback].
  - now apply step_task_conts_pz.
  - unfold wakeup. destruct (fstate_ (getf s f)); try now apply step_task_conts_pz.
    pose proof (kproj_fut_result s f) as E. destruct (fut_result s f) as [s' r]. cbn [fst] in E.
    apply step_task_conts_pz. eapply conts_pz_same; eauto.
  - pose proof (kproj_task_reinsert s t p) as E. destruct (task_reinsert s t p) as [s' r]. cbn [fst] in E.
    destruct r; eapply conts_pz_same; eauto.
  - exact H.
  - eapply conts_pz_same; [apply kproj_fut_finish|exact H].
  - apply conts_pz_new_task; auto. apply interruptor_body_pz.
  - unfold queue_iterated. destruct (ready _); exact H.
  - eapply conts_pz_same; [apply kproj_task_cancel|exact H].
Qed.






(* statically checkable environment actions *)
Definition act_pz (a : action) : Prop :=
  match a with
  | ASpawn how c => prio_ok how = true /\ pz c
  | ADo op => op_pz op
  | _ => True
  end.

Theorem do_action_conts_pz s a : conts_pz s -> act_pz a -> conts_pz (do_action s a).
Proof.
  intros H Ha. destruct a; cbn [do_action act_pz] in *.
  - unfold run_one. destruct (rq_popleft (ready s)) as [[h r]|]; auto.
    destruct (hcancelled _); auto. now apply run_callback_conts_pz.
  - unfold begin_iteration. eapply conts_pz_same; [|exact H].
    now rewrite kproj_move_due, kproj_drop_cancelled.
  - exact H.
  - apply conts_pz_spawn_task; [exact H|apply Ha].
  - eapply conts_pz_same; [apply kproj_lib_call|exact H].
Qed.






