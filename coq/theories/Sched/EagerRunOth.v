(* C01, whole runs: what the operations of OTHER tasks and of the loop leave alone of a tracked
   C task [tn].  For every operation, every user program and every state the predicate [X]
   below is preserved as long as the code that runs is not tn's own step:
     - every entry of the ready queue is a valid handle index, and a step/wake-up handle of tn
       in the ready queue is either a plain first/next step [HStep tn None] or the wake-up
       [HWakeup tn g] of the very future tn is waiting on (its _fut_waiter [w]);
     - a wake-up callback of tn registered on a pending future is on that same future;
     - tn's _fut_waiter and kind are unchanged (a C task cannot be thrown into);
     - no log entry with tn's tag is written.
   (Same proof architecture as FrameFacts.v / TaskFrame.v.) *)
From Coq Require Import QArith Sorting.Permutation.
From RecordUpdate Require Import RecordUpdate.
From Asynkit Require Import Base.Prelude Queue.ListFacts Queue.PQ Queue.PosPQ Queue.Exec
     Queue.HeapqProofs Sched.Model Sched.PartTables Sched.PartitionProofs Sched.TaskFrame.
Import RecordSetNotations.
Open Scope nat_scope.

(* the log entries written with task t's tag, from position n0 on *)
Definition tagged (t : nat) (x : nat * Z) : bool := Nat.eqb (fst x) (S t).
Definition evlog (t n0 : nat) (s : st) : list (nat * Z) := filter (tagged t) (skipn n0 (log s)).

Lemma filter_skipn_snoc {A} (p : A -> bool) n l x :
  p x = false -> filter p (skipn n (l ++ [x])) = filter p (skipn n l).
Proof.
  intros Hp. rewrite skipn_app, filter_app.
  destruct (n - length l) as [|m]; simpl; [rewrite Hp|destruct m]; apply app_nil_r.
Qed.

Section Oth.
Variable qok : rq -> Prop.
Hypothesis QS : QSpec qok.
Variable tn : nat.            (* the tracked task *)
Variable w : option nat.      (* its _fut_waiter *)
Variable n0 : nat.            (* log position from which its events are counted *)
Variable evs : list (nat * Z).
Variable lg : bool.           (* false: the two log/current clauses are switched off (tn's own step) *)

Definition hgood (cb : callback) : Prop :=
  match cb with
  | HStep t e => t = tn -> e = None
  | HWakeup t g => t = tn -> w = Some g
  | _ => True
  end.

Record X (s : st) : Prop := {
  x_qok : qok (ready s);
  x_rdy : forall h, In h (rq_items (ready s)) -> h < length (handles s) /\ hgood (hcb (geth s h));
  x_cbs : forall g, fdone s g = false -> In (CbWakeup tn) (fcbs (getf s g)) -> w = Some g;
  x_tn : tn < length (tasks s);
  x_tw : lg = true -> twaiter (gett s tn) = w;
  x_kc : tkind_ (gett s tn) = KC;
  x_cur : lg = true -> current s <> Some tn;
  x_log : lg = true -> evlog tn n0 s = evs }.

(* ------------------------------------------------------------ primitives *)
Lemma X_obs s s' :
  ready s' = ready s -> handles s' = handles s -> futs s' = futs s -> tasks s' = tasks s ->
  current s' = current s -> log s' = log s -> X s -> X s'.
Proof.
  intros E1 E2 E3 E4 E5 E6 [A1 A2 A3 A4 A5 A6 A7 A8].
  constructor; unfold geth, getf, gett, fdone, evlog, getf in *; rewrite ?E1, ?E2, ?E3, ?E4, ?E5, ?E6; auto.
Qed.

Lemma X_setl s l x : X s -> X (setl s l x). Proof. apply X_obs; reflexivity. Qed.
Lemma X_setc s l x : X s -> X (setc s l x). Proof. apply X_obs; reflexivity. Qed.
Lemma X_sete s l x : X s -> X (sete s l x). Proof. apply X_obs; reflexivity. Qed.
Lemma X_setb s l x : X s -> X (setb s l x). Proof. apply X_obs; reflexivity. Qed.
Lemma X_timers s r : X s -> X (s <| timers := r |>). Proof. apply X_obs; reflexivity. Qed.
Lemma X_adderr s e : X s -> X (adderr s e). Proof. apply X_obs; reflexivity. Qed.
Lemma X_blocks s r : X s -> X (s <| blocks := r |>). Proof. apply X_obs; reflexivity. Qed.
Lemma X_now s r : X s -> X (s <| now := r |>). Proof. apply X_obs; reflexivity. Qed.

Lemma X_setf s f x :
  (fstate_ x = FPending ->
   fstate_ (getf s f) = FPending /\
   (In (CbWakeup tn) (fcbs x) -> In (CbWakeup tn) (fcbs (getf s f)))) ->
  X s -> X (setf s f x).
Proof.
  intros Hx [A1 A2 A3 A4 A5 A6 A7 A8]. constructor; auto.
  intros g Hg Hi. unfold fdone in Hg. rewrite getf_setf in Hg, Hi.
  destruct (Nat.eqb g f && Nat.ltb f (length (futs s))) eqn:B.
  - apply andb_prop in B. destruct B as [B _]. apply Nat.eqb_eq in B. subst g.
    destruct (fstate_ x) eqn:Ex; try discriminate. destruct (Hx eq_refl) as [P1 P2].
    apply A3; [unfold fdone; rewrite P1; reflexivity|auto].
  - apply A3; auto.
Qed.

Lemma X_sett s t x :
  (t = tn -> twaiter x = twaiter (gett s tn) /\ tkind_ x = tkind_ (gett s tn)) ->
  X s -> X (sett s t x).
Proof.
  intros Hx [A1 A2 A3 A4 A5 A6 A7 A8]. constructor; auto.
  - rewrite length_tasks_sett; auto.
  - intros L. rewrite gett_sett. destruct (_ && _) eqn:B; auto.
    apply andb_prop in B. destruct B as [B _]. apply Nat.eqb_eq in B. symmetry in B.
    destruct (Hx B) as [P1 _]. rewrite P1. auto.
  - rewrite gett_sett. destruct (_ && _) eqn:B; auto.
    apply andb_prop in B. destruct B as [B _]. apply Nat.eqb_eq in B. symmetry in B.
    destruct (Hx B) as [_ P2]. congruence.
Qed.

Lemma X_ready_sub s r :
  qok r -> (forall h, In h (rq_items r) -> In h (rq_items (ready s))) -> X s -> X (s <| ready := r |>).
Proof.
  intros Hq Hs [A1 A2 A3 A4 A5 A6 A7 A8]. constructor; auto.
  intros h Hh. apply (A2 h). apply Hs. exact Hh.
Qed.

Lemma geth_app_old s x h : h < length (handles s) -> nth h (handles s ++ [x]) dh = geth s h.
Proof. intros H. unfold geth. apply app_nth1. exact H. Qed.

Lemma X_handles_app s x : X s -> X (s <| handles := handles s ++ [x] |>).
Proof.
  intros [A1 A2 A3 A4 A5 A6 A7 A8]. constructor; auto.
  intros h Hh. destruct (A2 h Hh) as [P1 P2]. split.
  - cbn. rewrite app_length. lia.
  - unfold geth. cbn. rewrite geth_app_old by exact P1. exact P2.
Qed.

Lemma X_call_soon s c : hgood c -> X s -> X (call_soon_ s c).
Proof.
  intros Hc H. pose proof (X_handles_app s (mkH c false) H) as [A1 A2 A3 A4 A5 A6 A7 A8].
  unfold call_soon_, call_soon. cbn [fst].
  set (s1 := s <| handles := handles s ++ [mkH c false] |>) in *.
  destruct (q_append QS (ready s1) (length (handles s)) (handle_priority s1 c) A1) as [Q1 Q2].
  constructor; auto.
  intros h Hh. cbn in Hh. eapply Permutation_in in Hh; [|exact Q2]. destruct Hh as [<-|Hh].
  - split.
    + cbn. rewrite app_length. simpl. lia.
    + unfold geth. cbn. rewrite app_nth2 by lia. rewrite Nat.sub_diag. exact Hc.
  - apply (A2 h Hh).
Qed.

Lemma X_call_at_eq s wh c s' h : call_at s wh c = (s', h) -> X s -> X s'.
Proof. intros E H. inversion E; subst. apply X_timers, X_handles_app, H. Qed.

Lemma X_cancel_handle s h : X s -> X (cancel_handle s h).
Proof.
  intros [A1 A2 A3 A4 A5 A6 A7 A8]. constructor; auto.
  intros h' Hh'. destruct (A2 h' Hh') as [P1 P2]. unfold cancel_handle. split.
  - cbn. rewrite set_nth_length. exact P1.
  - unfold geth. cbn. rewrite nth_set_nth. destruct (_ && _) eqn:B; [|exact P2].
    apply andb_prop in B. destruct B as [B _]. apply Nat.eqb_eq in B. subst h'. exact P2.
Qed.

Lemma X_call_pos s p c : hgood c -> X s -> X (call_pos s p c).
Proof.
  intros Hc H. unfold call_pos. rewrite call_soon_eq.
  pose proof (X_call_soon s c Hc H) as H1. set (s1 := call_soon_ s c) in *.
  destruct (rq_remove (ready s1) (length (handles s))) as [r|] eqn:R; [|exact H1].
  destruct (q_remove QS _ _ _ (x_qok _ H1) R) as [Q1 Q2].
  destruct (q_insert QS r p (length (handles s)) Q1) as [Q3 Q4].
  apply X_ready_sub; auto. intros h Hh.
  eapply Permutation_in; [symmetry; exact Q2|]. eapply Permutation_in; [exact Q4|exact Hh].
Qed.

Lemma X_addlog s n : X s -> X (addlog s n).
Proof.
  intros [A1 A2 A3 A4 A5 A6 A7 A8]. constructor; auto.
  intros L. unfold evlog, addlog. cbn. rewrite filter_skipn_snoc; [exact (A8 L)|].
  unfold tagged. cbn. destruct (current s) as [c|]; [|reflexivity].
  apply Nat.eqb_neq. intros E. apply (A7 L). congruence.
Qed.

Lemma X_futs_app s x : fcbs x = [] -> X s -> X (s <| futs := futs s ++ [x] |>).
Proof.
  intros Hx [A1 A2 A3 A4 A5 A6 A7 A8]. constructor; auto.
  intros g Hg Hi. unfold fdone, getf in Hg, Hi. cbn in Hg, Hi.
  destruct (Nat.lt_ge_cases g (length (futs s))) as [L|L].
  - rewrite app_nth1 in Hg, Hi by exact L. apply A3; auto.
  - rewrite app_nth2 in Hi by exact L. destruct (g - length (futs s)) as [|[|m]]; cbn in Hi.
    + rewrite Hx in Hi. destruct Hi.
    + destruct Hi.
    + destruct Hi.
Qed.
Lemma X_new_future s o : X s -> X (fst (new_future s o)).
Proof. intros H. unfold new_future. cbn [fst]. apply X_futs_app; auto. Qed.
Lemma X_new_future_eq s o s' f : new_future s o = (s', f) -> X s -> X s'.
Proof. intros E H. inversion E; subst. apply X_futs_app; auto. Qed.

Lemma X_tasks_app s x : X s -> X (s <| tasks := tasks s ++ [x] |>).
Proof.
  intros [A1 A2 A3 A4 A5 A6 A7 A8]. constructor; auto.
  - cbn. rewrite app_length. lia.
  - intros L. unfold gett. cbn. rewrite app_nth1 by exact A4. exact (A5 L).
  - unfold gett. cbn. rewrite app_nth1 by exact A4. exact A6.
Qed.

Lemma X_current s c : c <> Some tn -> X s -> X (s <| current := c |>).
Proof. intros Hc [A1 A2 A3 A4 A5 A6 A7 A8]. constructor; auto. Qed.

(* with the clauses about tn's own fields switched off, tn's waiter may be rewritten *)
Lemma X_sett_free s t x :
  lg = false -> (t = tn -> tkind_ x = tkind_ (gett s tn)) -> X s -> X (sett s t x).
Proof.
  intros Lg Hx [A1 A2 A3 A4 A5 A6 A7 A8]. constructor; auto.
  - rewrite length_tasks_sett; auto.
  - intros L. congruence.
  - rewrite gett_sett. destruct (_ && _) eqn:B; auto.
    apply andb_prop in B. destruct B as [B _]. apply Nat.eqb_eq in B. symmetry in B.
    rewrite (Hx B). exact A6.
Qed.

(* tn registers its wake-up on the future it is going to wait on *)
Lemma X_setf_own s f x :
  w = Some f ->
  (fstate_ x = FPending -> fstate_ (getf s f) = FPending) ->
  X s -> X (setf s f x).
Proof.
  intros Hw Hx [A1 A2 A3 A4 A5 A6 A7 A8]. constructor; auto.
  intros g Hg Hi. unfold fdone in Hg. rewrite getf_setf in Hg, Hi.
  destruct (Nat.eqb g f && Nat.ltb f (length (futs s))) eqn:B.
  - apply andb_prop in B. destruct B as [B _]. apply Nat.eqb_eq in B. subst g. exact Hw.
  - apply A3; auto.
Qed.

(* side conditions *)
Ltac xf_side :=
  let Hp := fresh "Hp" in let Hi := fresh "Hi" in
  intros Hp; split; [exact Hp|intros Hi; first [exact Hi|cbn in Hi; contradiction]].
Ltac xt_side :=
  first [ let Heq := fresh "Heq" in
          intros Heq; try rewrite Heq in *; split; reflexivity
        | intros Heq; exfalso; congruence
        | intros Heq; exfalso; auto; fail ].
Ltac xh_side := first [exact Logic.I | cbn; intros; congruence | cbn; auto; fail].

Ltac case_goal_X :=
  match goal with
  | |- X (if ?b then _ else _) => destruct b eqn:?
  | |- X (match ?x with _ => _ end) =>
      lazymatch type of x with
      | prod _ _ => let a := fresh "s" in let b := fresh "r" in destruct x as [a b] eqn:?
      | _ => destruct x eqn:?
      end
  | |- X (fst (if ?b then _ else _)) => destruct b eqn:?
  | |- X (fst (match ?x with _ => _ end)) =>
      lazymatch type of x with
      | prod _ _ => let a := fresh "s" in let b := fresh "r" in destruct x as [a b] eqn:?
      | _ => destruct x eqn:?
      end
  | |- X (fst (_, _)) => cbn [fst]
  end.

Ltac xprim := fail.
Ltac xstep :=
  first
    [ assumption
    | (apply X_call_soon; [xh_side|]) | apply X_cancel_handle | (apply X_call_pos; [xh_side|])
    | (apply X_setf; [xf_side|]) | (apply X_sett; [xt_side|]) | apply X_setl | apply X_setc | apply X_sete
    | apply X_setb | apply X_timers | apply X_adderr | apply X_addlog | apply X_new_future
    | apply X_blocks
    | eapply X_new_future_eq; [eassumption|]
    | eapply X_call_at_eq; [eassumption|]
    | xprim
    | case_goal_X ].
Ltac xgo := repeat xstep.
Ltac xop E := repeat case_in E; inversion E; subst; clear E; xgo.

Lemma X_fold {A} (f : st -> A -> st) :
  (forall s a, X s -> X (f s a)) -> forall l s, X s -> X (fold_left f l s).
Proof. intros H. induction l as [|a l IH]; intros s HG; simpl; auto. Qed.

Lemma X_fold_soon f : forall cbs s,
  (forall c, In c cbs -> hgood (cb_callback f c)) -> X s ->
  X (fold_left (fun s c => call_soon_ s (cb_callback f c)) cbs s).
Proof.
  induction cbs as [|c cbs IH]; intros s Hc H; simpl; auto.
  apply IH; [intros; apply Hc; right; auto|]. apply X_call_soon; [apply Hc; left; auto|exact H].
Qed.

Lemma X_fut_finish s f x s' ok : fut_finish s f x = (s', ok) -> X s -> X s'.
Proof.
  intros E H. unfold fut_finish in E. destruct (fstate_ (getf s f)) eqn:Ef; inversion E; subst; auto.
  unfold schedule_callbacks.
  set (s1 := setf s f (getf s f <| fstate_ := x |>)).
  assert (H1 : X s1).
  { apply X_setf; [|exact H]. intros Hp. split; [exact Ef|auto]. }
  assert (Hcb : forall c, In c (fcbs (getf s1 f)) -> hgood (cb_callback f c)).
  { intros c Hc. destruct c as [t|n]; cbn; [|exact Logic.I]. intros ->.
    apply (x_cbs s H f); [unfold fdone; rewrite Ef; reflexivity|].
    unfold s1 in Hc. rewrite getf_setf in Hc. destruct (_ && _); exact Hc. }
  apply X_fold_soon; [exact Hcb|]. apply X_setf; [|exact H1].
  intros Hp. split; [|cbn; contradiction].
  unfold s1 in Hp |- *. rewrite getf_setf in Hp |- *. destruct (_ && _); [exact Hp|exact Ef].
Qed.
Lemma X_fut_finish_fst s f x : X s -> X (fst (fut_finish s f x)).
Proof. intros H. destruct (fut_finish s f x) eqn:E. eapply X_fut_finish; eauto. Qed.

Lemma X_add_done_callback s f t : t <> tn -> X s -> X (add_done_callback s f (CbWakeup t)).
Proof.
  intros N H. unfold add_done_callback. destruct (fdone s f).
  - apply X_call_soon; [cbn; intros; congruence|exact H].
  - apply X_setf; [|exact H]. intros Hp. split; [exact Hp|]. cbn. intros Hi.
    apply in_app_or in Hi. destruct Hi as [Hi|[Hi|[]]]; [exact Hi|]. congruence.
Qed.
Lemma X_remove_done_callback s f c : X s -> X (remove_done_callback s f c).
Proof.
  intros H. unfold remove_done_callback. apply X_setf; [|exact H]. intros Hp. split; [exact Hp|].
  cbn. intros Hi. apply filter_In in Hi. apply Hi.
Qed.

Ltac xprim ::=
  first
    [ eapply X_fut_finish; [eassumption|]
    | apply X_fut_finish_fst | apply X_remove_done_callback ].

Lemma X_task_cancel : forall fuel s t s' ok, task_cancel fuel s t = (s', ok) -> X s -> X s'.
Proof.
  induction fuel as [|fuel IH]; intros s t s' ok E H; cbn [task_cancel] in E.
  - xop E.
  - repeat case_in E; inversion E; subst; clear E; xgo;
      match goal with Hc : task_cancel fuel _ _ = _ |- _ => try (eapply IH in Hc; [|eassumption]) end; xgo.
Qed.
Lemma X_cancel_task s t s' ok : cancel_task s t = (s', ok) -> X s -> X s'.
Proof. apply X_task_cancel. Qed.
Lemma X_cancel_awaitable s f s' ok : cancel_awaitable s f = (s', ok) -> X s -> X s'.
Proof.
  unfold cancel_awaitable. destruct (fowner (getf s f)); [apply X_cancel_task|apply X_fut_finish].
Qed.

Ltac xprim ::=
  first
    [ eapply X_fut_finish; [eassumption|]
    | apply X_fut_finish_fst | apply X_remove_done_callback
    | eapply X_task_cancel; [eassumption|]
    | eapply X_cancel_task; [eassumption|]
    | eapply X_cancel_awaitable; [eassumption|] ].

(* ------------------------------------------------------------ locks *)
Lemma X_take_lock s l t s' : take_lock s l t = inl s' -> X s -> X s'.
Proof. intros E H. unfold take_lock in E. xop E. Qed.

Lemma X_wake_up_first_p s l : X s -> X (wake_up_first_p s l).
Proof. intros H. unfold wake_up_first_p. xgo. Qed.
Lemma X_wake_up_first_a s l : X s -> X (wake_up_first_a s l).
Proof. intros H. unfold wake_up_first_a. xgo. Qed.
Lemma X_task_reschedule s t : X s -> X (task_reschedule s t).
Proof.
  intros H. unfold task_reschedule.
  destruct (q_resched QS (ready s) (task_key s t) (effective_priority s t) (x_qok s H)) as [Q1 Q2].
  apply X_ready_sub; auto. intros h Hh. eapply Permutation_in; [exact Q2|exact Hh].
Qed.

Lemma X_propagate_task : forall fuel s t, X s -> X (propagate_task fuel s t).
Proof.
  induction fuel as [|fuel IH]; intros s t H; cbn [propagate_task].
  - destruct (negb _); auto.
    set (s' := if task_is_runnable s t then task_reschedule s t else s).
    assert (H' : X s') by (unfold s'; destruct (task_is_runnable s t); [apply X_task_reschedule|]; auto).
    clearbody s'. clear H s. rename s' into s, H' into H.
    destruct (twaiting _); auto.
  - destruct (negb _); auto.
    set (s' := if task_is_runnable s t then task_reschedule s t else s).
    assert (H' : X s') by (unfold s'; destruct (task_is_runnable s t); [apply X_task_reschedule|]; auto).
    clearbody s'. clear H s. rename s' into s, H' into H.
    destruct (twaiting (gett s t)) as [l|]; auto.
    set (s1 := match lowner (getl s l) with Some o => propagate_task fuel s o | None => s end).
    assert (H1 : X s1) by (unfold s1; destruct (lowner (getl s l)); auto).
    clearbody s1. xgo.
Qed.
Lemma X_propagate_priority s t : X s -> X (propagate_priority s t).
Proof. apply X_propagate_task. Qed.

Lemma X_fut_result s f s' r : fut_result s f = (s', r) -> X s -> X s'.
Proof. intros E H. unfold fut_result in E. xop E. Qed.
Lemma X_await_fut s f outer s' r : await_fut s f outer = (s', r) -> X s -> X s'.
Proof.
  intros E H. unfold await_fut in E. destruct (fdone s f).
  - destruct (fut_result s f) as [s1 r1] eqn:F. inversion E; subst. eapply X_fut_result; eauto.
  - inversion E; subst. xgo.
Qed.

Ltac xprim ::=
  first
    [ eapply X_fut_finish; [eassumption|]
    | apply X_fut_finish_fst | apply X_remove_done_callback
    | eapply X_task_cancel; [eassumption|]
    | eapply X_cancel_task; [eassumption|]
    | eapply X_cancel_awaitable; [eassumption|]
    | eapply X_take_lock; [eassumption|]
    | apply X_wake_up_first_p | apply X_wake_up_first_a | apply X_task_reschedule
    | apply X_propagate_priority
    | eapply X_fut_result; [eassumption|]
    | eapply X_await_fut; [eassumption|] ].

Lemma X_acquire_p_start s t l s' r : acquire_p_start s t l = (s', r) -> X s -> X s'.
Proof. intros E H. unfold acquire_p_start in E. xop E. Qed.
Lemma X_acquire_p_finish s t l f had inp s' r :
  acquire_p_finish s t l f had inp = (s', r) -> X s -> X s'.
Proof.
  intros E H. unfold acquire_p_finish in E.
  set (p := match inp with RVal _ => _ | RExc e => (s, RExc e) end) in E.
  assert (H1 : X (fst p)).
  { unfold p. destruct inp; [|exact H]. destruct (take_lock s l t) eqn:T; [|exact H].
    eapply X_take_lock; eauto. }
  destruct p as [s1 r1]. cbn [fst] in H1. inversion E; subst. xgo.
Qed.
Lemma X_release_p s t l s' r : release_p s t l = (s', r) -> X s -> X s'.
Proof. intros E H. unfold release_p in E. xop E. Qed.
Lemma X_acquire_a_start s l s' r : acquire_a_start s l = (s', r) -> X s -> X s'.
Proof. intros E H. unfold acquire_a_start in E. xop E. Qed.
Lemma X_acquire_a_finish s l f inp s' r : acquire_a_finish s l f inp = (s', r) -> X s -> X s'.
Proof. intros E H. unfold acquire_a_finish in E. xop E. Qed.
Lemma X_release_a s l s' r : release_a s l = (s', r) -> X s -> X s'.
Proof. intros E H. unfold release_a in E. xop E. Qed.
Lemma X_acquire_start s t l s' r : acquire_start s t l = (s', r) -> X s -> X s'.
Proof.
  unfold acquire_start. destruct (lkind_ (getl s l)); [apply X_acquire_p_start|apply X_acquire_a_start].
Qed.
Lemma X_release s t l s' r : release s t l = (s', r) -> X s -> X s'.
Proof. unfold release. destruct (lkind_ (getl s l)); [apply X_release_p|apply X_release_a]. Qed.

(* task_throw: a C task is refused *)
Lemma X_find s key h r : rq_find (ready s) key true = Some (h, r) -> X s -> X (s <| ready := r |>).
Proof.
  intros F H. destruct (q_find QS _ _ _ _ (x_qok s H) F) as (Q1 & _ & Q2).
  apply X_ready_sub; auto. intros h' Hh'. eapply Permutation_in; [symmetry; exact Q2|right; exact Hh'].
Qed.

Lemma X_task_throw s t e s' r : task_throw s t e = (s', r) -> X s -> X s'.
Proof.
  intros E H. unfold task_throw in E. destruct (tdone s t); [inversion E; subst; exact H|].
  destruct (Nat.eq_dec t tn) as [->|N].
  { rewrite (x_kc s H) in E. inversion E; subst; exact H. }
  destruct (tkind_ (gett s t)); [inversion E; subst; exact H|].
  assert (Go : forall u, X u -> X (call_soon_ (sett u t (gett u t <| twaiter := None |>)) (HStep t (Some e)))).
  { intros u Hu. apply X_call_soon; [cbn; intros; congruence|]. apply X_sett; [xt_side|exact Hu]. }
  repeat case_in E; inversion E; subst; clear E; auto;
    try (apply Go; first [apply X_remove_done_callback; exact H | eapply X_find; eauto]).
Qed.

Lemma X_task_reinsert s t p s' r : task_reinsert s t p = (s', r) -> X s -> X s'.
Proof.
  intros E H. unfold task_reinsert in E.
  destruct (rq_find (ready s) (task_key s t) true) as [[h r0]|] eqn:F; inversion E; subst; auto.
  destruct (q_find QS _ _ _ _ (x_qok s H) F) as (Q1 & _ & Q2).
  destruct (q_insert QS r0 p h Q1) as [Q3 Q4].
  apply X_ready_sub; auto. intros h' Hh'.
  eapply Permutation_in; [symmetry; exact Q2|]. eapply Permutation_in; [exact Q4|exact Hh'].
Qed.

Lemma X_task_interrupt_start s t e s' r : task_interrupt_start s t e = (s', r) -> X s -> X s'.
Proof.
  intros E H. unfold task_interrupt_start in E.
  destruct (task_throw s t e) as [s1 r1] eqn:T. pose proof (X_task_throw _ _ _ _ _ T H) as H1.
  destruct r1; [|inversion E; subst; auto].
  destruct (task_reinsert s1 t 0) as [s2 r2] eqn:R. pose proof (X_task_reinsert _ _ _ _ _ R H1) as H2.
  destruct r2; inversion E; subst; auto.
Qed.

Lemma X_interruptor : forall fuel s b i s' r, interruptor fuel s b i = (s', r) -> X s -> X s'.
Proof.
  induction fuel as [|fuel IH]; intros s b i s' r E H; cbn [interruptor] in E.
  - inversion E; subst; auto.
  - destruct (Nat.leb 3 i); [inversion E; subst; auto|].
    destruct (negb (bactive (getb s b))); [eapply IH; eauto|].
    destruct (task_interrupt_start s _ _) as [s1 r1] eqn:T.
    pose proof (X_task_interrupt_start _ _ _ _ _ T H) as H1.
    repeat case_in E; inversion E; subst; auto; eapply IH; eauto.
Qed.
Lemma X_interruptor_wrap s r s' r' : interruptor_wrap s r = (s', r') -> X s -> X s'.
Proof. intros E H. pose proof (interruptor_wrap_fst s r) as F. rewrite E in F. simpl in F. subst. exact H. Qed.

(* ------------------------------------------------------------ conditions *)
Lemma X_notify_p s c n : X s -> X (notify_p s c n).
Proof.
  intros H. unfold notify_p.
  match goal with |- context [fold_left ?F ?l ?a] =>
    assert (HF : X (fst (fst (fold_left F l a)))) end.
  { match goal with |- context [fold_left ?F ?l ?a] => generalize l; intros l0 end.
    assert (Y : forall l (a : st * nat * nat), X (fst (fst a)) ->
      X (fst (fst (fold_left (fun '(s1, taken, cnt) (f : nat) =>
               if n <=? cnt then (s1, taken, cnt)
               else if fdone s1 f then (s1, S taken, cnt)
                    else (fst (fut_finish s1 f (FResult 1)), S taken, S cnt)) l a)))).
    { induction l as [|f l IH]; intros [[s1 tk] cnt] Ha; simpl; auto. apply IH.
      destruct (n <=? cnt); auto. destruct (fdone s1 f); auto. simpl. xgo. }
    apply Y. exact H. }
  destruct (fold_left _ _ _) as [[s1 tk] cnt]. cbn [fst] in HF. xgo.
Qed.
Lemma X_notify_i s c n : X s -> X (notify_i s c n).
Proof.
  intros H. unfold notify_i.
  assert (Y : forall l (a : st * nat), X (fst a) ->
    X (fst (fold_left (fun '(s1, cnt) (f : nat) =>
             if n <=? cnt then (s1, cnt)
             else if fdone s1 f then (s1, cnt)
                  else (fst (fut_finish s1 f (FResult 0)), S cnt)) l a))).
  { induction l as [|f l IH]; intros [s1 cnt] Ha; simpl; auto. apply IH.
    destruct (n <=? cnt); auto. destruct (fdone s1 f); auto. simpl. xgo. }
  apply Y. exact H.
Qed.
Lemma X_reacquire s t c pc err body s' r :
  reacquire s t c pc err body = (s', r) -> X s -> X s'.
Proof.
  intros E H. unfold reacquire in E.
  destruct (acquire_start s t _) as [s1 r1] eqn:A. pose proof (X_acquire_start _ _ _ _ _ A H).
  repeat case_in E; inversion E; subst; auto.
Qed.
Lemma X_cond_p_after s c r s' r' : cond_p_after s c r = (s', r') -> X s -> X s'.
Proof. intros E H. unfold cond_p_after in E. destruct r; inversion E; subst; auto. apply X_notify_p; auto. Qed.
Lemma X_queue_iterated s : X s -> X (queue_iterated s).
Proof.
  intros H. unfold queue_iterated. destruct (ready s) as [l|p] eqn:R; [exact H|].
  pose proof (x_qok s H) as Q. rewrite R in Q. destruct (q_iter QS p Q) as [Q1 Q2].
  apply X_ready_sub; auto. intros h Hh. rewrite R. eapply Permutation_in; [exact Q2|exact Hh].
Qed.

Ltac xprim ::=
  first
    [ eapply X_fut_finish; [eassumption|]
    | apply X_fut_finish_fst | apply X_remove_done_callback
    | eapply X_task_cancel; [eassumption|]
    | eapply X_cancel_task; [eassumption|]
    | eapply X_cancel_awaitable; [eassumption|]
    | eapply X_take_lock; [eassumption|]
    | apply X_wake_up_first_p | apply X_wake_up_first_a | apply X_task_reschedule
    | apply X_propagate_priority
    | eapply X_fut_result; [eassumption|]
    | eapply X_await_fut; [eassumption|]
    | eapply X_acquire_start; [eassumption|]
    | eapply X_release; [eassumption|]
    | eapply X_acquire_p_finish; [eassumption|]
    | eapply X_acquire_a_finish; [eassumption|]
    | eapply X_task_throw; [eassumption|]
    | eapply X_task_reinsert; [eassumption|]
    | eapply X_task_interrupt_start; [eassumption|]
    | eapply X_interruptor; [eassumption|]
    | eapply X_interruptor_wrap; [eassumption|]
    | apply X_notify_p | apply X_notify_i | apply X_queue_iterated
    | eapply X_reacquire; [eassumption|]
    | eapply X_cond_p_after; [eassumption|] ].

(* ------------------------------------------------------------ library calls, frames, user code *)
Lemma X_event_set_fold : forall ws s,
  X s -> X (fold_left (fun s f => if fdone s f then s else fst (fut_finish s f (FResult 1))) ws s).
Proof. intros ws. apply X_fold. intros. xgo. Qed.

Lemma X_lib_call t op s s' r : lib_call t op s = (s', r) -> X s -> X s'.
Proof.
  intros E H. destruct op; cbn [lib_call] in E;
    try (xop E; fail).
  all: try (repeat case_in E; inversion E; subst; auto; apply X_event_set_fold; xgo; fail).
  all: try (inversion E; subst; apply X_cancel_handle, X_setb, H).
Qed.

Lemma X_frame_resume t fr inp s s' r : frame_resume t fr inp s = (s', r) -> X s -> X s'.
Proof.
  intros E H. destruct fr; cbn [frame_resume] in E; try (xop E; fail);
    try (unfold interruptor_wrap in E; xop E; fail).
Qed.

Lemma X_resume_stack t : forall frs inp s s' r,
  resume_stack t frs inp s = (s', r) -> X s -> X s'.
Proof.
  induction frs as [|fr rest IH]; intros inp s s' r E H; cbn [resume_stack] in E.
  - inversion E; subst; auto.
  - destruct (frame_resume t fr inp s) as [s1 r1] eqn:F.
    pose proof (X_frame_resume _ _ _ _ _ _ F H) as H1.
    destruct r1; [eapply IH; eauto|inversion E; subst; auto].
Qed.

Lemma X_new_task s kind p c s' t : new_task s kind p c = (s', t) -> X s -> X s'.
Proof.
  intros E H. unfold new_task in E.
  destruct (new_future s (Some (length (tasks s)))) as [s1 f] eqn:N.
  pose proof (X_new_future_eq _ _ _ _ N H) as H1. inversion E; subst.
  apply X_call_soon.
  - cbn. intros _. reflexivity.
  - apply X_tasks_app. exact H1.
Qed.
Lemma X_spawn_task s how c s' t : spawn_task s how c = (s', t) -> X s -> X s'.
Proof. unfold spawn_task. destruct how; apply X_new_task. Qed.

Lemma X_exec t : forall c s s' o, exec t c s = (s', o) -> X s -> X s'.
Proof.
  induction c as [v|e|op k IH|how child IHc k IHk]; intros s s' o E H.
  - inversion E; subst; auto.
  - inversion E; subst; auto.
  - cbn [exec] in E. destruct (lib_call t op s) as [s1 r1] eqn:L.
    pose proof (X_lib_call _ _ _ _ _ L H) as H1.
    destruct r1; [eapply IH; eauto|inversion E; subst; auto].
  - destruct how; cbn [exec] in E;
      try (destruct (spawn_task s _ child) as [s1 t'] eqn:S;
           pose proof (X_spawn_task _ _ _ _ _ S H) as H1).
    + eapply IHk; eauto.
    + eapply IHk; eauto.
    + eapply IHk; eauto.
    + destruct (lib_call t _ s1) as [s2 r2] eqn:L. pose proof (X_lib_call _ _ _ _ _ L H1) as H2.
      destruct r2 as [[v|e]|]; [eapply IHk; eauto|eapply IHk; eauto|inversion E; subst; auto].
    + inversion E; subst; auto.
    + destruct (exec t child s) as [s1 o1] eqn:C. pose proof (IHc _ _ _ C H) as H1.
      destruct o1 as [r1|y frs kc].
      * eapply IHk; [exact E|]. xgo.
      * eapply IHk; [exact E|].
        match goal with |- X (call_soon_ (?u <| futs := ?a |> <| tasks := ?b |>) _) =>
          assert (HU : X u) end.
        { destruct y; xgo. }
        apply X_call_soon.
        -- cbn. intros _. reflexivity.
        -- apply X_tasks_app. apply X_futs_app; [reflexivity|exact HU].
Qed.

(* ------------------------------------------------------------ other tasks' steps and the loop *)
Lemma X_finish_step c s o : c <> tn -> X s -> X (finish_step c s o).
Proof.
  intros N H. unfold finish_step.
  destruct o as [[v|e]|[|f] frs k];
    repeat first [ xstep | (apply X_add_done_callback; [exact N|])
                 | (apply X_call_soon; [cbn; intros; congruence|]) ].
Qed.

Lemma X_step_task c exc s : c <> tn -> X s -> X (step_task c exc s).
Proof.
  intros N H. unfold step_task. destruct (tdone s c); [apply X_adderr, H|].
  match goal with |- context [sett s c ?x <| current := Some c |>] =>
    set (s1 := sett s c x <| current := Some c |>) end.
  assert (H1 : X s1).
  { unfold s1. apply X_current; [congruence|]. apply X_sett; [xt_side|exact H]. }
  match goal with |- X (let '(s2, o) := ?p in _) =>
    assert (HP : X (fst p)); [|destruct p as [sx ox]] end.
  { destruct (tcont_ (gett s c)) as [c0|frs k|y frs k| |].
    - destruct (if tmustc (gett s c) then _ else exc); [exact H1|].
      destruct (exec c c0 s1) as [s2 o] eqn:E. cbn [fst]. eapply X_exec; [exact E|exact H1].
    - destruct (resume_stack c frs _ s1) as [s2 r] eqn:E.
      pose proof (X_resume_stack c _ _ _ _ _ E H1) as H2.
      destruct r; [|exact H2]. destruct (exec c (k r) s2) as [s3 o] eqn:E3. cbn [fst].
      eapply X_exec; eauto.
    - destruct (if tmustc (gett s c) then _ else exc).
      + destruct (resume_stack c frs _ s1) as [s2 r] eqn:E.
        pose proof (X_resume_stack c _ _ _ _ _ E H1) as H2.
        destruct r; [|exact H2]. destruct (exec c (k r) s2) as [s3 o] eqn:E3. cbn [fst].
        eapply X_exec; eauto.
      + cbn [fst]. destruct y; [exact H1|]. apply X_setf; [xf_side|exact H1].
    - exact H1.
    - exact H1. }
  cbn [fst] in HP. apply X_current; [discriminate|]. apply X_finish_step; [exact N|exact HP].
Qed.

Lemma X_wakeup c f s : c <> tn -> X s -> X (wakeup c f s).
Proof.
  intros N H. unfold wakeup. destruct (fstate_ (getf s f)); try (apply X_step_task; [exact N|exact H]).
  destruct (fut_result s f) as [s1 r] eqn:E.
  apply X_step_task; [exact N|]. eapply X_fut_result; eauto.
Qed.

Lemma X_run_callback cb s : task_of_cb cb <> Some tn -> X s -> X (run_callback cb s).
Proof.
  intros N H. destruct cb as [t e|t f|t p|n|f v|b| |t]; cbn [run_callback].
  - apply X_step_task; [|exact H]. intros ->. apply N. reflexivity.
  - apply X_wakeup; [|exact H]. intros ->. apply N. reflexivity.
  - destruct (task_reinsert s t p) as [s1 r] eqn:E.
    pose proof (X_task_reinsert s t p s1 r E H) as H1.
    destruct r; [exact H1|apply X_adderr, H1].
  - apply X_addlog, H.
  - apply X_fut_finish_fst, H.
  - destruct (new_task s KC None (interruptor_body b)) as [s1 t1] eqn:E. cbn [fst].
    eapply X_new_task; [exact E|exact H].
  - apply X_queue_iterated, X_addlog, H.
  - destruct (cancel_task s t) as [s1 ok] eqn:E. cbn [fst]. eapply X_cancel_task; [exact E|exact H].
Qed.

Lemma X_pop s h r : rq_popleft (ready s) = Some (h, r) -> X s -> X (s <| ready := r |>).
Proof.
  intros P H. destruct (q_popleft QS _ _ _ (x_qok s H) P) as [Q1 Q2].
  apply X_ready_sub; auto. intros h' Hh'. eapply Permutation_in; [symmetry; exact Q2|right; exact Hh'].
Qed.

Lemma X_run_one s : not_stepping tn s AStep -> X s -> X (run_one s).
Proof.
  intros N H. unfold run_one. destruct (rq_popleft (ready s)) as [[h r]|] eqn:Pp; [|exact H].
  change (geth (s <| ready := r |>) h) with (geth s h).
  pose proof (X_pop s h r Pp H) as H1.
  destruct (hcancelled (geth s h)) eqn:Hc; [exact H1|].
  apply X_run_callback; [|exact H1]. apply (N h r Pp Hc).
Qed.

(* timers: their handles are not step/wake-up handles (WF of Inv09) *)
Definition timers_nt (s : st) : Prop := forall wh h, In (wh, h) (timers s) -> nontask s h.

Lemma X_ready_append_nt s h p : nontask s h -> X s -> X (s <| ready := rq_append (ready s) h p |>).
Proof.
  intros [N1 N2] H. destruct (q_append QS (ready s) h p (x_qok s H)) as [Q1 Q2].
  destruct H as [A1 A2 A3 A4 A5 A6 A7 A8]. constructor; auto.
  intros h' Hh'. cbn in Hh'. eapply Permutation_in in Hh'; [|exact Q2]. destruct Hh' as [<-|Hh'].
  - split; [exact N1|]. unfold task_of_handle in N2. change (geth (s <| ready := rq_append (ready s) h p |>) h) with (geth s h).
    destruct (hcb (geth s h)); cbn in N2; try discriminate; exact Logic.I.
  - apply (A2 h' Hh').
Qed.

Lemma X_begin_iteration s : timers_nt s -> X s -> X (begin_iteration s).
Proof.
  intros T H. unfold begin_iteration. generalize (length (timers s)). intros n.
  assert (D : forall fuel u, timers_nt u -> X u -> timers_nt (drop_cancelled fuel u) /\ X (drop_cancelled fuel u)).
  { induction fuel as [|fuel IH]; intros u Tu Hu; cbn [drop_cancelled]; [auto|].
    destruct (timers u) as [|[wh h] tl] eqn:Et; [auto|]. destruct (hcancelled _); [|auto].
    destruct (HeapqModel.heappop _ _ _) as [[x tm]|] eqn:Hp; [|auto].
    apply IH; [|apply X_timers, Hu].
    intros w' h' Hi. eapply nontask_eq; [reflexivity|]. apply (Tu w' h'). rewrite Et.
    eapply Permutation_in; [symmetry; apply (heappop_perm timer_lt tdflt timer_lt_asym timer_le_trans _ _ _ Hp)|].
    right; exact Hi. }
  assert (M : forall fuel u, timers_nt u -> X u -> X (move_due fuel u)).
  { induction fuel as [|fuel IH]; intros u Tu Hu; cbn [move_due]; [auto|].
    destruct (timers u) as [|[wh h] tl] eqn:Et; [auto|]. destruct (Qle_bool _ _); [|auto].
    destruct (HeapqModel.heappop _ _ _) as [[[x h'] tm]|] eqn:Hp; [|auto].
    pose proof (heappop_perm timer_lt tdflt timer_lt_asym timer_le_trans _ _ _ Hp) as P.
    assert (Nh : nontask u h').
    { apply (Tu x h'). rewrite Et. eapply Permutation_in; [symmetry; exact P|left; reflexivity]. }
    apply IH.
    - intros w' h'' Hi. eapply nontask_eq; [reflexivity|]. apply (Tu w' h''). rewrite Et.
      eapply Permutation_in; [symmetry; exact P|right; exact Hi].
    - apply (X_ready_append_nt (u <| timers := tm |>)); [eapply nontask_eq; [reflexivity|exact Nh]|].
      apply X_timers, Hu. }
  destruct (D n s T H) as [T1 H1]. apply M; assumption.
Qed.

Theorem X_action s a : not_stepping tn s a -> timers_nt s -> X s -> X (do_action s a).
Proof.
  intros N T H. destruct a as [| |d|how c|op]; cbn [do_action].
  - apply X_run_one; assumption.
  - apply X_begin_iteration; assumption.
  - apply X_now, H.
  - destruct (spawn_task s how c) as [s1 t] eqn:E. cbn [fst]. eapply X_spawn_task; [exact E|exact H].
  - destruct (lib_call 0 op s) as [s1 r] eqn:E. cbn [fst]. eapply X_lib_call; [exact E|exact H].
Qed.

End Oth.
