(* C11, priority loop: what propagate_priority does for a RUNNABLE PriorityTask holder that is not
   itself queued on a PriorityLock -
   it asks the loop to re-key the holder's ready-queue entry with its current effective
   priority (PrioritySchedulingMixin.task_reschedule -> PosPriorityQueue.reschedule), and
   nothing else; no effective priority changes.  (The analysis of pos_reschedule itself -
   the found regular entry gets PriorityValue(p, n_ins, 0, class 1), positional entries keep
   their place - is Queue/PosProofs.reschedule_inv_pos for the invariant; the key equation
   is not mechanised here.) *)
From Coq Require Import QArith.
From RecordUpdate Require Import RecordUpdate.
From Asynkit Require Import Base.Prelude Queue.PQ Queue.PosPQ Queue.Exec Sched.Model Sched.Tables
  Sched.QFacts Sched.LockInv Sched.InheritEprio Sched.InheritHandover Sched.InheritKeys.
Import RecordSetNotations.
Open Scope nat_scope.

(* F17 repair: a runnable task that is still queued on a PriorityLock (a cancelled / interrupted /
   woken waiter that has not run its finally yet) ALSO forwards the notification, so "only the
   ready queue changes" needs the hypothesis that the runnable holder is not queued on a lock. *)
Lemma propagate_runnable fuel s h :
  is_prio_task s h = true -> task_is_runnable s h = true -> twaiting (gett s h) = None ->
  propagate_task fuel s h = task_reschedule s h.
Proof.
  intros Hp Hr Hw.
  assert (Hw' : twaiting (gett (task_reschedule s h) h) = None) by exact Hw.
  destruct fuel; simpl; rewrite Hp, Hr; cbn [negb]; rewrite Hw'; reflexivity.
Qed.

Theorem immediate_reschedule s h :
  is_prio_task s h = true -> task_is_runnable s h = true -> twaiting (gett s h) = None ->
  let s' := propagate_priority s h in
  s' = s <| ready := rq_reschedule (ready s) (task_key s h) (effective_priority s h) |> /\
  (forall u, effective_priority s' u = effective_priority s u) /\
  (forall q, ready s = RPos q ->
     ready s' = match pos_reschedule HPV q (fun o => task_key s h (Z.to_nat o))
                                     (effective_priority s h) with
                | None => RPos q | Some (_, q') => RPos q' end).
Proof.
  intros Hp Hr Hw s'. unfold s', propagate_priority. rewrite propagate_runnable by auto.
  unfold task_reschedule. split; [reflexivity|]. split.
  - intros u. unfold effective_priority. apply eprio_ext; [intros; split; reflexivity|intros; reflexivity].
  - intros q Eq. cbn. rewrite Eq. cbn. destruct (pos_reschedule HPV q _ _) as [[o q']|]; reflexivity.
Qed.
